(* Abstract field of values: the cell-wise algebra theorems are proved once for every
   field K (hence for the reals) and executed at K := Qc (canonical rationals). *)
From Coq Require Import Field Qcanon.
From DF Require Import Prelude.

Record FOps := mkFOps {
  F :> Type;
  f0 : F; f1 : F;
  fadd : F -> F -> F; fmul : F -> F -> F; fsub : F -> F -> F; fdiv : F -> F -> F;
  fopp : F -> F; finv : F -> F
}.

Arguments fadd {_}. Arguments fmul {_}. Arguments fsub {_}. Arguments fdiv {_}.
Arguments fopp {_}. Arguments finv {_}.

Definition FLaws (K : FOps) : Prop :=
  field_theory (f0 K) (f1 K) (@fadd K) (@fmul K) (@fsub K) (@fopp K) (@fdiv K) (@finv K) eq.

Definition QcOps : FOps := mkFOps Qc 0%Qc 1%Qc Qcplus Qcmult Qcminus Qcdiv Qcopp Qcinv.
Lemma QcLaws : FLaws QcOps.
Proof. exact Qcft. Qed.

Definition f2 (K : FOps) : K := fadd (f1 K) (f1 K).
Fixpoint fnat (K : FOps) (n : nat) : K :=
  match n with O => f0 K | S n' => fadd (fnat K n') (f1 K) end.

Definition fsum (K : FOps) (l : list K) : K := fold_right (@fadd K) (f0 K) l.

(* executable helpers at Qc *)
Definition qc (x : Q) : Qc := Q2Qc x.
Definition qcl (l : list Q) : list Qc := map Q2Qc l.
Definition qc_eqb (a b : Qc) : bool := Qeq_bool (this a) (this b).
Definition qclist_eqb (l1 l2 : list Qc) : bool := forallb2 qc_eqb l1 l2.
(* |a-b| <= tol*scale, computed in Q *)
Definition qc_close (tol scale : Q) (a b : Qc) : bool := qclose tol scale (this a) (this b).

(* integers in K (used for stencil coefficients read from the source) *)
Definition fz (K : FOps) (z : Z) : K :=
  match z with
  | Z0 => f0 K
  | Zpos p => fnat K (Pos.to_nat p)
  | Zneg p => fopp (fnat K (Pos.to_nat p))
  end.
Definition lincomb (K : FOps) (cs : list Z) (xs : list K) : K :=
  fold_right fadd (f0 K) (map2 (fun c x => fmul (fz K c) x) cs xs).
