(* n-d arrays as index functions with a shape; C-order enumeration, ravel,
   lines along an axis, along_axis.  Definitions only. *)
From DF Require Import Prelude.

Notation idx := (list nat).

(* all indices of a shape in C order (last axis fastest) *)
Fixpoint indices (sh : list nat) : list idx :=
  match sh with
  | [] => [[]]
  | k :: rest => flat_map (fun i => map (cons i) (indices rest)) (iota 0 k)
  end.

(* position of an index in C order *)
Fixpoint ravel (sh : list nat) (i : idx) : nat :=
  match sh, i with
  | k :: sh', j :: i' => (j * nprod sh' + ravel sh' i')%nat
  | _, _ => 0%nat
  end.

Fixpoint inb (sh : list nat) (i : idx) : bool :=
  match sh, i with
  | [], [] => true
  | k :: sh', j :: i' => (j <? k)%nat && inb sh' i'
  | _, _ => false
  end.

Definition of_list {V} (d : V) (sh : list nat) (l : list V) : idx -> V :=
  fun i => nth (ravel sh i) l d.
Definition to_list {V} (sh : list nat) (f : idx -> V) : list V := map f (indices sh).

(* the grid line through i along axis ax *)
Definition line {V} (sh : list nat) (f : idx -> V) (ax : nat) (i : idx) : list V :=
  map (fun j => f (set_nth ax j i)) (iota 0 (nth ax sh 0%nat)).

(* apply a 1-d list operator along axis ax *)
Definition along_axis {V} (d : V) (sh : list nat) (ax : nat) (g : list V -> list V) (f : idx -> V) : idx -> V :=
  fun i => nth (nth ax i 0%nat) (g (line sh f ax i)) d.

(* same with a second array (e.g. validity) whose line is taken with the trailing
   component index removed *)
Definition along_axis2 {V W} (d : V) (sh : list nat) (ax : nat)
           (g : list V -> list W -> list V) (f : idx -> V) (shw : list nat) (w : idx -> W) : idx -> V :=
  fun i => nth (nth ax i 0%nat) (g (line sh f ax i) (line shw w ax (removelast i))) d.

Definition sum_axis_list {V} (add : V -> V -> V) (zero : V) (l : list V) : V := fold_right add zero l.

Definition znat (l : list Z) : list nat := map Z.to_nat l.
