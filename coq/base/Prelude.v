(* Prelude: result type, list helpers, rational helpers shared by all models.
   Definitions only (plus a few tiny structural lemmas); no property lives here. *)
From Coq Require Export String.
From Coq Require Export List ZArith QArith Qround Qabs Qminmax Bool Lia.
From Coq Require Export Lqa.
Export ListNotations.

Set Implicit Arguments.

(* ---------- results ---------- *)
Inductive err := TypeE | ValueE | IndexE | KeyE | RuntimeE | AttrE | NotImplE.
Inductive res (A : Type) := OK (a : A) | Err (e : err).
Arguments OK {A} a.
Arguments Err {A} e.

Definition is_ok {A} (r : res A) : bool := match r with OK _ => true | Err _ => false end.
Definition bind {A B} (r : res A) (f : A -> res B) : res B :=
  match r with OK a => f a | Err e => Err e end.
Notation "'do' x <- r ; k" := (bind r (fun x => k)) (at level 200, x name, r at level 100, k at level 200).

(* ---------- lists ---------- *)
Fixpoint map2 {A B C} (f : A -> B -> C) (l1 : list A) (l2 : list B) : list C :=
  match l1, l2 with
  | a :: l1', b :: l2' => f a b :: map2 f l1' l2'
  | _, _ => []
  end.

Fixpoint map3 {A B C D} (f : A -> B -> C -> D) (l1 : list A) (l2 : list B) (l3 : list C) : list D :=
  match l1, l2, l3 with
  | a :: l1', b :: l2', c :: l3' => f a b c :: map3 f l1' l2' l3'
  | _, _, _ => []
  end.

Fixpoint forallb2 {A B} (f : A -> B -> bool) (l1 : list A) (l2 : list B) : bool :=
  match l1, l2 with
  | [], [] => true
  | a :: l1', b :: l2' => f a b && forallb2 f l1' l2'
  | _, _ => false
  end.

Fixpoint iota (k n : nat) : list nat :=
  match n with O => [] | S n' => k :: iota (S k) n' end.

Fixpoint ziota (k : Z) (n : nat) : list Z :=
  match n with O => [] | S n' => k :: ziota (k + 1) n' end.

Fixpoint set_nth {A} (i : nat) (x : A) (l : list A) : list A :=
  match l, i with
  | [], _ => []
  | _ :: t, O => x :: t
  | h :: t, S i' => h :: set_nth i' x t
  end.

Fixpoint remove_nth {A} (i : nat) (l : list A) : list A :=
  match l, i with
  | [], _ => []
  | _ :: t, O => t
  | h :: t, S i' => h :: remove_nth i' t
  end.

Fixpoint insert_nth {A} (i : nat) (x : A) (l : list A) : list A :=
  match i, l with
  | O, _ => x :: l
  | S i', [] => [x]
  | S i', h :: t => h :: insert_nth i' x t
  end.

Fixpoint index_of (s : string) (l : list string) : option nat :=
  match l with
  | [] => None
  | h :: t => if String.eqb s h then Some 0%nat else option_map S (index_of s t)
  end.

Fixpoint nodupb (l : list string) : bool :=
  match l with
  | [] => true
  | h :: t => negb (existsb (String.eqb h) t) && nodupb t
  end.

(* indices of the entries that are false: the failing cases of a shard *)
Fixpoint failing (k : nat) (l : list bool) : list nat :=
  match l with
  | [] => []
  | b :: t => if b then failing (S k) t else k :: failing (S k) t
  end.

Definition zprod (l : list Z) : Z := fold_right Z.mul 1%Z l.
Definition nprod (l : list nat) : nat := fold_right Nat.mul 1%nat l.

(* ---------- rationals ---------- *)
Definition Qltb (a b : Q) : bool := negb (Qle_bool b a).
Definition Qleb (a b : Q) : bool := Qle_bool a b.
Definition Qeqb (a b : Q) : bool := Qeq_bool a b.
Definition Qmin_l (d : Q) (l : list Q) : Q := fold_right Qmin d l.
Definition qlist_min (l : list Q) : Q :=
  match l with [] => 0 | h :: t => fold_left Qmin t h end.
Definition qsum (l : list Q) : Q := fold_right Qplus 0 l.
Definition qprod (l : list Q) : Q := fold_right Qmult 1 l.
Definition Qclip (lo hi x : Z) : Z := Z.max lo (Z.min hi x).

(* numpy.isclose(a, b, rtol, atol)  =  |a - b| <= atol + rtol * |b| *)
Definition isclose (rtol atol a b : Q) : bool :=
  Qle_bool (Qabs (a - b)) (atol + rtol * Qabs b).

(* relative-tolerance comparison used ONLY by the correspondence checkers in the
   scale regime: |a-b| <= tol * scale *)
Definition qclose (tol scale a b : Q) : bool := Qle_bool (Qabs (a - b)) (tol * scale).

Definition qlist_eqb (l1 l2 : list Q) : bool := forallb2 Qeq_bool l1 l2.
Definition zlist_eqb (l1 l2 : list Z) : bool := forallb2 Z.eqb l1 l2.
Definition natlist_eqb (l1 l2 : list nat) : bool := forallb2 Nat.eqb l1 l2.
Definition strlist_eqb (l1 l2 : list string) : bool := forallb2 String.eqb l1 l2.
Definition boollist_eqb (l1 l2 : list bool) : bool := forallb2 Bool.eqb l1 l2.

(* Python's round(): round half to even, on rationals *)
Definition Qround_half_even (x : Q) : Z :=
  let f := Qfloor x in
  let r := x - inject_Z f in
  match Qcompare r (1 # 2) with
  | Lt => f
  | Gt => (f + 1)%Z
  | Eq => if Z.even f then f else (f + 1)%Z
  end.

(* numpy.remainder(a, b) for b > 0: a - floor(a/b)*b *)
Definition Qremainder (a b : Q) : Q := a - inject_Z (Qfloor (a / b)) * b.
