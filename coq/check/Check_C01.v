(* Correspondence checker for C01: runs the model on a recorded input and compares
   with what the implementation returned.  [exact = true]: dyadic inputs, equality.
   [exact = false]: scale regime, relative tolerance / admissible-set comparison. *)
From DF Require Import Prelude Constants_gen Region Mesh.
Open Scope Q_scope.

Definition rel_tol : Q := 1 # 1000000000.            (* 1e-9 *)

Inductive c01_case :=
| CRegion (p1 p2 : list Q) (obs : option (list Q * list Q))
| CI2P (exact : bool) (p1 p2 : list Q) (n_ : list Z) (tf_ : Q) (i : list Z) (obs : option (list Q))
| CP2I (exact : bool) (p1 p2 : list Q) (n_ : list Z) (tf_ : Q) (p : list Q) (obs_in : bool) (obs : option (list Z))
| CLattice (exact : bool) (p1 p2 : list Q) (n_ : list Z)
           (obs_len : Z) (obs_indices : list (list Z)) (obs_points : list (list Q))
           (obs_cells obs_vertices : list (list Q)) (obs_coord : list (list Q))
| CByCell (exact : bool) (p1 p2 c : list Q) (tf_ : Q) (obs : option (list Z)).

Definition build (p1 p2 : list Q) (n_ : list Z) (tf_ : Q) : res mesh :=
  do r <- mk_region p1 p2 None None tf_; mk_mesh_n r n_.

Definition axis_scale (lo hi : Q) : Q := Qmax (Qmax (Qabs lo) (Qabs hi)) (hi - lo).
Definition scales (m : mesh) : list Q := map2 axis_scale (pmin (reg m)) (pmax (reg m)).

Definition qlist_close (exact : bool) (sc a b : list Q) : bool :=
  if exact then qlist_eqb a b
  else (length a =? length b)%nat && (length a =? length sc)%nat &&
       forallb (fun x => x) (map3 (fun s x y => qclose rel_tol s x y) sc a b).

Definition qll_close (exact : bool) (sc : list Q) (a b : list (list Q)) : bool :=
  forallb2 (qlist_close exact sc) a b.

(* per-axis lists (cells, vertices): every entry of axis a is compared at scale a *)
Definition axes_close (exact : bool) (sc : list Q) (a b : list (list Q)) : bool :=
  (length a =? length b)%nat && (length a =? length sc)%nat &&
  forallb (fun x => x)
    (map3 (fun s x y => if exact then qlist_eqb x y
                        else forallb2 (qclose rel_tol s) x y) sc a b).

(* scale regime: admissible indices for a point = cells containing it up to 1e-9 of the scale *)
(* t = the region's own comparison tolerance at p (atol + rtol |p|, loosened): points inside the tolerance
   band below pmin / above pmax legitimately map to the first / last cell *)
Definition idx_admissible1 (t lo c s : Q) (k j : Z) (p : Q) : bool :=
  in_range1 k j &&
  Qle_bool (lo + inject_Z j * c - t - rel_tol * s) p &&
  Qle_bool p (lo + (inject_Z j + 1) * c + t + rel_tol * s).

Fixpoint idx_admissible (rt at_ : Q) (los cs ss : list Q) (ks js : list Z) (ps : list Q) : bool :=
  match los, cs, ss, ks, js, ps with
  | [], [], [], [], [], [] => true
  | lo :: los', c :: cs', s :: ss', k :: ks', j :: js', p :: ps' =>
      idx_admissible1 (at_ + rt * Qabs p) lo c s k j p && idx_admissible rt at_ los' cs' ss' ks' js' ps'
  | _, _, _, _, _, _ => false
  end.

(* containment with the tolerance scaled by f (scale regime brackets the float decision) *)
Definition contains_scaled (f : Q) (r : region) (p : list Q) : bool :=
  (length p =? ndim r)%nat &&
  forallb (fun b => b) (map3 (contains1 (tf r * f) (reg_atol r * f)) (pmin r) (pmax r) p).

Definition opt_eqb {A} (eqb : A -> A -> bool) (a b : option A) : bool :=
  match a, b with Some x, Some y => eqb x y | None, None => true | _, _ => false end.

Definition res2opt {A} (r : res A) : option A := match r with OK a => Some a | Err _ => None end.

Definition check_C01 (c : c01_case) : bool :=
  match c with
  | CRegion p1 p2 obs =>
      match mk_region p1 p2 None None (1 # 1000000000000), obs with
      | OK r, Some (lo, hi) => qlist_eqb (pmin r) lo && qlist_eqb (pmax r) hi
      | Err _, None => true
      | _, _ => false
      end
  | CI2P exact p1 p2 n_ tf_ i obs =>
      match build p1 p2 n_ tf_ with
      | Err _ => false
      | OK m =>
          match index2point m i, obs with
          | OK p, Some q => qlist_close exact (scales m) p q
          | Err _, None => true
          | _, _ => false
          end
      end
  | CP2I exact p1 p2 n_ tf_ p obs_in obs =>
      match build p1 p2 n_ tf_ with
      | Err _ => false
      | OK m =>
          (* `p in region` for a point of the wrong length is numpy broadcasting, not specified by
             the property: only the rejection by point2index is compared there *)
          if negb (length p =? ndim (reg m))%nat then
            match obs with None => true | Some _ => false end
          else if exact then
            Bool.eqb (contains_pt (reg m) p) obs_in &&
            opt_eqb zlist_eqb (res2opt (point2index m p)) obs
          else
            let strict := contains_scaled (999999 # 1000000) (reg m) p in
            let loose := contains_scaled (1000001 # 1000000) (reg m) p in
            (implb strict obs_in) && (implb obs_in loose) &&
            match obs with
            | None => negb strict
            | Some j => loose && idx_admissible (tf (reg m) * (1000001 # 1000000)) (reg_atol (reg m) * (1000001 # 1000000))
                                          (pmin (reg m)) (cell m) (scales m) (n m) j p
            end
      end
  | CLattice exact p1 p2 n_ obs_len obs_indices obs_points obs_cells obs_vertices obs_coord =>
      match build p1 p2 n_ (1 # 1000000000000) with
      | Err _ => false
      | OK m =>
          let idxs := indices_xfast (n m) in
          let pts := map (fun i => match index2point m i with OK p => p | Err _ => [] end) idxs in
          (mesh_len m =? obs_len)%Z &&
          forallb2 zlist_eqb idxs obs_indices &&
          qll_close exact (scales m) pts obs_points &&
          axes_close exact (scales m) (cells m) obs_cells &&
          axes_close exact (scales m) (vertices m) obs_vertices &&
          qll_close exact (scales m) pts obs_coord
      end
  | CByCell exact p1 p2 c tf_ obs =>
      match mk_region p1 p2 None None tf_ with
      | Err _ => false
      | OK r =>
          match mesh_by_cell r c, obs with
          | OK m, Some k => zlist_eqb (n m) k
          | Err _, None => true
          | _, _ => false
          end
      end
  end.
