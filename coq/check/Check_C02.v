(* Correspondence checker for C02: runs the FieldCore model on a recorded input and compares
   with what the implementation returned.  Values are Gaussian rationals (re, im); real, integer and
   Boolean fields have im = 0.  [exact = true]: equality; [exact = false] (scale regime):
   |a - b| <= 1e-9 * scale per component. *)
From DF Require Import Prelude Constants_gen Region Mesh FieldCore.
Open Scope Q_scope.

Definition cv := (Q * Q)%type.
Definition cv0 : cv := (0, 0).
Definition cv_is_zero (v : cv) : bool := Qeq_bool (fst v) 0 && Qeq_bool (snd v) 0.
Definition cv_eqb (a b : cv) : bool := Qeq_bool (fst a) (fst b) && Qeq_bool (snd a) (snd b).
Definition cv_add (a b : cv) : cv := (fst a + fst b, snd a + snd b).
Definition cv_scale (x : Q) (a : cv) : cv := (x * fst a, x * snd a).
Definition cv_sum (l : list cv) : cv := fold_right cv_add cv0 l.

Definition rel_tol : Q := 1 # 1000000000.

Definition cv_cmp (exact : bool) (scale : Q) (a b : cv) : bool :=
  if exact then cv_eqb a b
  else qclose rel_tol scale (fst a) (fst b) && qclose rel_tol scale (snd a) (snd b).
Definition cvl_cmp (exact : bool) (scale : Q) (a b : list cv) : bool := forallb2 (cv_cmp exact scale) a b.

(* ---------- encodable callables ---------- *)
Inductive vfun :=
| FAffine (c : list cv) (A : list (list cv))     (* component k: c_k + sum_a A_k,a * p_a *)
| FQuad (c : list cv)                            (* component k: c_k * sum_a p_a^2 *)
| FConstLen (v : cv) (k : nat)                   (* k copies of v whatever nvdim is *)
| FBadAt (f : vfun) (centre_ : list Q) (k : nat). (* f, except at one cell centre: k values (or an exception) *)

Fixpoint eval_fun (f : vfun) (p : list Q) : list cv :=
  match f with
  | FAffine c A => map2 (fun ck row => cv_add ck (cv_sum (map2 cv_scale p row))) c A
  | FQuad c => map (cv_scale (qsum (map (fun x => x * x) p))) c
  | FConstLen v k => repeat v k
  | FBadAt g ctr k => if qlist_eqb p ctr then repeat cv0 k else eval_fun g p
  end.

(* ---------- encodable meshes, fields and specifications ---------- *)
Inductive meshd :=
| MeshD (p1 p2 : list Q) (n_ : list Z) (tf_ : Q) (dims_ : option (list string))
        (subs_ : list (string * (list Q * list Q))).

Definition build_mesh (d : meshd) : res mesh :=
  match d with
  | MeshD p1 p2 n_ tf_ dims_ subs_ =>
      do r <- mk_region p1 p2 dims_ None tf_;
      do m <- mk_mesh_n r n_;
      OK (mkMesh r n_ ""
            (map (fun s => (fst s, mkRegion (fst (snd s)) (snd (snd s)) (dims r) (units r) tf_)) subs_))
  end.

Definition arr_of_data (ns : list Z) (nv : nat) (data : list cv) : zidx -> list cv :=
  fun i => map (fun k => nda_at cv0 (ns ++ [Z.of_nat nv]) data (i ++ [k])) (ziota 0 nv).

Definition build_src (d : meshd) (nv : nat) (data : list cv) : res (fstate cv) :=
  do m <- build_mesh d; OK (mkF m nv (arr_of_data (n m) nv data) (default_vdims nv)).

Inductive vs :=
| VConst (v : cv)
| VArr (sh : list Z) (data : list cv)
| VFun (f : vfun)
| VField (d : meshd) (nv : nat) (data : list cv)
| VBad.

Inductive vdflt :=
| VDNone
| VDFill (s : vs)
| VDCall (f : vfun)
| VDSample (d : meshd) (nv : nat) (data : list cv).

Inductive vspec :=
| VSimple (s : vs)
| VDict (items : list (string * vs)) (d : vdflt).

Definition to_sspec (s : vs) : res (sspec cv) :=
  match s with
  | VConst v => OK (SConst v)
  | VArr sh data => OK (SArr sh data)
  | VFun f => OK (SFun (eval_fun f))
  | VField d nv data => do f <- build_src d nv data; OK (SField f)
  | VBad => OK SBad
  end.

Definition to_spec (s : vspec) : res (spec cv) :=
  match s with
  | VSimple s => do s' <- to_sspec s; OK (Simple s')
  | VDict items d =>
      do items' <- mapres (fun ks => do s' <- to_sspec (snd ks); OK (fst ks, s')) items;
      do d' <- match d with
               | VDNone => OK DNone
               | VDFill s => do s' <- to_sspec s; OK (DFill s')
               | VDCall f => OK (DCall (eval_fun f))
               | VDSample d nv data => do f <- build_src d nv data; OK (DSample f)
               end;
      OK (Dict items' d')
  end.

Definition flat (m : mesh) (a : zidx -> list cv) : list cv := flat_map a (indices_c (n m)).

Definition mk (d : meshd) (nv : nat) (s : vspec) (vd : option (list string)) : res (res (fstate cv)) :=
  do m <- build_mesh d; do sp <- to_spec s; OK (mk_field cv0 cv_is_zero m nv sp vd).

(* ---------- admissible nearest source cells (a tie may go either way) ---------- *)
Definition cand1 (lo c : Q) (k : Z) (q : Q) : list Z :=
  let j := p2i1 lo c k q in
  if Qeq_bool (lo + inject_Z j * c) q && (0 <? j)%Z then [j; (j - 1)%Z] else [j].

Definition cands (s : mesh) (q : list Q) : list zidx :=
  fold_right (fun cs acc => flat_map (fun j => map (cons j) acc) cs) [[]]
    (map3 (fun lc k x => cand1 (fst lc) (snd lc) k x) (combine (pmin (reg s)) (cell s)) (n s) q).

Fixpoint chunks {A} (k : nat) (fuel : nat) (l : list A) : list (list A) :=
  match fuel with
  | O => []
  | S fuel' => match l with [] => [] | _ => firstn k l :: chunks k fuel' (skipn k l) end
  end.

Definition field_adm (m : mesh) (nv : nat) (src : fstate cv) (obs : list cv) : bool :=
  let idxs := indices_c (n m) in
  let rows := chunks nv (length idxs) obs in
  (length obs =? length idxs * nv)%nat &&
  forallb2 (fun i row =>
              existsb (fun j => cvl_cmp true 0 (farr src j) row) (cands (fmesh src) (centre m i)))
           idxs rows.

(* scale regime: cells whose closed extent, widened by tol, contains the point *)
Definition cand_tol1 (tol lo c : Q) (k : Z) (q : Q) : list Z :=
  let j := p2i1 lo c k q in
  filter (fun i => in_range1 k i && Qle_bool (lo + inject_Z i * c - tol) q &&
                   Qle_bool q (lo + (inject_Z i + 1) * c + tol)) [(j - 1)%Z; j; (j + 1)%Z].

Definition cands_tol (tol : Q) (s : mesh) (q : list Q) : list zidx :=
  fold_right (fun cs acc => flat_map (fun j => map (cons j) acc) cs) [[]]
    (map3 (fun lc k x => cand_tol1 tol (fst lc) (snd lc) k x) (combine (pmin (reg s)) (cell s)) (n s) q).

Inductive c02_case :=
| CInit (exact : bool) (scale : Q) (d : meshd) (nv : nat) (s : vspec) (obs : option (list cv))
| CAssign (d : meshd) (nv : nat) (s0 s1 : vspec) (obs_ok : bool) (obs_after : list cv)
| CSample (exact : bool) (scale : Q) (d : meshd) (nv : nat) (s : vspec) (p : list Q) (obs : option (list cv))
| CComp (d : meshd) (nv : nat) (s : vspec) (vd : option (list string)) (label : string)
        (obs : option (list cv))
| CIter (d : meshd) (nv : nat) (s : vspec) (obs : list (list cv))
| CLine (d : meshd) (nv : nat) (s : vspec) (p1 p2 : list Q) (k : Z)
        (obs : option (list (list Q) * list (list cv) * list Q))
| CLineS (tol : Q) (d : meshd) (nv : nat) (s : vspec) (p1 p2 : list Q) (k : Z)
         (obs : option (list (list Q) * list (list cv))).

Definition r_ok (r2max : Q) (r : Q) (r2 : Q) : bool :=
  Qle_bool 0 r && qclose rel_tol r2max (r * r) r2.

Definition check_C02 (c : c02_case) : bool :=
  match c with
  | CInit exact scale d nv s obs =>
      match mk d nv s None with
      | Err _ => false
      | OK (Err _) => match obs with None => true | Some _ => false end
      | OK (OK f) =>
          match obs with
          | None => false
          | Some o =>
              (length o =? length (flat (fmesh f) (farr f)))%nat &&
              (cvl_cmp exact scale (flat (fmesh f) (farr f)) o ||
               match s with
               | VSimple (VField sd snv sdata) =>
                   match build_src sd snv sdata with
                   | OK src => field_adm (fmesh f) nv src o
                   | Err _ => false
                   end
               | _ => false
               end)
          end
      end
  | CAssign d nv s0 s1 obs_ok obs_after =>
      match mk d nv s0 None, to_spec s1 with
      | OK (OK f), OK sp1 =>
          Bool.eqb (is_ok (set_array cv0 cv_is_zero f sp1)) obs_ok &&
          let f' := assign cv0 cv_is_zero f sp1 in
          cvl_cmp true 0 (flat (fmesh f') (farr f')) obs_after
      | _, _ => false
      end
  | CSample exact scale d nv s p obs =>
      match mk d nv s None with
      | OK (OK f) =>
          match sample f p, obs with
          | OK v, Some o => cvl_cmp exact scale v o
          | Err _, None => true
          | _, _ => false
          end
      | _ => false
      end
  | CComp d nv s vd label obs =>
      match mk d nv s vd with
      | OK (OK f) =>
          match component cv0 f label, obs with
          | OK g, Some o => (fnv g =? 1)%nat && cvl_cmp true 0 (flat (fmesh g) (farr g)) o
          | Err _, None => true
          | _, _ => false
          end
      | _ => false
      end
  | CIter d nv s obs =>
      match mk d nv s None with
      | OK (OK f) =>
          forallb2 (fun r o => match r with OK v => cvl_cmp true 0 v o | Err _ => false end) (iterate f) obs
      | _ => false
      end
  | CLine d nv s p1 p2 k obs =>
      match mk d nv s None with
      | OK (OK f) =>
          match field_line f p1 p2 k, obs with
          | OK l, Some (pts, vals, rs) =>
              forallb2 qlist_eqb (l_points l) pts &&
              forallb2 (cvl_cmp true 0) (l_values l) vals &&
              forallb2 (r_ok (dist2 p1 p2)) rs (l_r2 l)
          | Err _, None => true
          | _, _ => false
          end
      | _ => false
      end
  | CLineS tol d nv s p1 p2 k obs =>
      (* non-dyadic end points: the points agree within tol and EVERY value is the stored value of a
         cell that contains the returned point (within tol) *)
      match mk d nv s None with
      | OK (OK f) =>
          match mesh_line (fmesh f) p1 p2 k, obs with
          | OK pts, Some (opts, ovals) =>
              (length opts =? length pts)%nat && (length ovals =? length pts)%nat &&
              forallb2 (fun p q => forallb2 (qclose tol 1) p q) pts opts &&
              forallb2 (fun q v => (length q =? length (pmin (reg (fmesh f))))%nat &&
                                   existsb (fun j => cvl_cmp true 0 (farr f j) v) (cands_tol tol (fmesh f) q))
                       opts ovals
          | Err _, None => true
          | _, _ => false
          end
      | _ => false
      end
  end.
