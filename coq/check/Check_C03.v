(* Correspondence checker for C03: evaluates the model of the Field algebra (Ops.v) at the
   complex rationals CQ on a recorded expression tree and compares with what the implementation
   returned: accept/reject, mesh, nvdim, array (exactly when tol = 0, else |re|+|im| distance <= tol,
   an absolute tolerance the harness derives from the scale of the case), validity, labels,
   mapping (as a set), object identity. *)
From Coq Require Import Qcanon.
From DF Require Export Prelude FieldK Region Mesh Ops.
Open Scope Q_scope.

(* pmin, pmax, n, dims, units, tolerance_factor *)
Definition mesh_lit := (list Q * list Q * list Z * list string * list string * Q)%type.
Definition build_mesh (m : mesh_lit) : mesh :=
  match m with (lo, hi, n_, ds, us, t) => mkMesh (mkRegion lo hi ds us t) n_ "" [] end.

(* mesh index, nvdim, cells (C order; a cell = list of (re, im)), valid, vdims, vdim_mapping *)
Definition field_lit :=
  (nat * nat * list (list (Q * Q)) * list bool * option (list string) * list (string * string))%type.

Definition cells_cq (l : list (list (Q * Q))) : list (list (F CQ)) :=
  map (map (fun p => cq (fst p) (snd p))) l.

Definition build_field (ms : list mesh) (f : field_lit) : field CQ :=
  match f with
  | (mi, nv, cells, valid, vd, vm) =>
      mkField CQ (nth mi ms (build_mesh ([], [], [], [], [], 0))) nv (cells_cq cells) valid vd vm
  end.

Inductive c03_case :=
| CExpr (tol : Q) (meshes : list mesh_lit) (fields : list field_lit) (e : expr CQ)
        (t1 : list (nat * F CQ * F CQ)) (t2 : list (nat * F CQ * F CQ * F CQ))
        (obs : option field_lit) (obs_alias : option nat).

Definition opt_strs_eqb (a b : option (list string)) : bool :=
  match a, b with Some x, Some y => strlist_eqb x y | None, None => true | _, _ => false end.
Definition pair_mem (kv : string * string) (m : list (string * string)) : bool :=
  existsb (fun p => String.eqb (fst p) (fst kv) && String.eqb (snd p) (snd kv)) m.
Definition vmap_eqb (a b : list (string * string)) : bool :=
  (length a =? length b)%nat && forallb (fun kv => pair_mem kv b) a && forallb (fun kv => pair_mem kv a) b.
Definition optnat_eqb (a b : option nat) : bool :=
  match a, b with Some x, Some y => (x =? y)%nat | None, None => true | _, _ => false end.

Definition arr_close (tol : Q) (a b : list (list (F CQ))) : bool :=
  forallb2 (forallb2 (cq_close tol)) a b.

Definition check_C03 (c : c03_case) : bool :=
  match c with
  | CExpr tol mls fls e t1 t2 obs obs_alias =>
      let ms := map build_mesh mls in
      let rho := map (build_field ms) fls in
      let r := eval CQ (un_cq tol t1) (lookup2 tol t2) rho e in
      match r, obs with
      | Err _, None => true
      | OK (VF f), Some (mi, nv, cells, valid, vd, vm) =>
          mesh_eqb (fmesh f) (nth mi ms (build_mesh ([], [], [], [], [], 0))) &&
          (fnv f =? nv)%nat &&
          forallb (fun v => (length v =? nv)%nat) (farr f) &&
          arr_close tol (farr f) (cells_cq cells) &&
          boollist_eqb (fvalid f) valid &&
          opt_strs_eqb (fvdims f) vd &&
          vmap_eqb (fvmap f) vm &&
          optnat_eqb (alias_of e) obs_alias
      | _, _ => false
      end
  end.
