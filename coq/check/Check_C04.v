(* Correspondence checker for C04: Field.diff on an n-d array (exact regime: integer data,
   power-of-two cell size, so the float implementation is the rational model). *)
From Coq Require Import Qcanon.
From DF Require Import Prelude FieldK NDArray Diff.

Inductive c04_case :=
| CDiff (sh : list nat) (nvdim : nat) (ax : nat) (order : nat) (h : Q)
        (periodic restrict : bool) (vals : list Q) (valid : list bool) (obs : list Q).

Definition check_C04 (c : c04_case) : bool :=
  match c with
  | CDiff sh nvdim ax order h periodic restrict vals valid obs =>
      let fsh := sh ++ [nvdim] in
      let f := of_list (f0 QcOps) fsh (qcl vals) in
      let v := of_list true sh valid in
      let r := diff_nd QcOps sh nvdim ax order (qc h) periodic restrict f v in
      (length vals =? nprod fsh)%nat && (length valid =? nprod sh)%nat &&
      qclist_eqb (to_list fsh r) (qcl obs)
  end.
