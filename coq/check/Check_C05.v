(* Correspondence checker for C05: one call of Field.grad / div / curl / laplace.
   exact = true : dyadic data, power-of-two cells -> the float implementation IS the rational model, equality.
   exact = false: scale regime (decimal cells 1e-12..1e6, arbitrary values): |model - observed| <= 1e-9 * scale
                  with scale = 16 * ndim * max|value| / min(cell)^order  (rounding is ~1e-16 of that scale,
                  a wrong coefficient, axis or component is ~1 of it). *)
From Coq Require Import Qcanon.
From DF Require Import Prelude FieldK NDArray Diff.
From DF Require Export Calculus.
Open Scope Q_scope.

Definition c05_tol : Q := 1 # 1000000000.

Inductive c05_case :=
| COp (exact : bool) (op : cop)
      (sh : list nat) (cell : list Q) (per : list bool) (dims : list string)
      (nv : nat) (vdims : option (list string)) (vmap : sdict)
      (vals : list Q) (valid : list bool)
      (* observed: None = the call raised; Some (result nvdim, result array in C order,
         result vdims, result vdim_mapping) *)
      (obs : option (nat * list Q * option (list string) * sdict))
(* complex-valued fields: the operators have real coefficients, so the real and the imaginary parts
   are two instances of the same call *)
| CBoth (re im : c05_case).

Definition qmaxabs (l : list Q) : Q := fold_right (fun x m => Qmax (Qabs x) m) 0 l.
Definition qminl (l : list Q) : Q := match l with [] => 1 | h :: t => fold_right Qmin h t end.

Definition optnat_eqb (a b : option nat) : bool :=
  match a, b with
  | Some x, Some y => (x =? y)%nat
  | None, None => true
  | _, _ => false
  end.

Definition optstrs_eqb (a b : option (list string)) : bool :=
  match a, b with
  | Some x, Some y => strlist_eqb x y
  | None, None => true
  | _, _ => false
  end.

Fixpoint check_C05 (c : c05_case) : bool :=
  match c with
  | CBoth re im => check_C05 re && check_C05 im
  | COp exact op sh cell per dims nv vdims vmap vals valid obs =>
      let nd := length sh in
      let fsh := sh ++ [nv] in
      let M := mkCMesh QcOps sh (qcl cell) per in
      let f := of_list (f0 QcOps) fsh (qcl vals) in
      let v := of_list true sh valid in
      (length vals =? nprod fsh)%nat && (length valid =? nprod sh)%nat &&
      (length cell =? nd)%nat && (length per =? nd)%nat && (length dims =? nd)%nat &&
      match run_op QcOps op M dims nv vdims vmap f v, obs with
      | Err _, None => true
      | OK (nvo, r), Some (onv, oarr, ovdims, ovmap) =>
          (nvo =? onv)%nat &&
          (let model := to_list (sh ++ [nvo]) r in
           if exact then qclist_eqb model (qcl oarr)
           else
             let order : Z := match op with OLap => 2%Z | _ => 1%Z end in
             let hm := qminl cell in
             let sc := (16 * inject_Z (Z.of_nat nd)) * qmaxabs vals / (hm ^ order) in
             forallb2 (qc_close c05_tol sc) model (qcl oarr)) &&
          match expected_axes op nd nv vdims vmap dims with
          | None => true
          | Some ax => forallb2 optnat_eqb ax (soft_axes ovdims ovmap dims)
          end &&
          (* the vector Laplacian keeps the labels themselves *)
          match op with
          | OLap => if (2 <=? nv)%nat then optstrs_eqb vdims ovdims else true
          | _ => true
          end
      | _, _ => false
      end
  end.
