(* Correspondence checker for C06 (exact regime: integer data, dyadic cells). *)
From Coq Require Import Qcanon.
From DF Require Import Prelude FieldK NDArray Integrate.

Inductive c06_case :=
| CIntAll (sh : list nat) (nvdim : nat) (dV : Q) (vals : list Q) (obs : list Q)
| CIntDir (sh : list nat) (nvdim : nat) (ax : nat) (h : Q) (vals : list Q) (obs : list Q)
| CIntCum (sh : list nat) (nvdim : nat) (ax : nat) (h : Q) (vals : list Q) (obs : list Q)
| CMeanAll (sh : list nat) (nvdim : nat) (vals : list Q) (scale : Q) (obs : list Q)
| CMeanDir (sh : list nat) (nvdim : nat) (ax : nat) (vals : list Q) (scale : Q) (obs : list Q).

Definition mean_tol : Q := 1 # 1000000000000.

Definition check_C06 (c : c06_case) : bool :=
  match c with
  | CIntAll sh nvdim dV vals obs =>
      let f := of_list (f0 QcOps) (sh ++ [nvdim]) (qcl vals) in
      (length vals =? nprod (sh ++ [nvdim]))%nat &&
      qclist_eqb (integrate_all QcOps sh nvdim (qc dV) f) (qcl obs)
  | CIntDir sh nvdim ax h vals obs =>
      let f := of_list (f0 QcOps) (sh ++ [nvdim]) (qcl vals) in
      (length vals =? nprod (sh ++ [nvdim]))%nat &&
      qclist_eqb (to_list (remove_nth ax sh ++ [nvdim]) (integrate_dir QcOps sh nvdim ax (qc h) f)) (qcl obs)
  | CIntCum sh nvdim ax h vals obs =>
      let f := of_list (f0 QcOps) (sh ++ [nvdim]) (qcl vals) in
      (length vals =? nprod (sh ++ [nvdim]))%nat &&
      qclist_eqb (to_list (sh ++ [nvdim]) (integrate_cum QcOps sh nvdim ax (qc h) f)) (qcl obs)
  | CMeanAll sh nvdim vals scale obs =>
      let f := of_list (f0 QcOps) (sh ++ [nvdim]) (qcl vals) in
      (length vals =? nprod (sh ++ [nvdim]))%nat &&
      forallb2 (qc_close mean_tol scale) (mean_all QcOps sh nvdim f) (qcl obs)
  | CMeanDir sh nvdim ax vals scale obs =>
      let f := of_list (f0 QcOps) (sh ++ [nvdim]) (qcl vals) in
      (length vals =? nprod (sh ++ [nvdim]))%nat &&
      forallb2 (qc_close mean_tol scale)
        (to_list (remove_nth ax sh ++ [nvdim]) (mean_dir QcOps sh nvdim ax f)) (qcl obs)
  end.
