(* Correspondence checker for C07: runs the selection / extraction / padding / resampling
   model on a recorded source field and request and compares mesh, values and validity
   with what the implementation returned.
   Exact regime (dyadic geometry, integer values): equality.
   Scale regime ([CBlockScale]): decimal geometry; the result must be a lattice block whose
   first / last cell indices are admissible for the request within 1e-9 relative, with the
   values and validity of exactly those source cells. *)
From DF Require Export Prelude Constants_gen Region Mesh Select.
Open Scope Q_scope.

Definition rel_tol : Q := 1 # 1000000000.            (* 1e-9 *)

Notation vec := (list Q).
Notation subobs := (list (string * (list Q * list Q))).

Record src := mkSrc {
  s_p1 : list Q; s_p2 : list Q; s_n : list Z; s_tf : Q;
  s_dims : list string; s_subs : subobs;
  s_nvdim : nat; s_vals : list vec; s_valid : list bool
}.

Inductive obsmesh := ObsMesh (lo hi : list Q) (n_ : list Z) (dims_ : list string) (subs_ : subobs).
Inductive obsfield := ObsField (m : obsmesh) (vals : list vec) (valid : list bool) | ObsValue (v : vec).

Inductive c07_case :=
| CSel (s : src) (a : nat) (arg : selarg) (om : option obsmesh) (ofd : option obsfield)
| CGetRegion (s : src) (q1 q2 : list Q) (om : option obsmesh) (ofd : option obsfield)
| CGetName (s : src) (name : string) (om : option obsmesh) (ofd : option obsfield)
| CSlices (s : src) (q1 q2 : list Q) (o : option (list (Z * Z)))
| CPad (s : src) (pw : list (Z * Z)) (md : pmode) (om : option obsmesh) (ofd : option obsfield)
| CResample (s : src) (n' : list Z) (ofd : option obsfield)
(* scale regime: request kind 0 = range selection on axis a with (x1,x2) = (head q1, head q2);
   1 = extraction by region (q1,q2); observed result field *)
| CBlockScale (s : src) (kind : nat) (a : nat) (q1 q2 : list Q) (ofd : option obsfield).

(* ---------- building the source ---------- *)
Definition mk_sub (r : region) (x : string * (list Q * list Q)) : string * region :=
  (fst x, mkRegion (fst (snd x)) (snd (snd x)) (dims r) (units r) (tf r)).

Definition build_mesh (s : src) : res mesh :=
  do r <- mk_region (s_p1 s) (s_p2 s) (Some (s_dims s)) None (s_tf s);
  do m <- mk_mesh_n r (s_n s);
  OK (mkMesh (reg m) (n m) "" (map (mk_sub r) (s_subs s))).

Definition build_field (s : src) : res (field vec) :=
  do m <- build_mesh s;
  if negb (length (s_vals s) =? Z.to_nat (zprod (s_n s)))%nat then Err ValueE else
  if negb (length (s_valid s) =? Z.to_nat (zprod (s_n s)))%nat then Err ValueE else
  OK (mkField m (arr_of [] (s_n s) (s_vals s)) (arr_of false (s_n s) (s_valid s))).

(* ---------- comparisons ---------- *)
Fixpoint sub_lookup (s : string) (l : subobs) : option (list Q * list Q) :=
  match l with
  | [] => None
  | (k, v) :: t => if String.eqb s k then Some v else sub_lookup s t
  end.

Definition subs_match (ms : list (string * region)) (os : subobs) : bool :=
  (length ms =? length os)%nat &&
  forallb (fun nr : string * region =>
             match sub_lookup (fst nr) os with
             | Some (lo, hi) => qlist_eqb (pmin (snd nr)) lo && qlist_eqb (pmax (snd nr)) hi
             | None => false
             end) ms.

Definition mesh_match (m : mesh) (o : obsmesh) : bool :=
  match o with
  | ObsMesh lo hi n_ dims_ subs_ =>
      qlist_eqb (pmin (reg m)) lo && qlist_eqb (pmax (reg m)) hi && zlist_eqb (n m) n_ &&
      strlist_eqb (dims (reg m)) dims_ && subs_match (subs m) subs_
  end.

Definition vecs_eqb (a b : list vec) : bool := forallb2 qlist_eqb a b.

Definition field_match (F : field vec) (o : obsfield) : bool :=
  match o with
  | ObsField om vals valid =>
      let ns := n (fmesh F) in
      mesh_match (fmesh F) om &&
      vecs_eqb (arr_list ns (fval F)) vals &&
      boollist_eqb (arr_list ns (fvalid F)) valid
  | ObsValue _ => false
  end.

Definition fres_match (r : fres vec) (o : obsfield) : bool :=
  match r, o with
  | FField F, ObsField _ _ _ => field_match F o
  | FValue v, ObsValue w => qlist_eqb v w
  | _, _ => false
  end.

Definition cmp {A B} (f : A -> B -> bool) (r : res A) (o : option B) : bool :=
  match r, o with
  | OK a, Some b => f a b
  | Err _, None => true
  | _, _ => false
  end.

Definition slices_eqb (a b : list (Z * Z)) : bool :=
  forallb2 (fun x y => Z.eqb (fst x) (fst y) && Z.eqb (snd x) (snd y)) a b.

(* ---------- resampling: admissible-set comparison ---------- *)
Fixpoint product {A} (l : list (list A)) : list (list A) :=
  match l with
  | [] => [[]]
  | h :: t => flat_map (fun x => map (cons x) (product t)) h
  end.

Definition resample_cands (m m' : mesh) (j : list Z) : list (list Z) :=
  let qs := map3 i2p1 (pmin (reg m')) (cell m') j in
  product (map3 (fun lc k q => filter (nearestb (fst lc) (snd lc) k q) (ziota 0 (Z.to_nat k)))
                (combine (pmin (reg m)) (cell m)) (n m) qs).

Definition resample_match (F : field vec) (n' : list Z) (o : obsfield) : bool :=
  match resample_mesh (fmesh F) n', o with
  | OK m', ObsField om vals valid =>
      let idxs := indices_c n' in
      mesh_match m' om &&
      (length vals =? length idxs)%nat && (length valid =? length idxs)%nat &&
      forallb (fun jv : list Z * (vec * bool) =>
                 existsb (fun i => qlist_eqb (fval F i) (fst (snd jv)) &&
                                   Bool.eqb (fvalid F i) (snd (snd jv)))
                         (resample_cands (fmesh F) m' (fst jv)))
              (combine idxs (combine vals valid)) &&
      (* the modelled pick is itself admissible *)
      forallb (fun j => existsb (zlist_eqb (resample_src (fmesh F) m' j))
                                (resample_cands (fmesh F) m' j)) idxs
  | _, _ => false
  end.

(* ---------- scale regime: lattice block with admissible end cells ---------- *)
Definition axis_scale (lo hi : Q) : Q := Qmax (Qmax (Qabs lo) (Qabs hi)) (hi - lo).

(* cells whose closed extent, widened by eps cells, contains x *)
Definition cell_adm (lo c : Q) (k : Z) (eps : Q) (x : Q) (i : Z) : bool :=
  let t := (x - lo) / c in
  in_range1 k i &&
  (Qle_bool (inject_Z i - eps) t || (i =? 0)%Z) &&
  (Qle_bool t (inject_Z i + 1 + eps) || (i =? k - 1)%Z).

Definition block_axis_ok (lo hi : Q) (k : Z) (rlo rhi : Q) (rk : Z)
           (xlo xhi : option Q) : bool :=
  let c := cell_of lo hi k in
  let sc := axis_scale lo hi in
  let eps := rel_tol * sc / c in
  let off := Qround_half_even ((rlo - lo) / c) in
  qclose rel_tol sc rlo (lo + inject_Z off * c) &&
  qclose rel_tol sc rhi (lo + inject_Z (off + rk) * c) &&
  (0 <? rk)%Z && (0 <=? off)%Z && (off + rk <=? k)%Z &&
  match xlo with Some x => cell_adm lo c k eps x off | None => (off =? 0)%Z end &&
  match xhi with Some x => cell_adm lo c k eps x (off + rk - 1) | None => (off + rk =? k)%Z end.

Fixpoint block_ok (los his : list Q) (ks : list Z) (rlos rhis : list Q) (rks : list Z)
         (xlos xhis : list (option Q)) : bool :=
  match los, his, ks, rlos, rhis, rks, xlos, xhis with
  | [], [], [], [], [], [], [], [] => true
  | lo :: los', hi :: his', k :: ks', rlo :: rlos', rhi :: rhis', rk :: rks', xl :: xlos', xh :: xhis' =>
      block_axis_ok lo hi k rlo rhi rk xl xh && block_ok los' his' ks' rlos' rhis' rks' xlos' xhis'
  | _, _, _, _, _, _, _, _ => false
  end.

Definition block_offsets (m : mesh) (rlo : list Q) : list Z :=
  map3 (fun lc k x => Qround_half_even ((x - fst lc) / snd lc))
       (combine (pmin (reg m)) (cell m)) (n m) rlo.

Definition block_scale_match (F : field vec) (xlos xhis : list (option Q)) (o : obsfield) : bool :=
  match o with
  | ObsField (ObsMesh rlo rhi rn _ _) vals valid =>
      let m := fmesh F in
      let off := block_offsets m rlo in
      block_ok (pmin (reg m)) (pmax (reg m)) (n m) rlo rhi rn xlos xhis &&
      vecs_eqb (arr_list rn (fun i => fval F (add_idx i off))) vals &&
      boollist_eqb (arr_list rn (fun i => fvalid F (add_idx i off))) valid
  | ObsValue _ => false
  end.

Definition only_axis {A} (nd a : nat) (x : A) : list (option A) :=
  map (fun b => if (b =? a)%nat then Some x else None) (iota 0 nd).

(* a request is clearly inside / clearly outside the source region along every / some axis *)
Definition clearly_inside (m : mesh) (xs : list (option Q)) : bool :=
  forallb (fun b => b)
    (map3 (fun lo hi x => match x with None => true | Some v =>
             Qle_bool (lo + rel_tol * axis_scale lo hi) v && Qle_bool v (hi - rel_tol * axis_scale lo hi) end)
          (pmin (reg m)) (pmax (reg m)) xs).
Definition clearly_outside (m : mesh) (xs : list (option Q)) : bool :=
  existsb (fun b => b)
    (map3 (fun lo hi x => match x with None => false | Some v =>
             let t := (1000 # 1) * rel_tol * axis_scale lo hi + (2 # 1) * (reg_atol (reg m) + tf (reg m) * Qabs v) in
             Qltb v (lo - t) || Qltb (hi + t) v end)
          (pmin (reg m)) (pmax (reg m)) xs).

(* a coordinate exactly on an interior face belongs to both neighbouring cells: the lower
   neighbour is the cell of x - cell/2 *)
Definition on_face (m : mesh) (a : nat) (x : Q) : bool :=
  let t := (x - nth a (pmin (reg m)) 0) / nth a (cell m) 0 in
  Qeq_bool t (inject_Z (Qfloor t)) && (0 <? Qfloor t)%Z && (Qfloor t <? nth a (n m) 0%Z)%Z.
Definition coord_alts (m : mesh) (a : nat) (x : Q) : list Q :=
  if on_face m a x then [x; x - nth a (cell m) 0 / 2] else [x].
Definition sel_alts (m : mesh) (a : nat) (s : selarg) : list selarg :=
  match s with
  | SCentre => SCentre :: (if on_face m a (nth a (center (reg m)) 0)
                           then [SPoint (nth a (center (reg m)) 0 - nth a (cell m) 0 / 2)] else [])
  | SPoint x => map SPoint (coord_alts m a x)
  | SRange x1 x2 =>
      flat_map (fun y1 => map (fun y2 => SRange y1 y2) (coord_alts m a (Qmax x1 x2)))
               (coord_alts m a (Qmin x1 x2))
  end.

Definition check_C07 (c : c07_case) : bool :=
  match c with
  | CSel s a arg om ofd =>
      match build_field s with
      | Err _ => false
      | OK F => existsb (fun arg' => cmp mesh_match (mesh_sel (fmesh F) a arg') om &&
                                     cmp fres_match (field_sel F a arg') ofd)
                        (sel_alts (fmesh F) a arg)
      end
  | CGetRegion s q1 q2 om ofd =>
      match build_field s with
      | Err _ => false
      | OK F =>
          match mk_region q1 q2 None None sub_default_tf with
          | Err _ => false
          | OK item => cmp mesh_match (getitem_region (fmesh F) item) om &&
                       cmp field_match (field_getitem_region F item) ofd
          end
      end
  | CGetName s name om ofd =>
      match build_field s with
      | Err _ => false
      | OK F => cmp mesh_match (getitem_name (fmesh F) name) om &&
                cmp field_match (field_getitem_name F name) ofd
      end
  | CSlices s q1 q2 o =>
      match build_mesh s with
      | Err _ => false
      | OK m =>
          match mk_region q1 q2 None None sub_default_tf with
          | Err _ => false
          | OK item => cmp slices_eqb (region2slices m item) o
          end
      end
  | CPad s pw md om ofd =>
      match build_field s with
      | Err _ => false
      | OK F => cmp mesh_match (mesh_pad (fmesh F) pw) om &&
                cmp field_match (field_pad (repeat 0 (s_nvdim s)) F pw md) ofd
      end
  | CResample s n' ofd =>
      match build_field s with
      | Err _ => false
      | OK F =>
          (* the new centre takes the source cell that contains it (half-open cells: a centre exactly on a
             source cell boundary belongs to the cell above) - the modelled pick, itself a nearest cell *)
          cmp field_match (field_resample F n') ofd
      end
  | CBlockScale s kind a q1 q2 ofd =>
      match build_field s with
      | Err _ => false
      | OK F =>
          let nd := ndim (reg (fmesh F)) in
          let xlos := match kind with
                      | O => only_axis nd a (Qmin (hd 0 q1) (hd 0 q2))
                      | _ => map Some (map2 Qmin q1 q2) end in
          let xhis := match kind with
                      | O => only_axis nd a (Qmax (hd 0 q1) (hd 0 q2))
                      | _ => map Some (map2 Qmax q1 q2) end in
          match ofd with
          | Some o => block_scale_match F xlos xhis o &&
                      negb (clearly_outside (fmesh F) xlos) && negb (clearly_outside (fmesh F) xhis)
          | None => negb (clearly_inside (fmesh F) xlos && clearly_inside (fmesh F) xhis)
          end
      end
  end.
