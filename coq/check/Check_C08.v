(* Correspondence checker for C08: runs the validity model on a recorded input and compares it
   with what the implementation returned (mask values, shape, np.shares_memory and the
   "invert the result's mask, re-read the operand's" probe). *)
From DF Require Export Prelude Valid.
From DF Require Import NDArray.
Open Scope nat_scope.

(* binary64 value of the literal 1e-8 used by np.isclose (exact-regime threshold cases) *)
Definition norm_atol_f64 : Q := (3022314549036573 # 302231454903657293676544)%Q.
Definition band : Q := (1 # 1000000000)%Q.

Inductive c08_case :=
| CExpr (env : list (list nat * list bool)) (e : expr)
        (obs : option (list nat * list bool))      (* None: rejected *)
        (obs_shares obs_touched : list bool)       (* per operand *)
| CMapData (sh : list nat) (m : mapop) (mask : list bool)
           (obs_sh : list nat) (obs_ids : list (option nat)) (obs_mask : list bool)
| CSetter (n : list nat) (v : vinput) (obs : option (list nat * list bool))
          (obs_isbool obs_vals_same obs_own : bool)
| CNorm (exact : bool) (n : list nat) (nvdim : nat) (vals : list Q) (obs : list bool)
| CVtkEnc (sh : list nat) (mask : list bool) (obs_ints : list Z)
(* binary operation between two expressions over operands on one mesh, where the meshes of the two
   sides may differ in position only *)
| CBinGeo (env : list (list nat * list bool)) (nd : nat) (b : binop) (e1 e2 : expr)
          (obs : option (list nat * list bool))
(* two observations of one case (e.g. the same operations before and after in-place writes into the
   operands' masks): both must agree with the model *)
| CBoth (c1 c2 : c08_case).

Definition optnat_eqb (a b : option nat) : bool :=
  match a, b with
  | Some x, Some y => x =? y
  | None, None => true
  | _, _ => false
  end.

Definition mk_env (env : list (list nat * list bool)) : list marr :=
  map (fun p => mkM (fst p) (snd p)) env.

Definition norm_ok (exact : bool) (obs : bool) (v : list Q) : bool :=
  let n2 := sumsq v in
  if exact then Bool.eqb obs (norm_valid_at norm_atol_f64 v)
  else
    let hi := (norm_atol * (1 + band))%Q in
    let lo := (norm_atol * (1 - band))%Q in
    if Qltb (hi * hi) n2 then obs
    else if Qltb n2 (lo * lo) then negb obs
    else true.

Fixpoint check_C08 (c : c08_case) : bool :=
  match c with
  | CExpr env e obs obs_shares obs_touched =>
      let menv := mk_env env in
      forallb wfb menv &&
      match veval menv e, obs with
      | OK v, Some (sh, cells) =>
          marr_eqb v (mkM sh cells) &&
          let want := map (fun k => prov_eqb (eprov e) (PView k)) (iota 0 (length env)) in
          boollist_eqb obs_shares want && boollist_eqb obs_touched want
      | Err _, None => true
      | _, _ => false
      end
  | CMapData sh m mask obs_sh obs_ids obs_mask =>
      let v := mkM sh mask in
      wfb v && map_ok m sh &&
      natlist_eqb (map_shape m sh) obs_sh &&
      forallb2 optnat_eqb
        (to_list (map_shape m sh) (gather m sh None (fun j => Some (ravel sh j)))) obs_ids &&
      match map_sem m v with
      | OK r => marr_eqb r (mkM obs_sh obs_mask)
      | Err _ => false
      end
  | CSetter n v obs obs_isbool obs_vals_same obs_own =>
      match set_valid n 1 [] v, obs with
      | OK r, Some (sh, cells) =>
          marr_eqb r (mkM sh cells) && obs_isbool && obs_vals_same && obs_own
      | Err _, None => obs_vals_same
      | _, _ => false
      end
  | CNorm exact n nvdim vals obs =>
      (length vals =? nprod n * nvdim) && (length obs =? nprod n) &&
      forallb2 (norm_ok exact) obs (chunks nvdim (nprod n) vals)
  | CVtkEnc sh mask obs_ints =>
      wfb (mkM sh mask) && zlist_eqb (vtk_encode (mkM sh mask)) obs_ints
  | CBinGeo env nd b e1 e2 obs =>
      let menv := mk_env env in
      forallb wfb menv &&
      match veval_bin_geo menv nd b e1 e2, obs with
      | Some (OK v), Some (sh, cells) => marr_eqb v (mkM sh cells)
      | Some (Err _), None => true
      | _, _ => false
      end
  | CBoth c1 c2 => check_C08 c1 && check_C08 c2
  end.
