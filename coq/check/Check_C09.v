(* Correspondence checker for C09 (OVF): runs the model of _to_ovf / _from_ovf on a recorded
   input and compares with what the implementation produced.
   CWrite : field -> bytes written by the implementation, decoded by the harness' independent
            OVF reader into the abstract file; compared with [encode].
   CRead  : abstract file produced by the harness' independent OVF writer (OVF 1.0 / 2.0,
            txt / bin4 / bin8, possibly damaged) -> Field.from_file result; compared with [decode].
   CRound : field -> to_file -> from_file result; compared with [decode (encode f)].
   Values are rationals (exact values of the floats): bin8 equality, bin4 equality with the
   float32 rounding [round32] computed here, txt within 1e-9 relative. *)
From DF Require Import Prelude Constants_gen Region Mesh.
From DF Require Export Ovf.
Open Scope Q_scope.

(* literal of a binary float: mantissa * 2^exponent *)
Definition fq (m e : Z) : Q := inject_Z m * Qpower 2 e.

Definition rel_tol : Q := 1 # 1000000000.            (* 1e-9 *)

Record fin := mkFin {
  i_p1 : list Q; i_p2 : list Q; i_n : list Z; i_units : list string;
  i_subs : sidecar;
  i_nv : nat; i_vdims : option (list string); i_unit : option string;
  i_vals : list Q
}.

Record fobs := mkFobs {
  o_pmin : list Q; o_pmax : list Q; o_n : list Z; o_units : list string;
  o_subs : sidecar;
  o_nv : nat; o_vdims : option (list string); o_unit : option string;
  o_vals : list Q
}.

Inductive c09_case :=
| CWrite (exact : bool) (f : fin) (rp : repr) (extend : bool)
         (obs : option (ovf_file Q * option sidecar))
| CRead (fl : ovf_file Q) (side : option sidecar) (obs : option fobs)
| CRound (f : fin) (rp : repr) (extend : bool) (obs : option fobs)
(* disk state: side-car before the save, save_subregions flag, the saved field's subregions,
   side-car found after the save (None = no file) *)
| CSidecar (before : option sidecar) (save_sub : bool) (sc : sidecar) (obs : option sidecar).

Local Notation "a ==> b" := (implb a b) (at level 55, right associativity).
Definition wrQ (rp : repr) (x : Q) : Q := match rp with RBin4 => round32 x | _ => x end.
Definition rdQ (rp : repr) (x : Q) : Q := x.

Definition build (f : fin) : res (ofield Q) :=
  do r <- mk_region (i_p1 f) (i_p2 f) None (Some (i_units f)) default_tf;
  do m <- mk_mesh_n r (i_n f);
  do vds <- field_vdims (i_nv f) (i_vdims f);     (* Field(..., vdims=...) *)
  OK (mkOF (mkMesh (reg m) (n m) (bc m)
                   (map (fun e => (fst e, mkRegion (fst (snd e)) (snd (snd e)) (dims r) (units r) (tf r)))
                        (i_subs f)))
           (i_nv f) vds (i_unit f) (i_vals f)).

Definition opt_eqb {A} (eqb : A -> A -> bool) (a b : option A) : bool :=
  match a, b with Some x, Some y => eqb x y | None, None => true | _, _ => false end.

Definition sidecar_eqb (a b : sidecar) : bool :=
  forallb2 (fun x y => String.eqb (fst x) (fst y) && qlist_eqb (fst (snd x)) (fst (snd y))
                       && qlist_eqb (snd (snd x)) (snd (snd y))) a b.

(* relative closeness of two values: |a - b| <= 1e-9 * |a| *)
Definition vclose (a b : Q) : bool := Qle_bool (Qabs (a - b)) (rel_tol * Qabs a).

Definition vals_match (rp : repr) (model obs : list Q) : bool :=
  match rp with
  | RTxt => forallb2 vclose model obs
  | _ => qlist_eqb model obs
  end.

(* header numbers computed in floating point by the writer: xbase, stepsize *)
Definition axis_scale (lo hi : Q) : Q := Qmax (Qmax (Qabs lo) (Qabs hi)) (hi - lo).
Definition hdr_close (exact : bool) (sc model obs : list Q) : bool :=
  if exact then qlist_eqb model obs
  else (length model =? length obs)%nat && (length model =? length sc)%nat &&
       forallb (fun b => b) (map3 (fun s x y => qclose rel_tol s x y) sc model obs).

Definition file_match (exact : bool) (mf ofl : ovf_file Q) : bool :=
  let sc := map2 axis_scale (f_min mf) (f_max mf) in
  Bool.eqb (f_v2 mf) (f_v2 ofl) &&
  String.eqb (f_meshunit mf) (f_meshunit ofl) &&
  hdr_close exact sc (f_base mf) (f_base ofl) &&
  zlist_eqb (f_nodes mf) (f_nodes ofl) &&
  hdr_close exact sc (f_step mf) (f_step ofl) &&
  qlist_eqb (f_min mf) (f_min ofl) && qlist_eqb (f_max mf) (f_max ofl) &&
  opt_eqb Z.eqb (f_valuedim mf) (f_valuedim ofl) &&
  opt_eqb strlist_eqb (f_labels mf) (f_labels ofl) &&
  opt_eqb strlist_eqb (f_units mf) (f_units ofl) &&
  repr_eqb (f_rep mf) (f_rep ofl) &&
  opt_eqb Qeq_bool (f_check mf) (f_check ofl) &&
  vals_match (f_rep mf) (f_payload mf) (f_payload ofl) &&
  (repr_eqb (f_rep mf) RTxt ==> (f_cols mf =? f_cols ofl)%nat) &&
  Bool.eqb (f_tail_ok mf) (f_tail_ok ofl).

Definition field_match (rp : repr) (mf : ofield Q) (o : fobs) : bool :=
  let m := of_mesh mf in
  qlist_eqb (pmin (reg m)) (o_pmin o) && qlist_eqb (pmax (reg m)) (o_pmax o) &&
  zlist_eqb (n m) (o_n o) && strlist_eqb (units (reg m)) (o_units o) &&
  sidecar_eqb (sidecar_of m) (o_subs o) &&
  (of_nvdim mf =? o_nv o)%nat &&
  opt_eqb strlist_eqb (of_vdims mf) (o_vdims o) &&
  opt_eqb String.eqb (of_unit mf) (o_unit o) &&
  vals_match rp (of_vals mf) (o_vals o).

Definition check_C09 (c : c09_case) : bool :=
  match c with
  | CWrite exact f rp extend obs =>
      match build f with
      | Err _ => false
      | OK fld =>
          match encode 0 0 wrQ fld rp extend true, obs with
          | OK (mf, ms), Some (ofl, os) => file_match exact mf ofl && opt_eqb sidecar_eqb ms os
          | Err _, None => true
          | _, _ => false
          end
      end
  | CRead fl side obs =>
      match decode 0 rdQ fl side, obs with
      | OK mf, Some o => field_match (f_rep fl) mf o
      | Err _, None => true
      | _, _ => false
      end
  | CRound f rp extend obs =>
      match build f with
      | Err _ => false
      | OK fld =>
          let r := do fs <- encode 0 0 wrQ fld rp extend true; decode 0 rdQ (fst fs) (snd fs) in
          match r, obs with
          | OK mf, Some o => field_match rp mf o
          | Err _, None => true
          | _, _ => false
          end
      end
  | CSidecar before save_sub sc obs => opt_eqb sidecar_eqb (sidecar_after before save_sub sc) obs
  end.
