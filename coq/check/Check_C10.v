(* Correspondence checker for C10.  A case carries (1) the state of the field the harness
   built in Python, read attribute by attribute BEFORE writing, (2) the file the implementation
   wrote, as seen by an independent h5py walk, (3) the state of the field the implementation
   read back (None = the reader raised).  The checker runs the model writer on (1) and compares
   with (2), runs the model reader on (2) and compares with (3).  Foreign / legacy cases carry a
   file produced by the harness's own h5py writer and the read-back state.

   Payload values are exact: a real number is a sign bit plus a dyadic rational (so -0.0 differs
   from 0.0), or an infinity, or NaN; a cell value is a (re, im) pair. *)
From DF Require Export Prelude Region Mesh Hdf5.
Open Scope Q_scope.

(* a finite real is sign bit + canonical dyadic m * 2^e (m odd, or m = e = 0); written this way
   because binary64 values have up to 1074-bit denominators and Coq parses huge decimal literals
   slowly.  Two canonical dyadics are equal iff their (m, e) are. *)
Inductive num := Fin (neg : bool) (m e : Z) | Inf (neg : bool) | NaN.
Notation cval := (num * num)%type.

Definition num_eqb (a b : num) : bool :=
  match a, b with
  | Fin s m e, Fin t m' e' => Bool.eqb s t && (m =? m')%Z && (e =? e')%Z
  | Inf s, Inf t => Bool.eqb s t
  | NaN, NaN => true
  | _, _ => false
  end.
Definition cval_eqb (a b : cval) : bool := num_eqb (fst a) (fst b) && num_eqb (snd a) (snd b).

(* short constructors used by the generated case files *)
Definition rp (m e : Z) : cval := (Fin false m e, Fin false 0 0)%Z.     (* real, sign bit clear *)
Definition rn (m e : Z) : cval := (Fin true m e, Fin false 0 0)%Z.      (* real, sign bit set *)
Definition rv (a : num) : cval := (a, Fin false 0%Z 0%Z).

(* canonical dyadic of a non-negative integer *)
Fixpoint pnorm (p : positive) : positive * Z :=
  match p with
  | xO p' => let r := pnorm p' in (fst r, (snd r + 1)%Z)
  | _ => (p, 0%Z)
  end.
Definition znorm (z : Z) : Z * Z :=
  match z with Zpos p => let r := pnorm p in (Zpos (fst r), snd r) | _ => (0, 0)%Z end.

(* integer payload -> float64 (Field.__init__ in the LEGACY reader); sign handled by the flag *)
Definition num_conv (a : num) : num :=
  match a with
  | Fin s m e => if (e <? 0)%Z then a
                 else let r := znorm (round_f64 (m * 2 ^ e)) in Fin s (fst r) (snd r)
  | _ => a
  end.
Definition cval_conv (c : cval) : cval := (num_conv (fst c), snd c).

Definition opt_eqb {A} (eqb : A -> A -> bool) (a b : option A) : bool :=
  match a, b with Some x, Some y => eqb x y | None, None => true | _, _ => false end.

Definition region_full_eqb (r s : region) : bool :=
  qlist_eqb (pmin r) (pmin s) && qlist_eqb (pmax r) (pmax s) &&
  strlist_eqb (dims r) (dims s) && strlist_eqb (units r) (units s) && Qeq_bool (tf r) (tf s).

Definition sub_eqb (a b : string * region) : bool :=
  String.eqb (fst a) (fst b) && region_full_eqb (snd a) (snd b).

Definition mesh_eqb (a b : mesh) : bool :=
  region_full_eqb (reg a) (reg b) && zlist_eqb (n a) (n b) && String.eqb (bc a) (bc b) &&
  forallb2 sub_eqb (subs a) (subs b).

(* the complete state.  The int/float tag of SUBREGION corners is a representation choice the
   property does not fix (only their values), so it is not compared; the tag of the region
   corners and the real/complex kind of the data are. *)
Definition fstate_eqb (a b : fstate cval) : bool :=
  ckind_eqb (f_ck a) (f_ck b) && mesh_eqb (f_mesh a) (f_mesh b) &&
  (f_nvdim a =? f_nvdim b)%Z && opt_eqb strlist_eqb (f_vdims a) (f_vdims b) &&
  opt_eqb String.eqb (f_unit a) (f_unit b) &&
  Bool.eqb (is_complex (f_dk a)) (is_complex (f_dk b)) &&
  forallb2 cval_eqb (f_vals a) (f_vals b) && boollist_eqb (f_valid a) (f_valid b).

Definition sattr_eqb (a b : sattr) : bool :=
  match a, b with
  | AStr x, AStr y => String.eqb x y
  | AStrs x, AStrs y => strlist_eqb x y
  | _, _ => false
  end.

Definition h5reg_eqb (a b : h5reg) : bool :=
  ckind_eqb (hr_ck a) (hr_ck b) && qlist_eqb (hr_pmin a) (hr_pmin b) && qlist_eqb (hr_pmax a) (hr_pmax b) &&
  strlist_eqb (hr_dims a) (hr_dims b) && (hr_ndim a =? hr_ndim b)%Z &&
  strlist_eqb (hr_units a) (hr_units b) && Qeq_bool (hr_tf a) (hr_tf b).

(* the array dataset's dtype only has to hold the values (compared exactly) and keep
   real/complex apart; the subregion table: names and the numbers in it; its dtype only has to hold them (the
   numbers are compared exactly), so the kind tag is not compared *)
Definition subs_eqb (a b : option (list string * (ckind * list (list Q)))) : bool :=
  opt_eqb (fun x y => strlist_eqb (fst x) (fst y) && forallb2 qlist_eqb (snd (snd x)) (snd (snd y))) a b.

Definition h5new_eqb (a b : h5new cval) : bool :=
  String.eqb (h_type a) (h_type b) && String.eqb (h_version a) (h_version b) &&
  h5reg_eqb (h_reg a) (h_reg b) && zlist_eqb (h_n a) (h_n b) && String.eqb (h_bc a) (h_bc b) &&
  subs_eqb (h_subs a) (h_subs b) &&
  (h_nvdim a =? h_nvdim b)%Z && sattr_eqb (h_vdims a) (h_vdims b) && String.eqb (h_unit a) (h_unit b) &&
  Bool.eqb (is_complex (h_dk a)) (is_complex (h_dk b)) && zlist_eqb (h_shape a) (h_shape b) &&
  forallb2 cval_eqb (h_arr a) (h_arr b) &&
  zlist_eqb (h_vshape a) (h_vshape b) && boollist_eqb (h_valid a) (h_valid b).

Definition back_ok (model : res (fstate cval)) (obs : option (fstate cval)) : bool :=
  match model, obs with
  | OK a, Some b => fstate_eqb a b
  | Err _, None => true
  | _, _ => false
  end.

(* [in_domain]: the field satisfies the guards of C10_roundtrip (the harness sets it to false only
   for the known finding "unit is the marker text"); then the state built by
   the library must pass the decidable well-formedness test (sound for the theorem's hypothesis
   wf_field: C10_wf_test_sound) and the read-back state must be the theorem's right-hand side
   [canon f] itself *)
Inductive c10_case :=
| CRound (in_domain : bool) (f : fstate cval) (file : option (h5new cval)) (back : option (fstate cval))
| CRead (file : h5file cval) (back : option (fstate cval)).

Definition check_C10 (c : c10_case) : bool :=
  match c with
  | CRound dom f (Some file) back =>
      h5new_eqb (encode f) file && back_ok (decode cval_conv (NewFile file)) back &&
      (if dom then wf_fieldb f && back_ok (OK (canon f)) back else true)
  | CRound _ _ None _ => false
  | CRead file back => back_ok (decode cval_conv file) back
  end.
