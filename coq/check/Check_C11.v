(* Correspondence checker for C11: runs the FFT bookkeeping model on a recorded input and
   compares with what the implementation returned.  Coordinates are compared with a relative
   tolerance (1/(n*cell) is not a binary fraction in general), counts / names / units /
   labels / accept-reject exactly, spectra against the model's arrangement of an
   independently evaluated naive DFT within 1e-9 of the l1 size of the spectrum. *)
From DF Require Import Prelude Constants_gen Region Mesh.
From DF Require Export Fft.
Open Scope Q_scope.

Definition rel_tol : Q := 1 # 1000000000.            (* 1e-9 *)

Definition mesh_obs := (list Q * list Q * list Z * list string * list string)%type.
Definition cplx := (Q * Q)%type.

Inductive c11_case :=
(* Mesh.fftn(rfft) on Mesh(Region(p1, p2, dims, units), n) *)
| CMeshF (p1 p2 : list Q) (n_ : list Z) (dims_ units_ : list string) (rfft : bool)
         (obs : option mesh_obs)
(* Mesh.ifftn(rfft, shape) on such a mesh *)
| CMeshI (p1 p2 : list Q) (n_ : list Z) (dims_ units_ : list string) (rfft : bool)
         (sh : shape_arg) (obs : option mesh_obs)
(* labels and mapping after a forward / inverse transform *)
| CNames (inverse : bool) (vd : option (list string)) (mp : list (string * string))
         (obs : option (option (list string) * list (string * string)))
(* spectrum: [bins] = naive DFT (natural order, C order over n_, per cell the components),
   [arr] = the k-space array (C order over the k-mesh) *)
| CArr (real : bool) (n_ : list Z) (bins arr : list (list cplx)).

Definition build (p1 p2 : list Q) (n_ : list Z) (dims_ units_ : list string) : res mesh :=
  do r <- mk_region p1 p2 (Some dims_) (Some units_) (1 # 1000000000000); mk_mesh_n r n_.

(* coordinates of one axis are compared at the scale of that axis of the model's result *)
Definition axis_scale (lo hi : Q) : Q := Qmax (Qmax (Qabs lo) (Qabs hi)) (hi - lo).

Definition close_list (sc a b : list Q) : bool :=
  (length a =? length b)%nat && (length a =? length sc)%nat &&
  forallb (fun x => x) (map3 (fun s x y => qclose rel_tol s x y) sc a b).

Definition mesh_matches (m : mesh) (o : mesh_obs) : bool :=
  let '(lo, hi, k, ds, us) := o in
  let sc := map2 axis_scale (pmin (reg m)) (pmax (reg m)) in
  close_list sc (pmin (reg m)) lo && close_list sc (pmax (reg m)) hi &&
  zlist_eqb (n m) k && strlist_eqb (dims (reg m)) ds && strlist_eqb (units (reg m)) us.

Definition check_mesh (r : res mesh) (obs : option mesh_obs) : bool :=
  match r, obs with
  | OK m, Some o => mesh_matches m o
  | Err _, None => true
  | _, _ => false
  end.

Definition opt_strlist_eqb (a b : option (list string)) : bool :=
  match a, b with
  | Some x, Some y => strlist_eqb x y
  | None, None => true
  | _, _ => false
  end.

Definition pairlist_eqb (a b : list (string * string)) : bool :=
  forallb2 (fun x y => String.eqb (fst x) (fst y) && String.eqb (snd x) (snd y)) a b.

Definition cabs1 (z : cplx) : Q := Qabs (fst z) + Qabs (snd z).
Definition l1 (l : list (list cplx)) : Q := qsum (map (fun c => qsum (map cabs1 c)) l).

Definition cplx_close (tol : Q) (a b : cplx) : bool :=
  Qle_bool (Qabs (fst a - fst b)) tol && Qle_bool (Qabs (snd a - snd b)) tol.

Definition check_C11 (c : c11_case) : bool :=
  match c with
  | CMeshF p1 p2 n_ ds us rfft obs =>
      match build p1 p2 n_ ds us with
      | Err _ => false
      | OK m => check_mesh (mesh_fftn m rfft) obs
      end
  | CMeshI p1 p2 n_ ds us rfft sh obs =>
      match build p1 p2 n_ ds us with
      | Err _ => false
      | OK m =>
          check_mesh (mesh_ifftn m rfft sh) obs ||
          (* an explicit shape together with the full (non-real) kind is outside the property:
             rejection is admissible, and so is honouring the shape without the half-spectrum
             relation on its last entry *)
          (negb rfft && match sh with ShNone => false | _ => true end &&
           match obs with None => true | Some _ => check_mesh (mesh_ifftn_gen false m rfft sh) obs end)
      end
  | CNames inverse vd mp obs =>
      match rename_checked inverse vd mp, obs with
      | OK (v, m), Some (v', m') => opt_strlist_eqb v v' && pairlist_eqb m m'
      | Err _, None => true
      | _, _ => false
      end
  | CArr real n_ bins arr =>
      let tol := rel_tol * l1 bins in
      (Z.of_nat (length bins) =? zprod n_)%Z &&
      forallb2 (forallb2 (cplx_close tol)) (arrange [] real n_ bins) arr &&
      (* and the other way round: un-shifting the k-space array gives the natural-order (half) spectrum *)
      forallb2 (forallb2 (cplx_close tol)) (unarrange [] real (kshape real n_) arr) (half_spectrum [] real n_ bins)
  end.
