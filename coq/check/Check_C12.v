(* Correspondence checker for C12: one API call (Region / Mesh / Field .rotate90, copying or in
   place) per case.  Region.rotate90 uses the exact quarter-turn table of k mod 4, so in the exact
   regime (dyadic / integer corners and reference: every intermediate is representable) corners are
   compared by equality; in the scale regime (decimal fractions) within 1e-13 * scale (rounding of
   p - R and R + ...), where scale is the largest coordinate magnitude among corners and reference.  Field values (the component rotation uses the
   exact quarter-turn pair), validity, cell counts, units, dims, labels, mapping and accept/reject
   are compared exactly. *)
From Coq Require Import Qcanon.
From DF Require Import Prelude FieldK NDArray Region Mesh Rotate90.
Open Scope Q_scope.

Definition sub_t := (string * (list Q * list Q))%type.

(* observed region: pmin, pmax, dims, units *)
Definition oregion := (list Q * list Q * list string * list string)%type.
(* observed mesh: region, n, subregions, bc *)
Definition omesh := (oregion * list Z * list sub_t * string)%type.
(* observed field: mesh, values (C order, cell index ++ component), validity, vdims, mapping *)
Definition ofield := (omesh * list Q * list bool * list string * list (string * string))%type.

Inductive c12_case :=
| CRegion (exact inplace : bool) (p1 p2 : list Q) (ds us : list string)
          (a b : string) (k : Z) (ref : option (list Q)) (obs : option oregion)
| CMesh (exact inplace : bool) (p1 p2 : list Q) (ds us : list string) (ns : list Z) (sbs : list sub_t) (bcs : string)
        (a b : string) (k : Z) (ref : option (list Q)) (obs : option omesh)
| CField (exact inplace : bool) (p1 p2 : list Q) (ds us : list string) (ns : list Z) (sbs : list sub_t) (bcs : string)
         (nv : nat) (vals : list Q) (valid : list bool) (vds : list string) (vm : list (string * string))
         (a b : string) (k : Z) (ref : option (list Q)) (obs : option ofield).

Definition tf_default : Q := 1 # 1000000000000.

Definition tol (exact : bool) : Q := if exact then 0 else (1 # 10000000000000).

Definition qmaxabs (l : list Q) : Q := fold_right (fun x m => Qmax (Qabs x) m) 0 l.

Definition qlist_close (t sc : Q) (a b : list Q) : bool := forallb2 (qclose t sc) a b.

Definition mk_reg (p1 p2 : list Q) (ds us : list string) : region := mkRegion p1 p2 ds us tf_default.

Definition mk_subs (ds us : list string) (sbs : list sub_t) : list (string * region) :=
  map (fun s => (fst s, mk_reg (fst (snd s)) (snd (snd s)) ds us)) sbs.

Definition geom_scale (p1 p2 : list Q) (ref : option (list Q)) : Q :=
  Qmax (Qmax (qmaxabs p1) (qmaxabs p2)) (match ref with Some r => qmaxabs r | None => 0 end).

Definition region_close (t sc : Q) (r : region) (o : oregion) : bool :=
  match o with
  | (omin, omax, ods, ous) =>
      qlist_close t sc (pmin r) omin && qlist_close t sc (pmax r) omax &&
      strlist_eqb (dims r) ods && strlist_eqb (units r) ous
  end.

Definition sub_close (t sc : Q) (ds us : list string) (s : string * region) (o : sub_t) : bool :=
  String.eqb (fst s) (fst o) &&
  qlist_close t sc (pmin (snd s)) (fst (snd o)) && qlist_close t sc (pmax (snd s)) (snd (snd o)) &&
  strlist_eqb (dims (snd s)) ds && strlist_eqb (units (snd s)) us.

(* bc names a SET of periodic axes (letter order is not significant); the keywords name no axis *)
Fixpoint letter_in (c : Ascii.ascii) (s : string) : bool :=
  match s with
  | EmptyString => false
  | String h t => Ascii.eqb c h || letter_in c t
  end.
Fixpoint letters_sub (s1 s2 : string) : bool :=
  match s1 with
  | EmptyString => true
  | String h t => letter_in h s2 && letters_sub t s2
  end.
Definition bc_match (a b : string) : bool :=
  if bc_keyword a || bc_keyword b then String.eqb a b else letters_sub a b && letters_sub b a.

Definition mesh_close (t sc : Q) (m : mesh) (o : omesh) : bool :=
  match o with
  | (oreg, ons, osubs, obc) =>
      region_close t sc (reg m) oreg && zlist_eqb (n m) ons &&
      forallb2 (sub_close t sc (dims (reg m)) (units (reg m))) (subs m) osubs &&
      bc_match (bc m) obc
  end.

Definition pairlist_eqb (l1 l2 : list (string * string)) : bool :=
  forallb2 (fun x y => String.eqb (fst x) (fst y) && String.eqb (snd x) (snd y)) l1 l2.

Definition check_C12 (c : c12_case) : bool :=
  match c with
  | CRegion ex ip p1 p2 ds us a b k ref obs =>
      match region_rotate90 ip (mk_reg p1 p2 ds us) a b k ref, obs with
      | OK r, Some o => region_close (tol ex) (geom_scale p1 p2 ref) r o
      | Err _, None => true
      | _, _ => false
      end
  | CMesh ex ip p1 p2 ds us ns sbs bcs a b k ref obs =>
      let m := mkMesh (mk_reg p1 p2 ds us) ns bcs (mk_subs ds us sbs) in
      match mesh_rotate90 ip m a b k ref, obs with
      | OK m', Some o => mesh_close (tol ex) (geom_scale p1 p2 ref) m' o
      | Err _, None => true
      | _, _ => false
      end
  | CField ex ip p1 p2 ds us ns sbs bcs nv vals valid vds vm a b k ref obs =>
      let m := mkMesh (mk_reg p1 p2 ds us) ns bcs (mk_subs ds us sbs) in
      let sh := znat ns in
      let f := mkField m nv (of_list (f0 QcOps) (sh ++ [nv]) (qcl vals)) (of_list true sh valid) vds vm in
      (length vals =? nprod (sh ++ [nv]))%nat && (length valid =? nprod sh)%nat &&
      match field_rotate90 QcOps ip f a b k ref, obs with
      | OK g, Some (om, ovals, ovalid, ovds, ovm) =>
          let sh' := fshape g in
          mesh_close (tol ex) (geom_scale p1 p2 ref) (fmesh g) om &&
          qclist_eqb (to_list (sh' ++ [nv]) (fval g)) (qcl ovals) &&
          boollist_eqb (to_list sh' (fvalid g)) ovalid &&
          strlist_eqb (vdims g) ovds && pairlist_eqb (vmap g) ovm
      | Err _, None => true
      | _, _ => false
      end
  end.
