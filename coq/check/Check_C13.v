(* Correspondence checker for C13: replays a recorded history on the model and compares, after
   every step, acceptance and the resulting state of BOTH forms (in place on a private copy,
   copying) with what the implementation produced.  Until the first quarter turn the comparison
   is equality (dyadic inputs); afterwards corners are compared within 1e-9 of the coordinate
   scale (the implementation evaluates cos/sin(k*pi/2) in floating point). *)
From DF Require Export Prelude Constants_gen Region Mesh Subregions History.
Open Scope Q_scope.

Definition c13_tol : Q := 1 # 1000000000.

(* canonical observables of a region / mesh / field *)
Record oreg := mkOR { or_pmin : list Q; or_pmax : list Q; or_dims : list string; or_units : list string }.
Record ostate := mkO {
  o_reg : oreg; o_n : list Z; o_subs : list (string * oreg);
  o_ashape : list Z; o_vshape : list Z
}.

Definition obs_region (r : region) : oreg := mkOR (pmin r) (pmax r) (dims r) (units r).
Definition obs_mesh (m : mesh) (sa sv : list Z) : ostate :=
  mkO (obs_region (reg m)) (n m) (map (fun nr => (fst nr, obs_region (snd nr))) (subs m)) sa sv.
Definition observe (s : hstate) : ostate :=
  match s with
  | SRegion r => mkO (obs_region r) [] [] [] []
  | SMesh m => obs_mesh m [] []
  | SField f => obs_mesh (fmesh f) (fashape f) (fvshape f)
  end.

Definition qmaxabs (l : list Q) : Q := fold_right (fun x acc => Qmax (Qabs x) acc) 0 l.
Definition elems_mag (l : list elem) : Q := qmaxabs (map eval l).
Definition varg_mag (v : varg) : Q :=
  match v with VScalar q => Qabs q | VSeq l => elems_mag l | VBadType => 0 end.
Definition rarg_mag (r : rarg) : Q :=
  match r with RScalar q => Qabs q | RSeq l => elems_mag l | _ => 0 end.
Definition hop_mag (o : hop) : Q :=
  match o with
  | HTranslate v => varg_mag v
  | HScale _ ref => rarg_mag ref
  | HRot _ _ _ ref => rarg_mag ref
  end.
Definition oreg_mag (r : oreg) : Q := Qmax (qmaxabs (or_pmin r)) (qmaxabs (or_pmax r)).
Definition ostate_mag (s : ostate) : Q := oreg_mag (o_reg s).

(* the model does not reduce fractions; the checker does, between steps (Qred x == x) *)
Definition norm_region (r : region) : region :=
  mkRegion (map Qred (pmin r)) (map Qred (pmax r)) (dims r) (units r) (tf r).
Definition norm_mesh (m : mesh) : mesh :=
  mkMesh (norm_region (reg m)) (n m) (bc m) (map (fun nr => (fst nr, norm_region (snd nr))) (subs m)).
Definition norm_state (s : hstate) : hstate :=
  match s with
  | SRegion r => SRegion (norm_region r)
  | SMesh m => SMesh (norm_mesh m)
  | SField f => SField (mkF (norm_mesh (fmesh f)) (fnvdim f) (frmap f) (fashape f) (fvshape f))
  end.
Definition nstep (ip : bool) (o : hop) (s : hstate) : res hstate :=
  match step ip o s with OK s' => OK (norm_state s') | Err e => Err e end.

Definition is_rot (o : hop) : bool := match o with HRot _ _ _ _ => true | _ => false end.

Definition ql_close (exact : bool) (sc : Q) (a b : list Q) : bool :=
  if exact then qlist_eqb a b else forallb2 (qclose c13_tol sc) a b.

Definition oreg_close (exact : bool) (sc : Q) (a b : oreg) : bool :=
  ql_close exact sc (or_pmin a) (or_pmin b) && ql_close exact sc (or_pmax a) (or_pmax b) &&
  strlist_eqb (or_dims a) (or_dims b) && strlist_eqb (or_units a) (or_units b).

Definition ostate_close (exact : bool) (sc : Q) (a b : ostate) : bool :=
  oreg_close exact sc (o_reg a) (o_reg b) && zlist_eqb (o_n a) (o_n b) &&
  forallb2 (fun x y => String.eqb (fst x) (fst y) && oreg_close exact sc (snd x) (snd y))
           (o_subs a) (o_subs b) &&
  zlist_eqb (o_ashape a) (o_ashape b) && zlist_eqb (o_vshape a) (o_vshape b).

Definition outcome_ok (exact : bool) (sc0 : Q) (r : res hstate) (obs : option ostate) : bool :=
  match r, obs with
  | Err _, None => true
  | OK s', Some ob => ostate_close exact (Qmax sc0 (ostate_mag (observe s'))) (observe s') ob
  | _, _ => false
  end.

(* one recorded step: form used to continue the history, the call, what the in-place form left
   in a private copy of the object (None = raised), what the copying form returned *)
Definition c13_step := (bool * hop * option ostate * option ostate)%type.

Fixpoint check_steps (rot : bool) (s : hstate) (l : list c13_step) : bool :=
  match l with
  | [] => true
  | (ip, o, obs_ip, obs_cp) :: t =>
      let rot' := rot || is_rot o in
      let sc0 := Qmax (ostate_mag (observe s)) (hop_mag o) in
      outcome_ok (negb rot') sc0 (nstep true o s) obs_ip &&
      outcome_ok (negb rot') sc0 (nstep false o s) obs_cp &&
      match nstep ip o s with
      | OK s' => check_steps rot' s' t
      | Err _ => check_steps rot s t
      end
  end.

Inductive c13_case := C13Case (s0 : hstate) (obs0 : ostate) (steps : list c13_step).

Definition check_C13 (c : c13_case) : bool :=
  match c with
  | C13Case s0 obs0 steps => ostate_close true 1 (observe s0) obs0 && check_steps false s0 steps
  end.
