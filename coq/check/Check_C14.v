(* Correspondence checker for C14: runs the subregion model on a recorded input and compares
   with what the implementation returned.
   [exact = true]: dyadic inputs, every float intermediate representable -> equality of
   decisions and of corners.
   [exact = false]: scale regime (and every rotation: cos/sin of quarter turns are inexact in
   the code).  Corners are compared within 1e-9 of the axis scale; the accept/reject decisions
   that hinge on the ABSOLUTE alignment tolerance are evaluated with tolerance -/+ delta
   (delta = 2^-49 * largest coordinate, a bound for the float rounding of the remainder
   computation) and compared only when both evaluations agree. *)
From DF Require Export Prelude Constants_gen Region Mesh Subregions.
Open Scope Q_scope.

Definition rel_tol : Q := 1 # 1000000000.            (* 1e-9 *)

Definition sub_in := (string * (list Q * list Q))%type.                       (* name, pmin, pmax *)
Definition cand_in := (string * (list Q * list Q) * Q)%type.                  (* name, p1, p2, tf *)
Definition sub_obs := (string * (list Q * list Q) * (list string * list string))%type.
                                                                               (* name, pmin, pmax, dims, units *)
Record st_in := mkSt { s_p1 : list Q; s_p2 : list Q; s_n : list Z; s_tf : Q;
                       s_dims : list string; s_units : list string; s_subs : list sub_in }.
Record mesh_obs := mkObs { o_pmin : list Q; o_pmax : list Q; o_n : list Z;
                           o_dims : list string; o_units : list string; o_subs : list sub_obs }.

Inductive c14_case :=
| CAligned (exact : bool) (p1 p2 : list Q) (n1 : list Z) (q1 q2 : list Q) (n2 : list Z) (tol : Q) (obs : bool)
| CSetter (exact : bool) (s : st_in) (cands : list cand_in) (obs_acc : bool) (obs_subs : list sub_obs)
| CTransform (exact : bool) (s : st_in) (inplace : bool) (o : top) (obs : option mesh_obs)
| CSelPlane (exact : bool) (s : st_in) (a : nat) (v : option Q) (obs : option mesh_obs)
| CSelRange (exact : bool) (s : st_in) (a : nat) (x1 x2 : Q) (obs : option mesh_obs)
| CNamed (exact : bool) (s : st_in) (name : string) (obs : option mesh_obs)
| CPersistH5 (exact : bool) (s : st_in) (obs : option mesh_obs)
| CPersistJson (exact : bool) (src dst : st_in) (obs_acc : bool) (obs_subs : list sub_obs).

(* the state the implementation holds (subregions as it reports them), rebuilt without validation *)
Definition build_state (s : st_in) : res mesh :=
  do r <- mk_region (s_p1 s) (s_p2 s) (Some (s_dims s)) (Some (s_units s)) (s_tf s);
  do m <- mk_mesh_n r (s_n s);
  OK (mkMesh r (s_n s) EmptyString
        (map (fun x : sub_in => (fst x, mkRegion (fst (snd x)) (snd (snd x)) (dims r) (units r) (tf r)))
             (s_subs s))).

Definition cand_region (c : cand_in) : res (string * region) :=
  do r <- mk_region (fst (snd (fst c))) (snd (snd (fst c))) None None (snd c);
  OK (fst (fst c), r).

Definition axis_scale (lo hi : Q) : Q := Qmax (Qmax (Qabs lo) (Qabs hi)) (hi - lo).
Definition scales (m : mesh) : list Q := map2 axis_scale (pmin (reg m)) (pmax (reg m)).

Definition qlist_close (exact : bool) (sc a b : list Q) : bool :=
  if exact then qlist_eqb a b
  else (length a =? length b)%nat && (length a =? length sc)%nat &&
       forallb (fun x => x) (map3 (fun s x y => qclose rel_tol s x y) sc a b).

Definition sub_matches (exact : bool) (sc : list Q) (nr : string * region) (o : sub_obs) : bool :=
  String.eqb (fst nr) (fst (fst o)) &&
  qlist_close exact sc (pmin (snd nr)) (fst (snd (fst o))) &&
  qlist_close exact sc (pmax (snd nr)) (snd (snd (fst o))) &&
  strlist_eqb (dims (snd nr)) (fst (snd o)) && strlist_eqb (units (snd nr)) (snd (snd o)).

(* name -> box maps are compared: the order of a dictionary is not part of the property *)
Definition subs_match (exact : bool) (sc : list Q) (l : list (string * region)) (o : list sub_obs) : bool :=
  (length l =? length o)%nat &&
  forallb (fun nr : string * region =>
             match find (fun ob : sub_obs => String.eqb (fst nr) (fst (fst ob))) o with
             | Some ob => sub_matches exact sc nr ob
             | None => false
             end) l.

Definition mesh_matches (exact : bool) (m : mesh) (o : mesh_obs) : bool :=
  let sc := scales m in
  qlist_close exact sc (pmin (reg m)) (o_pmin o) && qlist_close exact sc (pmax (reg m)) (o_pmax o) &&
  zlist_eqb (n m) (o_n o) &&
  strlist_eqb (dims (reg m)) (o_dims o) && strlist_eqb (units (reg m)) (o_units o) &&
  subs_match exact sc (subs m) (o_subs o).

(* rounding allowance for decisions against the absolute alignment tolerance *)
Definition two49 : Q := 1 # 562949953421312.
Definition maxabs (l : list Q) : Q := fold_right (fun x acc => Qmax (Qabs x) acc) 0 l.
Definition delta (exact : bool) (l : list Q) : Q := if exact then 0 else maxabs l * two49.
Definition reg_coords (r : region) : list Q := pmin r ++ pmax r.
Definition subs_coords (l : list (string * region)) : list Q := flat_map (fun nr => reg_coords (snd nr)) l.

Definition agree (lo hi obs : bool) : bool := if Bool.eqb lo hi then Bool.eqb lo obs else true.

(* lo / hi: the model evaluated with tolerance - / + delta (acceptance is monotone in it) *)
Definition check_res (exact : bool) (lo hi : res mesh) (obs : option mesh_obs) : bool :=
  match lo, hi, obs with
  | OK m, OK _, Some o => mesh_matches exact m o
  | Err _, Err _, None => true
  | Err _, OK m, Some o => mesh_matches exact m o
  | Err _, OK _, None => true
  | _, _, _ => false
  end.

Definition op_coords (o : top) : list Q :=
  match o with
  | TTranslate v => v
  | TScale _ (Some r) => r
  | TRot _ _ _ (Some r) => r
  | _ => []
  end.

Definition res_coords (r : res mesh) : list Q :=
  match r with OK m => reg_coords (reg m) | Err _ => [] end.

Definition check_C14 (c : c14_case) : bool :=
  match c with
  | CAligned exact p1 p2 n1 q1 q2 n2 tol obs =>
      match (do r <- mk_region p1 p2 None None default_tf; mk_mesh_n r n1),
            (do r <- mk_region q1 q2 None None default_tf; mk_mesh_n r n2) with
      | OK m, OK o =>
          let d := delta exact (reg_coords (reg m) ++ reg_coords (reg o)) in
          agree (is_aligned_tol (tol - d) m o) (is_aligned_tol (tol + d) m o) obs
      | _, _ => false
      end
  | CSetter exact s cands obs_acc obs_subs =>
      match build_state s, mapres cand_region cands with
      | OK m, OK l =>
          let d := delta exact (reg_coords (reg m) ++ subs_coords l) in
          let lo := is_ok (set_subregions_tol (align_tol - d) m l) in
          let hi := is_ok (set_subregions_tol (align_tol + d) m l) in
          agree lo hi obs_acc &&
          subs_match exact (scales m)
            (if obs_acc then map (fun nr => (fst nr, recreate m (snd nr))) l else subs m) obs_subs
      | _, _ => false
      end
  | CTransform exact s inplace o obs =>
      match build_state s with
      | OK m =>
          let d0 := delta exact (reg_coords (reg m) ++ op_coords o) in
          let d := delta exact (reg_coords (reg m) ++ op_coords o ++
                                res_coords (transform_tol (align_tol + d0) true o m)) in
          let hi := transform_tol (align_tol + d) inplace o m in
          (* scale regime: when the moved corners no longer resolve the cells (cell <= 1e6 roundings of
             the largest coordinate) a refusal by the implementation is admissible *)
          let unresolved := negb exact &&
                            match hi with
                            | OK m' => existsb (fun c => Qle_bool c (d * 1000000)) (cell m')
                            | Err _ => false
                            end in
          match obs with
          | None => if unresolved then true else check_res exact (transform_tol (align_tol - d) inplace o m) hi obs
          | Some _ => check_res exact (transform_tol (align_tol - d) inplace o m) hi obs
          end
      | Err _ => false
      end
  | CSelPlane exact s a v obs =>
      match build_state s with
      | OK m =>
          let d := delta exact (reg_coords (reg m)) in
          check_res exact (sel_plane_tol (align_tol - d) m a v) (sel_plane_tol (align_tol + d) m a v) obs
      | Err _ => false
      end
  | CSelRange exact s a x1 x2 obs =>
      match build_state s with
      | OK m =>
          let d := delta exact (reg_coords (reg m)) in
          check_res exact (sel_range_tol (align_tol - d) m a x1 x2)
                          (sel_range_tol (align_tol + d) m a x1 x2) obs
      | Err _ => false
      end
  | CNamed exact s name obs =>
      match build_state s with
      | OK m =>
          match named m name, obs with
          | OK sm, Some o => mesh_matches exact sm o
          | Err _, None => true
          | _, _ => false
          end
      | Err _ => false
      end
  | CPersistH5 exact s obs =>
      match build_state s with
      | OK m =>
          let d := delta exact (reg_coords (reg m)) in
          let m0 := mkMesh (reg m) (n m) (bc m) [] in
          check_res exact (h5_load_tol (align_tol - d) m0 (h5_rows (subs m)))
                          (h5_load_tol (align_tol + d) m0 (h5_rows (subs m))) obs
      | Err _ => false
      end
  | CPersistJson exact src dst obs_acc obs_subs =>
      match build_state src, build_state dst with
      | OK ms, OK md =>
          let d := delta exact (reg_coords (reg md) ++ subs_coords (subs ms)) in
          let lo := json_load_tol (align_tol - d) md (subs ms) in
          let hi := json_load_tol (align_tol + d) md (subs ms) in
          agree (is_ok lo) (is_ok hi) obs_acc &&
          subs_match exact (scales md)
            (if obs_acc then match hi with OK m' => subs m' | Err _ => [] end else subs md) obs_subs
      | _, _ => false
      end
  end.
