(* Correspondence checker for C15 (norm getter/setter, orientation, constructor order,
   update_field_values after a norm).

   CHist – "exact" regime: integer Pythagorean vectors times powers of two, dyadic meshes and
           norm targets.  The model runs at K := Qc with the exact partial root [qsqrt]
           (the checker fails if the root is undefined on some cell, so the generator has to be
           total); norms of untouched data and all zero / validity decisions are compared
           exactly, quotients v/|v|*t within 1e-13 of the cell's size.
   CRel  – arbitrary binary64 vectors (no rational root): the recorded outputs are tested
           against the conclusions of the theorems (squared length, vanishing cross products,
           sign of the dot product) within 1e-12 relative. *)
From Coq Require Import Qcanon.
From DF Require Import Prelude FieldK NDArray Region Mesh.
From DF Require Export Norm.
Open Scope Q_scope.

Definition tolx : Q := 1 # 10000000000000.          (* 1e-13 *)
Definition tolr : Q := 1 # 1000000000000.           (* 1e-12 *)
Definition band : Q := 1 # 1000000000.              (* 1e-9: no decision is compared this close to a threshold *)

Inductive nspec_c :=
| SConst (t : Q)
| SArr (ts : list Q)
| SAffine (c0 : Q) (cs : list Q)                    (* t(p) = c0 + cs . p *)
| SStep (ax : nat) (x0 lo hi : Q)                   (* t(p) = lo if p[ax] < x0 else hi *)
| SSumSq (c0 : Q)                                   (* t(p) = c0 + p . p  (a reduction over the point) *)
| SField (p1 p2 : list Q) (ns : list Z) (vals : list Q).
      (* a one-component Field on its own mesh: t(p) = value of the cell of that mesh containing p *)

(* in-place writes into field.array *)
Inductive write_c :=
| WScale (c : Q)                                    (* array[...] *= c *)
| WCell (j : nat) (v : list Q)                      (* array[idx] = v, j = C-order position of idx *)
| WComp (comp : nat) (c : Q) (mul : bool)           (* array[..., comp] *= c  /  = c *)
| WSlice (lo hi : nat) (v : list Q).                (* array[i] = v: cells lo .. hi-1 *)

Inductive op_c := PSetNorm (s : nspec_c) | PUpdate (vals : list Q) | PSetValid (vs : vspec)
                | PWrite (w : write_c).

Record c15_obs := mkObs {
  o_arr : list Q; o_valid : list bool;
  o_norm : list Q; o_norm_nvdim : nat; o_norm_n : list Z; o_norm_pmin : list Q; o_norm_pmax : list Q;
  o_norm_unit : option string; o_norm_valid : list bool;
  o_orient : list Q; o_orient_nvdim : nat; o_orient_valid : list bool
}.

Inductive c15_case :=
| CHist (p1 p2 : list Q) (n_ : list Z) (nvdim : nat) (unit_ : option string)
        (vals : list Q) (norm0 : option nspec_c) (v0 : vspec) (ops : list op_c)
        (obs : option c15_obs)
| CRel (nvdim : nat) (vals ts : list Q) (obs_norm obs_set obs_orient : list Q).

Notation QK := QcOps.

Definition dotq (a b : list Q) : Q := qsum (map2 Qmult a b).

Definition build (p1 p2 : list Q) (n_ : list Z) : res mesh :=
  do r <- mk_region p1 p2 None None (1 # 1000000000000); mk_mesh_n r n_.

Definition to_nspec (s : nspec_c) : nspec QK :=
  match s with
  | SField p1 p2 ns vals =>
      match build p1 p2 ns with
      | OK ms => @NFun QK (fun p => match point2index ms p with
                                    | OK i => qc (nth (ravel (znat ns) (znat i)) vals 0)
                                    | Err _ => qc 0
                                    end)
      | Err _ => @NFun QK (fun _ => qc 0)
      end
  | SConst t => @NConst QK (qc t)
  | SArr ts => @NArr QK (qcl ts)
  | SAffine c0 cs => @NFun QK (fun p => qc (c0 + dotq cs p))
  | SSumSq c0 => @NFun QK (fun p => qc (c0 + dotq p p))
  | SStep ax x0 lo hi => @NFun QK (fun p => qc (if Qltb (nth ax p 0) x0 then lo else hi))
  end.

Fixpoint chunk {A} (k : nat) (l : list A) (fuel : nat) : list (list A) :=
  match fuel with
  | O => []
  | S f => match l with [] => [] | _ => firstn k l :: chunk k (skipn k l) f end
  end.
Definition cells_of (nvdim : nat) (vals : list Q) : list (list Q) := chunk nvdim vals (length vals).

Fixpoint mapi_from {A} (k : nat) (g : nat -> A -> A) (l : list A) : list A :=
  match l with [] => [] | x :: t => g k x :: mapi_from (S k) g t end.

Definition to_write (w : write_c) : list (list Qc) -> list (list Qc) :=
  match w with
  | WScale c => map (map (fun x => Qcmult x (qc c)))
  | WCell j v => mapi_from 0 (fun k x => if (k =? j)%nat then qcl v else x)
  | WComp comp c mul =>
      map (mapi_from 0 (fun k x => if (k =? comp)%nat then (if mul then Qcmult x (qc c) else qc c) else x))
  | WSlice lo hi v => mapi_from 0 (fun k x => if (lo <=? k)%nat && (k <? hi)%nat then qcl v else x)
  end.

Definition to_op (nvdim : nat) (o : op_c) : op QK :=
  match o with
  | PWrite w => @OWrite QK (to_write w)
  | PSetNorm s => OSetNorm (to_nspec s)
  | PUpdate vals => @OUpdate QK (map qcl (cells_of nvdim vals))
  | PSetValid vs => @OSetValid QK vs
  end.

Definition all_defined (f : field QK) : bool := forallb qc_nrm_defined (f_arr f).

(* run a history; the first component says whether every length the model needed was an exact
   rational root *)
Fixpoint run_def (f : field QK) (os : list (op QK)) : bool * res (field QK) :=
  match os with
  | [] => (true, OK f)
  | o :: os' =>
      let d := match o with
               | OSetNorm _ => all_defined f
               | OSetValid VNorm => all_defined f
               | _ => true
               end in
      match run_op (K:=QK) qc_nrm qc_is0 qc_close0 f o with
      | OK f' => let (d', r) := run_def f' os' in (d && d', r)
      | Err e => (d, Err e)
      end
  end.

(* is the array at the end of the history the result of a division (hence only close to the
   model's), or verbatim input data? *)
Fixpoint approx_after (a : bool) (os : list op_c) : bool :=
  match os with
  | [] => a
  | PSetNorm _ :: r => approx_after true r
  | PUpdate _ :: r => approx_after false r
  | PSetValid _ :: r => approx_after a r
  | PWrite _ :: r => approx_after a r
  end.

Definition cell_close (approx : bool) (m o : list Q) : bool :=
  if approx then
    let L := qsum (map Qabs m) in
    (length m =? length o)%nat && forallb2 (fun a b => Qle_bool (Qabs (a - b)) (tolx * L)) m o
  else qlist_eqb m o.

(* lengths of verbatim data: the exact root up to 1e-15 relative (a few ulp – the property does not fix
   the summation / scaling algorithm of the length); zero lengths exactly *)
Definition tolu : Q := 1 # 1000000000000000.
Definition len_close (approx : bool) (m o : list Q) : bool :=
  let L := qsum (map Qabs m) in
  (length m =? length o)%nat &&
  forallb2 (fun a b => Qle_bool (Qabs (a - b)) ((if approx then tolx else tolu) * L)) m o.
Definition norm_close (approx : bool) (m : list (list Qc)) (o : list Q) : bool :=
  forallb2 (len_close approx) (map (map (fun x : Qc => this x)) m) (cells_of 1 o).

Definition arr_close (approx : bool) (m : list (list Qc)) (nvdim : nat) (o : list Q) : bool :=
  forallb2 (cell_close approx) (map (map (fun x : Qc => this x)) m) (cells_of nvdim o).

Definition optstr_eqb (a b : option string) : bool :=
  match a, b with
  | None, None => true
  | Some x, Some y => String.eqb x y
  | _, _ => false
  end.

Definition check_hist p1 p2 n_ nvdim unit_ vals norm0 v0 ops (obs : option c15_obs) : bool :=
  match build p1 p2 n_ with
  | Err _ => false
  | OK m =>
      let a := map qcl (cells_of nvdim vals) in
      let ns := option_map to_nspec norm0 in
      let mops := map (to_op nvdim) ops in
      let blank := mkField (K:=QK) m nvdim unit_ (repeat true (ncells m)) [] in
      let init_ops := [@OUpdate QK a] ++ match ns with None => [] | Some s => [OSetNorm s] end
                      ++ [@OSetValid QK v0] in
      (* constructor = values, norm, validity on a blank object (theorem C15_constructor_order), then the
         history; [d] records whether every length the model needed was an exact rational root *)
      let (d, r) := (if (nvdim =? 0)%nat then (true, Err ValueE) else run_def blank (init_ops ++ mops)) in
      match r, obs with
      | Err _, None => d
      | OK f, Some o =>
          let approx := approx_after (match norm0 with Some _ => true | None => false end) ops in
          let nf := norm_field (K:=QK) qc_nrm f in
          let orf := orientation (K:=QK) qc_nrm qc_close0 f in
          d && all_defined f &&
          arr_close approx (f_arr f) nvdim (o_arr o) &&
          boollist_eqb (f_valid f) (o_valid o) &&
          (* norm getter *)
          norm_close approx (f_arr nf) (o_norm o) &&
          (f_nvdim nf =? o_norm_nvdim o)%nat &&
          zlist_eqb (n (f_mesh nf)) (o_norm_n o) &&
          qlist_eqb (pmin (reg (f_mesh nf))) (o_norm_pmin o) &&
          qlist_eqb (pmax (reg (f_mesh nf))) (o_norm_pmax o) &&
          optstr_eqb (f_unit nf) (o_norm_unit o) &&
          boollist_eqb (f_valid nf) (o_norm_valid o) &&
          (* orientation: always a quotient *)
          arr_close true (f_arr orf) nvdim (o_orient o) &&
          (f_nvdim orf =? o_orient_nvdim o)%nat &&
          boollist_eqb (f_valid orf) (o_orient_valid o)
      | _, _ => false
      end
  end.

(* ---------- relational check on arbitrary vectors ---------- *)
Definition sumsq_q (v : list Q) : Q := qsum (map (fun x => x * x) v).

(* all 2x2 minors of (a; b) are small compared with |a||b| *)
Fixpoint cross_small (a b : list Q) (bound : Q) : bool :=
  match a, b with
  | x :: a', y :: b' =>
      forallb2 (fun x' y' => let c := x * y' - x' * y in Qle_bool (c * c) bound) a' b' &&
      cross_small a' b' bound
  | _, _ => true
  end.

Definition all_zero (v : list Q) : bool := forallb (fun x => Qeq_bool x 0) v.

(* v' is c*v with c*t >= 0 and |v'| = |t| (1e-12 relative) *)
Definition scaled_ok (v v' : list Q) (t : Q) : bool :=
  let s := sumsq_q v in let s' := sumsq_q v' in
  (length v =? length v')%nat &&
  Qle_bool (Qabs (s' - t * t)) (2 * tolr * (t * t)) &&
  cross_small v' v (tolr * tolr * s' * s) &&
  Qle_bool 0 (t * dotq v' v) &&
  (Qeq_bool t 0 || negb (Qeq_bool (dotq v' v) 0)).

Definition len_min_sq : Q := 1 # 1000000000000.     (* (1e-6)^2 *)

Definition rel_cell (v : list Q) (t nobs : Q) (vset vor : list Q) : bool :=
  let s := sumsq_q v in
  (* getter: non-negative root of the sum of squares *)
  Qle_bool 0 nobs && Qle_bool (Qabs (nobs * nobs - s)) (2 * tolr * s) &&
  (* setter *)
  (if Qeq_bool s 0 then all_zero vset && (length vset =? length v)%nat
   else if Qle_bool len_min_sq s then scaled_ok v vset t
   else (length vset =? length v)%nat (* lengths below 1e-6: outside the quantifier *)) &&
  (* orientation *)
  (if Qle_bool nobs (orient_atol * (1 - band)) then all_zero vor && (length vor =? length v)%nat
   else if Qle_bool (orient_atol * (1 + band)) nobs then scaled_ok v vor 1
   else (all_zero vor && (length vor =? length v)%nat) || scaled_ok v vor 1).

Fixpoint forallb5 {A B C D E} (f : A -> B -> C -> D -> E -> bool)
         (la : list A) (lb : list B) (lc : list C) (ld : list D) (le : list E) : bool :=
  match la, lb, lc, ld, le with
  | [], [], [], [], [] => true
  | a :: la', b :: lb', c :: lc', d :: ld', e :: le' => f a b c d e && forallb5 f la' lb' lc' ld' le'
  | _, _, _, _, _ => false
  end.

Definition check_C15 (c : c15_case) : bool :=
  match c with
  | CHist p1 p2 n_ nvdim unit_ vals norm0 v0 ops obs =>
      check_hist p1 p2 n_ nvdim unit_ vals norm0 v0 ops obs
  | CRel nvdim vals ts obs_norm obs_set obs_orient =>
      negb (nvdim =? 0)%nat &&
      forallb5 rel_cell (cells_of nvdim vals) ts obs_norm (cells_of nvdim obs_set) (cells_of nvdim obs_orient)
  end.
