(* Correspondence checker for C16: runs the VTK model at V := Q on a recorded input and compares
   with what the implementation / an independent VTK consumer returned.
   Values are only moved, never computed with, so they are compared exactly in every regime;
   tolerances exist for (a) vertex coordinates in the scale regime (float linspace), (b) the norm
   (sqrt: the stored number must be the non-negative root of the model's sum of squares) and
   (c) the text representation (ten significant digits of every number). *)
From DF Require Import Prelude Constants_gen Region Mesh Subregions Vtk.
Open Scope Q_scope.

Definition rel_tol : Q := 1 # 1000000000.            (* 1e-9, scale regime *)
Definition txt_tol : Q := 1 # 2000000000.            (* ten significant digits: 0.5e-9 relative *)
Definition norm_tol : Q := 1 # 1000000000000.        (* float sqrt / sum of squares *)

Notation qarr := (string * (nat * list Q))%type.
Notation ogrid := (list Z * list (list Q) * list qarr)%type.
Notation osubs := (list (string * (list Q * list Q)))%type.
Notation ofld := (list Q * list Q * list Z * nat * option (list string) * list Q * list bool * osubs)%type.

Inductive c16_case :=
| CGrid (exact pyth : bool) (p1 p2 : list Q) (n_ : list Z) (nv : nat) (vd : option (list string))
        (vals : list Q) (valid : list bool)
        (obs : option ogrid) (probes : list (list Q * (Z * Z)))
| CRound (exact pyth : bool) (rep : string) (p1 p2 : list Q) (n_ : list Z) (nv : nat)
         (vd : option (list string)) (vals : list Q) (valid : list bool) (subs_ : osubs) (save_sub : bool)
         (stale : option osubs)   (* side-car left at the path by an earlier save *)
         (file : option ogrid) (obs : option ofld)
| CRead (g : ogrid) (side : option osubs) (obs : option ofld)
| CLegacy (exact : bool) (coords : list (list Q)) (vec : bool) (rows : list (list Q))
          (side : option osubs) (obs : option ofld)
(* a sequence of calls on one file name: both observations must agree with the model; a refused
   write is the identity on the disk state, so the first observation is taken AFTER the second call *)
| CBoth (a b : c16_case).

(* ---------- instantiation of the model at Q ---------- *)
Definition sumsq (l : list Q) : Q := fold_right (fun x acc => x * x + acc) 0 l.
Definition qtruth (x : Q) : bool := negb (Qeq_bool x 0).
Definition idq (_ : vrep) (x : Q) : Q := x.

Definition q_to_vtk := @to_vtk Q 0 sumsq 1 0.
Definition q_write := @write_vtk Q 0 sumsq 1 0 idq idq.
Definition q_from_vtk := @from_vtk Q 0 qtruth.
Definition q_from_legacy := @from_legacy Q 0.
Definition q_locate := @locate Q.
Definition q_holds := @holds_closed Q.

Definition mk_sub (m : mesh) (e : string * (list Q * list Q)) : string * region :=
  (fst e, mkRegion (fst (snd e)) (snd (snd e)) (dims (reg m)) (units (reg m)) (tf (reg m))).

Definition mkfield (p1 p2 : list Q) (n_ : list Z) (subs_ : osubs) (nv : nat) (vd : option (list string))
           (vals : list Q) (valid : list bool) : res (vfield Q) :=
  do r <- mk_region p1 p2 None None (1 # 1000000000000);
  do m <- mk_mesh_n r n_;
  do m' <- (match subs_ with [] => OK m | _ => set_subregions m (map (mk_sub m) subs_) end);
  OK (mkVF m' nv vd vals valid).

Definition to_grid (o : ogrid) : vgrid Q :=
  match o with (ds, cs, arrs) => mkGrid ds cs arrs [] end.

(* ---------- comparisons ---------- *)
Definition opt_strs_eqb (a b : option (list string)) : bool :=
  match a, b with
  | Some x, Some y => strlist_eqb x y
  | None, None => true
  | _, _ => false
  end.

Definition axis_scale (l : list Q) : Q :=
  let lo := hd 0 l in let hi := last l 0 in Qmax (Qmax (Qabs lo) (Qabs hi)) (Qabs (hi - lo)).

(* coordinates: model value a, stored value b *)
Definition coord_rel (txt exact : bool) (sc a b : Q) : bool :=
  Qle_bool (Qabs (a - b)) ((if txt then txt_tol * Qabs a else 0) + (if exact then 0 else rel_tol * sc)).

Definition coords_rel (txt exact : bool) (a b : list (list Q)) : bool :=
  forallb2 (fun x y => forallb2 (coord_rel txt exact (axis_scale x)) x y) a b.

Definition val_rel (txt : bool) (a b : Q) : bool :=
  if txt then Qle_bool (Qabs (a - b)) (txt_tol * Qabs a) else Qeq_bool a b.

(* s = model's sum of squares, v = stored norm *)
Definition norm_rel (txt pyth : bool) (s v : Q) : bool :=
  Qle_bool 0 v &&
  (if pyth && negb txt then Qeq_bool (v * v) s
   else Qle_bool (Qabs (v * v - s)) ((norm_tol + (if txt then 4 * txt_tol else 0)) * s)).

Definition arr_rel (txt pyth : bool) (ma : qarr) (oarrs : list qarr) : bool :=
  match lookup_array (fst ma) oarrs with
  | None => false
  | Some (onc, ol) =>
      (fst (snd ma) =? onc)%nat &&
      (if String.eqb (fst ma) "norm" then forallb2 (norm_rel txt pyth) (snd (snd ma)) ol
       else forallb2 (val_rel txt) (snd (snd ma)) ol)
  end.

Definition grid_rel (txt exact pyth : bool) (g : vgrid Q) (o : ogrid) : bool :=
  match o with (ods, ocs, oarrs) =>
    zlist_eqb (g_dims g) ods && coords_rel txt exact (g_coords g) ocs &&
    (length (g_cell g) =? length oarrs)%nat &&
    forallb (fun ma => arr_rel txt pyth ma oarrs) (g_cell g)
  end.

Definition subs_eqb (a : list (string * region)) (b : osubs) : bool :=
  forallb2 (fun x y => String.eqb (fst x) (fst y) && qlist_eqb (pmin (snd x)) (fst (snd y))
                       && qlist_eqb (pmax (snd x)) (snd (snd y))) a b.

Definition corner_rel (exact : bool) (sc a b : Q) : bool :=
  if exact then Qeq_bool a b else Qle_bool (Qabs (a - b)) (rel_tol * sc).

Definition fld_rel (exact : bool) (f : vfield Q) (o : ofld) : bool :=
  match o with (lo, hi, ns, nv, vd, vals, valid, sb) =>
    let r := reg (vf_mesh f) in
    let sc := map2 (fun a b => Qmax (Qmax (Qabs a) (Qabs b)) (b - a)) (pmin r) (pmax r) in
    (length lo =? 3)%nat && (length hi =? 3)%nat &&
    forallb (fun b => b) (map3 (corner_rel exact) sc (pmin r) lo) &&
    forallb (fun b => b) (map3 (corner_rel exact) sc (pmax r) hi) &&
    zlist_eqb (n (vf_mesh f)) ns && (vf_nv f =? nv)%nat && opt_strs_eqb (vf_vdims f) vd &&
    qlist_eqb (vf_vals f) vals && boollist_eqb (vf_valid f) valid &&
    subs_eqb (subs (vf_mesh f)) sb
  end.

Definition res_rel {A B} (rel : A -> B -> bool) (r : res A) (o : option B) : bool :=
  match r, o with
  | OK a, Some b => rel a b
  | Err _, None => true
  | _, _ => false
  end.

(* ---------- probes ---------- *)
Definition in_interval_open (vs : list Q) (j : nat) (x : Q) : bool :=
  (S j <? length vs)%nat && Qltb (nth j vs 0) x && Qltb x (nth (S j) vs 0).

(* p lies strictly inside the cell the model locates (no face involved) *)
Definition strictly_inside (g : vgrid Q) (p : list Q) : option nat :=
  match g_coords g, p with
  | [xs; ys; zs], [x; y; z] =>
      match find_interval xs x, find_interval ys y, find_interval zs z with
      | Some i, Some j, Some k =>
          if in_interval_open xs i x && in_interval_open ys j y && in_interval_open zs k z
          then Some (cell_id (length xs - 1) (length ys - 1) i j k) else None
      | _, _, _ => None
      end
  | _, _ => None
  end.

Definition id_ok (g : vgrid Q) (p : list Q) (id : Z) : bool :=
  match strictly_inside g p with
  | Some mid => (id =? Z.of_nat mid)%Z
  | None => (id <? 0)%Z || q_holds g (Z.to_nat id) p
  end.

(* the observed arrays at the observed id carry what the field holds in the mesh cell of p *)
Definition carries (pyth : bool) (f : vfield Q) (oarrs : list qarr) (p : list Q) (id : Z) : bool :=
  if (id <? 0)%Z then true else
  match point2index (vf_mesh f) p, dims3 (vf_mesh f) with
  | OK [i; j; k], Some (nx, ny, nz) =>
      let i := Z.to_nat i in let j := Z.to_nat j in let k := Z.to_nat k in
      let nv := vf_nv f in
      let t := tuple_at 0 ny nz nv (vf_vals f) i j k in
      let idn := Z.to_nat id in
      let at_ name := match lookup_array name oarrs with
                      | Some a => tuple_of 0 a idn | None => [] end in
      qlist_eqb t (at_ "field"%string) &&
      forallb2 (norm_rel false pyth) [sumsq t] (at_ "norm"%string) &&
      qlist_eqb [if nth (cpos ny nz 1 i j k 0) (vf_valid f) false then 1 else 0] (at_ "valid"%string) &&
      (if (1 <? nv)%nat then
         match vf_vdims f with
         | Some l => forallb2 (fun c name => if reserved name then true
                                             else qlist_eqb [nth c t 0] (at_ name)) (seq 0 nv) l
         | None => false
         end
       else true)
  | _, _ => false
  end.

Definition probe_ok (exact pyth : bool) (f : vfield Q) (g : vgrid Q) (oarrs : list qarr)
           (pr : list Q * (Z * Z)) : bool :=
  let p := fst pr in let a := fst (snd pr) in let b := snd (snd pr) in
  id_ok g p a && id_ok g p b &&
  match strictly_inside g p with
  | Some _ => carries pyth f oarrs p a && carries pyth f oarrs p b
  | None => true
  end.

Definition is_txt (rep : string) : bool := String.eqb rep "txt".

(* legacy reader, scale regime: on a single-point axis the 1 nm default cell is below the float
   resolution of a coordinate of magnitude >= 1e8, the float code sees a zero edge and rejects;
   the rational model cannot see that, so the rejection is admissible there (the oracle reports it) *)
Definition far_single (coords : list (list Q)) : bool :=
  existsb (fun l => match l with [x] => Qle_bool 100000000 (Qabs x) | _ => false end) coords.

Fixpoint check_C16 (c : c16_case) : bool :=
  match c with
  | CGrid exact pyth p1 p2 n_ nv vd vals valid obs probes =>
      match mkfield p1 p2 n_ [] nv vd vals valid with
      | Err _ => false
      | OK f =>
          match q_to_vtk f, obs with
          | OK g, Some o =>
              grid_rel false exact pyth g o &&
              forallb (probe_ok exact pyth f g (snd o)) probes
          | Err _, None => true
          | _, _ => false
          end
      end
  | CRound exact pyth rep p1 p2 n_ nv vd vals valid subs_ save_sub stale file obs =>
      match mkfield p1 p2 n_ subs_ nv vd vals valid with
      | Err _ => false
      | OK f =>
          match q_write f rep save_sub, file with
          | OK (g, side), Some o =>
              grid_rel (is_txt rep) exact pyth g o &&
              (* the side-car on disk after the write (Vtk.sidecar_after) *)
              let disk := sidecar_after (option_map (map (mk_sub (vf_mesh f))) stale) save_sub
                                        (subs (vf_mesh f)) in
              res_rel (fld_rel true) (q_from_vtk (to_grid o) disk) obs
          | Err _, None => match obs with None => true | Some _ => false end
          | _, _ => false
          end
      end
  | CRead g side obs =>
      let m0 := mkMesh (mkRegion [] [] (default_dims 3) (repeat "m"%string 3) (1 # 1000000000000)) [] "" [] in
      res_rel (fld_rel true) (q_from_vtk (to_grid g) (option_map (map (mk_sub m0)) side)) obs
  | CLegacy exact coords vec rows side obs =>
      let m0 := mkMesh (mkRegion [] [] (default_dims 3) (repeat "m"%string 3) (1 # 1000000000000)) [] "" [] in
      match obs with
      | None => if negb exact && far_single coords then true
                else res_rel (fld_rel exact) (q_from_legacy (mkLegacy coords vec rows) (option_map (map (mk_sub m0)) side)) obs
      | _ => res_rel (fld_rel exact) (q_from_legacy (mkLegacy coords vec rows) (option_map (map (mk_sub m0)) side)) obs
      end
  | CBoth a b => check_C16 a && check_C16 b
  end.
