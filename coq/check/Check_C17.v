(* Correspondence checker for C17: runs the model of to_xarray / from_xarray on a recorded
   input and compares with what the implementation returned.
   [exact = true]: dyadic geometry, equality.  [exact = false]: scale regime, geometry within
   1e-9 of the axis scale.  Data, labels, names, units, dtype tags, n, nvdim and the tolerance
   factor are passed through by the code and are always compared exactly.  The accept/reject
   decision of the spacing test is bracketed (tolerance * (1 -+ 1e-6)): inside the bracket
   either decision of the implementation is admissible. *)
From DF Require Export Prelude Constants_gen Region Mesh Xarray.
Open Scope Q_scope.

Definition rel_tol : Q := 1 # 1000000000.            (* 1e-9 *)
Definition fac_strict : Q := 999999 # 1000000.
Definition fac_loose : Q := 1000001 # 1000000.

Inductive c17_case :=
(* a field built from (p1 p2 dims units tf n nvdim vdims dtype unit data); to_xarray(unit=unit_arg) observed *)
| CExport (exact : bool) (p1 p2 : list Q) (ds us : list string) (tf_ : Q) (n_ : list Z)
          (k : Z) (vd : option (list string)) (dt : string) (un : option string) (data : list Q)
          (unit_arg : option string) (obs : dataarray)
(* from_xarray on a recorded DataArray; obs = the resulting field or rejection *)
| CImport (exact : bool) (xa : dataarray) (obs : option field)
(* from_xarray (to_xarray f) on the implementation *)
| CRound (exact : bool) (p1 p2 : list Q) (ds us : list string) (tf_ : Q) (n_ : list Z)
         (k : Z) (vd : option (list string)) (dt : string) (un : option string) (data : list Q)
         (obs : option field)
(* from_xarray on a DataArray whose coordinates / attributes are single precision: the implementation
   computes the corners in float32, compared within [tol] of the axis scale *)
| CImportTol (tol : Q) (xa : dataarray) (obs : option field).

Definition build_field (p1 p2 : list Q) (ds us : list string) (tf_ : Q) (n_ : list Z)
           (k : Z) (vd : option (list string)) (dt : string) (un : option string) (data : list Q)
  : res field :=
  do r <- mk_region p1 p2 (Some ds) (Some us) tf_;
  do m <- mk_mesh_n r n_;
  if (k <? 1)%Z then Err ValueE else
  do v <- set_vdims k vd;
  OK (mkField m k v dt un data).

Definition axis_scale (lo hi : Q) : Q := Qmax (Qmax (Qabs lo) (Qabs hi)) (hi - lo).

Definition qlist_close (exact : bool) (sc a b : list Q) : bool :=
  if exact then qlist_eqb a b
  else (length a =? length b)%nat && (length a =? length sc)%nat &&
       forallb (fun x => x) (map3 (fun s x y => qclose rel_tol s x y) sc a b).

Definition axes_close (exact : bool) (sc : list Q) (a b : list (list Q)) : bool :=
  (length a =? length b)%nat && (length a =? length sc)%nat &&
  forallb (fun x => x)
    (map3 (fun s x y => if exact then qlist_eqb x y
                        else forallb2 (qclose rel_tol s) x y) sc a b).

Definition opt_eqb {A} (eqb : A -> A -> bool) (a b : option A) : bool :=
  match a, b with Some x, Some y => eqb x y | None, None => true | _, _ => false end.

Definition ostr_eqb := opt_eqb String.eqb.
Definition ostrl_eqb := opt_eqb strlist_eqb.

Definition oql_close (exact : bool) (sc : list Q) (a b : option (list Q)) : bool :=
  match a, b with Some x, Some y => qlist_close exact sc x y | None, None => true | _, _ => false end.

(* scales of the geometric axes of a DataArray: from its coordinates (and corners if present) *)
Definition coord_scale (v : list Q) : Q :=
  let lo := hd 0 v in let hi := last v 0 in
  Qmax (Qmax (Qabs lo) (Qabs hi)) (Qabs (hi - lo)).

Definition da_close (exact : bool) (sc : list Q) (a b : dataarray) : bool :=
  strlist_eqb (xdims a) (xdims b) && zlist_eqb (xshape a) (xshape b) &&
  axes_close exact sc (xcoords a) (xcoords b) &&
  forallb2 ostr_eqb (xcunits a) (xcunits b) &&
  ostrl_eqb (xvdims a) (xvdims b) &&
  qlist_eqb (xdata a) (xdata b) && String.eqb (xdtype a) (xdtype b) &&
  ostr_eqb (a_units a) (a_units b) &&
  oql_close exact sc (a_cell a) (a_cell b) &&
  oql_close exact sc (a_pmin a) (a_pmin b) &&
  oql_close exact sc (a_pmax a) (a_pmax b) &&
  opt_eqb Z.eqb (a_nvdim a) (a_nvdim b) &&
  opt_eqb Qeq_bool (a_tf a) (a_tf b).

Definition field_close (exact : bool) (f g : field) : bool :=
  let rf := reg (fmesh f) in let rg := reg (fmesh g) in
  let sc := map2 axis_scale (pmin rf) (pmax rf) in
  qlist_close exact sc (pmin rf) (pmin rg) && qlist_close exact sc (pmax rf) (pmax rg) &&
  strlist_eqb (dims rf) (dims rg) && strlist_eqb (units rf) (units rg) &&
  Qeq_bool (tf rf) (tf rg) &&
  zlist_eqb (n (fmesh f)) (n (fmesh g)) &&
  (fnvdim f =? fnvdim g)%Z && ostrl_eqb (fvdims f) (fvdims g) &&
  String.eqb (fdtype f) (fdtype g) && ostr_eqb (funit f) (funit g) &&
  qlist_eqb (fdata f) (fdata g).

Definition qlist_close_tol (tol : Q) (sc a b : list Q) : bool :=
  (length a =? length b)%nat && (length a =? length sc)%nat &&
  forallb (fun x => x) (map3 (fun s x y => qclose tol s x y) sc a b).

Definition field_close_tol (tol : Q) (f g : field) : bool :=
  let rf := reg (fmesh f) in let rg := reg (fmesh g) in
  let sc := map2 axis_scale (pmin rf) (pmax rf) in
  qlist_close_tol tol sc (pmin rf) (pmin rg) && qlist_close_tol tol sc (pmax rf) (pmax rg) &&
  strlist_eqb (dims rf) (dims rg) && strlist_eqb (units rf) (units rg) &&
  Qeq_bool (tf rf) (tf rg) &&
  zlist_eqb (n (fmesh f)) (n (fmesh g)) &&
  (fnvdim f =? fnvdim g)%Z && ostrl_eqb (fvdims f) (fvdims g) &&
  String.eqb (fdtype f) (fdtype g) && ostr_eqb (funit f) (funit g) &&
  qlist_eqb (fdata f) (fdata g).

(* bracketed comparison of an import *)
Definition import_ok (exact : bool) (xa : dataarray) (obs : option field) : bool :=
  match obs with
  | Some g => match from_xarray_f fac_loose xa with
              | OK f => field_close exact f g
              | Err _ => false
              end
  | None => negb (is_ok (from_xarray_f fac_strict xa))
  end.

Definition check_C17 (c : c17_case) : bool :=
  match c with
  | CExport exact p1 p2 ds us tf_ n_ k vd dt un data unit_arg obs =>
      match build_field p1 p2 ds us tf_ n_ k vd dt un data with
      | Err _ => false
      | OK f =>
          let r := reg (fmesh f) in
          da_close exact (map2 axis_scale (pmin r) (pmax r)) (to_xarray f unit_arg) obs
      end
  | CImport exact xa obs => import_ok exact xa obs
  | CRound exact p1 p2 ds us tf_ n_ k vd dt un data obs =>
      match build_field p1 p2 ds us tf_ n_ k vd dt un data with
      | Err _ => false
      | OK f => import_ok exact (to_xarray f None) obs
      end
  | CImportTol tol xa obs =>
      match obs with
      | Some g => match from_xarray_f fac_loose xa with
                  | OK f => field_close_tol tol f g
                  | Err _ => false
                  end
      | None => negb (is_ok (from_xarray_f fac_strict xa))
      end
  end.

(* ---------- what a passing exact-regime case certifies (soundness statements live in
   proofs/C17_check.v) ---------- *)
Definition field_eqv (f g : field) : Prop :=
  let rf := reg (fmesh f) in let rg := reg (fmesh g) in
  Forall2 Qeq (pmin rf) (pmin rg) /\ Forall2 Qeq (pmax rf) (pmax rg) /\
  dims rf = dims rg /\ units rf = units rg /\ tf rf == tf rg /\
  n (fmesh f) = n (fmesh g) /\ fnvdim f = fnvdim g /\ fvdims f = fvdims g /\
  fdtype f = fdtype g /\ funit f = funit g /\ Forall2 Qeq (fdata f) (fdata g).

Definition oql_eqv (a b : option (list Q)) : Prop :=
  match a, b with Some x, Some y => Forall2 Qeq x y | None, None => True | _, _ => False end.

Definition da_eqv (a b : dataarray) : Prop :=
  xdims a = xdims b /\ xshape a = xshape b /\ Forall2 (Forall2 Qeq) (xcoords a) (xcoords b) /\
  xcunits a = xcunits b /\ xvdims a = xvdims b /\ Forall2 Qeq (xdata a) (xdata b) /\
  xdtype a = xdtype b /\ a_units a = a_units b /\
  oql_eqv (a_cell a) (a_cell b) /\ oql_eqv (a_pmin a) (a_pmin b) /\ oql_eqv (a_pmax a) (a_pmax b) /\
  a_nvdim a = a_nvdim b /\
  match a_tf a, a_tf b with Some x, Some y => x == y | None, None => True | _, _ => False end.
