(* Correspondence checker for C18 (FieldRotator).  scipy's rotation conversions are inexact even
   on dyadic inputs, so everything that went through a rotation is compared in the tolerance
   form (1e-9 of the coordinate / value scale); what is restored by clear_rotation is compared
   exactly.  The default resolution is a relation (cube root): the observed n must be admissible
   (n - 1/2 - 1e-6 <= E/(L a) <= n + 1/2 + 1e-6), an explicit n must be taken over literally.
   Cells whose back-rotated centre lies within 1e-6 cell of the outer box of the interpolator
   (where the result jumps from the edge value to the zero fill) may carry either value. *)
From DF Require Import Prelude.
From DF Require Export Rotator.
Open Scope Q_scope.

Definition rel_tol : Q := 1 # 1000000000.            (* 1e-9 *)
Definition band : Q := 1 # 1000000.                   (* 1e-6 cell *)
Definition n_slack : Q := 1 # 1000000.
(* evaluation hook of the model: 44 significant bits per arithmetic step (see Rotator.v) *)
Definition rnd : Q -> Q := rnd_bits 44.

Inductive c18_case :=
| CRot (pmin pmax : vec3) (n : n3) (nv : nat) (perm : list nat) (vals : list Q)
       (ops : list op) (obs_n : n3) (obs_pmin obs_pmax : vec3) (obs_vals : list Q)
| CRefuse (nvdim ndim : nat) (mapping : list (option nat)) (accepted : bool).

Definition vmax3 (v : vec3) : Q := Qmax (Qabs (vx v)) (Qmax (Qabs (vy v)) (Qabs (vz v))).
Definition vclose (tol : Q) (a b : vec3) : bool :=
  Qle_bool (Qabs (vx a - vx b)) tol && Qle_bool (Qabs (vy a - vy b)) tol && Qle_bool (Qabs (vz a - vz b)) tol.
Definition veqb (a b : vec3) : bool :=
  Qeq_bool (vx a) (vx b) && Qeq_bool (vy a) (vy b) && Qeq_bool (vz a) (vz b).
Definition n3_eqb (a b : n3) : bool :=
  (n0 a =? n0 b)%nat && (n1 a =? n1 b)%nat && (n2 a =? n2 b)%nat.
Definition ncells (n : n3) : nat := (n0 n * n1 n * n2 n)%nat.

Definition near_edge (g : list Q) (c x : Q) : bool :=
  Qle_bool (Qabs (x - hd 0 g)) (band * c) || Qle_bool (Qabs (x - last g 0)) (band * c).
Definition clamp1 (g : list Q) (x : Q) : Q := Qmax (hd 0 g) (Qmin (last g 0) x).
Definition close_to (tol a b : Q) : bool := Qle_bool (Qabs (a - b)) tol.

(* last ACCEPTED rotation step's explicit n (refused calls do not count), None inside when it used the default *)
Fixpoint last_rot (ops : list op) (cur : option (option n3)) : option (option n3) :=
  match ops with
  | [] => cur
  | ORot M nopt :: t => last_rot t (if op_accepted (ORot M nopt) then Some nopt else cur)
  | OClear :: t => last_rot t None
  | ORefused :: t => last_rot t cur
  end.

(* values: the model side is rotated_val_fast unfolded (so that the back-rotated centre is shared with
   the band test); rotated_val_fast = rotated_val = f_val (st_field (run ...)) by the lemmas
   rotated_val_fast_eq and run_field of proofs/C18_machine.v *)
Definition check_vals (nv : nat) (perm : list nat) (orig : fld) (R : mat3) (n' : n3)
           (obs : arr) (vtol : Q) : bool :=
  let g := grids rnd orig in
  let gx := fst (fst g) in let gy := snd (fst g) in let gz := snd g in
  let c := cellv orig in
  let ra := memo4 (f_n orig) nv (rot_arr rnd nv R perm (f_val orig)) in
  let lo' := new_pmin rnd R orig in let hi' := new_pmax rnd R orig in
  let ctr := centre orig in let Rt := mtrans R in
  forallb (fun i => forallb (fun j => forallb (fun k =>
    let p := back_pos_at rnd lo' hi' ctr Rt n' i j k in
    let m := interp_at rnd gx gy gz (f_n orig) ra p in
    let inband := near_edge gx (vx c) (vx p) || near_edge gy (vy c) (vy p) || near_edge gz (vz c) (vz p) in
    let pc := V3 (clamp1 gx (vx p)) (clamp1 gy (vy p)) (clamp1 gz (vz p)) in
    let alt := if inband then interp_at rnd gx gy gz (f_n orig) ra pc else fun _ => 0 in
    forallb (fun cc =>
      let o := obs i j k cc in
      close_to vtol (m cc) o || (inband && (close_to vtol 0 o || close_to vtol (alt cc) o)))
      (iota 0 nv)) (iota 0 (n2 n'))) (iota 0 (n1 n'))) (iota 0 (n0 n')).

Definition check_C18 (c : c18_case) : bool :=
  match c with
  | CRefuse nvdim ndim mapping accepted => Bool.eqb (rotator_accepts nvdim ndim mapping) accepted
  | CRot pmin pmax n nv perm vals ops obs_n obs_pmin obs_pmax obs_vals =>
      let orig := Fld pmin pmax n (arr_of_list n nv vals) in
      let final := run rnd nv perm orig (fun _ => obs_n) ops in
      (length vals =? ncells n * nv)%nat && (length obs_vals =? ncells obs_n * nv)%nat &&
      match last_rot ops None with
      | None =>
          (* no rotation since the last clear: the original field, literally *)
          n3_eqb (f_n (st_field final)) obs_n && veqb (f_pmin (st_field final)) obs_pmin &&
          veqb (f_pmax (st_field final)) obs_pmax && qlist_eqb (fld_list nv (st_field final)) obs_vals
      | Some nopt =>
          let R := st_rot final in
          let cscale := Qmax (Qmax (vmax3 pmin) (vmax3 pmax)) (vmax3 (edges orig)) in
          let vscale := fold_right (fun x m => Qmax (Qabs x) m) 0 vals in
          vclose (rel_tol * cscale) (f_pmin (st_field final)) obs_pmin &&
          vclose (rel_tol * cscale) (f_pmax (st_field final)) obs_pmax &&
          match nopt with
          | Some ne => n3_eqb ne obs_n
          | None => n_adm rnd n_slack R orig obs_n
          end &&
          check_vals nv perm orig R obs_n (arr_of_list obs_n nv obs_vals)
                     (rel_tol * vscale)
      end
  end.
