(* Correspondence checker for C19: runs the model of tools.py on recorded inputs (orientation
   arrays as the exact rationals of the implementation's floats) and compares with what the
   implementation returned, within 1e-9 of the natural scale of the quantity.  Library functions
   (solid angle, arccos, Newell f/g) enter as finite tables recorded from the implementation's
   own helpers / independent evaluations; everything structural (which neighbours, which axes,
   which cell edges, masks, normalisations, sums) is computed here. *)
From Coq Require Import Qcanon.
From DF Require Import Prelude FieldK NDArray Diff Integrate Region Mesh Tools.

Definition tol9 : Q := 1 # 1000000000.
Definition tol6 : Q := 1 # 1000000.

(* --- finite tables standing for library functions --- *)
Definition q4 : Type := (Q * Q * Q * Q * Q)%type.
Fixpoint lookup4 (t : list q4) (a b c d : Qc) : Qc :=
  match t with
  | [] => Q2Qc 0
  | (ka, kb, kc, kd, v) :: t' =>
      if Qeq_bool ka (this a) && Qeq_bool kb (this b) && Qeq_bool kc (this c) && Qeq_bool kd (this d)
      then Q2Qc v else lookup4 t' a b c d
  end.
Fixpoint lookup1 (t : list (Q * Q)) (a : Qc) : Qc :=
  match t with
  | [] => Q2Qc 0
  | (k, v) :: t' => if Qeq_bool k (this a) then Q2Qc v else lookup1 t' a
  end.
Definition q3v : Type := (Q * Q * Q * Q)%type.
Fixpoint lookup3 (t : list q3v) (a b c : Qc) : Qc :=
  match t with
  | [] => Q2Qc 0
  | (ka, kb, kc, v) :: t' =>
      if Qeq_bool ka (this a) && Qeq_bool kb (this b) && Qeq_bool kc (this c)
      then Q2Qc v else lookup3 t' a b c
  end.
Fixpoint has3 (t : list q3v) (a b c : Qc) : bool :=
  match t with
  | [] => false
  | (ka, kb, kc, v) :: t' =>
      (Qeq_bool ka (this a) && Qeq_bool kb (this b) && Qeq_bool kc (this c)) || has3 t' a b c
  end.

(* (not used by check_C19: an exactly coplanar triangle of FLOAT vectors can have a rounded triple product
   that is not 0, and the code then returns +-1/2 for a triangle spread over more than a half circle - an
   exceptional configuration; the harness judges only triangles lying in a coordinate plane, where the float
   triple product is exactly 0) *)
Definition table_zero_on_coplanar (t : list q4) : bool :=
  forallb (fun e => match e with (_, _, _, tau, v) =>
                      if Qeq_bool tau 0 then Qle_bool (Qabs v) tol9 else true end) t.

Definition qc_abs (x : Qc) : Qc := Q2Qc (Qabs (this x)).
Definition qc_clip (x : Qc) : Qc := Q2Qc (Qmax (-1) (Qmin 1 (this x))).
Definition no_fn (x : Qc) : Qc := x.
Definition no_fn3 (x y z : Qc) : Qc := Q2Qc 0.
Definition no_fn4 (a b c d : Qc) : Qc := Q2Qc 0.

Definition close_list (t : Q) (scale : Q) (a b : list Qc) : bool := forallb2 (qc_close t scale) a b.

(* rounding decisions are compared only away from the half-integers *)
Definition round_admissible (x : Qc) (z : Z) : bool :=
  Z.eqb z (Qround_half_even (this x - tol6)) || Z.eqb z (Qround_half_even (this x + tol6)).

Inductive c19_case :=
(* continuous density *)
| CTcdCont (sh : list nat) (h1 h2 : Q) (per1 per2 : bool) (c4 : Q)
           (o : list Q) (valid : list bool) (obs : list Q)
(* Berg-Luescher density; table = recorded values of util.bergluescher_angle *)
| CTcdBL (sh : list nat) (h1 h2 : Q) (o : list Q) (valid : list bool) (table : list q4) (obs : list Q)
(* charge from the implementation's own density *)
| CCharge (absolute : bool) (sh : list nat) (dV : Q) (q : list Q) (obs : Q)
(* neighbouring-cell angles: values and the shortened mesh *)
| CAngle (sh : list nat) (ax : nat) (deg : bool) (deg_factor : Q) (o : list Q) (acos_table : list (Q * Q))
         (obs_shape : list nat) (obs : list Q)
| CAngleMesh (p1 p2 : list Q) (n_ : list Z) (ax : nat) (obs : option (list Q * list Q * list Z))
(* emergent field and Bloch-point profile *)
| CEmergent (sh : list nat) (h : list Q) (per : list bool) (m : list Q) (valid : list bool) (obs : list Q)
| CBps (sh : list nat) (h : list Q) (per : list bool) (dir : nat) (c4 : Q) (o : list Q) (valid : list bool)
       (obs_numbers : list Z)
(* real-space demag tensor at the positions [pts]; ftab/gtab = Newell-type functions on the shifted points *)
| CDemagN (pi4 : Q) (cell_ : list Q) (pts : list (list Q)) (ftab gtab : list q3v) (obs : list (list Q)).

Definition hmin2 (h1 h2 : Q) : Q := 1 / (h1 * h2).

Definition check_C19_core (c : c19_case) : bool :=
  match c with
  | CTcdCont sh h1 h2 per1 per2 c4 o valid obs =>
      let fsh := sh ++ [3%nat] in
      let oa := of_list (f0 QcOps) fsh (qcl o) in
      let va := of_list true sh valid in
      let r := tcd_cont QcOps (qc c4) sh (qc h1) (qc h2) per1 per2 oa va in
      (length sh =? 2)%nat && (length o =? nprod fsh)%nat && (length valid =? nprod sh)%nat &&
      close_list tol9 (16 * Qabs c4 * hmin2 h1 h2) (to_list sh r) (qcl obs)
  | CTcdBL sh h1 h2 o valid table obs =>
      let fsh := sh ++ [3%nat] in
      let oa := of_list (f0 QcOps) fsh (qcl o) in
      let va := of_list true sh valid in
      let r := tcd_bl QcOps (lookup4 table) sh (qc h1) (qc h2) oa va in
      (length sh =? 2)%nat && (length o =? nprod fsh)%nat && (length valid =? nprod sh)%nat &&
      close_list tol9 (4 * hmin2 h1 h2) (to_list sh r) (qcl obs)
  | CCharge absolute sh dV q obs =>
      let qa := of_list (f0 QcOps) sh (qcl q) in
      let scale := Qabs dV * qsum (map Qabs q) + 1 in
      (length q =? nprod sh)%nat &&
      qc_close tol9 scale (charge QcOps qc_abs absolute sh (qc dV) qa) (qc obs)
  | CAngle sh ax deg deg_factor o acos_table obs_shape obs =>
      let fsh := sh ++ [3%nat] in
      let oa := of_list (f0 QcOps) fsh (qcl o) in
      let ash := angle_shape sh ax in
      let r := angle_arr QcOps (lookup1 acos_table) qc_clip (fun x => Qcmult x (qc deg_factor)) ax deg oa in
      (length o =? nprod fsh)%nat && natlist_eqb ash obs_shape &&
      close_list tol6 (if deg then 180 else 1) (to_list ash r) (qcl obs)
  | CAngleMesh p1 p2 n_ ax obs =>
      match (do r <- mk_region p1 p2 None None (1 # 1000000000000); mk_mesh_n r n_) with
      | Err _ => false
      | OK m =>
          match angle_mesh m ax, obs with
          | OK a, Some (lo, hi, k) =>
              qlist_eqb (pmin (reg a)) lo && qlist_eqb (pmax (reg a)) hi && zlist_eqb (n a) k
          | Err _, None => true
          | _, _ => false
          end
      end
  | CEmergent sh h per m valid obs =>
      let fsh := sh ++ [3%nat] in
      let ma := of_list (f0 QcOps) fsh (qcl m) in
      let va := of_list true sh valid in
      let r := emergent QcOps sh (qcl h) per ma va in
      let hm := qlist_min h in
      (length sh =? 3)%nat && (length m =? nprod fsh)%nat && (length valid =? nprod sh)%nat &&
      close_list tol9 (16 * (1 + qsum (map (fun x => Qabs x * Qabs x * Qabs x) m)) / (hm * hm))
                 (to_list fsh r) (qcl obs)
  | CBps sh h per dir c4 o valid obs_numbers =>
      let fsh := sh ++ [3%nat] in
      let oa := of_list (f0 QcOps) fsh (qcl o) in
      let va := of_list true sh valid in
      let prof := bp_profile QcOps sh (qcl h) per dir oa va in
      let cum := bp_cum QcOps (qc c4) (qc (nth dir h 0)) prof in
      (length sh =? 3)%nat && (length o =? nprod fsh)%nat && (length valid =? nprod sh)%nat &&
      forallb2 round_admissible cum obs_numbers
  | CDemagN pi4 cell_ pts ftab gtab obs =>
      let dx := qc (nth 0 cell_ 0) in let dy := qc (nth 1 cell_ 0) in let dz := qc (nth 2 cell_ 0) in
      (length cell_ =? 3)%nat &&
      forallb2 (fun p ob =>
                  close_list tol6 1
                    (N6 QcOps (lookup3 ftab) (lookup3 gtab) (qc pi4) dx dy dz
                        (qc (nth 0 p 0)) (qc (nth 1 p 0)) (qc (nth 2 p 0)))
                    (qcl ob)) pts obs
  end.

(* --- completeness of the recorded tables: a table stands for a library function only at the keys it
   lists (lookup of an absent key would read 0), so a case is accepted only if every key that the model
   evaluation of that case looks up is present.  The key lists below follow the model's own enumeration
   (Tools.tcd_bl / angle_arr / N_sum); C19_sound.v proves that the model values depend on the tabled
   function through these keys only. --- *)
Fixpoint has1 (t : list (Q * Q)) (a : Qc) : bool :=
  match t with
  | [] => false
  | (k, v) :: t' => Qeq_bool k (this a) || has1 t' a
  end.
Fixpoint has4 (t : list q4) (a b c d : Qc) : bool :=
  match t with
  | [] => false
  | (ka, kb, kc, kd, v) :: t' =>
      (Qeq_bool ka (this a) && Qeq_bool kb (this b) && Qeq_bool kc (this c) && Qeq_bool kd (this d))
      || has4 t' a b c d
  end.

Definition k4 : Type := (Qc * Qc * Qc * Qc)%type.
Definition k3 : Type := (Qc * Qc * Qc)%type.
Definition has4k (t : list q4) (k : k4) : bool := match k with (a, b, c, d) => has4 t a b c d end.
Definition has3k (t : list q3v) (k : k3) : bool := match k with (a, b, c) => has3 t a b c end.

(* Berg-Luescher: one key per triangle whose two neighbours exist and are valid (as Tools.tri) *)
Definition tri_keys (v0 : vec QcOps) (a b : option (vec QcOps)) : list k4 :=
  match a, b with
  | Some x, Some y => [(dot3 QcOps v0 x, dot3 QcOps x y, dot3 QcOps y v0, triple3 QcOps v0 x y)]
  | _, _ => []
  end.
Definition bl_keys (sh : list nat) (o : idx -> Qc) (valid : idx -> bool) (ij : idx) : list k4 :=
  let i := nth 0 ij 0%nat in let j := nth 1 ij 0%nat in
  let n0 := nth 0 sh 0%nat in let n1 := nth 1 sh 0%nat in
  if valid [i; j] then
    let v0 := vec_at QcOps o [i; j] in
    let v1 := nbr QcOps o valid (i + 1 <? n0)%nat [(i + 1)%nat; j] in
    let v2 := nbr QcOps o valid (j + 1 <? n1)%nat [i; (j + 1)%nat] in
    let v3 := nbr QcOps o valid (1 <=? i)%nat [(i - 1)%nat; j] in
    let v4 := nbr QcOps o valid (1 <=? j)%nat [i; (j - 1)%nat] in
    tri_keys v0 v1 v2 ++ tri_keys v0 v2 v3 ++ tri_keys v0 v3 v4 ++ tri_keys v0 v4 v1
  else [].

(* angles: the clipped dot product of a cell with its next neighbour *)
Definition angle_key (ax : nat) (o : idx -> Qc) (i : idx) : Qc :=
  qc_clip (dot3 QcOps (vec_at QcOps o i) (vec_at QcOps o (set_nth ax (nth ax i 0%nat + 1)%nat i))).

(* demag: the 64 shifted points of Tools.N_sum, for the three f- and the three g-components of N6 *)
Definition N_keys (x y z dx dy dz : Qc) : list k3 :=
  map (fun i => (@fadd QcOps x (@fmul QcOps (@fsub QcOps (bitK QcOps i 0) (bitK QcOps i 3)) dx),
                 @fadd QcOps y (@fmul QcOps (@fsub QcOps (bitK QcOps i 1) (bitK QcOps i 4)) dy),
                 @fadd QcOps z (@fmul QcOps (@fsub QcOps (bitK QcOps i 2) (bitK QcOps i 5)) dz)))
      bits6.
Definition demag_fkeys (dx dy dz x y z : Qc) : list k3 :=
  N_keys x y z dx dy dz ++ N_keys y z x dy dz dx ++ N_keys z x y dz dx dy.
Definition demag_gkeys (dx dy dz x y z : Qc) : list k3 :=
  N_keys x y z dx dy dz ++ N_keys x z y dx dz dy ++ N_keys y z x dy dz dx.

Definition tables_complete (c : c19_case) : bool :=
  match c with
  | CTcdBL sh h1 h2 o valid table obs =>
      let oa := of_list (f0 QcOps) (sh ++ [3%nat]) (qcl o) in
      let va := of_list true sh valid in
      forallb (fun ij => forallb (has4k table) (bl_keys sh oa va ij)) (indices sh)
  | CAngle sh ax deg deg_factor o acos_table obs_shape obs =>
      let oa := of_list (f0 QcOps) (sh ++ [3%nat]) (qcl o) in
      forallb (fun i => has1 acos_table (angle_key ax oa i)) (indices (angle_shape sh ax))
  | CDemagN pi4 cell_ pts ftab gtab obs =>
      let dx := qc (nth 0 cell_ 0) in let dy := qc (nth 1 cell_ 0) in let dz := qc (nth 2 cell_ 0) in
      forallb (fun p =>
                 let x := qc (nth 0 p 0) in let y := qc (nth 1 p 0) in let z := qc (nth 2 p 0) in
                 forallb (has3k ftab) (demag_fkeys dx dy dz x y z) &&
                 forallb (has3k gtab) (demag_gkeys dx dy dz x y z)) pts
  | _ => true
  end.

Definition check_C19 (c : c19_case) : bool := tables_complete c && check_C19_core c.
