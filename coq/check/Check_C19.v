(* Correspondence checker for C19: runs the model of tools.py on recorded inputs (orientation
   arrays as the exact rationals of the implementation's floats) and compares with what the
   implementation returned, within 1e-9 of the natural scale of the quantity.  Library functions
   (solid angle, arccos, Newell f/g) enter as finite tables recorded from the implementation's
   own helpers / independent evaluations; everything structural (which neighbours, which axes,
   which cell edges, masks, normalisations, sums) is computed here. *)
From Coq Require Import Qcanon.
From DF Require Import Prelude FieldK NDArray Diff Integrate Region Mesh Tools.

Definition tol9 : Q := 1 # 1000000000.
Definition tol6 : Q := 1 # 1000000.

(* --- finite tables standing for library functions --- *)
Definition q4 : Type := (Q * Q * Q * Q * Q)%type.
Fixpoint lookup4 (t : list q4) (a b c d : Qc) : Qc :=
  match t with
  | [] => Q2Qc 0
  | (ka, kb, kc, kd, v) :: t' =>
      if Qeq_bool ka (this a) && Qeq_bool kb (this b) && Qeq_bool kc (this c) && Qeq_bool kd (this d)
      then Q2Qc v else lookup4 t' a b c d
  end.
Fixpoint lookup1 (t : list (Q * Q)) (a : Qc) : Qc :=
  match t with
  | [] => Q2Qc 0
  | (k, v) :: t' => if Qeq_bool k (this a) then Q2Qc v else lookup1 t' a
  end.
Definition q3v : Type := (Q * Q * Q * Q)%type.
Fixpoint lookup3 (t : list q3v) (a b c : Qc) : Qc :=
  match t with
  | [] => Q2Qc 0
  | (ka, kb, kc, v) :: t' =>
      if Qeq_bool ka (this a) && Qeq_bool kb (this b) && Qeq_bool kc (this c)
      then Q2Qc v else lookup3 t' a b c
  end.
Fixpoint has3 (t : list q3v) (a b c : Qc) : bool :=
  match t with
  | [] => false
  | (ka, kb, kc, v) :: t' =>
      (Qeq_bool ka (this a) && Qeq_bool kb (this b) && Qeq_bool kc (this c)) || has3 t' a b c
  end.

(* (not used by check_C19: an exactly coplanar triangle of FLOAT vectors can have a rounded triple product
   that is not 0, and the code then returns +-1/2 for a triangle spread over more than a half circle - an
   exceptional configuration; the harness judges only triangles lying in a coordinate plane, where the float
   triple product is exactly 0) *)
Definition table_zero_on_coplanar (t : list q4) : bool :=
  forallb (fun e => match e with (_, _, _, tau, v) =>
                      if Qeq_bool tau 0 then Qle_bool (Qabs v) tol9 else true end) t.

Definition qc_abs (x : Qc) : Qc := Q2Qc (Qabs (this x)).
Definition qc_clip (x : Qc) : Qc := Q2Qc (Qmax (-1) (Qmin 1 (this x))).
Definition no_fn (x : Qc) : Qc := x.
Definition no_fn3 (x y z : Qc) : Qc := Q2Qc 0.
Definition no_fn4 (a b c d : Qc) : Qc := Q2Qc 0.

Definition close_list (t : Q) (scale : Q) (a b : list Qc) : bool := forallb2 (qc_close t scale) a b.

(* rounding decisions are compared only away from the half-integers *)
Definition round_admissible (x : Qc) (z : Z) : bool :=
  Z.eqb z (Qround_half_even (this x - tol6)) || Z.eqb z (Qround_half_even (this x + tol6)).

Inductive c19_case :=
(* continuous density *)
| CTcdCont (sh : list nat) (h1 h2 : Q) (per1 per2 : bool) (c4 : Q)
           (o : list Q) (valid : list bool) (obs : list Q)
(* Berg-Luescher density; table = recorded values of util.bergluescher_angle *)
| CTcdBL (sh : list nat) (h1 h2 : Q) (o : list Q) (valid : list bool) (table : list q4) (obs : list Q)
(* charge from the implementation's own density *)
| CCharge (absolute : bool) (sh : list nat) (dV : Q) (q : list Q) (obs : Q)
(* neighbouring-cell angles: values and the shortened mesh *)
| CAngle (sh : list nat) (ax : nat) (deg : bool) (deg_factor : Q) (o : list Q) (acos_table : list (Q * Q))
         (obs_shape : list nat) (obs : list Q)
| CAngleMesh (p1 p2 : list Q) (n_ : list Z) (ax : nat) (obs : option (list Q * list Q * list Z))
(* emergent field and Bloch-point profile *)
| CEmergent (sh : list nat) (h : list Q) (per : list bool) (m : list Q) (valid : list bool) (obs : list Q)
| CBps (sh : list nat) (h : list Q) (per : list bool) (dir : nat) (c4 : Q) (o : list Q) (valid : list bool)
       (obs_numbers : list Z)
(* real-space demag tensor at the positions [pts]; ftab/gtab = Newell-type functions on the shifted points *)
| CDemagN (pi4 : Q) (cell_ : list Q) (pts : list (list Q)) (ftab gtab : list q3v) (obs : list (list Q)).

Definition hmin2 (h1 h2 : Q) : Q := 1 / (h1 * h2).

Definition check_C19 (c : c19_case) : bool :=
  match c with
  | CTcdCont sh h1 h2 per1 per2 c4 o valid obs =>
      let fsh := sh ++ [3%nat] in
      let oa := of_list (f0 QcOps) fsh (qcl o) in
      let va := of_list true sh valid in
      let r := tcd_cont QcOps (qc c4) sh (qc h1) (qc h2) per1 per2 oa va in
      (length sh =? 2)%nat && (length o =? nprod fsh)%nat && (length valid =? nprod sh)%nat &&
      close_list tol9 (16 * Qabs c4 * hmin2 h1 h2) (to_list sh r) (qcl obs)
  | CTcdBL sh h1 h2 o valid table obs =>
      let fsh := sh ++ [3%nat] in
      let oa := of_list (f0 QcOps) fsh (qcl o) in
      let va := of_list true sh valid in
      let r := tcd_bl QcOps (lookup4 table) sh (qc h1) (qc h2) oa va in
      (length sh =? 2)%nat && (length o =? nprod fsh)%nat && (length valid =? nprod sh)%nat &&
      close_list tol9 (4 * hmin2 h1 h2) (to_list sh r) (qcl obs)
  | CCharge absolute sh dV q obs =>
      let qa := of_list (f0 QcOps) sh (qcl q) in
      let scale := Qabs dV * qsum (map Qabs q) + 1 in
      (length q =? nprod sh)%nat &&
      qc_close tol9 scale (charge QcOps qc_abs absolute sh (qc dV) qa) (qc obs)
  | CAngle sh ax deg deg_factor o acos_table obs_shape obs =>
      let fsh := sh ++ [3%nat] in
      let oa := of_list (f0 QcOps) fsh (qcl o) in
      let ash := angle_shape sh ax in
      let r := angle_arr QcOps (lookup1 acos_table) qc_clip (fun x => Qcmult x (qc deg_factor)) ax deg oa in
      (length o =? nprod fsh)%nat && natlist_eqb ash obs_shape &&
      close_list tol6 (if deg then 180 else 1) (to_list ash r) (qcl obs)
  | CAngleMesh p1 p2 n_ ax obs =>
      match (do r <- mk_region p1 p2 None None (1 # 1000000000000); mk_mesh_n r n_) with
      | Err _ => false
      | OK m =>
          match angle_mesh m ax, obs with
          | OK a, Some (lo, hi, k) =>
              qlist_eqb (pmin (reg a)) lo && qlist_eqb (pmax (reg a)) hi && zlist_eqb (n a) k
          | Err _, None => true
          | _, _ => false
          end
      end
  | CEmergent sh h per m valid obs =>
      let fsh := sh ++ [3%nat] in
      let ma := of_list (f0 QcOps) fsh (qcl m) in
      let va := of_list true sh valid in
      let r := emergent QcOps sh (qcl h) per ma va in
      let hm := qlist_min h in
      (length sh =? 3)%nat && (length m =? nprod fsh)%nat && (length valid =? nprod sh)%nat &&
      close_list tol9 (16 * (1 + qsum (map (fun x => Qabs x * Qabs x * Qabs x) m)) / (hm * hm))
                 (to_list fsh r) (qcl obs)
  | CBps sh h per dir c4 o valid obs_numbers =>
      let fsh := sh ++ [3%nat] in
      let oa := of_list (f0 QcOps) fsh (qcl o) in
      let va := of_list true sh valid in
      let prof := bp_profile QcOps sh (qcl h) per dir oa va in
      let cum := bp_cum QcOps (qc c4) (qc (nth dir h 0)) prof in
      (length sh =? 3)%nat && (length o =? nprod fsh)%nat && (length valid =? nprod sh)%nat &&
      forallb2 round_admissible cum obs_numbers
  | CDemagN pi4 cell_ pts ftab gtab obs =>
      let dx := qc (nth 0 cell_ 0) in let dy := qc (nth 1 cell_ 0) in let dz := qc (nth 2 cell_ 0) in
      (length cell_ =? 3)%nat &&
      forallb2 (fun p ob =>
                  close_list tol6 1
                    (N6 QcOps (lookup3 ftab) (lookup3 gtab) (qc pi4) dx dy dz
                        (qc (nth 0 p 0)) (qc (nth 1 p 0)) (qc (nth 2 p 0)))
                    (qcl ob)) pts obs
  end.
