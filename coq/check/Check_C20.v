(* Correspondence checker for C20: runs the plotting model on the recorded field / call and
   compares with the data read back from the matplotlib artists.
   Values: exact (they are handed over unchanged).  Coordinates / extent: 1e-12 of the axis scale
   (one division by the multiplier).  RGBA of the lightness plot: 1e-9 absolute.
   Where the property leaves freedom (nearest cell on a tie when a filter / colour field lives on
   another resolution; which remaining component set.pop() picks) every admissible result passes. *)
From DF Require Export Prelude Constants_gen Region Mesh Plot.
Open Scope Q_scope.

Definition coord_tol : Q := 1 # 1000000000000.      (* 1e-12 *)
Definition rgba_tol : Q := 1 # 1000000000.           (* 1e-9 *)

Definition image_obs := (list (list (option Q)) * list Q * list Q * list Q * string * string)%type.
Definition quiver_obs := (list Q * list Q * list Q * list Q * list bool * option (list Q))%type.

Inductive c20_case :=
| CScalar (contour : bool) (f : pfield) (mu : mult_arg) (flt : option aux) (obs : option image_obs)
| CVector (f : pfield) (mu : mult_arg) (arg : option (list (option string))) (use_color : bool)
          (cf : option aux) (obs : option (quiver_obs * string * string))
| CLight (f : pfield) (mu : mult_arg) (flt lf : option aux) (clim : option (Q * Q)) (tabs : libtabs)
         (obs : option (list (list (list Q)) * list Q * string * string))
| CCall (f : pfield) (mu : mult_arg) (flt : option aux)
        (obs : option (option (list (list (option Q)) * list Q) * option quiver_obs * string * string)).

Definition axis_scale (r : region) (a : nat) (m : Q) : Q :=
  Qmax (Qabs (nth a (pmin r) 0)) (Qabs (nth a (pmax r) 0)) / Qabs m.

Definition coords_close (s : Q) (a b : list Q) : bool := forallb2 (qclose coord_tol s) a b.

Definition mult_of (r : region) (mu : mult_arg) : Q :=
  match setup_multiplier r mu with OK mp => fst mp | Err _ => 1 end.

Definition extent_close (r : region) (m : Q) (a b : list Q) : bool :=
  match a, b with
  | [a0; a1; a2; a3], [b0; b1; b2; b3] =>
      qclose coord_tol (axis_scale r 0 m) a0 b0 && qclose coord_tol (axis_scale r 0 m) a1 b1 &&
      qclose coord_tol (axis_scale r 1 m) a2 b2 && qclose coord_tol (axis_scale r 1 m) a3 b3
  | _, _ => false
  end.

Definition labels_eqb (l : string * string) (x y : string) : bool :=
  String.eqb (fst l) x && String.eqb (snd l) y.

Definition all_cells (k0 k1 : nat) (p : nat -> nat -> bool) : bool :=
  forallb (fun i => forallb (fun j => p i j) (iota 0 k1)) (iota 0 k0).

(* observed rows (n1 rows of n0 entries) against component k with admissible hiding *)
Definition rows_ok (f : pfield) (k : nat) (flt : option aux) (rows : list (list (option Q))) : bool :=
  (length rows =? n1 f)%nat && forallb (fun r => (length r =? n0 f)%nat) rows &&
  all_cells (n0 f) (n1 f) (fun i j =>
    match nth i (nth j rows []) None with
    | None => existsb (fun h => h) (hidden_cands f flt i j)
    | Some v => existsb negb (hidden_cands f flt i j) && Qeq_bool v (fval f k i j)
    end).

(* the model's hidden-free version must coincide with the representative when there is no tie *)
Definition opt_rows_eqb (a b : list (list (option Q))) : bool :=
  forallb2 (forallb2 (fun x y => match x, y with
                                 | None, None => true | Some u, Some v => Qeq_bool u v | _, _ => false end)) a b.

Definition no_tie (f : pfield) (flt : option aux) : bool :=
  all_cells (n0 f) (n1 f) (fun i j => (length (hidden_cands f flt i j) =? 1)%nat).

Definition quiver_ok (f : pfield) (m : Q) (q : quiver_out) (o : quiver_obs) : bool :=
  match o with
  | (ox, oy, ou, ov, omask, oc) =>
      let k := (n0 f * n1 f)%nat in
      (length ox =? k)%nat && (length oy =? k)%nat && (length ou =? k)%nat && (length ov =? k)%nat &&
      (length omask =? k)%nat && (length (qv_x q) =? k)%nat &&
      coords_close (axis_scale (preg f) 0 m) (qv_x q) ox &&
      coords_close (axis_scale (preg f) 1 m) (qv_y q) oy &&
      forallb (fun a =>
        Bool.eqb (arrow_hidden q a) (nth a omask false) &&
        (nth a omask false ||
         match nth a (qv_u q) None, nth a (qv_v q) None with
         | Some u, Some v => Qeq_bool u (nth a ou 0) && Qeq_bool v (nth a ov 0)
         | _, _ => false
         end)) (iota 0 k) &&
      match oc with
      | None => negb (qv_color q)
      | Some cs =>
          qv_color q && (length cs =? k)%nat &&
          match qv_cfield q with
          | Some a =>
              all_cells (n0 f) (n1 f) (fun i j =>
                let idx := arrow_index (n0 f) j i in
                nth idx omask false ||
                existsb (fun v => Qeq_bool v (nth idx cs 0)) (resample_cands a (n0 f) (n1 f) i j))
          | None =>
              existsb (fun kc =>
                all_cells (n0 f) (n1 f) (fun i j =>
                  let idx := arrow_index (n0 f) j i in
                  nth idx omask false || Qeq_bool (fval f kc i j) (nth idx cs 0))) (qv_ccomp q)
          end
      end
  end.

Definition rgba_cell_close (a b : list Q) : bool :=
  (length a =? 4)%nat && forallb2 (fun x y => qclose rgba_tol 1 x y) a b.

Definition light_ok (f : pfield) (flt : option aux) (m : Q) (l : light_out) (rows : list (list (list Q)))
           (ext : list Q) (xl yl : string) : bool :=
  (length rows =? n1 f)%nat && forallb (fun r => (length r =? n0 f)%nat) rows &&
  extent_close (preg f) m (li_extent l) ext && labels_eqb (li_labels l) xl yl &&
  all_cells (n0 f) (n1 f) (fun i j =>
    let o := nth i (nth j rows []) [] in
    let mdl := nth i (nth j (li_rgba l) []) [] in
    (existsb (fun h => h) (hidden_cands f flt i j) && rgba_cell_close [0; 0; 0; 0] o) ||
    (existsb negb (hidden_cands f flt i j) && rgba_cell_close mdl o)).

(* the norm table is a table of square roots: checked, not trusted *)
Definition norm_tab_ok (f : pfield) (tabs : libtabs) : bool :=
  if negb (pnv f =? 2)%nat then true else
  (length (norm_tab tabs) =? n0 f * n1 f)%nat &&
  all_cells (n0 f) (n1 f) (fun i j =>
    let s := nth (i * n1 f + j) (norm_tab tabs) 0 in
    let q := fval f 0 i j * fval f 0 i j + fval f 1 i j * fval f 1 i j in
    Qle_bool 0 s && qclose rgba_tol (Qmax q 1) (s * s) q).

Definition check_C20_core (c : c20_case) : bool :=
  match c with
  | CScalar contour f mu flt obs =>
      match (if contour then plot_contour f mu flt else plot_scalar f mu flt), obs with
      | Err _, None => true
      | OK im, Some (rows, ext, xs, ys, xl, yl) =>
          let m := mult_of (preg f) mu in
          rows_ok f 0 flt rows &&
          (negb (no_tie f flt) || opt_rows_eqb (im_rows im) rows) &&
          (if contour
           then coords_close (axis_scale (preg f) 0 m) (im_x im) xs &&
                coords_close (axis_scale (preg f) 1 m) (im_y im) ys
           else extent_close (preg f) m (im_extent im) ext) &&
          labels_eqb (im_labels im) xl yl
      | _, _ => false
      end
  | CVector f mu arg use_color cf obs =>
      match plot_vector f mu arg use_color cf, obs with
      | Err _, None => true
      | OK q, Some (o, xl, yl) =>
          quiver_ok f (mult_of (preg f) mu) q o && labels_eqb (qv_labels q) xl yl
      | _, _ => false
      end
  | CLight f mu flt lf clim tabs obs =>
      match plot_lightness_with (fun _ _ => false) f mu flt lf clim tabs, obs with
      | Err _, None => true
      | OK ls, Some (rows, ext, xl, yl) =>
          norm_tab_ok f tabs &&
          existsb (fun l => light_ok f flt (mult_of (preg f) mu) l rows ext xl yl) ls
      | _, _ => false
      end
  | CCall f mu flt obs =>
      match plot_call f mu flt, obs with
      | Err _, None => true
      | OK co, Some (oimg, oq, xl, yl) =>
          let m := mult_of (preg f) mu in
          labels_eqb (ca_labels co) xl yl &&
          match ca_image co, oimg with
          | None, None => true
          | Some (ks, rowsf, ext), Some (orows, oext) =>
              existsb (fun k => rows_ok f k flt orows) ks && extent_close (preg f) m ext oext
          | _, _ => false
          end &&
          match ca_quiver co, oq with
          | None, None => true
          | Some q, Some o => quiver_ok f m q o
          | _, _ => false
          end
      | _, _ => false
      end
  end.

(* Default multiplier near a threshold: region.edges = pmax - pmin is a rounded float difference, so
   an edge within 1e-12 (relative) of a power of 1000 may fall on either side of it.  Both
   neighbouring multipliers are then admissible (decisions are compared only away from thresholds). *)
Definition thr_delta : Q := 1 # 1000000000000.
Definition mu_cands (r : region) (mu : mult_arg) : list mult_arg :=
  match mu with
  | MDefault =>
      match si_max_multiplier (map (fun e => e * (1 - thr_delta)) (edges r)),
            si_max_multiplier (map (fun e => e * (1 + thr_delta)) (edges r)) with
      | OK a, OK b => if (a =? b)%Z then [MDefault] else [MDefault; MSI a; MSI b]
      | _, _ => [MDefault]
      end
  | _ => [mu]
  end.
Definition with_mu (c : c20_case) (mu : mult_arg) : c20_case :=
  match c with
  | CScalar ct f _ flt obs => CScalar ct f mu flt obs
  | CVector f _ arg uc cf obs => CVector f mu arg uc cf obs
  | CLight f _ flt lf clim tabs obs => CLight f mu flt lf clim tabs obs
  | CCall f _ flt obs => CCall f mu flt obs
  end.
Definition case_field_mu (c : c20_case) : pfield * mult_arg :=
  match c with
  | CScalar _ f mu _ _ => (f, mu) | CVector f mu _ _ _ _ => (f, mu)
  | CLight f mu _ _ _ _ _ => (f, mu) | CCall f mu _ _ => (f, mu)
  end.
Definition check_C20 (c : c20_case) : bool :=
  let fm := case_field_mu c in
  existsb (fun mu => check_C20_core (with_mu c mu)) (mu_cands (preg (fst fm)) (snd fm)).

(* a record of the harness = one plot call, or a sequence of calls that share caller-side objects
   (style dictionaries, lists, Axes, the field): every call is checked against ITS OWN field *)
Definition c20_top := list c20_case.
Definition check_C20_top (l : c20_top) : bool := forallb check_C20 l.
