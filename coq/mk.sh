#!/bin/sh
# (re)generate _CoqProject + Makefile for every .v under coq/ and run a full .vo build
cd "$(dirname "$0")" || exit 2
{ echo "-Q . DF"; find base gen model proofs props check -name '*.v' | sort; } > _CoqProject.new
if ! cmp -s _CoqProject.new _CoqProject || [ ! -f Makefile ]; then
  mv _CoqProject.new _CoqProject
  coq_makefile -f _CoqProject -o Makefile >/dev/null || exit 2
else rm -f _CoqProject.new; fi
exec timeout ${MK_TIMEOUT:-1500} make -k -j${MK_JOBS:-16} "$@"
