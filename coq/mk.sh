#!/bin/sh
# (re)generate _CoqProject + Makefile for every .v under coq/ and run a full .vo build
# (or build only the targets given as arguments).  Serialised by a lock: several checks /
# builders share this tree.
cd "$(dirname "$0")" || exit 2
exec 9>.mk.lock
flock 9
{ echo "-Q . DF"; find base gen model proofs props check -name '*.v' | sort; } > _CoqProject.new
if ! cmp -s _CoqProject.new _CoqProject || [ ! -f Makefile ]; then
  mv _CoqProject.new _CoqProject
  coq_makefile -f _CoqProject -o Makefile >/dev/null || exit 2
else rm -f _CoqProject.new; fi
timeout ${MK_TIMEOUT:-1500} make -k -j${MK_JOBS:-16} "$@"
