(* Model of Field.grad / Field.div / Field.curl / Field.laplace (field.py) as written:
     grad    = stack of diff(dim) over region.dims of a scalar field
     div     = sum over vdims of  component(v).diff(vdim_mapping[v])
     curl    = components looked up through the REVERSED mapping (_r_dim_mapping), result in dims order
     laplace = per component, sum over region.dims of diff(dim, order=2); labels and mapping of the field
   together with the refusals (nvdim <> 1, nvdim <> ndim, not 3x3, unlabelled / unmapped / foreign axes)
   and the dictionary look-ups on the label strings.  Every derivative is Diff.diff_nd (C04's model:
   split at invalid cells, periodic wrap) with restrict2valid = True.  Generic field K.
   Definitions only. *)
From DF Require Import Prelude FieldK NDArray Diff.

(* ---------- label dictionaries ---------- *)
Notation sdict := (list (string * string)).

(* d[k] of a Python dict (keys are unique) *)
Fixpoint dlookup (k : string) (m : sdict) : option string :=
  match m with
  | [] => None
  | (a, b) :: t => if String.eqb k a then Some b else dlookup k t
  end.

(* {val: key for key, val in d.items()}.get(v): the LAST key that carries the value *)
Fixpoint rlookup (v : string) (m : sdict) : option string :=
  match m with
  | [] => None
  | (a, b) :: t =>
      match rlookup v t with
      | Some k => Some k
      | None => if String.eqb v b then Some a else None
      end
  end.

Fixpoint mapR {A B} (f : A -> res B) (l : list A) : res (list B) :=
  match l with
  | [] => OK []
  | x :: t => do y <- f x; do t' <- mapR f t; OK (y :: t')
  end.

(* the loop in div / curl: "vdim not in vdim_mapping" / "vdim_mapping[vdim] not in dims" -> ValueError;
   the index of the mapped axis otherwise *)
Definition axis_of (vmap : sdict) (dims : list string) (v : string) : res nat :=
  match dlookup v vmap with
  | None => Err ValueE
  | Some d => match index_of d dims with None => Err ValueE | Some a => OK a end
  end.

(* iterating self.vdims when it is None is a TypeError *)
Definition fwd_axes (vdims : option (list string)) (vmap : sdict) (dims : list string) : res (list nat) :=
  match vdims with
  | None => Err TypeE
  | Some vs => mapR (axis_of vmap dims) vs
  end.

(* getattr(self, self._r_dim_mapping[dim]): component index of the label that maps onto dim *)
Definition comp_of_dim (vdims : list string) (vmap : sdict) (d : string) : res nat :=
  match rlookup d vmap with
  | None => Err TypeE                    (* getattr(self, None) *)
  | Some v => match index_of v vdims with None => Err AttrE | Some c => OK c end
  end.

Definition rev_comps (vdims : option (list string)) (vmap : sdict) (dims : list string) : res (list nat) :=
  match vdims with
  | None => Err TypeE
  | Some vs => mapR (comp_of_dim vs vmap) dims
  end.

(* what a result's labels say: for every component label the index of the axis it is mapped to *)
Definition soft_axes (vdims : option (list string)) (vmap : sdict) (dims : list string) : list (option nat) :=
  match vdims with
  | None => []
  | Some vs => map (fun v => match dlookup v vmap with
                             | None => None
                             | Some d => index_of d dims
                             end) vs
  end.

Inductive cop := OGrad | ODiv | OCurl | OLap.

Section Calculus.
Variable K : FOps.
Notation "0" := (f0 K).
Infix "+" := fadd. Infix "-" := fsub.

(* mesh data the operators read: cells per axis, cell edge per axis, periodic flag per axis *)
Record cmesh := mkCMesh { cm_sh : list nat; cm_cell : list K; cm_per : list bool }.
Definition cm_nd (M : cmesh) : nat := length (cm_sh M).

(* component c of an array of shape n ++ [nvdim], as an array of shape n ++ [1] *)
Definition comp (c : nat) (f : idx -> K) : idx -> K := fun i => f (removelast i ++ [c]).

(* scalar_field.diff(dims[ax], order)  -- restrict2valid defaults to True *)
Definition dax (M : cmesh) (order ax : nat) (g : idx -> K) (valid : idx -> bool) : idx -> K :=
  diff_nd K (cm_sh M) 1 ax order (nth ax (cm_cell M) 0) (nth ax (cm_per M) false) true g valid.

(* the scalar cell of an n ++ [1] array that belongs to cell (removelast i) *)
Definition cell0 (i : idx) : idx := removelast i ++ [0%nat].

(* result arrays; the last entry of the index is the result component *)
Definition grad_v (M : cmesh) (f : idx -> K) (valid : idx -> bool) : idx -> K :=
  fun i => dax M 1 (last i 0%nat) (comp 0 f) valid (cell0 i).

(* axes[c] = axis that component c is mapped to *)
Definition div_v (M : cmesh) (axes : list nat) (v : idx -> K) (valid : idx -> bool) : idx -> K :=
  fun i => fsum K (map (fun c => dax M 1 (nth c axes 0%nat) (comp c v) valid (cell0 i))
                       (iota 0 (length axes))).

(* r[a] = component that is mapped to axis a; result component k is along axis k *)
Definition curl_v (M : cmesh) (r : list nat) (v : idx -> K) (valid : idx -> bool) : idx -> K :=
  fun i =>
    let k := last i 0%nat in
    let a1 := ((k + 1) mod 3)%nat in
    let a2 := ((k + 2) mod 3)%nat in
    dax M 1 a1 (comp (nth a2 r 0%nat) v) valid (cell0 i)
    - dax M 1 a2 (comp (nth a1 r 0%nat) v) valid (cell0 i).

Definition lap_v (M : cmesh) (v : idx -> K) (valid : idx -> bool) : idx -> K :=
  fun i => fsum K (map (fun ax => dax M 2 ax (comp (last i 0%nat) v) valid (cell0 i))
                       (iota 0 (cm_nd M))).

(* the public operators: refusal or (number of result components, result array) *)
Definition run_op (op : cop) (M : cmesh) (dims : list string) (nv : nat)
           (vdims : option (list string)) (vmap : sdict)
           (f : idx -> K) (valid : idx -> bool) : res (nat * (idx -> K)) :=
  let nd := cm_nd M in
  match op with
  | OGrad =>
      if (nv =? 1)%nat then OK (nd, grad_v M f valid) else Err ValueE
  | ODiv =>
      if (nv =? nd)%nat then
        do axes <- fwd_axes vdims vmap dims; OK (1%nat, div_v M axes f valid)
      else Err ValueE
  | OCurl =>
      if (nv =? 3)%nat && (nd =? 3)%nat then
        do _ <- fwd_axes vdims vmap dims;
        do r <- rev_comps vdims vmap dims;
        OK (3%nat, curl_v M r f valid)
      else Err ValueE
  | OLap =>
      if (nv =? 1)%nat then OK (1%nat, lap_v M f valid)
      else match vdims with
           | None => Err TypeE          (* "for vdim in self.vdims" on an unlabelled vector field *)
           | Some _ => OK (nv, lap_v M f valid)
           end
  end.

End Calculus.

Arguments cm_sh {K}. Arguments cm_cell {K}. Arguments cm_per {K}. Arguments cm_nd {K}.

(* which axis each component of the RESULT must be mapped to (None = the property does not say):
   grad and curl results are in dims order; the vector Laplacian keeps the field's own mapping *)
Definition expected_axes (op : cop) (nd nv : nat) (vdims : option (list string)) (vmap : sdict)
           (dims : list string) : option (list (option nat)) :=
  match op with
  | OGrad => if (2 <=? nd)%nat then Some (map Some (iota 0 nd)) else None
  | OCurl => Some (map Some (iota 0 3))
  | OLap => if (2 <=? nv)%nat then Some (soft_axes vdims vmap dims) else None
  | ODiv => None
  end.
