(* Model of Field.diff (field.py) and operators.py: 1-d stencils on a run of valid cells,
   split/differentiate/recombine, periodic wrap + crop, lift to n-d.  Generic field K. *)
From DF Require Import Prelude Constants_gen FieldK NDArray.

Section Diff.
Variable K : FOps.
Notation "0" := (f0 K).
Notation "1" := (f1 K).
Infix "+" := fadd. Infix "*" := fmul. Infix "-" := fsub. Infix "/" := fdiv.
Local Notation two := (f2 K).
Local Notation nth0 := (fun j l => nth j l 0).

Definition three : K := two + 1.
Definition four : K := two + two.
Definition five : K := four + 1.

(* --- first derivative on one run (numpy.gradient, uniform spacing) --- *)
Definition d1_at (a : list K) (h : K) (j : nat) : K :=
  let L := length a in
  if (L <? 3)%nat then
    (* two cells, edge_order = 1 *)
    (nth0 1%nat a - nth0 0%nat a) / h
  else if (j =? 0)%nat then
    (0 - (three * nth0 0%nat a) + four * nth0 1%nat a - nth0 2%nat a) / (two * h)
  else if (j =? L - 1)%nat then
    (three * nth0 (L - 1)%nat a - four * nth0 (L - 2)%nat a + nth0 (L - 3)%nat a) / (two * h)
  else
    (nth0 (j + 1)%nat a - nth0 (j - 1)%nat a) / (two * h).

(* --- second derivative on one run; the coefficient tuples are read from operators.py
   (Constants_gen: d2_interior = [1;-2;1], d2_first4 = [2;-5;4;-1], d2_first3 = [1;-2;1], mirrored at the end) --- *)
Definition d2_at (a : list K) (h : K) (j : nat) : K :=
  let L := length a in
  let hh := h * h in
  if (L <? 4)%nat then
    if (j =? 0)%nat then lincomb K d2_first3 [nth0 0%nat a; nth0 1%nat a; nth0 2%nat a] / hh
    else if (j =? L - 1)%nat then
      lincomb K d2_last3 [nth0 (L - 1)%nat a; nth0 (L - 2)%nat a; nth0 (L - 3)%nat a] / hh
    else lincomb K d2_interior [nth0 (j - 1)%nat a; nth0 j a; nth0 (j + 1)%nat a] / hh
  else if (j =? 0)%nat then
    lincomb K d2_first4 [nth0 0%nat a; nth0 1%nat a; nth0 2%nat a; nth0 3%nat a] / hh
  else if (j =? L - 1)%nat then
    lincomb K d2_last4 [nth0 (L - 1)%nat a; nth0 (L - 2)%nat a; nth0 (L - 3)%nat a; nth0 (L - 4)%nat a] / hh
  else
    lincomb K d2_interior [nth0 (j - 1)%nat a; nth0 j a; nth0 (j + 1)%nat a] / hh.

(* _1d_diff: zero for runs not longer than the order *)
Definition d_run (order : nat) (a : list K) (h : K) : list K :=
  if (length a <? order + 1)%nat then map (fun _ => 0) a
  else map (fun j => match order with 1%nat => d1_at a h j | _ => d2_at a h j end) (iota 0 (length a)).

(* _split_diff_combine: [run] accumulates the current run of valid cells *)
Fixpoint sdc_aux (order : nat) (h : K) (run : list K) (vals : list K) (valid : list bool) : list K :=
  match vals, valid with
  | v :: vs, true :: bs => sdc_aux order h (run ++ [v]) vs bs
  | v :: vs, false :: bs => d_run order run h ++ 0 :: sdc_aux order h [] vs bs
  | _, _ => d_run order run h
  end.
Definition sdc (order : nat) (h : K) (vals : list K) (valid : list bool) : list K :=
  sdc_aux order h [] vals valid.

(* periodic direction: one ghost cell on each side (data and validity), crop afterwards *)
Definition wrap1 {V} (d : V) (l : list V) : list V :=
  match l with [] => [] | _ => last l d :: l ++ [hd d l] end.
Definition crop1 {V} (l : list V) : list V := removelast (tl l).

Definition diff_line (order : nat) (h : K) (periodic restrict : bool) (vals : list K) (valid : list bool) : list K :=
  let valid' := if restrict then valid else map (fun _ => true) valid in
  if periodic then crop1 (sdc order h (wrap1 0 vals) (wrap1 true valid'))
  else sdc order h vals valid'.

(* n-d: array of shape n ++ [nvdim]; validity of shape n; every grid line along [ax] of
   every component is differentiated with the validity of that line *)
Definition diff_nd (sh : list nat) (nvdim : nat) (ax : nat) (order : nat) (h : K)
           (periodic restrict : bool) (f : idx -> K) (valid : idx -> bool) : idx -> K :=
  along_axis2 0 (sh ++ [nvdim]) ax (diff_line order h periodic restrict) f sh valid.

End Diff.
