(* Model of the FFT bookkeeping of discretisedfield (mesh.py Mesh.fftn / Mesh.ifftn,
   field.py Field.fftn / ifftn / rfftn / irfftn / _fftn):
   (i)  index and frequency bookkeeping over Z / Q: fftfreq, rfftfreq, fftshift / ifftshift as
        index maps, which axes are shifted, the k-mesh and the real-space mesh, reciprocal
        names/units, label and mapping renaming;
   (ii) the arrangement of DFT bins in the returned array (the DFT itself is scipy's: abstract in
        the theorems, a naive transform evaluated by the harness in the correspondence).
   Definitions only. *)
From DF Require Import Prelude Constants_gen Region Mesh.
Open Scope Q_scope.

(* ------------------------------------------------------------------ frequencies *)
(* signed DFT bin stored at position j of numpy's fftfreq ordering:
   [0, 1, ..., (n-1)//2, -(n//2), ..., -1] *)
Definition fftfreq_bin (n j : Z) : Z := if (j <=? (n - 1) / 2)%Z then j else (j - n)%Z.

(* scipy.fft.fftfreq(n, d) = bins * (1 / (n*d)) *)
Definition freq_val (n : Z) (d : Q) (m : Z) : Q := inject_Z m * (1 / (inject_Z n * d)).
Definition fftfreq (n : Z) (d : Q) : list Q :=
  map (fun j => freq_val n d (fftfreq_bin n j)) (ziota 0 (Z.to_nat n)).
(* scipy.fft.rfftfreq(n, d) = [0, 1, ..., n//2] * (1 / (n*d)) *)
Definition rfftfreq (n : Z) (d : Q) : list Q :=
  map (fun j => freq_val n d j) (ziota 0 (Z.to_nat (n / 2 + 1))).

Definition qlist_max (l : list Q) : Q :=
  match l with [] => 0 | h :: t => fold_left Qmax t h end.

(* ------------------------------------------------------------------ shifts *)
(* numpy.fft.fftshift(x)[j] = x[fftshift_src n j]   (roll by  n//2) *)
Definition fftshift_src (n j : Z) : Z := ((j - n / 2) mod n)%Z.
(* numpy.fft.ifftshift(x)[j] = x[ifftshift_src n j] (roll by -(n//2)) *)
Definition ifftshift_src (n j : Z) : Z := ((j + n / 2) mod n)%Z.

(* ------------------------------------------------------------------ Mesh.fftn, one axis *)
(* (p1, p2, n) of the k-region along one axis; [real_last] = rfft and this is the last axis *)
Definition kaxis (real_last : bool) (n : Z) (c : Q) : Q * Q * Z :=
  if (n =? 1)%Z then (- (1 # 2) / c, (1 # 2) / c, 1%Z)
  else
    let freqs := if real_last then rfftfreq n c else fftfreq n c in
    let dfreq := Qabs (nth 1 freqs 0 - nth 0 freqs 0) / 2 in
    (qlist_min freqs - dfreq, qlist_max freqs + dfreq, Z.of_nat (length freqs)).

Definition kdim (d : string) : string := String.append "k_" d.
Definition kunit_suffix : string := ")$^{-1}$".
Definition kunit (u : string) : string := String.append "(" (String.append u kunit_suffix).

(* [false; ...; false; true] of length nd *)
Fixpoint last_flags (nd : nat) : list bool :=
  match nd with
  | O => []
  | S O => [true]
  | S k => false :: last_flags k
  end.

Definition fst3 {A B C} (t : A * B * C) : A := fst (fst t).
Definition snd3 {A B C} (t : A * B * C) : B := snd (fst t).
Definition thd3 {A B C} (t : A * B * C) : C := snd t.

Definition mesh_fftn (m : mesh) (rfft : bool) : res mesh :=
  let nd := ndim (reg m) in
  let ax := map3 (fun k c l => kaxis (rfft && l) k c) (n m) (cell m) (last_flags nd) in
  do r <- mk_region (map fst3 ax) (map snd3 ax)
                    (Some (map kdim (dims (reg m)))) (Some (map kunit (units (reg m)))) (tf (reg m));
  mk_mesh_n r (map thd3 ax).

(* ------------------------------------------------------------------ Mesh.ifftn *)
Inductive shape_arg := ShNone | ShInt (k : Z) | ShList (l : list Z) | ShBad.

(* k_x -> x ;  (m)$^{-1}$ -> m  (anything else is left alone) *)
Definition unkdim (d : string) : string :=
  if String.prefix "k_" d then substring 2 (String.length d - 2) d else d.
Definition str_endswith (suf s : string) : bool :=
  (String.length suf <=? String.length s)%nat &&
  String.eqb (substring (String.length s - String.length suf) (String.length suf) s) suf.
Definition unkunit (u : string) : string :=
  if String.prefix "(" u && str_endswith kunit_suffix u
  then substring 1 (String.length u - 9) u else u.

Definition zlast (l : list Z) : Z := last l 0%Z.

(* shape validation and default; the test on the last entry is made for both kinds
   ([check_last] = true is the code; false only serves the checker, see Check_C11) *)
Definition ifft_shape_gen (check_last : bool) (ns : list Z) (rfft : bool) (sh : shape_arg) : res (list Z) :=
  let check (s : list Z) : res (list Z) :=
    if negb (length s =? length ns)%nat then Err ValueE else
    if negb (zlist_eqb (removelast s) (removelast ns)) then Err ValueE else
    if check_last && negb (zlast s / 2 + 1 =? zlast ns)%Z then Err ValueE else OK s in
  match sh with
  | ShBad => Err TypeE
  | ShInt k => check [k]
  | ShList s => check s
  | ShNone =>
      OK (if rfft && negb (zlast ns =? 1)%Z
          then removelast ns ++ [((zlast ns - 1) * 2)%Z] else ns)
  end.
Definition ifft_shape := ifft_shape_gen true.

(* one axis of the real-space mesh before recentring; [None] = the call fails (size 0) *)
Definition iaxis (s : Z) (ck : Q) : option (Q * Q * Z) :=
  if (s =? 1)%Z then Some (0, 1 / ck, 1%Z)
  else if (s <=? 0)%Z then None
  else
    let freqs := fftfreq s ck in
    let dfreq := Qabs (nth 1 freqs 0 - nth 0 freqs 0) / 2 in
    Some (qlist_min freqs - dfreq, qlist_max freqs + dfreq, Z.of_nat (length freqs)).

Fixpoint opt_all {A} (l : list (option A)) : option (list A) :=
  match l with
  | [] => Some []
  | Some a :: t => option_map (cons a) (opt_all t)
  | None :: _ => None
  end.

(* mesh.translate(-mesh.region.center) *)
Definition recentre (r : region) : region :=
  let c := center r in
  mkRegion (map2 Qminus (pmin r) c) (map2 Qminus (pmax r) c) (dims r) (units r) (tf r).

Definition mesh_ifftn_gen (check_last : bool) (m : mesh) (rfft : bool) (sh : shape_arg) : res mesh :=
  do s <- ifft_shape_gen check_last (n m) rfft sh;
  match opt_all (map2 iaxis s (cell m)) with
  | None => Err RuntimeE
  | Some ax =>
      do r <- mk_region (map fst3 ax) (map snd3 ax)
                        (Some (map unkdim (dims (reg m)))) (Some (map unkunit (units (reg m))))
                        (tf (reg m));
      do m' <- mk_mesh_n r (map thd3 ax);
      OK (mkMesh (recentre (reg m')) (n m') (bc m') (subs m'))
  end.
Definition mesh_ifftn := mesh_ifftn_gen true.

(* ------------------------------------------------------------------ Field._fftn: labels *)
Definition ft_label (v : string) : string := String.append "ft_" v.
Definition unft_label (v : string) : string :=
  if String.prefix "ft_" v then substring 3 (String.length v - 3) v else v.

Fixpoint assoc (k : string) (l : list (string * string)) : option string :=
  match l with
  | [] => None
  | (a, b) :: t => if String.eqb k a then Some b else assoc k t
  end.

(* (vdims, vdim_mapping) handed to the Field constructor; mapping in vdims order *)
Definition rename (inverse : bool) (vd : option (list string)) (mp : list (string * string))
  : option (list string) * list (string * string) :=
  match vd with
  | None => (None, [])
  | Some vs =>
      let f := if inverse then unft_label else ft_label in
      let g := if inverse then unkdim else kdim in
      (Some (map f vs),
       flat_map (fun v => match assoc v mp with Some d => [(f v, g d)] | None => [] end) vs)
  end.

(* what the constructor then accepts: unique labels (an empty list means "no labels") *)
Definition rename_checked (inverse : bool) (vd : option (list string)) (mp : list (string * string))
  : res (option (list string) * list (string * string)) :=
  let r := rename inverse vd mp in
  match fst r with
  | None => OK r
  | Some vs => if nodupb vs then OK r else Err ValueE
  end.

(* ------------------------------------------------------------------ arrangement of DFT bins *)
(* C-order multi-indices and their flat position *)
Fixpoint indices_c (ns : list Z) : list (list Z) :=
  match ns with
  | [] => [[]]
  | k :: rest => flat_map (fun i => map (cons i) (indices_c rest)) (ziota 0 (Z.to_nat k))
  end.

Fixpoint ravel_c (ns i : list Z) : Z :=
  match ns, i with
  | _ :: ns', j :: i' => (j * zprod ns' + ravel_c ns' i')%Z
  | _, _ => 0%Z
  end.

(* shape of the forward transform: last axis n//2+1 for the real transform *)
Definition kshape (real : bool) (ns : list Z) : list Z :=
  map2 (fun k (l : bool) => if real && l then (k / 2 + 1)%Z else k) ns (last_flags (length ns)).

(* DFT bin (natural order, 0 <= m < n) held by array position j along an axis *)
Definition src_axis (real_last : bool) (k j : Z) : Z :=
  if real_last then j else fftshift_src k j.

Definition src_index (real : bool) (ns j : list Z) : list Z :=
  map3 (fun k (l : bool) i => src_axis (real && l) k i) ns (last_flags (length ns)) j.

(* the array returned by fftn (real = false) / rfftn (real = true), given the unshifted DFT
   [bins] (C order over shape ns, one entry per cell) *)
Definition arrange {V} (d : V) (real : bool) (ns : list Z) (bins : list V) : list V :=
  map (fun j => nth (Z.to_nat (ravel_c ns (src_index real ns j))) bins d) (indices_c (kshape real ns)).

(* inverse transforms: Field.ifftn / irfftn hand ifftshift(array) (all axes / all but the last) to
   scipy; position m of that array reads the field's array at isrc_index m *)
Definition isrc_axis (real_last : bool) (k j : Z) : Z :=
  if real_last then j else ifftshift_src k j.

Definition isrc_index (real : bool) (ks j : list Z) : list Z :=
  map3 (fun k (l : bool) i => isrc_axis (real && l) k i) ks (last_flags (length ks)) j.

(* [ks] = shape of the k-space array *)
Definition unarrange {V} (d : V) (real : bool) (ks : list Z) (arr : list V) : list V :=
  map (fun m => nth (Z.to_nat (ravel_c ks (isrc_index real ks m))) arr d) (indices_c ks).

(* the part of a natural-order spectrum (shape ns) that the real transform keeps: bins
   0..n//2 of the last axis (everything for the full transform) *)
Definition half_spectrum {V} (d : V) (real : bool) (ns : list Z) (bins : list V) : list V :=
  map (fun m => nth (Z.to_nat (ravel_c ns m)) bins d) (indices_c (kshape real ns)).

(* the four field transforms around an abstract n-d DFT [F ns] (natural order, C-order lists) and
   its inverses [G] (complex: shape = the array's own; real: output shape [sh] is the argument
   s=shape of irfftn) -- scipy's part is the parameter, the shifts are the code's *)
Definition field_fftn {V} (F : list Z -> list V -> list V) (d : V) (real : bool) (ns : list Z) (x : list V) : list V :=
  arrange d real ns (F ns x).
Definition field_ifftn {V} (G : list Z -> list V -> list V) (d : V) (ks : list Z) (a : list V) : list V :=
  G ks (unarrange d false ks a).
Definition field_irfftn {V} (G : list Z -> list V -> list V) (d : V) (sh ks : list Z) (a : list V) : list V :=
  G sh (unarrange d true ks a).

(* frequency (k-cell centre) the model assigns to array position j along an axis *)
Definition kcentre (real_last : bool) (k : Z) (c : Q) (j : Z) : Q :=
  let '(lo, hi, nk) := kaxis real_last k c in i2p1 lo (cell_of lo hi nk) j.
