(* Model of the value handling of discretisedfield.Field (field.py): Field._as_array for the five
   kinds of value specification (number, array-like, callable, dictionary, source field), the array
   setter / update_field_values, sampling (__call__), component access (__getattr__), iteration
   (__iter__) and line sampling (Field.line / Mesh.line / Line).
   Values live in an arbitrary type V: nothing here computes with them, they are only placed.
   Geometry in Q.  Definitions only. *)
From DF Require Import Prelude Constants_gen Region Mesh.
Open Scope Q_scope.
Set Implicit Arguments.

Notation zidx := (list Z).

Fixpoint mapres {A B} (f : A -> res B) (l : list A) : res (list B) :=
  match l with
  | [] => OK []
  | a :: t => do b <- f a; do bs <- mapres f t; OK (b :: bs)
  end.

(* ---------- C-ordered n-d array literals (numpy arrays handed in by the caller) ---------- *)
Fixpoint ravel_c (sh i : list Z) : Z :=
  match sh, i with
  | _ :: sh', j :: i' => (j * zprod sh' + ravel_c sh' i')%Z
  | _, _ => 0%Z
  end.

Fixpoint indices_c (sh : list Z) : list zidx :=
  match sh with
  | [] => [[]]
  | k :: rest => flat_map (fun j => map (cons j) (indices_c rest)) (ziota 0 (Z.to_nat k))
  end.

Definition nda_at {V} (d : V) (sh : list Z) (data : list V) (i : zidx) : V :=
  nth (Z.to_nat (ravel_c sh i)) data d.

(* numpy broadcasting of a value of shape vs into a target of shape ts (|vs| <= |ts|, trailing axes
   aligned): every axis of the value has the target's length or length 1 *)
Definition align {A} (r : nat) (l : list A) : list A := skipn (length l - r) l.
Definition bcast_ok (vs ts : list Z) : bool :=
  (length vs <=? length ts)%nat &&
  forallb2 (fun v t => (v =? t)%Z || (v =? 1)%Z) vs (align (length vs) ts).
Definition bcast_idx (vs : list Z) (i : zidx) : zidx :=
  map2 (fun v j => if (v =? 1)%Z then 0%Z else j) vs (align (length vs) i).

Definition last_z (l : list Z) : Z := last l 0%Z.

(* numpy drops excess leading axes of length 1 when a value has more axes than the target *)
Fixpoint strip_lead (k : nat) (sh : list Z) : list Z :=
  match k, sh with
  | S k', v :: t => if (v =? 1)%Z then strip_lead k' t else sh
  | _, _ => sh
  end.

(* the centre of cell i (total version of Mesh.index2point) *)
Definition centre (m : mesh) (i : zidx) : list Q := map3 i2p1 (pmin (reg m)) (cell m) i.

Definition in_block (lo hi i : zidx) : bool :=
  (length i =? length lo)%nat && (length i =? length hi)%nat &&
  forallb (fun b => b) (map3 (fun a b j => (a <=? j)%Z && (j <=? b)%Z) lo hi i).

Definition zeros (m : mesh) : zidx := map (fun _ => 0%Z) (n m).
Definition tops (m : mesh) : zidx := map (fun k => (k - 1)%Z) (n m).
Definition in_mesh (m : mesh) (i : zidx) : bool := in_block (zeros m) (tops m) i.

(* Mesh.region2slices(region): inclusive index bounds of the block *)
Definition region2block (m : mesh) (r : region) : res (zidx * zidx) :=
  do i1 <- point2index m (map2 (fun p c => p + c / 2) (pmin r) (cell m));
  do i2 <- point2index m (map2 (fun p c => p - c / 2) (pmax r) (cell m));
  OK (i1, i2).

Fixpoint lookup {A} (s : string) (l : list (string * A)) : option A :=
  match l with
  | [] => None
  | (k, a) :: t => if String.eqb s k then Some a else lookup s t
  end.

Section Core.
Variable V : Type.
Variable vzero : V.                 (* the number 0 *)
Variable is_zero : V -> bool.       (* val == 0 *)

Notation cellv := (list V).

Record fstate := mkF {
  fmesh : mesh;
  fnv : nat;                          (* nvdim *)
  farr : zidx -> cellv;               (* _array: cell index -> component vector *)
  fvdims : option (list string)
}.

(* value specifications that are not dictionaries *)
Inductive sspec :=
| SConst (v : V)                              (* numbers.Complex *)
| SArr (sh : list Z) (data : list V)          (* array-like of numpy shape sh, C order *)
| SFun (f : list Q -> cellv)                  (* callable: point -> value(s) *)
| SField (src : fstate)                       (* another field *)
| SBad.                                       (* str, None, any unsupported type *)

Inductive ddefault :=
| DNone                                       (* no 'default' key *)
| DFill (s : sspec)                           (* non-callable default: the np.full fill value *)
| DCall (f : list Q -> cellv)                 (* callable default *)
| DSample (src : fstate).                     (* a field as default: it is callable -> sampled *)

Inductive spec :=
| Simple (s : sspec)
| Dict (items : list (string * sspec)) (dflt : ddefault).

(* ----- sampling: self.array[self.mesh.point2index(point)] ----- *)
Definition sample (f : fstate) (p : list Q) : res cellv :=
  do i <- point2index (fmesh f) p; OK (farr f i).

(* ----- number / array-like ----- *)
Definition shape_of (m : mesh) (nv : nat) : list Z := n m ++ [Z.of_nat nv].

(* np.full((n.., nvdim), val): general broadcast *)
Definition eff_shape (m : mesh) (nv : nat) (sh : list Z) : list Z :=
  strip_lead (length sh - length (shape_of m nv)) sh.

Definition full_bcast (m : mesh) (nv : nat) (sh : list Z) (data : list V) : res (zidx -> cellv) :=
  let sh' := eff_shape m nv sh in       (* same data: the dropped axes have length 1 *)
  if bcast_ok sh' (shape_of m nv)
  then OK (fun i => map (fun k => nda_at vzero sh' data (bcast_idx sh' (i ++ [k]))) (ziota 0 nv))
  else Err ValueE.

Definition as_array_const (nv : nat) (v : V) : res (zidx -> cellv) :=
  if (1 <? nv)%nat && negb (is_zero v) then Err ValueE else OK (fun _ => repeat v nv).

Definition as_array_arr (m : mesh) (nv : nat) (sh : list Z) (data : list V) : res (zidx -> cellv) :=
  match sh with
  | [] => Err IndexE                                            (* np.shape(val)[-1] of a 0-d array *)
  | _ =>
    if (nv =? 1)%nat && zlist_eqb sh (n m)
    then OK (fun i => [nda_at vzero sh data i])                 (* np.expand_dims(val, -1) *)
    else if negb (last_z sh =? Z.of_nat nv)%Z then Err ValueE
    else full_bcast m nv sh data
  end.

(* ----- callable: evaluated at every cell centre, np.asarray(...).reshape(nvdim) ----- *)
Definition as_array_fun (m : mesh) (nv : nat) (f : list Q -> cellv) : res (zidx -> cellv) :=
  if forallb (fun i => (length (f (centre m i)) =? nv)%nat) (indices_xfast (n m))
  then OK (fun i => f (centre m i))
  else Err ValueE.

(* ----- source field: region inclusion, xarray .sel(method="nearest") on the cell centres.
   pandas resolves a tie towards the larger coordinate; floor((q - lo)/c) clipped to the index
   range is that choice ----- *)
Definition nearest_idx (s : mesh) (q : list Q) : zidx :=
  map3 (fun lc k x => p2i1 (fst lc) (snd lc) k x) (combine (pmin (reg s)) (cell s)) (n s) q.

Definition as_array_field (m : mesh) (nv : nat) (src : fstate) : res (zidx -> cellv) :=
  if negb (length (pmin (reg m)) =? length (pmin (reg (fmesh src))))%nat then Err ValueE else
  if negb (contains_region (reg (fmesh src)) (reg m)) then Err ValueE else
  if negb (strlist_eqb (dims (reg m)) (dims (reg (fmesh src)))) then Err KeyE else
  if negb (fnv src =? nv)%nat then Err ValueE else
  OK (fun i => farr src (nearest_idx (fmesh src) (centre m i))).

Definition as_array_simple (m : mesh) (nv : nat) (s : sspec) : res (zidx -> cellv) :=
  match s with
  | SConst v => as_array_const nv v
  | SArr sh data => as_array_arr m nv sh data
  | SFun f => as_array_fun m nv f
  | SField src => as_array_field m nv src
  | SBad => Err TypeE
  end.

(* ----- dictionary ----- *)
Record block := mkBlock { b_lo : zidx; b_hi : zidx; b_arr : zidx -> cellv }.

Definition oarr := zidx -> option cellv.      (* None = cell not assigned yet (the `unset` mask) *)

Definition overwrite (a : oarr) (b : block) : oarr :=
  fun i => if in_block (b_lo b) (b_hi b) i then Some (b_arr b (map2 Z.sub i (b_lo b))) else a i.

(* the loop body for one subregion that has a key in the dictionary *)
Definition mk_block (m : mesh) (nv : nat) (r : region) (sv : sspec) : res block :=
  do sm <- mesh_by_cell r (cell m);                       (* mesh[subregion] *)
  do lh <- region2block m (reg sm);                       (* mesh.region2slices(submesh.region) *)
  do a <- as_array_simple sm nv sv;
  (* array[slices] = ... : the shapes must agree *)
  if zlist_eqb (n sm) (map2 (fun l h => (h - l + 1)%Z) (fst lh) (snd lh))
  then OK (mkBlock (fst lh) (snd lh) a) else Err ValueE.

(* subregions with a key, in the order in which the mesh lists them *)
Definition keyed (m : mesh) (items : list (string * sspec)) : list (region * sspec) :=
  flat_map (fun nr => match lookup (fst nr) items with
                      | Some sv => [(snd nr, sv)] | None => [] end) (subs m).

Definition blocks (m : mesh) (nv : nat) (items : list (string * sspec)) : res (list block) :=
  mapres (fun rs => mk_block m nv (fst rs) (snd rs)) (keyed m items).

(* `for subregion in reversed(mesh.subregions.keys())`: later-listed first, earlier overwrite *)
Definition paint (bs : list block) (a0 : oarr) : oarr := fold_left overwrite (rev bs) a0.

(* np.full((n.., nvdim), default) for a non-callable default: no component-count test, plain broadcast *)
Definition fill_array (m : mesh) (nv : nat) (s : sspec) : res (zidx -> cellv) :=
  match s with
  | SConst v => OK (fun _ => repeat v nv)
  | SArr sh data => full_bcast m nv sh data
  | _ => Err TypeE
  end.

Definition unset_cells (m : mesh) (a : oarr) : list zidx :=
  filter (fun i => match a i with None => true | Some _ => false end) (indices_xfast (n m)).

Definition finish (a : oarr) (g : zidx -> cellv) : zidx -> cellv :=
  fun i => match a i with Some v => v | None => g i end.

Definition as_array_dict (m : mesh) (nv : nat) (items : list (string * sspec)) (d : ddefault)
  : res (zidx -> cellv) :=
  do a0 <- match d with
           | DFill s => do f <- fill_array m nv s; OK (fun i => Some (f i))
           | _ => OK (fun _ : zidx => @None cellv)
           end;
  do bs <- blocks m nv items;
  let a := paint bs a0 in
  let un := unset_cells m a in
  match un with
  | [] => OK (finish a (fun _ => []))
  | _ =>
    match d with
    | DNone => Err KeyE
    | DFill _ => OK (finish a (fun _ => []))                        (* unreachable: nothing is unset *)
    | DCall f =>
        if forallb (fun i => (length (f (centre m i)) =? nv)%nat) un
        then OK (finish a (fun i => f (centre m i))) else Err ValueE
    | DSample src =>
        do vs <- mapres (fun i => sample src (centre m i)) un;
        if forallb (fun v => (length v =? nv)%nat) vs
        then OK (finish a (fun i => match sample src (centre m i) with OK v => v | Err _ => [] end))
        else Err ValueE
    end
  end.

Definition as_array (m : mesh) (nv : nat) (s : spec) : res (zidx -> cellv) :=
  match s with
  | Simple s => as_array_simple m nv s
  | Dict items d => as_array_dict m nv items d
  end.

(* ----- the array setter and update_field_values: state -> spec -> state + error ----- *)
Definition set_array (f : fstate) (s : spec) : res fstate :=
  do a <- as_array (fmesh f) (fnv f) s; OK (mkF (fmesh f) (fnv f) a (fvdims f)).

(* the assignment statement as seen by the caller: an exception leaves the field as it was *)
Definition assign (f : fstate) (s : spec) : fstate :=
  match set_array f s with OK f' => f' | Err _ => f end.

(* default component labels *)
Definition default_vdims (nv : nat) : option (list string) :=
  match nv with
  | 2%nat => Some ["x"; "y"]%string
  | 3%nat => Some ["x"; "y"; "z"]%string
  | _ => if (3 <? nv)%nat
         then Some (map (fun i => String.append "v" (String (Ascii.ascii_of_nat (48 + i)) EmptyString))
                        (iota 0 nv))
         else None
  end.

Definition mk_field (m : mesh) (nv : nat) (s : spec) (vd : option (list string)) : res fstate :=
  if (nv =? 0)%nat then Err ValueE else
  do a <- as_array m nv s;
  do vd' <- match vd with
            | None => OK (default_vdims nv)
            | Some [] => OK None
            | Some l => if negb (length l =? nv)%nat then Err ValueE
                        else if negb (nodupb l) then Err ValueE else OK (Some l)
            end;
  OK (mkF m nv a vd').

(* ----- component access: array[..., vdims.index(label), newaxis] as a scalar field ----- *)
Definition component (f : fstate) (label : string) : res fstate :=
  match fvdims f with
  | None => Err AttrE
  | Some l => match index_of label l with
              | None => Err AttrE
              | Some k => OK (mkF (fmesh f) 1 (fun i => [nth k (farr f i) vzero]) None)
              end
  end.

(* ----- iteration: for point in self.mesh: yield self(point) ----- *)
Definition iterate (f : fstate) : list (res cellv) :=
  map (fun i => do p <- index2point (fmesh f) i; sample f p) (indices_xfast (n (fmesh f))).

(* ----- line sampling ----- *)
Definition line_point (p1 p2 : list Q) (k : Z) (i : Z) : list Q :=
  map2 (fun a b => a + inject_Z i * ((b - a) / inject_Z (k - 1))) p1 p2.

Definition line_points (p1 p2 : list Q) (k : Z) : list (list Q) :=
  map (line_point p1 p2 k) (ziota 0 (Z.to_nat k)).

Definition mesh_line (m : mesh) (p1 p2 : list Q) (k : Z) : res (list (list Q)) :=
  if negb (contains_pt (reg m) p1 && contains_pt (reg m) p2) then Err ValueE else
  if (k <? 2)%Z then Err ValueE else           (* k = 1: 0/0 -> nan -> outside; k <= 0: empty Line *)
  OK (line_points p1 p2 k).

Definition dist2 (p q : list Q) : Q := qsum (map2 (fun a b => (a - b) * (a - b)) p q).

Record line_t := mkLine {
  l_points : list (list Q);
  l_values : list cellv;
  l_r2 : list Q                        (* squared distance from the first point *)
}.

Definition field_line (f : fstate) (p1 p2 : list Q) (k : Z) : res line_t :=
  do pts <- mesh_line (fmesh f) p1 p2 k;
  do vals <- mapres (sample f) pts;
  OK (mkLine pts vals (map (fun p => dist2 p (hd [] pts)) pts)).

End Core.

Arguments SBad {V}.
Arguments DNone {V}.
