(* Model of discretisedfield/io/hdf5.py: the HDF5 file as an attribute tree, the writer
   (_RegionIO_HDF5._h5_save, _MeshIO_HDF5._h5_save, _FieldIO_HDF5._to_hdf5) and the reader
   (_from_hdf5, _h5_load_field, Mesh._h5_load, Region._h5_load through the pmin/pmax keyword
   path of Region.__init__, and the legacy reader).  Definitions only.

   The payload type V is abstract: the writer and the reader move values, they never compute
   with them.  The reader of the current layout passes the stored dtype to Field.__init__
   (commit 66ed56c8), so the payload comes back untouched.  The LEGACY reader does not:
   `np.full(shape, value, dtype = max(value.dtype, float64))` turns every non-float real dtype
   (bool, intN, uintN) into float64.  That map is the parameter [conv]; it is applied to DInt
   payloads of legacy files only. *)
From Coq Require Import DecimalString.
From DF Require Import Prelude Region Mesh.
Open Scope Q_scope.

(* ---------- dtype tags ---------- *)
Inductive ckind := KInt | KFloat.                 (* kind of a corner array: integer / floating *)
Inductive dkind := DInt | DFloat | DComplex.      (* kind of the data array *)

Definition ckind_eqb (a b : ckind) : bool :=
  match a, b with KInt, KInt | KFloat, KFloat => true | _, _ => false end.
Definition dkind_eqb (a b : dkind) : bool :=
  match a, b with DInt, DInt | DFloat, DFloat | DComplex, DComplex => true | _, _ => false end.
Definition is_complex (d : dkind) : bool := match d with DComplex => true | _ => false end.

(* numpy.result_type on the two kinds *)
Definition kjoin (a b : ckind) : ckind := match a, b with KInt, KInt => KInt | _, _ => KFloat end.

(* assignment of a number into a dataset of the given kind: C cast, truncation toward zero *)
Definition truncQ (x : Q) : Z := if Qle_bool 0 x then Qfloor x else Qceiling x.
Definition cast (k : ckind) (x : Q) : Q := match k with KInt => inject_Z (truncQ x) | KFloat => x end.

(* int -> binary64, round to nearest even (what astype(float64) does to an integer) *)
Definition round_f64 (z : Z) : Z :=
  let a := Z.abs z in
  if (a <? 2 ^ 53)%Z then z else
  let s := (Z.log2 a - 52)%Z in
  let p := (2 ^ s)%Z in
  let m := (a / p)%Z in
  let r := (a mod p)%Z in
  let h := (p / 2)%Z in
  let m' := if (h <? r)%Z || ((r =? h)%Z && Z.odd m) then (m + 1)%Z else m in
  (Z.sgn z * (m' * p))%Z.

(* ---------- the complete state of a field (what the property enumerates) ---------- *)
Record fstate (V : Type) := mkF {
  f_ck : ckind;                       (* int / float tag of the region corners *)
  f_mesh : mesh;                      (* region (pmin pmax dims units tf), n, bc, subregions *)
  f_subk : list ckind;                (* int / float tag of each subregion's corners *)
  f_nvdim : Z;
  f_vdims : option (list string);     (* component labels, None = absent *)
  f_unit : option string;
  f_dk : dkind;
  f_vals : list V;                    (* array, C order, shape n ++ [nvdim] *)
  f_valid : list bool                 (* valid, C order, shape n *)
}.
Arguments mkF {V}.
Arguments f_ck {V}. Arguments f_mesh {V}. Arguments f_subk {V}. Arguments f_nvdim {V}.
Arguments f_vdims {V}. Arguments f_unit {V}. Arguments f_dk {V}. Arguments f_vals {V}.
Arguments f_valid {V}.

(* ---------- the file ---------- *)
Inductive sattr := AStr (s : string) | AStrs (l : list string).

Record h5reg := mkH5Reg {
  hr_ck : ckind; hr_pmin : list Q; hr_pmax : list Q;
  hr_dims : list string; hr_ndim : Z; hr_units : list string; hr_tf : Q }.

Record h5new (V : Type) := mkH5 {
  h_type : string;                                    (* root attribute "type" *)
  h_version : string;                                 (* "ubermag-hdf5-file-version" *)
  h_reg : h5reg;                                      (* field/mesh/region attributes *)
  h_n : list Z; h_bc : string;                        (* field/mesh attributes *)
  h_subs : option (list string * (ckind * list (list Q)));   (* subregion_names, subregions *)
  h_nvdim : Z; h_vdims : sattr; h_unit : string;      (* field attributes *)
  h_dk : dkind; h_shape : list Z; h_arr : list V;     (* field/array *)
  h_vshape : list Z; h_valid : list bool              (* field/valid *)
}.
Arguments mkH5 {V}.
Arguments h_type {V}. Arguments h_version {V}. Arguments h_reg {V}. Arguments h_n {V}.
Arguments h_bc {V}. Arguments h_subs {V}. Arguments h_nvdim {V}. Arguments h_vdims {V}.
Arguments h_unit {V}. Arguments h_dk {V}. Arguments h_shape {V}. Arguments h_arr {V}.
Arguments h_vshape {V}. Arguments h_valid {V}.

(* a region of the json side-car of a legacy file: Region.to_dict *)
Record side_region := mkSide {
  sd_name : string; sd_ck : ckind; sd_pmin : list Q; sd_pmax : list Q;
  sd_dims : list string; sd_units : list string; sd_tf : Q }.

Record h5legacy (V : Type) := mkLeg {
  l_ck1 : ckind; l_p1 : list Q; l_ck2 : ckind; l_p2 : list Q;   (* field/mesh/region/p1, p2 *)
  l_n : list Z; l_dim : Z;                                       (* field/mesh/n, field/dim *)
  l_dk : dkind; l_shape : list Z; l_arr : list V;                (* field/array *)
  l_side : option (list side_region)                             (* <file>.subregions.json *)
}.
Arguments mkLeg {V}.
Arguments l_ck1 {V}. Arguments l_p1 {V}. Arguments l_ck2 {V}. Arguments l_p2 {V}.
Arguments l_n {V}. Arguments l_dim {V}. Arguments l_dk {V}. Arguments l_shape {V}.
Arguments l_arr {V}. Arguments l_side {V}.

(* a file either carries the version attribute (current layout) or it does not (legacy) *)
Inductive h5file (V : Type) := NewFile (h : h5new V) | LegacyFile (l : h5legacy V).
Arguments NewFile {V}. Arguments LegacyFile {V}.

Definition none_marker : string := "None".
Definition file_type : string := "discretisedfield.Field".
Definition file_version : string := "0.1".
(* Region.__init__ default tolerance_factor = 1e-12, i.e. the binary64 number nearest to it:
   4951760157141521 / 2^92 *)
Definition default_tf : Q := 4951760157141521 # 4951760157141521099596496896.

(* ---------- writer ---------- *)
(* dtype of the subregion table: result_type(region.pmin, every subregion corner) *)
Definition table_kind (ck : ckind) (sk : list ckind) : ckind := fold_right kjoin ck sk.

Definition sub_row (tk : ckind) (s : string * region) : list Q :=
  map (cast tk) (pmin (snd s) ++ pmax (snd s)).

Definition encode {V} (f : fstate V) : h5new V :=
  let m := f_mesh f in
  let r := reg m in
  let tk := table_kind (f_ck f) (f_subk f) in
  mkH5 file_type file_version
    (mkH5Reg (f_ck f) (pmin r) (pmax r) (dims r) (Z.of_nat (length (pmin r))) (units r) (tf r))
    (n m) (bc m)
    (match subs m with
     | [] => None
     | _ => Some (map fst (subs m), (tk, map (sub_row tk) (subs m)))
     end)
    (f_nvdim f)
    (match f_vdims f with None => AStr none_marker | Some l => AStrs l end)
    (match f_unit f with None => none_marker | Some u => u end)
    (f_dk f) (n m ++ [f_nvdim f]) (f_vals f)
    (n m) (f_valid f).

(* ---------- reader ---------- *)
Fixpoint mapM {A B} (g : A -> res B) (l : list A) : res (list B) :=
  match l with
  | [] => OK []
  | a :: t => do b <- g a; do bs <- mapM g t; OK (b :: bs)
  end.

Definition dec_string (i : nat) : string := NilEmpty.string_of_uint (Nat.to_uint i).

(* Field.vdims setter *)
Definition default_vdims (nv : Z) : option (list string) :=
  if (nv =? 1)%Z then None
  else if (nv <=? 3)%Z then Some (firstn (Z.to_nat nv) ["x"; "y"; "z"]%string)
  else Some (map (fun i => String.append "v" (dec_string i)) (iota 0 (Z.to_nat nv))).

Definition set_vdims (nv : Z) (v : option (list string)) : res (option (list string)) :=
  match v with
  | None => OK (default_vdims nv)
  | Some [] => OK None
  | Some l => if negb (Z.of_nat (length l) =? nv)%Z then Err ValueE
              else if negb (nodupb l) then Err ValueE else OK (Some l)
  end.

Definition conv_dk (d : dkind) : dkind := match d with DInt => DFloat | _ => d end.
Definition conv_vals {V} (conv : V -> V) (d : dkind) (l : list V) : list V :=
  match d with DInt => map conv l | _ => l end.

(* Field(mesh, nvdim, value = ndarray, [dtype = stored dtype,] vdims, unit, valid = ndarray).
   [keep] = the dtype argument is passed (current layout).  The last test is the vdim_mapping
   setter: without labels a vector field whose component count equals the number of spatial
   dimensions cannot be built (zip over None raises TypeError). *)
Definition mk_field {V} (conv : V -> V) (keep : bool) (ck : ckind) (m : mesh) (sk : list ckind) (nv : Z)
    (dk : dkind) (shape : list Z) (arr : list V) (vd : option (list string))
    (u : option string) (vshape : list Z) (valid : list bool) : res (fstate V) :=
  if negb (1 <=? nv)%Z then Err ValueE else
  if negb (zlist_eqb shape (n m ++ [nv]) || ((nv =? 1)%Z && zlist_eqb shape (n m))) then Err ValueE else
  if negb (zlist_eqb vshape (n m)) then Err ValueE else
  do vd' <- set_vdims nv vd;
  if match vd' with None => negb (nv =? 1)%Z && (nv =? Z.of_nat (ndim (reg m)))%Z | Some _ => false end
  then Err TypeE else
  OK (mkF ck m sk nv vd' u (if keep then dk else conv_dk dk)
          (if keep then arr else conv_vals conv dk arr) valid).

(* Region._h5_load: Region(pmin=…, pmax=…, dims=…, ndim=…, units=…, tolerance_factor=…) *)
Definition load_region (h : h5reg) : res region :=
  mk_region_minmax (hr_pmin h) (hr_pmax h) (Some (hr_dims h)) (Some (hr_units h)) (hr_tf h).

(* what the Mesh.subregions setter keeps of a subregion: its corners; the rest is the mesh region's *)
Definition adopt (r s : region) : region := mkRegion (pmin s) (pmax s) (dims r) (units r) (tf r).

(* one row of the table: Region(p1 = row[:ndim], p2 = row[ndim:]) *)
Definition load_sub (r : region) (row : list Q) : res region :=
  do s <- mk_region (firstn (ndim r) row) (skipn (ndim r) row) None None default_tf;
  OK (adopt r s).

Definition load_subs (r : region) (t : option (list string * (ckind * list (list Q))))
  : res (list (string * region) * list ckind) :=
  match t with
  | None => OK ([], [])
  | Some (names, (tk, rows)) =>
      do regs <- mapM (load_sub r) rows;
      let ss := combine names regs in
      OK (ss, repeat tk (length ss))
  end.

Definition decode_new {V} (conv : V -> V) (h : h5new V) : res (fstate V) :=
  if negb (String.eqb (h_type h) file_type) then Err ValueE else
  if negb (String.eqb (h_version h) file_version) then Err RuntimeE else
  do vd <- match h_vdims h with
           | AStr s => if String.eqb s none_marker then OK (Some []) else Err TypeE
           | AStrs l => OK (Some l)
           end;
  let u := if String.eqb (h_unit h) none_marker then None else Some (h_unit h) in
  do r <- load_region (h_reg h);
  do sb <- load_subs r (h_subs h);
  do m0 <- mk_mesh_n r (h_n h);
  let m := mkMesh r (h_n h) (h_bc h) (fst sb) in
  mk_field conv true (hr_ck (h_reg h)) m (snd sb) (h_nvdim h) (h_dk h) (h_shape h) (h_arr h) vd u
           (h_vshape h) (h_valid h).

(* side-car entry: Region( **val ), again the pmin/pmax keyword path *)
Definition load_side (r : region) (s : side_region) : res (string * region) :=
  do q <- mk_region_minmax (sd_pmin s) (sd_pmax s) (Some (sd_dims s)) (Some (sd_units s)) (sd_tf s);
  OK (sd_name s, adopt r q).

Definition decode_legacy {V} (conv : V -> V) (l : h5legacy V) : res (fstate V) :=
  do r <- mk_region (l_p1 l) (l_p2 l) None None default_tf;
  do m0 <- mk_mesh_n r (l_n l);
  do ss <- match l_side l with None => OK [] | Some items => mapM (load_side r) items end;
  let sk := match l_side l with None => [] | Some items => map sd_ck items end in
  let m := mkMesh r (l_n l) "" ss in
  mk_field conv false (kjoin (l_ck1 l) (l_ck2 l)) m sk (l_dim l) (l_dk l) (l_shape l) (l_arr l)
           None None (l_n l) (repeat true (Z.to_nat (zprod (l_n l)))).

Definition decode {V} (conv : V -> V) (f : h5file V) : res (fstate V) :=
  match f with NewFile h => decode_new conv h | LegacyFile l => decode_legacy conv l end.

(* ---------- what the constructors establish (guards of the theorems) ---------- *)
Definition integral (x : Q) : Prop := exists z : Z, x = inject_Z z.

Definition wf_corners (k : ckind) (lo hi : list Q) : Prop :=
  length lo = length hi /\ Forall2 (fun a b => a < b) lo hi /\
  (k = KInt -> Forall integral lo /\ Forall integral hi).

(* Mesh.subregions setter: same ndim, corners ordered, dims/units/tolerance of the mesh region *)
Definition wf_sub (r : region) (k : ckind) (s : string * region) : Prop :=
  length (pmin (snd s)) = length (pmin r) /\
  wf_corners k (pmin (snd s)) (pmax (snd s)) /\
  dims (snd s) = dims r /\ units (snd s) = units r /\ tf (snd s) = tf r.

Definition wf_field {V} (f : fstate V) : Prop :=
  let m := f_mesh f in let r := reg m in
  wf_corners (f_ck f) (pmin r) (pmax r) /\ (0 < length (pmin r))%nat /\
  length (dims r) = length (pmin r) /\ nodupb (dims r) = true /\
  length (units r) = length (pmin r) /\
  length (n m) = length (pmin r) /\ Forall (fun k => 0 < k)%Z (n m) /\
  Forall2 (wf_sub r) (f_subk f) (subs m) /\
  (1 <= f_nvdim f)%Z /\
  match f_vdims f with
  | None => f_nvdim f = 1%Z \/ f_nvdim f <> Z.of_nat (length (pmin r))   (* vdim_mapping setter *)
  | Some l => l <> [] /\ Z.of_nat (length l) = f_nvdim f /\ nodupb l = true
  end.

(* the state the reader returns for a well-formed field: identical, except that subregion
   corners carry the table's dtype kind (a representation tag; their values are untouched) *)
Definition canon {V} (f : fstate V) : fstate V :=
  mkF (f_ck f) (f_mesh f)
      (repeat (table_kind (f_ck f) (f_subk f)) (length (subs (f_mesh f))))
      (f_nvdim f) (f_vdims f) (f_unit f) (f_dk f) (f_vals f) (f_valid f).

(* ---------- a decidable form of [wf_field] (evaluated on every in-domain correspondence case;
   soundness: proofs/C10_hdf5.v, wf_fieldb_sound) ---------- *)
Definition is_int (x : Q) : bool := Pos.eqb (Qden x) 1.
Definition Qsame (a b : Q) : bool := Z.eqb (Qnum a) (Qnum b) && Pos.eqb (Qden a) (Qden b).

Definition wf_cornersb (k : ckind) (lo hi : list Q) : bool :=
  (length lo =? length hi)%nat && forallb2 Qltb lo hi &&
  match k with KInt => forallb is_int lo && forallb is_int hi | KFloat => true end.

Definition wf_subb (r : region) (k : ckind) (s : string * region) : bool :=
  (length (pmin (snd s)) =? length (pmin r))%nat &&
  wf_cornersb k (pmin (snd s)) (pmax (snd s)) &&
  strlist_eqb (dims (snd s)) (dims r) && strlist_eqb (units (snd s)) (units r) &&
  Qsame (tf (snd s)) (tf r).

Definition wf_fieldb {V} (f : fstate V) : bool :=
  let m := f_mesh f in let r := reg m in
  wf_cornersb (f_ck f) (pmin r) (pmax r) && (0 <? length (pmin r))%nat &&
  (length (dims r) =? length (pmin r))%nat && nodupb (dims r) &&
  (length (units r) =? length (pmin r))%nat &&
  (length (n m) =? length (pmin r))%nat && forallb (fun k => (0 <? k)%Z) (n m) &&
  forallb2 (wf_subb r) (f_subk f) (subs m) &&
  (1 <=? f_nvdim f)%Z &&
  match f_vdims f with
  | None => (f_nvdim f =? 1)%Z || negb (f_nvdim f =? Z.of_nat (length (pmin r)))%Z
  | Some l => negb (length l =? 0)%nat && (Z.of_nat (length l) =? f_nvdim f)%Z && nodupb l
  end.
