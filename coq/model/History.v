(* Model of the transformation methods of discretisedfield (region.py / mesh.py / field.py):
   Region.translate / scale / rotate90, Mesh.translate / scale / rotate90 (region + subregions),
   Field.rotate90 (mesh + array shapes), each in its in-place and its copying form, written as
   two separate code paths (the copying form re-enters the constructors, the in-place form tests
   the new corners itself and assigns them), with the argument validation of the code.
   A history is a list of (in-place?, step); rejected steps leave the object as it was.
   Geometry in Q with exact quarter turns.  Definitions only. *)
From DF Require Import Prelude Constants_gen Region Mesh Subregions.
Open Scope Q_scope.

(* ---------- arguments as Python hands them over ---------- *)
Inductive elem := EReal (q : Q) | EBad.                  (* EBad: str / None / complex element *)
Inductive varg := VScalar (q : Q) | VSeq (l : list elem) | VBadType.   (* vector / factor *)
Inductive rarg := RNone | RScalar (q : Q) | RSeq (l : list elem) | RBadType.  (* reference_point *)
Inductive karg := KInt (k : Z) | KBad.                   (* KBad: float / str / numpy integer *)

Inductive hop :=
| HTranslate (v : varg)
| HScale (f : varg) (ref : rarg)
| HRot (ax1 ax2 : string) (k : karg) (ref : rarg).

Definition is_real (e : elem) : bool := match e with EReal _ => true | EBad => false end.
Definition eval (e : elem) : Q := match e with EReal q => q | EBad => 0 end.

(* translate: a real is a 1-d vector; sequence type, length, element types *)
Definition parse_vec (nd : nat) (v : varg) : res (list Q) :=
  match v with
  | VBadType => Err TypeE
  | VScalar q => if (nd =? 1)%nat then OK [q] else Err ValueE
  | VSeq l => if negb (length l =? nd)%nat then Err ValueE
              else if negb (forallb is_real l) then Err TypeE else OK (map eval l)
  end.

(* scale: a real factor applies to every axis *)
Definition parse_factor (nd : nat) (f : varg) : res (list Q) :=
  match f with
  | VBadType => Err TypeE
  | VScalar q => OK (repeat q nd)
  | VSeq l => if negb (length l =? nd)%nat then Err ValueE
              else if negb (forallb is_real l) then Err TypeE else OK (map eval l)
  end.

Definition parse_ref_scale (nd : nat) (c : list Q) (r : rarg) : res (list Q) :=
  match r with
  | RNone => OK c
  | RBadType => Err TypeE
  | RScalar q => if (nd =? 1)%nat then OK [q] else Err ValueE
  | RSeq l => if negb (length l =? nd)%nat then Err ValueE
              else if negb (forallb is_real l) then Err ValueE else OK (map eval l)
  end.

(* rotate90 tests type and length only; the two elements it uses fail later in the arithmetic *)
Definition parse_ref_rot (nd : nat) (c : list Q) (r : rarg) : res (list elem) :=
  match r with
  | RNone => OK (map EReal c)
  | RBadType => Err TypeE
  | RScalar _ => Err TypeE
  | RSeq l => if negb (length l =? nd)%nat then Err ValueE else OK l
  end.

Definition dim2index (s : string) (r : region) : res nat :=
  match index_of s (dims r) with Some i => OK i | None => Err ValueE end.

(* ---------- the three maps on corners ---------- *)
Definition hscale_lo (rf p fa : Q) : Q := rf - (rf - p) * fa.
Definition hscale_hi (l e fa : Q) : Q := l + e * fa.

(* (cos, sin) of k quarter turns, exact *)
Definition hrot_cs (k : Z) : Q * Q :=
  match (k mod 4)%Z with
  | 0%Z => (1, 0) | 1%Z => (0, 1) | 2%Z => (-(1), 0) | _ => (0, -(1))
  end.

Definition hrot_pt (a b : nat) (k : Z) (ra rb : Q) (p : list Q) : list Q :=
  let c := fst (hrot_cs k) in let s := snd (hrot_cs k) in
  let xa := nth a p 0 - ra in
  let xb := nth b p 0 - rb in
  set_nth b (rb + (s * xa + c * xb)) (set_nth a (ra + (c * xa - s * xb)) p).

Definition hswap {A} (a b : nat) (d : A) (l : list A) : list A :=
  set_nth b (nth a l d) (set_nth a (nth b l d) l).

(* validated arguments -> raw new corners (not yet ordered) and units *)
Definition prep (o : hop) (r : region) : res (list Q * list Q * list string) :=
  match o with
  | HTranslate v =>
      do w <- parse_vec (ndim r) v;
      OK (map2 Qplus (pmin r) w, map2 Qplus (pmax r) w, units r)
  | HScale f ref =>
      do fs <- parse_factor (ndim r) f;
      do rf <- parse_ref_scale (ndim r) (center r) ref;
      let lo := map3 hscale_lo rf (pmin r) fs in
      OK (lo, map3 hscale_hi lo (edges r) fs, units r)
  | HRot a1 a2 k ref =>
      if String.eqb a1 a2 then Err ValueE else
      do kz <- match k with KInt z => OK z | KBad => Err TypeE end;
      do rf <- parse_ref_rot (ndim r) (center r) ref;
      do a <- dim2index a1 r;
      do b <- dim2index a2 r;
      match nth a rf EBad, nth b rf EBad with
      | EReal ra, EReal rb =>
          OK (hrot_pt a b kz ra rb (pmin r), hrot_pt a b kz ra rb (pmax r),
              if Z.odd kz then hswap a b EmptyString (units r) else units r)
      | _, _ => Err TypeE
      end
  end.

Definition zero_edge (p1 p2 : list Q) : bool := existsb (fun e => Qeq_bool e 0) (edges_of p1 p2).

(* in place, translate: test the new edges, assign the corners as computed *)
Definition finish_direct (p1 p2 : list Q) (us : list string) (r : region) : res region :=
  if zero_edge p1 p2 then Err ValueE else OK (mkRegion p1 p2 (dims r) us (tf r)).
(* in place, scale / rotate90: test the new edges, assign minimum / maximum *)
Definition finish_minmax (p1 p2 : list Q) (us : list string) (r : region) : res region :=
  if zero_edge p1 p2 then Err ValueE
  else OK (mkRegion (map2 Qmin p1 p2) (map2 Qmax p1 p2) (dims r) us (tf r)).
(* copying: the constructor *)
Definition finish_copy (p1 p2 : list Q) (us : list string) (r : region) : res region :=
  mk_region p1 p2 (Some (dims r)) (Some us) (tf r).

Definition rstep (ip : bool) (o : hop) (r : region) : res region :=
  do x <- prep o r;
  let p1 := fst (fst x) in let p2 := snd (fst x) in let us := snd x in
  if ip then
    match o with
    | HTranslate _ => finish_direct p1 p2 us r
    | _ => finish_minmax p1 p2 us r
    end
  else finish_copy p1 p2 us r.

(* ---------- mesh ---------- *)
(* the subregions get the reference point the mesh-level method hands on: the given one, or
   the centre of the mesh region.  (Mesh.rotate90(inplace=True) reads that centre after the
   region has been turned; a quarter turn about the centre keeps the centre - lemma
   [rot_center_fixed] - so the model reads it before, like the other forms.) *)
Definition sub_op (o : hop) (c : list Q) : hop :=
  match o with
  | HScale f RNone => HScale f (RSeq (map EReal c))
  | HRot a1 a2 k RNone => HRot a1 a2 k (RSeq (map EReal c))
  | _ => o
  end.

Definition hnew_n (o : hop) (r : region) (ns : list Z) : list Z :=
  match o with
  | HRot a1 a2 (KInt k) _ =>
      if Z.odd k then
        match index_of a1 (dims r), index_of a2 (dims r) with
        | Some a, Some b => hswap a b 0%Z ns
        | _, _ => ns
        end
      else ns
  | _ => ns
  end.

Definition sub_step (ip : bool) (o : hop) (nr : string * region) : res (string * region) :=
  do s <- rstep ip o (snd nr); OK (fst nr, s).

Definition mstep (ip : bool) (o : hop) (m : mesh) : res mesh :=
  let o' := sub_op o (center (reg m)) in
  do r' <- rstep ip o (reg m);
  do subs' <- mapres (sub_step ip o') (subs m);
  let n' := hnew_n o (reg m) (n m) in
  if ip then OK (mkMesh r' n' (bc m) subs')
  else do m0 <- mk_mesh_n r' n';
       set_subregions_tol align_tol (mkMesh r' n' (bc m) []) subs'.

(* ---------- field: mesh, component count, dims -> mapped component, array / mask shapes ---------- *)
Record fstate := mkF {
  fmesh : mesh; fnvdim : Z; frmap : list (option nat);
  fashape : list Z; fvshape : list Z
}.

Definition k_odd (k : karg) : bool := match k with KInt z => Z.odd z | KBad => false end.

Definition fstep (ip : bool) (o : hop) (f : fstate) : res fstate :=
  match o with
  | HRot a1 a2 k _ =>
      do a <- dim2index a1 (reg (fmesh f));
      do b <- dim2index a2 (reg (fmesh f));
      do _ <- (if (1 <? fnvdim f)%Z then
                 match nth a (frmap f) None, nth b (frmap f) None with
                 | Some _, Some _ => OK tt
                 | _, _ => Err RuntimeE
                 end
               else OK tt);
      do m' <- mstep ip o (fmesh f);
      let sh := if k_odd k then hswap a b 0%Z (fashape f) else fashape f in
      let vs := if k_odd k then hswap a b 0%Z (fvshape f) else fvshape f in
      (* both forms hand the turned arrays to _as_array, which insists on the shape n ++ [nvdim] *)
      if zlist_eqb sh (n m' ++ [fnvdim f]) && zlist_eqb vs (n m')
      then OK (mkF m' (fnvdim f) (frmap f) sh vs) else Err ValueE
  | _ =>
      (* Field has no translate / scale: the step acts on the field's own mesh, in place *)
      do m' <- mstep true o (fmesh f);
      OK (mkF m' (fnvdim f) (frmap f) (fashape f) (fvshape f))
  end.

(* ---------- histories ---------- *)
Inductive hstate := SRegion (r : region) | SMesh (m : mesh) | SField (f : fstate).

Definition step (ip : bool) (o : hop) (s : hstate) : res hstate :=
  match s with
  | SRegion r => do r' <- rstep ip o r; OK (SRegion r')
  | SMesh m => do m' <- mstep ip o m; OK (SMesh m')
  | SField f => do f' <- fstep ip o f; OK (SField f')
  end.

Definition apply_step (s : hstate) (io : bool * hop) : hstate :=
  match step (fst io) (snd io) s with OK s' => s' | Err _ => s end.

Definition run (h : list (bool * hop)) (s : hstate) : hstate := fold_left apply_step h s.

(* ---------- invariants ---------- *)
(* a subregion made of whole cells j1 .. j2-1 of axis [a] *)
Definition on_cells (m : mesh) (s : region) (a : nat) : Prop :=
  exists j1 j2 : Z, (0 <= j1 /\ j1 < j2 /\ j2 <= nth a (n m) 1)%Z /\
    nth a (pmin s) 0 == nth a (pmin (reg m)) 0 + inject_Z j1 * nth a (cell m) 0 /\
    nth a (pmax s) 0 == nth a (pmin (reg m)) 0 + inject_Z j2 * nth a (cell m) 0.

Definition inv_sub (m : mesh) (s : region) : Prop :=
  wf_region s /\ length (pmin s) = length (pmin (reg m)) /\
  dims s = dims (reg m) /\ units s = units (reg m) /\ tf s = tf (reg m) /\
  forall a, (a < length (pmin (reg m)))%nat -> on_cells m s a.

Definition inv_mesh (m : mesh) : Prop :=
  wf_mesh m /\ Forall (fun nr => inv_sub m (snd nr)) (subs m).

Definition inv_field (f : fstate) : Prop :=
  inv_mesh (fmesh f) /\ fashape f = n (fmesh f) ++ [fnvdim f] /\ fvshape f = n (fmesh f) /\
  (0 < fnvdim f)%Z /\ length (frmap f) = length (dims (reg (fmesh f))).

Definition Inv (s : hstate) : Prop :=
  match s with
  | SRegion r => wf_region r
  | SMesh m => inv_mesh m
  | SField f => inv_field f
  end.
