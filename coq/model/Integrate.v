(* Model of Field.integrate / Field.mean (field.py).  Arrays are index functions of shape
   sh ++ [nvdim]; generic field K.  Definitions only. *)
From DF Require Import Prelude FieldK NDArray.

Section Integrate.
Variable K : FOps.
Notation "0" := (f0 K).
Infix "+" := fadd. Infix "*" := fmul. Infix "/" := fdiv.
Notation two := (f2 K).

(* sum over ALL indices of a shape *)
Definition total (sh : list nat) (f : idx -> K) : K := fsum K (map f (indices sh)).

(* sum along axis ax; the result is indexed by the index with that axis removed *)
Definition sum_axis (sh : list nat) (ax : nat) (f : idx -> K) : idx -> K :=
  fun i => fsum K (map (fun j => f (insert_nth ax j i)) (iota 0 (nth ax sh 0%nat))).

(* integrate(): sum of the cell values times the cell volume, per component *)
Definition integrate_all (sh : list nat) (nvdim : nat) (dV : K) (f : idx -> K) : list K :=
  map (fun c => total sh (fun i => f (i ++ [c])) * dV) (iota 0 nvdim).

(* integrate(direction): sum along the axis times the cell length, on the mesh without that axis *)
Definition integrate_dir (sh : list nat) (nvdim : nat) (ax : nat) (h : K) (f : idx -> K) : idx -> K :=
  fun i => sum_axis (sh ++ [nvdim]) ax f i * h.

(* integrate(direction, cumulative=True): tmp = a/2; tmp[1:] += cumsum(a)[:-1]; tmp * cell *)
Fixpoint cum_aux (h acc : K) (a : list K) : list K :=
  match a with
  | [] => []
  | x :: t => (x / two + acc) * h :: cum_aux h (acc + x) t
  end.
Definition cum_line (h : K) (a : list K) : list K := cum_aux h 0 a.
Definition integrate_cum (sh : list nat) (nvdim : nat) (ax : nat) (h : K) (f : idx -> K) : idx -> K :=
  along_axis 0 (sh ++ [nvdim]) ax (cum_line h) f.

(* mean(): over all directions, per component *)
Definition mean_all (sh : list nat) (nvdim : nat) (f : idx -> K) : list K :=
  map (fun c => total sh (fun i => f (i ++ [c])) / fnat K (nprod sh)) (iota 0 nvdim).
(* mean(direction) *)
Definition mean_dir (sh : list nat) (nvdim : nat) (ax : nat) (f : idx -> K) : idx -> K :=
  fun i => sum_axis (sh ++ [nvdim]) ax f i / fnat K (nth ax sh 0%nat).

End Integrate.
