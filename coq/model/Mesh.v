(* Model of discretisedfield.Mesh (mesh.py): cell, index2point, point2index,
   indices / iteration, cells, vertices, mesh-by-cell constructor.  Definitions only. *)
From DF Require Import Prelude Constants_gen Region.
Open Scope Q_scope.

Record mesh := mkMesh {
  reg : region;
  n : list Z;
  bc : string;
  subs : list (string * region)
}.

Definition cell_of (lo hi : Q) (k : Z) : Q := (hi - lo) / inject_Z k.
Definition cell (m : mesh) : list Q := map3 cell_of (pmin (reg m)) (pmax (reg m)) (n m).
Definition dV (m : mesh) : Q := qprod (cell m).
Definition mesh_len (m : mesh) : Z := zprod (n m).

(* Mesh(region=…, n=…) *)
Definition mk_mesh_n (r : region) (n_ : list Z) : res mesh :=
  if negb (length n_ =? ndim r)%nat then Err ValueE else
  if negb (forallb (fun k => 0 <? k)%Z n_) then Err ValueE else
  OK (mkMesh r n_ "" []).

(* --- the two maps --- *)
Definition i2p1 (lo c : Q) (i : Z) : Q := lo + (inject_Z i + half_cell) * c.
Definition in_range1 (k i : Z) : bool := (0 <=? i)%Z && (i <? k)%Z.

Definition index2point (m : mesh) (i : list Z) : res (list Q) :=
  if negb (length i =? ndim (reg m))%nat then Err IndexE else
  if negb (forallb2 in_range1 (n m) i) then Err IndexE else
  OK (map3 i2p1 (pmin (reg m)) (cell m) i).

Definition p2i1 (lo c : Q) (k : Z) (p : Q) : Z := Qclip 0 (k - 1) (Qfloor ((p - lo) / c)).

Definition point2index (m : mesh) (p : list Q) : res (list Z) :=
  if negb (length p =? ndim (reg m))%nat then Err ValueE else
  if negb (contains_pt (reg m) p) then Err ValueE else
  OK (map3 (fun lc k x => p2i1 (fst lc) (snd lc) k x)
           (combine (pmin (reg m)) (cell m)) (n m) p).

(* --- enumeration: first dimension fastest --- *)
Fixpoint indices_xfast (ns : list Z) : list (list Z) :=
  match ns with
  | [] => [[]]
  | k :: rest => flat_map (fun tl => map (fun i => i :: tl) (ziota 0 (Z.to_nat k))) (indices_xfast rest)
  end.

Definition mesh_points (m : mesh) : list (res (list Q)) := map (index2point m) (indices_xfast (n m)).

(* position of an index in indices_xfast:  i0 + n0*(i1 + n1*(…)) *)
Fixpoint ravel_xfast (ns i : list Z) : Z :=
  match ns, i with
  | k :: ns', j :: i' => (j + k * ravel_xfast ns' i')%Z
  | _, _ => 0%Z
  end.

(* numpy.linspace(a, b, k)[j] = a + j*(b-a)/(k-1)   (k = 1: just a) *)
Definition linspace_at (a b : Q) (k : Z) (j : Z) : Q :=
  if (k =? 1)%Z then a else a + inject_Z j * ((b - a) / inject_Z (k - 1)).
Definition linspace (a b : Q) (k : Z) : list Q := map (linspace_at a b k) (ziota 0 (Z.to_nat k)).

Definition cells_axis (lo hi : Q) (k : Z) : list Q :=
  let c := cell_of lo hi k in linspace (lo + c / 2) (hi - c / 2) k.
Definition vertices_axis (lo hi : Q) (k : Z) : list Q := linspace lo hi (k + 1).
Definition cells (m : mesh) : list (list Q) := map3 cells_axis (pmin (reg m)) (pmax (reg m)) (n m).
Definition vertices (m : mesh) : list (list Q) := map3 vertices_axis (pmin (reg m)) (pmax (reg m)) (n m).

(* --- Mesh(region=…, cell=…) --- *)
Definition bycell_tol (c : list Q) : Q := qlist_min c * divisibility_factor.
Definition bad_rem (tol c e : Q) : bool :=
  let rem := Qremainder e c in Qltb tol rem && Qltb rem (c - tol).

Definition mesh_by_cell (r : region) (c : list Q) : res mesh :=
  if negb (length c =? ndim r)%nat then Err ValueE else
  if negb (forallb (fun x => Qltb 0 x) c) then Err ValueE else
  (* Region(pmin, pmin + cell) in region  *)
  if negb (contains_pt r (pmin r) && contains_pt r (map2 Qplus (pmin r) c)) then Err ValueE else
  if existsb (fun b => b) (map2 (bad_rem (bycell_tol c)) c (edges r)) then Err ValueE else
  OK (mkMesh r (map2 (fun e x => Qround_half_even (e / x)) (edges r) c) "" []).

Definition wf_mesh (m : mesh) : Prop :=
  wf_region (reg m) /\ length (n m) = length (pmin (reg m)) /\ Forall (fun k => 0 < k)%Z (n m).
