(* Model of Field.norm (getter / setter), Field.orientation, the constructor order
   values -> norm -> validity and update_field_values (discretisedfield/field.py).
   Values live in an abstract field K; the Euclidean length of a cell is a parameter [nrm]
   (sqrt at K := R, the exact partial rational root [qsqrt] at K := Qc), as are the two
   zero tests of the code ([!= 0.0] in the setter, numpy.isclose(., 0) in orientation).
   Definitions only. *)
From Coq Require Import Qcanon.
From DF Require Import Prelude FieldK NDArray Region Mesh.

(* ---------- exact partial square root on Q ---------- *)
Definition zsqrt_exact (z : Z) : option Z :=
  let r := Z.sqrt z in if (r * r =? z)%Z then Some r else None.

Definition qsqrt (x : Q) : option Q :=
  let x' := Qred x in
  match zsqrt_exact (Qnum x'), zsqrt_exact (Zpos (Qden x')) with
  | Some a, Some b => Some (a # Z.to_pos b)
  | _, _ => None
  end.

(* numpy.isclose(x, 0) with the default rtol = 1e-5, atol = 1e-8:  |x - 0| <= atol + rtol*|0|.
   atol is the binary64 number written 1e-8 (its exact rational value) *)
Definition orient_atol : Q := 3022314549036573 # 302231454903657293676544.
Definition orient_rtol : Q := 1 # 100000.

(* ---------- validity specification of the constructor ---------- *)
Inductive vspec := VAll | VArr (l : list bool) | VNorm.

Section NormModel.
Variable K : FOps.

Definition sumsq (v : list K) : K := fsum K (map (fun x => fmul x x) v).
Definition zeros (v : list K) : list K := map (fun _ => f0 K) v.

(* np.divide(v, n, out=zeros, where = not (small n)) *)
Definition unit_cell (small : K -> bool) (n : K) (v : list K) : list K :=
  map (fun x => if small n then f0 K else fdiv x n) v.
(* array *= t   (t broadcast over the components of the cell) *)
Definition scale_cell (t : K) (v : list K) : list K := map (fun x => fmul x t) v.
Definition set_cell (is0 : K -> bool) (n t : K) (v : list K) : list K :=
  scale_cell t (unit_cell is0 n v).

Record field := mkField {
  f_mesh : mesh; f_nvdim : nat; f_unit : option string;
  f_valid : list bool;            (* one flag per cell, C order *)
  f_arr : list (list K)           (* one component list per cell, C order *)
}.

(* what a norm can be set to *)
Inductive nspec :=
| NConst (t : K)
| NArr (ts : list K)              (* per-cell array, shape mesh.n or mesh.n + (1,), C order *)
| NFun (g : list Q -> K).         (* function of the cell centre *)

Definition shape (m : mesh) : list nat := znat (n m).
Definition ncells (m : mesh) : nat := nprod (shape m).
Definition centre (m : mesh) (i : idx) : list Q :=
  match index2point m (map Z.of_nat i) with OK p => p | Err _ => [] end.
Definition centres (m : mesh) : list (list Q) := map (centre m) (indices (shape m)).

Definition spec_values (m : mesh) (s : nspec) : res (list K) :=
  match s with
  | NConst t => OK (repeat t (ncells m))
  | NArr ts => if (length ts =? ncells m)%nat then OK ts else Err ValueE
  | NFun g => OK (map g (centres m))
  end.

Variable nrm : list K -> K.      (* np.linalg.norm(cell) *)
Variable is0 : K -> bool.        (* x == 0.0 *)
Variable close0 : K -> bool.     (* np.isclose(x, 0) *)

(* Field.norm (getter): one component, same mesh, unit, validity *)
Definition norm_field (f : field) : field :=
  mkField (f_mesh f) 1 (f_unit f) (f_valid f) (map (fun v => [nrm v]) (f_arr f)).

(* Field.norm = spec *)
Definition set_norm (f : field) (s : nspec) : res field :=
  do ts <- spec_values (f_mesh f) s;
  OK (mkField (f_mesh f) (f_nvdim f) (f_unit f) (f_valid f)
              (map2 (fun v t => set_cell is0 (nrm v) t v) (f_arr f) ts)).

(* Field.orientation (the code does not pass the unit on) *)
Definition orientation (f : field) : field :=
  mkField (f_mesh f) (f_nvdim f) None (f_valid f)
          (map (fun v => unit_cell close0 (nrm v) v) (f_arr f)).

Definition arr_ok (m : mesh) (nvdim : nat) (a : list (list K)) : bool :=
  (length a =? ncells m)%nat && forallb (fun v => (length v =? nvdim)%nat) a.

(* Field.update_field_values(array of shape mesh.n + (nvdim,)) *)
Definition update_values (f : field) (a : list (list K)) : res field :=
  if arr_ok (f_mesh f) (f_nvdim f) a
  then OK (mkField (f_mesh f) (f_nvdim f) (f_unit f) (f_valid f) a)
  else Err ValueE.

(* Field.valid = spec *)
Definition set_valid (f : field) (vs : vspec) : res field :=
  match vs with
  | VAll => OK (mkField (f_mesh f) (f_nvdim f) (f_unit f) (repeat true (ncells (f_mesh f))) (f_arr f))
  | VArr l => if (length l =? ncells (f_mesh f))%nat
              then OK (mkField (f_mesh f) (f_nvdim f) (f_unit f) l (f_arr f)) else Err ValueE
  | VNorm => OK (mkField (f_mesh f) (f_nvdim f) (f_unit f)
                         (map (fun v => negb (close0 (nrm v))) (f_arr f)) (f_arr f))
  end.

(* Field(mesh, nvdim, value=a, norm=ns, valid=vs, unit=u): values, then norm, then validity *)
Definition mk_field (m : mesh) (nvdim : nat) (u : option string) (a : list (list K))
           (ns : option nspec) (vs : vspec) : res field :=
  if (nvdim =? 0)%nat then Err ValueE else
  do f0_ <- update_values (mkField m nvdim u (repeat true (ncells m)) []) a;
  do f1_ <- match ns with None => OK f0_ | Some s => set_norm f0_ s end;
  set_valid f1_ vs.

(* histories of public calls on one field object *)
(* OWrite g: an in-place write into the array the getter hands out (field.array[...] = / *= ...);
   g maps the stored cells to the cells after the write.  The object keeps no other state, so the
   model's state after the write is simply the written array. *)
Inductive op := OSetNorm (s : nspec) | OUpdate (a : list (list K)) | OSetValid (vs : vspec)
              | OWrite (g : list (list K) -> list (list K)).

Definition run_op (f : field) (o : op) : res field :=
  match o with
  | OSetNorm s => set_norm f s
  | OUpdate a => update_values f a
  | OSetValid vs => set_valid f vs
  | OWrite g => OK (mkField (f_mesh f) (f_nvdim f) (f_unit f) (f_valid f) (g (f_arr f)))
  end.

Fixpoint run_ops (f : field) (os : list op) : res field :=
  match os with
  | [] => OK f
  | o :: os' => do f' <- run_op f o; run_ops f' os'
  end.

End NormModel.

Arguments NConst {K}. Arguments NArr {K}. Arguments NFun {K}.
Arguments OSetNorm {K}. Arguments OUpdate {K}. Arguments OSetValid {K}. Arguments OWrite {K}.
Arguments mkField {K}.
Arguments zeros {K}. Arguments unit_cell {K}. Arguments scale_cell {K}. Arguments set_cell {K}.
Arguments spec_values {K}. Arguments norm_field {K}. Arguments set_norm {K}. Arguments orientation {K}.
Arguments arr_ok {K}. Arguments update_values {K}. Arguments set_valid {K}. Arguments mk_field {K}.
Arguments run_op {K}. Arguments run_ops {K}.
Arguments f_mesh {K}. Arguments f_nvdim {K}. Arguments f_unit {K}. Arguments f_valid {K}. Arguments f_arr {K}.

(* ---------- executable instance at Qc ---------- *)
Definition qc_is0 (x : Qc) : bool := Qeq_bool (this x) 0.
Definition qc_close0 (x : Qc) : bool := isclose orient_rtol orient_atol (this x) 0.
(* total wrapper; every theorem about it carries the guard [qsqrt … = Some _] *)
Definition qc_nrm (v : list Qc) : Qc :=
  match qsqrt (this (sumsq QcOps v)) with Some y => Q2Qc y | None => Q2Qc 0 end.
Definition qc_nrm_defined (v : list Qc) : bool :=
  match qsqrt (this (sumsq QcOps v)) with Some _ => true | None => false end.
