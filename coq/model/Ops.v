(* Model of the Field algebra of discretisedfield/field.py (HEAD): Field construction of a result
   (vdims / vdim_mapping setters), _check_same_mesh_and_field_dim, _apply_operator, reflected
   operators, dot / cross / angle, <<, component access, complex parts, __array_ufunc__.
   Values live in an abstract FOps K; numpy's non-algebraic cell functions are the Section
   variables [un] / [bin].  An array is the C-order list of its cells, a cell is the list of its
   components (the flattening is a bijection, the algebra never looks at the spatial shape).
   Definitions only. *)
From DF Require Import Prelude FieldK Region Mesh.

(* ids of cell functions that the model itself refers to (the others are numpy ufunc ids) *)
Definition U_ABS : nat := 0.
Definition U_REAL : nat := 1.
Definition U_IMAG : nat := 2.
Definition U_CONJ : nat := 3.
Definition U_PHASE : nat := 4.
Definition U_SQRT : nat := 5.
Definition U_ARCCOS : nat := 6.
Definition B_POW : nat := 0.

Inductive aop := Add | Sub | Mul | Div | Pow.
Inductive cellfn2 := CAlg (o : aop) | CTab (id : nat).
Inductive unop := Neg | Pos | Abs | Real | Imag | Conj | CAbs | Phase | Comp (j : nat) | Uf1 (id : nat).
Inductive binop := Alg (o : aop) | Dot | Cross | Angle | Stack | Uf2 (c : cellfn2).

(* ---------- mesh comparisons (mesh.py / region.py) ---------- *)
Open Scope Q_scope.
(* Mesh.allclose: dims must agree (else ValueError); np.allclose(self.pmin, other.pmin, atol, rtol)
   with atol = min(self.edges) * tolerance_factor, rtol = tolerance_factor; same n *)
Definition mesh_allclose (a b : mesh) : res bool :=
  if negb (strlist_eqb (dims (reg a)) (dims (reg b))) then Err ValueE else
  let rt := tf (reg a) in
  let at_ := reg_atol (reg a) in
  OK (forallb2 (isclose rt at_) (pmin (reg a)) (pmin (reg b)) &&
      forallb2 (isclose rt at_) (pmax (reg a)) (pmax (reg b)) &&
      zlist_eqb (n a) (n b)).
(* Mesh.__eq__ *)
Definition mesh_eqb (a b : mesh) : bool := region_eqb (reg a) (reg b) && zlist_eqb (n a) (n b).
Close Scope Q_scope.

(* ---------- labels ---------- *)
Definition digit (i : nat) : string := String (Ascii.ascii_of_nat (48 + i)) EmptyString.
Definition natstr (i : nat) : string :=
  if (i <? 10)%nat then digit i else String.append (digit (i / 10)) (digit (i mod 10)).
Definition default_vdims (nv : nat) : option (list string) :=
  if (nv <=? 1)%nat then None
  else if (nv <=? 3)%nat then Some (firstn nv ["x"%string; "y"%string; "z"%string])
  else Some (map (fun i => String.append "v" (natstr i)) (iota 0 nv)).

Notation vmapping := (list (string * string)).
Fixpoint vm_get (k : string) (m : vmapping) : option string :=
  match m with [] => None | (k', v) :: t => if String.eqb k k' then Some v else vm_get k t end.
(* dict.update *)
Fixpoint vm_set (k v : string) (m : vmapping) : vmapping :=
  match m with
  | [] => [(k, v)]
  | (k', v') :: t => if String.eqb k k' then (k, v) :: t else (k', v') :: vm_set k v t
  end.
Definition vm_update (m other : vmapping) : vmapping := fold_left (fun acc kv => vm_set (fst kv) (snd kv) acc) other m.
Definition str_mem (s : string) (l : list string) : bool := existsb (String.eqb s) l.
(* sorted(keys) == sorted(vdims), both without repetitions *)
Definition keys_match (m : vmapping) (vd : list string) : bool :=
  (length m =? length vd)%nat && forallb (fun kv => str_mem (fst kv) vd) m.

(* vdims setter (the attribute-name clash test is not modelled: generated labels avoid attribute names) *)
Definition set_vdims (nv : nat) (v : option (list string)) : res (option (list string)) :=
  match v with
  | None => OK (default_vdims nv)
  | Some [] => OK None
  | Some l => if negb (length l =? nv)%nat then Err ValueE
              else if negb (nodupb l) then Err ValueE else OK (Some l)
  end.

(* vdim_mapping setter *)
Definition set_vmap (m : mesh) (nv : nat) (vd : option (list string)) (vm : option vmapping) : res vmapping :=
  match vm with
  | None =>
      if (nv =? 1)%nat then OK []
      else if (nv =? ndim (reg m))%nat then
        match vd with Some l => OK (combine l (dims (reg m))) | None => OK [] end
      else OK []
  | Some mp =>
      match vd with
      | None => if (length mp =? 1)%nat && (nv =? 1)%nat then OK []
                else if (0 <? length mp)%nat then Err ValueE else OK mp
      | Some l => if (0 <? length mp)%nat && negb (keys_match mp l) then Err ValueE else OK mp
      end
  end.

Section Ops.
Variable K : FOps.
Variable un : nat -> K -> K.        (* numpy's unary cell functions, by id *)
Variable bin : nat -> K -> K -> K.  (* numpy's binary cell functions, by id *)

Notation vec := (list K).
Notation "0" := (f0 K).

Record field := mkField {
  fmesh : mesh; fnv : nat; farr : list vec; fvalid : list bool;
  fvdims : option (list string); fvmap : vmapping }.

(* np = true: numpy scalar / ndarray (dispatches to __array_ufunc__ when on the left),
   false: Python number / tuple / list.  CArr: per-cell ndarray of shape (mesh.n..., k) *)
Inductive const := CNum (np : bool) (c : K) | CVec (np : bool) (v : vec) | CArr (k : nat) (cells : list vec).
Inductive value := VF (f : field) | VC (c : const).

Inductive expr := Leaf (i : nat) | Const (c : const) | Un (o : unop) (e : expr) | Bin (o : binop) (a b : expr).

(* ---------- cell level (the plain cell-wise semantics) ---------- *)
(* numpy broadcasting of the component axis *)
Definition bvec (g : K -> K -> K) (u v : vec) : vec :=
  if (length u =? length v)%nat then map2 g u v
  else if (length u =? 1)%nat then map (g (hd 0 u)) v
  else if (length v =? 1)%nat then map (fun x => g x (hd 0 v)) u
  else [].
Definition bnv (a b : nat) : option nat :=
  if (a =? b)%nat then Some a else if (a =? 1)%nat then Some b else if (b =? 1)%nat then Some a else None.

Definition alg (o : aop) : K -> K -> K :=
  match o with Add => fadd | Sub => fsub | Mul => fmul | Div => fdiv | Pow => bin B_POW end.
Definition cf2 (c : cellfn2) : K -> K -> K := match c with CAlg o => alg o | CTab id => bin id end.

Definition cross3 (u v : vec) : vec :=
  match u, v with
  | [a1; a2; a3], [b1; b2; b3] =>
      [fsub (fmul a2 b3) (fmul a3 b2); fsub (fmul a3 b1) (fmul a1 b3); fsub (fmul a1 b2) (fmul a2 b1)]
  | _, _ => []
  end.
Definition dotv (u v : vec) : K := fsum K (bvec fmul u v).
(* np.linalg.norm over the component axis (real data) *)
Definition normv (u : vec) : K := un U_SQRT (fsum K (map (fun x => fmul x x) u)).
Definition angle_cell (u v : vec) : K := un U_ARCCOS (fdiv (dotv u v) (fmul (normv u) (normv v))).

Definition sem_un (o : unop) (v : vec) : vec :=
  match o with
  | Pos => v
  | Neg => map fopp v
  | Abs | CAbs => map (un U_ABS) v
  | Real => map (un U_REAL) v
  | Imag => map (un U_IMAG) v
  | Conj => map (un U_CONJ) v
  | Phase => map (un U_PHASE) v
  | Comp j => [nth j v 0]
  | Uf1 id => map (un id) v
  end.
Definition sem_bin (o : binop) (u v : vec) : vec :=
  match o with
  | Alg a => bvec (alg a) u v
  | Uf2 c => bvec (cf2 c) u v
  | Dot => [dotv u v]
  | Cross => cross3 u v
  | Angle => [angle_cell u v]
  | Stack => u ++ v
  end.

Definition cden (c : const) (i : nat) : vec :=
  match c with CNum _ x => [x] | CVec _ v => v | CArr _ cells => nth i cells [] end.
Definition dummy : field := mkField (mkMesh (mkRegion [] [] [] [] 0%Q) [] "" []) 1 [] [] None [].
(* the denotation: the expression evaluated in one cell *)
Fixpoint den (rho : list field) (e : expr) (c : nat) : vec :=
  match e with
  | Leaf i => nth c (farr (nth i rho dummy)) []
  | Const k => cden k c
  | Un o a => sem_un o (den rho a c)
  | Bin o a b => sem_bin o (den rho a c) (den rho b c)
  end.
(* validity of the result in one cell: every field operand is valid there *)
Fixpoint den_valid (rho : list field) (e : expr) (c : nat) : bool :=
  match e with
  | Leaf i => nth c (fvalid (nth i rho dummy)) true
  | Const _ => true
  | Un _ a => den_valid rho a c
  | Bin _ a b => den_valid rho a c && den_valid rho b c
  end.

(* ---------- Field(...) as used for results ---------- *)
Definition mk_field (m : mesh) (nv : nat) (arr : list vec) (vd : option (list string))
           (valid : list bool) (vm : option vmapping) : res field :=
  if (nv =? 0)%nat then Err ValueE else
  do vd' <- set_vdims nv vd;
  do vm' <- set_vmap m nv vd' vm;
  OK (mkField m nv arr valid vd' vm').

Definition const_nv (f : field) (c : const) : nat :=
  match c with CNum _ _ => 1%nat | CVec _ v => length v | CArr k _ => k end.
Definition const_np (c : const) : bool :=
  match c with CNum b _ => b | CVec b _ => b | CArr _ _ => true end.
(* the cells of an operand, for a mesh of N cells *)
Definition operand_cells (N : nat) (v : value) : list vec :=
  match v with VF g => farr g | VC c => map (cden c) (iota 0 N) end.
Definition operand_valid (N : nat) (v : value) : list bool :=
  match v with VF g => fvalid g | VC _ => repeat true N end.
Definition n0 (m : mesh) : nat := Z.to_nat (hd 0%Z (n m)).

(* _check_same_mesh_and_field_dim *)
Definition check_same (f o : field) (ignore_scalar : bool) : res unit :=
  do close <- mesh_allclose (fmesh f) (fmesh o);
  if negb close then Err ValueE else
  if ignore_scalar && ((fnv f =? 1)%nat || (fnv o =? 1)%nat) then OK tt else
  if (fnv f =? fnv o)%nat then OK tt else Err ValueE.

(* unary operators that rebuild a field of the same shape *)
Definition same_shape (g : K -> K) (f : field) : res field :=
  mk_field (fmesh f) (fnv f) (map (map g) (farr f)) (fvdims f) (fvalid f) (Some (fvmap f)).

(* _apply_operator(self, other, function) *)
Definition apply_op (g : K -> K -> K) (f : field) (other : value) : res field :=
  let N := length (farr f) in
  let arr := map2 (bvec g) (farr f) (operand_cells N other) in
  match other with
  | VF o =>
      do _ <- check_same f o true;
      let labelled := if (fnv f =? 1)%nat && (1 <? fnv o)%nat then o else f in
      match bnv (fnv f) (fnv o) with
      | None => Err ValueE
      | Some nvr =>
          mk_field (fmesh f) nvr arr
                   (if (fnv labelled =? nvr)%nat then fvdims labelled else None)
                   (map2 andb (fvalid f) (fvalid o))
                   (Some (if (fnv labelled =? nvr)%nat then fvmap labelled else []))
      end
  | VC c =>
      let ok := match c with
                | CNum _ _ => true
                | CVec _ v => (fnv f =? length v)%nat || (fnv f =? 1)%nat
                | CArr k _ => (k =? fnv f)%nat || (fnv f =? n0 (fmesh f))%nat || (fnv f =? 1)%nat
                end in
      if negb ok then Err TypeE else
      match bnv (fnv f) (const_nv f c) with
      | None => Err ValueE
      | Some nvr =>
          mk_field (fmesh f) nvr arr (if (fnv f =? nvr)%nat then fvdims f else None)
                   (fvalid f) (Some (if (fnv f =? nvr)%nat then fvmap f else []))
      end
  end.

(* Field(mesh, nvdim=…, value=const) as built by << and angle *)
Definition const_field (f : field) (nv : nat) (c : const) : res field :=
  let N := length (farr f) in
  match c with
  | CNum _ x => if (1 <? nv)%nat then Err ValueE   (* generated numbers are non-zero *)
                else mk_field (fmesh f) nv (repeat [x] N) None (repeat true N) None
  | CVec _ v => if negb (length v =? nv)%nat then Err ValueE
                else mk_field (fmesh f) nv (repeat v N) None (repeat true N) None
  | CArr k cells => if negb (k =? nv)%nat then Err ValueE
                    else mk_field (fmesh f) nv cells None (repeat true N) None
  end.

Definition dot_op (f : field) (other : value) : res field :=
  let N := length (farr f) in
  let arr := map2 (fun u v => [dotv u v]) (farr f) (operand_cells N other) in
  match other with
  | VF o => do _ <- check_same f o false;
            mk_field (fmesh f) 1 arr None (map2 andb (fvalid f) (fvalid o)) None
  | VC (CNum _ _) => Err TypeE
  | VC c => match bnv (fnv f) (const_nv f c) with
            | None => Err ValueE
            | Some _ => mk_field (fmesh f) 1 arr None (fvalid f) None
            end
  end.

Definition cross_op (f : field) (other : value) : res field :=
  let N := length (farr f) in
  let arr := map2 cross3 (farr f) (operand_cells N other) in
  match other with
  | VF o => do _ <- check_same f o false;
            if negb ((fnv f =? 3)%nat && (fnv o =? 3)%nat) then Err ValueE else
            mk_field (fmesh f) 3 arr (fvdims f) (map2 andb (fvalid f) (fvalid o)) None
  | VC (CNum _ _) => Err TypeE
  | VC c => if negb ((fnv f =? 3)%nat && (const_nv f c =? 3)%nat) then Err ValueE else
            mk_field (fmesh f) 3 arr (fvdims f) (fvalid f) None
  end.

Definition angle_op (f : field) (other : value) : res field :=
  let N := length (farr f) in
  let arr := map2 (fun u v => [angle_cell u v]) (farr f) (operand_cells N other) in
  match other with
  | VF o => do _ <- check_same f o false;
            mk_field (fmesh f) 1 arr None (map2 andb (fvalid f) (fvalid o)) None
  | VC c =>
      match c with
      | CNum _ _ => if (fnv f =? 1)%nat then
                      do _ <- const_field f (fnv f) c; mk_field (fmesh f) 1 arr None (fvalid f) None
                    else Err TypeE
      | _ => do _ <- const_field f (fnv f) c; mk_field (fmesh f) 1 arr None (fvalid f) None
      end
  end.

Definition stack_ff (f o : field) : res field :=
  if negb (mesh_eqb (fmesh f) (fmesh o)) then Err ValueE else
  let vd := match fvdims f, fvdims o with
            | Some a, Some b => if nodupb (a ++ b) then Some (a ++ b) else None
            | _, _ => None
            end in
  let vm := vm_update (fvmap f) (fvmap o) in
  let nv := (fnv f + fnv o)%nat in
  mk_field (fmesh f) nv (map2 (@app K) (farr f) (farr o)) vd (map2 andb (fvalid f) (fvalid o))
           (if (length vm =? nv)%nat then Some vm else None).

Definition stack_const (f : field) (c : const) : res field :=
  match c with
  | CNum _ _ => const_field f 1 c
  | CVec _ v => const_field f (length v) c
  | CArr k _ => const_field f k c                 (* nvdim=np.shape(other)[-1] *)
  end.

Definition stack_op (f : field) (other : value) : res field :=
  match other with
  | VF o => stack_ff f o
  | VC c => do cf <- stack_const f c; stack_ff f cf
  end.

(* component access f.<vdims[j]> *)
Definition comp_op (j : nat) (f : field) : res field :=
  match fvdims f with
  | None => Err AttrE
  | Some l =>
      if negb (j <? length l)%nat then Err AttrE else
      let name := nth j l ""%string in
      mk_field (fmesh f) 1 (map (fun v => [nth j v 0]) (farr f)) None (fvalid f)
               (Some (match vm_get name (fvmap f) with Some d => [(name, d)] | None => [] end))
  end.

Definition not_impl {A} (r : res A) : res A := match r with OK a => OK a | Err _ => Err NotImplE end.

(* __array_ufunc__ with one input *)
Definition ufunc1 (g : K -> K) (f : field) : res field :=
  not_impl (mk_field (fmesh f) (fnv f) (map (map g) (farr f)) (fvdims f) (fvalid f) (Some (fvmap f))).

(* __array_ufunc__ with two inputs, [self] = the leftmost Field input: every Field input's mesh
   must be allclose to self.mesh; the result is labelled like the first Field input that has the
   result's component count (else no labels, empty mapping); validity = AND of the Field inputs.
   Arrays of meshes with different n are rejected by the mesh test. *)
Definition ufunc_labels (nvr : nat) (fields : list field) : option (list string) * vmapping :=
  match find (fun x => (fnv x =? nvr)%nat) fields with
  | Some x => (fvdims x, fvmap x)
  | None => (None, [])
  end.
Definition fields_of (a b : value) : list field :=
  (match a with VF x => [x] | VC _ => [] end) ++ (match b with VF x => [x] | VC _ => [] end).
Fixpoint all_close (self : field) (l : list field) : res unit :=
  match l with
  | [] => OK tt
  | x :: t => do c <- mesh_allclose (fmesh self) (fmesh x);
              if negb c then Err ValueE else all_close self t
  end.
Definition ufunc2 (g : K -> K -> K) (self : field) (a b : value) : res field :=
  let N := length (farr self) in
  let nva := match a with VF x => fnv x | VC c => const_nv self c end in
  let nvb := match b with VF x => fnv x | VC c => const_nv self c end in
  let supported := fun v => match v with VC (CVec false _) => false | _ => true end in
  if negb (supported a && supported b) then Err NotImplE else   (* tuples / lists are not ufunc operands *)
  do _ <- all_close self (fields_of a b);
  match bnv nva nvb with
  | None => Err ValueE
  | Some nvr =>
      let lab := ufunc_labels nvr (fields_of a b) in
      not_impl (mk_field (fmesh self) nvr
                         (map2 (bvec g) (operand_cells N a) (operand_cells N b))
                         (fst lab)
                         (map2 andb (operand_valid N a) (operand_valid N b))
                         (Some (snd lab)))
  end.

Definition eval_un (o : unop) (f : field) : res field :=
  match o with
  | Pos => OK f
  | Neg => same_shape fopp f
  | Abs | CAbs => same_shape (un U_ABS) f
  | Real => same_shape (un U_REAL) f
  | Imag => same_shape (un U_IMAG) f
  | Conj => same_shape (un U_CONJ) f
  | Phase => same_shape (un U_PHASE) f
  | Comp j => comp_op j f
  | Uf1 id => ufunc1 (un id) f
  end.

(* field (op) anything *)
Definition eval_bin (o : binop) (f : field) (other : value) : res field :=
  match o with
  | Alg a => apply_op (alg a) f other
  | Dot => dot_op f other
  | Cross => cross_op f other
  | Angle => angle_op f other
  | Stack => stack_op f other
  | Uf2 c => ufunc2 (cf2 c) f (VF f) other
  end.

(* constant (op) field: reflected operators, or the ufunc protocol for numpy operands *)
Definition eval_rbin (o : binop) (c : const) (g : field) : res field :=
  match o with
  | Alg a =>
      if const_np c then ufunc2 (alg a) g (VC c) (VF g) else
      match a with
      | Add => apply_op fadd g (VC c)                                   (* self + other *)
      | Sub => apply_op (fun x y => fsub y x) g (VC c)                  (* lambda x, y: y - x *)
      | Mul => apply_op fmul g (VC c)                                   (* self * other *)
      | Div => apply_op (fun x y => fdiv y x) g (VC c)                  (* lambda x, y: y / x *)
      | Pow => Err TypeE                                                (* no __rpow__ *)
      end
  | Dot => if const_np c then Err NotImplE else dot_op g (VC c)         (* __rmatmul__ = self.dot *)
  | Cross => if const_np c then Err NotImplE else
             do r <- cross_op g (VC c); same_shape fopp r               (* -self.cross(other) *)
  | Angle => Err AttrE
  | Stack => if const_np c then Err NotImplE else
             do cf <- stack_const g c; stack_ff cf g
  | Uf2 cfn => ufunc2 (cf2 cfn) g (VC c) (VF g)
  end.

Fixpoint eval (rho : list field) (e : expr) : res value :=
  match e with
  | Leaf i => match nth_error rho i with Some f => OK (VF f) | None => Err IndexE end
  | Const c => OK (VC c)
  | Un o a => do v <- eval rho a;
              match v with VF f => do r <- eval_un o f; OK (VF r) | VC _ => Err TypeE end
  | Bin o a b =>
      do va <- eval rho a; do vb <- eval rho b;
      match va, vb with
      | VF f, _ => do r <- eval_bin o f vb; OK (VF r)
      | VC c, VF g => do r <- eval_rbin o c g; OK (VF r)
      | VC _, VC _ => Err TypeE
      end
  end.

(* object identity: the only operator that hands an operand back is unary + *)
Fixpoint alias_of (e : expr) : option nat :=
  match e with
  | Leaf i => Some i
  | Un Pos a => alias_of a
  | _ => None
  end.

End Ops.

Arguments CNum {K}. Arguments CVec {K}. Arguments CArr {K}.
Arguments VF {K}. Arguments VC {K}.
Arguments Leaf {K}. Arguments Const {K}. Arguments Un {K}. Arguments Bin {K}.

(* ---------- complex numbers over a field, and the executable instance ---------- *)
Definition CplxOps (K : FOps) : FOps :=
  let cmul := fun a b : K * K =>
    (fsub (fmul (fst a) (fst b)) (fmul (snd a) (snd b)), fadd (fmul (fst a) (snd b)) (fmul (snd a) (fst b))) in
  let cinv := fun a : K * K =>
    let d := fadd (fmul (fst a) (fst a)) (fmul (snd a) (snd a)) in (fdiv (fst a) d, fopp (fdiv (snd a) d)) in
  mkFOps (K * K) (f0 K, f0 K) (f1 K, f0 K)
    (fun a b => (fadd (fst a) (fst b), fadd (snd a) (snd b)))
    cmul
    (fun a b => (fsub (fst a) (fst b), fsub (snd a) (snd b)))
    (fun a b => cmul a (cinv b))
    (fun a => (fopp (fst a), fopp (snd a)))
    cinv.

From Coq Require Import Qcanon.
Definition CQ : FOps := CplxOps QcOps.
Definition cq (re im : Q) : F CQ := (Q2Qc re, Q2Qc im).
Definition cq_dist (a b : F CQ) : Q :=
  Qabs (this (fst a) - this (fst b)) + Qabs (this (snd a) - this (snd b)).
Definition cq_close (tol : Q) (a b : F CQ) : bool := Qle_bool (cq_dist a b) tol.
(* returned when a table has no entry for the argument: never equals a generated value *)
Definition cq_poison : F CQ := cq (10 ^ 40) (10 ^ 40).

(* tables of numpy cell functions supplied with a case: nearest key, accepted within tol *)
Fixpoint nearest1 (id : nat) (x : F CQ) (t : list (nat * F CQ * F CQ)) (best : option (Q * F CQ)) : option (Q * F CQ) :=
  match t with
  | [] => best
  | (i, k, v) :: t' =>
      if (i =? id)%nat then
        let d := cq_dist k x in
        nearest1 id x t' (match best with
                          | Some (d0, _) => if Qle_bool d0 d then best else Some (d, v)
                          | None => Some (d, v) end)
      else nearest1 id x t' best
  end.
Definition lookup1 (tol : Q) (t : list (nat * F CQ * F CQ)) (id : nat) (x : F CQ) : F CQ :=
  match nearest1 id x t None with
  | Some (d, v) => if Qle_bool d tol then v else cq_poison
  | None => cq_poison
  end.
Fixpoint nearest2 (id : nat) (x y : F CQ) (t : list (nat * F CQ * F CQ * F CQ)) (best : option (Q * F CQ)) : option (Q * F CQ) :=
  match t with
  | [] => best
  | (i, k1, k2, v) :: t' =>
      if (i =? id)%nat then
        let d := (cq_dist k1 x + cq_dist k2 y)%Q in
        nearest2 id x y t' (match best with
                            | Some (d0, _) => if Qle_bool d0 d then best else Some (d, v)
                            | None => Some (d, v) end)
      else nearest2 id x y t' best
  end.
Definition lookup2 (tol : Q) (t : list (nat * F CQ * F CQ * F CQ)) (id : nat) (x y : F CQ) : F CQ :=
  match nearest2 id x y t None with
  | Some (d, v) => if Qle_bool d tol then v else cq_poison
  | None => cq_poison
  end.

(* the unary cell functions at CQ: the algebraic ones are computed, the others looked up *)
Definition un_cq (tol : Q) (t : list (nat * F CQ * F CQ)) (id : nat) (x : F CQ) : F CQ :=
  if (id =? U_REAL)%nat then (fst x, Q2Qc 0)
  else if (id =? U_IMAG)%nat then (snd x, Q2Qc 0)
  else if (id =? U_CONJ)%nat then (fst x, Qcopp (snd x))
  else if (id =? U_ABS)%nat && Qeq_bool (this (snd x)) 0 then (Q2Qc (Qabs (this (fst x))), Q2Qc 0)
  else lookup1 tol t id x.

Arguments fmesh {K}. Arguments fnv {K}. Arguments farr {K}. Arguments fvalid {K}.
Arguments fvdims {K}. Arguments fvmap {K}. Arguments alias_of {K}.
