(* Model of discretisedfield/io/ovf.py (_to_ovf, _from_ovf) and of the subregion side-car of
   discretisedfield/io/__init__.py, on an abstract OVF file: version flag, the header fields
   the code writes/reads, representation, check value, payload (list of stored values, file
   order), and whether the bytes after the announced data block are (a prefix of) the
   end-of-data marker.  The byte encoding of the numbers (endianness, IEEE formats, decimal
   text) lives in the harness' independent codec; here the per-representation value maps
   [wr]/[rd] are parameters.  Definitions only. *)
From DF Require Import Prelude Constants_gen Region Mesh.
From Coq Require Import Ascii.
Open Scope Q_scope.
Set Implicit Arguments.

Inductive repr := RTxt | RBin4 | RBin8.

Definition repr_eqb (a b : repr) : bool :=
  match a, b with RTxt, RTxt | RBin4, RBin4 | RBin8, RBin8 => true | _, _ => false end.

(* ---------- data layout ---------- *)
(* position of element (i,j,k,c) of a C-ordered numpy array of shape (nx,ny,nz,nv) *)
Definition cpos (ny nz nv i j k c : nat) : nat := (((i * ny + j) * nz + k) * nv + c)%nat.
(* position of the same element in the OVF data block: x fastest, then y, then z *)
Definition opos (nx ny nv i j k c : nat) : nat := (((k * ny + j) * nx + i) * nv + c)%nat.

Definition tab {A} (n : nat) (g : nat -> list A) : list A := flat_map g (seq 0 n).

Section Layout.
  Variable V : Type.
  Variable d : V.

  (* the components of cell (i,j,k) *)
  Definition comps (ny nz nv : nat) (a : list V) (i j k : nat) : list V :=
    map (fun c => nth (cpos ny nz nv i j k c) a d) (seq 0 nv).

  (* rows in file order: for z, for y, for x *)
  Definition ovf_rows (nx ny nz : nat) (row : nat -> nat -> nat -> list V) : list V :=
    tab nz (fun k => tab ny (fun j => tab nx (fun i => row i j k))).

  (* array.transpose((2,1,0,3)) flattened *)
  Definition to_ovf_order (nx ny nz nv : nat) (a : list V) : list V :=
    ovf_rows nx ny nz (comps ny nz nv a).

  (* payload.reshape((nz,ny,nx,nv)).transpose((2,1,0,3)), flattened in C order *)
  Definition from_ovf_order (nx ny nz nv : nat) (p : list V) : list V :=
    tab nx (fun i => tab ny (fun j => tab nz (fun k =>
      map (fun c => nth (opos nx ny nv i j k c) p d) (seq 0 nv)))).
End Layout.

(* ---------- abstract field and file ---------- *)
Record ofield (V : Type) := mkOF {
  of_mesh : mesh;                      (* region (corners, units) + n + subregions *)
  of_nvdim : nat;
  of_vdims : option (list string);
  of_unit : option string;
  of_vals : list V                     (* C order, shape (nx,ny,nz,nvdim) *)
}.
Arguments mkOF {V}.
Arguments of_mesh {V}. Arguments of_nvdim {V}. Arguments of_vdims {V}.
Arguments of_unit {V}. Arguments of_vals {V}.

Record ovf_file (V : Type) := mkFile {
  f_v2 : bool;                         (* first line contains "2.0" *)
  f_meshunit : string;
  f_base : list Q;                     (* xbase ybase zbase (written, never read) *)
  f_nodes : list Z;
  f_step : list Q;
  f_min : list Q;
  f_max : list Q;
  f_valuedim : option Z;               (* absent in OVF 1.0 *)
  f_labels : option (list string);     (* tokens of valuelabels: {..} groups or non-blank runs *)
  f_units : option (list string);      (* tokens of valueunits *)
  f_rep : repr;
  f_check : option Q;                  (* binary only *)
  f_payload : list V;
  f_cols : nat;                        (* text only: values per data line *)
  f_tail_ok : bool                     (* what follows nodes*valuedim values starts with "# End: Data" *)
}.
Arguments mkFile {V}.
Arguments f_v2 {V}. Arguments f_meshunit {V}. Arguments f_base {V}. Arguments f_nodes {V}.
Arguments f_step {V}. Arguments f_min {V}. Arguments f_max {V}. Arguments f_valuedim {V}.
Arguments f_labels {V}. Arguments f_units {V}. Arguments f_rep {V}. Arguments f_check {V}.
Arguments f_payload {V}. Arguments f_cols {V}. Arguments f_tail_ok {V}.

(* side-car: name -> (pmin, pmax) in insertion order *)
Notation sidecar := (list (string * (list Q * list Q))).

(* the check values are read from io/ovf.py on every run (Constants_gen): the reader's table ... *)
Definition check_value (r : repr) : Q :=
  match r with RBin4 => Constants_gen.ovf_read_check4 | RBin8 => Constants_gen.ovf_read_check8 | RTxt => 0 end.
(* ... and the writer's table; they must agree for a written file to be readable (lemma write_check_agrees) *)
Definition write_check_value (r : repr) : Q :=
  match r with RBin4 => Constants_gen.ovf_write_check4 | RBin8 => Constants_gen.ovf_write_check8 | RTxt => 0 end.

Definition default_tf : Q := Constants_gen.region_tf_default.

(* ---------- strings: label and unit rules ---------- *)
Definition us : ascii := "_"%char.
Definition sp : ascii := " "%char.

Fixpoint has_us (s : string) : bool :=
  match s with EmptyString => false | String c t => Ascii.eqb c us || has_us t end.
Fixpoint after_us (s : string) : string :=
  match s with EmptyString => EmptyString | String c t => if Ascii.eqb c us then t else after_us t end.
Fixpoint sp_to_us (s : string) : string :=
  match s with EmptyString => EmptyString
  | String c t => String (if Ascii.eqb c sp then us else c) (sp_to_us t) end.
Definition lbrace : ascii := "{"%char.
Definition rbrace : ascii := "}"%char.
Fixpoint strip_braces (s : string) : string :=
  match s with EmptyString => EmptyString
  | String c t => if Ascii.eqb c lbrace || Ascii.eqb c rbrace then strip_braces t
                  else String c (strip_braces t) end.

(* convert(): Magnetization_x -> x ; {Total field_x} -> x ; {Total energy density} -> Total_energy_density
   (comp.split("_", 1)[1] if "_" in comp else comp; braces removed; words joined by "_") *)
Definition convert_label (tok : string) : string :=
  sp_to_us (strip_braces (if has_us tok then after_us tok else tok)).

Definition field_label (c : string) : string := String.append "field_" c.

(* guards of the label rule *)
Fixpoint has_sp (s : string) : bool :=
  match s with EmptyString => false | String c t => Ascii.eqb c sp || has_sp t end.
Fixpoint has_brace (s : string) : bool :=
  match s with EmptyString => false
  | String c t => Ascii.eqb c lbrace || Ascii.eqb c rbrace || has_brace t end.
Definition label_ok (c : string) : Prop := has_sp c = false /\ has_brace c = false.

(* str.split(): the maximal runs of non-blank characters (blank = space, \t \n \v \f \r) *)
Definition is_ws (c : ascii) : bool :=
  let k := nat_of_ascii c in (k =? 32)%nat || ((9 <=? k)%nat && (k <=? 13)%nat).
Fixpoint has_ws (s : string) : bool :=
  match s with EmptyString => false | String c t => is_ws c || has_ws t end.
Fixpoint raw_words (s : string) : list string :=
  match s with
  | EmptyString => [EmptyString]
  | String c t =>
      if is_ws c then EmptyString :: raw_words t
      else match raw_words t with w :: l => String c w :: l | [] => [String c EmptyString] end
  end.
Definition words (s : string) : list string :=
  filter (fun w => negb (String.eqb w "")) (raw_words s).

Fixpoint all_eqb (s : string) (l : list string) : bool :=
  match l with [] => true | h :: t => String.eqb s h && all_eqb s t end.
Definition all_same (l : list string) : bool :=
  match l with [] => true | h :: t => all_eqb h t end.

(* Field.vdims setter as reached from _from_ovf *)
Definition field_vdims (nv : nat) (v : option (list string)) : res (option (list string)) :=
  match v with
  | None =>
      if ((2 <=? nv) && (nv <=? 3))%nat then OK (Some (firstn nv ["x"; "y"; "z"]%string))
      else if (3 <? nv)%nat then
        OK (Some (map (fun i => String.append "v" (String (Ascii.ascii_of_nat (48 + i)) EmptyString)) (seq 0 nv)))  (* nv <= 10 *)
      else OK None
  | Some [] => OK None
  | Some l => if negb (length l =? nv)%nat then Err ValueE
              else if negb (nodupb l) then Err ValueE else OK (Some l)
  end.

Definition read_vdims (labels : option (list string)) : option (list string) :=
  match labels with
  | None => None
  | Some toks => let l := map convert_label toks in if nodupb l then Some l else None
  end.

Definition read_unit (units : option (list string)) : option string :=
  match units with
  | None => None
  | Some [] => None
  | Some (h :: t) => if all_eqb h t then (if String.eqb h "None" then None else Some h) else None
  end.

Definition unit_token (u : option string) : string :=
  match u with Some s => if String.eqb s "" then "None"%string else s | None => "None"%string end.

Definition sidecar_of (m : mesh) : sidecar := map (fun sr => (fst sr, (pmin (snd sr), pmax (snd sr)))) (subs m).

(* the side-car on disk after a save: with save_subregions the writer (over)writes it when the field
   has subregions OR a side-car already exists at that name (then possibly with the empty table);
   otherwise the disk is left as it was *)
Definition sidecar_after (before : option sidecar) (save_sub : bool) (sc : sidecar) : option sidecar :=
  if save_sub && (negb (length sc =? 0)%nat || match before with Some _ => true | None => false end)
  then Some sc else before.

Definition dims3 (m : mesh) : option (nat * nat * nat) :=
  match n m with
  | [a; b; c] => Some (Z.to_nat a, Z.to_nat b, Z.to_nat c)
  | _ => None
  end.

Section Codec.
  Variable V : Type.
  Variable d : V.                       (* default of the totalised list access *)
  Variable zero : V.                    (* the 0.0 of extend_scalar *)
  Variable wr rd : repr -> V -> V.      (* value as stored in / as read from the representation *)

  (* one row of the data block *)
  Definition row_of (extend : bool) (ny nz nv : nat) (a : list V) (i j k : nat) : list V :=
    let cs := comps d ny nz nv a i j k in
    if extend then
      match cs with
      | c0 :: rest => c0 :: zero :: zero :: rest   (* np.stack / DataFrame.insert(loc=2,3) *)
      | [] => [zero; zero]
      end
    else cs.

  (* _to_ovf; the side-car is returned next to the file *)
  Definition encode (f : ofield V) (rp : repr) (extend save_sub : bool)
    : res (ovf_file V * option sidecar) :=
    let m := of_mesh f in
    let r := reg m in
    let nv := of_nvdim f in
    if negb (ndim r =? 3)%nat then Err RuntimeE else
    let extend := extend && (nv =? 1)%nat in      (* only scalar fields are extended *)
    let write_dim := if extend then 3%nat else nv in
    do labels <-
      (if (write_dim =? 1)%nat then OK ["field_x"%string]
       else if extend then OK (repeat "field_x"%string write_dim)
       else match of_vdims f with Some l => OK (map field_label l) | None => Err TypeE end);
    if negb (all_same (units r)) then Err ValueE else
    match dims3 m with
    | None => Err ValueE
    | Some (nx, ny, nz) =>
        let payload := ovf_rows nx ny nz (row_of extend ny nz nv (of_vals f)) in
        OK (mkFile true (hd ""%string (units r))
                   (map2 (fun lo c => lo + c / 2) (pmin r) (cell m))
                   (n m) (cell m) (pmin r) (pmax r)
                   (Some (Z.of_nat write_dim)) (Some labels)
                   (Some (flat_map words (repeat (unit_token (of_unit f)) write_dim)))   (* tokens of the joined line *)
                   rp (match rp with RTxt => None | _ => Some (write_check_value rp) end)
                   (map (wr rp) payload)
                   (if extend then 3%nat else nv) true,
            if save_sub && negb (length (subs m) =? 0)%nat then Some (sidecar_of m) else None)
    end.

  (* _from_ovf *)
  Definition decode (fl : ovf_file V) (side : option sidecar) : res (ofield V) :=
    do vd <- (if f_v2 fl then
                match f_valuedim fl with Some z => OK (Z.to_nat z) | None => Err KeyE end
              else OK 3%nat);
    if negb ((length (f_min fl) =? 3) && (length (f_max fl) =? 3) && (length (f_step fl) =? 3)
             && (length (f_nodes fl) =? 3))%nat then Err KeyE else
    do r <- mk_region (f_min fl) (f_max fl) None (Some (repeat (f_meshunit fl) 3)) default_tf;
    do m <- mesh_by_cell r (f_step fl);
    let nodes := Z.to_nat (zprod (f_nodes fl)) in
    let count := (nodes * vd)%nat in
    do data <-
      match f_rep fl with
      | RTxt => OK (firstn (nodes * f_cols fl) (f_payload fl))   (* read_csv(nrows=nodes) *)
      | rp =>
          match f_check fl with
          | None => Err ValueE
          | Some cv =>
              if negb (Qeq_bool cv (check_value rp)) then Err ValueE else
              if (length (f_payload fl) <? count)%nat then Err ValueE else
              if negb (f_tail_ok fl) then Err ValueE else
              OK (firstn count (f_payload fl))
          end
      end;
    match dims3 m with
    | None => Err ValueE
    | Some (nx, ny, nz) =>
        (* reshape((nz, ny, nx, valuedim)) *)
        if negb (length data =? nx * ny * nz * vd)%nat then Err ValueE else
        if (vd =? 0)%nat then Err ValueE else
        do vdims <- field_vdims vd (read_vdims (f_labels fl));
        let m' := match side with
                  | None => m
                  | Some sc => mkMesh (reg m) (n m) (bc m)
                      (map (fun e => (fst e, mkRegion (fst (snd e)) (snd (snd e)) (dims (reg m))
                                                       (units (reg m)) (tf (reg m)))) sc)
                  end in
        OK (mkOF m' vd vdims (read_unit (f_units fl))
                 (map (rd (f_rep fl)) (from_ovf_order d nx ny nz vd data)))
    end.
End Codec.

(* ---------- well-formed fields: what Field/Mesh/Region constructors establish + the guards of C09 ---------- *)
Definition unit_ok (u : option string) : Prop :=
  match u with
  | None => True
  | Some s => s <> ""%string /\ s <> "None"%string /\ has_ws s = false
  end.

Definition wf_ofield {V} (f : ofield V) : Prop :=
  let m := of_mesh f in
  wf_mesh m /\ length (pmin (reg m)) = 3%nat /\ all_same (units (reg m)) = true /\
  (1 <= of_nvdim f)%nat /\
  ((2 <= of_nvdim f)%nat ->
     exists l, of_vdims f = Some l /\ length l = of_nvdim f /\ nodupb l = true /\ Forall label_ok l) /\
  unit_ok (of_unit f) /\
  (exists nx ny nz, dims3 m = Some (nx, ny, nz) /\
     length (of_vals f) = (nx * (ny * (nz * of_nvdim f)))%nat).

(* what extend_scalar makes of the value array of a scalar field *)
Definition extend_vals {V} (zero : V) (a : list V) : list V := flat_map (fun v => [v; zero; zero]) a.

(* ---------- IEEE binary32 rounding on rationals (round to nearest, ties to even) ---------- *)
(* floor(log2 a) for a > 0 *)
Definition Qlog2_floor (a : Q) : Z :=
  let e0 := (Z.log2 (Qnum a) - Z.log2 (Zpos (Qden a)))%Z in
  if Qle_bool (Qpower 2 e0) a then e0 else (e0 - 1)%Z.

Definition b32_inf : Q := Qpower 2 128.   (* stands for +inf in recorded float32 payloads *)

Definition round_bin (prec emin : Z) (x : Q) : Q :=
  if Qeq_bool x 0 then 0 else
  let a := Qabs x in
  let e := Qlog2_floor a in
  let q := Z.max (e - prec + 1) emin in
  let r := inject_Z (Qround_half_even (a / Qpower 2 q)) * Qpower 2 q in
  if Qle_bool 0 x then r else - r.

Definition round32 (x : Q) : Q :=
  let r := round_bin 24 (-149) x in
  if Qle_bool b32_inf r then b32_inf else if Qle_bool r (- b32_inf) then - b32_inf else r.
