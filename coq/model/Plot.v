(* Model of discretisedfield.plotting.mpl_field.MplField (+ plotting/util.py): the DATA handed
   to matplotlib by scalar / contour / vector / lightness / __call__ :
   transposed value arrays with NaN (= None) in hidden cells, extent, cell centres divided by
   the SI multiplier, arrow components chosen through the reversed component->axis mapping or
   the `vdims` argument, colour array, lightness path (hue / lightness normalisation, HLS->RGB,
   alpha), axis labels, refusals.  Definitions only.
   matplotlib's own placement semantics (imshow(origin='lower', extent), quiver on the
   meshgrid of two coordinate vectors) is stated as [displayed_cell] / [arrow_index]: trusted. *)
From DF Require Import Prelude Constants_gen Region Mesh.
Open Scope Q_scope.

(* ------------------------------------------------------------------ SI multipliers *)
(* ubermagutil.units.si_prefixes, largest first (reversed(si_prefixes.items())): m = 10^(3k) *)
Definition si_exps : list Z := [8; 7; 6; 5; 4; 3; 2; 1; 0; -1; -2; -3; -4; -5; -6; -7; -8]%Z.
Definition pow10 (k : Z) : Q :=
  if (0 <=? k)%Z then inject_Z (10 ^ k) else / inject_Z (10 ^ (- k)).
Definition si_mult (k : Z) : Q := pow10 (3 * k).
Definition si_prefix (k : Z) : option string :=
  match k with
  | 8 => Some "Y" | 7 => Some "Z" | 6 => Some "E" | 5 => Some "P" | 4 => Some "T"
  | 3 => Some "G" | 2 => Some "M" | 1 => Some "k" | 0 => Some ""
  | -1 => Some "m" | -2 => Some "u" | -3 => Some "n" | -4 => Some "p" | -5 => Some "f"
  | -6 => Some "a" | -7 => Some "z" | -8 => Some "y" | _ => None
  end%Z%string.

(* si_multiplier(value): the first m (from the largest) with 1 <= |value|/m < 1e3 *)
Definition si_multiplier (v : Q) : option Z :=
  if Qeq_bool v 0 then Some 0%Z
  else find (fun k => Qle_bool (si_mult k) (Qabs v) && Qltb (Qabs v) (1000 * si_mult k)) si_exps.

(* si_max_multiplier(values) = max(map(si_multiplier, values)); None inside max() raises *)
Fixpoint si_max_multiplier (vs : list Q) : res Z :=
  match vs with
  | [] => Err ValueE
  | [v] => match si_multiplier v with Some k => OK k | None => Err TypeE end
  | v :: rest =>
      match si_multiplier v, si_max_multiplier rest with
      | Some k, OK k' => OK (Z.max k k')
      | _, _ => Err TypeE
      end
  end.

Inductive mult_arg := MDefault | MSI (k : Z) | MOther (q : Q).

(* _setup_multiplier + the prefix looked up later by _axis_labels (KeyError if not SI) *)
Definition setup_multiplier (r : region) (a : mult_arg) : res (Q * string) :=
  match a with
  | MDefault => do k <- si_max_multiplier (edges r);
                match si_prefix k with Some p => OK (si_mult k, p) | None => Err KeyE end
  | MSI k => match si_prefix k with Some p => OK (si_mult k, p) | None => Err KeyE end
  | MOther _ => Err KeyE
  end.

(* ------------------------------------------------------------------ the plotted field *)
Record aux := mkAux { an : list nat; avals : list Q }.        (* scalar field, same region, own n *)

Record pfield := mkPF {
  preg : region;
  pn : list nat;
  pnv : nat;
  pvdims : list string;                       (* [] = vdims None *)
  pmap : list (string * option string);       (* vdim_mapping (insertion order) *)
  pvals : list Q;                             (* array, C order of shape n ++ [nvdim] *)
  pvalid : list bool                          (* valid, C order of shape n *)
}.

Definition n0 (f : pfield) : nat := nth 0 (pn f) 0%nat.
Definition n1 (f : pfield) : nat := nth 1 (pn f) 0%nat.
Definition fval (f : pfield) (k i j : nat) : Q := nth ((i * n1 f + j) * pnv f + k) (pvals f) 0.
Definition fvalid (f : pfield) (i j : nat) : bool := nth (i * n1 f + j) (pvalid f) false.
Definition aval (a : aux) (i j : nat) : Q := nth (i * nth 1 (an a) 0%nat + j) (avals a) 0.

(* MplField.__init__ *)
Definition mpl_init (f : pfield) : res unit :=
  if negb (ndim (preg f) =? 2)%nat then Err RuntimeE else OK tt.

(* ------------------------------------------------------------------ array plumbing *)
Section Arrays.
Variable V : Type.

(* numpy.transpose of an (n0, n1) array, as a list of n1 rows of n0 entries *)
Definition transpose_rows (k0 k1 : nat) (a : nat -> nat -> V) : list (list V) :=
  map (fun r => map (fun c => a c r) (iota 0 k0)) (iota 0 k1).

(* values[mask] = nan *)
Definition nan_where (hidden : nat -> nat -> bool) (a : nat -> nat -> V) : nat -> nat -> option V :=
  fun i j => if hidden i j then None else Some (a i j).

(* what quiver does with two coordinate vectors and (n1, n0) arrays: meshgrid, then ravel *)
Definition ravel_rows (rows : list (list V)) : list V := concat rows.
End Arrays.
Arguments transpose_rows {V}.
Arguments nan_where {V}.
Arguments ravel_rows {V}.

(* trusted matplotlib semantics ------------------------------------------------------
   imshow(A, origin='lower', extent=[x0,x1,y0,y1]) paints A[r][c] on
   [x0 + c w, x0 + (c+1) w) x [y0 + r h, y0 + (r+1) h),  w = (x1-x0)/ncols, h = (y1-y0)/nrows *)
Definition displayed_index (x0 x1 : Q) (ncols : nat) (x : Q) : Z :=
  Qfloor ((x - x0) / ((x1 - x0) / inject_Z (Z.of_nat ncols))).
Definition displayed_cell {V} (img : list (list V)) (ext : list Q) (d : V) (x y : Q) : V :=
  let nrows := length img in
  let ncols := length (nth 0 img []) in
  let c := displayed_index (nth 0 ext 0) (nth 1 ext 0) ncols x in
  let r := displayed_index (nth 2 ext 0) (nth 3 ext 0) nrows y in
  nth (Z.to_nat c) (nth (Z.to_nat r) img []) d.
(* quiver(X, Y, U, V) with 1-d X (len k0), Y (len k1) and (k1, k0) arrays: arrow r*k0 + c sits at
   (X[c], Y[r]) and carries U[r][c], V[r][c] *)
Definition arrow_index (k0 r c : nat) : nat := (r * k0 + c)%nat.

(* ------------------------------------------------------------------ nearest-cell resampling *)
(* Field.resample(n) on the same region: new cell i of k_new takes the old cell whose centre is
   nearest to (i + 1/2)/k_new.  A new centre on an old cell face is equidistant from two old
   cells: both are admissible (xarray/pandas 'nearest' decides by rounding). *)
Definition near_cands (k_old k_new i : nat) : list nat :=
  let num := ((2 * i + 1) * k_old)%nat in
  let den := (2 * k_new)%nat in
  let q := (num / den)%nat in
  if ((num mod den) =? 0)%nat then [(q - 1)%nat; q] else [q].
(* representative: the larger index on ties *)
Definition near_idx (k_old k_new i : nat) : nat := (((2 * i + 1) * k_old) / (2 * k_new))%nat.

Definition resample_aux (a : aux) (k0 k1 : nat) : nat -> nat -> Q :=
  fun i j => aval a (near_idx (nth 0 (an a) 0%nat) k0 i) (near_idx (nth 1 (an a) 0%nat) k1 j).
(* every admissible value of the resampled field in cell (i, j) *)
Definition resample_cands (a : aux) (k0 k1 : nat) (i j : nat) : list Q :=
  flat_map (fun i' => map (fun j' => aval a i' j') (near_cands (nth 1 (an a) 0%nat) k1 j))
           (near_cands (nth 0 (an a) 0%nat) k0 i).

(* ------------------------------------------------------------------ filter, extent, labels *)
(* _filter_values: cells where the (resampled) filter field is 0 become NaN.
   filter None -> the field's own validity (as a 0/1 field). NOTE (faithful): an explicit filter
   REPLACES the validity mask. *)
Definition hidden (f : pfield) (flt : option aux) : nat -> nat -> bool :=
  match flt with
  | None => fun i j => negb (fvalid f i j)
  | Some a => fun i j => Qeq_bool (resample_aux a (n0 f) (n1 f) i j) 0
  end.
(* admissible values of "hidden" in one cell *)
Definition hidden_cands (f : pfield) (flt : option aux) (i j : nat) : list bool :=
  match flt with
  | None => [negb (fvalid f i j)]
  | Some a => map (fun v => Qeq_bool v 0) (resample_cands a (n0 f) (n1 f) i j)
  end.
Definition filter_ok (flt : option aux) : res unit :=
  match flt with
  | None => OK tt
  | Some a => if negb (length (an a) =? 2)%nat then Err ValueE else OK tt
  end.

(* _extent: region.scale(1/m, (0,0)) -> Region(p1 = pmin/m, p2 = pmin/m + edges/m) *)
Definition extent (r : region) (m : Q) : list Q :=
  let fct := 1 / m in
  let lo := map (fun p => 0 - (0 - p) * fct) (pmin r) in
  let hi := map2 (fun l e => l + e * fct) lo (edges r) in
  let a := map2 Qmin lo hi in
  let b := map2 Qmax lo hi in
  [nth 0 a 0; nth 0 b 0; nth 1 a 0; nth 1 b 0].

Definition axis_label (d p u : string) : string :=
  (d ++ " (" ++ p ++ u ++ ")")%string.
Definition axis_labels (r : region) (p : string) : string * string :=
  (axis_label (nth 0 (dims r) ""%string) p (nth 0 (units r) ""%string),
   axis_label (nth 1 (dims r) ""%string) p (nth 1 (units r) ""%string)).

(* mesh.cells[a] / multiplier *)
Definition centres (r : region) (k : nat) (a : nat) (m : Q) : list Q :=
  map (fun x => x / m) (cells_axis (nth a (pmin r) 0) (nth a (pmax r) 0) (Z.of_nat k)).

(* ------------------------------------------------------------------ scalar, contour *)
Record image_out := mkImage {
  im_rows : list (list (option Q));
  im_extent : list Q;
  im_x : list Q; im_y : list Q;              (* contour only *)
  im_labels : string * string
}.

Definition scalar_values (f : pfield) (flt : option aux) : list (list (option Q)) :=
  transpose_rows (n0 f) (n1 f) (nan_where (hidden f flt) (fval f 0)).

Definition plot_scalar (f : pfield) (mu : mult_arg) (flt : option aux) : res image_out :=
  do _ <- mpl_init f;
  if (1 <? pnv f)%nat then Err RuntimeE else
  do _ <- filter_ok flt;
  do mp <- setup_multiplier (preg f) mu;
  OK (mkImage (scalar_values f flt) (extent (preg f) (fst mp)) [] [] (axis_labels (preg f) (snd mp))).

Definition plot_contour (f : pfield) (mu : mult_arg) (flt : option aux) : res image_out :=
  do _ <- mpl_init f;
  if negb (pnv f =? 1)%nat then Err RuntimeE else
  do _ <- filter_ok flt;
  do mp <- setup_multiplier (preg f) mu;
  OK (mkImage (scalar_values f flt) []
              (centres (preg f) (n0 f) 0 (fst mp)) (centres (preg f) (n1 f) 1 (fst mp))
              (axis_labels (preg f) (snd mp))).

(* ------------------------------------------------------------------ vector *)
(* _r_dim_mapping[dim]: {val: key for key, val in vdim_mapping.items()}.get(dim): last key wins *)
Fixpoint rev_lookup (d : string) (m : list (string * option string)) : option string :=
  match m with
  | [] => None
  | (k, v) :: t =>
      match rev_lookup d t with
      | Some k' => Some k'
      | None => match v with Some d' => if String.eqb d d' then Some k else None | None => None end
      end
  end.
Definition r_dim (f : pfield) (a : nat) : option string := rev_lookup (nth a (dims (preg f)) ""%string) (pmap f).

(* the two names: from the vdims argument or through the reversed mapping *)
Definition arrow_names (f : pfield) (arg : option (list (option string))) : res (option string * option string) :=
  match arg with
  | None => if (length (pmap f) =? 0)%nat then Err ValueE else OK (r_dim f 0, r_dim f 1)
  | Some l => if negb (length l =? 2)%nat then Err ValueE else OK (nth 0 l None, nth 1 l None)
  end.
(* `self.field.vdims.index(name) if name else None` *)
Definition comp_index (f : pfield) (name : option string) : res (option nat) :=
  match name with
  | None => OK None
  | Some s => if String.eqb s ""%string then OK None else
              match index_of s (pvdims f) with Some k => OK (Some k) | None => Err ValueE end
  end.

Definition name_eqb (a : option string) (s : string) : bool :=
  match a with Some t => String.eqb t s | None => false end.
(* candidates for (set(field.vdims) - set(vdims)).pop() *)
Definition third_names (f : pfield) (nx ny : option string) : list string :=
  filter (fun s => negb (name_eqb nx s) && negb (name_eqb ny s)) (pvdims f).

Record quiver_out := mkQuiver {
  qv_x : list Q; qv_y : list Q;                        (* flattened meshgrid *)
  qv_u : list (option Q); qv_v : list (option Q);      (* None = NaN (arrow not drawn) *)
  qv_ccomp : list nat;                                 (* admissible colour components (automatic colour) *)
  qv_cfield : option aux;                              (* explicit colour field *)
  qv_color : bool;
  qv_labels : string * string
}.

Definition arrow_values (f : pfield) (k : option nat) : list (option Q) :=
  let inv := fun i j => negb (fvalid f i j) in
  ravel_rows (transpose_rows (n0 f) (n1 f)
    (match k with
     | Some k => nan_where inv (fval f k)
     | None => fun _ _ => Some 0            (* np.zeros(n): not NaN even in invalid cells *)
     end)).

Definition plot_vector (f : pfield) (mu : mult_arg) (arg : option (list (option string)))
           (use_color : bool) (cf : option aux) : res quiver_out :=
  do _ <- mpl_init f;
  if match arg with None => (length (pmap f) =? 0)%nat | Some _ => false end then Err ValueE else
  do mp <- setup_multiplier (preg f) mu;
  do names <- arrow_names f arg;
  do ax <- comp_index f (fst names);
  do ay <- comp_index f (snd names);
  match ax, ay with
  | None, None => Err ValueE
  | _, _ =>
      let auto := use_color && match cf with None => true | Some _ => false end in
      let use_color' := if auto && negb (pnv f =? 3)%nat then false else use_color in
      let ccomp := if auto && (pnv f =? 3)%nat
                   then flat_map (fun s => match index_of s (pvdims f) with Some k => [k] | None => [] end)
                                 (third_names f (fst names) (snd names))
                   else [] in
      if use_color' && match cf with Some a => negb (length (an a) =? 2)%nat | None => false end
      then Err ValueE else
      if use_color' && auto && (length ccomp =? 0)%nat then Err KeyE else
      let xs := centres (preg f) (n0 f) 0 (fst mp) in
      let ys := centres (preg f) (n1 f) 1 (fst mp) in
      OK (mkQuiver (ravel_rows (map (fun _ => xs) ys)) (ravel_rows (map (fun y => map (fun _ => y) xs) ys))
                   (arrow_values f ax) (arrow_values f ay)
                   ccomp (if use_color' then cf else None) use_color'
                   (axis_labels (preg f) (snd mp)))
  end.

(* the arrow at cell (i, j) is drawn iff both handed components are numbers *)
Definition arrow_hidden (q : quiver_out) (k : nat) : bool :=
  match nth k (qv_u q) None, nth k (qv_v q) None with Some _, Some _ => false | _, _ => true end.

(* ------------------------------------------------------------------ lightness *)
Section Lightness.
(* library functions: colorsys.hls_to_rgb (given below for the executable instance), and the
   angle / norm tables for vector fields *)
Variable hls_to_rgb : Q -> Q -> Q -> list Q.

(* plot_util.normalise_to_range(values, to_range, from_range=None, int_round=False) *)
Definition qmin_list (l : list Q) : Q := match l with [] => 0 | h :: t => fold_left Qmin t h end.
Definition qmax_list (l : list Q) : Q := match l with [] => 0 | h :: t => fold_left Qmax t h end.
Definition normalise_auto (c0 c1 : Q) (l : list Q) : list Q :=
  let mn := qmin_list l in
  let sh := map (fun v => v - mn) l in
  let mx := qmax_list sh in
  let sc := if Qeq_bool mx 0 then sh else map (fun v => v / mx) sh in
  map (fun v => v * (c1 - c0) + c0) sc.
(* from_range given: (v - a)/(b - a) * (c1 - c0) + c0 *)
Definition normalise_from (a b c0 c1 : Q) (v : Q) : Q := (v - a) / (b - a) * (c1 - c0) + c0.

(* core (scalar field = hue angle): hue (n0,n1) function, lightness values in C order of (n0,n1) *)
Definition lightness_rgba (k0 k1 : nat) (twopi : Q) (hue : nat -> nat -> Q) (light : list Q)
           (clim : Q * Q) (hid : nat -> nat -> bool) : list (list (list Q)) :=
  let ln := normalise_auto (fst clim) (snd clim) light in
  transpose_rows k0 k1 (fun i j =>
    if hid i j then [0; 0; 0; 0]
    else hls_to_rgb (normalise_from 0 twopi 0 1 (hue i j)) (nth (i * k1 + j) ln 0) 1 ++ [1]).
End Lightness.

(* colorsys.hls_to_rgb, literally *)
Definition one_third : Q := 1 # 3.
Definition one_sixth : Q := 1 # 6.
Definition two_third : Q := 2 # 3.
Definition qmod1 (x : Q) : Q := x - inject_Z (Qfloor x).
Definition hls_v (m1 m2 hue : Q) : Q :=
  let h := qmod1 hue in
  if Qltb h one_sixth then m1 + (m2 - m1) * h * 6
  else if Qltb h (1 # 2) then m2
  else if Qltb h two_third then m1 + (m2 - m1) * (two_third - h) * 6
  else m1.
Definition colorsys_hls_to_rgb (h l s : Q) : list Q :=
  if Qeq_bool s 0 then [l; l; l] else
  let m2 := if Qle_bool l (1 # 2) then l * (1 + s) else l + s - l * s in
  let m1 := 2 * l - m2 in
  [hls_v m1 m2 (h + one_third); hls_v m1 m2 h; hls_v m1 m2 (h - one_third)].

Record light_out := mkLight {
  li_rgba : list (list (list Q));
  li_extent : list Q;
  li_labels : string * string
}.

(* tables of library results for vector fields (one entry per cell, C order):
   angle_tab kx ky = arctan2(f_ky, f_kx) (+ 2 pi where negative);  norm_tab = sqrt(sum of squares) *)
Record libtabs := mkTabs {
  twopi : Q;
  angle_tab : list (nat * nat * list Q);
  norm_tab : list Q
}.
Fixpoint find_angle (kx ky : nat) (t : list (nat * nat * list Q)) : option (list Q) :=
  match t with
  | [] => None
  | (a, b, l) :: t' => if (a =? kx)%nat && (b =? ky)%nat then Some l else find_angle kx ky t'
  end.

Definition comp_list (f : pfield) (k : nat) : list Q :=
  flat_map (fun i => map (fun j => fval f k i j) (iota 0 (n1 f))) (iota 0 (n0 f)).

(* admissible lightness sources for a vector field without lightness_field *)
Definition plot_lightness_with (hid : nat -> nat -> bool) (f : pfield) (mu : mult_arg) (flt lf : option aux)
           (clim : option (Q * Q)) (tabs : libtabs) : res (list light_out) :=
  do _ <- mpl_init f;
  if (3 <? pnv f)%nat then Err RuntimeE else
  let cl := match clim with Some c => c | None => (0, 1) end in
  let k0 := n0 f in let k1 := n1 f in
  let lf_light := fun a : aux => flat_map (fun i => map (fun j => resample_aux a k0 k1 i j) (iota 0 k1)) (iota 0 k0) in
  (* hue array and the admissible default-lightness arrays *)
  do hl <-
    (if (pnv f =? 1)%nat then
       OK (fun i j => fval f 0 i j, [map Qabs (comp_list f 0)])
     else
       if (pnv f =? 3)%nat && match lf with None => (length (pmap f) =? 0)%nat | Some _ => false end
       then Err ValueE else
       match r_dim f 0, r_dim f 1 with
       | Some sx, Some sy =>
           match index_of sx (pvdims f), index_of sy (pvdims f) with
           | Some kx, Some ky =>
               match find_angle kx ky (angle_tab tabs) with
               | Some ang =>
                   OK (fun i j => nth (i * k1 + j) ang 0,
                       if (pnv f =? 2)%nat then [norm_tab tabs]
                       else map (comp_list f)
                              (flat_map (fun s => match index_of s (pvdims f) with Some k => [k] | None => [] end)
                                        (third_names f (Some sx) (Some sy))))
               | None => Err ValueE
               end
           | _, _ => Err ValueE
           end
       | _, _ => Err ValueE
       end);
  do _ <- filter_ok flt;
  do _ <- filter_ok lf;
  do mp <- setup_multiplier (preg f) mu;
  let lights := match lf with Some a => [lf_light a] | None => snd hl end in
  if (length lights =? 0)%nat then Err KeyE else
  OK (map (fun light =>
        mkLight (lightness_rgba colorsys_hls_to_rgb k0 k1 (twopi tabs) (fst hl) light cl hid)
                (extent (preg f) (fst mp)) (axis_labels (preg f) (snd mp))) lights).

Definition plot_lightness (f : pfield) (mu : mult_arg) (flt lf : option aux) (clim : option (Q * Q))
           (tabs : libtabs) : res (list light_out) :=
  plot_lightness_with (hidden f flt) f mu flt lf clim tabs.

(* ------------------------------------------------------------------ field.mpl(...) *)
(* __call__: scalar part (component k_s, filter = validity unless given) + vector part without colour *)
Record call_out := mkCall {
  ca_image : option (list nat * (nat -> list (list (option Q))) * list Q);  (* admissible comps, rows, extent *)
  ca_quiver : option quiver_out;
  ca_labels : string * string
}.

Definition scalar_comp_values (f : pfield) (k : nat) (flt : option aux) : list (list (option Q)) :=
  transpose_rows (n0 f) (n1 f) (nan_where (hidden f flt) (fval f k)).

Definition plot_call (f : pfield) (mu : mult_arg) (flt : option aux) : res call_out :=
  do _ <- mpl_init f;
  do mp <- setup_multiplier (preg f) mu;
  let ext := extent (preg f) (fst mp) in
  let lab := axis_labels (preg f) (snd mp) in
  match pnv f with
  | 1%nat => do _ <- filter_ok flt;
             OK (mkCall (Some ([0%nat], fun k => scalar_comp_values f k flt, ext)) None lab)
  | 2%nat => do q <- plot_vector f mu None false None;
             OK (mkCall None (Some q) lab)
  | 3%nat =>
      let names := (r_dim f 0, r_dim f 1) in
      let ks := flat_map (fun s => match index_of s (pvdims f) with Some k => [k] | None => [] end)
                         (third_names f (fst names) (snd names)) in
      if (length ks =? 0)%nat then Err KeyE else
      do _ <- filter_ok flt;
      do q <- plot_vector f mu None false None;
      OK (mkCall (Some (ks, fun k => scalar_comp_values f k flt, ext)) (Some q) lab)
  | _ => Err RuntimeE
  end.
