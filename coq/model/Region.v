(* Model of discretisedfield.Region (region.py): constructor, edges, centre,
   tolerance-aware containment.  Geometry lives in Q.  Definitions only. *)
From DF Require Import Prelude.
Open Scope Q_scope.

Record region := mkRegion {
  pmin : list Q; pmax : list Q;
  dims : list string; units : list string;
  tf : Q                                   (* tolerance_factor *)
}.

Definition default_dims (nd : nat) : list string :=
  match nd with
  | 1%nat => ["x"%string]
  | 2%nat => ["x"%string; "y"%string]
  | 3%nat => ["x"%string; "y"%string; "z"%string]
  | _ => map (fun i => String.append "x" (String (Ascii.ascii_of_nat (48 + i)) EmptyString)) (iota 0 nd)
  end.

Definition edges_of (lo hi : list Q) : list Q := map2 Qminus hi lo.
Definition edges (r : region) : list Q := edges_of (pmin r) (pmax r).
Definition center (r : region) : list Q := map2 (fun a b => (1 # 2) * (a + b)) (pmin r) (pmax r).
Definition ndim (r : region) : nat := length (pmin r).
Definition volume (r : region) : Q := qprod (edges r).

(* Region.__init__ with p1/p2 (any corner order) *)
Definition mk_region (p1 p2 : list Q) (dims_ units_ : option (list string)) (tf_ : Q) : res region :=
  if negb (length p1 =? length p2)%nat then Err ValueE else
  if (length p1 =? 0)%nat then Err ValueE else
  let lo := map2 Qmin p1 p2 in
  let hi := map2 Qmax p1 p2 in
  let nd := length p1 in
  do ds <- match dims_ with
           | None => OK (default_dims nd)
           | Some ds => if negb (length ds =? nd)%nat then Err ValueE
                        else if negb (nodupb ds) then Err ValueE else OK ds
           end;
  do us <- match units_ with
           | None => OK (repeat "m"%string nd)
           | Some us => if negb (length us =? nd)%nat then Err ValueE else OK us
           end;
  if existsb (fun e => Qeq_bool e 0) (edges_of lo hi) then Err ValueE
  else OK (mkRegion lo hi ds us tf_).

(* Region(pmin=…, pmax=…): strict order test first *)
Definition mk_region_minmax (lo hi : list Q) (dims_ units_ : option (list string)) (tf_ : Q) : res region :=
  if negb (forallb2 Qltb lo hi) && (length lo =? length hi)%nat then Err ValueE
  else mk_region lo hi dims_ units_ tf_.

Definition reg_atol (r : region) : Q := qlist_min (edges r) * tf r.

(* one coordinate of  `point in region` *)
Definition contains1 (rtol atol lo hi p : Q) : bool :=
  (Qle_bool lo p || isclose rtol atol lo p) && (Qle_bool p hi || isclose rtol atol hi p).

Definition contains_pt (r : region) (p : list Q) : bool :=
  (length p =? ndim r)%nat &&
  forallb (fun b => b) (map3 (contains1 (tf r) (reg_atol r)) (pmin r) (pmax r) p).

Definition contains_region (r s : region) : bool :=
  contains_pt r (pmin s) && contains_pt r (pmax s).

Definition region_eqb (r s : region) : bool :=
  qlist_eqb (pmin r) (pmin s) && qlist_eqb (pmax r) (pmax s) &&
  strlist_eqb (dims r) (dims s) && strlist_eqb (units r) (units s).

(* well-formedness = what the constructor establishes *)
Definition wf_region (r : region) : Prop :=
  length (pmin r) = length (pmax r) /\ (0 < length (pmin r))%nat /\
  length (dims r) = length (pmin r) /\ length (units r) = length (pmin r) /\
  NoDup (dims r) /\
  Forall2 (fun a b => a < b) (pmin r) (pmax r) /\ 0 <= tf r.
