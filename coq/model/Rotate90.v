(* Model of the quarter-turn rotations (C12):
     Region.rotate90  (region.py)  - corner rotation about the reference, min/max, unit swap for odd k
     Mesh.rotate90    (mesh.py)    - cell-count swap for odd k, subregions about the same reference
     Field.rotate90   (field.py)   - numpy.rot90 on data and validity (an index map built from flip and
                                      transpose exactly as numpy builds it), 2x2 rotation of the two
                                      components that the reversed vdim_mapping assigns to the two axes
   Region.rotate90 evaluates cos/sin(k*pi/2) in floating point; the model uses the exact
   quarter turn (c,s) selected by k mod 4 (the residue, <= (1+|k|)*2e-16 relative, is what the
   correspondence tolerance absorbs).  Field.rotate90 selects the exact (cos, sin) pair by k % 4,
   so the component rotation is exact in the implementation as well.  Copying and in-place forms are separate code paths and are
   modelled separately ([inplace] flag).  Definitions only. *)
From DF Require Import Prelude FieldK NDArray Region Mesh.
Open Scope Q_scope.

(* ---------- the exact quarter turn ---------- *)
(* (cos, sin)(k*pi/2) as integers *)
Definition zturn (k : Z) : Z * Z :=
  match (k mod 4)%Z with
  | 0%Z => (1, 0)%Z
  | 1%Z => (0, 1)%Z
  | 2%Z => (-1, 0)%Z
  | _ => (0, -1)%Z
  end.

Definition qturn (k : Z) : Q * Q := (inject_Z (fst (zturn k)), inject_Z (snd (zturn k))).

Definition kofz (K : FOps) (z : Z) : K :=
  match z with
  | Z0 => f0 K
  | Zpos _ => f1 K
  | Zneg _ => fopp (f1 K)
  end.
Definition kturn (K : FOps) (k : Z) : K * K := (kofz K (fst (zturn k)), kofz K (snd (zturn k))).

(* ---------- list helpers ---------- *)
(* l[i], l[j] = l[j], l[i] *)
Definition swap_nth {A} (d : A) (i j : nat) (l : list A) : list A :=
  set_nth j (nth i l d) (set_nth i (nth j l d) l).

Definition dim2index (r : region) (a : string) : res nat :=
  match index_of a (dims r) with Some i => OK i | None => Err ValueE end.

(* ---------- Region.rotate90 ---------- *)
(* p[i1], p[i2] = R[i1] + (c*x - s*y), R[i2] + (s*x + c*y)   with (x,y) = (p[i1]-R[i1], p[i2]-R[i2]) *)
Definition rot_pt (c s : Q) (i1 i2 : nat) (R p : list Q) : list Q :=
  let x := nth i1 p 0 - nth i1 R 0 in
  let y := nth i2 p 0 - nth i2 R 0 in
  set_nth i2 (nth i2 R 0 + (s * x + c * y)) (set_nth i1 (nth i1 R 0 + (c * x - s * y)) p).

Definition rot_reference (r : region) (ref : option (list Q)) : res (list Q) :=
  match ref with
  | None => OK (center r)
  | Some p => if (length p =? ndim r)%nat then OK p else Err ValueE
  end.

Definition rot_units (k : Z) (i1 i2 : nat) (us : list string) : list string :=
  if Z.odd k then swap_nth ""%string i1 i2 us else us.

Definition region_rotate90 (inplace : bool) (r : region) (a b : string) (k : Z)
           (ref : option (list Q)) : res region :=
  if String.eqb a b then Err ValueE else
  do R <- rot_reference r ref;
  do i1 <- dim2index r a;
  do i2 <- dim2index r b;
  let c := fst (qturn k) in
  let s := snd (qturn k) in
  let p1 := rot_pt c s i1 i2 R (pmin r) in
  let p2 := rot_pt c s i1 i2 R (pmax r) in
  let us := rot_units k i1 i2 (units r) in
  if inplace
  then (* in place: zero-edge test on p2 - p1, then min/max, units assigned *)
       if existsb (fun e => Qeq_bool e 0) (edges_of p1 p2) then Err ValueE
       else OK (mkRegion (map2 Qmin p1 p2) (map2 Qmax p1 p2) (dims r) us (tf r))
  else mk_region p1 p2 (Some (dims r)) (Some us) (tf r).

(* ---------- Mesh.rotate90 ---------- *)
Fixpoint mapM {A B} (f : A -> res B) (l : list A) : res (list B) :=
  match l with
  | [] => OK []
  | x :: t => do y <- f x; do t' <- mapM f t; OK (y :: t')
  end.

Definition rot_n (k : Z) (i1 i2 : nat) (ns : list Z) : list Z :=
  if Z.odd k then swap_nth 0%Z i1 i2 ns else ns.

(* periodicity turns with the cells: for odd k the letters of bc naming the two in-plane axes are
   exchanged  ("".join({ax1: ax2, ax2: ax1}.get(char, char) for char in bc));  'neumann' and
   'dirichlet' name no axis and are kept *)
Fixpoint bc_swap (a b : string) (s : string) : string :=
  match s with
  | EmptyString => EmptyString
  | String ch t =>
      let c := String ch EmptyString in
      append (if String.eqb c a then b else if String.eqb c b then a else c) (bc_swap a b t)
  end.

Definition bc_keyword (s : string) : bool := String.eqb s "neumann" || String.eqb s "dirichlet".

Definition rot_bc (k : Z) (a b : string) (s : string) : string :=
  if Z.odd k then (if bc_keyword s then s else bc_swap a b s) else s.

(* The copying form re-enters Mesh(region=, n=, bc=, subregions=); its subregion validation
   (C14) accepts the rotated subregions of valid subregions and is not repeated here. *)
Definition mesh_rotate90 (inplace : bool) (m : mesh) (a b : string) (k : Z)
           (ref : option (list Q)) : res mesh :=
  do r' <- region_rotate90 inplace (reg m) a b k ref;
  do i1 <- dim2index (reg m) a;
  do i2 <- dim2index (reg m) b;
  (* reference_point None: region and subregions turn about the centre of the mesh as it is
     before the turn, in both forms *)
  let R := match ref with
           | Some p => p
           | None => center (reg m)
           end in
  do subs' <- mapM (fun ns => do s' <- region_rotate90 inplace (snd ns) a b k (Some R);
                              OK (fst ns, s')) (subs m);
  OK (mkMesh r' (rot_n k i1 i2 (n m)) (rot_bc k a b (bc m)) subs').

(* ---------- numpy.rot90 as an index map ---------- *)
Definition flip_ax {V} (sh : list nat) (ax : nat) (f : idx -> V) : idx -> V :=
  fun i => f (set_nth ax (nth ax sh 0 - 1 - nth ax i 0)%nat i).
(* numpy.transpose with the permutation that exchanges axes a and b *)
Definition swap_ax {V} (a b : nat) (f : idx -> V) : idx -> V :=
  fun i => f (swap_nth 0%nat a b i).

Definition rot90_shape (sh : list nat) (a b : nat) (k : Z) : list nat :=
  if Z.odd k then swap_nth 0%nat a b sh else sh.

(* numpy/lib/function_base.py rot90(m, k, axes=(a, b)):
     k %= 4
     k == 0: m
     k == 2: flip(flip(m, a), b)
     k == 1: transpose(flip(m, b), axes_list)
     k == 3: flip(transpose(m, axes_list), b)          *)
Definition rot90 {V} (sh : list nat) (a b : nat) (k : Z) (f : idx -> V) : idx -> V :=
  match (k mod 4)%Z with
  | 0%Z => f
  | 1%Z => swap_ax a b (flip_ax sh b f)
  | 2%Z => flip_ax sh b (flip_ax sh a f)
  | _ => flip_ax (swap_nth 0%nat a b sh) b (swap_ax a b f)
  end.

(* ---------- Field.rotate90 ---------- *)
Record field (K : FOps) := mkField {
  fmesh : mesh;
  nvdim : nat;
  fval : idx -> K;                    (* index = cell index ++ [component] *)
  fvalid : idx -> bool;
  vdims : list string;                (* [] = None (scalar field without labels) *)
  vmap : list (string * string)       (* vdim_mapping in dictionary order, entries with a dim *)
}.
Arguments mkField {K}. Arguments fmesh {K}. Arguments nvdim {K}. Arguments fval {K}.
Arguments fvalid {K}. Arguments vdims {K}. Arguments vmap {K}.

(* {val: key for key, val in vdim_mapping.items()}.get(dim): the last key wins *)
Fixpoint rlookup (dim : string) (vm : list (string * string)) : option string :=
  match vm with
  | [] => None
  | (key, val) :: t =>
      match rlookup dim t with
      | Some v => Some v
      | None => if String.eqb val dim then Some key else None
      end
  end.

(* self.vdims.index(self._r_dim_mapping[ax]); ValueError -> RuntimeError *)
Definition comp_of (vds : list string) (vm : list (string * string)) (ax : string) : res nat :=
  match rlookup ax vm with
  | None => Err RuntimeE
  | Some v => match index_of v vds with Some i => OK i | None => Err RuntimeE end
  end.

(* value[..., v1] = c*value1 - s*value2 ; value[..., v2] = s*value1 + c*value2
   (value1, value2 copied before; the second assignment is made last) *)
Definition rot_comp (K : FOps) (c s : K) (v1 v2 : nat) (f : idx -> K) : idx -> K :=
  fun i =>
    let comp := last i 0%nat in
    let base := removelast i in
    if (comp =? v2)%nat then fadd (fmul s (f (base ++ [v1]))) (fmul c (f (base ++ [v2])))
    else if (comp =? v1)%nat then fsub (fmul c (f (base ++ [v1]))) (fmul s (f (base ++ [v2])))
    else f i.

Definition fshape {K} (f : field K) : list nat := znat (n (fmesh f)).

Definition field_rotate90 (K : FOps) (inplace : bool) (f : field K) (a b : string) (k : Z)
           (ref : option (list Q)) : res (field K) :=
  do i1 <- dim2index (reg (fmesh f)) a;
  do i2 <- dim2index (reg (fmesh f)) b;
  (* the mapped components are looked up before anything is modified *)
  do vv <- (if (1 <? nvdim f)%nat
            then do v1 <- comp_of (vdims f) (vmap f) a;
                 do v2 <- comp_of (vdims f) (vmap f) b;
                 OK (Some (v1, v2))
            else OK None);
  do m' <- mesh_rotate90 inplace (fmesh f) a b k ref;
  let sh := fshape f in
  let val := rot90 (sh ++ [nvdim f]) i1 i2 k (fval f) in
  let vld := rot90 sh i1 i2 k (fvalid f) in
  let val' := match vv with
              | Some (v1, v2) => rot_comp K (fst (kturn K k)) (snd (kturn K k)) v1 v2 val
              | None => val
              end in
  OK (mkField m' (nvdim f) val' vld (vdims f) (vmap f)).
