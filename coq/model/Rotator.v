(* Model of discretisedfield/field_rotator.py (FieldRotator) over Q.  Definitions only.

   Library code that is NOT modelled algebraically and enters as data / Section variables:
   - scipy.spatial.transform.Rotation.<method>(args).as_matrix(): every rotation step arrives
     as a 3x3 rational matrix supplied by the harness; Rotation.inv() is the transposed matrix;
   - the cube root in _calculate_new_n: the default resolution is a Section variable
     [choose_n]; the relation it has to satisfy is [n_adm] (decidable over Q);
   - scipy.interpolate.RegularGridInterpolator(method="linear", fill_value=0,
     bounds_error=False) is modelled: interval search, tensor-product linear formula,
     closed bounding box test. *)
From DF Require Import Prelude.
Open Scope Q_scope.

(* ---------- 3-vectors, 3x3 matrices ---------- *)
Record vec3 := V3 { vx : Q; vy : Q; vz : Q }.
Record mat3 := M3 { r0 : vec3; r1 : vec3; r2 : vec3 }.          (* rows *)
Record n3 := N3 { n0 : nat; n1 : nat; n2 : nat }.

(* value array: cell index i j k, component c *)
Notation arr := (nat -> nat -> nat -> nat -> Q).

Definition vnth (v : vec3) (d : nat) : Q :=
  match d with 0%nat => vx v | 1%nat => vy v | _ => vz v end.
Definition nnth (n : n3) (d : nat) : nat :=
  match d with 0%nat => n0 n | 1%nat => n1 n | _ => n2 n end.
Definition mrow (M : mat3) (d : nat) : vec3 :=
  match d with 0%nat => r0 M | 1%nat => r1 M | _ => r2 M end.

Definition vmap2 (f : Q -> Q -> Q) (a b : vec3) : vec3 :=
  V3 (f (vx a) (vx b)) (f (vy a) (vy b)) (f (vz a) (vz b)).
Definition vadd := vmap2 Qplus.
Definition vsub := vmap2 Qminus.
Definition vscale (s : Q) (v : vec3) : vec3 := V3 (s * vx v) (s * vy v) (s * vz v).
Definition vred (v : vec3) : vec3 := V3 (Qred (vx v)) (Qred (vy v)) (Qred (vz v)).

Definition veq (a b : vec3) : Prop := vx a == vx b /\ vy a == vy b /\ vz a == vz b.

(* [rnd] is a representation hook applied after the arithmetic steps of the code (each of which
   rounds in binary64).  Every theorem is stated for a hook with [forall x, rnd x == x] (identity,
   Qred); the correspondence checker evaluates the model with [rnd_bits 44] (44 significant
   bits, relative error < 2^-42 per step, three to four orders of magnitude below the comparison tolerance) because vm_compute has no fast arithmetic on the 1000-bit rationals that the exact
   evaluation of a four-step history produces. *)
Definition rnd_bits (K : Z) (x : Q) : Q :=
  let n := Qnum x in
  let d := Zpos (Qden x) in
  if (n =? 0)%Z then 0 else
  (* keep K+16 leading bits of numerator and denominator, then a K-bit quotient *)
  let sn := Z.max 0 (Z.log2 (Z.abs n) - (K + 16)) in
  let sd := Z.max 0 (Z.log2 d - (K + 16)) in
  let n1 := Z.shiftr n sn in
  let d1 := Z.shiftr d sd in
  let s := (K - (Z.log2 (Z.abs n1) - Z.log2 d1))%Z in
  let q := if (0 <=? s)%Z then Z.div (Z.shiftl n1 s) d1 else Z.div n1 (Z.shiftl d1 (- s)) in
  let e := (sn - sd - s)%Z in                      (* x ~ q * 2^e *)
  if (0 <=? e)%Z then inject_Z (Z.shiftl q e) else Qmake q (Z.to_pos (Z.shiftl 1 (- e))).

Section Rnd.
Variable rnd : Q -> Q.

Definition dot (a b : vec3) : Q := rnd (vx a * vx b + vy a * vy b + vz a * vz b).
Definition mapply (M : mat3) (v : vec3) : vec3 := V3 (dot (r0 M) v) (dot (r1 M) v) (dot (r2 M) v).
Definition mcol (M : mat3) (d : nat) : vec3 := V3 (vnth (r0 M) d) (vnth (r1 M) d) (vnth (r2 M) d).
Definition mtrans (M : mat3) : mat3 := M3 (mcol M 0) (mcol M 1) (mcol M 2).
(* (A*B) row i = (B^T) applied to row i of A *)
Definition mmul (A B : mat3) : mat3 :=
  let Bt := mtrans B in M3 (mapply Bt (r0 A)) (mapply Bt (r1 A)) (mapply Bt (r2 A)).
Definition mid : mat3 := M3 (V3 1 0 0) (V3 0 1 0) (V3 0 0 1).

Definition meq (A B : mat3) : Prop := veq (r0 A) (r0 B) /\ veq (r1 A) (r1 B) /\ veq (r2 A) (r2 B).

(* ---------- fields on a 3-d mesh ---------- *)
Record fld := Fld { f_pmin : vec3; f_pmax : vec3; f_n : n3; f_val : arr }.

Definition qnat (k : nat) : Q := inject_Z (Z.of_nat k).
Definition centre (f : fld) : vec3 := vscale (1 # 2) (vadd (f_pmin f) (f_pmax f)).
Definition edges (f : fld) : vec3 := vsub (f_pmax f) (f_pmin f).
Definition cell_of3 (lo hi : vec3) (n : n3) : vec3 :=
  V3 ((vx hi - vx lo) / qnat (n0 n)) ((vy hi - vy lo) / qnat (n1 n)) ((vz hi - vz lo) / qnat (n2 n)).
Definition cellv (f : fld) : vec3 := cell_of3 (f_pmin f) (f_pmax f) (f_n f).

(* ---------- constructor checks (field_rotator.py:63-94) and the mapping ---------- *)
(* mapping: for each component, Some axis (index into region.dims) or None (component absent
   from vdim_mapping, or mapped to something that is not a dimension of the region) *)
Definition ctor_ok (nvdim ndim : nat) (mapping : list (option nat)) : bool :=
  ((nvdim =? 1)%nat || (nvdim =? 3)%nat) && (ndim =? 3)%nat &&
  ((nvdim =? 1)%nat || forallb (fun m => match m with Some _ => true | None => false end) mapping).

Fixpoint find_comp (axis : nat) (mapping : list (option nat)) : option nat :=
  match mapping with
  | [] => None
  | Some a :: t => if (a =? axis)%nat then Some 0%nat else option_map S (find_comp axis t)
  | None :: t => option_map S (find_comp axis t)
  end.
(* ordered_idx of rotate(): component mapped to axis d; rotate() raises when an axis carries no
   component *)
Definition ordered_idx (mapping : list (option nat)) : option (list nat) :=
  match find_comp 0 mapping, find_comp 1 mapping, find_comp 2 mapping with
  | Some a, Some b, Some c => Some [a; b; c]
  | _, _, _ => None
  end.
Definition rotator_accepts (nvdim ndim : nat) (mapping : list (option nat)) : bool :=
  ctor_ok nvdim ndim mapping &&
  ((nvdim =? 1)%nat || match ordered_idx mapping with Some _ => true | None => false end).

(* ---------- bounding box (field_rotator.py:312-319) ---------- *)
Definition absdot (r e : vec3) : Q := rnd (Qabs (vx r) * vx e + Qabs (vy r) * vy e + Qabs (vz r) * vz e).
Definition mabs_apply (M : mat3) (e : vec3) : vec3 := V3 (absdot (r0 M) e) (absdot (r1 M) e) (absdot (r2 M) e).
Definition new_half (R : mat3) (f : fld) : vec3 := vscale (1 # 2) (mabs_apply R (edges f)).
Definition vrnd (v : vec3) : vec3 := V3 (rnd (vx v)) (rnd (vy v)) (rnd (vz v)).
Definition new_pmin (R : mat3) (f : fld) : vec3 := vrnd (vsub (centre f) (new_half R f)).
Definition new_pmax (R : mat3) (f : fld) : vec3 := vrnd (vadd (centre f) (new_half R f)).

(* ---------- default resolution (field_rotator.py:299-310) ---------- *)
(* n_i = round(E_i / (L_i * a)),  L = |R| cell,  a = (dV / (L_x L_y L_z))^(1/3).  The cube root is
   not rational: [n_adm1 slack] states  n - 1/2 - slack <= E/(L a) <= n + 1/2 + slack  through cubes *)
Definition cube (x : Q) : Q := x * x * x.
Definition vprod (v : vec3) : Q := vx v * vy v * vz v.
Definition n_adm1 (slack dV vol E L : Q) (n : nat) : bool :=
  let lo := qnat n - (1 # 2) - slack in
  let hi := qnat n + (1 # 2) + slack in
  (1 <=? n)%nat &&
  Qle_bool (cube (lo * L) * dV) (cube E * vol) && Qle_bool (cube E * vol) (cube (hi * L) * dV).
Definition n_adm (slack : Q) (R : mat3) (f : fld) (n : n3) : bool :=
  let L := mabs_apply R (cellv f) in
  let E := vscale 2 (new_half R f) in
  let dV := vprod (cellv f) in
  let vol := vprod L in
  n_adm1 slack dV vol (vx E) (vx L) (n0 n) && n_adm1 slack dV vol (vy E) (vy L) (n1 n) &&
  n_adm1 slack dV vol (vz E) (vz L) (n2 n).

(* ---------- rotation of the vector values (field_rotator.py:185-200) ---------- *)
Fixpoint pos_in (c : nat) (perm : list nat) : nat :=
  match perm with [] => 0%nat | h :: t => if (h =? c)%nat then 0%nat else S (pos_in c t) end.
(* perm = ordered_idx; array[..., perm] -> R.apply -> [..., argsort perm] *)
Definition rot_comp (R : mat3) (perm : list nat) (v : nat -> Q) (c : nat) : Q :=
  vnth (mapply R (V3 (v (nth 0 perm 0%nat)) (v (nth 1 perm 0%nat)) (v (nth 2 perm 0%nat)))) (pos_in c perm).
Definition rot_arr (nv : nat) (R : mat3) (perm : list nat) (a : arr) : arr :=
  fun i j k c => if (nv =? 1)%nat then a i j k c else rot_comp R perm (a i j k) c.

(* numpy arrays are materialised: tabulate once, read back by index *)
Definition memo4 (n : n3) (nv : nat) (a : arr) : arr :=
  let T := map (fun i => map (fun j => map (fun k => map (fun c => a i j k c) (iota 0 nv))
                                          (iota 0 (n2 n))) (iota 0 (n1 n))) (iota 0 (n0 n)) in
  fun i j k c => nth c (nth k (nth j (nth i T []) []) []) 0.

(* ---------- RegularGridInterpolator, linear, fill 0 (field_rotator.py:271-297) ---------- *)
Definition rgi_tol : Q := 1 # 1000000000.
(* coordinates relative to the region centre: [lo - c*tol, centres..., hi + c*tol] - ctr *)
Definition grid1 (lo hi ctr : Q) (n : nat) : list Q :=
  let c := (hi - lo) / qnat n in
  rnd (lo - c * rgi_tol - ctr)
    :: map (fun k => rnd (lo + c / 2 + qnat k * c - ctr)) (iota 0 n)
    ++ [rnd (hi + c * rgi_tol - ctr)].

(* number of leading grid entries strictly below x (= searchsorted on an ascending grid) *)
Fixpoint count_lt (x : Q) (g : list Q) : nat :=
  match g with [] => 0%nat | a :: t => if Qltb a x then S (count_lt x t) else 0%nat end.
(* interval index clamped to [0, len-2] and normalised distance *)
Definition locate (g : list Q) (x : Q) : nat * Q :=
  let i := Nat.min (count_lt x g - 1) (length g - 2) in
  let a := nth i g 0 in let b := nth (S i) g 0 in
  (i, rnd ((x - a) / (b - a))).
Definition inb1 (g : list Q) (x : Q) : bool := Qle_bool (hd 0 g) x && Qle_bool x (last g 0).

Definition lerp (t a b : Q) : Q := rnd ((1 - t) * a + t * b).
Definition interp3 (W : nat -> nat -> nat -> Q) (lx ly lz : nat * Q) : Q :=
  let '(i, tx) := lx in let '(j, ty) := ly in let '(k, tz) := lz in
  lerp tx (lerp ty (lerp tz (W i j k) (W i j (S k))) (lerp tz (W i (S j) k) (W i (S j) (S k))))
          (lerp ty (lerp tz (W (S i) j k) (W (S i) j (S k))) (lerp tz (W (S i) (S j) k) (W (S i) (S j) (S k)))).

(* np.pad(mode="edge") by one cell on each side, as an index map *)
Definition pad1 (n k : nat) : nat := Nat.min (k - 1) (n - 1).
Definition padded (n : n3) (v : nat -> nat -> nat -> Q) : nat -> nat -> nat -> Q :=
  fun i j k => v (pad1 (n0 n) i) (pad1 (n1 n) j) (pad1 (n2 n) k).

(* interpolant of every component (c) at a point given relative to the centre; the interval
   search is shared by the components *)
Definition interp_at (gx gy gz : list Q) (n : n3) (ra : arr) (p : vec3) : nat -> Q :=
  if inb1 gx (vx p) && inb1 gy (vy p) && inb1 gz (vz p)
  then let lx := locate gx (vx p) in let ly := locate gy (vy p) in let lz := locate gz (vz p) in
       fun c => interp3 (padded n (fun a b d => ra a b d c)) lx ly lz
  else fun _ => 0.

(* ---------- the rotated field (field_rotator.py:178-211, 255-269) ---------- *)
Definition cpt (lo hi : Q) (n i : nat) : Q := lo + (qnat i + (1 # 2)) * ((hi - lo) / qnat n).

(* back-rotated centre of target cell (i,j,k), relative to the centre of the original region *)
Definition back_pos_at (lo' hi' ctr : vec3) (Rt : mat3) (n' : n3) (i j k : nat) : vec3 :=
  let y := V3 (cpt (vx lo') (vx hi') (n0 n') i) (cpt (vy lo') (vy hi') (n1 n') j)
              (cpt (vz lo') (vz hi') (n2 n') k) in
  mapply Rt (vrnd (vsub y ctr)).
Definition back_pos (orig : fld) (R : mat3) (n' : n3) (i j k : nat) : vec3 :=
  back_pos_at (new_pmin R orig) (new_pmax R orig) (centre orig) (mtrans R) n' i j k.

Definition grids (orig : fld) : list Q * list Q * list Q :=
  let c := centre orig in
  (grid1 (vx (f_pmin orig)) (vx (f_pmax orig)) (vx c) (n0 (f_n orig)),
   grid1 (vy (f_pmin orig)) (vy (f_pmax orig)) (vy c) (n1 (f_n orig)),
   grid1 (vz (f_pmin orig)) (vz (f_pmax orig)) (vz c) (n2 (f_n orig))).

Definition rotated_val (nv : nat) (perm : list nat) (orig : fld) (R : mat3) (n' : n3) : arr :=
  fun i j k =>
    let g := grids orig in
    interp_at (fst (fst g)) (snd (fst g)) (snd g) (f_n orig)
              (memo4 (f_n orig) nv (rot_arr nv R perm (f_val orig))) (back_pos orig R n' i j k).

(* the same function with everything that does not depend on the target cell computed once
   (convertible with rotated_val: lemma rotated_val_fast_eq, by reflexivity); used by the checker *)
Definition rotated_val_fast (nv : nat) (perm : list nat) (orig : fld) (R : mat3) (n' : n3) : arr :=
  let g := grids orig in
  let gx := fst (fst g) in let gy := snd (fst g) in let gz := snd g in
  let ra := memo4 (f_n orig) nv (rot_arr nv R perm (f_val orig)) in
  let lo' := new_pmin R orig in let hi' := new_pmax R orig in
  let ctr := centre orig in let Rt := mtrans R in
  fun i j k => interp_at gx gy gz (f_n orig) ra (back_pos_at lo' hi' ctr Rt n' i j k).

Definition rotated_field (nv : nat) (perm : list nat) (orig : fld) (R : mat3) (n' : n3) : fld :=
  Fld (new_pmin R orig) (new_pmax R orig) n' (rotated_val nv perm orig R n').

(* ---------- state machine (rotate / clear_rotation) ---------- *)
(* ORefused: a rotate() call whose arguments do not form a rotation request at all (unknown method,
   malformed rotation arguments, n of the wrong length / negative / non-integral): it raises.  A request
   with an explicit n containing a zero is refused as well (Mesh rejects it).  A refused call leaves the
   rotator unchanged (field_rotator.py: the composed rotation is restored before re-raising). *)
Inductive op := ORot (M : mat3) (n_explicit : option n3) | OClear | ORefused.
Record state := St { st_rot : mat3; st_field : fld }.

Definition n3_pos (n : n3) : bool := (1 <=? n0 n)%nat && (1 <=? n1 n)%nat && (1 <=? n2 n)%nat.
Definition op_accepted (o : op) : bool :=
  match o with
  | ORot _ (Some n) => n3_pos n
  | ORot _ None => true
  | OClear => true
  | ORefused => false
  end.

Section Machine.
  Variable nv : nat.
  Variable perm : list nat.
  Variable orig : fld.
  (* default resolution: np.round(edges / (L * cbrt-adjust)); see n_adm *)
  Variable choose_n : mat3 -> n3.

  Definition init : state := St mid orig.
  Definition step (s : state) (o : op) : state :=
    if op_accepted o then
      match o with
      | ORot M nopt =>
          let R := mmul M (st_rot s) in        (* multiplication from the left *)
          St R (rotated_field nv perm orig R (match nopt with Some n => n | None => choose_n R end))
      | OClear => init
      | ORefused => s
      end
    else s.
  Definition run (ops : list op) : state := fold_left step ops init.
End Machine.

(* accumulated rotation of an op list: product (later on the left) of the ACCEPTED steps since the last
   clear *)
Fixpoint acc_rot (acc : mat3) (ops : list op) : mat3 :=
  match ops with
  | [] => acc
  | ORot M nopt :: t => acc_rot (if op_accepted (ORot M nopt) then mmul M acc else acc) t
  | OClear :: t => acc_rot mid t
  | ORefused :: t => acc_rot acc t
  end.

End Rnd.

(* C-order list of the values of a field with nv components *)
Definition fld_list (nv : nat) (f : fld) : list Q :=
  flat_map (fun i => flat_map (fun j => flat_map (fun k => map (fun c => f_val f i j k c) (iota 0 nv))
     (iota 0 (n2 (f_n f)))) (iota 0 (n1 (f_n f)))) (iota 0 (n0 (f_n f))).

(* read a C-order list back as an array *)
Definition arr_of_list (n : n3) (nv : nat) (l : list Q) : arr :=
  fun i j k c => nth (((i * n1 n + j) * n2 n + k) * nv + c) l 0.
