(* Model of the sub-selection operations of discretisedfield (mesh.py / field.py):
   Mesh._sel_convert_input, Mesh.sel, Field.sel, Mesh.__getitem__, Field.__getitem__,
   Mesh.region2slices, Mesh.pad, Field.pad (numpy.pad modes as index maps) and
   Field.resample (nearest-centre lookup).  Arrays are index functions [list Z -> V]
   for an arbitrary value type V (the operations only move values).  Geometry in Q.
   Definitions only. *)
From DF Require Import Prelude Constants_gen Region Mesh.
Open Scope Q_scope.

(* ---------- fields ---------- *)
Record field (V : Type) := mkField {
  fmesh : mesh;
  fval : list Z -> V;
  fvalid : list Z -> bool
}.
Arguments mkField {V}.
Arguments fmesh {V}.
Arguments fval {V}.
Arguments fvalid {V}.

(* C-order position of an index (numpy layout) and the enumeration in that order *)
Fixpoint ravel_c (ns i : list Z) : Z :=
  match ns, i with
  | k :: ns', j :: i' => (j * zprod ns' + ravel_c ns' i')%Z
  | _, _ => 0%Z
  end.

Fixpoint indices_c (ns : list Z) : list (list Z) :=
  match ns with
  | [] => [[]]
  | k :: rest => flat_map (fun i => map (cons i) (indices_c rest)) (ziota 0 (Z.to_nat k))
  end.

Definition arr_of {V} (d : V) (ns : list Z) (l : list V) : list Z -> V :=
  fun i => nth (Z.to_nat (ravel_c ns i)) l d.
Definition arr_list {V} (ns : list Z) (f : list Z -> V) : list V := map f (indices_c ns).

(* Field.__call__ : value / validity of the cell a point belongs to *)
Definition field_at {V} (F : field V) (p : list Q) : res V :=
  do i <- point2index (fmesh F) p; OK (fval F i).
Definition valid_at {V} (F : field V) (p : list Q) : res bool :=
  do i <- point2index (fmesh F) p; OK (fvalid F i).

(* ---------- Mesh._sel_convert_input ---------- *)
Inductive selarg := SCentre | SPoint (x : Q) | SRange (x1 x2 : Q).

(* one coordinate: plain </> outside test, then the cell containing
   (pmin with coordinate a replaced by x) *)
Definition sel_idx (m : mesh) (a : nat) (x : Q) : res Z :=
  let lo := nth a (pmin (reg m)) 0 in
  let hi := nth a (pmax (reg m)) 0 in
  if Qltb x lo || Qltb hi x then Err ValueE else
  do i <- point2index m (set_nth a x (pmin (reg m)));
  OK (nth a i 0%Z).

Definition sel_centre_idx (m : mesh) (a : nat) : res Z :=
  do i <- point2index m (center (reg m)); OK (nth a i 0%Z).

(* coordinate of the centre of cell i along axis a = index2point(...)[a] *)
Definition centre_ax (m : mesh) (a : nat) (i : Z) : Q :=
  i2p1 (nth a (pmin (reg m)) 0) (nth a (cell m) 0) i.

(* normalised selection: plane index or inclusive index range *)
Inductive selidx := IPlane (k : Z) | IRange (ilo ihi : Z).

Definition sel_convert (m : mesh) (a : nat) (s : selarg) : res selidx :=
  if negb (a <? ndim (reg m))%nat then Err ValueE else
  match s with
  | SCentre => do k <- sel_centre_idx m a; OK (IPlane k)
  | SPoint x => do k <- sel_idx m a x; OK (IPlane k)
  | SRange x1 x2 =>
      do i1 <- sel_idx m a (Qmin x1 x2);
      do i2 <- sel_idx m a (Qmax x1 x2);
      OK (IRange i1 i2)
  end.

(* ---------- Mesh.sel ---------- *)
Definition plane_keeps (a : nat) (sel : Q) (r : region) : bool :=
  negb (Qltb (nth a (pmax r) 0) sel || Qltb sel (nth a (pmin r) 0)).

(* HEAD: kept iff the overlap exceeds half a cell:
   not (smin >= max_val - step  or  min_val + step >= smax) *)
Definition range_keeps (a : nat) (step min_val max_val : Q) (r : region) : bool :=
  negb (Qle_bool (max_val - step) (nth a (pmin r) 0) || Qle_bool (nth a (pmax r) 0) (min_val + step)).

Definition sub_default_tf : Q := 1 # 1000000000000.

Fixpoint mapres {A B} (f : A -> res B) (l : list A) : res (list B) :=
  match l with
  | [] => OK []
  | a :: t => do b <- f a; do bs <- mapres f t; OK (b :: bs)
  end.

(* the subregion setter re-creates every subregion with the mesh's dims / units / tolerance *)
Definition recreate_sub (r' : region) (s : region) : region :=
  mkRegion (pmin s) (pmax s) (dims r') (units r') (tf r').

Definition with_subs (m : mesh) (l : list (string * region)) : mesh :=
  mkMesh (reg m) (n m) (bc m) (map (fun nr => (fst nr, recreate_sub (reg m) (snd nr))) l).

Definition mesh_sel_plane (m : mesh) (a : nat) (k : Z) : res mesh :=
  let r := reg m in
  let sel := centre_ax m a k in
  let kept := filter (fun nr => plane_keeps a sel (snd nr)) (subs m) in
  do subs' <- mapres (fun nr : string * region =>
                 do s <- mk_region (remove_nth a (pmin (snd nr))) (remove_nth a (pmax (snd nr)))
                                   None None sub_default_tf;
                 OK (fst nr, s)) kept;
  do r' <- mk_region (remove_nth a (pmin r)) (remove_nth a (pmax r))
                     (Some (remove_nth a (dims r))) (Some (remove_nth a (units r))) (tf r);
  do m' <- mesh_by_cell r' (remove_nth a (cell m));
  OK (with_subs m' subs').

Definition mesh_sel_range (m : mesh) (a : nat) (ilo ihi : Z) : res mesh :=
  let r := reg m in
  let step := nth a (cell m) 0 / 2 in
  let min_val := centre_ax m a ilo - step in
  let max_val := centre_ax m a ihi + step in
  let kept := filter (fun nr => range_keeps a step min_val max_val (snd nr)) (subs m) in
  do subs' <- mapres (fun nr : string * region =>
                 do s <- mk_region (set_nth a (Qmax min_val (nth a (pmin (snd nr)) 0)) (pmin (snd nr)))
                                   (set_nth a (Qmin max_val (nth a (pmax (snd nr)) 0)) (pmax (snd nr)))
                                   None None sub_default_tf;
                 OK (fst nr, s)) kept;
  do r' <- mk_region (set_nth a min_val (pmin r)) (set_nth a max_val (pmax r))
                     (Some (dims r)) (Some (units r)) (tf r);
  do m' <- mesh_by_cell r' (cell m);
  OK (with_subs m' subs').

Definition mesh_sel (m : mesh) (a : nat) (s : selarg) : res mesh :=
  do si <- sel_convert m a s;
  match si with
  | IPlane k => mesh_sel_plane m a k
  | IRange ilo ihi => mesh_sel_range m a ilo ihi
  end.

(* ---------- Field.sel ---------- *)
Definition shift_nth (a : nat) (d : Z) (i : list Z) : list Z :=
  set_nth a (nth a i 0 + d)%Z i.

Inductive fres (V : Type) := FField (f : field V) | FValue (v : V).
Arguments FField {V}.
Arguments FValue {V}.

Definition field_sel {V} (F : field V) (a : nat) (s : selarg) : res (fres V) :=
  let m := fmesh F in
  do si <- sel_convert m a s;
  match si with
  | IPlane k =>
      if (ndim (reg m) =? 1)%nat then OK (FValue (fval F [k]))       (* the bare array of that cell *)
      else do m' <- mesh_sel_plane m a k;
           OK (FField (mkField m' (fun i => fval F (insert_nth a k i))
                                  (fun i => fvalid F (insert_nth a k i))))
  | IRange ilo ihi =>
      do m' <- mesh_sel_range m a ilo ihi;
      OK (FField (mkField m' (fun i => fval F (shift_nth a ilo i))
                             (fun i => fvalid F (shift_nth a ilo i))))
  end.

(* ---------- Mesh.__getitem__ ---------- *)
Fixpoint lookup (s : string) (l : list (string * region)) : option region :=
  match l with
  | [] => None
  | (k, r) :: t => if String.eqb s k then Some r else lookup s t
  end.

Definition getitem_name (m : mesh) (name : string) : res mesh :=
  match lookup name (subs m) with
  | None => Err KeyE
  | Some r => mesh_by_cell r (cell m)
  end.

Definition half_down (x c : Q) : Q := x - c / 2.
Definition half_up (x c : Q) : Q := x + c / 2.
(* ceil((pmax_item - pmin) / cell) - 1 : no clipping in the code *)
Definition upper_idx1 (lo c x : Q) : Z := (Qceiling ((x - lo) / c) - 1)%Z.

Definition getitem_region (m : mesh) (item : region) : res mesh :=
  if negb (contains_region (reg m) item) then Err ValueE else
  do i1 <- point2index m (pmin item);
  do c1 <- index2point m i1;
  let p1 := map2 half_down c1 (cell m) in
  let i2 := map3 upper_idx1 (pmin (reg m)) (cell m) (pmax item) in
  do c2 <- index2point m i2;
  let p2 := map2 half_up c2 (cell m) in
  do r' <- mk_region p1 p2 (Some (dims (reg m))) (Some (units (reg m))) (tf (reg m));
  mesh_by_cell r' (cell m).

(* ---------- Field.__getitem__ ---------- *)
Definition add_idx (i off : list Z) : list Z := map2 Z.add i off.

Definition block_offset (m sub : mesh) : res (list Z) :=
  do c0 <- index2point sub (repeat 0%Z (ndim (reg sub)));
  point2index m c0.

Definition field_block {V} (F : field V) (sub : mesh) : res (field V) :=
  do off <- block_offset (fmesh F) sub;
  OK (mkField sub (fun i => fval F (add_idx i off)) (fun i => fvalid F (add_idx i off))).

Definition field_getitem_region {V} (F : field V) (item : region) : res (field V) :=
  do sub <- getitem_region (fmesh F) item; field_block F sub.
Definition field_getitem_name {V} (F : field V) (name : string) : res (field V) :=
  do sub <- getitem_name (fmesh F) name; field_block F sub.

(* ---------- Mesh.region2slices ---------- *)
Definition region2slices (m : mesh) (r : region) : res (list (Z * Z)) :=
  do i1 <- point2index m (map2 half_up (pmin r) (cell m));
  do i2 <- point2index m (map2 half_down (pmax r) (cell m));
  OK (map2 (fun a b => (a, (b + 1)%Z)) i1 i2).

(* ---------- Mesh.pad ---------- *)
Definition pad_lo (p c : Q) (w : Z * Z) : Q := p - inject_Z (fst w) * c.
Definition pad_hi (p c : Q) (w : Z * Z) : Q := p + inject_Z (snd w) * c.

Definition mesh_pad (m : mesh) (pw : list (Z * Z)) : res mesh :=
  if negb (length pw =? ndim (reg m))%nat then Err ValueE else
  let r := reg m in
  do r' <- mk_region (map3 pad_lo (pmin r) (cell m) pw) (map3 pad_hi (pmax r) (cell m) pw)
                     (Some (dims r)) (Some (units r)) (tf r);
  do m' <- mesh_by_cell r' (cell m);
  OK (mkMesh (reg m') (n m') (bc m) []).

(* ---------- Field.pad : numpy.pad modes as maps  padded index -> source index ---------- *)
Inductive pmode := PConstant | PEdge | PWrap | PSymmetric | PReflect.

(* j = padded index - pad_before;  k = source length;  None = the constant fill *)
Definition pad_src (md : pmode) (k j : Z) : option Z :=
  if in_range1 k j then Some j else
  match md with
  | PConstant => None
  | PEdge => Some (Qclip 0 (k - 1) j)
  | PWrap => Some (j mod k)%Z
  | PSymmetric => let r := (j mod (2 * k))%Z in
                  Some (if (r <? k)%Z then r else (2 * k - 1 - r)%Z)
  | PReflect => if (k =? 1)%Z then Some 0%Z else
                let r := (j mod (2 * k - 2))%Z in
                Some (if (r <? k)%Z then r else (2 * k - 2 - r)%Z)
  end.

Fixpoint pad_index (md : pmode) (ns : list Z) (pw : list (Z * Z)) (i : list Z) : option (list Z) :=
  match ns, pw, i with
  | [], [], [] => Some []
  | k :: ns', w :: pw', j :: i' =>
      match pad_src md k (j - fst w), pad_index md ns' pw' i' with
      | Some s, Some t => Some (s :: t)
      | _, _ => None
      end
  | _, _, _ => None
  end.

Definition field_pad {V} (zero : V) (F : field V) (pw : list (Z * Z)) (md : pmode) : res (field V) :=
  if existsb (fun w => (fst w <? 0)%Z || (snd w <? 0)%Z) pw then Err ValueE else
  do m' <- mesh_pad (fmesh F) pw;
  let src := pad_index md (n (fmesh F)) pw in
  OK (mkField m'
        (fun i => match src i with Some s => fval F s | None => zero end)
        (fun i => match src i with Some s => fvalid F s | None => false end)).

(* ---------- Field.resample : nearest source centre, axis by axis ---------- *)
Definition centre1 (lo c : Q) (i : Z) : Q := i2p1 lo c i.

(* i is a nearest source cell for the coordinate q (ties: both neighbours qualify) *)
Definition nearestb (lo c : Q) (k : Z) (q : Q) (i : Z) : bool :=
  in_range1 k i &&
  forallb (fun i' => Qle_bool (Qabs (centre1 lo c i - q)) (Qabs (centre1 lo c i' - q)))
          (ziota 0 (Z.to_nat k)).

(* the representative the code picks (pandas get_indexer(method="nearest") on an increasing
   index resolves a tie to the right) = the cell the point belongs to *)
Definition nearest_pick (lo c : Q) (k : Z) (q : Q) : Z := p2i1 lo c k q.

Definition resample_mesh (m : mesh) (n' : list Z) : res mesh := mk_mesh_n (reg m) n'.

(* source index of result cell j: per axis the nearest source cell to the new centre *)
Definition resample_src (m m' : mesh) (j : list Z) : list Z :=
  map3 (fun lc k q => nearest_pick (fst lc) (snd lc) k q)
       (combine (pmin (reg m)) (cell m)) (n m)
       (map3 i2p1 (pmin (reg m')) (cell m') j).

Definition field_resample {V} (F : field V) (n' : list Z) : res (field V) :=
  do m' <- resample_mesh (fmesh F) n';
  OK (mkField m' (fun j => fval F (resample_src (fmesh F) m' j))
                 (fun j => fvalid F (resample_src (fmesh F) m' j))).

(* admissible source indices of result cell j (every combination of per-axis nearest cells) *)
Fixpoint resample_adm (los cs : list Q) (ks : list Z) (qs : list Q) (i : list Z) : bool :=
  match los, cs, ks, qs, i with
  | [], [], [], [], [] => true
  | lo :: los', c :: cs', k :: ks', q :: qs', x :: i' =>
      nearestb lo c k q x && resample_adm los' cs' ks' qs' i'
  | _, _, _, _, _ => false
  end.
