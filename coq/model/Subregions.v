(* Model of the subregion machinery of discretisedfield.Mesh (mesh.py): the subregions
   setter, Mesh.is_aligned, transformation of subregions with the mesh (translate / scale /
   rotate90, copying and in-place forms), plane / range selection with clipping, named
   extraction and the two persistence formats (JSON side-car, HDF5 table).
   Geometry in Q.  Definitions only. *)
From DF Require Import Prelude Constants_gen Region Mesh.
Open Scope Q_scope.

(* defaults found in the source: Mesh.is_aligned(tolerance=1e-12), numpy.allclose(rtol=1e-5),
   Region(tolerance_factor=1e-12) *)
Definition align_tol : Q := Constants_gen.align_tolerance_default.   (* read from mesh.py on every run *)
Definition align_rtol : Q := 1 # 100000.
Definition default_tf : Q := Constants_gen.region_tf_default.

(* ---------- Mesh.is_aligned ---------- *)
(* rem = remainder(|d|, c);  off the lattice iff  tol < rem < c - tol *)
Definition off_lattice (tol c d : Q) : bool := bad_rem tol c (Qabs d).
Definition on_lattice (tol c d : Q) : bool := negb (off_lattice tol c d).

(* numpy.allclose(self.cell, other.cell, atol=tolerance) *)
Definition cells_close (tol : Q) (c1 c2 : list Q) : bool := forallb2 (isclose align_rtol tol) c1 c2.

Definition corners_on_lattice (tol : Q) (cs p q : list Q) : bool :=
  forallb (fun b => b) (map3 (fun c a b => on_lattice tol c (a - b)) cs p q).

Definition is_aligned_tol (tol : Q) (m o : mesh) : bool :=
  cells_close tol (cell m) (cell o) &&
  corners_on_lattice tol (cell m) (pmin (reg m)) (pmin (reg o)) &&
  corners_on_lattice tol (cell m) (pmax (reg m)) (pmax (reg o)).

Definition is_aligned (m o : mesh) : bool := is_aligned_tol align_tol m o.

(* ---------- the subregions setter ---------- *)
(* value in self.region;  Mesh(region=value, cell=self.cell) succeeds;  self.is_aligned(that mesh) *)
Definition sub_ok (tol : Q) (m : mesh) (r : region) : bool :=
  contains_region (reg m) r &&
  match mesh_by_cell r (cell m) with
  | OK sm => is_aligned_tol tol m sm
  | Err _ => false
  end.

(* Region(p1=sr.pmin, p2=sr.pmax, dims=mesh dims, units=mesh units, tolerance_factor=mesh tf) *)
Definition recreate (m : mesh) (r : region) : region :=
  mkRegion (pmin r) (pmax r) (dims (reg m)) (units (reg m)) (tf (reg m)).

Definition set_subregions_tol (tol : Q) (m : mesh) (l : list (string * region)) : res mesh :=
  if forallb (fun nr => sub_ok tol m (snd nr)) l
  then OK (mkMesh (reg m) (n m) (bc m) (map (fun nr => (fst nr, recreate m (snd nr))) l))
  else Err ValueE.

Definition set_subregions := set_subregions_tol align_tol.

(* assignment statement: an exception leaves the previous dictionary in place *)
Definition assign_tol (tol : Q) (m : mesh) (l : list (string * region)) : mesh :=
  match set_subregions_tol tol m l with OK m' => m' | Err _ => m end.
Definition assign := assign_tol align_tol.

Fixpoint mapres {A B} (f : A -> res B) (l : list A) : res (list B) :=
  match l with
  | [] => OK []
  | a :: t => do b <- f a; do bs <- mapres f t; OK (b :: bs)
  end.

(* ---------- transformations ---------- *)
Inductive top :=
| TTranslate (v : list Q)
| TScale (f : list Q) (ref : option (list Q))
| TRot (a b : nat) (k : Z) (ref : option (list Q)).

Definition translate_region (v : list Q) (r : region) : res region :=
  if negb (length v =? ndim r)%nat then Err ValueE else
  mk_region (map2 Qplus (pmin r) v) (map2 Qplus (pmax r) v) (Some (dims r)) (Some (units r)) (tf r).

(* pmin' = ref - (ref - pmin) * f ; pmax' = pmin' + edges * f ; corners re-ordered, zero edge rejected *)
Definition scale_lo (rf p fa : Q) : Q := rf - (rf - p) * fa.
Definition scale_region (f ref : list Q) (r : region) : res region :=
  if negb (length f =? ndim r)%nat then Err ValueE else
  if negb (length ref =? ndim r)%nat then Err ValueE else
  let lo := map3 scale_lo ref (pmin r) f in
  let hi := map3 (fun l e fa => l + e * fa) lo (edges r) f in
  mk_region lo hi (Some (dims r)) (Some (units r)) (tf r).

(* (cos, sin) of k quarter turns *)
Definition rot_cs (k : Z) : Q * Q :=
  match (k mod 4)%Z with
  | 0%Z => (1, 0) | 1%Z => (0, 1) | 2%Z => (-(1), 0) | _ => (0, -(1))
  end.

Definition rot_pt (a b : nat) (k : Z) (ref p : list Q) : list Q :=
  let c := fst (rot_cs k) in let s := snd (rot_cs k) in
  let xa := nth a p 0 - nth a ref 0 in
  let xb := nth b p 0 - nth b ref 0 in
  set_nth b (nth b ref 0 + (s * xa + c * xb)) (set_nth a (nth a ref 0 + (c * xa - s * xb)) p).

Definition swap_nth {A} (a b : nat) (d : A) (l : list A) : list A :=
  set_nth b (nth a l d) (set_nth a (nth b l d) l).

Definition rotate_region (a b : nat) (k : Z) (ref : list Q) (r : region) : res region :=
  if (a =? b)%nat then Err ValueE else
  if negb (a <? ndim r)%nat || negb (b <? ndim r)%nat then Err ValueE else
  if negb (length ref =? ndim r)%nat then Err ValueE else
  let us := if Z.odd k then swap_nth a b EmptyString (units r) else units r in
  mk_region (rot_pt a b k ref (pmin r)) (rot_pt a b k ref (pmax r)) (Some (dims r)) (Some us) (tf r).

(* [mref]: the mesh region's centre, the default reference point of the mesh-level operations *)
Definition transform_region (o : top) (mref : list Q) (r : region) : res region :=
  match o with
  | TTranslate v => translate_region v r
  | TScale f ref => scale_region f (match ref with Some x => x | None => mref end) r
  | TRot a b k ref => rotate_region a b k (match ref with Some x => x | None => mref end) r
  end.

Definition new_n (o : top) (ns : list Z) : list Z :=
  match o with
  | TRot a b k _ => if Z.odd k then swap_nth a b 0%Z ns else ns
  | _ => ns
  end.

(* copying form: the result goes through the constructor, i.e. through the setter again;
   in-place form: the step is first tried on a copy (dry run: a refused step leaves the mesh
   untouched), then region and subregions are transformed where they are *)
Definition transform_tol (tol : Q) (inplace : bool) (o : top) (m : mesh) : res mesh :=
  let c := center (reg m) in
  do r' <- transform_region o c (reg m);
  do subs' <- mapres (fun nr => do s <- transform_region o c (snd nr); OK (fst nr, s)) (subs m);
  do m0 <- mk_mesh_n r' (new_n o (n m));
  do mc <- set_subregions_tol tol (mkMesh r' (new_n o (n m)) (bc m) []) subs';
  if inplace then OK (mkMesh r' (new_n o (n m)) (bc m) subs') else OK mc.

(* ---------- selections ---------- *)
(* _sel_convert_input for one value: range test without tolerance, then the centre of the cell
   that contains (pmin with coordinate a replaced by x) *)
Definition snap (m : mesh) (a : nat) (x : Q) : res Q :=
  let lo := nth a (pmin (reg m)) 0 in
  let hi := nth a (pmax (reg m)) 0 in
  if Qltb x lo || Qltb hi x then Err ValueE else
  do i <- point2index m (set_nth a x (pmin (reg m)));
  do p <- index2point m i;
  OK (nth a p 0).

Definition snap_centre (m : mesh) (a : nat) : res Q :=
  do i <- point2index m (center (reg m));
  do p <- index2point m i;
  OK (nth a p 0).

Definition plane_keeps (a : nat) (sel : Q) (r : region) : bool :=
  negb (Qltb (nth a (pmax r) 0) sel || Qltb sel (nth a (pmin r) 0)).

Definition sel_plane_tol (tol : Q) (m : mesh) (a : nat) (v : option Q) : res mesh :=
  if negb (a <? ndim (reg m))%nat then Err ValueE else
  do sel <- match v with Some x => snap m a x | None => snap_centre m a end;
  let r := reg m in
  let kept := filter (fun nr => plane_keeps a sel (snd nr)) (subs m) in
  do subs' <- mapres (fun nr : string * region =>
                 do s <- mk_region (remove_nth a (pmin (snd nr))) (remove_nth a (pmax (snd nr)))
                                   None None default_tf;
                 OK (fst nr, s)) kept;
  do r' <- mk_region (remove_nth a (pmin r)) (remove_nth a (pmax r))
                     (Some (remove_nth a (dims r))) (Some (remove_nth a (units r))) (tf r);
  do m' <- mesh_by_cell r' (remove_nth a (cell m));
  set_subregions_tol tol m' subs'.

(* kept iff the subregion overlaps the selection by more than half a cell (selection and
   subregions lie on the cell lattice, so overlaps are whole cells or nothing):
   not (smin >= max_val - step or min_val + step >= smax) *)
Definition range_keeps (a : nat) (step min_val max_val : Q) (r : region) : bool :=
  negb (Qle_bool (max_val - step) (nth a (pmin r) 0) || Qle_bool (nth a (pmax r) 0) (min_val + step)).

Definition clip_region (a : nat) (min_val max_val : Q) (r : region) : res region :=
  mk_region (set_nth a (Qmax min_val (nth a (pmin r) 0)) (pmin r))
            (set_nth a (Qmin max_val (nth a (pmax r) 0)) (pmax r)) None None default_tf.

Definition sel_step (m : mesh) (a : nat) : Q := nth a (cell m) 0 / 2.

Definition sel_bounds (m : mesh) (a : nat) (x1 x2 : Q) : res (Q * Q) :=
  let xa := Qmin x1 x2 in let xb := Qmax x1 x2 in
  do s1 <- snap m a xa;
  do s2 <- snap m a xb;
  let step := sel_step m a in
  OK (s1 - step, s2 + step).

Definition sel_range_tol (tol : Q) (m : mesh) (a : nat) (x1 x2 : Q) : res mesh :=
  if negb (a <? ndim (reg m))%nat then Err ValueE else
  do mm <- sel_bounds m a x1 x2;
  let min_val := fst mm in let max_val := snd mm in
  let r := reg m in
  let kept := filter (fun nr => range_keeps a (sel_step m a) min_val max_val (snd nr)) (subs m) in
  do subs' <- mapres (fun nr : string * region =>
                 do s <- clip_region a min_val max_val (snd nr); OK (fst nr, s)) kept;
  do r' <- mk_region (set_nth a min_val (pmin r)) (set_nth a max_val (pmax r))
                     (Some (dims r)) (Some (units r)) (tf r);
  do m' <- mesh_by_cell r' (cell m);
  set_subregions_tol tol m' subs'.

(* ---------- mesh[name] ---------- *)
Fixpoint lookup (s : string) (l : list (string * region)) : option region :=
  match l with
  | [] => None
  | (k, r) :: t => if String.eqb s k then Some r else lookup s t
  end.

Definition named (m : mesh) (name : string) : res mesh :=
  match lookup name (subs m) with
  | None => Err KeyE
  | Some r => mesh_by_cell r (cell m)
  end.

(* ---------- persistence ---------- *)
(* HDF5: names + a table of rows pmin ++ pmax; read back with Region(p1=row[:ndim], p2=row[ndim:])
   and handed to the constructor *)
Definition h5_rows (l : list (string * region)) : list (string * list Q) :=
  map (fun nr => (fst nr, pmin (snd nr) ++ pmax (snd nr))) l.

Definition h5_row_region (nd : nat) (row : string * list Q) : res (string * region) :=
  do r <- mk_region (firstn nd (snd row)) (skipn nd (snd row)) None None default_tf;
  OK (fst row, r).

Definition h5_load_tol (tol : Q) (m : mesh) (rows : list (string * list Q)) : res mesh :=
  do l <- mapres (h5_row_region (ndim (reg m))) rows;
  set_subregions_tol tol m l.

(* JSON side-car: name -> Region.to_dict(); read back with Region of the dict items as keywords (the pmin/pmax
   keyword path with its strict order test) and assigned to an existing mesh *)
Definition json_row_region (nr : string * region) : res (string * region) :=
  let r := snd nr in
  do r' <- mk_region_minmax (pmin r) (pmax r) (Some (dims r)) (Some (units r)) (tf r);
  OK (fst nr, r').

Definition json_load_tol (tol : Q) (m : mesh) (saved : list (string * region)) : res mesh :=
  do l <- mapres json_row_region saved;
  set_subregions_tol tol m l.
