(* Model of discretisedfield.tools (tools/tools.py) and util.bergluescher_angle's call structure:
   topological charge density (continuous / Berg-Luescher), charge, neighbouring-cell angles,
   emergent magnetic field, Bloch-point counting, demag tensor assembly.
   Field values live in a generic field K; everything the code takes from libraries and that is
   not algebraic (solid angle of a spherical triangle, arccos, clip, abs, rounding, the Newell-type
   functions f and g) is a parameter of the definition that needs it.  Definitions only. *)
From DF Require Import Prelude FieldK NDArray Diff Integrate Region Mesh.

Section Tools.
Variable K : FOps.
Notation "0" := (f0 K).
Notation "1" := (f1 K).
Infix "+" := fadd. Infix "*" := fmul. Infix "-" := fsub. Infix "/" := fdiv.
Local Notation two := (f2 K).

(* ---------- 3-vectors ---------- *)
Definition vec : Type := (K * K * K)%type.
Definition vx (v : vec) : K := fst (fst v).
Definition vy (v : vec) : K := snd (fst v).
Definition vz (v : vec) : K := snd v.
Definition dot3 (a b : vec) : K := vx a * vx b + vy a * vy b + vz a * vz b.
Definition cross3 (a b : vec) : vec :=
  (vy a * vz b - vz a * vy b, vz a * vx b - vx a * vz b, vx a * vy b - vy a * vx b).
Definition triple3 (a b c : vec) : K := dot3 a (cross3 b c).
Definition vscale (s : K) (v : vec) : vec := (s * vx v, s * vy v, s * vz v).
Definition vneg (v : vec) : vec := (fopp (vx v), fopp (vy v), fopp (vz v)).
Definition vadd (a b : vec) : vec := (vx a + vx b, vy a + vy b, vz a + vz b).
Definition vsub (a b : vec) : vec := (vx a - vx b, vy a - vy b, vz a - vz b).
Definition vzero : vec := (0, 0, 0).

(* 3x3 matrices (rows), acting on vectors *)
Definition mat3 : Type := (vec * vec * vec)%type.
Definition mrow1 (M : mat3) : vec := fst (fst M).
Definition mrow2 (M : mat3) : vec := snd (fst M).
Definition mrow3 (M : mat3) : vec := snd M.
Definition mv (M : mat3) (v : vec) : vec := (dot3 (mrow1 M) v, dot3 (mrow2 M) v, dot3 (mrow3 M) v).
Definition det3 (M : mat3) : K := triple3 (mrow1 M) (mrow2 M) (mrow3 M).
(* M M^T = I : the rows are orthonormal *)
Definition orthogonal (M : mat3) : Prop :=
  dot3 (mrow1 M) (mrow1 M) = 1 /\ dot3 (mrow2 M) (mrow2 M) = 1 /\ dot3 (mrow3 M) (mrow3 M) = 1 /\
  dot3 (mrow1 M) (mrow2 M) = 0 /\ dot3 (mrow1 M) (mrow3 M) = 0 /\ dot3 (mrow2 M) (mrow3 M) = 0.
(* M^T M = I : the columns are orthonormal (equivalent over a field; both forms are used) *)
Definition mcol1 (M : mat3) : vec := (vx (mrow1 M), vx (mrow2 M), vx (mrow3 M)).
Definition mcol2 (M : mat3) : vec := (vy (mrow1 M), vy (mrow2 M), vy (mrow3 M)).
Definition mcol3 (M : mat3) : vec := (vz (mrow1 M), vz (mrow2 M), vz (mrow3 M)).
Definition col_orthogonal (M : mat3) : Prop :=
  dot3 (mcol1 M) (mcol1 M) = 1 /\ dot3 (mcol2 M) (mcol2 M) = 1 /\ dot3 (mcol3 M) (mcol3 M) = 1 /\
  dot3 (mcol1 M) (mcol2 M) = 0 /\ dot3 (mcol1 M) (mcol3 M) = 0 /\ dot3 (mcol2 M) (mcol3 M) = 0.

(* arrays of shape sh ++ [3] <-> vector-valued index functions *)
Definition vec_at (o : idx -> K) (i : idx) : vec :=
  (o (i ++ [0%nat]), o (i ++ [1%nat]), o (i ++ [2%nat])).
Definition vcomp (c : nat) (v : vec) : K :=
  match c with 0%nat => vx v | 1%nat => vy v | _ => vz v end.
Definition arr_of (g : idx -> vec) : idx -> K := fun i => vcomp (last i 0%nat) (g (removelast i)).
Definition amap (t : vec -> vec) (o : idx -> K) : idx -> K := arr_of (fun i => t (vec_at o i)).

(* ---------- continuous topological charge density (tools.py:115-120) ----------
   of.dot(of.diff(axis1).cross(of.diff(axis2))) * (1/(4 pi));  c4 stands for 1/(4 pi).
   [o] is the orientation array (shape sh ++ [3], sh = [n1; n2]), [valid] the field's mask *)
Definition tcd_cont (c4 : K) (sh : list nat) (h1 h2 : K) (per1 per2 : bool)
           (o : idx -> K) (valid : idx -> bool) : idx -> K :=
  let d1 := diff_nd K sh 3 0 1 h1 per1 true o valid in
  let d2 := diff_nd K sh 3 1 1 h2 per2 true o valid in
  fun i => c4 * dot3 (vec_at o i) (cross3 (vec_at d1 i) (vec_at d2 i)).

(* ---------- Berg-Luescher density (tools.py:122-167) ----------
   Omega d12 d23 d31 tau  stands for util.bergluescher_angle, which reads its three vectors only
   through the three dot products and the triple product (util.py:11-33) *)
Variable Omega : K -> K -> K -> K -> K.
Definition bl_angle (v1 v2 v3 : vec) : K :=
  Omega (dot3 v1 v2) (dot3 v2 v3) (dot3 v3 v1) (triple3 v1 v2 v3).

Definition nbr (o : idx -> K) (valid : idx -> bool) (exists_ : bool) (i : idx) : option vec :=
  if exists_ && valid i then Some (vec_at o i) else None.
Definition tri (v0 : vec) (a b : option vec) : K * nat :=
  match a, b with
  | Some x, Some y => (bl_angle v0 x y, 1%nat)
  | _, _ => (0, 0%nat)
  end.

Definition tcd_bl (sh : list nat) (h1 h2 : K) (o : idx -> K) (valid : idx -> bool) : idx -> K :=
  fun ij =>
  let i := nth 0 ij 0%nat in let j := nth 1 ij 0%nat in
  let n0 := nth 0 sh 0%nat in let n1 := nth 1 sh 0%nat in
  let area := (1 / two) * h1 * h2 in
  if valid [i; j] then
    let v0 := vec_at o [i; j] in
    let v1 := nbr o valid (i + 1 <? n0)%nat [(i + 1)%nat; j] in
    let v2 := nbr o valid (j + 1 <? n1)%nat [i; (j + 1)%nat] in
    let v3 := nbr o valid (1 <=? i)%nat [(i - 1)%nat; j] in
    let v4 := nbr o valid (1 <=? j)%nat [i; (j - 1)%nat] in
    let t1 := tri v0 v1 v2 in let t2 := tri v0 v2 v3 in
    let t3 := tri v0 v3 v4 in let t4 := tri v0 v4 v1 in
    let cnt := (snd t1 + snd t2 + snd t3 + snd t4)%nat in
    let charge := 0 + fst t1 + fst t2 + fst t3 + fst t4 in
    if (0 <? cnt)%nat then charge / (area * fnat K cnt) else 0
  else 0.

(* ---------- charge = integral of the density (tools.py:274-278) ---------- *)
Variable fabs : K -> K.
Definition charge (absolute : bool) (sh : list nat) (dV : K) (q : idx -> K) : K :=
  total K sh (fun i => if absolute then fabs (q i) else q i) * dV.

(* ---------- neighbouring-cell angles (tools.py:421-448) ---------- *)
Variable acosf : K -> K.
Variable clipf : K -> K.          (* numpy.clip(., -1, 1) *)
Variable degf : K -> K.           (* numpy.degrees *)
Definition angle_shape (sh : list nat) (ax : nat) : list nat := set_nth ax (nth ax sh 0%nat - 1)%nat sh.
Definition angle_arr (ax : nat) (deg : bool) (o : idx -> K) : idx -> K :=
  fun i =>
  let a := acosf (clipf (dot3 (vec_at o i) (vec_at o (set_nth ax (nth ax i 0%nat + 1)%nat i)))) in
  if deg then degf a else a.

(* tabulate an index function on its shape (identity on in-range indices, lemma memo_in; keeps the
   evaluation of nested array expressions cheap) *)
Definition memo (sh : list nat) (f : idx -> K) : idx -> K := of_list 0 sh (to_list sh f).

(* ---------- emergent magnetic field (tools.py:342-348) and its divergence ---------- *)
Definition emergent_pt (m d0 d1 d2 : idx -> K) (i : idx) : vec :=
  (dot3 (vec_at m i) (cross3 (vec_at d1 i) (vec_at d2 i)),
   dot3 (vec_at m i) (cross3 (vec_at d2 i) (vec_at d0 i)),
   dot3 (vec_at m i) (cross3 (vec_at d0 i) (vec_at d1 i))).
Definition emergent (sh : list nat) (h : list K) (per : list bool) (m : idx -> K) (valid : idx -> bool)
  : idx -> K :=
  let d := fun ax => memo (sh ++ [3%nat])
                          (diff_nd K sh 3 ax 1 (nth ax h 0) (nth ax per false) true m valid) in
  let d0 := d 0%nat in let d1 := d 1%nat in let d2 := d 2%nat in
  fun i => vcomp (last i 0%nat) (emergent_pt m d0 d1 d2 (removelast i)).

(* Field.div: sum over the components of component.diff(its own direction); sum() starts at 0 *)
Definition comp_arr (c : nat) (f : idx -> K) : idx -> K := fun i => f (removelast i ++ [c]).
Definition div3 (sh : list nat) (h : list K) (per : list bool) (f : idx -> K) (valid : idx -> bool)
  : idx -> K :=
  let d := fun ax => diff_nd K sh 1 ax 1 (nth ax h 0) (nth ax per false) true
                             (fun i => f (removelast i ++ [ax])) valid in
  fun i => 0 + d 0%nat (i ++ [0%nat]) + d 1%nat (i ++ [0%nat]) + d 2%nat (i ++ [0%nat]).

(* count_bps (tools.py:650-657): the list of local Bloch-point numbers along [dir] before rounding,
   c4 = 1/(4 pi); a0 < a1 are the two other axes *)
Definition others (dir : nat) : nat * nat :=
  match dir with 0%nat => (1%nat, 2%nat) | 1%nat => (0%nat, 2%nat) | _ => (0%nat, 1%nat) end.
Definition bp_profile (sh : list nat) (h : list K) (per : list bool) (dir : nat)
           (o : idx -> K) (valid : idx -> bool) : list K :=
  let em := memo (sh ++ [3%nat]) (emergent sh h per o valid) in
  let fdiv_ := memo sh (div3 sh h per em valid) in
  let a0 := fst (others dir) in let a1 := snd (others dir) in
  map (fun k =>
         let plane := fsum K (map (fun p => fsum K (map (fun q =>
                        fdiv_ (set_nth dir k (set_nth a0 p (set_nth a1 q [0%nat; 0%nat; 0%nat]))))
                        (iota 0 (nth a1 sh 0%nat)))) (iota 0 (nth a0 sh 0%nat))) in
         plane * nth a0 h 0 * nth a1 h 0)
      (iota 0 (nth dir sh 0%nat)).
Definition bp_cum (c4 : K) (hdir : K) (prof : list K) : list K :=
  map (fun x => x * c4) (cum_line K hdir prof).

(* ---------- demag tensor assembly (tools.py:923-954) ---------- *)
Definition bits6 : list (list nat) :=
  flat_map (fun a => flat_map (fun b => flat_map (fun c => flat_map (fun d => flat_map (fun e =>
    map (fun f => [a; b; c; d; e; f]) [0%nat; 1%nat]) [0%nat; 1%nat]) [0%nat; 1%nat]) [0%nat; 1%nat])
    [0%nat; 1%nat]) [0%nat; 1%nat].
Definition sgn (i : list nat) : K := if Nat.even (fold_right Nat.add 0%nat i) then 1 else fopp 1.
Definition bitK (i : list nat) (k : nat) : K := fnat K (nth k i 0%nat).
(* value = sum_i (-1)^{sum i} F(x+(i0-i3)dx, y+(i1-i4)dy, z+(i2-i5)dz);  -value / (4 pi prod(cell)) *)
Definition N_sum (F_ : K -> K -> K -> K) (x y z dx dy dz : K) : K :=
  fold_left (fun acc i => acc + sgn i * F_ (x + (bitK i 0 - bitK i 3) * dx)
                                            (y + (bitK i 1 - bitK i 4) * dy)
                                            (z + (bitK i 2 - bitK i 5) * dz)) bits6 0.
Definition N_element (pi4 : K) (F_ : K -> K -> K -> K) (x y z dx dy dz : K) : K :=
  fopp (N_sum F_ x y z dx dy dz) / (pi4 * (dx * dy * dz)).
Variable fN gN : K -> K -> K -> K.
(* the six components xx yy zz xy xz yz at position (x,y,z) for cell (dx,dy,dz) *)
Definition N6 (pi4 : K) (dx dy dz x y z : K) : list K :=
  [ N_element pi4 fN x y z dx dy dz; N_element pi4 fN y z x dy dz dx; N_element pi4 fN z x y dz dx dy;
    N_element pi4 gN x y z dx dy dz; N_element pi4 gN x z y dx dz dy; N_element pi4 gN y z x dy dz dx ].

End Tools.

(* ---------- geometry of the angle mesh (tools.py:426-442), over Q ---------- *)
Open Scope Q_scope.
Definition angle_delta (ax : nat) (c : list Q) : list Q :=
  map (fun k => if (k =? ax)%nat then nth k c 0 / 2 else 0) (iota 0 (length c)).
Definition angle_mesh (m : mesh) (ax : nat) : res mesh :=
  let d := angle_delta ax (cell m) in
  do r <- mk_region (map2 Qplus (pmin (reg m)) d) (map2 Qminus (pmax (reg m)) d) None None (tf (reg m));
  mesh_by_cell r (cell m).
