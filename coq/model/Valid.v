(* C08 — validity masks: executable model of what every public Field operation does to
   `valid`.  Definitions only.

   A mask is a shape plus its cells in C order.  Every operation of the code ends in the
   Field constructor, i.e. in the `valid` setter (field.py:557-569)

       self._valid = np.array(self._as_array(valid, mesh, nvdim=1, dtype=bool)[..., 0], dtype=bool)

   so the model of an operation is: (1) what it hands to the constructor — which operand
   masks, combined how (pass-through / logical_and / an index map: slicing, np.pad,
   np.rot90, nearest-cell lookup), with which memory provenance (the stored array itself,
   a view of it, or a new array) — and (2) the setter's normalisation (shape test,
   broadcasting, cast to bool, copy). *)
From DF Require Import Prelude NDArray.
Open Scope nat_scope.

(* ------------------------------------------------------------------ masks *)
Record marr := mkM { msh : list nat; mcells : list bool }.

Definition wf (m : marr) : Prop := length (mcells m) = nprod (msh m).
Definition wfb (m : marr) : bool := length (mcells m) =? nprod (msh m).
Definition mget (m : marr) (i : idx) : bool := nth (ravel (msh m) i) (mcells m) true.
Definition mtab (sh : list nat) (f : idx -> bool) : marr := mkM sh (to_list sh f).
Definition marr_eqb (a b : marr) : bool :=
  natlist_eqb (msh a) (msh b) && boollist_eqb (mcells a) (mcells b).

(* ------------------------------------------------------------------ memory provenance *)
(* where the bytes of a mask live: a new buffer, or the buffer of operand k's stored mask *)
Inductive prov := PFresh | PView (k : nat).
Definition p_view (p : prov) : prov := p.          (* basic slicing, expand_dims, [..., 0], rot90, transpose *)
Definition p_new (p : prov) : prov := PFresh.      (* np.array(...), np.logical_and, np.pad, .copy(), np.full *)
Definition prov_eqb (a b : prov) : bool :=
  match a, b with
  | PFresh, PFresh => true
  | PView i, PView j => i =? j
  | _, _ => false
  end.

(* ------------------------------------------------------------------ the setter *)
(* numpy scalars as far as truthiness goes *)
Inductive scal := SB (b : bool) | SI (z : Z) | SF (q : Q) | SNaN.
Definition truthy (s : scal) : bool :=
  match s with
  | SB b => b
  | SI z => negb (z =? 0)%Z
  | SF q => negb (Qeq_bool q 0)
  | SNaN => true
  end.
Definition is_bool (s : scal) : bool := match s with SB _ => true | _ => false end.

Inductive vinput :=
| VNone                                          (* valid=None  -> True *)
| VScalar (s : scal)                             (* True / False / 0 / 2.5 *)
| VNorm                                          (* "norm" *)
| VStr                                           (* any other string: TypeError *)
| VArray (sh : list nat) (cells : list scal)     (* array / nested list with that shape *)
| VCallable (percell : list scal).               (* value returned for each cell centre, C order *)

(* numpy broadcasting of an array of shape [sh] to shape [tgt] (right-aligned) *)
Fixpoint bcast_ok_rev (sh tgt : list nat) : bool :=
  match sh, tgt with
  | [], _ => true
  | _ :: _, [] => false
  | a :: sh', b :: tgt' => ((a =? b) || (a =? 1)) && bcast_ok_rev sh' tgt'
  end.
Definition bcast_ok (sh tgt : list nat) : bool := bcast_ok_rev (rev sh) (rev tgt).
Fixpoint bcast_idx_rev (sh : list nat) (i : idx) : idx :=
  match sh, i with
  | a :: sh', j :: i' => (if a =? 1 then 0 else j) :: bcast_idx_rev sh' i'
  | _, _ => []
  end.
(* source index (in the small array) read by target index i *)
Definition bcast_idx (sh : list nat) (i : idx) : idx := rev (bcast_idx_rev (rev sh) (rev i)).

(* the library's absolute threshold of np.isclose(norm, 0): atol = 1e-8 (rtol*|0| = 0) *)
Definition norm_atol : Q := (1 # 100000000)%Q.
Definition sumsq (v : list Q) : Q := fold_right (fun x acc => x * x + acc)%Q 0%Q v.
(* ~isclose(|v|, 0)  <=>  |v| > atol  <=>  |v|^2 > atol^2 *)
Definition norm_valid_at (atol : Q) (v : list Q) : bool := Qltb (atol * atol) (sumsq v).
Definition norm_valid (v : list Q) : bool := norm_valid_at norm_atol v.

(* split a flat (cells x nvdim) value list into per-cell vectors *)
Fixpoint chunks {A} (k : nat) (ncell : nat) (l : list A) : list (list A) :=
  match ncell with
  | O => []
  | S c => firstn k l :: chunks k c (skipn k l)
  end.

(* valid setter: mesh shape n, the field's values (only "norm" reads them) *)
Definition set_valid (n : list nat) (nvdim : nat) (vals : list Q) (v : vinput) : res marr :=
  match v with
  | VNone => OK (mkM n (repeat true (nprod n)))
  | VScalar s => OK (mkM n (repeat (truthy s) (nprod n)))
  | VNorm => OK (mkM n (map norm_valid (chunks nvdim (nprod n) vals)))
  | VStr => Err TypeE
  | VArray sh cells =>
      if negb (length cells =? nprod sh) then Err ValueE
      else if natlist_eqb sh n then OK (mkM n (map truthy cells))     (* np.expand_dims(val, -1)[..., 0] *)
      else match rev sh with
           | 1 :: _ =>                                               (* np.full(n + (1,), val)[..., 0] *)
               if bcast_ok sh (n ++ [1])
               then OK (mtab n (fun i => truthy (nth (ravel sh (bcast_idx sh (i ++ [0]))) cells (SB true))))
               else Err ValueE
           | _ => Err ValueE
           end
  | VCallable percell =>
      if length percell =? nprod n then OK (mkM n (map truthy percell)) else Err ValueE
  end.

(* a field as far as the setter is concerned: values and mask; assignment keeps the values *)
Record fstate := mkF { fn : list nat; fnvdim : nat; fvals : list Q; fvalid : marr }.
Definition assign_valid (f : fstate) (v : vinput) : res fstate :=
  do m <- set_valid (fn f) (fnvdim f) (fvals f) v; OK (mkF (fn f) (fnvdim f) (fvals f) m).

(* provenance of the stored mask: np.array(view-of-input, dtype=bool) always copies *)
Definition setter_prov (p : prov) : prov := p_new (p_view (p_view p)).

(* what the constructor does with a Boolean mask handed over by an operation *)
Definition ctor (n : list nat) (m : marr) : res marr :=
  set_valid n 1 [] (VArray (msh m) (map SB (mcells m))).

(* ------------------------------------------------------------------ operations *)
Inductive unop :=
| UNeg | UAbs | UComp | UNorm | UOrient                    (* -f, abs(f), f.x, f.norm, f.orientation *)
| UReal | UImag | UConj | UPhase | UCAbs                   (* complex parts *)
| UDiff                                                    (* f.diff(d, order, restrict2valid) *)
| UScalar                                                  (* f (op) number/tuple/array and reflected forms, f**2 *)
| UDotC | UCrossC | UAngleC | ULshiftC                     (* dot/cross/angle/<< with a constant *)
| UUfunc1                                                  (* np.sin(f), np.negative(f), np.multiply(f, 2), ... *)
| UGrad (nd : nat) | UDiv (nd : nat) | UCurl | ULaplace (nd nv : nat).

Inductive binop :=
| BAdd | BSub | BMul | BDiv | BPow | BDot | BCross | BAngle | BLshift | BUfunc2.

Inductive pmode := PConstant | PEdge | PWrap | PSymmetric | PReflect.

Inductive mapop :=
| MPlane (ax k : nat)                          (* f.sel(x=c): plane, axis dropped *)
| MRange (ax lo hi : nat)                      (* f.sel(x=(a, b)): cells lo..hi inclusive *)
| MBlock (offs sh' : list nat)                 (* f[region] / f['name'] *)
| MPad (md : pmode) (ax before after : nat) (fill : bool)
| MRot90 (inplace : bool) (a b : nat) (k : Z)
| MResample (sh' : list nat)
| MHdf5 | MVtk.                                (* write + read back *)

Inductive expr :=
| Leaf (k : nat)
| Pos (e : expr)                               (* +f : `return self` *)
| Un (u : unop) (e : expr)
| Bin (b : binop) (e1 e2 : expr)
| Map (m : mapop) (e : expr).

(* --- unary: every one of them passes `valid=self.valid` to the constructor *)
Definition pass (v : marr) : res marr := ctor (msh v) v.

Definition and_cells (a b : marr) : marr := mkM (msh a) (map2 andb (mcells a) (mcells b)).
(* --- binary: mesh test, np.logical_and, constructor *)
Definition bin_sem (b : binop) (v1 v2 : marr) : res marr :=
  if natlist_eqb (msh v1) (msh v2) then ctor (msh v1) (and_cells v1 v2) else Err ValueE.

Fixpoint fold_bin (b : binop) (acc : marr) (l : list marr) : res marr :=
  match l with
  | [] => OK acc
  | x :: t => do r <- bin_sem b acc x; fold_bin b r t
  end.

Definition un_sem (u : unop) (v : marr) : res marr :=
  match u with
  | UGrad nd =>
      (* derivatives = [self.diff(d) for d in dims]; result = d0 << d1 << ... *)
      do d <- pass v;
      match nd with O => Err IndexE | S k => fold_bin BLshift d (repeat d k) end
  | UDiv nd =>
      (* sum(comp.diff(d) ...): 0 + t0 + t1 + ... *)
      do c <- pass v; do d <- pass c; do s0 <- pass d;
      fold_bin BAdd s0 (repeat d (pred nd))
  | UCurl =>
      (* three differences of two component derivatives, stacked with << *)
      do c <- pass v; do d <- pass c; do t <- bin_sem BSub d d;
      fold_bin BLshift t [t; t]
  | ULaplace nd nv =>
      do c <- (if nv =? 1 then OK v else pass v);
      do d <- pass c; do s0 <- pass d; do s <- fold_bin BAdd s0 (repeat d (pred nd));
      fold_bin BLshift s (repeat s (pred nv))
  | _ => pass v
  end.

(* --- index maps *)
Definition pad_src (md : pmode) (n before j : nat) : option nat :=
  if (before <=? j) && (j <? before + n) then Some (j - before)
  else match md with
       | PConstant => None
       | PEdge => Some (if j <? before then 0 else n - 1)
       | PWrap => Some (((j + (n - before mod n)) mod n))
       | PSymmetric =>
           let p := 2 * n in
           let r := (j + (p - before mod p)) mod p in
           Some (if r <? n then r else p - 1 - r)
       | PReflect =>
           if n =? 1 then Some 0
           else let p := 2 * n - 2 in
                let r := (j + (p - before mod p)) mod p in
                Some (if r <? n then r else p - r)
       end.

Definition zmod4 (k : Z) : nat := Z.to_nat (k mod 4)%Z.

Definition map_ok (m : mapop) (sh : list nat) : bool :=
  match m with
  | MPlane ax k => (ax <? length sh) && (k <? nth ax sh 0) && (2 <=? length sh)
  | MRange ax lo hi => (ax <? length sh) && (lo <=? hi) && (hi <? nth ax sh 0)
  | MBlock offs sh' =>
      (length offs =? length sh) && (length sh' =? length sh) &&
      forallb (fun x => x) (map3 (fun o s n => (o + s <=? n) && (1 <=? s)) offs sh' sh)
  | MPad md ax before after fill =>
      (ax <? length sh) && (1 <=? nth ax sh 0)
  | MRot90 _ a b k => (a <? length sh) && (b <? length sh) && negb (a =? b)
  | MResample sh' => (length sh' =? length sh) && forallb (fun s => 1 <=? s) sh' && forallb (fun s => 1 <=? s) sh
  | MHdf5 => true
  | MVtk => length sh =? 3
  end.

Definition map_shape (m : mapop) (sh : list nat) : list nat :=
  match m with
  | MPlane ax k => remove_nth ax sh
  | MRange ax lo hi => set_nth ax (hi - lo + 1) sh
  | MBlock offs sh' => sh'
  | MPad md ax before after fill => set_nth ax (nth ax sh 0 + before + after) sh
  | MRot90 _ a b k =>
      if Nat.even (zmod4 k) then sh
      else set_nth a (nth b sh 0) (set_nth b (nth a sh 0) sh)
  | MResample sh' => sh'
  | MHdf5 | MVtk => sh
  end.

(* source cell of result cell i; None = a padding cell filled with the constant *)
Definition map_idx (m : mapop) (sh : list nat) (i : idx) : option idx :=
  match m with
  | MPlane ax k => Some (insert_nth ax k i)
  | MRange ax lo hi => Some (set_nth ax (nth ax i 0 + lo) i)
  | MBlock offs sh' => Some (map2 Nat.add i offs)
  | MPad md ax before after fill =>
      match pad_src md (nth ax sh 0) before (nth ax i 0) with
      | Some j => Some (set_nth ax j i)
      | None => None
      end
  | MRot90 _ a b k =>
      let na := nth a sh 0 in let nb := nth b sh 0 in
      let ia := nth a i 0 in let ib := nth b i 0 in
      match zmod4 k with
      | 0 => Some i
      | 1 => Some (set_nth a ib (set_nth b (nb - 1 - ia) i))
      | 2 => Some (set_nth a (na - 1 - ia) (set_nth b (nb - 1 - ib) i))
      | _ => Some (set_nth a (na - 1 - ib) (set_nth b ia i))
      end
  | MResample sh' => Some (map3 (fun n n' j => ((2 * j + 1) * n) / (2 * n')) sh sh' i)
  | MHdf5 | MVtk => Some i
  end.

Definition map_fill (m : mapop) : bool :=
  match m with MPad _ _ _ _ fill => fill | _ => true end.

(* the same gather is applied by the code to the value array and to the mask *)
Definition gather {V} (m : mapop) (sh : list nat) (fill : V) (src : idx -> V) : idx -> V :=
  fun i => match map_idx m sh i with Some j => src j | None => fill end.

(* VTK stores the mask as integers, x fastest: astype(int).transpose(2,1,0).reshape(-1);
   the reader does reshape(reversed n).transpose(2,1,0) and hands the integer array to the setter *)
Definition rev3 (i : idx) : idx := rev i.
Definition vtk_encode (v : marr) : list Z :=
  to_list (rev (msh v)) (fun i => if mget v (rev3 i) then 1%Z else 0%Z).
Definition vtk_decode (n : list nat) (l : list Z) : res marr :=
  set_valid n 1 [] (VArray n (to_list n (fun i => SI (nth (ravel (rev n) (rev3 i)) l 0%Z)))).

Definition map_sem (m : mapop) (v : marr) : res marr :=
  if negb (map_ok m (msh v)) then Err ValueE
  else match m with
       | MVtk => vtk_decode (msh v) (vtk_encode v)
       | _ => ctor (map_shape m (msh v)) (mtab (map_shape m (msh v)) (gather m (msh v) (map_fill m) (mget v)))
       end.

Fixpoint veval (env : list marr) (e : expr) : res marr :=
  match e with
  | Leaf k => match nth_error env k with Some m => OK m | None => Err IndexE end
  | Pos e => veval env e
  | Un u e => do v <- veval env e; un_sem u v
  | Bin b e1 e2 => do v1 <- veval env e1; do v2 <- veval env e2; bin_sem b v1 v2
  | Map m e => do v <- veval env e; map_sem m v
  end.

(* --- provenance of what each operation hands to the constructor, then the setter *)
Definition map_pre_prov (m : mapop) (p : prov) : prov :=
  match m with
  | MPlane _ _ | MRange _ _ _ | MBlock _ _ => p_view p       (* self.valid[slices] *)
  | MPad _ _ _ _ _ => p_new p                                (* np.pad *)
  | MRot90 _ _ _ _ => p_view (p_new p)                       (* np.rot90(self.valid.copy()) *)
  | MResample _ => p_new p                                   (* a Boolean field, looked up cell by cell *)
  | MHdf5 | MVtk => p_new p                                  (* read from the file *)
  end.

Fixpoint eprov (e : expr) : prov :=
  match e with
  | Leaf k => PView k                          (* the operand's stored mask itself *)
  | Pos e => eprov e                           (* same object *)
  | Un _ e => setter_prov (p_view (eprov e))   (* valid=self.valid *)
  | Bin _ e1 e2 => setter_prov (p_new (eprov e1))   (* np.logical_and(...) *)
  | Map m e => setter_prov (map_pre_prov m (eprov e))
  end.

(* ------------------------------------------------------------------ specification side *)
(* the plain reading of the property: operands' masks, cell-wise AND, gathers — no constructor,
   no setter, no rejection *)
Fixpoint sem (env : list marr) (e : expr) : marr :=
  match e with
  | Leaf k => nth k env (mkM [] [])
  | Pos e | Un _ e => sem env e
  | Bin _ e1 e2 => and_cells (sem env e1) (sem env e2)
  | Map m e =>
      let v := sem env e in
      mtab (map_shape m (msh v)) (gather m (msh v) (map_fill m) (mget v))
  end.

(* shape of the result; None when an operation rejects *)
Fixpoint eshape (shs : list (list nat)) (e : expr) : option (list nat) :=
  match e with
  | Leaf k => nth_error shs k
  | Pos e | Un _ e => eshape shs e
  | Bin _ e1 e2 =>
      match eshape shs e1, eshape shs e2 with
      | Some a, Some b => if natlist_eqb a b then Some a else None
      | _, _ => None
      end
  | Map m e =>
      match eshape shs e with
      | Some a => if map_ok m a then Some (map_shape m a) else None
      | None => None
      end
  end.

Fixpoint leaves (e : expr) : list nat :=
  match e with
  | Leaf k => [k]
  | Pos e | Un _ e | Map _ e => leaves e
  | Bin _ e1 e2 => leaves e1 ++ leaves e2
  end.

Fixpoint map_free (e : expr) : bool :=
  match e with
  | Leaf _ => true
  | Pos e | Un _ e => map_free e
  | Bin _ e1 e2 => map_free e1 && map_free e2
  | Map _ _ => false
  end.

(* an expression that is an operand itself, possibly behind unary pluses *)
Fixpoint strip_pos (e : expr) : expr := match e with Pos e' => strip_pos e' | _ => e end.
Definition is_leaf (e : expr) : bool := match e with Leaf _ => true | _ => false end.

(* ------------------------------------------------------------------ padding several axes in one call *)
(* np.pad with widths on two axes: every axis is looked up on its own; a cell is a padding
   constant as soon as one of its coordinates falls into a constant margin *)
Definition pad2_idx (md : pmode) (sh : list nat) (a ba aa b bb ab : nat) (i : idx) : option idx :=
  match pad_src md (nth a sh 0) ba (nth a i 0), pad_src md (nth b sh 0) bb (nth b i 0) with
  | Some ja, Some jb => Some (set_nth a ja (set_nth b jb i))
  | _, _ => None
  end.
Definition pad2_shape (sh : list nat) (a ba aa b bb ab : nat) : list nat :=
  set_nth a (nth a sh 0 + ba + aa) (set_nth b (nth b sh 0 + bb + ab) sh).
Definition gather_pad2 {V} (md : pmode) (sh : list nat) (a ba aa b bb ab : nat) (fill : V)
           (src : idx -> V) : idx -> V :=
  fun i => match pad2_idx md sh a ba aa b bb ab i with Some j => src j | None => fill end.

(* ------------------------------------------------------------------ mesh identity beyond the shape *)
(* position of the result's first cell on the operands' common lattice, for the operations that keep
   the lattice (ranges, blocks, padding, codecs); None = not tracked (plane, rotation, resampling) *)
Definition map_origin (m : mapop) (o : list Z) : option (list Z) :=
  match m with
  | MRange ax lo hi => Some (set_nth ax (nth ax o 0 + Z.of_nat lo)%Z o)
  | MBlock offs sh' => Some (map2 Z.add o (map Z.of_nat offs))
  | MPad md ax before after fill => Some (set_nth ax (nth ax o 0 - Z.of_nat before)%Z o)
  | MHdf5 | MVtk => Some o
  | MPlane _ _ | MRot90 _ _ _ _ | MResample _ => None
  end.

Fixpoint eorigin (nd : nat) (e : expr) : option (list Z) :=
  match e with
  | Leaf _ => Some (repeat 0%Z nd)
  | Pos e | Un _ e => eorigin nd e
  | Bin _ e1 e2 =>
      match eorigin nd e1, eorigin nd e2 with
      | Some a, Some b => if zlist_eqb a b then Some a else None
      | _, _ => None
      end
  | Map m e => match eorigin nd e with Some o => map_origin m o | None => None end
  end.

(* binary operation between two expressions over operands that live on ONE mesh: the code compares
   the meshes (region and n), not only the shapes.  None = the model does not track these operands *)
Definition veval_bin_geo (env : list marr) (nd : nat) (b : binop) (e1 e2 : expr) : option (res marr) :=
  match veval env e1, veval env e2, eorigin nd e1, eorigin nd e2 with
  | OK v1, OK v2, Some o1, Some o2 =>
      if natlist_eqb (msh v1) (msh v2) && zlist_eqb o1 o2
      then Some (bin_sem b v1 v2) else Some (Err ValueE)
  | _, _, _, _ => None
  end.
