(* Model of Field.to_vtk (field.py) and of discretisedfield/io/vtk.py (_to_vtk, _from_vtk,
   _from_vtk_legacy) on an abstract VTK rectilinear grid: point counts per axis, three vertex
   coordinate lists, named cell arrays (name, components per tuple, values in VTK tuple order).
   The VTK specification of structured cells -- cell (i,j,k) of a grid with nx x ny x nz cells
   has id  i + nx*(j + ny*k)  and owns tuple id of every cell array -- is the definition of
   [cell_id] / [locate].  Values live in an arbitrary type V (nothing but their position is
   used); the Euclidean norm, the per-representation value/coordinate maps and the 0/1 coding of
   the validity flag are Section variables.  Definitions only. *)
From DF Require Import Prelude Constants_gen Region Mesh Subregions.
Open Scope Q_scope.
Set Implicit Arguments.

Inductive vrep := VBin | VTxt | VXml.

(* representation strings accepted by _to_vtk *)
Definition parse_rep (s : string) : res vrep :=
  if String.eqb s "xml" then OK VXml
  else if String.eqb s "bin" || String.eqb s "bin8" then OK VBin
  else if String.eqb s "txt" then OK VTxt
  else Err ValueE.

(* ---------- positions ---------- *)
(* element (i,j,k,c) of a C-ordered numpy array of shape (nx,ny,nz,nv) *)
Definition cpos (ny nz nv i j k c : nat) : nat := (((i * ny + j) * nz + k) * nv + c)%nat.
(* VTK: id of structured cell (i,j,k) in a grid of nx x ny x nz cells *)
Definition cell_id (nx ny i j k : nat) : nat := (i + nx * (j + ny * k))%nat.
(* element c of tuple (i,j,k) of a VTK cell array with nv components *)
Definition vpos (nx ny nv i j k c : nat) : nat := (cell_id nx ny i j k * nv + c)%nat.

Definition tab {A} (n : nat) (g : nat -> list A) : list A := flat_map g (seq 0 n).

(* name -> array, AddArray semantics: an array of the same name is replaced in place *)
Fixpoint add_array {A} (name : string) (a : A) (l : list (string * A)) : list (string * A) :=
  match l with
  | [] => [(name, a)]
  | (nm, b) :: t => if String.eqb nm name then (nm, a) :: t else (nm, b) :: add_array name a t
  end.

Fixpoint lookup_array {A} (name : string) (l : list (string * A)) : option A :=
  match l with
  | [] => None
  | (nm, b) :: t => if String.eqb nm name then Some b else lookup_array name t
  end.

(* Field.vdims setter as reached from the readers (labels that collide with attributes of
   Field are not modelled: the writer never produces them) *)
Definition default_vdims (nv : nat) : option (list string) :=
  if ((2 <=? nv) && (nv <=? 3))%nat then Some (firstn nv ["x"; "y"; "z"]%string)
  else if (3 <? nv)%nat then
    Some (map (fun i => String.append "v" (String (Ascii.ascii_of_nat (48 + i)) EmptyString)) (seq 0 nv))
  else None.

Definition field_vdims (nv : nat) (v : option (list string)) : res (option (list string)) :=
  match v with
  | None => OK (default_vdims nv)
  | Some [] => OK None
  | Some l => if negb (length l =? nv)%nat then Err ValueE
              else if negb (nodupb l) then Err ValueE else OK (Some l)
  end.

Definition reserved (s : string) : bool :=
  String.eqb s "field" || String.eqb s "valid" || String.eqb s "norm".

Definition dims3 (m : mesh) : option (nat * nat * nat) :=
  match n m with
  | [a; b; c] => Some (Z.to_nat a, Z.to_nat b, Z.to_nat c)
  | _ => None
  end.

(* the side-car file `<file>.subregions.json` after _to_vtk, given what was at that name before:
   written when save_subregions and (the mesh has subregions or a side-car already exists there)
   -- with the saved field's subregions, the empty dictionary when it has none; otherwise untouched *)
Definition sidecar_after (prior : option (list (string * region))) (save_sub : bool)
           (sb : list (string * region)) : option (list (string * region)) :=
  if save_sub && (negb (length sb =? 0)%nat || match prior with Some _ => true | None => false end)
  then Some sb else prior.

(* the interval of a vertex list that holds x: first j with v_j <= x < v_(j+1) *)
Fixpoint find_interval (vs : list Q) (x : Q) : option nat :=
  match vs with
  | a :: ((b :: _) as t) =>
      if Qle_bool a x && Qltb x b then Some 0%nat else option_map S (find_interval t x)
  | _ => None
  end.

(* closed version used for admissibility on faces: v_j <= x <= v_(j+1) *)
Definition in_interval_closed (vs : list Q) (j : nat) (x : Q) : bool :=
  (S j <? length vs)%nat && Qle_bool (nth j vs 0) x && Qle_bool x (nth (S j) vs 0).

Section Vtk.
  Variable V : Type.
  Variable d : V.                          (* default of the totalised list access *)
  Variable nrm : list V -> V.              (* numpy.linalg.norm of one cell's components *)
  Variable vone vzero : V.                 (* valid.astype(int): 1 / 0; 0.0 of a fresh array *)
  Variable vtruth : V -> bool.             (* dtype=bool conversion of a stored flag *)
  Variable cw : vrep -> Q -> Q.            (* coordinate as stored in / read from a representation *)
  Variable wr : vrep -> V -> V.            (* value as stored in / read from a representation *)

  Record vfield := mkVF {
    vf_mesh : mesh;
    vf_nv : nat;
    vf_vdims : option (list string);
    vf_vals : list V;                      (* C order, shape (nx,ny,nz,nv) *)
    vf_valid : list bool                   (* C order, shape (nx,ny,nz) *)
  }.

  Notation varray := (nat * list V)%type.  (* components per tuple, values *)

  Record vgrid := mkGrid {
    g_dims : list Z;                       (* points per axis *)
    g_coords : list (list Q);              (* x, y, z vertex coordinates *)
    g_cell : list (string * varray);       (* cell data *)
    g_point : list (string * varray)       (* point data (legacy files) *)
  }.

  (* components of cell (i,j,k) *)
  Definition tuple_at (ny nz nv : nat) (a : list V) (i j k : nat) : list V :=
    map (fun c => nth (cpos ny nz nv i j k c) a d) (seq 0 nv).

  (* rows in VTK order: z slowest, then y, then x *)
  Definition vtk_rows {A} (nx ny nz : nat) (row : nat -> nat -> nat -> list A) : list A :=
    tab nz (fun k => tab ny (fun j => tab nx (fun i => row i j k))).

  (* array.transpose((2,1,0,3)).reshape(-1) *)
  Definition vtk_order (nx ny nz nv : nat) (a : list V) : list V :=
    vtk_rows nx ny nz (tuple_at ny nz nv a).
  (* getattr(self, comp).array.transpose((2,1,0,3)).reshape(-1) *)
  Definition comp_vtk (nx ny nz nv : nat) (a : list V) (c : nat) : list V :=
    vtk_rows nx ny nz (fun i j k => [nth (cpos ny nz nv i j k c) a d]).
  (* self.norm.array.transpose((2,1,0,3)).reshape(-1) *)
  Definition norm_vtk (nx ny nz nv : nat) (a : list V) : list V :=
    vtk_rows nx ny nz (fun i j k => [nrm (tuple_at ny nz nv a i j k)]).
  (* self.valid.astype(int).transpose((2,1,0)).reshape(-1) *)
  Definition valid_vtk (nx ny nz : nat) (v : list bool) : list V :=
    vtk_rows nx ny nz (fun i j k => [if nth (cpos ny nz 1 i j k 0) v false then vone else vzero]).

  (* payload.reshape((nz,ny,nx,nv)).transpose((2,1,0,3)) in C order *)
  Definition from_vtk_order (nx ny nz nv : nat) (p : list V) : list V :=
    tab nx (fun i => tab ny (fun j => tab nz (fun k =>
      map (fun c => nth (vpos nx ny nv i j k c) p d) (seq 0 nv)))).

  (* ---------- Field.to_vtk ---------- *)
  Definition to_vtk (f : vfield) : res vgrid :=
    let m := vf_mesh f in
    let nv := vf_nv f in
    if negb (ndim (reg m) =? 3)%nat then Err RuntimeE else
    if (1 <? nv)%nat && match vf_vdims f with None => true | Some _ => false end then Err AttrE else
    match dims3 m with
    | None => Err ValueE
    | Some (nx, ny, nz) =>
        let a := vf_vals f in
        let a0 := add_array "norm" (1%nat, norm_vtk nx ny nz nv a) [] in
        let a1 := if (1 <? nv)%nat then
                    fold_left (fun acc cn => add_array (snd cn) (1%nat, comp_vtk nx ny nz nv a (fst cn)) acc)
                              (combine (seq 0 nv) (match vf_vdims f with Some l => l | None => [] end)) a0
                  else a0 in
        let a2 := add_array "field" (nv, vtk_order nx ny nz nv a) a1 in
        let a3 := add_array "valid" (1%nat, valid_vtk nx ny nz (vf_valid f)) a2 in
        OK (mkGrid (map (fun k => k + 1)%Z (n m)) (vertices m) a3 [])
    end.

  (* ---------- what a VTK consumer does with the grid ---------- *)
  Definition locate (g : vgrid) (p : list Q) : option nat :=
    match g_coords g, p with
    | [xs; ys; zs], [x; y; z] =>
        match find_interval xs x, find_interval ys y, find_interval zs z with
        | Some i, Some j, Some k => Some (cell_id (length xs - 1) (length ys - 1) i j k)
        | _, _, _ => None
        end
    | _, _ => None
    end.

  (* is cell id a cell whose closed box holds p? (faces: every adjacent cell is admissible) *)
  Definition holds_closed (g : vgrid) (id : nat) (p : list Q) : bool :=
    match g_coords g, p with
    | [xs; ys; zs], [x; y; z] =>
        let nx := (length xs - 1)%nat in let ny := (length ys - 1)%nat in
        let i := (id mod nx)%nat in let j := ((id / nx) mod ny)%nat in let k := (id / (nx * ny))%nat in
        negb (nx =? 0)%nat && negb (ny =? 0)%nat &&
        in_interval_closed xs i x && in_interval_closed ys j y && in_interval_closed zs k z
    | _, _ => false
    end.

  Definition tuple_of (a : varray) (id : nat) : list V :=
    map (fun c => nth (id * fst a + c) (snd a) d) (seq 0 (fst a)).

  Definition cell_tuple (g : vgrid) (name : string) (id : nat) : option (list V) :=
    match lookup_array name (g_cell g) with
    | Some a => Some (tuple_of a id)
    | None => None
    end.

  (* ---------- _to_vtk: the grid as stored in a representation, plus the side-car ---------- *)
  Definition map_array (f : V -> V) (a : string * varray) : string * varray :=
    (fst a, (fst (snd a), map f (snd (snd a)))).

  Definition store (r : vrep) (g : vgrid) : vgrid :=
    mkGrid (g_dims g) (map (map (cw r)) (g_coords g)) (map (map_array (wr r)) (g_cell g))
           (map (map_array (wr r)) (g_point g)).

  Definition write_vtk (f : vfield) (rep : string) (save_sub : bool)
    : res (vgrid * option (list (string * region))) :=
    do r <- parse_rep rep;
    do g <- to_vtk f;
    OK (store r g,
        if save_sub && negb (length (subs (vf_mesh f)) =? 0)%nat then Some (subs (vf_mesh f)) else None).

  (* ---------- _from_vtk (cell-data files) ---------- *)
  Definition default_tf : Q := 1 # 1000000000000.

  (* last array of a given name wins (the loop overwrites the index) *)
  Fixpoint find_last (name : string) (l : list (string * varray)) (acc : option varray) : option varray :=
    match l with
    | [] => acc
    | (nm, a) :: t => find_last name t (if String.eqb nm name then Some a else acc)
    end.

  Definition label_names (l : list (string * varray)) : list string :=
    filter (fun s => negb (reserved s)) (map fst l).

  Definition first_last (l : list Q) : Q * Q := (hd 0 l, last l 0).

  Definition from_vtk (g : vgrid) (side : option (list (string * region))) : res vfield :=
    match g_cell g with
    | [] => Err NotImplE                   (* legacy path, see from_legacy *)
    | arrays =>
        match find_last "field" arrays None with
        | None => Err RuntimeE             (* field_idx unbound *)
        | Some (dim, payload) =>
            let labels := label_names arrays in
            let vd := if (length labels =? dim)%nat then Some labels else None in
            let ns := map (fun k => k - 1)%Z (g_dims g) in
            (* GetBounds: first and last coordinate of each axis (ordered) *)
            let p1 := map (fun l => Qmin (fst (first_last l)) (snd (first_last l))) (g_coords g) in
            let p2 := map (fun l => Qmax (fst (first_last l)) (snd (first_last l))) (g_coords g) in
            match ns with
            | [a; b; c] =>
                if negb (forallb (fun k => 0 <? k)%Z ns) then Err ValueE else
                let nx := Z.to_nat a in let ny := Z.to_nat b in let nz := Z.to_nat c in
                (* reshape to (nz, ny, nx, dim) *)
                if (dim =? 0)%nat || negb (length payload =? nx * ny * nz * dim)%nat then Err ValueE else
                do valid <-
                  match find_last "valid" arrays None with
                  | None => OK (repeat true (nx * ny * nz))
                  | Some (_, lv) =>
                      if negb (length lv =? nx * ny * nz)%nat then Err ValueE
                      else OK (map vtruth (from_vtk_order nx ny nz 1 lv))
                  end;
                do r <- mk_region p1 p2 None None default_tf;
                do m <- mk_mesh_n r ns;
                do m' <- match side with
                         | None => OK m
                         | Some s => json_load_tol align_tol m s
                         end;
                do vdims <- field_vdims dim vd;
                OK (mkVF m' dim vdims (from_vtk_order nx ny nz dim payload) valid)
            | _ => Err ValueE
            end
        end
    end.

  (* ---------- _from_vtk_legacy: point data written by discretisedfield <= 0.61 ---------- *)
  Record legacy := mkLegacy {
    lg_coords : list (list Q);             (* X_/Y_/Z_COORDINATES: the cell centres *)
    lg_vec : bool;                         (* the file contains a VECTORS block *)
    lg_rows : list (list V)                (* data lines after the marker, file order *)
  }.

  Definition legacy_cell (l : list Q) : Q :=
    match l with
    | a :: b :: _ => b - a
    | _ => 1 # 1000000000              (* single cell: 1 nm by default *)
    end.

  Definition from_legacy (lg : legacy) (side : option (list (string * region))) : res vfield :=
    let cs := lg_coords lg in
    if negb (length cs =? 3)%nat then Err ValueE else
    if existsb (fun l => (length l =? 0)%nat) cs then Err IndexE else
    let ns := map (fun l => Z.of_nat (length l)) cs in
    let cell_ := map legacy_cell cs in
    let p1 := map2 (fun l c => hd 0 l - c * (1 # 2)) cs cell_ in
    let p2 := map3 (fun a k c => a + inject_Z k * c) p1 ns cell_ in
    do r <- mk_region p1 p2 None None default_tf;
    do m <- mk_mesh_n r ns;
    do m' <- match side with
             | None => OK m
             | Some s => json_load_tol align_tol m s
             end;
    let dim := if lg_vec lg then 3%nat else 1%nat in
    match map Z.to_nat ns with
    | [nx; ny; nz] =>
        if (length (lg_rows lg) <? nx * ny * nz)%nat then Err IndexE else
        if negb (forallb (fun row => (length row =? dim)%nat) (firstn (nx * ny * nz) (lg_rows lg))) then Err ValueE else
        do vdims <- field_vdims dim None;
        OK (mkVF m' dim vdims
                 (tab nx (fun i => tab ny (fun j => tab nz (fun k =>
                    map (fun c => nth c (nth (cell_id nx ny i j k) (lg_rows lg) []) d) (seq 0 dim)))))
                 (repeat true (nx * ny * nz)))
    | _ => Err ValueE
    end.
End Vtk.
