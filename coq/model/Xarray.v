(* Model of Field.to_xarray / Field.from_xarray (discretisedfield/field.py).
   A field is its mesh, component count, labels, dtype tag, unit and the C-order
   flattening of its array (complex values as consecutive re, im).  A DataArray is
   what the two functions read or write: dimension names, shape, the values of
   xa[dim] for every geometric dimension, the 'units' attribute of these coordinates,
   the "vdims" coordinate, data, dtype tag and the six attributes.  Definitions only. *)
From DF Require Import Prelude Constants_gen Region Mesh.
Open Scope Q_scope.

Record field := mkField {
  fmesh : mesh;
  fnvdim : Z;
  fvdims : option (list string);
  fdtype : string;
  funit : option string;
  fdata : list Q
}.

Record dataarray := mkDA {
  xdims : list string;               (* xa.dims *)
  xshape : list Z;                   (* xa.values.shape *)
  xcoords : list (list Q);           (* xa[d].values for every d in xa.dims other than "vdims" *)
  xcunits : list (option string);    (* xa[d].attrs.get("units") for the same d *)
  xvdims : option (list string);     (* xa.vdims.values if "vdims" in xa.coords *)
  xdata : list Q;
  xdtype : string;
  a_units : option string;           (* attrs["units"]; None = Python None *)
  a_cell : option (list Q);
  a_pmin : option (list Q);
  a_pmax : option (list Q);
  a_nvdim : option Z;
  a_tf : option Q
}.

Definition vdims_name : string := "vdims".
Definition default_tf : Q := 1 # 1000000000000.          (* Region(tolerance_factor=1e-12) *)
Definition np_rtol : Q := 1 # 100000.                    (* numpy.allclose default rtol *)
Definition np_atol : Q := 0.                             (* the code passes atol=0 *)

(* ---------- Field's component labels (vdims setter) ---------- *)
Definition default_vdims (k : Z) : option (list string) :=
  if (k <? 2)%Z then None
  else if (k <=? 3)%Z then Some (firstn (Z.to_nat k) ["x"%string; "y"%string; "z"%string])
  else Some (map (fun i => String.append "v" (String (Ascii.ascii_of_nat (48 + i)) EmptyString))
                 (iota 0 (Z.to_nat k))).

Definition set_vdims (k : Z) (v : option (list string)) : res (option (list string)) :=
  match v with
  | None => OK (default_vdims k)
  | Some [] => OK None
  | Some l => if negb (Z.of_nat (length l) =? k)%Z then Err ValueE
              else if negb (nodupb l) then Err ValueE else OK (Some l)
  end.

(* ---------- export ---------- *)
Definition is_vector (f : field) : bool := (1 <? fnvdim f)%Z.

(* `unit or self.unit`: None and the empty string fall through to the field's unit *)
Definition pick_unit (arg own : option string) : option string :=
  match arg with
  | Some u => if String.eqb u "" then own else Some u
  | None => own
  end.

Definition to_xarray (f : field) (unit_arg : option string) : dataarray :=
  let m := fmesh f in
  let r := reg m in
  mkDA (if is_vector f then dims r ++ [vdims_name] else dims r)
       (if is_vector f then n m ++ [fnvdim f] else n m)
       (cells m)
       (map (@Some string) (units r))
       (if is_vector f then fvdims f else None)
       (fdata f) (fdtype f)
       (pick_unit unit_arg (funit f))
       (Some (cell m)) (Some (pmin r)) (Some (pmax r)) (Some (fnvdim f)) (Some (tf r)).

(* ---------- import ---------- *)
Definition diffs (v : list Q) : list Q := map2 Qminus (tl v) v.
Definition qmean (l : list Q) : Q := qsum l / inject_Z (Z.of_nat (length l)).

(* numpy.allclose(diff, diff.mean(), atol=0):  |d - mu| <= atol + rtol*|mu| for every d.
   [fac] scales the tolerance; the code is fac = 1 (the checker brackets float rounding
   with 1 -+ 1e-6). *)
Definition evenly (fac : Q) (v : list Q) : bool :=
  let d := diffs v in
  let mu := qmean d in
  forallb (fun x => Qle_bool (Qabs (x - mu)) (fac * (np_atol + np_rtol * Qabs mu))) d.

(* mean spacing; an axis with a single coordinate gives numpy's nan *)
Definition mean_spacing (v : list Q) : option Q :=
  if (length v <? 2)%nat then None else Some (qmean (diffs v)).

Fixpoint all_some {A} (l : list (option A)) : option (list A) :=
  match l with
  | [] => Some []
  | None :: _ => None
  | Some a :: t => option_map (cons a) (all_some t)
  end.

Definition geo_dims (xa : dataarray) : list string :=
  filter (fun d => negb (String.eqb d vdims_name)) (xdims xa).

Definition has_vdims_dim (xa : dataarray) : bool := existsb (String.eqb vdims_name) (xdims xa).

(* the shape the Field constructor accepts for the value array *)
Definition shape_ok (xa : dataarray) (k : Z) (ns : list Z) : bool :=
  if (k =? 1)%Z then zlist_eqb (xshape xa) ns else zlist_eqb (xshape xa) (ns ++ [k]).

Definition from_xarray_f (fac : Q) (xa : dataarray) : res field :=
  match a_nvdim xa with
  | None => Err KeyE
  | Some k =>
    if (k <? 1)%Z then Err ValueE else
    if (1 <? k)%Z && negb (has_vdims_dim xa) then Err ValueE else
    let ds := geo_dims xa in
    if negb (forallb (evenly fac) (xcoords xa)) then Err ValueE else
    do c <- match a_cell xa with
            | Some c => OK c
            | None =>
                if existsb (Z.eqb 1) (removelast (xshape xa)) then Err KeyE else
                match all_some (map mean_spacing (xcoords xa)) with
                | Some c => OK c
                | None => Err ValueE           (* nan cell: Mesh rejects it *)
                end
            end;
    let p1 := match a_pmin xa with
              | Some p => p
              | None => map2 (fun v cc => hd 0 v - cc / 2) (xcoords xa) c
              end in
    let p2 := match a_pmax xa with
              | Some p => p
              | None => map2 (fun v cc => last v 0 + cc / 2) (xcoords xa) c
              end in
    let us := all_some (xcunits xa) in
    do r <- mk_region p1 p2 (Some ds) us default_tf;
    do m <- mesh_by_cell r c;
    let r' := match a_tf xa with
              | Some t => mkRegion (pmin r) (pmax r) (dims r) (units r) t
              | None => r
              end in
    let m' := mkMesh r' (n m) (bc m) (subs m) in
    do vd <- set_vdims k (xvdims xa);
    if negb (shape_ok xa k (n m)) then Err ValueE else
    OK (mkField m' k vd (xdtype xa) None (xdata xa))
  end.

Definition from_xarray (xa : dataarray) : res field := from_xarray_f 1 xa.

(* ---------- well-formed fields (what the Field constructor establishes) ---------- *)
Definition wf_vdims (k : Z) (v : option (list string)) : Prop :=
  match v with
  | None => (k = 1)%Z
  | Some l => l <> [] /\ Z.of_nat (length l) = k /\ nodupb l = true
  end.

Definition wf_field (f : field) : Prop :=
  wf_mesh (fmesh f) /\ (1 <= fnvdim f)%Z /\ wf_vdims (fnvdim f) (fvdims f) /\
  ~ In vdims_name (dims (reg (fmesh f))).

(* equality of fields as Field.__eq__ sees it (mesh, nvdim, values) plus dtype tag and tolerance *)
Definition field_same (f g : field) : Prop :=
  let rf := reg (fmesh f) in let rg := reg (fmesh g) in
  pmin rg = pmin rf /\ pmax rg = pmax rf /\ dims rg = dims rf /\ units rg = units rf /\ tf rg = tf rf /\
  n (fmesh g) = n (fmesh f) /\ fnvdim g = fnvdim f /\ fdtype g = fdtype f /\ fdata g = fdata f.

(* ---------- names for the quantities from_xarray derives (used in theorem statements) ---------- *)
(* the cell: the attribute wins; otherwise the mean spacing of every axis *)
Definition eff_cell (xa : dataarray) : res (list Q) :=
  match a_cell xa with
  | Some c => OK c
  | None =>
      if existsb (Z.eqb 1) (removelast (xshape xa)) then Err KeyE else
      match all_some (map mean_spacing (xcoords xa)) with
      | Some c => OK c
      | None => Err ValueE
      end
  end.

(* the corners: the attribute wins; otherwise half a (effective) cell beyond the outermost coordinates *)
Definition eff_p1 (xa : dataarray) (c : list Q) : list Q :=
  match a_pmin xa with
  | Some p => p
  | None => map2 (fun v cc => hd 0 v - cc / 2) (xcoords xa) c
  end.
Definition eff_p2 (xa : dataarray) (c : list Q) : list Q :=
  match a_pmax xa with
  | Some p => p
  | None => map2 (fun v cc => last v 0 + cc / 2) (xcoords xa) c
  end.
Definition eff_units (xa : dataarray) (nd : nat) : list string :=
  match all_some (xcunits xa) with Some u => u | None => repeat "m"%string nd end.
Definition eff_tf (xa : dataarray) : Q :=
  match a_tf xa with Some t => t | None => default_tf end.

(* per-axis data (lo, hi, count, cell) for which Mesh(region, cell) is exact: lo < hi, count > 0,
   count * cell == hi - lo on every axis *)
Inductive axes : list Q -> list Q -> list Z -> list Q -> Prop :=
| axes_nil : axes [] [] [] []
| axes_cons lo hi k c los his ks cs :
    lo < hi -> (0 < k)%Z -> inject_Z k * c == hi - lo -> axes los his ks cs ->
    axes (lo :: los) (hi :: his) (k :: ks) (c :: cs).

(* evenly spaced coordinates x0 + j*c, j = 0 .. k-1, on every axis *)
Definition prog_axis (x0 c : Q) (k : Z) : list Q :=
  map (fun j => x0 + inject_Z j * c) (ziota 0 (Z.to_nat k)).
Definition prog_coords (x0s cs : list Q) (ks : list Z) : list (list Q) := map3 prog_axis x0s cs ks.
