(* C01, one coordinate axis: all facts about cell_of / i2p1 / p2i1 / contains1. *)
From DF Require Import Prelude Constants_gen Region Mesh QLemmas.
Open Scope Q_scope.

Section Axis.
Variables (lo hi : Q) (k : Z).
Hypothesis Hlh : lo < hi.
Hypothesis Hk : (0 < k)%Z.
Let c := cell_of lo hi k.

Lemma kq_pos : 0 < inject_Z k.
Proof. apply inject_Z_pos; exact Hk. Qed.

Lemma cell_pos : 0 < c.
Proof. unfold c, cell_of. apply Qdiv_pos; [lra | apply kq_pos]. Qed.

Lemma cell_times_n : inject_Z k * c == hi - lo.
Proof. unfold c, cell_of. pose proof kq_pos. field. lra. Qed.

Lemma centre_formula i : i2p1 lo c i == lo + (inject_Z i + (1 # 2)) * c.
Proof. unfold i2p1, half_cell. reflexivity. Qed.

Lemma i2p1_inside i : (0 <= i < k)%Z -> lo < i2p1 lo c i /\ i2p1 lo c i < hi.
Proof.
  intros [H0 H1]. rewrite centre_formula.
  pose proof cell_pos as Hc. pose proof cell_times_n as Hn.
  assert (Hi0 : 0 <= inject_Z i) by (change 0 with (inject_Z 0); rewrite <- Zle_Qle; exact H0).
  assert (Hi1 : inject_Z i + 1 <= inject_Z k).
  { change 1 with (inject_Z 1). rewrite <- inject_Z_plus, <- Zle_Qle. lia. }
  split.
  - assert (0 < (inject_Z i + (1 # 2)) * c) by (apply Qmult_lt_0_compat; lra). lra.
  - assert ((inject_Z i + (1 # 2)) * c < inject_Z k * c).
    { apply Qmult_lt_compat_r; lra. }
    lra.
Qed.

Lemma floor_of_centre i : Qfloor ((i2p1 lo c i - lo) / c) = i.
Proof.
  pose proof cell_pos as Hc.
  assert (E : (i2p1 lo c i - lo) / c == inject_Z i + (1 # 2)).
  { rewrite centre_formula. field. lra. }
  rewrite E. apply Qfloor_unique; [lra|]. rewrite inject_Z_plus. change (inject_Z 1) with 1. lra.
Qed.

Lemma p2i1_i2p1 i : (0 <= i < k)%Z -> p2i1 lo c k (i2p1 lo c i) = i.
Proof. intros H. unfold p2i1. rewrite floor_of_centre. unfold Qclip. lia. Qed.

Lemma p2i1_range p : (0 <= p2i1 lo c k p < k)%Z.
Proof. unfold p2i1, Qclip. lia. Qed.

(* sharp containment for points of the half-open region *)
Lemma p2i1_cell p : lo <= p -> p < hi ->
  let i := p2i1 lo c k p in
  lo + inject_Z i * c <= p /\ p < lo + (inject_Z i + 1) * c.
Proof.
  intros H0 H1 i. pose proof cell_pos as Hc. pose proof cell_times_n as Hn.
  set (x := (p - lo) / c).
  assert (Hx : x * c == p - lo) by (unfold x; field; lra).
  destruct (Qfloor_bounds x) as [F0 F1].
  assert (X0 : 0 <= x).
  { unfold x. apply Qle_shift_div_l; [exact Hc|]. lra. }
  assert (X1 : x < inject_Z k).
  { unfold x. apply Qlt_shift_div_r; [exact Hc|]. lra. }
  assert (Z0 : (0 <= Qfloor x)%Z).
  { rewrite <- (Qfloor_Z 0). apply Qfloor_resp_le. exact X0. }
  assert (Z1 : (Qfloor x < k)%Z).
  { rewrite Zlt_Qlt. eapply Qle_lt_trans; [apply Qfloor_le | exact X1]. }
  assert (Ei : i = Qfloor x).
  { unfold i, p2i1, Qclip. fold x. lia. }
  rewrite Ei. split.
  - assert (inject_Z (Qfloor x) * c <= x * c) by (apply Qmult_le_compat_r; lra). lra.
  - assert (x * c < (inject_Z (Qfloor x) + 1) * c) by (apply Qmult_lt_compat_r; lra). lra.
Qed.

(* the upper face (and anything beyond it that the tolerance lets through) lands in the last cell *)
Lemma p2i1_upper p : hi <= p -> p2i1 lo c k p = (k - 1)%Z.
Proof.
  intros H. pose proof cell_pos as Hc. pose proof cell_times_n as Hn.
  assert (X : inject_Z k <= (p - lo) / c).
  { apply Qle_shift_div_l; [exact Hc|]. lra. }
  assert (Z1 : (k <= Qfloor ((p - lo) / c))%Z).
  { rewrite <- (Qfloor_Z k). apply Qfloor_resp_le. exact X. }
  unfold p2i1, Qclip. lia.
Qed.

Lemma p2i1_lower p : p <= lo -> p2i1 lo c k p = 0%Z.
Proof.
  intros H. pose proof cell_pos as Hc.
  destruct (Qlt_le_dec p lo) as [Hlt | Hge].
  - assert (X : (p - lo) / c < 0).
    { apply Qlt_shift_div_r; [exact Hc|]. lra. }
    assert (Z1 : (Qfloor ((p - lo) / c) < 0)%Z).
    { rewrite Zlt_Qlt. eapply Qle_lt_trans; [apply Qfloor_le | exact X]. }
    unfold p2i1, Qclip. lia.
  - assert (E : (p - lo) / c == 0) by (field_simplify_eq; lra).
    unfold p2i1. rewrite E. change (Qfloor 0) with 0%Z. unfold Qclip. lia.
Qed.

(* tolerance band of `in` *)
Variables (rtol atol : Q).
Hypothesis Hr : 0 <= rtol.
Hypothesis Ha : 0 <= atol.
Definition tau (p : Q) : Q := atol + rtol * Qabs p.

Lemma tau_nonneg p : 0 <= tau p.
Proof. unfold tau. pose proof (Qabs_nonneg_mult rtol p Hr). lra. Qed.

Lemma contains1_spec p :
  contains1 rtol atol lo hi p = true <-> (lo - tau p <= p /\ p <= hi + tau p).
Proof.
  unfold contains1, isclose. fold (tau p).
  rewrite andb_true_iff, !orb_true_iff, !Qle_bool_iff.
  pose proof (tau_nonneg p) as Ht.
  split.
  - intros [[A | A] [B | B]]; split; try lra.
    + apply Qabs_Qle_condition in B. lra.
    + apply Qabs_Qle_condition in A. lra.
    + apply Qabs_Qle_condition in A. lra.
    + apply Qabs_Qle_condition in B. lra.
  - intros [A B]. split.
    + destruct (Qlt_le_dec p lo) as [L | L]; [right | left; exact L].
      apply Qabs_Qle_condition. lra.
    + destruct (Qlt_le_dec hi p) as [L | L]; [right | left; exact L].
      apply Qabs_Qle_condition. lra.
Qed.

Lemma contains1_inside p : lo <= p -> p <= hi -> contains1 rtol atol lo hi p = true.
Proof. intros A B. apply contains1_spec. pose proof (tau_nonneg p). lra. Qed.

Lemma contains1_reject p : p < lo - tau p \/ hi + tau p < p -> contains1 rtol atol lo hi p = false.
Proof.
  intros H. destruct (contains1 rtol atol lo hi p) eqn:E; [|reflexivity].
  apply contains1_spec in E. lra.
Qed.

(* every accepted point maps to an in-range cell that contains it up to the tolerance *)
Lemma p2i1_cell_tol p : contains1 rtol atol lo hi p = true ->
  let i := p2i1 lo c k p in
  (0 <= i < k)%Z /\ lo + inject_Z i * c - tau p <= p /\ p <= lo + (inject_Z i + 1) * c + tau p.
Proof.
  intros Hc i. apply contains1_spec in Hc. destruct Hc as [A B].
  pose proof (tau_nonneg p) as Ht. pose proof cell_pos as Hcp. pose proof cell_times_n as Hn.
  split; [apply p2i1_range|].
  destruct (Qlt_le_dec p lo) as [L | L].
  - unfold i. rewrite p2i1_lower by lra. change (inject_Z 0) with 0. lra.
  - destruct (Qlt_le_dec p hi) as [U | U].
    + destruct (p2i1_cell p L U) as [P Q0]. fold i in P, Q0. lra.
    + unfold i. rewrite p2i1_upper by exact U.
      replace (inject_Z (k - 1)) with (inject_Z k - 1)
        by (unfold Z.sub; rewrite inject_Z_plus; reflexivity).
      lra.
Qed.

(* exactly one half-open cell contains a point of [lo, hi) *)
Lemma tiling1 p : lo <= p -> p < hi ->
  exists i, ((0 <= i < k)%Z /\ lo + inject_Z i * c <= p /\ p < lo + (inject_Z i + 1) * c) /\
    forall j, (0 <= j < k)%Z -> lo + inject_Z j * c <= p -> p < lo + (inject_Z j + 1) * c -> j = i.
Proof.
  intros H0 H1. exists (p2i1 lo c k p). split.
  - split; [apply p2i1_range | apply p2i1_cell; assumption].
  - intros j Hj A B. pose proof cell_pos as Hc.
    unfold p2i1.
    assert (F : Qfloor ((p - lo) / c) = j).
    { apply Qfloor_unique.
      - apply Qle_shift_div_l; [exact Hc|]. lra.
      - apply Qlt_shift_div_r; [exact Hc|]. rewrite inject_Z_plus. change (inject_Z 1) with 1. lra. }
    rewrite F. unfold Qclip. lia.
Qed.

(* linspace views *)
Lemma cells_axis_nth j : (0 <= j < k)%Z ->
  linspace_at (lo + c / 2) (hi - c / 2) k j == i2p1 lo c j.
Proof.
  intros Hj. unfold linspace_at. pose proof cell_times_n as Hn. pose proof cell_pos as Hc.
  rewrite centre_formula.
  destruct (Z.eqb_spec k 1) as [E | E].
  - assert (j = 0%Z) by lia. subst j. change (inject_Z 0) with 0. field.
  - assert (K1 : 0 < inject_Z (k - 1)) by (apply inject_Z_pos; lia).
    assert (EK : inject_Z (k - 1) == inject_Z k - 1)
      by (unfold Z.sub; rewrite inject_Z_plus; reflexivity).
    assert (D : (hi - c / 2 - (lo + c / 2)) / inject_Z (k - 1) == c).
    { setoid_replace (hi - c / 2 - (lo + c / 2)) with (inject_Z (k - 1) * c).
      - field. lra.
      - rewrite EK. assert (H2 : c / 2 + c / 2 == c) by field. lra. }
    rewrite D. field.
Qed.

End Axis.

Arguments i2p1_inside {lo hi k}.
Arguments p2i1_i2p1 {lo hi k}.
Arguments p2i1_cell {lo hi k}.
Arguments p2i1_upper {lo hi k}.
Arguments p2i1_lower {lo hi k}.
Arguments contains1_spec {lo hi rtol atol}.
Arguments contains1_inside {lo hi rtol atol}.
Arguments contains1_reject {lo hi rtol atol}.
Arguments p2i1_cell_tol {lo hi k}  _ _ {rtol atol}.
Arguments tiling1 {lo hi k}.

Lemma cell_is_edges_over_n (lo hi : Q) (k : Z) :
  lo < hi -> (0 < k)%Z -> 0 < cell_of lo hi k /\ inject_Z k * cell_of lo hi k == hi - lo.
Proof. intros H1 H2. split; [apply cell_pos | apply cell_times_n]; assumption. Qed.

Lemma tiling_axis (lo hi : Q) (k : Z) (p : Q) :
  lo < hi -> (0 < k)%Z -> lo <= p -> p < hi ->
  let c := cell_of lo hi k in
  exists i, ((0 <= i < k)%Z /\ lo + inject_Z i * c <= p /\ p < lo + (inject_Z i + 1) * c) /\
    forall j, (0 <= j < k)%Z -> lo + inject_Z j * c <= p -> p < lo + (inject_Z j + 1) * c -> j = i.
Proof. intros H1 H2 H3 H4. exact (tiling1 H1 H2 p H3 H4). Qed.
