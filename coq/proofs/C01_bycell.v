(* C01: the n-d by-cell constructor.  Whatever Mesh(region=r, cell=c) accepts sits on r, has one
   count per direction and, in every direction, the edge is a whole number of cells up to the
   documented tolerance (0.1 % of the smallest cell length). *)
From DF Require Import Prelude Constants_gen Region Mesh ListLemmas QLemmas C01_axis C01_nd C01_lattice C07_accept.
Open Scope Q_scope.

Lemma existsb_false_all {A} (f : A -> bool) l : existsb f l = false -> forall x, In x l -> f x = false.
Proof.
  intros H x Hx. destruct (f x) eqn:E; [|reflexivity].
  assert (existsb f l = true) by (apply existsb_exists; exists x; split; assumption). congruence.
Qed.

Lemma qlist_min_le_nth l a : (a < length l)%nat -> qlist_min l <= nth a l 0.
Proof.
  destruct l as [|h t]; [simpl; lia|]. intro Ha.
  assert (G : forall t h x, In x (h :: t) -> fold_left Qmin t h <= x).
  { clear. induction t as [|y t IH]; simpl; intros h x Hx.
    - destruct Hx as [->|[]]. apply Qle_refl.
    - destruct Hx as [->|[->|Hx]].
      + eapply Qle_trans; [apply IH; left; reflexivity | apply Q.le_min_l].
      + eapply Qle_trans; [apply IH; left; reflexivity | apply Q.le_min_r].
      + apply IH. right. exact Hx. }
  unfold qlist_min. apply G. apply nth_In. exact Ha.
Qed.

Theorem mesh_by_cell_sound (r : region) (c : list Q) (m : mesh) :
  wf_region r -> mesh_by_cell r c = OK m ->
  reg m = r /\ length c = ndim r /\ length (n m) = ndim r /\
  forall a, (a < ndim r)%nat ->
    0 < nth a c 0 /\
    nth a (n m) 0%Z = Qround_half_even ((nth a (pmax r) 0 - nth a (pmin r) 0) / nth a c 0) /\
    Qabs ((nth a (pmax r) 0 - nth a (pmin r) 0) - inject_Z (nth a (n m) 0%Z) * nth a c 0) <= bycell_tol c.
Proof.
  intros W H. pose proof W as [W1 [W0 _]]. unfold mesh_by_cell in H.
  destruct (negb (length c =? ndim r)%nat) eqn:E1; [discriminate|].
  destruct (negb (forallb (fun x => Qltb 0 x) c)) eqn:E2; [discriminate|].
  destruct (negb (contains_pt r (pmin r) && contains_pt r (map2 Qplus (pmin r) c))) eqn:E3; [discriminate|].
  destruct (existsb (fun b => b) (map2 (bad_rem (bycell_tol c)) c (edges r))) eqn:E4; [discriminate|].
  inversion H; subst m; clear H. simpl.
  apply negb_false_iff in E1, E2. apply Nat.eqb_eq in E1.
  assert (Le : length (edges r) = ndim r).
  { unfold edges, edges_of, ndim. rewrite map2_length. lia. }
  split; [reflexivity|]. split; [exact E1|]. split; [rewrite map2_length; lia|].
  intros a Ha.
  assert (Cpos : 0 < nth a c 0).
  { rewrite forallb_forall in E2. apply Qltb_true. apply E2. apply nth_In. lia. }
  assert (Ee : nth a (edges r) 0 = nth a (pmax r) 0 - nth a (pmin r) 0).
  { unfold edges, edges_of. unfold ndim in *. apply (nth_map2 Qminus (pmax r) (pmin r) a 0 0 0); lia. }
  assert (Nb : bad_rem (bycell_tol c) (nth a c 0) (nth a (edges r) 0) = false).
  { assert (Hin : In (nth a (map2 (bad_rem (bycell_tol c)) c (edges r)) false)
                      (map2 (bad_rem (bycell_tol c)) c (edges r))).
    { apply nth_In. rewrite map2_length. lia. }
    pose proof (existsb_false_all _ _ E4 _ Hin) as A. cbv beta in A.
    rewrite (nth_map2 _ _ _ _ false 0 0) in A by lia. exact A. }
  assert (En : nth a (map2 (fun e x => Qround_half_even (e / x)) (edges r) c) 0%Z
               = Qround_half_even (nth a (edges r) 0 / nth a c 0)).
  { apply (nth_map2 (fun e x => Qround_half_even (e / x)) (edges r) c a 0%Z 0 0); lia. }
  split; [exact Cpos|]. rewrite En, Ee in *. split; [reflexivity|].
  assert (Tol : 0 <= bycell_tol c).
  { unfold bycell_tol. apply Qmult_le_0_compat; [|unfold divisibility_factor; lra].
    apply Qlt_le_weak. apply qlist_min_pos.
    - destruct c; simpl in *; [unfold ndim in *; lia | discriminate].
    - intros e He. rewrite forallb_forall in E2. apply Qltb_true. apply E2. exact He. }
  assert (T2 : 2 * bycell_tol c < nth a c 0).
  { unfold bycell_tol, divisibility_factor.
    pose proof (qlist_min_le_nth c a ltac:(lia)) as M.
    assert (0 < qlist_min c).
    { apply qlist_min_pos.
      - destruct c; simpl in *; [unfold ndim in *; lia | discriminate].
      - intros e He. rewrite forallb_forall in E2. apply Qltb_true. apply E2. exact He. }
    lra. }
  exact (bycell_accept_close (nth a c 0) (nth a (pmax r) 0 - nth a (pmin r) 0) (bycell_tol c) Cpos Tol T2 Nb).
Qed.
