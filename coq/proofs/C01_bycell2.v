(* C01: the by-cell constructor establishes wf_mesh as soon as the tolerance is smaller than every
   edge; without that guard (a tolerance factor of a thousand or more, i.e. a comparison tolerance
   larger than the region itself) model AND implementation return a mesh with zero cells. *)
From DF Require Import Prelude Constants_gen Region Mesh ListLemmas QLemmas C01_axis C01_nd C01_lattice C07_accept C01_bycell.
Open Scope Q_scope.

Theorem mesh_by_cell_wf (r : region) (c : list Q) (m : mesh) :
  wf_region r -> mesh_by_cell r c = OK m ->
  (forall a, (a < ndim r)%nat -> bycell_tol c < nth a (pmax r) 0 - nth a (pmin r) 0) ->
  wf_mesh m.
Proof.
  intros W H Hb. destruct (mesh_by_cell_sound r c m W H) as (Hr & Hc & Hn & Hax).
  unfold wf_mesh. rewrite Hr. split; [exact W|]. split; [exact Hn|].
  apply Forall_forall. intros k Hk.
  destruct (In_nth (n m) k 0%Z Hk) as [a [Ha Ea]]. rewrite Hn in Ha.
  destruct (Hax a Ha) as (Cpos & _ & Hclose). specialize (Hb a Ha).
  rewrite Ea in Hclose.
  destruct (Z_lt_le_dec 0 k) as [Hpos|Hneg]; [exact Hpos|]. exfalso.
  assert (Hk0 : inject_Z k <= 0) by (change 0 with (inject_Z 0); rewrite <- Zle_Qle; exact Hneg).
  assert (Hprod : inject_Z k * nth a c 0 <= 0).
  { pose proof (Qmult_le_compat_r (inject_Z k) 0 (nth a c 0) Hk0 ltac:(lra)) as P.
    setoid_replace (0 * nth a c 0) with 0 in P by ring. exact P. }
  set (e := nth a (pmax r) 0 - nth a (pmin r) 0) in *.
  pose proof (Qle_Qabs (e - inject_Z k * nth a c 0)) as Habs.
  lra.
Qed.

(* the guard is needed, in the model as in the implementation: Region(0, 1, tolerance_factor=2000)
   with cell 1000 is accepted with zero cells *)
Theorem by_cell_degenerate_witness :
  exists r c m, wf_region r /\ mesh_by_cell r c = OK m /\ n m = [0%Z].
Proof.
  exists (mkRegion [0] [1] ["x"%string] ["m"%string] 2000), [1000],
         (mkMesh (mkRegion [0] [1] ["x"%string] ["m"%string] 2000) [0%Z] "" []).
  split.
  - unfold wf_region; simpl. repeat split; try lia; try lra.
    + constructor; [intros []|constructor].
    + constructor; [lra|constructor].
  - split; [vm_compute; reflexivity | reflexivity].
Qed.
