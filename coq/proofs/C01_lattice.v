(* C01: enumeration order, lattice views (cells / vertices), cell volumes, mesh-by-cell. *)
From DF Require Import Prelude Constants_gen Region Mesh QLemmas ListLemmas C01_axis.
Open Scope Q_scope.

(* ---------- enumeration ---------- *)
Lemma flat_map_length_const {A B} (g : A -> list B) (l : list A) m :
  (forall x, In x l -> length (g x) = m) -> length (flat_map g l) = (length l * m)%nat.
Proof.
  induction l as [|x l IH]; intros H; simpl; [reflexivity|].
  rewrite app_length, IH, (H x) by (intros; try apply H; simpl; auto). lia.
Qed.

Lemma nth_flat_map_const {A B} (g : A -> list B) (l : list A) m q r dA dB :
  (forall x, length (g x) = m) -> (q < length l)%nat -> (r < m)%nat ->
  nth (q * m + r) (flat_map g l) dB = nth r (g (nth q l dA)) dB.
Proof.
  intros Hm. revert q. induction l as [|x l IH]; intros q Hq Hr; simpl in *; [lia|].
  destruct q as [|q].
  - simpl. rewrite app_nth1 by (rewrite Hm; exact Hr). reflexivity.
  - rewrite app_nth2 by (rewrite Hm; simpl; lia). rewrite Hm.
    replace (S q * m + r - m)%nat with (q * m + r)%nat by (simpl; lia).
    apply IH; lia.
Qed.

Definition nsizes (ns : list Z) : list nat := map Z.to_nat ns.

Lemma indices_xfast_length ns : length (indices_xfast ns) = nprod (nsizes ns).
Proof.
  induction ns as [|k rest IH]; simpl; [reflexivity|].
  rewrite (flat_map_length_const _ _ (Z.to_nat k)).
  - rewrite IH. lia.
  - intros x _. rewrite map_length, ziota_length. reflexivity.
Qed.

Inductive in_range : list Z -> list Z -> Prop :=
| ir_nil : in_range [] []
| ir_cons k ns j i : (0 <= j < k)%Z -> in_range ns i -> in_range (k :: ns) (j :: i).

Lemma ravel_xfast_bounds ns i : in_range ns i ->
  (0 <= ravel_xfast ns i < zprod ns)%Z.
Proof.
  induction 1 as [|k ns j i Hj Hr IH]; simpl; [lia|]. unfold zprod in *. simpl. nia.
Qed.

(* the index found at position i0 + n0*(i1 + n1*(...)) of the enumeration is i: first dimension fastest *)
Theorem nth_ravel_xfast ns i : in_range ns i ->
  nth (Z.to_nat (ravel_xfast ns i)) (indices_xfast ns) [] = i.
Proof.
  induction 1 as [|k ns j i Hj Hr IH]; [reflexivity|].
  pose proof (ravel_xfast_bounds ns i Hr) as HB.
  cbn [ravel_xfast indices_xfast].
  replace (Z.to_nat (j + k * ravel_xfast ns i))
    with (Z.to_nat (ravel_xfast ns i) * Z.to_nat k + Z.to_nat j)%nat by nia.
  rewrite (nth_flat_map_const _ _ (Z.to_nat k) _ _ [] []).
  - rewrite IH. rewrite (nth_indep _ [] (0%Z :: i)) by (rewrite map_length, ziota_length; lia).
    rewrite (map_nth (fun i0 => i0 :: i) (ziota 0 (Z.to_nat k)) 0%Z).
    rewrite nth_ziota by lia. f_equal. lia.
  - intros x. rewrite map_length, ziota_length. reflexivity.
  - rewrite indices_xfast_length.
    assert (E : Z.of_nat (nprod (nsizes ns)) = zprod ns).
    { clear -Hr. induction Hr as [|k ns j i Hj Hr IH]; [reflexivity|].
      unfold zprod in *. simpl. rewrite Nat2Z.inj_mul, IH, Z2Nat.id by lia. reflexivity. }
    lia.
  - lia.
Qed.

Theorem indices_xfast_in_range ns i : Forall (fun k => 0 <= k)%Z ns ->
  In i (indices_xfast ns) -> in_range ns i.
Proof.
  intros Hns. revert i. induction Hns as [|k ns Hk Hns IH]; intros i Hi; simpl in Hi.
  - destruct Hi as [E | []]. subst i. constructor.
  - apply in_flat_map in Hi. destruct Hi as [tl [Htl Hi]].
    apply in_map_iff in Hi. destruct Hi as [j [E Hj]]. subst i.
    apply In_ziota in Hj. constructor; [lia | apply IH; exact Htl].
Qed.

(* ---------- cells / vertices ---------- *)
Lemma nth_linspace a b k j : (0 <= j < k)%Z ->
  nth (Z.to_nat j) (linspace a b k) 0 = linspace_at a b k j.
Proof.
  intros Hj. unfold linspace.
  rewrite (nth_indep _ 0 (linspace_at a b k 0%Z)) by (rewrite map_length, ziota_length; lia).
  rewrite (map_nth (linspace_at a b k) (ziota 0 (Z.to_nat k)) 0%Z).
  rewrite nth_ziota by lia. f_equal. lia.
Qed.

Theorem cells_are_centres lo hi k j : lo < hi -> (0 < k)%Z -> (0 <= j < k)%Z ->
  nth (Z.to_nat j) (cells_axis lo hi k) 0 == i2p1 lo (cell_of lo hi k) j.
Proof.
  intros Hlh Hk Hj. unfold cells_axis. rewrite nth_linspace by exact Hj.
  apply cells_axis_nth; assumption.
Qed.

Theorem vertices_are_faces lo hi k j : lo < hi -> (0 < k)%Z -> (0 <= j <= k)%Z ->
  nth (Z.to_nat j) (vertices_axis lo hi k) 0 == lo + inject_Z j * cell_of lo hi k.
Proof.
  intros Hlh Hk Hj. unfold vertices_axis. rewrite nth_linspace by lia.
  unfold linspace_at. destruct (Z.eqb_spec (k + 1) 1) as [E | _]; [lia|].
  replace (k + 1 - 1)%Z with k by lia. unfold cell_of. reflexivity.
Qed.

Lemma cells_axis_length lo hi k : (0 <= k)%Z -> length (cells_axis lo hi k) = Z.to_nat k.
Proof. intros. unfold cells_axis, linspace. rewrite map_length, ziota_length. reflexivity. Qed.
Lemma vertices_axis_length lo hi k : (0 <= k)%Z -> length (vertices_axis lo hi k) = Z.to_nat (k + 1).
Proof. intros. unfold vertices_axis, linspace. rewrite map_length, ziota_length. reflexivity. Qed.

(* ---------- the cells' volumes add up to the region's volume ---------- *)
Theorem volume_tiling los his ks :
  Forall2 (fun a b => a < b) los his -> length ks = length los -> Forall (fun k => 0 < k)%Z ks ->
  inject_Z (zprod ks) * qprod (map3 cell_of los his ks) == qprod (map2 Qminus his los).
Proof.
  intros H. revert ks. induction H as [|lo hi los his Hlh H IH]; intros [|k ks] Hl Hk; simpl in *; try discriminate.
  - reflexivity.
  - inversion Hk as [|? ? Hk0 Hk1]; subst.
    unfold zprod. simpl. fold (zprod ks). rewrite inject_Z_mult.
    specialize (IH ks ltac:(lia) Hk1).
    pose proof (cell_times_n lo hi k Hk0) as E.
    setoid_replace (inject_Z k * inject_Z (zprod ks) * (cell_of lo hi k * qprod (map3 cell_of los his ks)))
      with ((inject_Z k * cell_of lo hi k) * (inject_Z (zprod ks) * qprod (map3 cell_of los his ks))) by ring.
    rewrite E, IH. reflexivity.
Qed.

(* ---------- mesh by cell size, one axis ---------- *)
Section ByCell.
Variables (x e tol : Q).
Hypothesis Hx : 0 < x.
Hypothesis Htol : 0 <= tol.

Lemma rem_bounds : 0 <= Qremainder e x /\ Qremainder e x < x.
Proof.
  unfold Qremainder. destruct (Qfloor_bounds (e / x)) as [A B].
  assert (E : e == (e / x) * x) by (field; lra).
  split.
  - assert (inject_Z (Qfloor (e / x)) * x <= (e / x) * x) by (apply Qmult_le_compat_r; lra). lra.
  - assert ((e / x) * x < (inject_Z (Qfloor (e / x)) + 1) * x) by (apply Qmult_lt_compat_r; lra). lra.
Qed.

(* a whole number of cells is always accepted, with that count *)
Theorem bycell_exact_multiple m : (1 <= m)%Z -> e == inject_Z m * x ->
  bad_rem tol x e = false /\ Qround_half_even (e / x) = m.
Proof.
  intros Hm He.
  assert (Q1 : e / x == inject_Z m) by (rewrite He; field; lra).
  assert (F : Qfloor (e / x) = m) by (rewrite Q1; apply Qfloor_Z).
  split.
  - unfold bad_rem, Qremainder. rewrite F.
    apply andb_false_iff. left. apply Qltb_false. rewrite He. lra.
  - unfold Qround_half_even. rewrite F.
    assert (C : (e / x - inject_Z m ?= 1 # 2) = Lt) by (rewrite <- Qlt_alt; lra).
    rewrite C. reflexivity.
Qed.

(* whatever is accepted is a whole number of cells up to the tolerance *)
Theorem bycell_accept_close : 2 * tol < x -> bad_rem tol x e = false ->
  Qabs (e - inject_Z (Qround_half_even (e / x)) * x) <= tol.
Proof.
  intros H2 Hb. destruct rem_bounds as [R0 R1].
  unfold bad_rem in Hb. apply andb_false_iff in Hb.
  set (f := Qfloor (e / x)) in *. fold f in R0, R1. unfold Qremainder in *. fold f in Hb, R0, R1.
  assert (Er : e / x - inject_Z f == (e - inject_Z f * x) / x) by (field; lra).
  unfold Qround_half_even. fold f.
  destruct Hb as [Hb | Hb]; apply Qltb_false in Hb.
  - (* remainder <= tol: rounds down *)
    assert (C : (e / x - inject_Z f ?= 1 # 2) = Lt).
    { rewrite <- Qlt_alt, Er. apply Qlt_shift_div_r; lra. }
    rewrite C. apply Qabs_Qle_condition. lra.
  - (* remainder >= x - tol: rounds up *)
    assert (C : (e / x - inject_Z f ?= 1 # 2) = Gt).
    { rewrite <- Qgt_alt, Er. apply Qlt_shift_div_l; lra. }
    rewrite C. rewrite inject_Z_plus. change (inject_Z 1) with 1.
    apply Qabs_Qle_condition. lra.
Qed.

(* a remainder strictly between tol and cell - tol is rejected *)
Theorem bycell_reject : tol < Qremainder e x -> Qremainder e x < x - tol -> bad_rem tol x e = true.
Proof.
  intros A B. unfold bad_rem. apply andb_true_iff. split; apply Qltb_true; assumption.
Qed.
End ByCell.

Lemma nonvacuous_mesh :
  let r := mkRegion [0; (-1)] [4; 2] ["x"%string; "y"%string] ["m"%string; "m"%string] (1 # 1000000000000) in
  let m := mkMesh r [4; 6]%Z "" [] in
  wf_mesh m /\ (exists p, index2point m [3; 0]%Z = OK p /\ qlist_eqb p [7 # 2; (-3) # 4] = true) /\
  point2index m [4; (-1)] = OK [3; 0]%Z.
Proof.
  cbv zeta. split; [|split].
  - unfold wf_mesh, wf_region. simpl. repeat split; try lia; try lra.
    + repeat constructor; simpl; intuition discriminate.
    + repeat constructor; lra.
    + repeat constructor; lia.
  - eexists. split; [vm_compute; reflexivity | vm_compute; reflexivity].
  - vm_compute. reflexivity.
Qed.
