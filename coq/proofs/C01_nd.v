(* C01, n-dimensional lifts of the per-axis lemmas, enumeration, by-cell constructor. *)
From DF Require Import Prelude Constants_gen Region Mesh QLemmas ListLemmas C01_axis.
Open Scope Q_scope.

Lemma Forall2_nth_Q (P : Q -> Q -> Prop) l1 l2 a :
  Forall2 P l1 l2 -> (a < length l1)%nat -> P (nth a l1 0) (nth a l2 0).
Proof.
  intros H; revert a; induction H as [|x y l1 l2 Hxy H IH]; intros [|a] Ha; simpl in *; try lia; auto.
  apply IH; lia.
Qed.

Lemma Forall_nth_Z (P : Z -> Prop) l a d : Forall P l -> (a < length l)%nat -> P (nth a l d).
Proof.
  intros H; revert a; induction H as [|x l Hx H IH]; intros [|a] Ha; simpl in *; try lia; auto.
  apply IH; lia.
Qed.

Section ND.
Variable m : mesh.
Hypothesis Hwf : wf_mesh m.
Let nd := length (pmin (reg m)).

Lemma wf_lengths : length (pmax (reg m)) = nd /\ length (n m) = nd /\ length (cell m) = nd.
Proof.
  destruct Hwf as [[H1 _] [H2 _]]. unfold nd, cell. rewrite map3_length. repeat split; lia.
Qed.

Lemma wf_axis a : (a < nd)%nat ->
  nth a (pmin (reg m)) 0 < nth a (pmax (reg m)) 0 /\ (0 < nth a (n m) 1%Z)%Z.
Proof.
  intros Ha. destruct Hwf as [[H1 [_ [_ [_ [_ [H6 _]]]]]] [H2 H3]]. split.
  - apply Forall2_nth_Q; assumption.
  - apply Forall_nth_Z; [assumption | fold nd in H2; lia].
Qed.

Lemma cell_nth a : (a < nd)%nat ->
  nth a (cell m) 0 = cell_of (nth a (pmin (reg m)) 0) (nth a (pmax (reg m)) 0) (nth a (n m) 1%Z).
Proof.
  intros Ha. destruct wf_lengths as [L1 [L2 _]]. unfold cell.
  apply nth_map3; fold nd; lia.
Qed.

Lemma tf_nonneg : 0 <= tf (reg m).
Proof. destruct Hwf as [[_ [_ [_ [_ [_ [_ H]]]]]] _]. exact H. Qed.

Lemma edges_pos_all : forall e, In e (edges (reg m)) -> 0 < e.
Proof.
  destruct Hwf as [[H1 [_ [_ [_ [_ [H6 _]]]]]] _]. unfold edges, edges_of.
  induction H6 as [|x y l1 l2 Hxy H IH]; simpl; [tauto|].
  intros e [E | E]; [subst e; lra | apply IH; [simpl in H1; lia | exact E]].
Qed.

Lemma qlist_min_pos l : l <> [] -> (forall e, In e l -> 0 < e) -> 0 < qlist_min l.
Proof.
  destruct l as [|h t]; [congruence|]. intros _ H. unfold qlist_min.
  assert (Hh : 0 < h) by (apply H; left; reflexivity).
  assert (Ht : forall e, In e t -> 0 < e) by (intros e He; apply H; right; exact He).
  clear H. revert h Hh. induction t as [|x t IH]; intros h Hh; simpl; [exact Hh|].
  apply IH.
  - intros e He. apply Ht. right. exact He.
  - apply Q.min_glb_lt; [exact Hh | apply Ht; left; reflexivity].
Qed.

Lemma reg_atol_nonneg : 0 <= reg_atol (reg m).
Proof.
  unfold reg_atol. apply Qmult_le_0_compat; [|apply tf_nonneg].
  apply Qlt_le_weak. apply qlist_min_pos; [|apply edges_pos_all].
  destruct Hwf as [[H1 [H0 _]] _]. unfold edges, edges_of.
  destruct (pmin (reg m)), (pmax (reg m)); simpl in *; try lia; congruence.
Qed.

(* ---- index -> centre -> index ---- *)
Theorem roundtrip (i : list Z) (p : list Q) :
  index2point m i = OK p -> point2index m p = OK i.
Proof.
  destruct wf_lengths as [L1 [L2 L3]].
  unfold index2point, ndim. fold nd.
  destruct (length i =? nd)%nat eqn:El; simpl; [|discriminate].
  apply Nat.eqb_eq in El.
  destruct (forallb2 in_range1 (n m) i) eqn:Er; simpl; [|discriminate].
  intros E. inversion E as [Ep]. clear E.
  apply (forallb2_nth in_range1 (n m) i 1%Z 0%Z) in Er. destruct Er as [_ Er].
  assert (Lp : length (map3 i2p1 (pmin (reg m)) (cell m) i) = nd).
  { rewrite map3_length. fold nd. lia. }
  assert (Pn : forall a, (a < nd)%nat ->
     nth a (map3 i2p1 (pmin (reg m)) (cell m) i) 0 =
     i2p1 (nth a (pmin (reg m)) 0) (nth a (cell m) 0) (nth a i 0%Z)).
  { intros a Ha. apply nth_map3; fold nd; lia. }
  unfold point2index, ndim. fold nd. rewrite Lp, Nat.eqb_refl. simpl.
  assert (Hc : contains_pt (reg m) (map3 i2p1 (pmin (reg m)) (cell m) i) = true).
  { unfold contains_pt, ndim. fold nd. rewrite Lp, Nat.eqb_refl. simpl.
    apply forallb_id_nth. intros a Ha. rewrite map3_length in Ha. fold nd in Ha.
    rewrite (nth_map3 _ _ _ _ _ true 0 0 0) by (fold nd; lia).
    destruct (wf_axis a ltac:(lia)) as [Hlh Hk].
    rewrite Pn, cell_nth by lia.
    assert (Hi : (0 <= nth a i 0 < nth a (n m) 1)%Z).
    { specialize (Er a ltac:(lia)). unfold in_range1 in Er. lia. }
    destruct (i2p1_inside Hlh Hk _ Hi) as [A B].
    apply contains1_inside; [apply tf_nonneg | apply reg_atol_nonneg | lra | lra]. }
  rewrite Hc. simpl. f_equal.
  apply nth_ext_Z.
  - rewrite map3_length, combine_length. fold nd. lia.
  - intros a Ha. rewrite map3_length, combine_length in Ha. fold nd in Ha.
    rewrite (nth_map3 _ _ _ _ _ 0%Z (0, 0) 1%Z 0) by (rewrite ?combine_length; fold nd; lia).
    rewrite nth_combine by (fold nd; lia). simpl.
    rewrite Pn, cell_nth by lia.
    destruct (wf_axis a ltac:(lia)) as [Hlh Hk].
    apply p2i1_i2p1; [assumption | assumption |].
    specialize (Er a ltac:(lia)). unfold in_range1 in Er. lia.
Qed.

Theorem index2point_accepts (i : list Z) :
  length i = nd -> (forall a, (a < nd)%nat -> (0 <= nth a i 0 < nth a (n m) 1)%Z) ->
  exists p, index2point m i = OK p /\ length p = nd /\
    forall a, (a < nd)%nat ->
      nth a p 0 == nth a (pmin (reg m)) 0 + (inject_Z (nth a i 0%Z) + (1 # 2)) * nth a (cell m) 0.
Proof.
  intros Li Hr. destruct wf_lengths as [L1 [L2 L3]].
  exists (map3 i2p1 (pmin (reg m)) (cell m) i).
  unfold index2point, ndim. fold nd. rewrite Li, Nat.eqb_refl. simpl.
  assert (Er : forallb2 in_range1 (n m) i = true).
  { apply (forallb2_nth in_range1 (n m) i 1%Z 0%Z). split; [lia|].
    intros a Ha. specialize (Hr a ltac:(lia)). unfold in_range1. lia. }
  rewrite Er. simpl. split; [reflexivity|]. split.
  - rewrite map3_length. fold nd. lia.
  - intros a Ha. rewrite (nth_map3 _ _ _ _ _ 0 0 0 0%Z) by (fold nd; lia).
    unfold i2p1, half_cell. reflexivity.
Qed.

(* ---- rejection ---- *)
Theorem index_rejected (i : list Z) :
  length i <> nd \/ (exists a, (a < nd)%nat /\ ~ (0 <= nth a i 0 < nth a (n m) 1)%Z) ->
  is_ok (index2point m i) = false.
Proof.
  destruct wf_lengths as [L1 [L2 L3]].
  intros [H | [a [Ha H]]]; unfold index2point, ndim; fold nd.
  - apply Nat.eqb_neq in H. rewrite H. reflexivity.
  - destruct (length i =? nd)%nat eqn:El; [|reflexivity]. apply Nat.eqb_eq in El. simpl.
    destruct (forallb2 in_range1 (n m) i) eqn:Er; [|reflexivity].
    apply (forallb2_nth in_range1 (n m) i 1%Z 0%Z) in Er. destruct Er as [_ Er].
    specialize (Er a ltac:(lia)). unfold in_range1 in Er. lia.
Qed.

Theorem point_rejected (p : list Q) :
  length p <> nd \/
  (exists a, (a < nd)%nat /\
     let t := tau (tf (reg m)) (reg_atol (reg m)) (nth a p 0) in
     (nth a p 0 < nth a (pmin (reg m)) 0 - t \/ nth a (pmax (reg m)) 0 + t < nth a p 0)) ->
  is_ok (point2index m p) = false.
Proof.
  destruct wf_lengths as [L1 [L2 L3]].
  intros [H | [a [Ha H]]]; unfold point2index, ndim; fold nd.
  - apply Nat.eqb_neq in H. rewrite H. reflexivity.
  - destruct (length p =? nd)%nat eqn:El; [|reflexivity]. apply Nat.eqb_eq in El. simpl.
    destruct (contains_pt (reg m) p) eqn:Ec; [|reflexivity]. exfalso.
    unfold contains_pt in Ec. apply andb_true_iff in Ec. destruct Ec as [_ Ec].
    rewrite forallb_id_nth in Ec. specialize (Ec a).
    rewrite map3_length in Ec. fold nd in Ec. specialize (Ec ltac:(lia)).
    rewrite (nth_map3 _ _ _ _ _ true 0 0 0) in Ec by (fold nd; lia).
    rewrite (contains1_reject (tf_nonneg) (reg_atol_nonneg)) in Ec; [discriminate | exact H].
Qed.

(* ---- every accepted point lands in an in-range cell containing it ---- *)
Theorem cell_contains (p : list Q) (i : list Z) :
  point2index m p = OK i ->
  length i = nd /\
  forall a, (a < nd)%nat ->
    let lo := nth a (pmin (reg m)) 0 in let hi := nth a (pmax (reg m)) 0 in
    let c := nth a (cell m) 0 in let x := nth a p 0 in let j := nth a i 0%Z in
    let t := tau (tf (reg m)) (reg_atol (reg m)) x in
    (0 <= j < nth a (n m) 1)%Z /\
    lo + inject_Z j * c - t <= x /\ x <= lo + (inject_Z j + 1) * c + t /\
    (lo <= x -> x < hi -> lo + inject_Z j * c <= x /\ x < lo + (inject_Z j + 1) * c) /\
    (hi <= x -> j = (nth a (n m) 1 - 1)%Z).
Proof.
  destruct wf_lengths as [L1 [L2 L3]].
  unfold point2index, ndim. fold nd.
  destruct (length p =? nd)%nat eqn:El; simpl; [|discriminate]. apply Nat.eqb_eq in El.
  destruct (contains_pt (reg m) p) eqn:Ec; simpl; [|discriminate].
  intros E. injection E as Ei.
  split; [rewrite <- Ei, map3_length, combine_length; fold nd; lia|].
  intros a Ha.
  set (lo := nth a (pmin (reg m)) 0). set (hi := nth a (pmax (reg m)) 0).
  set (c := nth a (cell m) 0). set (x := nth a p 0). set (j := nth a i 0%Z).
  set (t := tau (tf (reg m)) (reg_atol (reg m)) x).
  unfold contains_pt in Ec. apply andb_true_iff in Ec. destruct Ec as [_ Ec].
  rewrite forallb_id_nth in Ec. specialize (Ec a).
  rewrite map3_length in Ec. fold nd in Ec. specialize (Ec ltac:(lia)).
  rewrite (nth_map3 _ _ _ _ _ true 0 0 0) in Ec by (fold nd; lia).
  destruct (wf_axis a Ha) as [Hlh Hk].
  assert (Ej : j = p2i1 lo c (nth a (n m) 1%Z) x).
  { unfold j. rewrite <- Ei.
    rewrite (nth_map3 _ _ _ _ _ 0%Z (0, 0) 1%Z 0) by (rewrite ?combine_length; fold nd; lia).
    rewrite nth_combine by (fold nd; lia). reflexivity. }
  unfold c in *. rewrite cell_nth in * by exact Ha. fold lo hi in Ej |- *.
  pose proof (p2i1_cell_tol Hlh Hk tf_nonneg reg_atol_nonneg x Ec) as [R [A B]].
  fold lo hi in R, A, B. fold t in A, B. rewrite <- Ej in R, A, B.
  split; [exact R|]. split; [exact A|]. split; [exact B|]. split.
  - intros X0 X1. rewrite Ej. apply p2i1_cell; assumption.
  - intros X. rewrite Ej. apply p2i1_upper; assumption.
Qed.

End ND.
