(* C01: (1) what the model's constructors accept is well-formed, so every C01 theorem (stated for
   wf_mesh m) applies to every mesh the correspondence checker builds from an observed input;
   (2) soundness of check_C01 in the exact regime and the transfer of the round-trip theorem to
   the observed centre. *)
From DF Require Import Prelude Constants_gen Region Mesh ListLemmas CheckSound Check_C01 C01_axis C01_nd C01_lattice.
Open Scope Q_scope.

Lemma nodupb_sound l : nodupb l = true -> NoDup l.
Proof.
  induction l as [|h t IH]; simpl; intro H; [constructor|].
  apply andb_true_iff in H. destruct H as [H1 H2]. constructor; [|auto].
  intro Hin. apply negb_true_iff in H1.
  assert (E : existsb (String.eqb h) t = true).
  { apply existsb_exists. exists h. split; [exact Hin | apply String.eqb_refl]. }
  congruence.
Qed.

Lemma default_dims_nodup_bounded :
  forallb (fun nd => nodupb (default_dims nd)) (iota 0 11) = true.
Proof. vm_compute. reflexivity. Qed.

Lemma default_dims_nodup nd : (nd <= 10)%nat -> NoDup (default_dims nd).
Proof.
  intro H. apply nodupb_sound.
  pose proof default_dims_nodup_bounded as B. rewrite forallb_forall in B.
  apply (B nd). 
  assert (Hi : forall k m x, In x (iota k m) <-> (k <= x < k + m)%nat).
  { intros k m; revert k; induction m as [|m IH]; intros k x; simpl; [lia|].
    rewrite IH. lia. }
  apply Hi. lia.
Qed.

Lemma default_dims_length nd : length (default_dims nd) = nd.
Proof.
  destruct nd as [|[|[|[|nd]]]]; try reflexivity.
  unfold default_dims. rewrite map_length, iota_length. reflexivity.
Qed.

Lemma Forall2_min_max p1 p2 :
  length p1 = length p2 ->
  existsb (fun e => Qeq_bool e 0) (edges_of (map2 Qmin p1 p2) (map2 Qmax p1 p2)) = false ->
  Forall2 (fun a b => a < b) (map2 Qmin p1 p2) (map2 Qmax p1 p2).
Proof.
  revert p2; induction p1 as [|a p1 IH]; intros [|b p2]; simpl; intros Hl He; try discriminate; [constructor|].
  unfold edges_of in He. simpl in He. apply orb_false_iff in He. destruct He as [He1 He2].
  constructor; [|apply IH; [congruence | exact He2]].
  assert (Hne : ~ Qmax a b - Qmin a b == 0).
  { intro E. apply Qeq_bool_iff in E. congruence. }
  destruct (Qlt_le_dec (Qmin a b) (Qmax a b)) as [Hlt|Hge]; [exact Hlt|].
  exfalso. apply Hne.
  pose proof (Q.le_min_l a b). pose proof (Q.le_max_l a b).
  assert (Qmin a b <= Qmax a b) by (eapply Qle_trans; eauto).
  assert (Qmax a b == Qmin a b) by (apply Qle_antisym; assumption).
  lra.
Qed.

Theorem mk_region_wf p1 p2 ds us tf_ r :
  mk_region p1 p2 ds us tf_ = OK r -> 0 <= tf_ ->
  (ds = None -> (length p1 <= 10)%nat) -> wf_region r.
Proof.
  unfold mk_region. intros H Htf Hnd.
  destruct (negb (length p1 =? length p2)%nat) eqn:E1; [simpl in H; discriminate|].
  destruct (length p1 =? 0)%nat eqn:E2; [simpl in H; discriminate|].
  apply negb_false_iff, Nat.eqb_eq in E1. apply Nat.eqb_neq in E2.
  assert (Hlo : length (map2 Qmin p1 p2) = length p1) by (rewrite map2_length; lia).
  assert (Hhi : length (map2 Qmax p1 p2) = length p1) by (rewrite map2_length; lia).
  destruct ds as [d|].
  - destruct (negb (length d =? length p1)%nat) eqn:E3; [simpl in H; discriminate|].
    destruct (negb (nodupb d)) eqn:E4; [simpl in H; discriminate|].
    apply negb_false_iff in E3, E4. apply Nat.eqb_eq in E3.
    simpl in H.
    destruct us as [u|].
    + destruct (negb (length u =? length p1)%nat) eqn:E5; [simpl in H; discriminate|].
      apply negb_false_iff, Nat.eqb_eq in E5. simpl in H.
      destruct (existsb _ _) eqn:E6; [simpl in H; discriminate|]. inversion H; subst r; clear H.
      unfold wf_region; simpl. rewrite Hlo, Hhi.
      repeat split; try lia; try assumption.
      * apply nodupb_sound; assumption.
      * apply Forall2_min_max; assumption.
    + simpl in H.
      destruct (existsb _ _) eqn:E6; [simpl in H; discriminate|]. inversion H; subst r; clear H.
      unfold wf_region; simpl. rewrite Hlo, Hhi, repeat_length.
      repeat split; try lia; try assumption.
      * apply nodupb_sound; assumption.
      * apply Forall2_min_max; assumption.
  - simpl in H. specialize (Hnd eq_refl).
    destruct us as [u|].
    + destruct (negb (length u =? length p1)%nat) eqn:E5; [simpl in H; discriminate|].
      apply negb_false_iff, Nat.eqb_eq in E5. simpl in H.
      destruct (existsb _ _) eqn:E6; [simpl in H; discriminate|]. inversion H; subst r; clear H.
      unfold wf_region; simpl. rewrite Hlo, Hhi, default_dims_length.
      repeat split; try lia; try assumption.
      * apply default_dims_nodup; assumption.
      * apply Forall2_min_max; assumption.
    + simpl in H.
      destruct (existsb _ _) eqn:E6; [simpl in H; discriminate|]. inversion H; subst r; clear H.
      unfold wf_region; simpl. rewrite Hlo, Hhi, default_dims_length, repeat_length.
      repeat split; try lia; try assumption.
      * apply default_dims_nodup; assumption.
      * apply Forall2_min_max; assumption.
Qed.

Theorem mk_mesh_n_wf r n_ m : wf_region r -> mk_mesh_n r n_ = OK m -> wf_mesh m.
Proof.
  unfold mk_mesh_n. intros Hr H.
  destruct (negb (length n_ =? ndim r)%nat) eqn:E1; [discriminate|].
  destruct (negb (forallb (fun k => (0 <? k)%Z) n_)) eqn:E2; [discriminate|].
  inversion H; subst m; clear H. apply negb_false_iff in E1, E2. apply Nat.eqb_eq in E1.
  unfold wf_mesh; simpl. split; [exact Hr|]. split; [exact E1|].
  apply Forall_forall. intros k Hk. rewrite forallb_forall in E2. apply Z.ltb_lt. apply E2. exact Hk.
Qed.

Theorem build_wf p1 p2 n_ tf_ m :
  build p1 p2 n_ tf_ = OK m -> 0 <= tf_ -> (length p1 <= 10)%nat -> wf_mesh m.
Proof.
  unfold build. intros H Htf Hnd.
  destruct (mk_region p1 p2 None None tf_) as [r|e] eqn:Er; simpl in H; [|discriminate].
  eapply mk_mesh_n_wf; [|exact H].
  eapply mk_region_wf; eauto.
Qed.

(* ---- soundness of check_C01, exact regime ---- *)
Lemma check_i2p_sound p1 p2 n_ tf_ i q :
  check_C01 (CI2P true p1 p2 n_ tf_ i (Some q)) = true ->
  exists m p, build p1 p2 n_ tf_ = OK m /\ index2point m i = OK p /\ Forall2 Qeq p q.
Proof.
  simpl. destruct (build p1 p2 n_ tf_) as [m|e]; [|discriminate].
  destruct (index2point m i) as [p|e] eqn:Ep; [|discriminate].
  intro H. exists m, p. split; [reflexivity|]. split; [exact Ep|].
  apply qlist_eqb_sound_gen. exact H.
Qed.

Lemma check_i2p_reject_sound p1 p2 n_ tf_ i :
  check_C01 (CI2P true p1 p2 n_ tf_ i None) = true ->
  exists m e, build p1 p2 n_ tf_ = OK m /\ index2point m i = Err e.
Proof.
  simpl. destruct (build p1 p2 n_ tf_) as [m|e]; [|discriminate].
  destruct (index2point m i) as [p|e] eqn:Ep; [discriminate|].
  intros _. exists m, e. split; [reflexivity | exact Ep].
Qed.

Lemma check_p2i_sound p1 p2 n_ tf_ p obs_in j :
  check_C01 (CP2I true p1 p2 n_ tf_ p obs_in (Some j)) = true ->
  exists m, build p1 p2 n_ tf_ = OK m /\ point2index m p = OK j /\ contains_pt (reg m) p = obs_in.
Proof.
  simpl. destruct (build p1 p2 n_ tf_) as [m|e]; [|discriminate].
  destruct (negb (length p =? ndim (reg m))%nat); [discriminate|].
  intro H. apply andb_true_iff in H. destruct H as [H1 H2].
  exists m. split; [reflexivity|]. split.
  - destruct (point2index m p) as [k|e]; simpl in H2; [|discriminate].
    apply zlist_eqb_sound_gen in H2. congruence.
  - apply Bool.eqb_prop. exact H1.
Qed.

(* transfer: an accepted index2point observation is the centre formula on a well-formed mesh, and
   the model maps that centre back to the index (round trip) *)
Theorem accepted_centre_roundtrip p1 p2 n_ tf_ i q :
  check_C01 (CI2P true p1 p2 n_ tf_ i (Some q)) = true -> 0 <= tf_ -> (length p1 <= 10)%nat ->
  exists m p, build p1 p2 n_ tf_ = OK m /\ wf_mesh m /\ index2point m i = OK p /\
              Forall2 Qeq p q /\ point2index m p = OK i.
Proof.
  intros H Htf Hnd. destruct (check_i2p_sound _ _ _ _ _ _ H) as (m & p & Hb & Hp & Hq).
  pose proof (build_wf _ _ _ _ _ Hb Htf Hnd) as Hwf.
  exists m, p. repeat split; try assumption; try apply Hwf.
  exact (roundtrip m Hwf i p Hp).
Qed.

Example accepted_centre_instance :
  check_C01 (CI2P true [0; 0] [4; 3] [4; 2]%Z (1 # 1000000000000) [3; 0]%Z (Some [7 # 2; 3 # 4])) = true.
Proof. vm_compute. reflexivity. Qed.

(* transfer: the OBSERVED index of an accepted point2index observation is in range and its cell
   contains the probe point (tolerance form, sharp half-open form inside the region, upper face to
   the last cell) *)
Theorem accepted_point_in_cell p1 p2 n_ tf_ p obs_in j :
  check_C01 (CP2I true p1 p2 n_ tf_ p obs_in (Some j)) = true -> 0 <= tf_ -> (length p1 <= 10)%nat ->
  exists m, build p1 p2 n_ tf_ = OK m /\ wf_mesh m /\ contains_pt (reg m) p = obs_in /\
  length j = length (pmin (reg m)) /\
  forall a, (a < length (pmin (reg m)))%nat ->
    let lo := nth a (pmin (reg m)) 0 in let hi := nth a (pmax (reg m)) 0 in
    let c := nth a (cell m) 0 in let x := nth a p 0 in let k := nth a j 0%Z in
    let t := tau (tf (reg m)) (reg_atol (reg m)) x in
    (0 <= k < nth a (n m) 1)%Z /\
    lo + inject_Z k * c - t <= x /\ x <= lo + (inject_Z k + 1) * c + t /\
    (lo <= x -> x < hi -> lo + inject_Z k * c <= x /\ x < lo + (inject_Z k + 1) * c) /\
    (hi <= x -> k = (nth a (n m) 1 - 1)%Z).
Proof.
  intros H Htf Hnd. destruct (check_p2i_sound _ _ _ _ _ _ _ H) as (m & Hb & Hp & Hc).
  pose proof (build_wf _ _ _ _ _ Hb Htf Hnd) as Hwf.
  exists m. split; [exact Hb|]. split; [exact Hwf|]. split; [exact Hc|].
  exact (cell_contains m Hwf p j Hp).
Qed.

(* transfer: an observed refusal of an index is the model's refusal *)
Example accepted_point_instance :
  check_C01 (CP2I true [0; 0] [4; 3] [4; 2]%Z (1 # 1000000000000) [7 # 2; 3 # 2] true (Some [3; 1]%Z)) = true.
Proof. vm_compute. reflexivity. Qed.
