(* C01: soundness of the lattice case of check_C01 (exact regime) and the transfer of the
   iteration-order theorems to the observed index list. *)
From DF Require Import Prelude Constants_gen Region Mesh ListLemmas CheckSound Check_C01 C01_axis C01_nd C01_lattice C01_sound.
Open Scope Q_scope.

(* ---- the lattice case (exact regime): observed length, iteration order, cell centres, per-axis
   views and coordinate field are the model's ---- *)
Lemma qll_close_exact_sound sc a b : qll_close true sc a b = true -> Forall2 (Forall2 Qeq) a b.
Proof.
  unfold qll_close. apply forallb2_Forall2_gen. intros x y. unfold qlist_close.
  apply qlist_eqb_sound_gen.
Qed.

Lemma check_lattice_sound p1 p2 n_ obs_len obs_indices obs_points obs_cells obs_vertices obs_coord :
  check_C01 (CLattice true p1 p2 n_ obs_len obs_indices obs_points obs_cells obs_vertices obs_coord) = true ->
  exists m, build p1 p2 n_ (1 # 1000000000000) = OK m /\
    mesh_len m = obs_len /\
    obs_indices = indices_xfast (n m) /\
    Forall2 (Forall2 Qeq)
      (map (fun i => match index2point m i with OK p => p | Err _ => [] end) (indices_xfast (n m))) obs_points /\
    Forall2 (Forall2 Qeq)
      (map (fun i => match index2point m i with OK p => p | Err _ => [] end) (indices_xfast (n m))) obs_coord.
Proof.
  cbn [check_C01]. destruct (build p1 p2 n_ (1 # 1000000000000)) as [m|e]; [|discriminate].
  intro H.
  apply andb_true_iff in H. destruct H as [H H6].
  apply andb_true_iff in H. destruct H as [H H5].
  apply andb_true_iff in H. destruct H as [H H4].
  apply andb_true_iff in H. destruct H as [H H3].
  apply andb_true_iff in H. destruct H as [H1 H2].
  exists m. split; [reflexivity|]. split; [apply Z.eqb_eq; exact H1|]. split.
  - symmetry. apply Forall2_eq_gen. revert H2. apply forallb2_Forall2_gen. intros x y. apply zlist_eqb_sound_gen.
  - split; [exact (qll_close_exact_sound _ _ _ H3) | exact (qll_close_exact_sound _ _ _ H6)].
Qed.

(* transfer: the observed iteration has prod n entries, and position i0 + n0*(i1 + n1*(...)) of the
   OBSERVED list holds index i (first dimension fastest) *)
Theorem accepted_iteration_order p1 p2 n_ obs_len obs_indices obs_points obs_cells obs_vertices obs_coord :
  check_C01 (CLattice true p1 p2 n_ obs_len obs_indices obs_points obs_cells obs_vertices obs_coord) = true ->
  exists m, build p1 p2 n_ (1 # 1000000000000) = OK m /\
    length obs_indices = nprod (nsizes (n m)) /\
    forall i, in_range (n m) i -> nth (Z.to_nat (ravel_xfast (n m) i)) obs_indices [] = i.
Proof.
  intro H. destruct (check_lattice_sound _ _ _ _ _ _ _ _ _ H) as (m & Hb & _ & Hi & _).
  exists m. split; [exact Hb|]. subst obs_indices. split.
  - apply indices_xfast_length.
  - intros i Hr. apply nth_ravel_xfast. exact Hr.
Qed.
