(* C01: soundness of the lattice case of check_C01 (exact regime) and the transfer of the
   iteration-order theorems to the observed index list. *)
From DF Require Import Prelude Constants_gen Region Mesh ListLemmas CheckSound Check_C01 C01_axis C01_nd C01_lattice C01_sound.
Open Scope Q_scope.

(* ---- the lattice case (exact regime): observed length, iteration order, cell centres, per-axis
   views and coordinate field are the model's ---- *)
Lemma qll_close_exact_sound sc a b : qll_close true sc a b = true -> Forall2 (Forall2 Qeq) a b.
Proof.
  unfold qll_close. apply forallb2_Forall2_gen. intros x y. unfold qlist_close.
  apply qlist_eqb_sound_gen.
Qed.

Lemma check_lattice_sound p1 p2 n_ obs_len obs_indices obs_points obs_cells obs_vertices obs_coord :
  check_C01 (CLattice true p1 p2 n_ obs_len obs_indices obs_points obs_cells obs_vertices obs_coord) = true ->
  exists m, build p1 p2 n_ (1 # 1000000000000) = OK m /\
    mesh_len m = obs_len /\
    obs_indices = indices_xfast (n m) /\
    Forall2 (Forall2 Qeq)
      (map (fun i => match index2point m i with OK p => p | Err _ => [] end) (indices_xfast (n m))) obs_points /\
    Forall2 (Forall2 Qeq)
      (map (fun i => match index2point m i with OK p => p | Err _ => [] end) (indices_xfast (n m))) obs_coord.
Proof.
  cbn [check_C01]. destruct (build p1 p2 n_ (1 # 1000000000000)) as [m|e]; [|discriminate].
  intro H.
  apply andb_true_iff in H. destruct H as [H H6].
  apply andb_true_iff in H. destruct H as [H H5].
  apply andb_true_iff in H. destruct H as [H H4].
  apply andb_true_iff in H. destruct H as [H H3].
  apply andb_true_iff in H. destruct H as [H1 H2].
  exists m. split; [reflexivity|]. split; [apply Z.eqb_eq; exact H1|]. split.
  - symmetry. apply Forall2_eq_gen. revert H2. apply forallb2_Forall2_gen. intros x y. apply zlist_eqb_sound_gen.
  - split; [exact (qll_close_exact_sound _ _ _ H3) | exact (qll_close_exact_sound _ _ _ H6)].
Qed.

(* transfer: the observed iteration has prod n entries, and position i0 + n0*(i1 + n1*(...)) of the
   OBSERVED list holds index i (first dimension fastest) *)
Theorem accepted_iteration_order p1 p2 n_ obs_len obs_indices obs_points obs_cells obs_vertices obs_coord :
  check_C01 (CLattice true p1 p2 n_ obs_len obs_indices obs_points obs_cells obs_vertices obs_coord) = true ->
  exists m, build p1 p2 n_ (1 # 1000000000000) = OK m /\
    length obs_indices = nprod (nsizes (n m)) /\
    forall i, in_range (n m) i -> nth (Z.to_nat (ravel_xfast (n m) i)) obs_indices [] = i.
Proof.
  intro H. destruct (check_lattice_sound _ _ _ _ _ _ _ _ _ H) as (m & Hb & _ & Hi & _).
  exists m. split; [exact Hb|]. subst obs_indices. split.
  - apply indices_xfast_length.
  - intros i Hr. apply nth_ravel_xfast. exact Hr.
Qed.

(* ---- the by-cell case: an accepted observation of Mesh(region, cell=c).n is the model's count,
   hence (C01_by_cell_constructor_sound) the rounded edge/cell ratio, and every edge is a whole
   number of OBSERVED cells up to the documented tolerance ---- *)
From DF Require Import C07_accept C01_bycell.

Lemma check_bycell_sound ex p1 p2 c tf_ k :
  check_C01 (CByCell ex p1 p2 c tf_ (Some k)) = true ->
  exists r m, mk_region p1 p2 None None tf_ = OK r /\ mesh_by_cell r c = OK m /\ n m = k.
Proof.
  cbn [check_C01]. destruct (mk_region p1 p2 None None tf_) as [r|e]; [|discriminate].
  destruct (mesh_by_cell r c) as [m|e] eqn:Em; [|discriminate].
  intro H. exists r, m. split; [reflexivity|]. split; [exact Em|].
  apply zlist_eqb_sound_gen. exact H.
Qed.

Lemma check_bycell_reject_sound ex p1 p2 c tf_ :
  check_C01 (CByCell ex p1 p2 c tf_ None) = true ->
  exists r e, mk_region p1 p2 None None tf_ = OK r /\ mesh_by_cell r c = Err e.
Proof.
  cbn [check_C01]. destruct (mk_region p1 p2 None None tf_) as [r|e]; [|discriminate].
  destruct (mesh_by_cell r c) as [m|e] eqn:Em; [discriminate|].
  intros _. exists r, e. split; [reflexivity | exact Em].
Qed.

Theorem accepted_by_cell_counts ex p1 p2 c tf_ k :
  check_C01 (CByCell ex p1 p2 c tf_ (Some k)) = true -> 0 <= tf_ -> (length p1 <= 10)%nat ->
  exists r, mk_region p1 p2 None None tf_ = OK r /\ wf_region r /\
    length c = ndim r /\ length k = ndim r /\
    forall a, (a < ndim r)%nat ->
      0 < nth a c 0 /\
      nth a k 0%Z = Qround_half_even ((nth a (pmax r) 0 - nth a (pmin r) 0) / nth a c 0) /\
      Qabs ((nth a (pmax r) 0 - nth a (pmin r) 0) - inject_Z (nth a k 0%Z) * nth a c 0) <= bycell_tol c.
Proof.
  intros H Htf Hnd. destruct (check_bycell_sound _ _ _ _ _ _ H) as (r & m & Hr & Hm & Hk).
  assert (W : wf_region r) by (eapply mk_region_wf; eauto).
  destruct (mesh_by_cell_sound r c m W Hm) as (_ & Hc & Hn & Hax).
  exists r. split; [exact Hr|]. split; [exact W|]. subst k.
  split; [exact Hc|]. split; [exact Hn|]. exact Hax.
Qed.

Example accepted_by_cell_instance :
  check_C01 (CByCell true [0; 0] [4; 3] [1 # 2; 1] (1 # 1000000000000) (Some [8; 3]%Z)) = true.
Proof. vm_compute. reflexivity. Qed.

(* ---- the region case: observed pmin/pmax are the model's (either corner order), hence ordered ---- *)
Lemma check_region_sound p1 p2 lo hi :
  check_C01 (CRegion p1 p2 (Some (lo, hi))) = true ->
  exists r, mk_region p1 p2 None None (1 # 1000000000000) = OK r /\
    Forall2 Qeq (pmin r) lo /\ Forall2 Qeq (pmax r) hi.
Proof.
  cbn [check_C01]. destruct (mk_region p1 p2 None None (1 # 1000000000000)) as [r|e]; [|discriminate].
  intro H. apply andb_true_iff in H. destruct H as [H1 H2].
  exists r. split; [reflexivity|]. split; apply qlist_eqb_sound_gen; assumption.
Qed.

Lemma Forall2_Qlt_transport a b a' b' :
  Forall2 (fun x y => x < y) a b -> Forall2 Qeq a a' -> Forall2 Qeq b b' -> Forall2 (fun x y => x < y) a' b'.
Proof.
  intro H. revert a' b'. induction H as [|x y a b Hxy _ IH]; intros a' b' Ha Hb.
  - inversion Ha; inversion Hb; constructor.
  - inversion Ha as [|? x' ? a'' Ex Ea]; inversion Hb as [|? y' ? b'' Ey Eb]; subst.
    constructor; [rewrite <- Ex, <- Ey; exact Hxy | apply IH; assumption].
Qed.

Theorem accepted_region_ordered p1 p2 lo hi :
  check_C01 (CRegion p1 p2 (Some (lo, hi))) = true -> (length p1 <= 10)%nat ->
  Forall2 (fun x y => x < y) lo hi /\ length lo = length p1 /\ length hi = length p1.
Proof.
  intros H Hnd. destruct (check_region_sound _ _ _ _ H) as (r & Hr & Hlo & Hhi).
  assert (W : wf_region r) by (eapply mk_region_wf; [exact Hr | lra | intros _; exact Hnd]).
  destruct W as (W1 & _ & _ & _ & _ & Hord & _).
  split; [exact (Forall2_Qlt_transport _ _ _ _ Hord Hlo Hhi)|].
  assert (Lr : length (pmin r) = length p1).
  { unfold mk_region in Hr.
    destruct (negb (length p1 =? length p2)%nat) eqn:E1; [discriminate|].
    destruct (length p1 =? 0)%nat; [discriminate|]. simpl in Hr.
    destruct (existsb _ _); [discriminate|]. inversion Hr; subst r; simpl.
    apply negb_false_iff, Nat.eqb_eq in E1. rewrite map2_length. lia. }
  split.
  - rewrite <- (Forall2_length_gen _ _ _ Hlo). exact Lr.
  - rewrite <- (Forall2_length_gen _ _ _ Hhi), <- W1. exact Lr.
Qed.
