(* C01: n-dimensional tiling — every point of the half-open region lies in exactly one cell. *)
From DF Require Import Prelude Constants_gen Region Mesh QLemmas ListLemmas C01_axis C01_nd.
Open Scope Q_scope.

Section Tiling.
Variable m : mesh.
Hypothesis Hwf : wf_mesh m.
Let nd := length (pmin (reg m)).

Definition in_cell (i : list Z) (p : list Q) : Prop :=
  length i = nd /\
  forall a, (a < nd)%nat ->
    (0 <= nth a i 0 < nth a (n m) 1)%Z /\
    nth a (pmin (reg m)) 0 + inject_Z (nth a i 0%Z) * nth a (cell m) 0 <= nth a p 0 /\
    nth a p 0 < nth a (pmin (reg m)) 0 + (inject_Z (nth a i 0%Z) + 1) * nth a (cell m) 0.

Definition in_half_open (p : list Q) : Prop :=
  length p = nd /\
  forall a, (a < nd)%nat -> nth a (pmin (reg m)) 0 <= nth a p 0 /\ nth a p 0 < nth a (pmax (reg m)) 0.

Lemma inside_is_contained p : in_half_open p -> contains_pt (reg m) p = true.
Proof.
  intros [Lp Hp]. destruct (wf_lengths m Hwf) as [L1 [L2 L3]]. fold nd in L1, L2, L3.
  unfold contains_pt, ndim. fold nd. rewrite Lp, Nat.eqb_refl. simpl.
  apply forallb_id_nth. intros a Ha. rewrite map3_length in Ha. fold nd in Ha.
  rewrite (nth_map3 _ _ _ _ _ true 0 0 0) by (fold nd; lia).
  destruct (Hp a ltac:(lia)) as [A B].
  apply contains1_inside; [apply tf_nonneg; exact Hwf | apply reg_atol_nonneg; exact Hwf | exact A | lra].
Qed.

(* existence: the index returned by point2index *)
Theorem tiling_exists p : in_half_open p -> exists i, point2index m p = OK i /\ in_cell i p.
Proof.
  intros Hp. pose proof (inside_is_contained p Hp) as Hc. destruct Hp as [Lp Hp].
  unfold point2index, ndim. fold nd. rewrite Lp, Nat.eqb_refl, Hc. simpl.
  eexists. split; [reflexivity|].
  set (i := map3 _ _ _ _).
  assert (E : point2index m p = OK i).
  { unfold point2index, ndim. fold nd. rewrite Lp, Nat.eqb_refl, Hc. reflexivity. }
  destruct (cell_contains m Hwf p i E) as [Li Hi]. fold nd in Li, Hi.
  split; [exact Li|]. intros a Ha.
  destruct (Hi a Ha) as [R [_ [_ [S _]]]].
  destruct (Hp a Ha) as [A B]. destruct (S A B) as [S1 S2].
  split; [exact R | split; assumption].
Qed.

(* uniqueness: two cells containing the same point coincide *)
Theorem tiling_unique p i j : in_cell i p -> in_cell j p -> i = j.
Proof.
  intros [Li Hi] [Lj Hj]. apply nth_ext_Z; [congruence|].
  intros a Ha. rewrite Li in Ha.
  destruct (Hi a Ha) as [Ri [Ai Bi]]. destruct (Hj a Ha) as [Rj [Aj Bj]].
  destruct (wf_axis m Hwf a Ha) as [Hlh Hk].
  rewrite (cell_nth m Hwf a Ha) in *.
  set (lo := nth a (pmin (reg m)) 0) in *. set (hi := nth a (pmax (reg m)) 0) in *.
  set (k := nth a (n m) 1%Z) in *. set (x := nth a p 0) in *.
  assert (X0 : lo <= x).
  { pose proof (cell_pos lo hi k Hlh Hk) as Hc.
    assert (0 <= inject_Z (nth a i 0%Z)) by (change 0 with (inject_Z 0); rewrite <- Zle_Qle; lia).
    assert (0 <= inject_Z (nth a i 0%Z) * cell_of lo hi k) by (apply Qmult_le_0_compat; lra). lra. }
  assert (X1 : x < hi).
  { pose proof (cell_pos lo hi k Hlh Hk) as Hc. pose proof (cell_times_n lo hi k Hk) as Hn.
    assert (inject_Z (nth a i 0%Z) + 1 <= inject_Z k).
    { change 1 with (inject_Z 1). rewrite <- inject_Z_plus, <- Zle_Qle. lia. }
    assert ((inject_Z (nth a i 0%Z) + 1) * cell_of lo hi k <= inject_Z k * cell_of lo hi k)
      by (apply Qmult_le_compat_r; lra). lra. }
  destruct (tiling1 Hlh Hk x X0 X1) as [u [_ Hu]].
  rewrite (Hu (nth a i 0%Z) Ri Ai Bi), (Hu (nth a j 0%Z) Rj Aj Bj). reflexivity.
Qed.

End Tiling.
