(* C02: lemmas about the value handling model (FieldCore.v). *)
From DF Require Import Prelude Constants_gen Region Mesh FieldCore QLemmas ListLemmas C01_axis C01_nd C01_lattice.
Open Scope Q_scope.

(* ---------- generic helpers ---------- *)
Lemma mapres_Forall2 {A B} (f : A -> res B) l bs :
  mapres f l = OK bs -> Forall2 (fun x b => f x = OK b) l bs.
Proof.
  revert bs; induction l as [|a t IH]; simpl; intros bs H.
  - injection H as <-. constructor.
  - destruct (f a) eqn:Ea; simpl in H; [|discriminate].
    destruct (mapres f t) eqn:Et; simpl in H; [|discriminate].
    injection H as <-. constructor; auto.
Qed.

Lemma mapres_In {A B} (f : A -> res B) l bs x :
  mapres f l = OK bs -> In x l -> exists b, f x = OK b /\ In b bs.
Proof.
  intros H. apply mapres_Forall2 in H. induction H; simpl; intros Hi; [tauto|].
  destruct Hi as [<-|Hi]; [eauto|]. destruct (IHForall2 Hi) as [b [? ?]]; eauto.
Qed.

Lemma mapres_length {A B} (f : A -> res B) l bs : mapres f l = OK bs -> length bs = length l.
Proof. intros H. apply mapres_Forall2 in H. induction H; simpl; auto. Qed.

Lemma filter_nil_all {A} (p : A -> bool) l : filter p l = [] -> forall x, In x l -> p x = false.
Proof.
  induction l as [|a t IH]; simpl; intros H x Hx; [tauto|].
  destruct (p a) eqn:E; [discriminate|]. destruct Hx as [<-|Hx]; auto.
Qed.

Lemma in_range_bounds ns i : in_range ns i ->
  length i = length ns /\ forall a, (a < length ns)%nat -> (0 <= nth a i 0 < nth a ns 1)%Z.
Proof.
  induction 1 as [|k ns j i Hj H [IH1 IH2]]; simpl.
  - split; [reflexivity|]. intros a Ha; lia.
  - split; [lia|]. intros [|a] Ha; [exact Hj|]. apply IH2; lia.
Qed.

Section State.
Variable V : Type.
Variable vzero : V.
Variable is_zero : V -> bool.
Notation cellv := (list V).

(* ---------- setter: state -> spec -> state + error ---------- *)
Lemma reject_keeps_state (f : fstate V) (s : spec V) :
  is_ok (set_array vzero is_zero f s) = false -> assign vzero is_zero f s = f.
Proof.
  unfold assign. destruct (set_array vzero is_zero f s); simpl; congruence.
Qed.

Lemma accept_sets_array (f f' : fstate V) (s : spec V) :
  set_array vzero is_zero f s = OK f' ->
  assign vzero is_zero f s = f' /\ fmesh f' = fmesh f /\ fnv f' = fnv f /\ fvdims f' = fvdims f /\
  as_array vzero is_zero (fmesh f) (fnv f) s = OK (farr f').
Proof.
  unfold assign, set_array. intros H. rewrite H.
  destruct (as_array vzero is_zero (fmesh f) (fnv f) s) eqn:E; simpl in H; try discriminate.
  inversion H; subst; simpl. auto.
Qed.

(* ---------- number ---------- *)
Lemma const_spec (nv : nat) (v : V) :
  ((nv <= 1)%nat \/ is_zero v = true ->
     exists a, as_array_const is_zero nv v = OK a /\ forall i : zidx, a i = repeat v nv /\ length (a i) = nv) /\
  ((1 < nv)%nat /\ is_zero v = false -> is_ok (as_array_const is_zero nv v) = false).
Proof.
  unfold as_array_const. split.
  - intros H. assert (E : (1 <? nv)%nat && negb (is_zero v) = false).
    { destruct H as [H|H]; [apply Nat.ltb_ge in H; rewrite H; reflexivity|rewrite H; apply andb_false_r]. }
    rewrite E. eexists; split; [reflexivity|]. intros i; split; [reflexivity|apply repeat_length].
  - intros [H1 H2]. apply Nat.ltb_lt in H1. rewrite H1, H2. reflexivity.
Qed.

(* ---------- array-like ---------- *)
(* shape n with nvdim = 1: the array itself, one component per cell *)
Lemma arr_shortcut (m : mesh) (data : list V) :
  n m <> [] ->
  exists a, as_array_arr vzero m 1 (n m) data = OK a /\ forall i, a i = [nda_at vzero (n m) data i].
Proof.
  intros Hn. unfold as_array_arr. destruct (n m) as [|k t] eqn:E; [congruence|].
  assert (Z : zlist_eqb (k :: t) (k :: t) = true).
  { clear. unfold zlist_eqb. induction (k :: t); simpl; [reflexivity|]. rewrite Z.eqb_refl; assumption. }
  rewrite Z. simpl. eexists; split; reflexivity.
Qed.

(* wrong trailing length (and not the shape-n shortcut): rejected *)
Lemma arr_wrong_length (m : mesh) (nv : nat) (sh : list Z) (data : list V) :
  ((nv =? 1)%nat && zlist_eqb sh (n m) = false) -> last_z sh <> Z.of_nat nv ->
  is_ok (as_array_arr vzero m nv sh data) = false.
Proof.
  intros H1 H2. unfold as_array_arr. destruct sh as [|s t]; [reflexivity|].
  rewrite H1. apply Z.eqb_neq in H2. rewrite H2. reflexivity.
Qed.

(* a shape that cannot be broadcast: rejected *)
Lemma arr_wrong_shape (m : mesh) (nv : nat) (sh : list Z) (data : list V) :
  ((nv =? 1)%nat && zlist_eqb sh (n m) = false) -> bcast_ok (eff_shape m nv sh) (shape_of m nv) = false ->
  is_ok (as_array_arr vzero m nv sh data) = false.
Proof.
  intros H1 H2. unfold as_array_arr. destruct sh as [|s t]; [reflexivity|].
  rewrite H1. destruct (negb _); [reflexivity|]. unfold full_bcast. cbv zeta. rewrite H2. reflexivity.
Qed.

(* accepted array-likes: the cell holds the broadcast entries *)
Lemma arr_accepted (m : mesh) (nv : nat) (sh : list Z) (data : list V) a :
  ((nv =? 1)%nat && zlist_eqb sh (n m) = false) ->
  as_array_arr vzero m nv sh data = OK a ->
  last_z sh = Z.of_nat nv /\ bcast_ok (eff_shape m nv sh) (shape_of m nv) = true /\
  forall i, a i = map (fun k => nda_at vzero (eff_shape m nv sh) data
                                  (bcast_idx (eff_shape m nv sh) (i ++ [k]))) (ziota 0 nv).
Proof.
  intros H1. unfold as_array_arr. destruct sh as [|s t]; [discriminate|].
  rewrite H1. destruct (last_z (s :: t) =? Z.of_nat nv)%Z eqn:E; simpl negb; cbv iota; [|discriminate].
  unfold full_bcast. cbv zeta.
  destruct (bcast_ok (eff_shape m nv (s :: t)) (shape_of m nv)) eqn:B; [|discriminate].
  intros H; injection H as <-. apply Z.eqb_eq in E. auto.
Qed.

Lemma eff_shape_same (m : mesh) (nv : nat) (sh : list Z) :
  (length sh <= length (shape_of m nv))%nat -> eff_shape m nv sh = sh.
Proof.
  intros H. unfold eff_shape. replace (length sh - length (shape_of m nv))%nat with 0%nat by lia.
  destruct sh; reflexivity.
Qed.

(* broadcasting with the full shape is the identity on in-range indices *)
Lemma bcast_idx_full (sh i : list Z) :
  length i = length sh -> (forall a, (a < length sh)%nat -> (0 <= nth a i 0 < nth a sh 1)%Z) ->
  bcast_idx sh i = i.
Proof.
  intros L H. unfold bcast_idx, align. rewrite L, Nat.sub_diag. simpl.
  revert i L H. induction sh as [|v t IH]; intros [|j i] L H; simpl in *; try lia; try reflexivity.
  f_equal.
  - specialize (H 0%nat ltac:(lia)). simpl in H. destruct (v =? 1)%Z eqn:E; [apply Z.eqb_eq in E; lia|reflexivity].
  - apply IH; [lia|]. intros a Ha. apply (H (S a)). lia.
Qed.

Lemma bcast_ok_refl (sh : list Z) : bcast_ok sh sh = true.
Proof.
  unfold bcast_ok, align. rewrite Nat.leb_refl, Nat.sub_diag. simpl.
  induction sh; simpl; [reflexivity|]. rewrite Z.eqb_refl. simpl. assumption.
Qed.

(* ---------- callable ---------- *)
Lemma fun_spec (m : mesh) (nv : nat) (f : list Q -> cellv) :
  (forall i, In i (indices_xfast (n m)) -> length (f (centre m i)) = nv) ->
  exists a, as_array_fun m nv f = OK a /\ forall i, a i = f (centre m i).
Proof.
  intros H. unfold as_array_fun.
  assert (E : forallb (fun i => (length (f (centre m i)) =? nv)%nat) (indices_xfast (n m)) = true).
  { apply forallb_forall. intros i Hi. apply Nat.eqb_eq. auto. }
  rewrite E. eexists; split; reflexivity.
Qed.

Lemma fun_accepted (m : mesh) (nv : nat) (f : list Q -> cellv) a :
  as_array_fun m nv f = OK a ->
  (forall i, a i = f (centre m i)) /\
  (forall i, In i (indices_xfast (n m)) -> length (a i) = nv).
Proof.
  unfold as_array_fun. destruct (forallb _ _) eqn:E; [|discriminate].
  intros H; injection H as <-. split; [reflexivity|].
  intros i Hi. rewrite forallb_forall in E. apply Nat.eqb_eq. auto.
Qed.

Lemma fun_wrong_length (m : mesh) (nv : nat) (f : list Q -> cellv) i :
  In i (indices_xfast (n m)) -> length (f (centre m i)) <> nv ->
  is_ok (as_array_fun m nv f) = false.
Proof.
  intros Hi Hl. unfold as_array_fun. destruct (forallb _ _) eqn:E; [|reflexivity].
  rewrite forallb_forall in E. specialize (E i Hi). apply Nat.eqb_eq in E. contradiction.
Qed.

(* the centre used by the model is what Mesh.index2point returns *)
Lemma centre_is_index2point (m : mesh) (i : zidx) :
  wf_mesh m -> in_range (n m) i -> index2point m i = OK (centre m i).
Proof.
  intros Hwf Hr. destruct (in_range_bounds _ _ Hr) as [L B].
  destruct (wf_lengths m Hwf) as [L1 [L2 L3]].
  unfold index2point, ndim. rewrite L, L2, Nat.eqb_refl. simpl.
  assert (Er : forallb2 in_range1 (n m) i = true).
  { apply (forallb2_nth in_range1 (n m) i 1%Z 0%Z). split; [lia|].
    intros a Ha. specialize (B a Ha). unfold in_range1. lia. }
  rewrite Er. reflexivity.
Qed.

(* ---------- unsupported types ---------- *)
Lemma bad_rejected (m : mesh) (nv : nat) : is_ok (as_array_simple vzero is_zero m nv SBad) = false.
Proof. reflexivity. Qed.

(* ---------- dictionary: the reversed overwrite loop = first listed wins ---------- *)
Definition first_block (bs : list (block V)) (i : zidx) : option (block V) :=
  find (fun b => in_block (b_lo b) (b_hi b) i) bs.

Lemma paint_first (bs : list (block V)) (a0 : oarr V) (i : zidx) :
  paint bs a0 i = match first_block bs i with
                  | Some b => Some (b_arr b (map2 Z.sub i (b_lo b)))
                  | None => a0 i
                  end.
Proof.
  unfold paint, first_block.
  change (@overwrite V) with (fun (x : oarr V) (y : block V) => (fun b a => overwrite a b) y x).
  rewrite <- fold_left_rev_right, rev_involutive.
  induction bs as [|b t IH]; simpl; [reflexivity|].
  unfold overwrite at 1. destruct (in_block (b_lo b) (b_hi b) i); [reflexivity|exact IH].
Qed.

Lemma dict_first_wins (m : mesh) (nv : nat) (items : list (string * sspec V)) (d : ddefault V) a :
  as_array_dict vzero is_zero m nv items d = OK a ->
  exists bs, blocks vzero is_zero m nv items = OK bs /\
    Forall2 (fun rs b => mk_block vzero is_zero m nv (fst rs) (snd rs) = OK b) (keyed m items) bs /\
    forall i, In i (indices_xfast (n m)) ->
      match first_block bs i with
      | Some b => a i = b_arr b (map2 Z.sub i (b_lo b))
      | None =>
          match d with
          | DNone => False
          | DFill s => exists f, fill_array vzero m nv s = OK f /\ a i = f i
          | DCall f => a i = f (centre m i) /\ length (a i) = nv
          | DSample src => sample src (centre m i) = OK (a i) /\ length (a i) = nv
          end
      end.
Proof.
  unfold as_array_dict. intros H.
  destruct (match d with DFill s => _ | _ => _ end) as [a0|] eqn:E0; simpl in H; [|discriminate].
  destruct (blocks vzero is_zero m nv items) as [bs|] eqn:Eb; simpl in H; [|discriminate].
  exists bs. split; [reflexivity|]. split; [apply mapres_Forall2; exact Eb|].
  intros i Hi. pose proof (paint_first bs a0 i) as P.
  destruct (first_block bs i) as [b|] eqn:Ef.
  - (* a listed block contains the cell *)
    assert (R : forall g, finish (paint bs a0) g i = b_arr b (map2 Z.sub i (b_lo b))).
    { intros g. unfold finish. rewrite P. reflexivity. }
    destruct (unset_cells m (paint bs a0)) eqn:Eu.
    + injection H as <-. apply R.
    + destruct d; try discriminate.
      * injection H as <-. apply R.
      * destruct (forallb _ _); [|discriminate]. injection H as <-. apply R.
      * destruct (mapres _ _); simpl in H; [|discriminate].
        destruct (forallb _ _); [|discriminate]. injection H as <-. apply R.
  - (* no listed block contains the cell: the default decides *)
    destruct (unset_cells m (paint bs a0)) as [|z l] eqn:Eu.
    + pose proof (filter_nil_all _ _ Eu i Hi) as U. simpl in U. rewrite P in U.
      destruct (a0 i) as [v|] eqn:Ea; [|discriminate].
      destruct d; try (injection E0 as <-; discriminate).
      destruct (fill_array vzero m nv s) as [f|] eqn:Efl; simpl in E0; [|discriminate].
      injection E0 as <-. injection Ea as <-.
      exists f. split; [reflexivity|]. injection H as <-. unfold finish. rewrite P. reflexivity.
    + destruct d.
      * discriminate.
      * destruct (fill_array vzero m nv s) as [f|] eqn:Efl; simpl in E0; [|discriminate].
        injection E0 as <-. exists f. split; [reflexivity|].
        injection H as <-. unfold finish. rewrite P. reflexivity.
      * injection E0 as <-.
        destruct (forallb _ _) eqn:Ec; [|discriminate]. injection H as <-.
        unfold finish. rewrite P. split; [reflexivity|].
        rewrite forallb_forall in Ec. apply Nat.eqb_eq. apply Ec. rewrite <- Eu.
        unfold unset_cells. apply filter_In. split; [exact Hi|]. rewrite P. reflexivity.
      * injection E0 as <-.
        destruct (mapres _ _) as [vs|] eqn:Em; simpl in H; [|discriminate].
        destruct (forallb _ vs) eqn:Ec; [|discriminate]. injection H as <-.
        assert (Hu : In i (z :: l)).
        { rewrite <- Eu. unfold unset_cells. apply filter_In. split; [exact Hi|]. rewrite P. reflexivity. }
        destruct (mapres_In _ _ _ i Em Hu) as [v [Hv Hin]].
        unfold finish. rewrite P, Hv. split; [reflexivity|].
        rewrite forallb_forall in Ec. apply Nat.eqb_eq. apply Ec. exact Hin.
Qed.

(* no default and a cell that no listed subregion covers: rejected *)
Lemma dict_missing_default (m : mesh) (nv : nat) (items : list (string * sspec V)) bs i :
  blocks vzero is_zero m nv items = OK bs -> In i (indices_xfast (n m)) -> first_block bs i = None ->
  is_ok (as_array_dict vzero is_zero m nv items DNone) = false.
Proof.
  intros Eb Hi Ef. unfold as_array_dict. simpl. rewrite Eb. simpl.
  destruct (unset_cells m (paint bs (fun _ => None))) eqn:Eu; [|reflexivity].
  pose proof (filter_nil_all _ _ Eu i Hi) as U. simpl in U. rewrite paint_first, Ef in U. discriminate.
Qed.

(* ---------- sampling, components, iteration ---------- *)
Lemma sample_spec (f : fstate V) (p : list Q) (v : cellv) :
  sample f p = OK v -> exists i, point2index (fmesh f) p = OK i /\ v = farr f i.
Proof.
  unfold sample. destruct (point2index (fmesh f) p) as [i|] eqn:E; simpl; [|discriminate].
  intros H; injection H as <-. eauto.
Qed.

Lemma sample_centre (f : fstate V) (i : zidx) :
  wf_mesh (fmesh f) -> in_range (n (fmesh f)) i -> sample f (centre (fmesh f) i) = OK (farr f i).
Proof.
  intros Hwf Hr. unfold sample.
  rewrite (roundtrip (fmesh f) Hwf i _ (centre_is_index2point _ _ Hwf Hr)). reflexivity.
Qed.

Lemma sample_outside (f : fstate V) (p : list Q) :
  is_ok (point2index (fmesh f) p) = false -> is_ok (sample f p) = false.
Proof. unfold sample. destruct (point2index (fmesh f) p); simpl; congruence. Qed.

Lemma component_spec (f : fstate V) (label : string) (l : list string) (k : nat) :
  fvdims f = Some l -> index_of label l = Some k ->
  exists g, component vzero f label = OK g /\ fmesh g = fmesh f /\ fnv g = 1%nat /\
            forall i, farr g i = [nth k (farr f i) vzero].
Proof.
  intros Hl Hk. unfold component. rewrite Hl, Hk. eexists; split; [reflexivity|]. simpl. auto.
Qed.

Lemma component_unknown (f : fstate V) (label : string) :
  (fvdims f = None \/ exists l, fvdims f = Some l /\ index_of label l = None) ->
  is_ok (component vzero f label) = false.
Proof.
  unfold component. intros [H|[l [H1 H2]]]; [rewrite H|rewrite H1, H2]; reflexivity.
Qed.

Lemma iterate_spec (f : fstate V) :
  wf_mesh (fmesh f) ->
  iterate f = map (fun i => OK (farr f i)) (indices_xfast (n (fmesh f))).
Proof.
  intros Hwf. unfold iterate. apply map_ext_in. intros i Hi.
  assert (Hr : in_range (n (fmesh f)) i).
  { apply indices_xfast_in_range; [|exact Hi].
    destruct Hwf as [_ [_ Hp]]. eapply Forall_impl; [|exact Hp]. simpl. intros; lia. }
  rewrite (centre_is_index2point _ _ Hwf Hr). simpl. apply sample_centre; assumption.
Qed.

End State.
Arguments first_block {V}.

(* ---------- source field: the nearest source centre belongs to a cell that contains the point ---------- *)
Section Nearest.
Variables (lo hi : Q) (k : Z).
Hypothesis Hlh : lo < hi.
Hypothesis Hk : (0 < k)%Z.
Let c := cell_of lo hi k.

(* the model's choice *)
Lemma pick_contains q : lo <= q -> q <= hi ->
  let j := p2i1 lo c k q in
  (0 <= j < k)%Z /\ lo + inject_Z j * c <= q /\ q <= lo + (inject_Z j + 1) * c.
Proof.
  intros H0 H1 j. split; [apply (p2i1_range lo hi k Hk)|].
  destruct (Qlt_le_dec q hi) as [Hq|Hq].
  - destruct (p2i1_cell Hlh Hk q H0 Hq) as [A B]. fold c in A, B. fold j in A, B. split; lra.
  - assert (Ej : j = (k - 1)%Z) by (apply (p2i1_upper Hlh Hk); assumption).
    pose proof (cell_times_n lo hi k Hk) as Hn. fold c in Hn. pose proof (cell_pos lo hi k Hlh Hk) as Hc. fold c in Hc.
    assert (EQ : inject_Z j == inject_Z k - 1).
    { rewrite Ej. unfold Z.sub. rewrite inject_Z_plus. reflexivity. }
    assert (M : inject_Z j * c == inject_Z k * c - c) by (rewrite EQ; ring).
    split; lra.
Qed.

(* any index whose centre is at minimal distance (whatever the tie rule) *)
Lemma nearest_contains q i : lo <= q -> q <= hi -> (0 <= i < k)%Z ->
  (forall j, (0 <= j < k)%Z -> Qabs (i2p1 lo c i - q) <= Qabs (i2p1 lo c j - q)) ->
  lo + inject_Z i * c <= q /\ q <= lo + (inject_Z i + 1) * c.
Proof.
  intros H0 H1 Hi Hmin.
  destruct (pick_contains q H0 H1) as [Hj [A B]].
  specialize (Hmin _ Hj). set (j := p2i1 lo c k q) in *.
  assert (D : Qabs (i2p1 lo c j - q) <= (1 # 2) * c).
  { apply Qabs_Qle_condition. unfold i2p1, half_cell. split; lra. }
  assert (D' : Qabs (i2p1 lo c i - q) <= (1 # 2) * c) by lra.
  apply Qabs_Qle_condition in D'. unfold i2p1, half_cell in D'. split; lra.
Qed.
End Nearest.

(* ---------- line sampling ---------- *)
Lemma line_points_length p1 p2 k : length (line_points p1 p2 k) = Z.to_nat k.
Proof. unfold line_points. rewrite map_length. apply ziota_length. Qed.

Lemma line_points_nth p1 p2 k j : (j < Z.to_nat k)%nat ->
  nth j (line_points p1 p2 k) [] = line_point p1 p2 k (Z.of_nat j).
Proof.
  intros H. unfold line_points.
  rewrite (nth_indep _ [] (line_point p1 p2 k 0%Z)) by (rewrite map_length, ziota_length; exact H).
  rewrite map_nth. rewrite nth_ziota by exact H. reflexivity.
Qed.

Lemma line_point_coord p1 p2 k i a : (a < length p1)%nat -> length p2 = length p1 ->
  nth a (line_point p1 p2 k i) 0 ==
  nth a p1 0 + inject_Z i * ((nth a p2 0 - nth a p1 0) / inject_Z (k - 1)).
Proof.
  intros Ha L. unfold line_point. rewrite (nth_map2 _ _ _ _ 0 0 0) by lia. reflexivity.
Qed.

Lemma line_first p1 p2 k a : (a < length p1)%nat -> length p2 = length p1 ->
  nth a (line_point p1 p2 k 0) 0 == nth a p1 0.
Proof. intros Ha L. rewrite line_point_coord by assumption. change (inject_Z 0) with 0. ring. Qed.

Lemma line_last p1 p2 k a : (a < length p1)%nat -> length p2 = length p1 -> (2 <= k)%Z ->
  nth a (line_point p1 p2 k (k - 1)) 0 == nth a p2 0.
Proof.
  intros Ha L Hk. rewrite line_point_coord by assumption.
  assert (0 < inject_Z (k - 1)) by (apply inject_Z_pos; lia). field. lra.
Qed.

Lemma line_step p1 p2 k i a : (a < length p1)%nat -> length p2 = length p1 ->
  nth a (line_point p1 p2 k (i + 1)) 0 - nth a (line_point p1 p2 k i) 0 ==
  (nth a p2 0 - nth a p1 0) / inject_Z (k - 1).
Proof.
  intros Ha L. rewrite !line_point_coord by assumption.
  rewrite inject_Z_plus. change (inject_Z 1) with 1. ring.
Qed.

(* convexity: every point of the line lies between the end points, hence inside a box that holds both *)
Lemma line_inside p1 p2 k i a lo hi : (a < length p1)%nat -> length p2 = length p1 -> (2 <= k)%Z ->
  (0 <= i <= k - 1)%Z ->
  lo <= nth a p1 0 <= hi -> lo <= nth a p2 0 <= hi ->
  lo <= nth a (line_point p1 p2 k i) 0 <= hi.
Proof.
  intros Ha L Hk Hi [A0 A1] [B0 B1]. rewrite line_point_coord by assumption.
  set (x := nth a p1 0) in *. set (y := nth a p2 0) in *.
  assert (K : 0 < inject_Z (k - 1)) by (apply inject_Z_pos; lia).
  set (t := inject_Z i / inject_Z (k - 1)).
  assert (T0 : 0 <= t).
  { unfold t. apply Qle_shift_div_l; [exact K|]. rewrite Qmult_0_l. change 0 with (inject_Z 0).
    rewrite <- Zle_Qle. lia. }
  assert (T1 : t <= 1).
  { unfold t. apply Qle_shift_div_r; [exact K|]. rewrite Qmult_1_l. rewrite <- Zle_Qle. lia. }
  assert (E : x + inject_Z i * ((y - x) / inject_Z (k - 1)) == x + t * (y - x)) by (unfold t; field; lra).
  rewrite E. split; nra.
Qed.

(* squared distance from the first point: (i/(k-1))^2 * |p2 - p1|^2 *)
Lemma line_dist2 p1 p2 k i : length p2 = length p1 -> (2 <= k)%Z ->
  dist2 (line_point p1 p2 k i) p1 ==
  (inject_Z i / inject_Z (k - 1)) * (inject_Z i / inject_Z (k - 1)) * dist2 p2 p1.
Proof.
  intros L Hk. assert (K : 0 < inject_Z (k - 1)) by (apply inject_Z_pos; lia).
  unfold dist2, line_point. revert p2 L. induction p1 as [|x p1 IH]; intros [|y p2] L; simpl in *; try lia.
  - unfold qsum; simpl. ring.
  - unfold qsum in *. simpl. rewrite IH by lia. field. lra.
Qed.

(* ---------- non-vacuity ---------- *)
Lemma nonvacuous_field :
  let r := mkRegion [0; (-1)] [4; 2] ["x"%string; "y"%string] ["m"%string; "m"%string] (1 # 1000000000000) in
  let m := mkMesh r [4; 6]%Z "" [] in
  let f := mkF m 1 (fun i => [nth 0 i 0%Z]) None in
  wf_mesh m /\ in_range (n m) [3; 0]%Z /\ sample f [4; (-1)] = OK [3%Z] /\
  (exists a, as_array_fun m 2 (fun p => p) = OK a /\ qlist_eqb (a [3; 0]%Z) [7 # 2; (-3) # 4] = true).
Proof.
  intros r m f. split; [|split; [|split]].
  - exact (proj1 nonvacuous_mesh).
  - repeat constructor; lia.
  - vm_compute. reflexivity.
  - eexists. split; [vm_compute; reflexivity|]. vm_compute. reflexivity.
Qed.
