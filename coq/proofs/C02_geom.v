(* C02, geometry: lattice-aligned subregions (index block <-> cell centre inside the subregion,
   submesh centres), source fields on a containing mesh (n-d), line points inside the region and
   line values = samples. *)
From DF Require Import Prelude Constants_gen Region Mesh FieldCore QLemmas ListLemmas C01_axis C01_nd C01_lattice C02_core.
Open Scope Q_scope.

Lemma inject_Z_le a b : (a <= b)%Z <-> inject_Z a <= inject_Z b.
Proof. rewrite Zle_Qle. reflexivity. Qed.

Lemma p2i1_comp lo c k p q : p == q -> p2i1 lo c k p = p2i1 lo c k q.
Proof.
  intros E. unfold p2i1.
  assert (H : (p - lo) / c == (q - lo) / c) by (rewrite E; reflexivity).
  rewrite (Qfloor_comp _ _ H). reflexivity.
Qed.

(* ---------- one axis ---------- *)
Section SubAxis.
Variables (lo hi : Q) (k : Z).
Hypothesis Hlh : lo < hi.
Hypothesis Hk : (0 < k)%Z.
Let c := cell_of lo hi k.
(* a subregion axis [slo, shi] on the lattice: slo = lo + a c, shi = lo + b c, 0 <= a < b <= k *)
Variables (slo shi : Q) (a b : Z).
Hypothesis Hab : (0 <= a < b)%Z /\ (b <= k)%Z.
Hypothesis Hslo : slo == lo + inject_Z a * c.
Hypothesis Hshi : shi == lo + inject_Z b * c.

Lemma sub_c_pos : 0 < c.
Proof. apply cell_pos; assumption. Qed.

Lemma sub_lo_point : slo + c / 2 == i2p1 lo c a.
Proof. unfold i2p1, half_cell. rewrite Hslo. field. Qed.

Lemma sub_hi_point : shi - c / 2 == i2p1 lo c (b - 1).
Proof.
  unfold i2p1, half_cell. rewrite Hshi. unfold Z.sub. rewrite inject_Z_plus, inject_Z_opp.
  change (inject_Z 1) with 1. field.
Qed.

(* Mesh.region2slices: first and last index of the block *)
Lemma block_lo : p2i1 lo c k (slo + c / 2) = a.
Proof. rewrite (p2i1_comp _ _ _ _ _ sub_lo_point). apply (p2i1_i2p1 Hlh Hk). lia. Qed.

Lemma block_hi : p2i1 lo c k (shi - c / 2) = (b - 1)%Z.
Proof. rewrite (p2i1_comp _ _ _ _ _ sub_hi_point). apply (p2i1_i2p1 Hlh Hk). lia. Qed.

Lemma block_points_inside :
  lo <= slo + c / 2 /\ slo + c / 2 <= hi /\ lo <= shi - c / 2 /\ shi - c / 2 <= hi.
Proof.
  pose proof (i2p1_inside Hlh Hk a ltac:(lia)) as [A0 A1].
  pose proof (i2p1_inside Hlh Hk (b - 1)%Z ltac:(lia)) as [B0 B1].
  fold c in A0, A1, B0, B1. rewrite <- sub_lo_point in A0, A1. rewrite <- sub_hi_point in B0, B1.
  repeat split; lra.
Qed.

(* the index j lies in the block iff the centre of cell j lies in the (closed) subregion axis *)
Lemma centre_in_block j : (a <= j <= b - 1)%Z <-> (slo <= i2p1 lo c j /\ i2p1 lo c j <= shi).
Proof.
  pose proof sub_c_pos as Hc. unfold i2p1, half_cell. rewrite Hslo, Hshi. split.
  - intros [H0 H1]. apply inject_Z_le in H0.
    assert (H1' : inject_Z j + 1 <= inject_Z b).
    { change 1 with (inject_Z 1). rewrite <- inject_Z_plus, <- Zle_Qle. lia. }
    split.
    + assert (inject_Z a * c <= (inject_Z j + (1 # 2)) * c) by (apply Qmult_le_compat_r; lra). lra.
    + assert ((inject_Z j + (1 # 2)) * c <= inject_Z b * c) by (apply Qmult_le_compat_r; lra). lra.
  - intros [H0 H1].
    assert (A : inject_Z a <= inject_Z j + (1 # 2)).
    { apply (Qmult_le_r _ _ c Hc). lra. }
    assert (B : inject_Z j + (1 # 2) <= inject_Z b).
    { apply (Qmult_le_r _ _ c Hc). lra. }
    split.
    + destruct (Z_le_gt_dec a j) as [|G]; [assumption|exfalso].
      assert (inject_Z j + 1 <= inject_Z a).
      { change 1 with (inject_Z 1). rewrite <- inject_Z_plus, <- Zle_Qle. lia. }
      lra.
    + destruct (Z_le_gt_dec j (b - 1)) as [|G]; [assumption|exfalso].
      assert (inject_Z b <= inject_Z j) by (rewrite <- Zle_Qle; lia). lra.
Qed.

(* the submesh Mesh(region=subregion, cell=c) has b - a cells of the same size ... *)
Lemma sub_edge : shi - slo == inject_Z (b - a) * c.
Proof. rewrite Hslo, Hshi. unfold Z.sub. rewrite inject_Z_plus, inject_Z_opp. ring. Qed.

Lemma sub_count : Qround_half_even ((shi - slo) / c) = (b - a)%Z.
Proof.
  apply (bycell_exact_multiple c (shi - slo) 0 sub_c_pos ltac:(lra) (b - a)%Z ltac:(lia) sub_edge).
Qed.

Lemma sub_cell : cell_of slo shi (b - a) == c.
Proof.
  unfold cell_of. rewrite sub_edge.
  assert (0 < inject_Z (b - a)) by (apply inject_Z_pos; lia). field. lra.
Qed.

(* ... and the centre of its cell j - a is the centre of cell j of the mesh *)
Lemma sub_centre j : i2p1 slo (cell_of slo shi (b - a)) (j - a) == i2p1 lo c j.
Proof.
  unfold i2p1. rewrite sub_cell, Hslo. unfold Z.sub. rewrite inject_Z_plus, inject_Z_opp. ring.
Qed.
End SubAxis.

(* ---------- n dimensions ---------- *)
Lemma nth_map_dflt {A B} (f : A -> B) l x d d' : (x < length l)%nat -> nth x (map f l) d' = f (nth x l d).
Proof. intros H. rewrite (nth_indep _ d' (f d)) by (rewrite map_length; lia). apply map_nth. Qed.

Definition inside_box (m : mesh) (p : list Q) : Prop :=
  length p = length (pmin (reg m)) /\
  forall x, (x < length (pmin (reg m)))%nat ->
    nth x (pmin (reg m)) 0 <= nth x p 0 <= nth x (pmax (reg m)) 0.

(* r is a union of cells of m: corners on the lattice, index bounds a (first cell) and b (one past the last) *)
Definition aligned (m : mesh) (r : region) (a b : list Z) : Prop :=
  length (pmin r) = length (pmin (reg m)) /\ length (pmax r) = length (pmin (reg m)) /\
  length a = length (pmin (reg m)) /\ length b = length (pmin (reg m)) /\
  forall x, (x < length (pmin (reg m)))%nat ->
    (0 <= nth x a 0 < nth x b 0)%Z /\ (nth x b 0 <= nth x (n m) 1)%Z /\
    nth x (pmin r) 0 == nth x (pmin (reg m)) 0 + inject_Z (nth x a 0%Z) * nth x (cell m) 0 /\
    nth x (pmax r) 0 == nth x (pmin (reg m)) 0 + inject_Z (nth x b 0%Z) * nth x (cell m) 0.

(* the centre of cell i lies in the closed region r *)
Definition centre_in (m : mesh) (i : zidx) (r : region) : Prop :=
  forall x, (x < length (pmin (reg m)))%nat ->
    nth x (pmin r) 0 <= nth x (centre m i) 0 <= nth x (pmax r) 0.

Section ND.
Variable m : mesh.
Hypothesis Hwf : wf_mesh m.
Let nd := length (pmin (reg m)).

Lemma nearest_idx_length q : length q = nd -> length (nearest_idx m q) = nd.
Proof.
  intros L. destruct (wf_lengths m Hwf) as [L1 [L2 L3]]. fold nd in L1, L2, L3.
  unfold nearest_idx. rewrite map3_length, combine_length. fold nd. lia.
Qed.

Lemma nearest_idx_nth q x : length q = nd -> (x < nd)%nat ->
  nth x (nearest_idx m q) 0%Z =
  p2i1 (nth x (pmin (reg m)) 0)
       (cell_of (nth x (pmin (reg m)) 0) (nth x (pmax (reg m)) 0) (nth x (n m) 1%Z))
       (nth x (n m) 1%Z) (nth x q 0).
Proof.
  intros L Hx. destruct (wf_lengths m Hwf) as [L1 [L2 L3]]. fold nd in L1, L2, L3.
  unfold nearest_idx.
  rewrite (nth_map3 _ _ _ _ _ 0%Z (0, 0) 1%Z 0) by (rewrite ?combine_length; fold nd; lia).
  rewrite nth_combine by (fold nd; lia). simpl.
  rewrite (cell_nth m Hwf x Hx). reflexivity.
Qed.

Lemma contains_inside p : inside_box m p -> contains_pt (reg m) p = true.
Proof.
  intros [L H]. fold nd in L, H. destruct (wf_lengths m Hwf) as [L1 [L2 L3]]. fold nd in L1, L2, L3.
  unfold contains_pt, ndim. fold nd. rewrite L, Nat.eqb_refl. simpl.
  apply forallb_id_nth. intros x Hx. rewrite map3_length in Hx. fold nd in Hx.
  rewrite (nth_map3 _ _ _ _ _ true 0 0 0) by (fold nd; lia).
  destruct (H x ltac:(lia)) as [A B].
  apply (contains1_inside (tf_nonneg m Hwf) (reg_atol_nonneg m Hwf)); assumption.
Qed.

(* a point of the closed region is accepted by point2index; the index is floor((p - lo)/c), clipped *)
Lemma p2i_ok p : inside_box m p -> point2index m p = OK (nearest_idx m p).
Proof.
  intros H. pose proof (contains_inside p H) as C. destruct H as [L _]. fold nd in L.
  unfold point2index, ndim. fold nd. rewrite L, Nat.eqb_refl, C. reflexivity.
Qed.

Lemma centre_nth i x : length i = nd -> (x < nd)%nat ->
  nth x (centre m i) 0 =
  i2p1 (nth x (pmin (reg m)) 0)
       (cell_of (nth x (pmin (reg m)) 0) (nth x (pmax (reg m)) 0) (nth x (n m) 1%Z)) (nth x i 0%Z).
Proof.
  intros L Hx. destruct (wf_lengths m Hwf) as [L1 [L2 L3]]. fold nd in L1, L2, L3.
  unfold centre. rewrite (nth_map3 _ _ _ _ _ 0 0 0 0%Z) by (fold nd; lia).
  rewrite (cell_nth m Hwf x Hx). reflexivity.
Qed.

Lemma centre_length i : length i = nd -> length (centre m i) = nd.
Proof.
  intros L. destruct (wf_lengths m Hwf) as [L1 [L2 L3]]. fold nd in L1, L2, L3.
  unfold centre. rewrite map3_length. fold nd. lia.
Qed.

Lemma centre_inside i : in_range (n m) i -> inside_box m (centre m i).
Proof.
  intros Hr. destruct (in_range_bounds _ _ Hr) as [L B].
  destruct (wf_lengths m Hwf) as [L1 [L2 L3]]. fold nd in L1, L2, L3. rewrite L2 in L, B.
  split; [apply centre_length; exact L|]. fold nd. intros x Hx.
  rewrite (centre_nth i x L Hx). destruct (wf_axis m Hwf x Hx) as [Hlh Hk].
  destruct (i2p1_inside Hlh Hk (nth x i 0%Z) (B x Hx)). split; lra.
Qed.

(* ----- (a) region2slices of an aligned subregion; block membership <-> centre inside ----- *)
Section Sub.
Variables (r : region) (a b : list Z).
Hypothesis Hal : aligned m r a b.

Lemma aligned_axis x : (x < nd)%nat ->
  let lo := nth x (pmin (reg m)) 0 in let hi := nth x (pmax (reg m)) 0 in let k := nth x (n m) 1%Z in
  lo < hi /\ (0 < k)%Z /\ ((0 <= nth x a 0 < nth x b 0)%Z /\ (nth x b 0 <= k)%Z) /\
  nth x (pmin r) 0 == lo + inject_Z (nth x a 0%Z) * cell_of lo hi k /\
  nth x (pmax r) 0 == lo + inject_Z (nth x b 0%Z) * cell_of lo hi k.
Proof.
  intros Hx lo hi k. destruct Hal as [_ [_ [_ [_ H]]]]. destruct (H x Hx) as [A [B [C D]]].
  destruct (wf_axis m Hwf x Hx) as [Hlh Hk]. rewrite (cell_nth m Hwf x Hx) in C, D.
  repeat split; try assumption; lia.
Qed.

Lemma region2block_aligned : region2block m r = OK (a, map (fun z => (z - 1)%Z) b).
Proof.
  destruct Hal as [La [Lb [Lc [Ld _]]]]. fold nd in La, Lb, Lc, Ld.
  destruct (wf_lengths m Hwf) as [L1 [L2 L3]]. fold nd in L1, L2, L3.
  set (P1 := map2 (fun p c => p + c / 2) (pmin r) (cell m)).
  set (P2 := map2 (fun p c => p - c / 2) (pmax r) (cell m)).
  assert (LP1 : length P1 = nd) by (unfold P1; rewrite map2_length; lia).
  assert (LP2 : length P2 = nd) by (unfold P2; rewrite map2_length; lia).
  assert (N1 : forall x, (x < nd)%nat -> nth x P1 0 = nth x (pmin r) 0 +
             cell_of (nth x (pmin (reg m)) 0) (nth x (pmax (reg m)) 0) (nth x (n m) 1%Z) / 2).
  { intros x Hx. unfold P1. rewrite (nth_map2 _ _ _ _ 0 0 0) by lia. rewrite (cell_nth m Hwf x Hx). reflexivity. }
  assert (N2 : forall x, (x < nd)%nat -> nth x P2 0 = nth x (pmax r) 0 -
             cell_of (nth x (pmin (reg m)) 0) (nth x (pmax (reg m)) 0) (nth x (n m) 1%Z) / 2).
  { intros x Hx. unfold P2. rewrite (nth_map2 _ _ _ _ 0 0 0) by lia. rewrite (cell_nth m Hwf x Hx). reflexivity. }
  assert (I1 : inside_box m P1).
  { split; [exact LP1|]. fold nd. intros x Hx. rewrite (N1 x Hx).
    destruct (aligned_axis x Hx) as [Hlh [Hk [Hab [Hs Ht]]]].
    destruct (block_points_inside _ _ _ Hlh Hk _ _ _ _ Hab Hs Ht) as [A [B _]]. split; assumption. }
  assert (I2 : inside_box m P2).
  { split; [exact LP2|]. fold nd. intros x Hx. rewrite (N2 x Hx).
    destruct (aligned_axis x Hx) as [Hlh [Hk [Hab [Hs Ht]]]].
    destruct (block_points_inside _ _ _ Hlh Hk _ _ _ _ Hab Hs Ht) as [_ [_ [A B]]]. split; assumption. }
  unfold region2block. fold P1 P2. rewrite (p2i_ok P1 I1), (p2i_ok P2 I2). simpl.
  f_equal. f_equal.
  - apply nth_ext_Z; [rewrite nearest_idx_length; lia|].
    intros x Hx. rewrite nearest_idx_length in Hx by exact LP1.
    rewrite (nearest_idx_nth P1 x LP1 Hx), (N1 x Hx).
    destruct (aligned_axis x Hx) as [Hlh [Hk [Hab [Hs Ht]]]].
    apply (block_lo _ _ _ Hlh Hk _ _ _ Hab Hs).
  - apply nth_ext_Z; [rewrite nearest_idx_length, map_length; lia|].
    intros x Hx. rewrite nearest_idx_length in Hx by exact LP2.
    rewrite (nearest_idx_nth P2 x LP2 Hx), (N2 x Hx).
    rewrite (nth_map_dflt _ _ _ 0%Z) by lia.
    destruct (aligned_axis x Hx) as [Hlh [Hk [Hab [Hs Ht]]]].
    apply (block_hi _ _ _ Hlh Hk _ _ _ Hab Ht).
Qed.

Lemma block_iff_centre i : length i = nd ->
  (in_block a (map (fun z => (z - 1)%Z) b) i = true <-> centre_in m i r).
Proof.
  intros Li. destruct Hal as [La [Lb [Lc [Ld _]]]]. fold nd in La, Lb, Lc, Ld.
  unfold in_block, centre_in. fold nd. rewrite map_length, Li, Lc, Ld, Nat.eqb_refl. simpl.
  rewrite forallb_id_nth. rewrite map3_length, map_length, Lc, Ld, Li.
  replace (Nat.min nd (Nat.min nd nd)) with nd by lia.
  split; intros H x Hx; specialize (H x Hx);
    destruct (aligned_axis x Hx) as [Hlh [Hk [Hab [Hs Ht]]]];
    pose proof (centre_in_block _ _ _ Hlh Hk _ _ _ _ Hs Ht (nth x i 0%Z)) as E;
    rewrite <- (centre_nth i x Li Hx) in E.
  - rewrite (nth_map3 _ _ _ _ _ true 0%Z 0%Z 0%Z) in H by (rewrite ?map_length; lia).
    rewrite (nth_map_dflt _ _ _ 0%Z) in H by lia. apply andb_true_iff in H. destruct H as [H0 H1].
    apply Z.leb_le in H0, H1. apply E. lia.
  - rewrite (nth_map3 _ _ _ _ _ true 0%Z 0%Z 0%Z) by (rewrite ?map_length; lia).
    rewrite (nth_map_dflt _ _ _ 0%Z) by lia. apply andb_true_iff. rewrite !Z.leb_le. apply E. exact H.
Qed.

(* ----- (b) the submesh mesh[subregion]: b - a cells, same centres ----- *)
Lemma submesh_spec sm : mesh_by_cell r (cell m) = OK sm ->
  reg sm = r /\ n sm = map2 Z.sub b a /\
  forall i, length i = nd -> forall x, (x < nd)%nat ->
    nth x (centre sm (map2 Z.sub i a)) 0 == nth x (centre m i) 0.
Proof.
  intros E. destruct Hal as [La [Lb [Lc [Ld _]]]]. fold nd in La, Lb, Lc, Ld.
  destruct (wf_lengths m Hwf) as [L1 [L2 L3]]. fold nd in L1, L2, L3.
  unfold mesh_by_cell in E.
  repeat match type of E with (if ?c then _ else _) = _ => destruct c; [discriminate|] end.
  injection E as <-.
  set (ns := map2 (fun e c => Qround_half_even (e / c)) (edges r) (cell m)).
  assert (Lns : length ns = nd) by (unfold ns, edges, edges_of; rewrite !map2_length; lia).
  assert (Ln : forall x, (x < nd)%nat -> nth x ns 1%Z = (nth x b 0 - nth x a 0)%Z).
  { intros x Hx. unfold ns, edges, edges_of.
    rewrite (nth_map2 _ _ _ _ 1%Z 0 0) by (rewrite ?map2_length; lia).
    rewrite (nth_map2 _ _ _ _ 0 0 0) by lia. rewrite (cell_nth m Hwf x Hx).
    destruct (aligned_axis x Hx) as [Hlh [Hk [Hab [Hs Ht]]]].
    apply (sub_count _ _ _ Hlh Hk _ _ _ _ Hab Hs Ht). }
  split; [reflexivity|]. split.
  - cbn [n]. apply nth_ext_Z.
    + rewrite map2_length. lia.
    + intros x Hx. rewrite Lns in Hx.
      rewrite (nth_indep _ 0%Z 1%Z) by lia.
      rewrite (Ln x Hx). rewrite (nth_map2 _ _ _ _ 0%Z 0%Z 0%Z) by lia. reflexivity.
  - intros i Li x Hx. rewrite (centre_nth i x Li Hx).
    unfold centre. change (cell (mkMesh r ns "" [])) with (map3 cell_of (pmin r) (pmax r) ns).
    cbn [reg].
    rewrite (nth_map3 _ _ _ _ _ 0 0 0 0%Z) by (rewrite ?map3_length, ?map2_length; lia).
    rewrite (nth_map3 _ _ _ _ _ 0 0 0 1%Z) by lia.
    rewrite (Ln x Hx). rewrite (nth_map2 _ _ _ _ 0%Z 0%Z 0%Z) by lia.
    destruct (aligned_axis x Hx) as [Hlh [Hk [Hab [Hs Ht]]]].
    apply (sub_centre _ _ _ _ _ _ _ Hab Hs Ht).
Qed.
End Sub.

(* ----- (c) a source mesh m and a point q of its closed region: the selected cell contains q ----- *)
Lemma source_pick_contains_nd q : inside_box m q ->
  forall x, (x < nd)%nat ->
    let j := nth x (nearest_idx m q) 0%Z in
    let lo := nth x (pmin (reg m)) 0 in let c := nth x (cell m) 0 in
    (0 <= j < nth x (n m) 1)%Z /\ lo + inject_Z j * c <= nth x q 0 /\ nth x q 0 <= lo + (inject_Z j + 1) * c.
Proof.
  intros [L H] x Hx. fold nd in L, H. simpl.
  rewrite (nearest_idx_nth q x L Hx), (cell_nth m Hwf x Hx).
  destruct (wf_axis m Hwf x Hx) as [Hlh Hk]. destruct (H x Hx) as [A B].
  apply (pick_contains _ _ _ Hlh Hk _ A B).
Qed.

Lemma source_nearest_contains_nd q (jl : zidx) : inside_box m q -> length jl = nd ->
  (forall x, (x < nd)%nat ->
     let lo := nth x (pmin (reg m)) 0 in let c := nth x (cell m) 0 in
     (0 <= nth x jl 0 < nth x (n m) 1)%Z /\
     forall j, (0 <= j < nth x (n m) 1)%Z ->
       Qabs (i2p1 lo c (nth x jl 0%Z) - nth x q 0) <= Qabs (i2p1 lo c j - nth x q 0)) ->
  forall x, (x < nd)%nat ->
    let lo := nth x (pmin (reg m)) 0 in let c := nth x (cell m) 0 in
    lo + inject_Z (nth x jl 0%Z) * c <= nth x q 0 /\ nth x q 0 <= lo + (inject_Z (nth x jl 0%Z) + 1) * c.
Proof.
  intros [L H] Lj Hmin x Hx. fold nd in L, H. specialize (Hmin x Hx). simpl in *.
  rewrite (cell_nth m Hwf x Hx) in *.
  destruct (wf_axis m Hwf x Hx) as [Hlh Hk]. destruct (H x Hx) as [A B]. destruct Hmin as [R M].
  apply (nearest_contains _ _ _ Hlh Hk _ _ A B R M).
Qed.
End ND.

(* the centres of a target mesh whose region lies in the source region are points of the source region *)
Lemma target_centres_in_source (t s : mesh) (i : zidx) :
  wf_mesh t -> length (pmin (reg s)) = length (pmin (reg t)) ->
  (forall x, (x < length (pmin (reg t)))%nat ->
     nth x (pmin (reg s)) 0 <= nth x (pmin (reg t)) 0 /\ nth x (pmax (reg t)) 0 <= nth x (pmax (reg s)) 0) ->
  in_range (n t) i -> inside_box s (centre t i).
Proof.
  intros Ht L H Hr. destruct (centre_inside t Ht i Hr) as [Lc Hc].
  split; [lia|]. rewrite L. intros x Hx. specialize (H x Hx). specialize (Hc x Hx). lra.
Qed.

Lemma field_spec_value {V} (m : mesh) (nv : nat) (src : fstate V) a :
  as_array_field m nv src = OK a ->
  fnv src = nv /\ forall i, a i = farr src (nearest_idx (fmesh src) (centre m i)).
Proof.
  unfold as_array_field.
  repeat match goal with |- (if ?c then _ else _) = _ -> _ => destruct c eqn:?; [discriminate|] end.
  intros H; injection H as <-. split; [|reflexivity].
  match goal with H : negb (_ =? _)%nat = false |- _ => apply negb_false_iff, Nat.eqb_eq in H; exact H end.
Qed.

(* ---------- (d) line ---------- *)
Lemma mapres_all_ok {A B} (f : A -> res B) l :
  (forall x, In x l -> exists b, f x = OK b) -> exists bs, mapres f l = OK bs.
Proof.
  induction l as [|x t IH]; intros H; simpl; [eauto|].
  destruct (H x (or_introl eq_refl)) as [b Eb]. rewrite Eb. simpl.
  destruct IH as [bs Ebs]; [intros y Hy; apply H; right; exact Hy|]. rewrite Ebs. simpl. eauto.
Qed.

Lemma line_points_inside_nd (m : mesh) p1 p2 k p :
  inside_box m p1 -> inside_box m p2 -> (2 <= k)%Z -> In p (line_points p1 p2 k) -> inside_box m p.
Proof.
  intros [L1 H1] [L2 H2] Hk Hp. unfold line_points in Hp. apply in_map_iff in Hp.
  destruct Hp as [j [<- Hj]]. apply In_ziota in Hj. rewrite Z2Nat.id in Hj by lia.
  split.
  - unfold line_point. rewrite map2_length. lia.
  - intros x Hx. apply line_inside; try lia; auto.
Qed.

Section Line.
Variable V : Type.

Lemma line_values (f : fstate V) p1 p2 k l :
  field_line f p1 p2 k = OK l ->
  (2 <= k)%Z /\ contains_pt (reg (fmesh f)) p1 = true /\ contains_pt (reg (fmesh f)) p2 = true /\
  l_points l = line_points p1 p2 k /\
  Forall2 (fun p v => sample f p = OK v) (l_points l) (l_values l) /\
  l_r2 l = map (fun p => dist2 p (hd [] (l_points l))) (l_points l).
Proof.
  unfold field_line, mesh_line.
  destruct (contains_pt (reg (fmesh f)) p1) eqn:C1; simpl; [|discriminate].
  destruct (contains_pt (reg (fmesh f)) p2) eqn:C2; simpl; [|discriminate].
  destruct (k <? 2)%Z eqn:Ek; simpl; [discriminate|]. apply Z.ltb_ge in Ek.
  destruct (mapres (sample f) (line_points p1 p2 k)) as [vals|] eqn:Em; simpl; [|discriminate].
  intros H; injection H as <-. simpl. repeat split; auto.
  apply mapres_Forall2. exact Em.
Qed.

Lemma line_accepts (f : fstate V) p1 p2 k :
  wf_mesh (fmesh f) -> inside_box (fmesh f) p1 -> inside_box (fmesh f) p2 -> (2 <= k)%Z ->
  exists l, field_line f p1 p2 k = OK l /\ l_points l = line_points p1 p2 k /\
            length (l_values l) = Z.to_nat k /\
            Forall2 (fun p v => exists i, point2index (fmesh f) p = OK i /\ v = farr f i)
                    (l_points l) (l_values l).
Proof.
  intros Hwf I1 I2 Hk. unfold field_line, mesh_line.
  rewrite (contains_inside _ Hwf p1 I1), (contains_inside _ Hwf p2 I2). simpl.
  assert (Ek : (k <? 2)%Z = false) by (apply Z.ltb_ge; lia). rewrite Ek. simpl.
  destruct (mapres_all_ok (sample f) (line_points p1 p2 k)) as [vals Ev].
  { intros p Hp. pose proof (line_points_inside_nd _ _ _ _ _ I1 I2 Hk Hp) as Ip.
    unfold sample. rewrite (p2i_ok _ Hwf p Ip). simpl. eauto. }
  rewrite Ev. simpl. eexists. split; [reflexivity|]. simpl. split; [reflexivity|]. split.
  - rewrite (mapres_length _ _ _ Ev). apply line_points_length.
  - apply mapres_Forall2 in Ev. induction Ev; constructor; auto. apply sample_spec. assumption.
Qed.
End Line.

(* ---------- the dictionary rule in the property's own words ---------- *)
Lemma find_first_Forall2 {A B} (R : A -> B -> Prop) (P : A -> Prop) (q : B -> bool) l bs :
  Forall2 R l bs -> (forall x y, R x y -> (q y = true <-> P x)) ->
  match find q bs with
  | Some y => exists l1 x l2, l = l1 ++ x :: l2 /\ (forall z, In z l1 -> ~ P z) /\ P x /\ R x y
  | None => forall z, In z l -> ~ P z
  end.
Proof.
  intros H E. induction H as [|x y l bs Hxy H IH]; simpl; [tauto|].
  destruct (q y) eqn:Eq.
  - exists [], x, l. repeat split; auto. apply (E x y Hxy). exact Eq.
  - assert (N : ~ P x). { intros Px. apply (E x y Hxy) in Px. congruence. }
    destruct (find q bs) as [y'|].
    + destruct IH as [l1 [x' [l2 [-> [H1 [H2 H3]]]]]].
      exists (x :: l1), x', l2. repeat split; auto. intros z [<-|Hz]; auto.
    + intros z [<-|Hz]; auto.
Qed.

Section Dict.
Variable V : Type.
Variable vzero : V.
Variable is_zero : V -> bool.

Lemma mk_block_spec (m : mesh) (nv : nat) (r : region) (sv : sspec V) (a b : list Z) blk :
  wf_mesh m -> aligned m r a b ->
  mk_block vzero is_zero m nv r sv = OK blk ->
  exists sm sub, mesh_by_cell r (cell m) = OK sm /\ as_array_simple vzero is_zero sm nv sv = OK sub /\
    b_lo blk = a /\ b_hi blk = map (fun z => (z - 1)%Z) b /\ b_arr blk = sub.
Proof.
  intros Hwf Hal. unfold mk_block.
  destruct (mesh_by_cell r (cell m)) as [sm|] eqn:Es; simpl; [|discriminate].
  destruct (submesh_spec m Hwf r a b Hal sm Es) as [Er _]. rewrite Er.
  rewrite (region2block_aligned m Hwf r a b Hal). simpl.
  destruct (as_array_simple vzero is_zero sm nv sv) as [sub|] eqn:Ea; simpl; [|discriminate].
  destruct (zlist_eqb _ _); [|discriminate].
  intros H; injection H as <-. exists sm, sub. simpl. auto.
Qed.

Definition default_rule (m : mesh) (nv : nat) (d : ddefault V) (arr : zidx -> list V) (i : zidx) : Prop :=
  match d with
  | DNone => False
  | DFill s => exists f, fill_array vzero m nv s = OK f /\ arr i = f i
  | DCall f => arr i = f (centre m i) /\ length (arr i) = nv
  | DSample src => sample src (centre m i) = OK (arr i) /\ length (arr i) = nv
  end.

(* every cell holds the value of the FIRST-LISTED subregion (among those with a key) whose closed
   extent contains the cell centre - the sub-value being evaluated on the submesh, whose cell centres
   are the mesh's cell centres - and otherwise the default *)
Theorem dict_first_containing (m : mesh) (nv : nat) (items : list (string * sspec V)) (d : ddefault V) arr :
  wf_mesh m ->
  (forall rs, In rs (keyed m items) -> exists a b, aligned m (fst rs) a b) ->
  as_array_dict vzero is_zero m nv items d = OK arr ->
  forall i, In i (indices_xfast (n m)) ->
    (exists l1 r sv l2 sm sub a b,
        keyed m items = l1 ++ (r, sv) :: l2 /\
        (forall rs, In rs l1 -> ~ centre_in m i (fst rs)) /\ centre_in m i r /\
        aligned m r a b /\ mesh_by_cell r (cell m) = OK sm /\
        as_array_simple vzero is_zero sm nv sv = OK sub /\
        arr i = sub (map2 Z.sub i a) /\
        forall x, (x < length (pmin (reg m)))%nat ->
          nth x (centre sm (map2 Z.sub i a)) 0 == nth x (centre m i) 0)
    \/
    ((forall rs, In rs (keyed m items) -> ~ centre_in m i (fst rs)) /\ default_rule m nv d arr i).
Proof.
  intros Hwf Hal H i Hi.
  destruct (dict_first_wins V vzero is_zero m nv items d arr H) as [bs [_ [F W]]].
  specialize (W i Hi).
  assert (Hr : in_range (n m) i).
  { apply indices_xfast_in_range; [|exact Hi].
    destruct Hwf as [_ [_ Hp]]. eapply Forall_impl; [|exact Hp]. simpl. intros; lia. }
  destruct (in_range_bounds _ _ Hr) as [Li _].
  destruct (wf_lengths m Hwf) as [_ [L2 _]]. rewrite L2 in Li.
  (* restrict the Forall2 to pairs that are in keyed, to use alignment *)
  assert (F' : Forall2 (fun rs blk => In rs (keyed m items) /\
                         mk_block vzero is_zero m nv (fst rs) (snd rs) = OK blk) (keyed m items) bs).
  { clear -F. assert (G : forall l, (forall z, In z l -> In z (keyed m items)) ->
      forall bs, Forall2 (fun rs b => mk_block vzero is_zero m nv (fst rs) (snd rs) = OK b) l bs ->
      Forall2 (fun rs blk => In rs (keyed m items) /\
                 mk_block vzero is_zero m nv (fst rs) (snd rs) = OK blk) l bs).
    { intros l Hl bs0 F0. induction F0; constructor; auto.
      - split; auto. apply Hl. left; reflexivity.
      - apply IHF0. intros z Hz. apply Hl. right; exact Hz. }
    apply G; auto. }
  pose proof (find_first_Forall2 _ (fun rs => centre_in m i (fst rs))
                (fun blk => in_block (b_lo blk) (b_hi blk) i) _ _ F') as K.
  unfold first_block in W.
  assert (E : forall (x : region * sspec V) (y : block V),
           In x (keyed m items) /\ mk_block vzero is_zero m nv (fst x) (snd x) = OK y ->
           (in_block (b_lo y) (b_hi y) i = true <-> centre_in m i (fst x))).
  { intros [r sv] blk [Hin Hb]. simpl in *. destruct (Hal _ Hin) as [a [b Hab]]. simpl in Hab.
    destruct (mk_block_spec m nv r sv a b blk Hwf Hab Hb) as [sm [sub [_ [_ [-> [-> _]]]]]].
    apply (block_iff_centre m Hwf r a b Hab i Li). }
  specialize (K E).
  destruct (find (fun b => in_block (b_lo b) (b_hi b) i) bs) as [blk|].
  - left. destruct K as [l1 [[r sv] [l2 [Ek [N [P [Hin Hb]]]]]]]. simpl in *.
    destruct (Hal _ Hin) as [a [b Hab]]. simpl in Hab.
    destruct (mk_block_spec m nv r sv a b blk Hwf Hab Hb) as [sm [sub [Es [Ea [Elo [_ Earr]]]]]].
    exists l1, r, sv, l2, sm, sub, a, b.
    split; [exact Ek|]. split; [exact N|]. split; [exact P|]. split; [exact Hab|].
    split; [exact Es|]. split; [exact Ea|]. split.
    + rewrite W, Elo, Earr. reflexivity.
    + destruct (submesh_spec m Hwf r a b Hab sm Es) as [_ [_ C]]. intros x Hx. apply C; assumption.
  - right. split; [exact K|]. unfold default_rule. exact W.
Qed.
End Dict.

(* ---------- non-vacuity: an aligned subregion of a concrete mesh ---------- *)
Lemma nonvacuous_aligned :
  let r := mkRegion [0; (-1)] [4; 2] ["x"%string; "y"%string] ["m"%string; "m"%string] (1 # 1000000000000) in
  let m := mkMesh r [4; 6]%Z "" [] in
  let s := mkRegion [1; (-1)] [3; 0] ["x"%string; "y"%string] ["m"%string; "m"%string] (1 # 1000000000000) in
  wf_mesh m /\ aligned m s [1; 0]%Z [3; 2]%Z /\
  region2block m s = OK ([1; 0]%Z, [2; 1]%Z) /\
  inside_box m [4; (-1)] /\ inside_box m [0; 2].
Proof.
  intros r m s. split; [exact (proj1 nonvacuous_mesh)|]. split; [|split; [vm_compute; reflexivity|]].
  - unfold aligned. split; [reflexivity|]. split; [reflexivity|]. split; [reflexivity|]. split; [reflexivity|].
    intros y Hy. destruct y as [|[|y]]; simpl in Hy; try lia;
      (split; [simpl; lia|]; split; [simpl; lia|]; split; vm_compute; reflexivity).
  - split; (split; [reflexivity|]); intros y Hy; destruct y as [|[|y]]; simpl in Hy; try lia;
      split; vm_compute; congruence.
Qed.

(* ---------- source field: every target cell receives the value of a source cell whose closed
   extent contains the target cell centre ---------- *)
Lemma source_field_cell {V} (t : mesh) (nv : nat) (src : fstate V) a (i : zidx) :
  wf_mesh t -> wf_mesh (fmesh src) ->
  length (pmin (reg (fmesh src))) = length (pmin (reg t)) ->
  (forall x, (x < length (pmin (reg t)))%nat ->
     nth x (pmin (reg (fmesh src))) 0 <= nth x (pmin (reg t)) 0 /\
     nth x (pmax (reg t)) 0 <= nth x (pmax (reg (fmesh src))) 0) ->
  as_array_field t nv src = OK a -> in_range (n t) i ->
  exists j, a i = farr src j /\ length j = length (pmin (reg t)) /\
    forall x, (x < length (pmin (reg t)))%nat ->
      let s := fmesh src in
      let lo := nth x (pmin (reg s)) 0 in let c := nth x (cell s) 0 in let q := nth x (centre t i) 0 in
      (0 <= nth x j 0 < nth x (n s) 1)%Z /\
      lo + inject_Z (nth x j 0%Z) * c <= q /\ q <= lo + (inject_Z (nth x j 0%Z) + 1) * c.
Proof.
  intros Ht Hs L Hin E Hr. destruct (field_spec_value t nv src a E) as [_ Ea].
  pose proof (target_centres_in_source t (fmesh src) i Ht L Hin Hr) as Ib.
  exists (nearest_idx (fmesh src) (centre t i)). split; [apply Ea|]. split.
  - rewrite (nearest_idx_length _ Hs); [exact L|]. destruct Ib as [Lc _]. exact Lc.
  - intros x Hx. rewrite <- L in Hx. apply (source_pick_contains_nd _ Hs _ Ib x Hx).
Qed.
