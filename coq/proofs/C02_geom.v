(* C02, geometry: lattice-aligned subregions (index block <-> cell centre inside the subregion,
   submesh centres), source fields on a containing mesh (n-d), line points inside the region and
   line values = samples. *)
From DF Require Import Prelude Constants_gen Region Mesh FieldCore QLemmas ListLemmas C01_axis C01_nd C01_lattice C02_core.
Open Scope Q_scope.

Lemma inject_Z_le a b : (a <= b)%Z <-> inject_Z a <= inject_Z b.
Proof. rewrite Zle_Qle. reflexivity. Qed.

Lemma p2i1_comp lo c k p q : p == q -> p2i1 lo c k p = p2i1 lo c k q.
Proof.
  intros E. unfold p2i1.
  assert (H : (p - lo) / c == (q - lo) / c) by (rewrite E; reflexivity).
  rewrite (Qfloor_comp _ _ H). reflexivity.
Qed.

(* ---------- one axis ---------- *)
Section SubAxis.
Variables (lo hi : Q) (k : Z).
Hypothesis Hlh : lo < hi.
Hypothesis Hk : (0 < k)%Z.
Let c := cell_of lo hi k.
(* a subregion axis [slo, shi] on the lattice: slo = lo + a c, shi = lo + b c, 0 <= a < b <= k *)
Variables (slo shi : Q) (a b : Z).
Hypothesis Hab : (0 <= a < b)%Z /\ (b <= k)%Z.
Hypothesis Hslo : slo == lo + inject_Z a * c.
Hypothesis Hshi : shi == lo + inject_Z b * c.

Lemma sub_c_pos : 0 < c.
Proof. apply cell_pos; assumption. Qed.

Lemma sub_lo_point : slo + c / 2 == i2p1 lo c a.
Proof. unfold i2p1, half_cell. rewrite Hslo. field. Qed.

Lemma sub_hi_point : shi - c / 2 == i2p1 lo c (b - 1).
Proof.
  unfold i2p1, half_cell. rewrite Hshi. unfold Z.sub. rewrite inject_Z_plus, inject_Z_opp.
  change (inject_Z 1) with 1. field.
Qed.

(* Mesh.region2slices: first and last index of the block *)
Lemma block_lo : p2i1 lo c k (slo + c / 2) = a.
Proof. rewrite (p2i1_comp _ _ _ _ _ sub_lo_point). apply (p2i1_i2p1 Hlh Hk). lia. Qed.

Lemma block_hi : p2i1 lo c k (shi - c / 2) = (b - 1)%Z.
Proof. rewrite (p2i1_comp _ _ _ _ _ sub_hi_point). apply (p2i1_i2p1 Hlh Hk). lia. Qed.

Lemma block_points_inside :
  lo <= slo + c / 2 /\ slo + c / 2 <= hi /\ lo <= shi - c / 2 /\ shi - c / 2 <= hi.
Proof.
  pose proof (i2p1_inside Hlh Hk a ltac:(lia)) as [A0 A1].
  pose proof (i2p1_inside Hlh Hk (b - 1)%Z ltac:(lia)) as [B0 B1].
  fold c in A0, A1, B0, B1. rewrite <- sub_lo_point in A0, A1. rewrite <- sub_hi_point in B0, B1.
  repeat split; lra.
Qed.

(* the index j lies in the block iff the centre of cell j lies in the (closed) subregion axis *)
Lemma centre_in_block j : (a <= j <= b - 1)%Z <-> (slo <= i2p1 lo c j /\ i2p1 lo c j <= shi).
Proof.
  pose proof sub_c_pos as Hc. unfold i2p1, half_cell. rewrite Hslo, Hshi. split.
  - intros [H0 H1]. apply inject_Z_le in H0.
    assert (H1' : inject_Z j + 1 <= inject_Z b).
    { change 1 with (inject_Z 1). rewrite <- inject_Z_plus, <- Zle_Qle. lia. }
    split.
    + assert (inject_Z a * c <= (inject_Z j + (1 # 2)) * c) by (apply Qmult_le_compat_r; lra). lra.
    + assert ((inject_Z j + (1 # 2)) * c <= inject_Z b * c) by (apply Qmult_le_compat_r; lra). lra.
  - intros [H0 H1].
    assert (A : inject_Z a <= inject_Z j + (1 # 2)).
    { apply (Qmult_le_r _ _ c Hc). lra. }
    assert (B : inject_Z j + (1 # 2) <= inject_Z b).
    { apply (Qmult_le_r _ _ c Hc). lra. }
    split.
    + destruct (Z_le_gt_dec a j) as [|G]; [assumption|exfalso].
      assert (inject_Z j + 1 <= inject_Z a).
      { change 1 with (inject_Z 1). rewrite <- inject_Z_plus, <- Zle_Qle. lia. }
      lra.
    + destruct (Z_le_gt_dec j (b - 1)) as [|G]; [assumption|exfalso].
      assert (inject_Z b <= inject_Z j) by (rewrite <- Zle_Qle; lia). lra.
Qed.

(* the submesh Mesh(region=subregion, cell=c) has b - a cells of the same size ... *)
Lemma sub_edge : shi - slo == inject_Z (b - a) * c.
Proof. rewrite Hslo, Hshi. unfold Z.sub. rewrite inject_Z_plus, inject_Z_opp. ring. Qed.

Lemma sub_count : Qround_half_even ((shi - slo) / c) = (b - a)%Z.
Proof.
  apply (bycell_exact_multiple c (shi - slo) 0 sub_c_pos ltac:(lra) (b - a)%Z ltac:(lia) sub_edge).
Qed.

Lemma sub_cell : cell_of slo shi (b - a) == c.
Proof.
  unfold cell_of. rewrite sub_edge.
  assert (0 < inject_Z (b - a)) by (apply inject_Z_pos; lia). field. lra.
Qed.

(* ... and the centre of its cell j - a is the centre of cell j of the mesh *)
Lemma sub_centre j : i2p1 slo (cell_of slo shi (b - a)) (j - a) == i2p1 lo c j.
Proof.
  unfold i2p1. rewrite sub_cell, Hslo. unfold Z.sub. rewrite inject_Z_plus, inject_Z_opp. ring.
Qed.
End SubAxis.
