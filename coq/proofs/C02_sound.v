(* C02: soundness of check_C02 - an accepted case certifies that the OBSERVED output of
   Field(...), field.update_field_values, field(point), field.<component>, iteration and
   field.line is the value of the FieldCore model on the recorded input (exact regime: equal
   as Gaussian rationals; scale regime: within rel_tol * scale per component), so the C02
   theorems apply to the observation itself.  Also: the mesh the checker builds from a
   recorded mesh description is well-formed. *)
From DF Require Import Prelude Constants_gen Region Mesh FieldCore ListLemmas CheckSound Check_C02
  C01_axis C01_nd C01_lattice C01_sound C02_core C02_geom.
Open Scope Q_scope.

(* ---------- the comparison relations ---------- *)
Definition cv_eq (a b : cv) : Prop := fst a == fst b /\ snd a == snd b.
Definition cv_near (scale : Q) (a b : cv) : Prop :=
  Qabs (fst a - fst b) <= rel_tol * scale /\ Qabs (snd a - snd b) <= rel_tol * scale.

Lemma cv_eqb_sound a b : cv_eqb a b = true -> cv_eq a b.
Proof.
  unfold cv_eqb, cv_eq. intro H. apply andb_true_iff in H. destruct H as [H1 H2].
  split; apply Qeq_bool_eq; assumption.
Qed.

Lemma cvl_exact_sound sc a b : cvl_cmp true sc a b = true -> Forall2 cv_eq a b.
Proof. unfold cvl_cmp. apply forallb2_Forall2_gen. intros x y. unfold cv_cmp. apply cv_eqb_sound. Qed.

Lemma cvl_near_sound sc a b : cvl_cmp false sc a b = true -> Forall2 (cv_near sc) a b.
Proof.
  unfold cvl_cmp. apply forallb2_Forall2_gen. intros x y. unfold cv_cmp, cv_near.
  intro H. apply andb_true_iff in H. destruct H as [H1 H2]. split; apply qclose_sound; assumption.
Qed.

Definition cvl_rel (exact : bool) (sc : Q) : list cv -> list cv -> Prop :=
  if exact then Forall2 cv_eq else Forall2 (cv_near sc).

Lemma cvl_cmp_sound exact sc a b : cvl_cmp exact sc a b = true -> cvl_rel exact sc a b.
Proof. destruct exact; [apply cvl_exact_sound | apply cvl_near_sound]. Qed.

(* ---------- what [mk] builds ---------- *)
Lemma mk_inv d nv s vd f : mk d nv s vd = OK (OK f) ->
  exists m sp, build_mesh d = OK m /\ to_spec s = OK sp /\ mk_field cv0 cv_is_zero m nv sp vd = OK f.
Proof.
  unfold mk. destruct (build_mesh d) as [m|e]; simpl; [|discriminate].
  destruct (to_spec s) as [sp|e]; simpl; [|discriminate].
  intro H. inversion H. exists m, sp. auto.
Qed.

Lemma mk_field_inv m nv sp vd f : mk_field cv0 cv_is_zero m nv sp vd = OK f ->
  fmesh f = m /\ fnv f = nv /\ nv <> 0%nat /\ as_array cv0 cv_is_zero m nv sp = OK (farr f) /\
  (vd = None -> fvdims f = default_vdims nv).
Proof.
  unfold mk_field. destruct (nv =? 0)%nat eqn:E0; [discriminate|]. apply Nat.eqb_neq in E0.
  destruct (as_array cv0 cv_is_zero m nv sp) as [a|e]; simpl; [|discriminate].
  destruct vd as [[|x l]|].
  - simpl. intro H; inversion H; subst f; simpl. repeat split; auto. intro X; discriminate X.
  - destruct (negb (length (x :: l) =? nv)%nat) eqn:E1; [intro X; discriminate X|].
    destruct (negb (nodupb (x :: l))) eqn:E2; [intro X; discriminate X|].
    intro H. unfold bind in H. inversion H; subst f; simpl. repeat split; auto. intro X; discriminate X.
  - simpl. intro H; inversion H; subst f; simpl. repeat split; auto.
Qed.

(* the recorded mesh description yields a well-formed mesh *)
Theorem build_mesh_wf p1 p2 n_ tf_ dims_ subs_ m :
  build_mesh (MeshD p1 p2 n_ tf_ dims_ subs_) = OK m -> 0 <= tf_ ->
  (dims_ = None -> (length p1 <= 10)%nat) -> wf_mesh m.
Proof.
  unfold build_mesh. intros H Htf Hnd.
  destruct (mk_region p1 p2 dims_ None tf_) as [r|e] eqn:Er; simpl in H; [|discriminate].
  destruct (mk_mesh_n r n_) as [m0|e] eqn:Em; simpl in H; [|discriminate].
  inversion H; subst m; clear H.
  pose proof (mk_region_wf _ _ _ _ _ _ Er Htf Hnd) as Hr.
  pose proof (mk_mesh_n_wf _ _ _ Hr Em) as Hw.
  unfold mk_mesh_n in Em.
  destruct (negb (length n_ =? ndim r)%nat); [discriminate|].
  destruct (negb (forallb (fun k => (0 <? k)%Z) n_)); [discriminate|].
  inversion Em; subst m0; clear Em.
  unfold wf_mesh in *. simpl in *. exact Hw.
Qed.

Theorem mk_wf p1 p2 n_ tf_ dims_ subs_ nv s vd f :
  mk (MeshD p1 p2 n_ tf_ dims_ subs_) nv s vd = OK (OK f) -> 0 <= tf_ ->
  (dims_ = None -> (length p1 <= 10)%nat) ->
  wf_mesh (fmesh f) /\ fnv f = nv /\ build_mesh (MeshD p1 p2 n_ tf_ dims_ subs_) = OK (fmesh f).
Proof.
  intros H Htf Hnd. destruct (mk_inv _ _ _ _ _ H) as (m & sp & Hm & _ & Hf).
  destruct (mk_field_inv _ _ _ _ _ Hf) as (E1 & E2 & _). rewrite E1.
  split; [eapply build_mesh_wf; eauto|]. split; assumption.
Qed.

(* ---------- soundness of check_C02, constructor by constructor ---------- *)

(* Field(mesh, nvdim, value) accepted by the library: the observed array (C order, flattened) is the
   model's array - or, for a source field, every cell holds the value of an admissible nearest
   source cell (field_adm: a tie may go either way) *)
Lemma check_init_sound exact sc d nv s o :
  check_C02 (CInit exact sc d nv s (Some o)) = true ->
  exists f, mk d nv s None = OK (OK f) /\
    length o = length (flat (fmesh f) (farr f)) /\
    (cvl_rel exact sc (flat (fmesh f) (farr f)) o \/
     exists sd snv sdata src, s = VSimple (VField sd snv sdata) /\ build_src sd snv sdata = OK src /\
                              field_adm (fmesh f) nv src o = true).
Proof.
  cbn [check_C02]. destruct (mk d nv s None) as [[f|e]|e]; try discriminate.
  intro H. apply andb_true_iff in H. destruct H as [Hl H]. apply Nat.eqb_eq in Hl.
  exists f. split; [reflexivity|]. split; [exact Hl|].
  apply orb_true_iff in H. destruct H as [H|H].
  - left. apply cvl_cmp_sound. exact H.
  - right. destruct s as [[v|sh data|fn|sd snv sdata|]|items dd]; try discriminate.
    destruct (build_src sd snv sdata) as [src|e] eqn:Es; [|discriminate].
    exists sd, snv, sdata, src. auto.
Qed.

(* not a source field: no alternative, the observed array IS the model's array *)
Lemma check_init_plain_sound exact sc d nv s o :
  check_C02 (CInit exact sc d nv s (Some o)) = true ->
  (forall sd snv sdata, s <> VSimple (VField sd snv sdata)) ->
  exists f, mk d nv s None = OK (OK f) /\ cvl_rel exact sc (flat (fmesh f) (farr f)) o.
Proof.
  intros H Hs. destruct (check_init_sound _ _ _ _ _ _ H) as (f & Hm & _ & [Hc|Hc]).
  - exists f. auto.
  - destruct Hc as (sd & snv & sdata & src & E & _). exfalso. eapply Hs; eauto.
Qed.

Lemma check_init_reject_sound exact sc d nv s :
  check_C02 (CInit exact sc d nv s None) = true -> exists e, mk d nv s None = OK (Err e).
Proof.
  cbn [check_C02]. destruct (mk d nv s None) as [[f|e]|e]; try discriminate. intros _. exists e. reflexivity.
Qed.

(* field.update_field_values(value): acceptance and the array afterwards *)
Lemma check_assign_sound d nv s0 s1 obs_ok obs_after :
  check_C02 (CAssign d nv s0 s1 obs_ok obs_after) = true ->
  exists f sp1, mk d nv s0 None = OK (OK f) /\ to_spec s1 = OK sp1 /\
    is_ok (set_array cv0 cv_is_zero f sp1) = obs_ok /\
    Forall2 cv_eq (flat (fmesh (assign cv0 cv_is_zero f sp1)) (farr (assign cv0 cv_is_zero f sp1))) obs_after.
Proof.
  cbn [check_C02]. destruct (mk d nv s0 None) as [[f|e]|e]; try discriminate.
  destruct (to_spec s1) as [sp1|e]; try discriminate.
  intro H. apply andb_true_iff in H. destruct H as [H1 H2].
  exists f, sp1. repeat split; auto.
  - apply Bool.eqb_prop. exact H1.
  - eapply cvl_exact_sound. exact H2.
Qed.

(* field(point) *)
Lemma check_sample_sound exact sc d nv s p o :
  check_C02 (CSample exact sc d nv s p (Some o)) = true ->
  exists f v, mk d nv s None = OK (OK f) /\ sample f p = OK v /\ cvl_rel exact sc v o.
Proof.
  cbn [check_C02]. destruct (mk d nv s None) as [[f|e]|e]; try discriminate.
  destruct (sample f p) as [v|e] eqn:Es; try discriminate.
  intro H. exists f, v. repeat split; auto. apply cvl_cmp_sound. exact H.
Qed.

Lemma check_sample_reject_sound exact sc d nv s p :
  check_C02 (CSample exact sc d nv s p None) = true ->
  exists f e, mk d nv s None = OK (OK f) /\ sample f p = Err e.
Proof.
  cbn [check_C02]. destruct (mk d nv s None) as [[f|e]|e]; try discriminate.
  destruct (sample f p) as [v|e] eqn:Es; try discriminate.
  intros _. exists f, e. auto.
Qed.

(* field.<label> *)
Lemma check_comp_sound d nv s vd label o :
  check_C02 (CComp d nv s vd label (Some o)) = true ->
  exists f g, mk d nv s vd = OK (OK f) /\ component cv0 f label = OK g /\ fnv g = 1%nat /\
    Forall2 cv_eq (flat (fmesh g) (farr g)) o.
Proof.
  cbn [check_C02]. destruct (mk d nv s vd) as [[f|e]|e]; try discriminate.
  destruct (component cv0 f label) as [g|e] eqn:Ec; try discriminate.
  intro H. apply andb_true_iff in H. destruct H as [H1 H2].
  exists f, g. repeat split; auto.
  - apply Nat.eqb_eq. exact H1.
  - eapply cvl_exact_sound. exact H2.
Qed.

Lemma check_comp_reject_sound d nv s vd label :
  check_C02 (CComp d nv s vd label None) = true ->
  exists f e, mk d nv s vd = OK (OK f) /\ component cv0 f label = Err e.
Proof.
  cbn [check_C02]. destruct (mk d nv s vd) as [[f|e]|e]; try discriminate.
  destruct (component cv0 f label) as [g|e] eqn:Ec; try discriminate.
  intros _. exists f, e. auto.
Qed.

(* list(field) *)
Lemma check_iter_sound d nv s obs :
  check_C02 (CIter d nv s obs) = true ->
  exists f, mk d nv s None = OK (OK f) /\
    Forall2 (fun r o => exists v, r = OK v /\ Forall2 cv_eq v o) (iterate f) obs.
Proof.
  cbn [check_C02]. destruct (mk d nv s None) as [[f|e]|e]; try discriminate.
  intro H. exists f. split; [reflexivity|]. revert H. apply forallb2_Forall2_gen.
  intros [v|e] o Hc; [|discriminate]. exists v. split; [reflexivity|]. eapply cvl_exact_sound. exact Hc.
Qed.

(* field.line(p1, p2, n): points, values and the parameter r (compared through r^2) *)
Definition r_rel (r2max r r2 : Q) : Prop := 0 <= r /\ Qabs (r * r - r2) <= rel_tol * r2max.

Lemma check_line_sound d nv s p1 p2 k pts vals rs :
  check_C02 (CLine d nv s p1 p2 k (Some (pts, vals, rs))) = true ->
  exists f l, mk d nv s None = OK (OK f) /\ field_line f p1 p2 k = OK l /\
    Forall2 (Forall2 Qeq) (l_points l) pts /\
    Forall2 (Forall2 cv_eq) (l_values l) vals /\
    Forall2 (r_rel (dist2 p1 p2)) rs (l_r2 l).
Proof.
  cbn [check_C02]. destruct (mk d nv s None) as [[f|e]|e]; try discriminate.
  destruct (field_line f p1 p2 k) as [l|e] eqn:El; try discriminate.
  intro H. apply andb_true_iff in H. destruct H as [H H3].
  apply andb_true_iff in H. destruct H as [H1 H2].
  exists f, l. repeat split; auto.
  - revert H1. apply forallb2_Forall2_gen. intros x y. apply qlist_eqb_sound_gen.
  - revert H2. apply forallb2_Forall2_gen. intros x y. apply cvl_exact_sound.
  - revert H3. apply forallb2_Forall2_gen. intros x y. unfold r_ok, r_rel. intro Hr.
    apply andb_true_iff in Hr. destruct Hr as [Ha Hb]. split.
    + apply Qle_bool_iff. exact Ha.
    + apply qclose_sound. exact Hb.
Qed.

Lemma check_line_reject_sound d nv s p1 p2 k :
  check_C02 (CLine d nv s p1 p2 k None) = true ->
  exists f e, mk d nv s None = OK (OK f) /\ field_line f p1 p2 k = Err e.
Proof.
  cbn [check_C02]. destruct (mk d nv s None) as [[f|e]|e]; try discriminate.
  destruct (field_line f p1 p2 k) as [l|e] eqn:El; try discriminate.
  intros _. exists f, e. auto.
Qed.

(* scale-regime line: points within tol, and every value is the stored value of a candidate cell *)
Lemma check_line_scale_sound tol d nv s p1 p2 k opts ovals :
  check_C02 (CLineS tol d nv s p1 p2 k (Some (opts, ovals))) = true ->
  exists f pts, mk d nv s None = OK (OK f) /\ mesh_line (fmesh f) p1 p2 k = OK pts /\
    Forall2 (Forall2 (fun a b => Qabs (a - b) <= tol * 1)) pts opts /\
    Forall2 (fun q v => length q = length (pmin (reg (fmesh f))) /\
                        exists j, In j (cands_tol tol (fmesh f) q) /\ Forall2 cv_eq (farr f j) v) opts ovals.
Proof.
  cbn [check_C02]. destruct (mk d nv s None) as [[f|e]|e]; try discriminate.
  destruct (mesh_line (fmesh f) p1 p2 k) as [pts|e] eqn:El; try discriminate.
  intro H. apply andb_true_iff in H. destruct H as [H H4].
  apply andb_true_iff in H. destruct H as [H H3].
  exists f, pts. repeat split; auto.
  - revert H3. apply forallb2_Forall2_gen. intros x y. apply forallb2_Forall2_gen.
    intros a b. apply qclose_sound.
  - revert H4. apply forallb2_Forall2_gen. intros q v Hq.
    apply andb_true_iff in Hq. destruct Hq as [Hq1 Hq2]. split; [apply Nat.eqb_eq; exact Hq1|].
    apply existsb_exists in Hq2. destruct Hq2 as (j & Hj & Hc). exists j. split; [exact Hj|].
    eapply cvl_exact_sound. exact Hc.
Qed.

(* ---------- the source-field alternative of CInit ---------- *)
(* an accepted [field_adm]: cell by cell (C order) the observed row is the stored value of one of the
   candidate source cells of the cell centre *)
Lemma field_adm_sound m nv src obs :
  field_adm m nv src obs = true ->
  (length obs = length (indices_c (n m)) * nv)%nat /\
  Forall2 (fun i row => exists j, In j (cands (fmesh src) (centre m i)) /\ Forall2 cv_eq (farr src j) row)
          (indices_c (n m)) (chunks nv (length (indices_c (n m))) obs).
Proof.
  unfold field_adm. intro H. apply andb_true_iff in H. destruct H as [H1 H2].
  split; [apply Nat.eqb_eq; exact H1|].
  revert H2. apply forallb2_Forall2_gen. intros i row Hr.
  apply existsb_exists in Hr. destruct Hr as (j & Hj & Hc). exists j. split; [exact Hj|].
  eapply cvl_exact_sound. exact Hc.
Qed.

(* per axis, every candidate (the model's pick, or its lower neighbour when the point lies exactly on
   the face between them) is a cell whose closed extent contains the point *)
Lemma cand1_contains lo hi k q i : lo < hi -> (0 < k)%Z -> lo <= q -> q <= hi ->
  let c := cell_of lo hi k in
  In i (cand1 lo c k q) ->
  (0 <= i < k)%Z /\ lo + inject_Z i * c <= q /\ q <= lo + (inject_Z i + 1) * c.
Proof.
  intros Hlh Hk H0 H1 c Hin.
  pose proof (pick_contains lo hi k Hlh Hk q H0 H1) as Hp. cbv zeta in Hp. fold c in Hp.
  unfold cand1 in Hin. set (j := p2i1 lo c k q) in *.
  destruct (Qeq_bool (lo + inject_Z j * c) q && (0 <? j)%Z) eqn:E.
  - apply andb_true_iff in E. destruct E as [E1 E2]. apply Qeq_bool_eq in E1. apply Z.ltb_lt in E2.
    destruct Hin as [<-|[<-|[]]]; [exact Hp|].
    destruct Hp as [Hr _]. split; [lia|].
    pose proof (cell_pos lo hi k Hlh Hk) as Hc. fold c in Hc.
    assert (EQ : inject_Z (j - 1) == inject_Z j - 1).
    { unfold Z.sub. rewrite inject_Z_plus. reflexivity. }
    assert (M : inject_Z (j - 1) * c == inject_Z j * c - c) by (rewrite EQ; ring).
    split; lra.
  - destruct Hin as [<-|[]]. exact Hp.
Qed.

(* ---------- transfer: the C02 theorems stated about the OBSERVED output ---------- *)

(* the observed sample is the stored value of the cell point2index assigns to the point *)
Theorem accepted_sample_cell exact sc d nv s p o :
  check_C02 (CSample exact sc d nv s p (Some o)) = true ->
  exists f i, mk d nv s None = OK (OK f) /\ point2index (fmesh f) p = OK i /\ cvl_rel exact sc (farr f i) o.
Proof.
  intro H. destruct (check_sample_sound _ _ _ _ _ _ _ H) as (f & v & Hm & Hs & Hc).
  destruct (sample_spec _ f p _ Hs) as (i & Hi & ->). exists f, i. auto.
Qed.

(* a rejected sample: the point is one point2index rejects (C01: outside the region) *)
Theorem accepted_sample_reject exact sc d nv s p :
  check_C02 (CSample exact sc d nv s p None) = true ->
  exists f, mk d nv s None = OK (OK f) /\ is_ok (point2index (fmesh f) p) = false.
Proof.
  intro H. destruct (check_sample_reject_sound _ _ _ _ _ _ H) as (f & e & Hm & Hs).
  exists f. split; [exact Hm|]. unfold sample in Hs.
  destruct (point2index (fmesh f) p); [simpl in Hs; discriminate | reflexivity].
Qed.

(* the observed iteration is the stored cell values in x-fastest order *)
Theorem accepted_iteration p1 p2 n_ tf_ dims_ subs_ nv s obs :
  check_C02 (CIter (MeshD p1 p2 n_ tf_ dims_ subs_) nv s obs) = true ->
  0 <= tf_ -> (dims_ = None -> (length p1 <= 10)%nat) ->
  exists f, mk (MeshD p1 p2 n_ tf_ dims_ subs_) nv s None = OK (OK f) /\ wf_mesh (fmesh f) /\
    Forall2 (fun i o => Forall2 cv_eq (farr f i) o) (indices_xfast (n (fmesh f))) obs.
Proof.
  intros H Htf Hnd. destruct (check_iter_sound _ _ _ _ H) as (f & Hm & Hc).
  destruct (mk_wf _ _ _ _ _ _ _ _ _ _ Hm Htf Hnd) as (Hw & _).
  exists f. split; [exact Hm|]. split; [exact Hw|].
  rewrite (iterate_spec _ f Hw) in Hc.
  clear H Hm. revert Hc. generalize (indices_xfast (n (fmesh f))). intros l; revert obs.
  induction l as [|i l IH]; intros obs Hc; inversion Hc; subst; constructor.
  - match goal with Hx : exists v, _ |- _ => destruct Hx as (v & Ev & Hv) end.
    inversion Ev; subst. exact Hv.
  - apply IH. assumption.
Qed.

(* a rejected assignment leaves the observed array as it was *)
Theorem accepted_reject_keeps_state d nv s0 s1 obs_after :
  check_C02 (CAssign d nv s0 s1 false obs_after) = true ->
  exists f, mk d nv s0 None = OK (OK f) /\ Forall2 cv_eq (flat (fmesh f) (farr f)) obs_after.
Proof.
  intro H. destruct (check_assign_sound _ _ _ _ _ _ H) as (f & sp1 & Hm & _ & Hr & Hc).
  exists f. split; [exact Hm|].
  rewrite (reject_keeps_state _ cv0 cv_is_zero f sp1 Hr) in Hc. exact Hc.
Qed.

(* an accepted assignment: the observed array afterwards is _as_array of the new value on the SAME mesh *)
Theorem accepted_assign_replaces d nv s0 s1 obs_after :
  check_C02 (CAssign d nv s0 s1 true obs_after) = true ->
  exists f sp1 a, mk d nv s0 None = OK (OK f) /\ to_spec s1 = OK sp1 /\
    as_array cv0 cv_is_zero (fmesh f) (fnv f) sp1 = OK a /\
    Forall2 cv_eq (flat (fmesh f) a) obs_after.
Proof.
  intro H. destruct (check_assign_sound _ _ _ _ _ _ H) as (f & sp1 & Hm & Hs & Hr & Hc).
  destruct (set_array cv0 cv_is_zero f sp1) as [f'|e] eqn:Ef; [|simpl in Hr; discriminate].
  destruct (accept_sets_array _ cv0 cv_is_zero f f' sp1 Ef) as (Ea & Em & _ & _ & Harr).
  exists f, sp1, (farr f'). repeat split; auto.
  rewrite Ea, Em in Hc. exact Hc.
Qed.

(* callable value: the observed array holds, cell by cell (C order), the callable at the cell centre *)
Theorem accepted_init_function exact sc d nv fn o :
  check_C02 (CInit exact sc d nv (VSimple (VFun fn)) (Some o)) = true ->
  exists f, mk d nv (VSimple (VFun fn)) None = OK (OK f) /\ build_mesh d = OK (fmesh f) /\
    cvl_rel exact sc (flat_map (fun i => eval_fun fn (centre (fmesh f) i)) (indices_c (n (fmesh f)))) o.
Proof.
  intro H. destruct (check_init_plain_sound _ _ _ _ _ _ H) as (f & Hm & Hc); [intros; discriminate|].
  exists f. split; [exact Hm|].
  destruct (mk_inv _ _ _ _ _ Hm) as (m & sp & Hb & Hsp & Hf).
  destruct (mk_field_inv _ _ _ _ _ Hf) as (E1 & E2 & _ & Ha & _).
  simpl in Hsp. inversion Hsp; subst sp; clear Hsp. simpl in Ha.
  destruct (fun_accepted _ _ _ _ _ Ha) as (Hv & _).
  split; [rewrite E1; exact Hb|].
  unfold flat in Hc.
  replace (flat_map (fun i => eval_fun fn (centre (fmesh f) i)) (indices_c (n (fmesh f))))
    with (flat_map (farr f) (indices_c (n (fmesh f)))); [exact Hc|].
  rewrite E1. generalize (indices_c (n m)). intro l. induction l as [|i l IH]; simpl; [reflexivity|].
  rewrite IH, Hv. reflexivity.
Qed.

(* number: every observed entry is the number *)
Theorem accepted_init_constant d nv v o :
  check_C02 (CInit true 0 d nv (VSimple (VConst v)) (Some o)) = true ->
  ((nv <= 1)%nat \/ cv_is_zero v = true) /\ Forall (cv_eq v) o.
Proof.
  intro H. destruct (check_init_plain_sound _ _ _ _ _ _ H) as (f & Hm & Hc); [intros; discriminate|].
  destruct (mk_inv _ _ _ _ _ Hm) as (m & sp & Hb & Hsp & Hf).
  destruct (mk_field_inv _ _ _ _ _ Hf) as (E1 & E2 & _ & Ha & _).
  simpl in Hsp. inversion Hsp; subst sp; clear Hsp. simpl in Ha.
  destruct (const_spec _ cv_is_zero nv v) as [Hacc Hrej].
  assert (Hcase : (nv <= 1)%nat \/ cv_is_zero v = true).
  { destruct (le_lt_dec nv 1) as [Hle|Hlt]; [left; exact Hle|].
    destruct (cv_is_zero v) eqn:Ez; [right; reflexivity|].
    exfalso. specialize (Hrej (conj Hlt eq_refl)). rewrite Ha in Hrej. discriminate. }
  split; [exact Hcase|].
  destruct (Hacc Hcase) as (a & Ea & Hav). rewrite Ha in Ea. inversion Ea; subst a; clear Ea.
  clear H. simpl in Hc. unfold flat in Hc. revert Hc. generalize (indices_c (n (fmesh f))). intro l.
  assert (Hall : Forall (fun x => x = v) (flat_map (farr f) l)).
  { induction l as [|i l IH]; simpl; [constructor|]. apply Forall_app. split; [|exact IH].
    destruct (Hav i) as [-> _]. apply Forall_forall. intros x Hx. eapply repeat_spec. exact Hx. }
  revert Hall. generalize (flat_map (farr f) l). intros l1 Hall Hc.
  induction Hc; constructor.
  - inversion Hall; subst. assumption.
  - apply IHHc. inversion Hall; subst; assumption.
Qed.

(* component: the observed scalar array holds component k of every cell *)
Theorem accepted_component d nv s vd label o :
  check_C02 (CComp d nv s vd label (Some o)) = true ->
  exists f l k, mk d nv s vd = OK (OK f) /\ fvdims f = Some l /\ index_of label l = Some k /\
    Forall2 cv_eq (map (fun i => nth k (farr f i) cv0) (indices_c (n (fmesh f)))) o.
Proof.
  intro H. destruct (check_comp_sound _ _ _ _ _ _ H) as (f & g & Hm & Hg & _ & Hc).
  unfold component in Hg. destruct (fvdims f) as [l|] eqn:El; [|discriminate].
  destruct (index_of label l) as [k|] eqn:Ek; [|discriminate].
  inversion Hg; subst g; clear Hg. simpl in Hc. unfold flat in Hc.
  exists f, l, k. repeat split; auto.
Qed.

(* an unknown label is rejected *)
Theorem accepted_component_unknown d nv s vd label :
  check_C02 (CComp d nv s vd label None) = true ->
  exists f, mk d nv s vd = OK (OK f) /\
    (fvdims f = None \/ exists l, fvdims f = Some l /\ index_of label l = None).
Proof.
  intro H. destruct (check_comp_reject_sound _ _ _ _ _ H) as (f & e & Hm & Hg).
  exists f. split; [exact Hm|]. unfold component in Hg.
  destruct (fvdims f) as [l|]; [|left; reflexivity].
  right. exists l. split; [reflexivity|]. destruct (index_of label l); [discriminate|reflexivity].
Qed.

(* line: the observed points are the k equidistant points from p1 to p2 and each observed value is
   the stored value of the cell point2index assigns to the point *)
Theorem accepted_line d nv s p1 p2 k pts vals rs :
  check_C02 (CLine d nv s p1 p2 k (Some (pts, vals, rs))) = true ->
  exists f, mk d nv s None = OK (OK f) /\ (2 <= k)%Z /\
    contains_pt (reg (fmesh f)) p1 = true /\ contains_pt (reg (fmesh f)) p2 = true /\
    Forall2 (Forall2 Qeq) (line_points p1 p2 k) pts /\
    Forall2 (fun p v => exists i w, point2index (fmesh f) p = OK i /\ w = farr f i /\ Forall2 cv_eq w v)
            (line_points p1 p2 k) vals /\
    length pts = Z.to_nat k /\ length vals = Z.to_nat k.
Proof.
  intro H. destruct (check_line_sound _ _ _ _ _ _ _ _ _ H) as (f & l & Hm & Hl & Hp & Hv & _).
  destruct (line_values _ f p1 p2 k l Hl) as (Hk & Hc1 & Hc2 & Epts & Hs & _).
  exists f. rewrite Epts in *.
  assert (Lp : length pts = Z.to_nat k).
  { rewrite <- (Forall2_length_gen _ _ _ Hp). apply line_points_length. }
  assert (Lv : length vals = Z.to_nat k).
  { rewrite <- (Forall2_length_gen _ _ _ Hv), <- (Forall2_length_gen _ _ _ Hs). apply line_points_length. }
  repeat split; auto.
  clear Hp Lp Lv Epts Hl H. revert vals Hv. induction Hs as [|p w lp lw Hpw _ IH]; intros vals Hv.
  - inversion Hv; constructor.
  - inversion Hv; subst. constructor; [|apply IH; assumption].
    destruct (sample_spec _ f p _ Hpw) as (i & Hi & Ew). exists i, w. auto.
Qed.

(* ---------- non-vacuity: concrete accepted cases ---------- *)
Definition demo_mesh : meshd := MeshD [0; 0] [4; 2] [4; 2]%Z (1 # 1000000000000) None [].
Definition demo_fun : vfun := FAffine [(1, 0)] [[(1, 0); (2, 0)]].   (* 1 + x + 2y *)

Example accepted_sample_instance :
  check_C02 (CSample true 0 demo_mesh 1 (VSimple (VFun demo_fun)) [3; 1] (Some [(15 # 2, 0)])) = true.
Proof. vm_compute. reflexivity. Qed.

Example accepted_init_instance :
  check_C02 (CInit true 0 demo_mesh 1 (VSimple (VFun demo_fun))
               (Some [(5 # 2, 0); (9 # 2, 0); (7 # 2, 0); (11 # 2, 0); (9 # 2, 0); (13 # 2, 0); (11 # 2, 0); (15 # 2, 0)])) = true.
Proof. vm_compute. reflexivity. Qed.

Example accepted_iteration_instance :
  check_C02 (CIter demo_mesh 1 (VSimple (VConst (3, 1)))
               [[(3, 1)]; [(3, 1)]; [(3, 1)]; [(3, 1)]; [(3, 1)]; [(3, 1)]; [(3, 1)]; [(3, 1)]]) = true.
Proof. vm_compute. reflexivity. Qed.
