(* C03: packaging of the cell-wise theorem, rejection, commutativity, stacking of components,
   object identity. *)
From Coq Require Import Ring Qcanon.
From DF Require Import Prelude FieldK Region Mesh Ops ListLemmas C03_proofs.

Section More.
Variable K : FOps.
Variable un : nat -> K -> K.
Variable bin : nat -> K -> K -> K.
Hypothesis RL : ring_theory (f0 K) (f1 K) (@fadd K) (@fmul K) (@fsub K) (@fopp K) eq.
Add Ring Kring_c03b : RL.

Notation field := (field K).

(* ---------- cell-wise evaluation, packaged ---------- *)
Theorem cellwise (rho : list field) N m e f :
  Forall (wf_leaf K N m) rho -> consts_ok K N e ->
  eval K un bin rho e = OK (VF f) ->
  fmesh f = m /\ length (farr f) = N /\ length (fvalid f) = N /\
  forall c, (c < N)%nat ->
    nth c (farr f) [] = den K un bin rho e c /\ nth c (fvalid f) true = den_valid K rho e c.
Proof.
  intros Hr HC H. destruct (eval_good K un bin RL rho N m Hr e HC _ H) as [[L1 [L2 L3]] G]. auto.
Qed.

(* ---------- rejection ---------- *)
Definition arithmetic (o : binop) : bool :=
  match o with Alg _ | Dot | Cross | Angle | Uf2 _ => true | Stack => false end.

Lemma check_same_mesh f o b : mesh_allclose (fmesh f) (fmesh o) <> OK true -> check_same K f o b = Err ValueE.
Proof.
  unfold check_same. destruct (mesh_allclose (fmesh f) (fmesh o)) as [[|]|[]] eqn:E; simpl; auto; try congruence.
  all: unfold mesh_allclose in E; destruct (negb _) in E; discriminate.
Qed.

Theorem reject_other_mesh o f g :
  arithmetic o = true -> mesh_allclose (fmesh f) (fmesh g) <> OK true ->
  is_ok (eval_bin K un bin o f (VF g)) = false.
Proof.
  intros A M. destruct o; try discriminate; simpl.
  - unfold apply_op. now rewrite (check_same_mesh f g true M).
  - unfold dot_op. now rewrite (check_same_mesh f g false M).
  - unfold cross_op. now rewrite (check_same_mesh f g false M).
  - unfold angle_op. now rewrite (check_same_mesh f g false M).
  - unfold ufunc2. simpl.
    destruct (mesh_allclose (fmesh f) (fmesh f)) as [[|]|] eqn:E0; simpl; auto.
    destruct (mesh_allclose (fmesh f) (fmesh g)) as [[|]|] eqn:E; simpl; auto. congruence.
Qed.

Theorem reject_other_mesh_stack f g :
  mesh_eqb (fmesh f) (fmesh g) = false -> eval_bin K un bin Stack f (VF g) = Err ValueE.
Proof. intro M. simpl. unfold stack_ff. now rewrite M. Qed.

Theorem reject_component_count (a : aop) f g :
  fnv f <> fnv g -> fnv f <> 1%nat -> fnv g <> 1%nat ->
  is_ok (eval_bin K un bin (Alg a) f (VF g)) = false /\
  is_ok (eval_bin K un bin (Uf2 (CAlg a)) f (VF g)) = false /\
  is_ok (eval_bin K un bin Dot f (VF g)) = false /\
  is_ok (eval_bin K un bin Cross f (VF g)) = false /\
  is_ok (eval_bin K un bin Angle f (VF g)) = false.
Proof.
  intros H H1 H2.
  apply Nat.eqb_neq in H, H1, H2.
  assert (B : bnv (fnv f) (fnv g) = None) by (unfold bnv; now rewrite H, H1, H2).
  assert (C : forall b, is_ok (check_same K f g b) = false).
  { intro b. unfold check_same. destruct (mesh_allclose (fmesh f) (fmesh g)) as [[|]|]; simpl; auto.
    rewrite H, H1, H2. simpl. now rewrite andb_false_r. }
  repeat split; simpl.
  - unfold apply_op. destruct (check_same K f g true); simpl; auto. now rewrite B.
  - unfold ufunc2. cbn -[all_close bnv]. destruct (all_close K f [f; g]); cbn -[bnv]; auto. now rewrite B.
  - unfold dot_op. specialize (C false). destruct (check_same K f g false); simpl in *; auto; try discriminate.
  - unfold cross_op. specialize (C false). destruct (check_same K f g false); simpl in *; auto; try discriminate.
  - unfold angle_op. specialize (C false). destruct (check_same K f g false); simpl in *; auto; try discriminate.
Qed.

Theorem reject_unsupported f np x g :
  eval_bin K un bin Dot f (VC (CNum np x)) = Err TypeE /\
  eval_bin K un bin Cross f (VC (CNum np x)) = Err TypeE /\
  eval_rbin K bin (Alg Pow) (CNum false x) g = Err TypeE.
Proof. repeat split. Qed.

(* ---------- a (op) b = b (op) a ---------- *)
Lemma map2_andb_comm u v : map2 andb u v = map2 andb v u.
Proof. rewrite map2_flip. apply map2_ext. intros; apply andb_comm. Qed.

Lemma arr_comm (g : K -> K -> K) (u v : list (list K)) :
  (forall a b, g a b = g b a) -> map2 (bvec K g) u v = map2 (bvec K g) v u.
Proof. intro C. rewrite map2_flip. apply map2_ext. intros. apply bvec_comm. exact C. Qed.

Theorem commutative (a : aop) f g r :
  (a = Add \/ a = Mul) -> fmesh f = fmesh g -> (1 <= fnv f)%nat -> (1 <= fnv g)%nat ->
  (fnv f = fnv g -> fvdims f = fvdims g /\ fvmap f = fvmap g) ->
  apply_op K (alg K bin a) f (VF g) = OK r -> apply_op K (alg K bin a) g (VF f) = OK r.
Proof.
  intros Ha Hm Hf Hg Hl H.
  assert (C : forall x y, alg K bin a x y = alg K bin a y x) by (destruct Ha; subst a; simpl; intros; ring).
  unfold apply_op, check_same in *. simpl operand_cells in *.
  rewrite <- Hm in *. rewrite (arr_comm _ (farr g) (farr f) C), (map2_andb_comm (fvalid g) (fvalid f)).
  destruct (mesh_allclose (fmesh f) (fmesh f)) as [[|]|]; simpl in *; try discriminate.
  revert H Hl. unfold bnv.
  destruct (fnv f) as [|[|nf]] eqn:Ef; [lia| |]; destruct (fnv g) as [|[|ng]] eqn:Eg; try lia; simpl.
  - intros H Hl. destruct (Hl eq_refl) as [V M]. rewrite Ef in H. rewrite Eg. simpl in *.
    rewrite <- V, <- M. exact H.
  - intros H _. rewrite Eg in *. simpl in *. rewrite ?Nat.eqb_refl in *. exact H.
  - intros H _. rewrite Ef in *. simpl in *. rewrite ?Nat.eqb_refl in *. exact H.
  - intros H Hl. rewrite (Nat.eqb_sym ng nf). destruct (nf =? ng)%nat eqn:E; [|discriminate].
    apply Nat.eqb_eq in E. subst ng. destruct (Hl eq_refl) as [V M].
    rewrite Ef in H. rewrite Eg. simpl in *. rewrite ?Nat.eqb_refl in *. rewrite <- V, <- M. exact H.
Qed.

(* ---------- stacking the components ---------- *)
Fixpoint stack_from (e : expr K) (j : nat) : expr K :=
  match j with
  | O => Un (Comp 0) e
  | S j' => Bin Stack (stack_from e j') (Un (Comp (S j')) e)
  end.

Lemma iota_snoc k n : iota k (S n) = iota k n ++ [(k + n)%nat].
Proof.
  revert k; induction n as [|n IH]; intro k.
  - simpl. now rewrite Nat.add_0_r.
  - change (iota k (S (S n))) with (k :: iota (S k) (S n)). rewrite IH.
    change (iota k (S n)) with (k :: iota (S k) n). simpl. do 3 f_equal. lia.
Qed.

Lemma den_stack_from rho e j c :
  den K un bin rho (stack_from e j) c = map (fun i => nth i (den K un bin rho e c) (f0 K)) (iota 0 (S j)).
Proof.
  induction j as [|j IH]; [reflexivity|].
  simpl den. rewrite IH. rewrite (iota_snoc 0 (S j)), map_app. reflexivity.
Qed.

Lemma den_valid_stack_from rho e j c : den_valid K rho (stack_from e j) c = den_valid K rho e c.
Proof. induction j as [|j IH]; simpl; auto. rewrite IH. apply andb_diag. Qed.

Lemma consts_ok_stack_from N e j : consts_ok K N e -> consts_ok K N (stack_from e j).
Proof. intro H. induction j; simpl; auto. Qed.

Lemma tabulate_nth (v : list K) : map (fun i => nth i v (f0 K)) (iota 0 (length v)) = v.
Proof.
  apply (nth_ext _ _ (f0 K) (f0 K)).
  - now rewrite map_length, iota_length.
  - intros n Hn. rewrite map_length, iota_length in Hn. exact (nth_map_iota (fun i => nth i v (f0 K)) (length v) n (f0 K) Hn).
Qed.

Theorem stack_components (rho : list field) N m i j f r :
  Forall (wf_leaf K N m) rho -> nth_error rho i = Some f ->
  Forall (fun cell => length cell = S j) (farr f) ->
  eval K un bin rho (stack_from (Leaf i) j) = OK (VF r) ->
  farr r = farr f /\ fvalid r = fvalid f /\ fmesh r = fmesh f.
Proof.
  intros Hr Hi Hc H.
  assert (Wf : wf_leaf K N m f).
  { rewrite Forall_forall in Hr. apply Hr. eapply nth_error_In; eauto. }
  destruct Wf as [F1 [F2 F3]].
  destruct (cellwise rho N m _ r Hr (consts_ok_stack_from N (Leaf i) j I) H) as [Rm [L1 [L2 G]]].
  repeat split; try congruence.
  - apply (nth_ext _ _ [] []); [congruence|]. intros c Hlt. rewrite L1 in Hlt.
    rewrite (proj1 (G c Hlt)), den_stack_from. cbn [den]. rewrite (nth_error_nth rho i (dummy K) Hi).
    rewrite Forall_forall in Hc.
    assert (LL : length (nth c (farr f) []) = S j) by (apply Hc, nth_In; lia).
    rewrite <- LL. apply tabulate_nth.
  - apply (nth_ext _ _ true true); [congruence|]. intros c Hlt. rewrite L2 in Hlt.
    rewrite (proj2 (G c Hlt)), den_valid_stack_from. simpl. now rewrite (nth_error_nth rho i (dummy K) Hi).
Qed.

(* ---------- object identity ---------- *)
Theorem alias_is_operand (rho : list field) e i v :
  alias_of e = Some i -> eval K un bin rho e = OK v -> exists f, nth_error rho i = Some f /\ v = VF f.
Proof.
  revert v. induction e as [j|c|o a IH|o a IHa b IHb]; simpl; intros v A H; try discriminate.
  - inversion A; subst j. destruct (nth_error rho i) as [f|]; [|discriminate]. inversion H. eauto.
  - destruct o; try discriminate.
    destruct (eval K un bin rho a) as [va|] eqn:Ea; simpl in H; [|discriminate].
    destruct (IH _ A eq_refl) as [f [Hf Hv]]. subst va. simpl in H. inversion H. eauto.
Qed.

End More.

(* ---------- a*b = b*a including labels is FALSE for two vector fields with different labels ---------- *)
Definition wmesh : mesh := mkMesh (mkRegion [0%Q] [1%Q] ["x"%string] ["m"%string] (1 # 1000000000000)) [1%Z] "" [].
Definition wf1 : Ops.field QcOps :=
  mkField QcOps wmesh 2 [[Q2Qc 1; Q2Qc 2]] [true] (Some ["p"%string; "q"%string]) [].
Definition wf2 : Ops.field QcOps :=
  mkField QcOps wmesh 2 [[Q2Qc 3; Q2Qc 4]] [true] (Some ["r"%string; "s"%string]) [].

Lemma commutative_labels_refuted :
  exists (f g r1 r2 : Ops.field QcOps),
    fmesh f = fmesh g /\
    apply_op QcOps (@fmul QcOps) f (VF g) = OK r1 /\ apply_op QcOps (@fmul QcOps) g (VF f) = OK r2 /\
    farr r1 = farr r2 /\ fvdims r1 <> fvdims r2.
Proof.
  exists wf1, wf2.
  eexists. eexists. split; [reflexivity|]. split; [vm_compute; reflexivity|]. split; [vm_compute; reflexivity|].
  split; [reflexivity|]. discriminate.
Qed.

(* ---------- the complex numbers over a commutative ring form a commutative ring: the theorems above
   apply to complex-valued fields ---------- *)
Section Cplx.
Variable K : FOps.
Hypothesis RL : ring_theory (f0 K) (f1 K) (@fadd K) (@fmul K) (@fsub K) (@fopp K) eq.
Add Ring Kring_c03c : RL.

Lemma cplx_ring :
  ring_theory (f0 (CplxOps K)) (f1 (CplxOps K)) (@fadd (CplxOps K)) (@fmul (CplxOps K))
              (@fsub (CplxOps K)) (@fopp (CplxOps K)) eq.
Proof.
  constructor; intros; repeat match goal with x : F (CplxOps K) |- _ => destruct x end;
    cbn; f_equal; ring.
Qed.
End Cplx.
