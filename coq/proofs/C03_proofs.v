(* Proofs for C03 (model: Ops.v): the evaluator of expression trees is the cell-wise semantics,
   for every field of values K (ring laws only), every un/bin, every tree depth. *)
From Coq Require Import Ring.
From DF Require Import Prelude FieldK Region Mesh Ops ListLemmas.

Fixpoint strip_pos {K : FOps} (e : expr K) : expr K :=
  match e with Un Pos a => strip_pos a | _ => e end.

Lemma alias_of_strip (K : FOps) (e : expr K) i : alias_of e = Some i -> strip_pos e = Leaf i.
Proof.
  induction e as [j|c|o a IH|o a IHa b IHb]; simpl; intro H; try discriminate.
  - now inversion H.
  - destruct o; try discriminate. now apply IH.
Qed.

(* ---------- list helpers ---------- *)
Lemma nth_map_lt {A B} (h : A -> B) l c d d' : (c < length l)%nat -> nth c (map h l) d = h (nth c l d').
Proof.
  intro H. rewrite (nth_indep (map h l) d (h d')) by (now rewrite map_length). apply map_nth.
Qed.

Lemma nth_repeat_lt {A} (x : A) N c d : (c < N)%nat -> nth c (repeat x N) d = x.
Proof.
  revert c; induction N as [|N IH]; intros [|c] H; simpl; try lia; auto. apply IH; lia.
Qed.

Lemma map2_flip {A B C} (g : A -> B -> C) u v : map2 g u v = map2 (fun b a => g a b) v u.
Proof. revert v; induction u as [|x u IH]; intros [|y v]; simpl; auto. now rewrite IH. Qed.

Lemma map2_ext {A B C} (g h : A -> B -> C) u v : (forall a b, g a b = h a b) -> map2 g u v = map2 h u v.
Proof. intro E; revert v; induction u as [|x u IH]; intros [|y v]; simpl; auto. now rewrite E, IH. Qed.

Lemma map2_map_l {A A' B C} (g : A' -> B -> C) (h : A -> A') u v :
  map2 g (map h u) v = map2 (fun a b => g (h a) b) u v.
Proof. revert v; induction u as [|x u IH]; intros [|y v]; simpl; auto. now rewrite IH. Qed.

Section Proofs.
Variable K : FOps.
Variable un : nat -> K -> K.
Variable bin : nat -> K -> K -> K.
Hypothesis RL : ring_theory (f0 K) (f1 K) (@fadd K) (@fmul K) (@fsub K) (@fopp K) eq.
Add Ring Kring_c03 : RL.

Notation vec := (list K).
Notation field := (field K).
Notation bvec := (bvec K).

(* ---------- broadcasting ---------- *)
Lemma bvec_flip (g : K -> K -> K) u v : bvec g u v = bvec (fun b a => g a b) v u.
Proof.
  unfold Ops.bvec. rewrite (Nat.eqb_sym (length v) (length u)).
  destruct (length u =? length v)%nat eqn:E.
  - apply map2_flip.
  - destruct (length u =? 1)%nat eqn:E1, (length v =? 1)%nat eqn:E2; auto.
    apply Nat.eqb_eq in E1, E2. rewrite E1, E2 in E. discriminate.
Qed.

Lemma bvec_ext (g h : K -> K -> K) u v : (forall a b, g a b = h a b) -> bvec g u v = bvec h u v.
Proof.
  intro E. unfold Ops.bvec.
  destruct (length u =? length v)%nat; [now apply map2_ext|].
  destruct (length u =? 1)%nat; [apply map_ext; intro; apply E|].
  destruct (length v =? 1)%nat; [apply map_ext; intro; apply E|auto].
Qed.

Lemma bvec_comm (g : K -> K -> K) u v : (forall a b, g a b = g b a) -> bvec g u v = bvec g v u.
Proof. intro C. rewrite bvec_flip. apply bvec_ext. intros; apply C. Qed.

(* -self + other  is  other - self *)
Lemma bvec_rsub u v : bvec fadd (map fopp u) v = bvec fsub v u.
Proof.
  rewrite (bvec_flip fsub). unfold Ops.bvec. rewrite map_length.
  destruct (length u =? length v)%nat.
  - rewrite map2_map_l. apply map2_ext. intros; ring.
  - destruct (length u =? 1)%nat eqn:E1.
    + destruct u as [|x [|y u]]; try discriminate. simpl. apply map_ext. intros; ring.
    + destruct (length v =? 1)%nat; auto. rewrite map_map. apply map_ext. intros; ring.
Qed.

Lemma cross3_anti u v : map fopp (cross3 K u v) = cross3 K v u.
Proof.
  destruct u as [|a1 [|a2 [|a3 [|]]]]; destruct v as [|b1 [|b2 [|b3 [|]]]]; simpl; auto.
  repeat f_equal; ring.
Qed.

Lemma dotv_comm u v : dotv K u v = dotv K v u.
Proof. unfold dotv. f_equal. apply bvec_comm. intros; ring. Qed.

(* ---------- the Field constructor keeps what it is given ---------- *)
Definition res_is (r : field) (m : mesh) (arr : list vec) (va : list bool) : Prop :=
  fmesh r = m /\ farr r = arr /\ fvalid r = va.

Lemma mk_field_ok m nv arr vd va vm r : mk_field K m nv arr vd va vm = OK r -> res_is r m arr va.
Proof.
  unfold mk_field. destruct (nv =? 0)%nat; [discriminate|].
  destruct (set_vdims nv vd); simpl; [|discriminate].
  destruct (set_vmap m nv a vm); simpl; [|discriminate].
  intro H; inversion H; subst; unfold res_is; simpl; auto.
Qed.

Lemma not_impl_ok {A} (x : res A) r : not_impl x = OK r -> x = OK r.
Proof. destruct x; simpl; intro H; [auto|discriminate]. Qed.

Ltac inv H :=
  cbv zeta in H; try discriminate H;
  repeat match type of H with
  | bind ?x _ = OK _ => let E := fresh "E" in destruct x eqn:E; simpl bind in H; [|discriminate H]
  | (if ?b then _ else _) = OK _ => let E := fresh "E" in destruct b eqn:E; cbv iota in H; try discriminate H
  | (match ?x with _ => _ end) = OK _ => let E := fresh "E" in destruct x eqn:E; cbv iota in H; try discriminate H
  | not_impl _ = OK _ => apply not_impl_ok in H
  end.

Ltac inv1 H :=
  match type of H with
  | bind ?x _ = OK _ => let E := fresh "E" in destruct x eqn:E; [cbv beta iota delta [bind] in H|discriminate H]
  end.

Lemma same_shape_ok g f r : same_shape K g f = OK r -> res_is r (fmesh f) (map (map g) (farr f)) (fvalid f).
Proof. apply mk_field_ok. Qed.

Definition opvalid (f : field) (vb : value K) : list bool :=
  match vb with VF o => map2 andb (fvalid f) (fvalid o) | VC _ => fvalid f end.

Lemma apply_op_ok g f vb r : apply_op K g f vb = OK r ->
  res_is r (fmesh f) (map2 (bvec g) (farr f) (operand_cells K (length (farr f)) vb)) (opvalid f vb).
Proof.
  unfold apply_op. destruct vb as [o|c]; intro H; inv H; apply mk_field_ok in H; exact H.
Qed.

Lemma dot_op_ok f vb r : dot_op K f vb = OK r ->
  res_is r (fmesh f) (map2 (fun u v => [dotv K u v]) (farr f) (operand_cells K (length (farr f)) vb)) (opvalid f vb).
Proof.
  unfold dot_op. destruct vb as [o|c]; intro H.
  - inv H; apply mk_field_ok in H; exact H.
  - destruct c; inv H; apply mk_field_ok in H; exact H.
Qed.

Lemma cross_op_ok f vb r : cross_op K f vb = OK r ->
  res_is r (fmesh f) (map2 (cross3 K) (farr f) (operand_cells K (length (farr f)) vb)) (opvalid f vb).
Proof.
  unfold cross_op. destruct vb as [o|c]; intro H.
  - inv H; apply mk_field_ok in H; exact H.
  - destruct c; inv H; apply mk_field_ok in H; exact H.
Qed.

Lemma angle_op_ok f vb r : angle_op K un f vb = OK r ->
  res_is r (fmesh f) (map2 (fun u v => [angle_cell K un u v]) (farr f) (operand_cells K (length (farr f)) vb))
         (opvalid f vb).
Proof.
  unfold angle_op. destruct vb as [o|c]; intro H.
  - inv H; apply mk_field_ok in H; exact H.
  - destruct c; inv H; apply mk_field_ok in H; exact H.
Qed.

Lemma stack_ff_ok f o r : stack_ff K f o = OK r ->
  res_is r (fmesh f) (map2 (@app K) (farr f) (farr o)) (map2 andb (fvalid f) (fvalid o)).
Proof. unfold stack_ff. intro H. inv H; apply mk_field_ok in H; exact H. Qed.

(* the field built from a constant has the constant in every cell, is valid everywhere, lives on f's mesh *)
Lemma const_field_ok f nv c cf : const_field K f nv c = OK cf ->
  res_is cf (fmesh f)
         (match c with CArr _ cells => cells | _ => repeat (cden K c 0) (length (farr f)) end)
         (repeat true (length (farr f))).
Proof.
  unfold const_field. destruct c; intro H; inv H; apply mk_field_ok in H; exact H.
Qed.

Lemma stack_const_ok f c cf : stack_const K f c = OK cf ->
  res_is cf (fmesh f)
         (match c with CArr _ cells => cells | _ => repeat (cden K c 0) (length (farr f)) end)
         (repeat true (length (farr f))).
Proof. unfold stack_const. destruct c; apply const_field_ok. Qed.

Lemma ufunc2_ok g self a b r : ufunc2 K g self a b = OK r ->
  res_is r (fmesh self)
         (map2 (bvec g) (operand_cells K (length (farr self)) a) (operand_cells K (length (farr self)) b))
         (map2 andb (operand_valid K (length (farr self)) a) (operand_valid K (length (farr self)) b)).
Proof. unfold ufunc2. intro H. inv H. apply mk_field_ok in H. exact H. Qed.

(* ---------- well-formed inputs ---------- *)
Fixpoint consts_ok (N : nat) (e : expr K) : Prop :=
  match e with
  | Leaf _ => True
  | Const (CArr _ cells) => length cells = N
  | Const _ => True
  | Un _ a => consts_ok N a
  | Bin _ a b => consts_ok N a /\ consts_ok N b
  end.

Definition wf_leaf (N : nat) (m : mesh) (g : field) : Prop :=
  length (farr g) = N /\ length (fvalid g) = N /\ fmesh g = m.

Section Env.
Variable rho : list field.
Variable N : nat.
Variable m : mesh.
Hypothesis Hrho : Forall (wf_leaf N m) rho.

Notation den := (den K un bin rho).
Notation den_valid := (den_valid K rho).

(* what the induction carries for a value *)
Definition good (e : expr K) (v : value K) : Prop :=
  match v with
  | VF f => wf_leaf N m f /\
            forall c, (c < N)%nat -> nth c (farr f) [] = den e c /\ nth c (fvalid f) true = den_valid e c
  | VC k => e = Const k
  end.

(* an evaluated operand, seen cell by cell *)
Lemma operand_good e v : consts_ok N e -> good e v ->
  length (operand_cells K N v) = N /\ length (operand_valid K N v) = N /\
  forall c, (c < N)%nat -> nth c (operand_cells K N v) [] = den e c /\
                           nth c (operand_valid K N v) true = den_valid e c.
Proof.
  intros HC G. destruct v as [f|k]; simpl in *.
  - destruct G as [[L1 [L2 _]] G]. auto.
  - subst e. simpl. rewrite map_length, iota_length, repeat_length. repeat split; auto.
    + now apply nth_map_iota.
    + now apply nth_repeat_lt.
Qed.

Lemma opvalid_nth f e v c : wf_leaf N m f -> consts_ok N e -> good e v -> (c < N)%nat ->
  nth c (opvalid f v) true = nth c (fvalid f) true && den_valid e c.
Proof.
  intros [L1 [L2 _]] HC G Hc. destruct v as [o|k]; simpl in *.
  - destruct G as [[M1 [M2 _]] G]. rewrite (nth_map2 andb _ _ _ true true true) by lia.
    now rewrite (proj2 (G c Hc)).
  - subst e. simpl. now rewrite andb_true_r.
Qed.

Lemma opvalid_length f e v : wf_leaf N m f -> consts_ok N e -> good e v -> length (opvalid f v) = N.
Proof.
  intros [L1 [L2 _]] HC G. destruct v as [o|k]; simpl in *; auto.
  destruct G as [[M1 [M2 _]] _]. rewrite map2_length. lia.
Qed.

(* a result built cell by cell from self and the other operand *)
Lemma lift2_good (h : vec -> vec -> vec) ea eb f vb r (o : binop) :
  (forall u v, sem_bin K un bin o u v = h u v) ->
  good ea (VF f) -> consts_ok N eb -> good eb vb ->
  res_is r (fmesh f) (map2 h (farr f) (operand_cells K (length (farr f)) vb)) (opvalid f vb) ->
  good (Bin o ea eb) (VF r).
Proof.
  intros Hs [Wf Gf] HC Gb [Rm [Ra Rv]].
  assert (Wf' := Wf). destruct Wf' as [L1 [L2 L3]]. rewrite L1 in Ra.
  destruct (operand_good _ _ HC Gb) as [O1 [O2 O3]].
  split.
  - split; [|split].
    + rewrite Ra, map2_length. lia.
    + rewrite Rv. eapply opvalid_length; eauto.
    + congruence.
  - intros c Hc. split.
    + rewrite Ra, (nth_map2 h _ _ _ [] [] []) by lia. simpl. rewrite Hs.
      now rewrite (proj1 (Gf c Hc)), (proj1 (O3 c Hc)).
    + rewrite Rv, (opvalid_nth f eb vb c Wf HC Gb Hc). simpl. now rewrite (proj2 (Gf c Hc)).
Qed.

(* same, for constant (op) field: the array is h applied to (cell of the field, constant) and the
   semantics wants (constant, cell of the field) *)
Lemma rlift2_good (h : vec -> vec -> vec) k eb g r (o : binop) :
  (forall u v, h v u = sem_bin K un bin o u v) ->
  consts_ok N (Const k) -> good eb (VF g) ->
  res_is r (fmesh g) (map2 h (farr g) (operand_cells K (length (farr g)) (VC k))) (fvalid g) ->
  good (Bin o (Const k) eb) (VF r).
Proof.
  intros Hs HC [Wg Gg] [Rm [Ra Rv]].
  assert (Wg' := Wg). destruct Wg' as [L1 [L2 L3]]. rewrite L1 in Ra.
  destruct (operand_good (Const k) (VC k) HC eq_refl) as [O1 [O2 O3]].
  split.
  - split; [|split]; try congruence. rewrite Ra, map2_length. lia.
  - intros c Hc. split.
    + rewrite Ra, (nth_map2 h _ _ _ [] [] []) by lia. simpl. rewrite <- Hs.
      rewrite (proj1 (Gg c Hc)). f_equal. exact (proj1 (O3 c Hc)).
    + rewrite Rv. simpl. exact (proj2 (Gg c Hc)).
Qed.

Lemma const_cells_nth k c cells0 :
  consts_ok N (Const k) -> (c < N)%nat ->
  cells0 = match k with CArr _ cells => cells | _ => repeat (cden K k 0) N end ->
  length cells0 = N /\ nth c cells0 [] = cden K k c.
Proof.
  intros HC Hc ->. destruct k; simpl in *; rewrite ?repeat_length; split; auto; now apply nth_repeat_lt.
Qed.

Lemma eval_un_good o ea f r : good ea (VF f) -> eval_un K un o f = OK r -> good (Un o ea) (VF r).
Proof.
  intros [Wf Gf] H. assert (Wf' := Wf). destruct Wf' as [L1 [L2 L3]].
  assert (SS : forall g, (forall v, sem_un K un o v = map g v) ->
                         res_is r (fmesh f) (map (map g) (farr f)) (fvalid f) -> good (Un o ea) (VF r)).
  { intros g Hs [Rm [Ra Rv]]. split.
    - split; [|split]; try congruence. now rewrite Ra, map_length.
    - intros c Hc. split.
      + rewrite Ra, (nth_map_lt (map g) (farr f) c [] []) by lia. simpl. rewrite Hs.
        now rewrite (proj1 (Gf c Hc)).
      + rewrite Rv. simpl. exact (proj2 (Gf c Hc)). }
  destruct o; simpl in H.
  - apply (SS fopp); [reflexivity | apply same_shape_ok; exact H].
  - inversion H; subst r. split; auto.
  - apply (SS (un U_ABS)); [reflexivity | apply same_shape_ok; exact H].
  - apply (SS (un U_REAL)); [reflexivity | apply same_shape_ok; exact H].
  - apply (SS (un U_IMAG)); [reflexivity | apply same_shape_ok; exact H].
  - apply (SS (un U_CONJ)); [reflexivity | apply same_shape_ok; exact H].
  - apply (SS (un U_ABS)); [reflexivity | apply same_shape_ok; exact H].
  - apply (SS (un U_PHASE)); [reflexivity | apply same_shape_ok; exact H].
  - unfold comp_op in H. inv H. apply mk_field_ok in H. destruct H as [Rm [Ra Rv]]. split.
    + split; [|split]; try congruence. now rewrite Ra, map_length.
    + intros c Hc. split.
      * rewrite Ra, (nth_map_lt (fun v => [nth j v (f0 K)]) (farr f) c [] []) by lia. simpl.
        now rewrite (proj1 (Gf c Hc)).
      * rewrite Rv. simpl. exact (proj2 (Gf c Hc)).
  - unfold ufunc1 in H. apply not_impl_ok in H. apply mk_field_ok in H.
    apply (SS (un id)); [reflexivity | exact H].
Qed.

Lemma eval_bin_good o ea eb f vb r :
  good ea (VF f) -> consts_ok N eb -> good eb vb -> eval_bin K un bin o f vb = OK r ->
  good (Bin o ea eb) (VF r).
Proof.
  intros Ga HC Gb H. destruct o; simpl in H.
  - exact (lift2_good _ ea eb f vb r (Alg o) (fun u v => eq_refl) Ga HC Gb (apply_op_ok _ _ _ _ H)).
  - exact (lift2_good (fun u v => [dotv K u v]) ea eb f vb r Dot (fun u v => eq_refl) Ga HC Gb (dot_op_ok _ _ _ H)).
  - exact (lift2_good _ ea eb f vb r Cross (fun u v => eq_refl) Ga HC Gb (cross_op_ok _ _ _ H)).
  - exact (lift2_good (fun u v => [angle_cell K un u v]) ea eb f vb r Angle (fun u v => eq_refl) Ga HC Gb
                      (angle_op_ok _ _ _ H)).
  - (* stacking *)
    destruct vb as [o|k]; simpl in H.
    + exact (lift2_good (@app K) ea eb f (VF o) r Stack (fun u v => eq_refl) Ga HC Gb (stack_ff_ok _ _ _ H)).
    + inv H. simpl in Gb. subst eb. apply stack_const_ok in E. apply stack_ff_ok in H.
      destruct Ga as [Wf Gf]. assert (Wf' := Wf). destruct Wf' as [L1 [L2 L3]].
      destruct E as [Cm [Ca Cv]]. destruct H as [Rm [Ra Rv]]. rewrite L1 in *.
      split.
      * split; [|split]; try congruence.
        -- rewrite Ra, map2_length, Ca.
           destruct (const_cells_nth k 0 _ HC (Nat.lt_0_succ 0) eq_refl) as [LL _] || idtac.
           destruct k; simpl in *; rewrite ?repeat_length; lia.
        -- rewrite Rv, map2_length, Cv, repeat_length. lia.
      * intros c Hc.
        destruct (const_cells_nth k c (farr a) HC Hc Ca) as [LL NN].
        split.
        -- rewrite Ra, (nth_map2 (@app K) _ _ _ [] [] []) by lia. simpl.
           now rewrite (proj1 (Gf c Hc)), NN.
        -- rewrite Rv, (nth_map2 andb _ _ _ true true true) by (rewrite ?Cv, ?repeat_length; lia).
           rewrite Cv, nth_repeat_lt by lia. simpl. rewrite !andb_true_r. exact (proj2 (Gf c Hc)).
  - (* ufunc spelling, self first *)
    apply ufunc2_ok in H. destruct Ga as [Wf Gf]. assert (Wf' := Wf). destruct Wf' as [L1 [L2 L3]].
    destruct H as [Rm [Ra Rv]]. rewrite L1 in *. simpl in Ra, Rv.
    destruct (operand_good _ _ HC Gb) as [O1 [O2 O3]].
    split.
    + split; [|split]; try congruence.
      * rewrite Ra, map2_length. lia.
      * rewrite Rv, map2_length. lia.
    + intros c0 Hc. split.
      * rewrite Ra, (nth_map2 (bvec (cf2 K bin c)) _ _ _ [] [] []) by lia. simpl.
        now rewrite (proj1 (Gf c0 Hc)), (proj1 (O3 c0 Hc)).
      * rewrite Rv, (nth_map2 andb _ _ _ true true true) by lia. simpl.
        now rewrite (proj2 (Gf c0 Hc)), (proj2 (O3 c0 Hc)).
Qed.

Lemma eval_rbin_good o k eb g r :
  consts_ok N (Const k) -> good eb (VF g) -> eval_rbin K bin o k g = OK r ->
  good (Bin o (Const k) eb) (VF r).
Proof.
  intros HC Gb H. destruct o; unfold eval_rbin in H.
  - (* arithmetic *)
    destruct (const_np K k) eqn:NP.
    + apply ufunc2_ok in H. destruct Gb as [Wg Gg]. assert (Wg' := Wg). destruct Wg' as [L1 [L2 L3]].
      destruct H as [Rm [Ra Rv]]. rewrite L1 in *. simpl in Ra, Rv.
      destruct (operand_good (Const k) (VC k) HC eq_refl) as [O1 [O2 O3]]. simpl in O1, O2, O3.
      split.
      * split; [|split]; try congruence.
        -- rewrite Ra, map2_length. lia.
        -- rewrite Rv, map2_length. lia.
      * intros c0 Hc. split.
        -- rewrite Ra, (nth_map2 (bvec (alg K bin o)) _ _ _ [] [] []) by lia. simpl.
           now rewrite (proj1 (Gg c0 Hc)), (proj1 (O3 c0 Hc)).
        -- rewrite Rv, (nth_map2 andb _ _ _ true true true) by lia.
           rewrite (proj2 (O3 c0 Hc)). simpl. exact (proj2 (Gg c0 Hc)).
    + destruct o.
      * apply apply_op_ok in H. eapply rlift2_good; eauto. intros u v. simpl. apply bvec_comm. intros; ring.
      * apply apply_op_ok in H. eapply rlift2_good; eauto. intros u v. simpl. symmetry. apply bvec_flip.
      * apply apply_op_ok in H. eapply rlift2_good; eauto. intros u v. simpl. apply bvec_comm. intros; ring.
      * apply apply_op_ok in H. eapply rlift2_good; eauto. intros u v. simpl. symmetry. apply bvec_flip.
      * discriminate.
  - destruct (const_np K k); [discriminate|]. apply dot_op_ok in H.
    eapply (rlift2_good (fun u v => [dotv K u v])); eauto. intros u v. simpl. now rewrite dotv_comm.
  - destruct (const_np K k); [discriminate|]. inv1 H. apply cross_op_ok in E. apply same_shape_ok in H.
    destruct E as [Cm [Ca Cv]]. destruct H as [Rm [Ra Rv]]. simpl in Cv.
    eapply (rlift2_good (fun u v => map fopp (cross3 K u v))); eauto.
    + intros u v. simpl. apply cross3_anti.
    + unfold res_is. rewrite Rm, Cm, Ra, Ca, Rv, Cv. split; [|split]; auto.
      generalize (operand_cells K (length (farr g)) (VC k)). generalize (farr g).
      induction l as [|x l IH]; intros [|y l']; simpl; auto. now rewrite IH.
  - discriminate.
  - (* constant << field *)
    destruct (const_np K k); [discriminate|]. inv1 H. apply stack_const_ok in E. apply stack_ff_ok in H.
    destruct Gb as [Wg Gg]. assert (Wg' := Wg). destruct Wg' as [L1 [L2 L3]].
    destruct E as [Cm [Ca Cv]]. destruct H as [Rm [Ra Rv]]. rewrite L1 in *.
    split.
    + split; [|split]; try congruence.
      * rewrite Ra, map2_length, Ca. destruct k; simpl in *; rewrite ?repeat_length; lia.
      * rewrite Rv, map2_length, Cv, repeat_length. lia.
    + intros c Hc.
      destruct (const_cells_nth k c (farr a) HC Hc Ca) as [LL NN].
      split.
      * rewrite Ra, (nth_map2 (@app K) _ _ _ [] [] []) by lia. simpl.
        now rewrite (proj1 (Gg c Hc)), NN.
      * rewrite Rv, (nth_map2 andb _ _ _ true true true) by (rewrite ?Cv, ?repeat_length; lia).
        rewrite Cv, nth_repeat_lt by lia. simpl. exact (proj2 (Gg c Hc)).
  - (* ufunc spelling, constant first *)
    apply ufunc2_ok in H. destruct Gb as [Wg Gg]. assert (Wg' := Wg). destruct Wg' as [L1 [L2 L3]].
    destruct H as [Rm [Ra Rv]]. rewrite L1 in *. simpl in Ra, Rv.
    destruct (operand_good (Const k) (VC k) HC eq_refl) as [O1 [O2 O3]]. simpl in O1, O2, O3.
    split.
    + split; [|split]; try congruence.
      * rewrite Ra, map2_length. lia.
      * rewrite Rv, map2_length. lia.
    + intros c0 Hc. split.
      * rewrite Ra, (nth_map2 (bvec (cf2 K bin c)) _ _ _ [] [] []) by lia. simpl.
        now rewrite (proj1 (Gg c0 Hc)), (proj1 (O3 c0 Hc)).
      * rewrite Rv, (nth_map2 andb _ _ _ true true true) by lia.
        rewrite (proj2 (O3 c0 Hc)). simpl. exact (proj2 (Gg c0 Hc)).
Qed.

Theorem eval_good e : consts_ok N e -> forall v, eval K un bin rho e = OK v -> good e v.
Proof.
  induction e as [i|k|o a IH|o a IHa b IHb]; simpl; intros HC v H.
  - destruct (nth_error rho i) as [f|] eqn:E; [|discriminate]. inversion H; subst v. simpl.
    assert (In f rho) by (eapply nth_error_In; eauto).
    rewrite Forall_forall in Hrho. split; [auto|].
    intros c Hc. now rewrite (nth_error_nth rho i (dummy K) E).
  - inversion H; subst v. reflexivity.
  - destruct (eval K un bin rho a) as [va|] eqn:Ea; simpl in H; [|discriminate].
    destruct va as [f|k]; [|discriminate].
    destruct (eval_un K un o f) as [r|] eqn:Er; simpl in H; [|discriminate].
    inversion H; subst v. eapply eval_un_good; eauto.
  - destruct HC as [HCa HCb].
    destruct (eval K un bin rho a) as [va|] eqn:Ea; simpl in H; [|discriminate].
    destruct (eval K un bin rho b) as [vb|] eqn:Eb; simpl in H; [|discriminate].
    specialize (IHa HCa _ eq_refl). specialize (IHb HCb _ eq_refl).
    destruct va as [f|k].
    + destruct (eval_bin K un bin o f vb) as [r|] eqn:Er; simpl in H; [|discriminate].
      inversion H; subst v. eapply eval_bin_good; eauto.
    + destruct vb as [g|k']; [|discriminate].
      destruct (eval_rbin K bin o k g) as [r|] eqn:Er; simpl in H; [|discriminate].
      inversion H; subst v. simpl in IHa. subst a. eapply eval_rbin_good; eauto.
Qed.

End Env.
End Proofs.
