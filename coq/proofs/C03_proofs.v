(* Proofs for C03 (model: Ops.v). *)
From DF Require Import Prelude FieldK Region Mesh Ops ListLemmas.

Fixpoint strip_pos {K : FOps} (e : expr K) : expr K :=
  match e with Un Pos a => strip_pos a | _ => e end.

Lemma alias_of_strip (K : FOps) (e : expr K) i : alias_of e = Some i -> strip_pos e = Leaf i.
Proof.
  induction e as [j|c|o a IH|o a IHa b IHb]; simpl; intro H; try discriminate.
  - now inversion H.
  - destruct o; try discriminate. now apply IH.
Qed.
