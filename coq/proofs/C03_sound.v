(* C03: soundness of check_C03 -- an accepted case certifies that the OBSERVED result of the
   recorded Field expression (accept / reject, mesh, nvdim, array, validity, labels, mapping,
   object identity) is what the model evaluator returns on the recorded operands: exactly when
   the case tolerance is 0, within the tolerance (|re| + |im| distance, per component) otherwise.
   The C03 theorems (cell-wise semantics, rejection, stacking, commutativity, identity) are then
   stated about the observation itself. *)
From Coq Require Import Qcanon Ring.
From DF Require Import Prelude FieldK Region Mesh Ops ListLemmas CheckSound Check_C03 C03_proofs C03_more.

Ltac split_andb :=
  repeat match goal with
         | H : _ && _ = true |- _ => apply andb_true_iff in H; destruct H
         end.

(* ---------- what a case denotes ---------- *)
Definition dmesh : mesh := build_mesh ([], [], [], [], [], 0%Q).
Definition env_fields (mls : list mesh_lit) (fls : list field_lit) : list (field CQ) :=
  map (build_field (map build_mesh mls)) fls.
Definition model_eval (tol : Q) mls fls (e : expr CQ) t1 t2 : res (value CQ) :=
  eval CQ (un_cq tol t1) (lookup2 tol t2) (env_fields mls fls) e.

(* ---------- the comparisons ---------- *)
Lemma cq_close_sound tol (a b : F CQ) : cq_close tol a b = true -> (cq_dist a b <= tol)%Q.
Proof. unfold cq_close. apply Qle_bool_imp_le. Qed.

Lemma qabs_sum_le0 (x y t : Q) : (t <= 0)%Q -> (Qabs x + Qabs y <= t)%Q -> (x == 0)%Q /\ (y == 0)%Q.
Proof.
  intros Ht H. pose proof (Qabs_nonneg x) as Nx. pose proof (Qabs_nonneg y) as Ny.
  assert (Hx : (Qabs x <= 0)%Q) by lra. assert (Hy : (Qabs y <= 0)%Q) by lra.
  apply Qabs_Qle_condition in Hx, Hy. split; lra.
Qed.

(* tolerance 0 (the exact regime): the comparison is Leibniz equality of complex rationals *)
Lemma cq_dist_exact tol (a b : F CQ) : (tol <= 0)%Q -> (cq_dist a b <= tol)%Q -> a = b.
Proof.
  intros Ht H. unfold cq_dist in H.
  destruct (qabs_sum_le0 _ _ _ Ht H) as [H1 H2].
  destruct a as [a1 a2], b as [b1 b2]. simpl in H1, H2.
  f_equal; apply Qc_is_canon; lra.
Qed.

Definition vec_within (tol : Q) (u v : list (F CQ)) : Prop :=
  Forall2 (fun x y => (cq_dist x y <= tol)%Q) u v.
Definition cells_within (tol : Q) (a b : list (list (F CQ))) : Prop := Forall2 (vec_within tol) a b.

Lemma arr_close_sound tol a b : arr_close tol a b = true -> cells_within tol a b.
Proof.
  unfold arr_close, cells_within. apply forallb2_Forall2_gen. intros u v.
  apply forallb2_Forall2_gen. intros x y. apply cq_close_sound.
Qed.

Lemma vec_within_exact tol u v : (tol <= 0)%Q -> vec_within tol u v -> u = v.
Proof.
  intros Ht H. apply Forall2_eq_gen. induction H; constructor; auto.
  eapply cq_dist_exact; eauto.
Qed.

Lemma cells_within_exact tol a b : (tol <= 0)%Q -> cells_within tol a b -> a = b.
Proof.
  intros Ht H. apply Forall2_eq_gen. induction H; constructor; auto.
  eapply vec_within_exact; eauto.
Qed.

Lemma opt_strs_eqb_sound a b : opt_strs_eqb a b = true -> a = b.
Proof.
  destruct a as [x|], b as [y|]; simpl; intro H; try discriminate; [|reflexivity].
  f_equal. apply strlist_eqb_sound_gen. exact H.
Qed.

Lemma optnat_eqb_sound a b : optnat_eqb a b = true -> a = b.
Proof.
  destruct a as [x|], b as [y|]; simpl; intro H; try discriminate; [|reflexivity].
  f_equal. apply Nat.eqb_eq. exact H.
Qed.

Lemma pair_mem_sound kv m : pair_mem kv m = true -> In kv m.
Proof.
  unfold pair_mem. intro H. apply existsb_exists in H. destruct H as [p [Hp E]].
  apply andb_true_iff in E. destruct E as [E1 E2].
  apply String.eqb_eq in E1, E2. destruct p as [p1 p2], kv as [k v]. simpl in E1, E2. subst. exact Hp.
Qed.

(* the mapping is compared as a set of (component, axis) pairs of the same size *)
Definition vmap_same (a b : list (string * string)) : Prop :=
  length a = length b /\ forall kv, In kv a <-> In kv b.

Lemma vmap_eqb_sound a b : vmap_eqb a b = true -> vmap_same a b.
Proof.
  unfold vmap_eqb. intro H. split_andb.
  split; [apply Nat.eqb_eq; assumption|].
  intro kv. split; intro Hin.
  - apply pair_mem_sound.
    match goal with Hf : forallb _ a = true |- _ => rewrite forallb_forall in Hf; apply Hf; exact Hin end.
  - apply pair_mem_sound.
    match goal with Hf : forallb _ b = true |- _ => rewrite forallb_forall in Hf; apply Hf; exact Hin end.
Qed.

(* Mesh.__eq__: corner coordinates equal as rationals, same dims, units, n *)
Definition mesh_same (a b : mesh) : Prop :=
  Forall2 Qeq (pmin (reg a)) (pmin (reg b)) /\ Forall2 Qeq (pmax (reg a)) (pmax (reg b)) /\
  dims (reg a) = dims (reg b) /\ units (reg a) = units (reg b) /\ n a = n b.

Lemma mesh_eqb_sound a b : mesh_eqb a b = true -> mesh_same a b.
Proof.
  unfold mesh_eqb, region_eqb. intro H. split_andb.
  repeat split.
  - apply qlist_eqb_sound_gen. assumption.
  - apply qlist_eqb_sound_gen. assumption.
  - apply strlist_eqb_sound_gen. assumption.
  - apply strlist_eqb_sound_gen. assumption.
  - apply zlist_eqb_sound_gen. assumption.
Qed.

(* ---------- soundness of the checker ---------- *)
(* the implementation raised: the model rejects the same expression *)
Lemma check_expr_rej_sound tol mls fls e t1 t2 oa :
  check_C03 (CExpr tol mls fls e t1 t2 None oa) = true ->
  exists er, model_eval tol mls fls e t1 t2 = Err er.
Proof.
  unfold check_C03. cbv zeta. unfold model_eval, env_fields.
  destruct (eval CQ (un_cq tol t1) (lookup2 tol t2) (map (build_field (map build_mesh mls)) fls) e)
    as [[f|c]|er]; intro H; try discriminate.
  exists er. reflexivity.
Qed.

(* the implementation returned a field: the model returns a field with the same mesh, component
   count, validity, labels, mapping, identity, and an array within the case tolerance *)
Lemma check_expr_ok_sound tol mls fls e t1 t2 mi nv cells valid vd vm oa :
  check_C03 (CExpr tol mls fls e t1 t2 (Some (mi, nv, cells, valid, vd, vm)) oa) = true ->
  exists f, model_eval tol mls fls e t1 t2 = OK (VF f) /\
    mesh_same (fmesh f) (nth mi (map build_mesh mls) dmesh) /\
    fnv f = nv /\
    Forall (fun v => length v = nv) (farr f) /\
    cells_within tol (farr f) (cells_cq cells) /\
    fvalid f = valid /\ fvdims f = vd /\ vmap_same (fvmap f) vm /\
    alias_of e = oa.
Proof.
  unfold check_C03. cbv zeta. unfold model_eval, env_fields.
  destruct (eval CQ (un_cq tol t1) (lookup2 tol t2) (map (build_field (map build_mesh mls)) fls) e)
    as [[f|c]|er]; intro H; try discriminate.
  split_andb. exists f. split; [reflexivity|].
  split; [apply mesh_eqb_sound; assumption|].
  split; [apply Nat.eqb_eq; assumption|].
  split.
  { apply Forall_forall. intros v Hv.
    match goal with Hf : forallb _ (farr f) = true |- _ => rewrite forallb_forall in Hf; apply Hf in Hv end.
    apply Nat.eqb_eq. exact Hv. }
  split; [apply arr_close_sound; assumption|].
  split; [apply boollist_eqb_sound; assumption|].
  split; [apply opt_strs_eqb_sound; assumption|].
  split; [apply vmap_eqb_sound; assumption|].
  apply optnat_eqb_sound; assumption.
Qed.

(* exact regime (case tolerance 0): the observed array IS the model's array *)
Lemma check_expr_ok_exact tol mls fls e t1 t2 mi nv cells valid vd vm oa :
  (tol <= 0)%Q ->
  check_C03 (CExpr tol mls fls e t1 t2 (Some (mi, nv, cells, valid, vd, vm)) oa) = true ->
  exists f, model_eval tol mls fls e t1 t2 = OK (VF f) /\
    mesh_same (fmesh f) (nth mi (map build_mesh mls) dmesh) /\
    fnv f = nv /\ farr f = cells_cq cells /\ fvalid f = valid /\ fvdims f = vd /\
    vmap_same (fvmap f) vm /\ alias_of e = oa.
Proof.
  intros Ht H. apply check_expr_ok_sound in H.
  destruct H as (f & E & Hm & Hnv & _ & Hc & Hv & Hd & Hvm & Ha).
  exists f. repeat split; try assumption; try apply Hm; try apply Hvm.
  eapply cells_within_exact; eauto.
Qed.

(* accept / reject agree: an accepted case recorded an exception exactly when the model rejects *)
Lemma check_expr_verdict tol mls fls e t1 t2 obs oa :
  check_C03 (CExpr tol mls fls e t1 t2 obs oa) = true ->
  (obs = None <-> is_ok (model_eval tol mls fls e t1 t2) = false).
Proof.
  unfold check_C03. cbv zeta. unfold model_eval, env_fields.
  destruct (eval CQ (un_cq tol t1) (lookup2 tol t2) (map (build_field (map build_mesh mls)) fls) e)
    as [[f|c]|er]; destruct obs as [o|]; intro H; try discriminate; simpl; split; intro; try discriminate; reflexivity.
Qed.

(* ---------- the recorded operands are well formed (what the wf hypothesis of the theorems asks) ---------- *)
Lemma CQ_ring : ring_theory (f0 CQ) (f1 CQ) (@fadd CQ) (@fmul CQ) (@fsub CQ) (@fopp CQ) eq.
Proof. exact (cplx_ring QcOps Qcrt). Qed.

(* decidable on the recorded literals: all operands on mesh number mi, N cells, N validity flags *)
Definition lit_wfb (N mi : nat) (fl : field_lit) : bool :=
  match fl with
  | (mi', _, cells, valid, _, _) => (mi' =? mi)%nat && (length cells =? N)%nat && (length valid =? N)%nat
  end.

Lemma env_wf mls fls N mi : forallb (lit_wfb N mi) fls = true ->
  Forall (wf_leaf CQ N (nth mi (map build_mesh mls) dmesh)) (env_fields mls fls).
Proof.
  intro H. unfold env_fields. apply Forall_forall. intros f Hf. apply in_map_iff in Hf.
  destruct Hf as [fl [E Hin]]. rewrite forallb_forall in H. specialize (H fl Hin).
  destruct fl as [[[[[mi' nv] cells] valid] vd] vm]. simpl in H. split_andb.
  subst f. unfold wf_leaf. simpl. unfold cells_cq. rewrite map_length.
  match goal with Hm : (mi' =? mi)%nat = true |- _ => apply Nat.eqb_eq in Hm; subst mi' end.
  repeat split; try (apply Nat.eqb_eq; assumption).
Qed.

(* ---------- transfer: cell-wise semantics of the OBSERVED array and validity ---------- *)
Theorem accepted_cellwise tol mls fls e t1 t2 mi nv cells valid vd vm oa N mi0
        (rho := env_fields mls fls) :
  check_C03 (CExpr tol mls fls e t1 t2 (Some (mi, nv, cells, valid, vd, vm)) oa) = true ->
  forallb (lit_wfb N mi0) fls = true -> consts_ok CQ N e ->
  mesh_same (nth mi0 (map build_mesh mls) dmesh) (nth mi (map build_mesh mls) dmesh) /\
  length cells = N /\ length valid = N /\
  forall c, (c < N)%nat ->
    vec_within tol (den CQ (un_cq tol t1) (lookup2 tol t2) rho e c) (nth c (cells_cq cells) []) /\
    nth c valid true = den_valid CQ rho e c.
Proof.
  intros H Hw Hc. apply check_expr_ok_sound in H.
  destruct H as (f & E & Hm & Hnv & _ & Hcl & Hv & _).
  destruct (cellwise CQ (un_cq tol t1) (lookup2 tol t2) CQ_ring rho N _ e f (env_wf mls fls N mi0 Hw) Hc E)
    as (Fm & L1 & L2 & G).
  pose proof (Forall2_length_gen _ _ _ Hcl) as Ll. unfold cells_cq in Ll. rewrite map_length in Ll.
  split; [rewrite <- Fm; exact Hm|]. split; [congruence|]. split; [congruence|].
  intros c Hlt. destruct (G c Hlt) as [G1 G2]. split.
  - rewrite <- G1. apply (Forall2_nth_gen (vec_within tol) (farr f) (cells_cq cells) [] [] Hcl). lia.
  - rewrite <- Hv. exact G2.
Qed.

(* exact regime: every observed cell IS the plain cell-wise value of the expression *)
Theorem accepted_cellwise_exact tol mls fls e t1 t2 mi nv cells valid vd vm oa N mi0
        (rho := env_fields mls fls) :
  (tol <= 0)%Q ->
  check_C03 (CExpr tol mls fls e t1 t2 (Some (mi, nv, cells, valid, vd, vm)) oa) = true ->
  forallb (lit_wfb N mi0) fls = true -> consts_ok CQ N e ->
  length cells = N /\ length valid = N /\
  forall c, (c < N)%nat ->
    nth c (cells_cq cells) [] = den CQ (un_cq tol t1) (lookup2 tol t2) rho e c /\
    nth c valid true = den_valid CQ rho e c.
Proof.
  intros Ht H Hw Hc.
  destruct (accepted_cellwise tol mls fls e t1 t2 mi nv cells valid vd vm oa N mi0 H Hw Hc) as (_ & L1 & L2 & G).
  split; [exact L1|]. split; [exact L2|]. intros c Hlt. destruct (G c Hlt) as [G1 G2]. split; [|exact G2].
  symmetry. eapply vec_within_exact; eauto.
Qed.

(* ---------- transfer: object identity ---------- *)
(* when the implementation handed back operand object number i, the expression is +(+(... f_i)) and
   the observed field carries operand i's recorded component count, validity, labels, mapping, array *)
Theorem accepted_alias_is_operand tol mls fls e t1 t2 mi nv cells valid vd vm i :
  check_C03 (CExpr tol mls fls e t1 t2 (Some (mi, nv, cells, valid, vd, vm)) (Some i)) = true ->
  strip_pos e = Leaf i /\
  exists mi' cells' vm', nth_error fls i = Some (mi', nv, cells', valid, vd, vm') /\
    cells_within tol (cells_cq cells') (cells_cq cells) /\ vmap_same vm' vm.
Proof.
  intro H. apply check_expr_ok_sound in H.
  destruct H as (f & E & Hm & Hnv & _ & Hcl & Hv & Hd & Hvm & Ha).
  split; [apply alias_of_strip; exact Ha|].
  destruct (alias_is_operand CQ (un_cq tol t1) (lookup2 tol t2) (env_fields mls fls) e i (VF f) Ha E)
    as (f0 & Hn & Ef).
  inversion Ef; subst f0. clear Ef.
  unfold env_fields in Hn. rewrite nth_error_map in Hn.
  destruct (nth_error fls i) as [fl|]; simpl in Hn; [|discriminate].
  inversion Hn as [Hf]. clear Hn.
  destruct fl as [[[[[mi' nv'] cells'] valid'] vd'] vm'].
  subst f. simpl in *. subst. exists mi', cells', vm'. auto.
Qed.

(* ---------- transfer: rejection ---------- *)
Lemma accepted_bin_leaves_raises tol mls fls o i j fi fj t1 t2 obs oa (ms := map build_mesh mls) :
  nth_error fls i = Some fi -> nth_error fls j = Some fj ->
  is_ok (eval_bin CQ (un_cq tol t1) (lookup2 tol t2) o (build_field ms fi) (VF (build_field ms fj))) = false ->
  check_C03 (CExpr tol mls fls (Bin o (Leaf i) (Leaf j)) t1 t2 obs oa) = true -> obs = None.
Proof.
  intros Hi Hj R H. apply check_expr_verdict in H. apply H.
  unfold model_eval. cbn [eval]. unfold env_fields.
  rewrite (map_nth_error (build_field (map build_mesh mls)) _ _ Hi),
          (map_nth_error (build_field (map build_mesh mls)) _ _ Hj). cbn [bind].
  fold ms.
  destruct (eval_bin CQ (un_cq tol t1) (lookup2 tol t2) o (build_field ms fi) (VF (build_field ms fj)));
    simpl in *; congruence.
Qed.

(* two operands on meshes that are not allclose: an accepted case recorded an exception *)
Theorem accepted_other_mesh_raises tol mls fls o i j fi fj t1 t2 obs oa (ms := map build_mesh mls) :
  nth_error fls i = Some fi -> nth_error fls j = Some fj -> arithmetic o = true ->
  mesh_allclose (fmesh (build_field ms fi)) (fmesh (build_field ms fj)) <> OK true ->
  check_C03 (CExpr tol mls fls (Bin o (Leaf i) (Leaf j)) t1 t2 obs oa) = true -> obs = None.
Proof.
  intros Hi Hj Ha Hm. apply (accepted_bin_leaves_raises tol mls fls o i j fi fj t1 t2 obs oa Hi Hj).
  apply reject_other_mesh; assumption.
Qed.

Theorem accepted_other_mesh_stack_raises tol mls fls i j fi fj t1 t2 obs oa (ms := map build_mesh mls) :
  nth_error fls i = Some fi -> nth_error fls j = Some fj ->
  mesh_eqb (fmesh (build_field ms fi)) (fmesh (build_field ms fj)) = false ->
  check_C03 (CExpr tol mls fls (Bin Stack (Leaf i) (Leaf j)) t1 t2 obs oa) = true -> obs = None.
Proof.
  intros Hi Hj Hm. apply (accepted_bin_leaves_raises tol mls fls Stack i j fi fj t1 t2 obs oa Hi Hj).
  pose proof (reject_other_mesh_stack CQ (un_cq tol t1) (lookup2 tol t2) _ _ Hm) as R.
  subst ms. rewrite R. reflexivity.
Qed.

(* incompatible component counts: an accepted case recorded an exception *)
Theorem accepted_component_count_raises tol mls fls (a : aop) o i j fi fj t1 t2 obs oa (ms := map build_mesh mls) :
  nth_error fls i = Some fi -> nth_error fls j = Some fj ->
  In o [Alg a; Uf2 (CAlg a); Dot; Cross; Angle] ->
  fnv (build_field ms fi) <> fnv (build_field ms fj) ->
  fnv (build_field ms fi) <> 1%nat -> fnv (build_field ms fj) <> 1%nat ->
  check_C03 (CExpr tol mls fls (Bin o (Leaf i) (Leaf j)) t1 t2 obs oa) = true -> obs = None.
Proof.
  intros Hi Hj Ho H0 H1 H2. apply (accepted_bin_leaves_raises tol mls fls o i j fi fj t1 t2 obs oa Hi Hj).
  destruct (reject_component_count CQ (un_cq tol t1) (lookup2 tol t2) a _ _ H0 H1 H2) as (R1 & R2 & R3 & R4 & R5).
  simpl in Ho. destruct Ho as [<-|[<-|[<-|[<-|[<-|[]]]]]]; assumption.
Qed.

(* ---------- transfer: stacking the components of operand i reproduces its recorded array ---------- *)
Theorem accepted_stack_components tol mls fls i j t1 t2 mi nv cells valid vd vm oa N mi0
        mi' nv' cells' valid' vd' vm' :
  (tol <= 0)%Q ->
  check_C03 (CExpr tol mls fls (stack_from CQ (Leaf i) j) t1 t2 (Some (mi, nv, cells, valid, vd, vm)) oa) = true ->
  forallb (lit_wfb N mi0) fls = true ->
  nth_error fls i = Some (mi', nv', cells', valid', vd', vm') ->
  Forall (fun cell => length cell = S j) cells' ->
  cells_cq cells = cells_cq cells' /\ valid = valid'.
Proof.
  intros Ht H Hw Hi Hl. apply check_expr_ok_exact in H; [|exact Ht].
  destruct H as (f & E & _ & _ & Hc & Hv & _).
  pose proof (map_nth_error (build_field (map build_mesh mls)) _ _ Hi) as Hn.
  assert (Hl' : Forall (fun cell => length cell = S j)
                  (farr (build_field (map build_mesh mls) (mi', nv', cells', valid', vd', vm')))).
  { simpl. unfold cells_cq. apply Forall_forall. intros x Hx. apply in_map_iff in Hx.
    destruct Hx as [y [<- Hy]]. rewrite map_length. rewrite Forall_forall in Hl. apply Hl. exact Hy. }
  destruct (stack_components CQ (un_cq tol t1) (lookup2 tol t2) CQ_ring (env_fields mls fls) N _ i j _ f
              (env_wf mls fls N mi0 Hw) Hn Hl' E) as (A1 & A2 & _).
  simpl in A1, A2. split; congruence.
Qed.

(* ---------- transfer: a+b / b+a and a*b / b*a, observed ---------- *)
Lemma qabs_bounds (x : Q) : (- Qabs x <= x)%Q /\ (x <= Qabs x)%Q.
Proof. apply Qabs_Qle_condition. apply Qle_refl. Qed.

Lemma qabs_tri (x y z : Q) : (Qabs (y - z) <= Qabs (x - y) + Qabs (x - z))%Q.
Proof.
  apply Qabs_Qle_condition.
  destruct (qabs_bounds (x - y)) as [A1 A2]. destruct (qabs_bounds (x - z)) as [B1 B2].
  split; lra.
Qed.

Lemma cq_dist_tri (a b c : F CQ) : (cq_dist b c <= cq_dist a b + cq_dist a c)%Q.
Proof.
  unfold cq_dist.
  pose proof (qabs_tri (this (fst a)) (this (fst b)) (this (fst c))).
  pose proof (qabs_tri (this (snd a)) (this (snd b)) (this (snd c))). lra.
Qed.

Lemma vec_within_tri s t a b c : vec_within s a b -> vec_within t a c -> vec_within (s + t) b c.
Proof.
  intro H. revert c. induction H as [|x y a b Hxy _ IH]; intros c H2; inversion H2; subst; constructor.
  - pose proof (cq_dist_tri x y y0). lra.
  - apply IH. assumption.
Qed.

Lemma cells_within_tri s t a b c : cells_within s a b -> cells_within t a c -> cells_within (s + t) b c.
Proof.
  intro H. revert c. induction H as [|x y a b Hxy _ IH]; intros c H2; inversion H2; subst; constructor.
  - eapply vec_within_tri; eauto.
  - apply IH. assumption.
Qed.

Lemma eval_bin_leaves tol mls fls o i j fi fj t1 t2 (ms := map build_mesh mls) :
  nth_error fls i = Some fi -> nth_error fls j = Some fj ->
  model_eval tol mls fls (Bin o (Leaf i) (Leaf j)) t1 t2 =
  (do r <- eval_bin CQ (un_cq tol t1) (lookup2 tol t2) o (build_field ms fi) (VF (build_field ms fj)); OK (VF r)).
Proof.
  intros Hi Hj. unfold model_eval. cbn [eval]. unfold env_fields.
  rewrite (map_nth_error (build_field (map build_mesh mls)) _ _ Hi),
          (map_nth_error (build_field (map build_mesh mls)) _ _ Hj). reflexivity.
Qed.

(* the two operand orders of + (of * ) were both accepted, possibly with different tolerances and tables:
   either both raised, or both returned fields with the same component count, validity, labels, mapping
   (as a set) and arrays within the sum of the two tolerances (equal in the exact regime) *)
Theorem accepted_commutative tolA tolB mls fls (a : aop) i j fi fj t1A t2A t1B t2B oA oB aA aB
        (ms := map build_mesh mls) (f := build_field ms fi) (g := build_field ms fj) :
  (a = Add \/ a = Mul) ->
  nth_error fls i = Some fi -> nth_error fls j = Some fj ->
  fmesh f = fmesh g -> (1 <= fnv f)%nat -> (1 <= fnv g)%nat ->
  (fnv f = fnv g -> fvdims f = fvdims g /\ fvmap f = fvmap g) ->
  check_C03 (CExpr tolA mls fls (Bin (Alg a) (Leaf i) (Leaf j)) t1A t2A oA aA) = true ->
  check_C03 (CExpr tolB mls fls (Bin (Alg a) (Leaf j) (Leaf i)) t1B t2B oB aB) = true ->
  match oA, oB with
  | None, None => True
  | Some (_, nv1, c1, v1, vd1, vm1), Some (_, nv2, c2, v2, vd2, vm2) =>
      nv1 = nv2 /\ v1 = v2 /\ vd1 = vd2 /\ vmap_same vm1 vm2 /\
      cells_within (tolA + tolB) (cells_cq c1) (cells_cq c2) /\
      ((tolA <= 0)%Q -> (tolB <= 0)%Q -> cells_cq c1 = cells_cq c2)
  | _, _ => False
  end.
Proof.
  intros Ha Hi Hj Hm Hf Hg Hl HA HB.
  assert (Hl' : fnv g = fnv f -> fvdims g = fvdims f /\ fvmap g = fvmap f).
  { intro E. destruct (Hl (eq_sym E)). split; congruence. }
  pose proof (eval_bin_leaves tolA mls fls (Alg a) i j fi fj t1A t2A Hi Hj) as EA.
  pose proof (eval_bin_leaves tolB mls fls (Alg a) j i fj fi t1B t2B Hj Hi) as EB.
  fold ms in EA, EB. fold f in EA, EB. fold g in EA, EB. cbn [eval_bin] in EA, EB.
  assert (SW1 : forall r, apply_op CQ (alg CQ (lookup2 tolA t2A) a) f (VF g) = OK r ->
                          apply_op CQ (alg CQ (lookup2 tolB t2B) a) g (VF f) = OK r).
  { intros r Hr. destruct Ha; subst a;
      [exact (commutative CQ (lookup2 tolB t2B) CQ_ring Add f g r (or_introl eq_refl) Hm Hf Hg Hl Hr)
      |exact (commutative CQ (lookup2 tolB t2B) CQ_ring Mul f g r (or_intror eq_refl) Hm Hf Hg Hl Hr)]. }
  assert (SW2 : forall r, apply_op CQ (alg CQ (lookup2 tolB t2B) a) g (VF f) = OK r ->
                          apply_op CQ (alg CQ (lookup2 tolA t2A) a) f (VF g) = OK r).
  { intros r Hr. destruct Ha; subst a;
      [exact (commutative CQ (lookup2 tolA t2A) CQ_ring Add g f r (or_introl eq_refl) (eq_sym Hm) Hg Hf Hl' Hr)
      |exact (commutative CQ (lookup2 tolA t2A) CQ_ring Mul g f r (or_intror eq_refl) (eq_sym Hm) Hg Hf Hl' Hr)]. }
  destruct oA as [[[[[[m1 nv1] c1] v1] vd1] vm1]|], oB as [[[[[[m2 nv2] c2] v2] vd2] vm2]|].
  - apply check_expr_ok_sound in HA, HB.
    destruct HA as (r1 & E1 & _ & N1 & _ & C1 & V1 & D1 & M1 & _).
    destruct HB as (r2 & E2 & _ & N2 & _ & C2 & V2 & D2 & M2 & _).
    rewrite EA in E1. rewrite EB in E2.
    destruct (apply_op CQ (alg CQ (lookup2 tolA t2A) a) f (VF g)) as [r|] eqn:R1; simpl in E1; [|discriminate].
    rewrite (SW1 r eq_refl) in E2. simpl in E2.
    inversion E1; inversion E2; subst r1 r2.
    split; [congruence|]. split; [congruence|]. split; [congruence|].
    split.
    { destruct M1 as [La Ia], M2 as [Lb Ib]. split; [congruence|].
      intro kv. rewrite <- Ia, <- Ib. reflexivity. }
    assert (CW : cells_within (tolA + tolB) (cells_cq c1) (cells_cq c2)) by (eapply cells_within_tri; eauto).
    split; [exact CW|]. intros TA TB. eapply cells_within_exact; [|exact CW]. lra.
  - apply check_expr_ok_sound in HA. destruct HA as (r1 & E1 & _).
    apply check_expr_rej_sound in HB. destruct HB as (er & E2).
    rewrite EA in E1. rewrite EB in E2.
    destruct (apply_op CQ (alg CQ (lookup2 tolA t2A) a) f (VF g)) as [r|] eqn:R1; simpl in E1; [|discriminate].
    rewrite (SW1 r eq_refl) in E2. discriminate.
  - apply check_expr_ok_sound in HB. destruct HB as (r2 & E2 & _).
    apply check_expr_rej_sound in HA. destruct HA as (er & E1).
    rewrite EA in E1. rewrite EB in E2.
    destruct (apply_op CQ (alg CQ (lookup2 tolB t2B) a) g (VF f)) as [r|] eqn:R2; simpl in E2; [|discriminate].
    rewrite (SW2 r eq_refl) in E1. discriminate.
  - exact I.
Qed.

(* a whole shard: no failing index means every case was accepted *)
Lemma shard_verdict cases k :
  failing k (map check_C03 cases) = [] -> forall c, In c cases -> check_C03 c = true.
Proof. exact (failing_nil_all check_C03 cases k). Qed.

(* ---------- non-vacuity: concrete accepted cases that satisfy the hypotheses above ---------- *)
Definition xm1 : mesh_lit := ([0], [1], [2%Z], ["x"%string], ["m"%string], (1 # 1000000000000))%Q.
Definition xm2 : mesh_lit := ([0], [2], [2%Z], ["x"%string], ["m"%string], (1 # 1000000000000))%Q.
Definition xf0 : field_lit := (0%nat, 1%nat, [[(1, 0)]; [(2, 0)]], [true; true], None, [])%Q.
Definition xf1 : field_lit := (0%nat, 1%nat, [[(3, 0)]; [((5 # 2), 1)]], [true; false], None, [])%Q.
Definition xf2 : field_lit :=
  (0%nat, 2%nat, [[(3, 0); (4, 0)]; [((5 # 2), 1); (7, 0)]], [true; false], Some ["a"%string; "b"%string], [])%Q.
Definition xf3 : field_lit := (1%nat, 1%nat, [[(3, 0)]; [((5 # 2), 1)]], [true; false], None, [])%Q.
Definition xe1 : expr CQ :=
  Bin (Alg Sub) (Leaf 0) (Bin (Alg Mul) (Leaf 1) (Const (CNum false (cq 2 0)))).

(* f0 - f1 * 2 on a two-cell mesh, complex data, one invalid cell: hypotheses of accepted_cellwise_exact *)
Example accepted_cellwise_instance :
  check_C03 (CExpr 0 [xm1] [xf0; xf1] xe1 [] []
               (Some (0%nat, 1%nat, [[((-5), 0)]; [((-3), (-2))]], [true; false], None, [])%Q) None) = true
  /\ forallb (lit_wfb 2 0) [xf0; xf1] = true /\ consts_ok CQ 2 xe1.
Proof. split; [vm_compute; reflexivity|]. split; [vm_compute; reflexivity|]. simpl. auto. Qed.

(* +f0 handed back operand 0 *)
Example accepted_alias_instance :
  check_C03 (CExpr 0 [xm1] [xf0; xf1] (Un Pos (Un Pos (Leaf 0))) [] [] (Some xf0) (Some 0%nat)) = true.
Proof. vm_compute. reflexivity. Qed.

(* operands on different meshes: the recorded exception is accepted, and the hypotheses hold *)
Example accepted_other_mesh_instance :
  check_C03 (CExpr 0 [xm1; xm2] [xf0; xf3] (Bin (Alg Add) (Leaf 0) (Leaf 1)) [] [] None None) = true
  /\ mesh_allclose (fmesh (build_field (map build_mesh [xm1; xm2]) xf0))
                   (fmesh (build_field (map build_mesh [xm1; xm2]) xf3)) <> OK true.
Proof. split; [vm_compute; reflexivity|]. vm_compute. discriminate. Qed.

(* f2.a << f2.b has the array of f2 *)
Example accepted_stack_instance :
  check_C03 (CExpr 0 [xm1] [xf0; xf2] (stack_from CQ (Leaf 1) 1) [] []
               (Some (0%nat, 2%nat, [[(3, 0); (4, 0)]; [((5 # 2), 1); (7, 0)]], [true; false],
                      Some ["x"%string; "y"%string], [])%Q) None) = true
  /\ forallb (lit_wfb 2 0) [xf0; xf2] = true.
Proof. split; vm_compute; reflexivity. Qed.

(* scalar * vector and vector * scalar, both orders accepted *)
Example accepted_commutative_instance :
  let obs := Some (0%nat, 2%nat, [[(3, 0); (4, 0)]; [(5, 2); (14, 0)]], [true; false],
                   Some ["a"%string; "b"%string], [])%Q in
  check_C03 (CExpr 0 [xm1] [xf0; xf2] (Bin (Alg Mul) (Leaf 0) (Leaf 1)) [] [] obs None) = true /\
  check_C03 (CExpr 0 [xm1] [xf0; xf2] (Bin (Alg Mul) (Leaf 1) (Leaf 0)) [] [] obs None) = true.
Proof. split; vm_compute; reflexivity. Qed.

(* a wrong observation is rejected: the checker is not constantly true *)
Example rejected_instance :
  check_C03 (CExpr 0 [xm1] [xf0; xf1] xe1 [] []
               (Some (0%nat, 1%nat, [[((-5), 0)]; [((-3), 2)]], [true; false], None, [])%Q) None) = false.
Proof. vm_compute. reflexivity. Qed.
