(* C04: linearity of the stencils / of split-diff-combine, and the periodic (ring) form. *)
From Coq Require Import Field.
From DF Require Import Prelude Constants_gen FieldK NDArray Diff ListLemmas C04_proofs.

Section Lin.
Variable K : FOps.
Hypothesis HK : field_theory (f0 K) (f1 K) (@fadd K) (@fmul K) (@fsub K) (@fopp K) (@fdiv K) (@finv K) eq.
Add Field Kfield2 : HK.
Notation "0" := (f0 K).
Notation "1" := (f1 K).
Infix "+" := fadd. Infix "*" := fmul. Infix "-" := fsub. Infix "/" := fdiv.
Notation two := (f2 K).

Definition lin (a b : K) (u w : list K) : list K := map2 (fun x y => a * x + b * y) u w.

Lemma lin_length a b u w : length u = length w -> length (lin a b u w) = length u.
Proof. intros H. unfold lin. rewrite map2_length. lia. Qed.

Lemma nth_lin a b u w j : length u = length w ->
  nth j (lin a b u w) 0 = a * nth j u 0 + b * nth j w 0.
Proof.
  revert w j. induction u as [|x u IH]; intros [|y w] [|j] Hl; simpl in *; try discriminate;
    try (ring); try reflexivity.
  apply IH. lia.
Qed.

Lemma fdiv_def (x y : K) : x / y = x * finv y.
Proof. apply (Fdiv_def HK). Qed.

Lemma d1_at_lin a b u w h j : length u = length w ->
  d1_at K (lin a b u w) h j = a * d1_at K u h j + b * d1_at K w h j.
Proof.
  intros Hl. unfold d1_at. rewrite lin_length by exact Hl. rewrite <- Hl.
  rewrite !nth_lin by exact Hl.
  destruct (length u <? 3)%nat; [rewrite !fdiv_def; ring|].
  destruct (j =? 0)%nat; [rewrite !fdiv_def; ring|].
  destruct (j =? length u - 1)%nat; rewrite !fdiv_def; ring.
Qed.

Lemma d2_at_lin a b u w h j : length u = length w ->
  d2_at K (lin a b u w) h j = a * d2_at K u h j + b * d2_at K w h j.
Proof.
  intros Hl. unfold d2_at. rewrite lin_length by exact Hl. rewrite <- Hl.
  rewrite !nth_lin by exact Hl.
  destruct (length u <? 4)%nat; destruct (j =? 0)%nat; try destruct (j =? length u - 1)%nat;
    norm_stencil; rewrite !fdiv_def; ring.
Qed.

Lemma lin_zeros a b (u w : list K) : length u = length w ->
  map (fun _ => 0) (lin a b u w) = lin a b (map (fun _ => 0) u) (map (fun _ => 0) w).
Proof.
  unfold lin. revert w. induction u as [|x u IH]; intros [|y w] Hl; simpl in *; try discriminate; try reflexivity.
  f_equal; [ring | apply IH; lia].
Qed.

Lemma map2_map_iota {A} (f g : nat -> A) (op : A -> A -> A) k n :
  map2 op (map f (iota k n)) (map g (iota k n)) = map (fun j => op (f j) (g j)) (iota k n).
Proof. revert k. induction n as [|n IH]; intros k; simpl; [reflexivity|]. f_equal. apply IH. Qed.

Theorem d_run_lin order a b u w h : length u = length w ->
  d_run K order (lin a b u w) h = lin a b (d_run K order u h) (d_run K order w h).
Proof.
  intros Hl. unfold d_run. rewrite lin_length by exact Hl. rewrite <- Hl.
  destruct (length u <? order + 1)%nat.
  - apply lin_zeros. exact Hl.
  - symmetry. etransitivity; [unfold lin; apply map2_map_iota|]. symmetry.
    apply map_ext. intros j.
    destruct order as [|[|o]]; [apply d2_at_lin | apply d1_at_lin | apply d2_at_lin]; exact Hl.
Qed.

Lemma lin_app a b u1 u2 w1 w2 : length u1 = length w1 ->
  lin a b (u1 ++ u2) (w1 ++ w2) = lin a b u1 w1 ++ lin a b u2 w2.
Proof.
  unfold lin. revert w1. induction u1 as [|x u1 IH]; intros [|y w1] Hl; simpl in *; try discriminate; try reflexivity.
  f_equal. apply IH. lia.
Qed.

Lemma sdc_aux_lin order h a b ru rw u w valid :
  length ru = length rw -> length u = length w -> length u = length valid ->
  sdc_aux K order h (lin a b ru rw) (lin a b u w) valid
  = lin a b (sdc_aux K order h ru u valid) (sdc_aux K order h rw w valid).
Proof.
  revert ru rw w valid. induction u as [|x u IH]; intros ru rw [|y w] [|v valid] Hr Hl Hv;
    simpl in *; try discriminate.
  - apply d_run_lin. exact Hr.
  - destruct v.
    + replace (lin a b ru rw ++ [a * x + b * y]) with (lin a b (ru ++ [x]) (rw ++ [y]))
        by (rewrite lin_app by exact Hr; reflexivity).
      apply IH; [rewrite !app_length; simpl; lia | lia | lia].
    + rewrite d_run_lin by exact Hr.
      rewrite lin_app by (rewrite !d_run_length; exact Hr).
      f_equal. unfold lin. simpl. f_equal; [ring|].
      exact (IH [] [] w valid eq_refl ltac:(lia) ltac:(lia)).
Qed.

(* the derivative of a line is linear in the values (validity fixed) *)
Theorem sdc_lin order h a b u w valid :
  length u = length w -> length u = length valid ->
  sdc K order h (lin a b u w) valid = lin a b (sdc K order h u valid) (sdc K order h w valid).
Proof.
  intros Hl Hv. unfold sdc. change (@nil K) with (lin a b [] []) at 1.
  apply sdc_aux_lin; [reflexivity | exact Hl | exact Hv].
Qed.

End Lin.
