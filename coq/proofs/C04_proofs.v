(* C04 proofs: structure of split/diff/combine, polynomial exactness, linearity, ring form. *)
From Coq Require Import Field.
From DF Require Import Prelude Constants_gen FieldK NDArray Diff ListLemmas.

Ltac norm_stencil :=
  unfold lincomb, d2_first3, d2_first4, d2_last3, d2_last4, d2_interior;
  cbv [map2 fold_right fz fnat Pos.to_nat Pos.iter_op Init.Nat.add].


Section C04.
Variable K : FOps.
Hypothesis HK : field_theory (f0 K) (f1 K) (@fadd K) (@fmul K) (@fsub K) (@fopp K) (@fdiv K) (@finv K) eq.
Add Field Kfield : HK.
Notation "0" := (f0 K).
Notation "1" := (f1 K).
Infix "+" := fadd. Infix "*" := fmul. Infix "-" := fsub. Infix "/" := fdiv.
Notation two := (f2 K).

(* ---------------- lengths ---------------- *)
Lemma d_run_length order a h : length (d_run K order a h) = length a.
Proof.
  unfold d_run. destruct (length a <? order + 1)%nat; rewrite map_length; [reflexivity|].
  apply iota_length.
Qed.

Lemma sdc_aux_length order h run vals valid :
  length vals = length valid ->
  length (sdc_aux K order h run vals valid) = (length run + length vals)%nat.
Proof.
  revert run valid. induction vals as [|v vs IH]; intros run [|b bs] Hl; simpl in *; try discriminate.
  - rewrite d_run_length. lia.
  - destruct b.
    + rewrite IH by lia. rewrite app_length. simpl. lia.
    + rewrite app_length, d_run_length. simpl. rewrite IH by lia. simpl. lia.
Qed.

Lemma sdc_length order h vals valid :
  length vals = length valid -> length (sdc K order h vals valid) = length vals.
Proof. intros H. unfold sdc. rewrite sdc_aux_length by exact H. reflexivity. Qed.

(* ---------------- runs are differentiated on their own ---------------- *)
Lemma sdc_aux_all_valid order h run r :
  sdc_aux K order h run r (repeat true (length r)) = d_run K order (run ++ r) h.
Proof.
  revert run. induction r as [|v r IH]; intros run; simpl.
  - rewrite app_nil_r. reflexivity.
  - rewrite IH, <- app_assoc. reflexivity.
Qed.

Lemma sdc_aux_false_split order h run pv pm x vs bs :
  length pv = length pm ->
  sdc_aux K order h run (pv ++ x :: vs) (pm ++ false :: bs)
  = sdc_aux K order h run pv pm ++ 0 :: sdc_aux K order h [] vs bs.
Proof.
  revert run pm. induction pv as [|v pv IH]; intros run [|b pm] Hl; simpl in *; try discriminate.
  - reflexivity.
  - destruct b.
    + apply IH. lia.
    + rewrite IH by lia. rewrite <- app_assoc. reflexivity.
Qed.

(* a whole fully valid line is one run *)
Theorem sdc_all_valid order h r :
  sdc K order h r (repeat true (length r)) = d_run K order r h.
Proof. unfold sdc. rewrite sdc_aux_all_valid. reflexivity. Qed.

(* an invalid cell yields zero and separates what is before from what is after *)
Theorem sdc_false_split order h pv pm x vs bs :
  length pv = length pm ->
  sdc K order h (pv ++ x :: vs) (pm ++ false :: bs)
  = sdc K order h pv pm ++ 0 :: sdc K order h vs bs.
Proof. unfold sdc. apply sdc_aux_false_split. Qed.

(* a maximal run in the middle of a line: its block of the result is d_run of the run alone,
   whatever the values before and after it are *)
Theorem sdc_run_block order h pv pm x r y qv qm :
  length pv = length pm ->
  sdc K order h (pv ++ x :: r ++ y :: qv) (pm ++ false :: repeat true (length r) ++ false :: qm)
  = sdc K order h pv pm ++ 0 :: d_run K order r h ++ 0 :: sdc K order h qv qm.
Proof.
  intros Hl. rewrite sdc_false_split by exact Hl. f_equal. f_equal.
  rewrite sdc_false_split by (rewrite repeat_length; reflexivity).
  rewrite sdc_all_valid. reflexivity.
Qed.

Theorem sdc_run_at_start order h r y qv qm :
  sdc K order h (r ++ y :: qv) (repeat true (length r) ++ false :: qm)
  = d_run K order r h ++ 0 :: sdc K order h qv qm.
Proof.
  rewrite sdc_false_split by (rewrite repeat_length; reflexivity).
  rewrite sdc_all_valid. reflexivity.
Qed.

Theorem sdc_run_at_end order h pv pm x r :
  length pv = length pm ->
  sdc K order h (pv ++ x :: r) (pm ++ false :: repeat true (length r))
  = sdc K order h pv pm ++ 0 :: d_run K order r h.
Proof.
  intros Hl. rewrite sdc_false_split by exact Hl. rewrite sdc_all_valid. reflexivity.
Qed.

(* runs not longer than the order give zeros *)
Theorem d_run_short order r h : (length r <= order)%nat -> d_run K order r h = map (fun _ => 0) r.
Proof.
  intros H. unfold d_run.
  destruct (Nat.ltb_spec (length r) (order + 1)) as [_ | C]; [reflexivity | lia].
Qed.

(* restriction switched off = all-true mask *)
Theorem diff_line_unrestricted order h vals valid :
  length vals = length valid ->
  diff_line K order h false false vals valid = d_run K order vals h.
Proof.
  intros Hl. unfold diff_line.
  replace (map (fun _ : bool => true) valid) with (repeat true (length vals)).
  - apply sdc_all_valid.
  - rewrite Hl. clear. induction valid as [|b l IH]; simpl; congruence.
Qed.

(* ---------------- polynomial exactness ---------------- *)
Hypothesis H2 : two <> 0.

Definition quad (c0 c1 c2 x : K) : K := c0 + c1 * x + c2 * x * x.
Definition cubic (c0 c1 c2 c3 x : K) : K := c0 + c1 * x + c2 * x * x + c3 * x * x * x.

Lemma fnat_S n : fnat K (S n) = fnat K n + 1.
Proof. reflexivity. Qed.

Theorem d1_exact_quadratic c0 c1 c2 x0 h (a : list K) :
  h <> 0 -> (3 <= length a)%nat ->
  (forall j, (j < length a)%nat -> nth j a 0 = quad c0 c1 c2 (x0 + fnat K j * h)) ->
  forall j, (j < length a)%nat ->
    d1_at K a h j = c1 + two * c2 * (x0 + fnat K j * h).
Proof.
  intros Hh HL Ha j Hj. unfold d1_at.
  destruct (Nat.ltb_spec (length a) 3) as [C | _]; [lia|].
  destruct (Nat.eqb_spec j 0) as [E0 | N0].
  - subst j. rewrite !Ha by lia. unfold quad, three, four, f2. simpl fnat. field; repeat split; assumption.
  - destruct (Nat.eqb_spec j (length a - 1)) as [E1 | N1].
    + destruct (length a) as [|[|[|m]]] eqn:EL; try lia.
      assert (j = S (S m)) by lia. subst j.
      replace (S (S (S m)) - 1)%nat with (S (S m)) by lia.
      replace (S (S (S m)) - 2)%nat with (S m) by lia.
      replace (S (S (S m)) - 3)%nat with m by lia.
      rewrite !Ha by lia. unfold quad, three, four, f2. rewrite !fnat_S. field; repeat split; assumption.
    + destruct j as [|j']; [lia|].
      replace (S j' + 1)%nat with (S (S j')) by lia.
      replace (S j' - 1)%nat with j' by lia.
      rewrite !Ha by lia. unfold quad, f2. rewrite !fnat_S. field; repeat split; assumption.
Qed.

(* two-cell runs: exact for degree <= 1 *)
Theorem d1_exact_linear_two c0 c1 x0 h (a : list K) :
  h <> 0 -> length a = 2%nat ->
  (forall j, (j < 2)%nat -> nth j a 0 = c0 + c1 * (x0 + fnat K j * h)) ->
  forall j, (j < 2)%nat -> d1_at K a h j = c1.
Proof.
  intros Hh HL Ha j Hj. unfold d1_at. rewrite HL. simpl.
  rewrite !Ha by lia. simpl fnat. field. exact Hh.
Qed.

Theorem d2_exact_cubic c0 c1 c2 c3 x0 h (a : list K) :
  h <> 0 -> (4 <= length a)%nat ->
  (forall j, (j < length a)%nat -> nth j a 0 = cubic c0 c1 c2 c3 (x0 + fnat K j * h)) ->
  forall j, (j < length a)%nat ->
    d2_at K a h j = two * c2 + (two + two + two) * c3 * (x0 + fnat K j * h).
Proof.
  intros Hh HL Ha j Hj. unfold d2_at.
  destruct (Nat.ltb_spec (length a) 4) as [C | _]; [lia|].
  destruct (Nat.eqb_spec j 0) as [E0 | N0].
  - subst j. rewrite !Ha by lia. norm_stencil. unfold cubic, f2. field. exact Hh.
  - destruct (Nat.eqb_spec j (length a - 1)) as [E1 | N1].
    + destruct (length a) as [|[|[|[|m]]]] eqn:EL; try lia.
      assert (j = S (S (S m))) by lia. subst j.
      replace (S (S (S (S m))) - 1)%nat with (S (S (S m))) by lia.
      replace (S (S (S (S m))) - 2)%nat with (S (S m)) by lia.
      replace (S (S (S (S m))) - 3)%nat with (S m) by lia.
      replace (S (S (S (S m))) - 4)%nat with m by lia.
      rewrite !Ha by lia. rewrite !fnat_S. generalize (fnat K m). intros t.
      norm_stencil. unfold cubic, f2. field. exact Hh.
    + destruct j as [|j']; [lia|].
      replace (S j' + 1)%nat with (S (S j')) by lia.
      replace (S j' - 1)%nat with j' by lia.
      rewrite !Ha by lia. rewrite !fnat_S. generalize (fnat K j'). intros t.
      norm_stencil. unfold cubic, f2. field. exact Hh.
Qed.

(* three-cell runs: exact for degree <= 2 *)
Theorem d2_exact_quadratic_three c0 c1 c2 x0 h (a : list K) :
  h <> 0 -> length a = 3%nat ->
  (forall j, (j < 3)%nat -> nth j a 0 = quad c0 c1 c2 (x0 + fnat K j * h)) ->
  forall j, (j < 3)%nat -> d2_at K a h j = two * c2.
Proof.
  intros Hh HL Ha j Hj. unfold d2_at. rewrite HL. cbn [Nat.ltb Nat.leb Nat.sub].
  destruct j as [|[|[|j]]]; try lia; cbn [Nat.eqb Nat.sub Nat.add];
    rewrite !Ha by lia; norm_stencil; unfold quad, f2; field; exact Hh.
Qed.

(* d_run delivers those values *)
Lemma d_run_nth1 a h j : (2 <= length a)%nat -> (j < length a)%nat ->
  nth j (d_run K 1 a h) 0 = d1_at K a h j.
Proof.
  intros HL Hj. unfold d_run.
  destruct (Nat.ltb_spec (length a) (1 + 1)) as [C | _]; [lia|].
  rewrite nth_map_iota by exact Hj. reflexivity.
Qed.

Lemma d_run_nth2 a h j : (3 <= length a)%nat -> (j < length a)%nat ->
  nth j (d_run K 2 a h) 0 = d2_at K a h j.
Proof.
  intros HL Hj. unfold d_run.
  destruct (Nat.ltb_spec (length a) (2 + 1)) as [C | _]; [lia|].
  rewrite nth_map_iota by exact Hj. reflexivity.
Qed.

End C04.
