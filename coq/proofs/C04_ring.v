(* C04: periodic direction, fully valid ring = centred difference with wrap-around. *)
From Coq Require Import Field.
From DF Require Import Prelude Constants_gen FieldK NDArray Diff ListLemmas C04_proofs.

Lemma last_nth_len {A} (l : list A) d : last l d = nth (length l - 1) l d.
Proof.
  induction l as [|x l IH]; [reflexivity|]. destruct l as [|y l]; [reflexivity|].
  change (last (x :: y :: l) d) with (last (y :: l) d). rewrite IH. simpl. rewrite Nat.sub_0_r. reflexivity.
Qed.

Lemma wrap1_length {A} (d : A) l : l <> [] -> length (wrap1 d l) = (length l + 2)%nat.
Proof. destruct l as [|x l]; [congruence|]. intros _. simpl. rewrite app_length. simpl. lia. Qed.

Lemma nth_wrap1 {A} (d : A) l k : l <> [] -> (k < length l + 2)%nat ->
  nth k (wrap1 d l) d = nth ((k + length l - 1) mod length l) l d.
Proof.
  intros Hne Hk. destruct l as [|x t]; [congruence|].
  change (wrap1 d (x :: t)) with (last (x :: t) d :: (x :: t) ++ [x]).
  assert (H0 : nth 0 (x :: t) d = x) by reflexivity.
  assert (Hn : (0 < length (x :: t))%nat) by (simpl; lia).
  remember (x :: t) as l eqn:El. clear El Hne.
  set (n := length l) in *.
  destruct k as [|k].
  - simpl. rewrite last_nth_len. fold n. rewrite Nat.mod_small by lia. f_equal; lia.
  - cbn [nth]. destruct (Nat.lt_ge_cases k n) as [Hlt | Hge].
    + rewrite app_nth1 by (fold n; exact Hlt).
      replace (S k + n - 1)%nat with (k + 1 * n)%nat by lia.
      rewrite Nat.mod_add by lia. rewrite Nat.mod_small by exact Hlt. reflexivity.
    + assert (k = n) by lia. subst k.
      rewrite app_nth2 by (fold n; lia). fold n. rewrite Nat.sub_diag. cbn [nth].
      replace (S n + n - 1)%nat with (0 + 2 * n)%nat by lia.
      rewrite Nat.mod_add by lia. rewrite Nat.mod_small by lia. exact (eq_sym H0).
Qed.

Lemma nth_removelast {A} (l : list A) j d : (S j < length l)%nat -> nth j (removelast l) d = nth j l d.
Proof.
  revert j. induction l as [|x l IH]; intros j Hj; simpl in *; [lia|].
  destruct l as [|y l]; [simpl in *; lia|].
  destruct j as [|j]; [reflexivity|]. apply IH. simpl in *. lia.
Qed.

Lemma nth_crop1 {A} (l : list A) j d : (j + 2 < length l)%nat -> nth j (crop1 l) d = nth (S j) l d.
Proof.
  intros Hj. unfold crop1. destruct l as [|x l]; [simpl in *; lia|]. simpl tl.
  rewrite nth_removelast by (simpl in Hj; lia). reflexivity.
Qed.

Lemma wrap1_repeat_true n : (0 < n)%nat -> wrap1 true (repeat true n) = repeat true (n + 2).
Proof.
  intros Hn. destruct n as [|n]; [lia|]. unfold wrap1.
  change (repeat true (S n)) with (true :: repeat true n) at 1.
  assert (L : last (repeat true (S n)) true = true).
  { clear. induction n as [|n IH]; [reflexivity|]. exact IH. }
  rewrite L. simpl hd.
  replace (S n + 2)%nat with (S (S n + 1)) by lia. simpl. f_equal. f_equal.
  clear. induction n as [|n IH]; simpl; [reflexivity|]. f_equal. exact IH.
Qed.

Section Ring.
Variable K : FOps.
Hypothesis HK : field_theory (f0 K) (f1 K) (@fadd K) (@fmul K) (@fsub K) (@fopp K) (@fdiv K) (@finv K) eq.
Add Field Kfield3 : HK.
Notation "0" := (f0 K).
Notation "1" := (f1 K).
Infix "+" := fadd. Infix "*" := fmul. Infix "-" := fsub. Infix "/" := fdiv.
Notation two := (f2 K).

Lemma ring_reduce order h u : u <> [] ->
  diff_line K order h true true u (repeat true (length u))
  = crop1 (d_run K order (wrap1 0 u) h).
Proof.
  intros Hne. unfold diff_line.
  assert (Hn : (0 < length u)%nat) by (destruct u; [congruence | simpl; lia]).
  rewrite wrap1_repeat_true by exact Hn.
  rewrite <- (wrap1_length 0 u Hne). rewrite sdc_all_valid. reflexivity.
Qed.

Theorem ring_first_derivative h u j : (j < length u)%nat ->
  nth j (diff_line K 1 h true true u (repeat true (length u))) 0
  = (nth ((j + 1) mod length u) u 0 - nth ((j + length u - 1) mod length u) u 0) / (two * h).
Proof.
  intros Hj. assert (Hne : u <> []) by (destruct u; [simpl in Hj; lia | congruence]).
  set (n := length u) in *. rewrite ring_reduce by exact Hne.
  pose proof (wrap1_length 0 u Hne) as HL. fold n in HL.
  rewrite nth_crop1 by (rewrite d_run_length, HL; lia).
  rewrite d_run_nth1 by (rewrite HL; lia).
  unfold d1_at. rewrite HL.
  destruct (Nat.ltb_spec (n + 2) 3) as [C | _]; [lia|].
  destruct (Nat.eqb_spec (S j) 0) as [C | _]; [lia|].
  destruct (Nat.eqb_spec (S j) (n + 2 - 1)) as [C | _]; [lia|].
  rewrite !nth_wrap1 by (fold n; lia || exact Hne). fold n.
  replace (S j + 1 + n - 1)%nat with ((j + 1) + 1 * n)%nat by lia.
  rewrite Nat.mod_add by lia.
  replace (S j - 1 + n - 1)%nat with (j + n - 1)%nat by lia.
  reflexivity.
Qed.

Theorem ring_second_derivative h u j : (j < length u)%nat ->
  nth j (diff_line K 2 h true true u (repeat true (length u))) 0
  = (nth ((j + length u - 1) mod length u) u 0 - two * nth j u 0 + nth ((j + 1) mod length u) u 0) / (h * h).
Proof.
  intros Hj. assert (Hne : u <> []) by (destruct u; [simpl in Hj; lia | congruence]).
  set (n := length u) in *. rewrite ring_reduce by exact Hne.
  pose proof (wrap1_length 0 u Hne) as HL. fold n in HL.
  rewrite nth_crop1 by (rewrite d_run_length, HL; lia).
  rewrite d_run_nth2 by (rewrite HL; lia).
  unfold d2_at. rewrite HL.
  assert (W : forall k, (k < n + 2)%nat -> nth k (wrap1 0 u) 0 = nth ((k + n - 1) mod n) u 0).
  { intros k Hk. apply nth_wrap1; [exact Hne | fold n; exact Hk]. }
  assert (Ej : nth (S j) (wrap1 0 u) 0 = nth j u 0).
  { rewrite W by lia. replace (S j + n - 1)%nat with (j + 1 * n)%nat by lia.
    rewrite Nat.mod_add by lia. rewrite Nat.mod_small by exact Hj. reflexivity. }
  assert (Ep : nth (S j + 1) (wrap1 0 u) 0 = nth ((j + 1) mod n) u 0).
  { rewrite W by lia. replace (S j + 1 + n - 1)%nat with ((j + 1) + 1 * n)%nat by lia.
    rewrite Nat.mod_add by lia. reflexivity. }
  assert (Em : nth (S j - 1) (wrap1 0 u) 0 = nth ((j + n - 1) mod n) u 0).
  { rewrite W by lia. replace (S j - 1 + n - 1)%nat with (j + n - 1)%nat by lia. reflexivity. }
  assert (Einterior : forall a b c : K, lincomb K d2_interior [a; b; c] = a - two * b + c).
  { intros a b c. norm_stencil. unfold f2. ring. }
  destruct (Nat.ltb_spec (n + 2) 4) as [C | _].
  - (* single-cell ring: three-point run, the cell is its interior point *)
    destruct (Nat.eqb_spec (S j) 0) as [C0 | _]; [lia|].
    destruct (Nat.eqb_spec (S j) (n + 2 - 1)) as [C1 | _]; [lia|].
    rewrite Ej, Ep, Em. rewrite Einterior. reflexivity.
  - destruct (Nat.eqb_spec (S j) 0) as [C0 | _]; [lia|].
    destruct (Nat.eqb_spec (S j) (n + 2 - 1)) as [C1 | _]; [lia|].
    rewrite Ej, Ep, Em. rewrite Einterior. reflexivity.
Qed.

End Ring.
