(* C04: in a periodic direction the fully valid line is a ring -- the derivative commutes with
   every cyclic shift (corollary of the wrap-around formulas of C04_ring). *)
From Coq Require Import Field.
From DF Require Import Prelude FieldK NDArray Diff ListLemmas C04_proofs C04_ring C04_witness.

Lemma roll_length {A} k (l : list A) : length (roll k l) = length l.
Proof.
  unfold roll. rewrite app_length, skipn_length, firstn_length. lia.
Qed.

Lemma nth_skipn' {A} s (l : list A) j d : nth j (skipn s l) d = nth (s + j) l d.
Proof.
  revert l. induction s as [|s IH]; intros l; [reflexivity|].
  destruct l as [|x l]; [destruct j; reflexivity|]. simpl. apply IH.
Qed.

Lemma nth_firstn' {A} s (l : list A) j d : (j < s)%nat -> nth j (firstn s l) d = nth j l d.
Proof.
  revert l j. induction s as [|s IH]; intros l j Hj; [lia|].
  destruct l as [|x l]; [reflexivity|]. destruct j as [|j]; [reflexivity|]. simpl. apply IH. lia.
Qed.

(* numpy.roll(l, k)[j] = l[(j - k) mod n], written with the non-negative offset n - k mod n *)
Lemma nth_roll {A} k (l : list A) j d : (j < length l)%nat ->
  nth j (roll k l) d = nth ((j + (length l - k mod length l)) mod length l) l d.
Proof.
  intros Hj. unfold roll. set (n := length l) in *.
  assert (Hn : (0 < n)%nat) by lia.
  pose proof (Nat.mod_upper_bound k n ltac:(lia)) as Hk.
  set (s := (n - k mod n)%nat) in *.
  assert (Hs : (1 <= s <= n)%nat) by (unfold s; lia).
  destruct (Nat.lt_ge_cases j (n - s)) as [C | C].
  - rewrite app_nth1 by (rewrite skipn_length; fold n; lia).
    rewrite nth_skipn'. rewrite Nat.mod_small by lia. f_equal. lia.
  - rewrite app_nth2 by (rewrite skipn_length; fold n; lia).
    rewrite skipn_length. fold n.
    rewrite nth_firstn' by lia.
    replace (j + s)%nat with ((j - (n - s)) + 1 * n)%nat by lia.
    rewrite Nat.mod_add by lia. rewrite Nat.mod_small by lia. reflexivity.
Qed.

Lemma crop1_length {A} (l : list A) : length (crop1 l) = (length l - 2)%nat.
Proof.
  unfold crop1. destruct l as [|x l]; [reflexivity|]. simpl tl.
  destruct l as [|y l]; [reflexivity|].
  assert (H : forall (m : list A), m <> [] -> length (removelast m) = (length m - 1)%nat).
  { intros m Hm. destruct (exists_last Hm) as [m' [z E]]. subst m.
    rewrite removelast_app by discriminate. simpl. rewrite app_nil_r, app_length. simpl. lia. }
  rewrite H by discriminate. simpl. lia.
Qed.

Section Shift.
Variable K : FOps.
Hypothesis HK : field_theory (f0 K) (f1 K) (@fadd K) (@fmul K) (@fsub K) (@fopp K) (@fdiv K) (@finv K) eq.

Lemma ring_line_length order h (u : list K) :
  length (diff_line K order h true true u (repeat true (length u))) = length u.
Proof.
  destruct u as [|x u].
  { unfold diff_line. simpl wrap1. rewrite crop1_length, sdc_length by reflexivity. reflexivity. }
  rewrite ring_reduce by discriminate.
  rewrite crop1_length, d_run_length, wrap1_length by discriminate. lia.
Qed.

Lemma mod_shift_succ j s n : (0 < n)%nat -> (((j + 1) mod n + s) mod n = ((j + s) mod n + 1) mod n)%nat.
Proof.
  intros Hn. rewrite Nat.add_mod_idemp_l by lia. rewrite Nat.add_mod_idemp_l by lia.
  f_equal. lia.
Qed.

Lemma mod_shift_pred j s n : (0 < n)%nat ->
  (((j + n - 1) mod n + s) mod n = ((j + s) mod n + n - 1) mod n)%nat.
Proof.
  intros Hn. rewrite Nat.add_mod_idemp_l by lia.
  replace ((j + s) mod n + n - 1)%nat with ((j + s) mod n + (n - 1))%nat by lia.
  rewrite Nat.add_mod_idemp_l by lia. f_equal. lia.
Qed.

Theorem ring_shift_commutes order h (u : list K) k : (order = 1 \/ order = 2)%nat ->
  diff_line K order h true true (roll k u) (repeat true (length (roll k u)))
  = roll k (diff_line K order h true true u (repeat true (length u))).
Proof.
  intros Ho. apply (nth_ext _ _ (f0 K) (f0 K)).
  - rewrite ring_line_length, !roll_length, ring_line_length. reflexivity.
  - intros j Hj. rewrite ring_line_length, roll_length in Hj.
    set (n := length u) in *. assert (Hn : (0 < n)%nat) by lia.
    rewrite nth_roll by (rewrite ring_line_length; exact Hj).
    rewrite ring_line_length. fold n.
    set (s := (n - k mod n)%nat).
    assert (Hjs : ((j + s) mod n < n)%nat) by (apply Nat.mod_upper_bound; lia).
    destruct Ho as [-> | ->].
    + rewrite ring_first_derivative by (rewrite roll_length; exact Hj).
      rewrite ring_first_derivative by exact Hjs.
      rewrite roll_length. fold n.
      rewrite !nth_roll by (apply Nat.mod_upper_bound; fold n; lia). fold n. fold s.
      rewrite mod_shift_succ, mod_shift_pred by exact Hn. reflexivity.
    + rewrite (ring_second_derivative K HK) by (rewrite roll_length; exact Hj).
      rewrite (ring_second_derivative K HK) by exact Hjs.
      rewrite roll_length. fold n.
      rewrite !nth_roll by (try apply Nat.mod_upper_bound; fold n; lia). fold n. fold s.
      rewrite mod_shift_succ, mod_shift_pred by exact Hn. reflexivity.
Qed.

End Shift.
