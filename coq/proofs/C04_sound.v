(* C04: soundness of check_C04 — an accepted case certifies that the observed Field.diff array is
   the model's diff_nd on the observed values / validity, cell by cell. *)
From Coq Require Import Qcanon.
From DF Require Import Prelude FieldK NDArray Diff ListLemmas CheckSound Check_C04.

Lemma check_diff_sound sh nvdim ax order h periodic restrict vals valid obs :
  check_C04 (CDiff sh nvdim ax order h periodic restrict vals valid obs) = true ->
  length vals = nprod (sh ++ [nvdim]) /\ length valid = nprod sh /\
  qcl obs = to_list (sh ++ [nvdim])
              (diff_nd QcOps sh nvdim ax order (qc h) periodic restrict
                 (of_list (f0 QcOps) (sh ++ [nvdim]) (qcl vals)) (of_list true sh valid)).
Proof.
  simpl. intro H.
  apply andb_true_iff in H. destruct H as [H H3].
  apply andb_true_iff in H. destruct H as [H1 H2].
  split; [apply Nat.eqb_eq; exact H1|]. split; [apply Nat.eqb_eq; exact H2|].
  symmetry. apply qclist_eqb_sound. exact H3.
Qed.

From DF Require Import C08_arrays.
(* transfer: the observed derivative at the cell (and component) with multi-index i is the model's
   line derivative there — restriction to the run of valid cells included *)
Theorem accepted_diff_cell sh nvdim ax order h periodic restrict vals valid obs i :
  check_C04 (CDiff sh nvdim ax order h periodic restrict vals valid obs) = true ->
  inb (sh ++ [nvdim]) i = true ->
  nth (ravel (sh ++ [nvdim]) i) (qcl obs) 0%Qc
  = nth (nth ax i 0%nat)
        (diff_line QcOps order (qc h) periodic restrict
           (line (sh ++ [nvdim]) (of_list (f0 QcOps) (sh ++ [nvdim]) (qcl vals)) ax i)
           (line sh (of_list true sh valid) ax (removelast i)))
        0%Qc.
Proof.
  intros H Hi. apply check_diff_sound in H. destruct H as (_ & _ & ->).
  rewrite nth_to_list by exact Hi. reflexivity.
Qed.

Example accepted_diff_instance :
  check_C04 (CDiff [4]%nat 1 0 1 1 false true [0;1;4;9]%Q [true;true;true;true] [0;2;4;6]%Q) = true.
Proof. vm_compute. reflexivity. Qed.
