(* C04: soundness of check_C04 — an accepted case certifies that the observed Field.diff array is
   the model's diff_nd on the observed values / validity, cell by cell. *)
From Coq Require Import Qcanon.
From DF Require Import Prelude FieldK NDArray Diff ListLemmas CheckSound Check_C04.

Lemma check_diff_sound sh nvdim ax order h periodic restrict vals valid obs :
  check_C04 (CDiff sh nvdim ax order h periodic restrict vals valid obs) = true ->
  length vals = nprod (sh ++ [nvdim]) /\ length valid = nprod sh /\
  qcl obs = to_list (sh ++ [nvdim])
              (diff_nd QcOps sh nvdim ax order (qc h) periodic restrict
                 (of_list (f0 QcOps) (sh ++ [nvdim]) (qcl vals)) (of_list true sh valid)).
Proof.
  simpl. intro H.
  apply andb_true_iff in H. destruct H as [H H3].
  apply andb_true_iff in H. destruct H as [H1 H2].
  split; [apply Nat.eqb_eq; exact H1|]. split; [apply Nat.eqb_eq; exact H2|].
  symmetry. apply qclist_eqb_sound. exact H3.
Qed.

From DF Require Import C08_arrays.
(* transfer: the observed derivative at the cell (and component) with multi-index i is the model's
   line derivative there — restriction to the run of valid cells included *)
Theorem accepted_diff_cell sh nvdim ax order h periodic restrict vals valid obs i :
  check_C04 (CDiff sh nvdim ax order h periodic restrict vals valid obs) = true ->
  inb (sh ++ [nvdim]) i = true ->
  nth (ravel (sh ++ [nvdim]) i) (qcl obs) 0%Qc
  = nth (nth ax i 0%nat)
        (diff_line QcOps order (qc h) periodic restrict
           (line (sh ++ [nvdim]) (of_list (f0 QcOps) (sh ++ [nvdim]) (qcl vals)) ax i)
           (line sh (of_list true sh valid) ax (removelast i)))
        0%Qc.
Proof.
  intros H Hi. apply check_diff_sound in H. destruct H as (_ & _ & ->).
  rewrite nth_to_list by exact Hi. reflexivity.
Qed.

Example accepted_diff_instance :
  check_C04 (CDiff [4]%nat 1 0 1 1 false true [0;1;4;9]%Q [true;true;true;true] [0;2;4;6]%Q) = true.
Proof. vm_compute. reflexivity. Qed.

From DF Require Import C04_proofs C08_maps.
(* transfer of the exactness theorem: on an open direction with the validity restriction switched
   off, if the recorded grid line through cell i samples a quadratic, the OBSERVED first derivative
   at that cell is the exact derivative of that quadratic at the cell's position *)
Theorem accepted_quadratic_exact sh nvdim ax h vals valid obs i c0 c1 c2 x0
        (ln := line (sh ++ [nvdim]) (of_list (f0 QcOps) (sh ++ [nvdim]) (qcl vals)) ax i) :
  check_C04 (CDiff sh nvdim ax 1 h false false vals valid obs) = true ->
  inb (sh ++ [nvdim]) i = true -> (ax < length sh)%nat -> (3 <= nth ax sh 0)%nat ->
  qc h <> 0%Qc ->
  (forall j, (j < nth ax sh 0)%nat ->
     nth j ln 0%Qc = quad QcOps c0 c1 c2 (x0 + fnat QcOps j * qc h)%Qc) ->
  nth (ravel (sh ++ [nvdim]) i) (qcl obs) 0%Qc
  = (c1 + (f2 QcOps * c2) * (x0 + fnat QcOps (nth ax i 0%nat) * qc h))%Qc.
Proof.
  intros H Hi Hax H3 Hh Hq.
  rewrite (accepted_diff_cell _ _ _ _ _ _ _ _ _ _ i H Hi). fold ln.
  assert (Lsh : nth ax (sh ++ [nvdim]) 0%nat = nth ax sh 0%nat) by (apply app_nth1; exact Hax).
  assert (Lln : length ln = nth ax sh 0%nat).
  { unfold ln, line. rewrite map_length, iota_length. exact Lsh. }
  assert (Lv : length (line sh (of_list true sh valid) ax (removelast i)) = nth ax sh 0%nat).
  { unfold line. rewrite map_length, iota_length. reflexivity. }
  assert (Hj : (nth ax i 0 < nth ax sh 0)%nat).
  { rewrite <- Lsh. apply inb_nth; [exact Hi | rewrite app_length; simpl; lia]. }
  rewrite (diff_line_unrestricted QcOps 1 (qc h) ln _) by congruence.
  change (Q2Qc 0) with (f0 QcOps).
  rewrite (d_run_nth1 QcOps ln (qc h) (nth ax i 0%nat)) by lia.
  assert (F2 : f2 QcOps <> f0 QcOps) by (vm_compute; discriminate).
  apply (d1_exact_quadratic QcOps QcLaws F2 c0 c1 c2 x0 (qc h) ln Hh); try lia.
  intros j Hjl. apply Hq. lia.
Qed.

Example accepted_quadratic_instance :
  check_C04 (CDiff [4]%nat 1 0 1 1 false false [0;1;4;9]%Q [true;false;true;true] [0;2;4;6]%Q) = true.
Proof. vm_compute. reflexivity. Qed.

(* the same for second derivatives: a recorded line sampling a cubic (length >= 4) gives, on the
   OBSERVED array, the exact second derivative 2 c2 + 6 c3 x at the cell's position *)
Theorem accepted_cubic_exact sh nvdim ax h vals valid obs i c0 c1 c2 c3 x0
        (ln := line (sh ++ [nvdim]) (of_list (f0 QcOps) (sh ++ [nvdim]) (qcl vals)) ax i) :
  check_C04 (CDiff sh nvdim ax 2 h false false vals valid obs) = true ->
  inb (sh ++ [nvdim]) i = true -> (ax < length sh)%nat -> (4 <= nth ax sh 0)%nat ->
  qc h <> 0%Qc ->
  (forall j, (j < nth ax sh 0)%nat ->
     nth j ln 0%Qc = cubic QcOps c0 c1 c2 c3 (x0 + fnat QcOps j * qc h)%Qc) ->
  nth (ravel (sh ++ [nvdim]) i) (qcl obs) 0%Qc
  = (f2 QcOps * c2 + ((f2 QcOps + f2 QcOps + f2 QcOps) * c3) * (x0 + fnat QcOps (nth ax i 0%nat) * qc h))%Qc.
Proof.
  intros H Hi Hax H4 Hh Hq.
  rewrite (accepted_diff_cell _ _ _ _ _ _ _ _ _ _ i H Hi). fold ln.
  assert (Lsh : nth ax (sh ++ [nvdim]) 0%nat = nth ax sh 0%nat) by (apply app_nth1; exact Hax).
  assert (Lln : length ln = nth ax sh 0%nat).
  { unfold ln, line. rewrite map_length, iota_length. exact Lsh. }
  assert (Lv : length (line sh (of_list true sh valid) ax (removelast i)) = nth ax sh 0%nat).
  { unfold line. rewrite map_length, iota_length. reflexivity. }
  assert (Hj : (nth ax i 0 < nth ax sh 0)%nat).
  { rewrite <- Lsh. apply inb_nth; [exact Hi | rewrite app_length; simpl; lia]. }
  rewrite (diff_line_unrestricted QcOps 2 (qc h) ln _) by congruence.
  change (Q2Qc 0) with (f0 QcOps).
  rewrite (d_run_nth2 QcOps ln (qc h) (nth ax i 0%nat)) by lia.
  apply (d2_exact_cubic QcOps QcLaws c0 c1 c2 c3 x0 (qc h) ln Hh); try lia.
  intros j Hjl. apply Hq. lia.
Qed.

Example accepted_cubic_instance :
  check_C04 (CDiff [5]%nat 1 0 2 1 false false [0;1;8;27;64]%Q [true;true;true;true;true] [0;6;12;18;24]%Q) = true.
Proof. vm_compute. reflexivity. Qed.

(* invalid cells: with the restriction on (open direction) the OBSERVED derivative at a cell whose
   recorded validity flag is False is exactly zero *)
Lemma split_at {A} (l : list A) j d : (j < length l)%nat ->
  l = firstn j l ++ nth j l d :: skipn (S j) l.
Proof.
  revert j; induction l as [|x l IH]; intros [|j] Hj; simpl in *; try lia; [reflexivity|].
  f_equal. apply IH. lia.
Qed.

Lemma sdc_invalid_zero order (h : Qc) (vals : list Qc) (valid : list bool) j :
  length vals = length valid -> (j < length vals)%nat -> nth j valid true = false ->
  nth j (sdc QcOps order h vals valid) (f0 QcOps) = f0 QcOps.
Proof.
  intros Hl Hj Hv.
  rewrite (split_at vals j (f0 QcOps) Hj) at 1.
  rewrite (split_at valid j true ltac:(lia)) at 1. rewrite Hv.
  assert (Lf : length (firstn j vals) = length (firstn j valid)).
  { rewrite !firstn_length. lia. }
  rewrite (sdc_false_split QcOps order h _ _ _ _ _ Lf).
  rewrite app_nth2; rewrite (sdc_length QcOps order h _ _ Lf), firstn_length, Nat.min_l by lia; [|lia].
  rewrite Nat.sub_diag. reflexivity.
Qed.

Theorem accepted_invalid_zero sh nvdim ax order h vals valid obs i :
  check_C04 (CDiff sh nvdim ax order h false true vals valid obs) = true ->
  inb (sh ++ [nvdim]) i = true -> (ax < length sh)%nat ->
  nth (nth ax i 0%nat) (line sh (of_list true sh valid) ax (removelast i)) true = false ->
  nth (ravel (sh ++ [nvdim]) i) (qcl obs) 0%Qc = 0%Qc.
Proof.
  intros H Hi Hax Hv.
  rewrite (accepted_diff_cell _ _ _ _ _ _ _ _ _ _ i H Hi).
  assert (Lsh : nth ax (sh ++ [nvdim]) 0%nat = nth ax sh 0%nat) by (apply app_nth1; exact Hax).
  assert (Hj : (nth ax i 0 < nth ax sh 0)%nat).
  { rewrite <- Lsh. apply inb_nth; [exact Hi | rewrite app_length; simpl; lia]. }
  unfold diff_line. cbv iota.
  change (Q2Qc 0) with (f0 QcOps).
  apply sdc_invalid_zero; [| |exact Hv]; unfold line; rewrite ?map_length, ?iota_length; lia.
Qed.

Example accepted_invalid_zero_instance :
  check_C04 (CDiff [4]%nat 1 0 1 1 false true [0;1;4;9]%Q [true;false;true;true] [0;0;5;5]%Q) = true.
Proof. vm_compute. reflexivity. Qed.
