(* C04: every derivative of a uniform line vanishes, for all masks and run lengths
   (the stencil coefficient sums are zero — proved against the source-derived tuples). *)
From Coq Require Import Field.
From DF Require Import Prelude Constants_gen FieldK NDArray Diff ListLemmas C04_proofs C04_linear.

Section Uniform.
Variable K : FOps.
Hypothesis HK : field_theory (f0 K) (f1 K) (@fadd K) (@fmul K) (@fsub K) (@fopp K) (@fdiv K) (@finv K) eq.
Add Field Kfield4u : HK.
Notation "0" := (f0 K).
Infix "+" := fadd. Infix "*" := fmul. Infix "-" := fsub. Infix "/" := fdiv.

Definition all_eq (c : K) (a : list K) : Prop := forall x, In x a -> x = c.

Lemma all_eq_nth c a j : all_eq c a -> (j < length a)%nat -> nth j a 0 = c.
Proof. intros H Hj. apply H. apply nth_In. exact Hj. Qed.

Lemma d1_at_const c a h j : all_eq c a -> (2 <= length a)%nat -> (j < length a)%nat -> d1_at K a h j = 0.
Proof.
  intros Hc HL Hj. unfold d1_at.
  destruct (Nat.ltb_spec (length a) 3) as [C | C].
  - rewrite !(all_eq_nth c) by (assumption || lia). rewrite (fdiv_def K HK). ring.
  - destruct (Nat.eqb_spec j 0) as [E | E];
      [|destruct (Nat.eqb_spec j (length a - 1)) as [E1 | E1]];
      rewrite !(all_eq_nth c) by (assumption || lia);
      unfold three, four, f2; rewrite (fdiv_def K HK); ring.
Qed.

Lemma d2_at_const c a h j : all_eq c a -> (3 <= length a)%nat -> (j < length a)%nat -> d2_at K a h j = 0.
Proof.
  intros Hc HL Hj. unfold d2_at.
  destruct (Nat.ltb_spec (length a) 4) as [C | C];
    destruct (Nat.eqb_spec j 0) as [E | E];
    try destruct (Nat.eqb_spec j (length a - 1)) as [E1 | E1];
    rewrite !(all_eq_nth c) by (assumption || lia);
    norm_stencil; rewrite (fdiv_def K HK); ring.
Qed.

Theorem d_run_const order c a h : (order = 1 \/ order = 2)%nat -> all_eq c a ->
  d_run K order a h = map (fun _ => 0) a.
Proof.
  intros Ho Hc. unfold d_run.
  destruct (Nat.ltb_spec (length a) (order + 1)) as [C | C]; [reflexivity|].
  apply (nth_ext _ _ 0 0); [rewrite !map_length, iota_length; reflexivity|].
  intros j Hj. rewrite map_length, iota_length in Hj.
  rewrite nth_map_iota by exact Hj.
  rewrite map_const_nth.
  destruct Ho as [E | E]; subst order; [apply (d1_at_const c) | apply (d2_at_const c)]; (assumption || lia).
Qed.

Lemma sdc_aux_const order c h run vals valid : (order = 1 \/ order = 2)%nat ->
  all_eq c run -> all_eq c vals -> length vals = length valid ->
  sdc_aux K order h run vals valid = map (fun _ => 0) (run ++ vals).
Proof.
  intros Ho. revert run valid. induction vals as [|v vs IH]; intros run [|b bs] Hr Hv Hl; simpl in *; try discriminate.
  - rewrite app_nil_r. apply (d_run_const order c); assumption.
  - assert (Hvs : all_eq c vs) by (intros x Hx; apply Hv; right; exact Hx).
    assert (Ev : v = c) by (apply Hv; left; reflexivity).
    destruct b.
    + rewrite IH; [rewrite <- app_assoc; reflexivity | | exact Hvs | lia].
      intros x Hx. apply in_app_or in Hx. destruct Hx as [Hx | [Hx | []]]; [apply Hr; exact Hx | congruence].
    + rewrite (d_run_const order c) by assumption.
      rewrite (IH [] bs) by (try assumption; try lia; intros x []).
      rewrite !map_app. reflexivity.
Qed.

(* a uniform line has zero derivative in every cell, whatever the validity pattern *)
Theorem sdc_const order c h vals valid : (order = 1 \/ order = 2)%nat ->
  all_eq c vals -> length vals = length valid ->
  sdc K order h vals valid = map (fun _ => 0) vals.
Proof.
  intros Ho Hc Hl. unfold sdc. rewrite (sdc_aux_const order c) by (try assumption; intros x []). reflexivity.
Qed.

End Uniform.
