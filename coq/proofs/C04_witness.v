(* C04: witnesses (non-vacuity examples, refutation of the masked-ring statement), R instance. *)
From Coq Require Import Qcanon Reals.
From DF Require Import Prelude FieldK NDArray Diff ListLemmas C04_proofs C04_linear C04_ring.

Definition roll {A} (k : nat) (l : list A) : list A :=
  skipn (length l - k mod length l) l ++ firstn (length l - k mod length l) l.

Definition masked_u : list Qc := qcl [0; 1; 4; 9; 16; 25; 36]%Q.
Definition masked_v : list bool := [true; true; true; false; true; true; true].

(* with invalid cells a periodic line is NOT treated as a ring: the result depends on the seam *)
Lemma masked_ring_not_shift_invariant :
  exists (u : list Qc) (v : list bool) (k : nat),
    length u = length v /\
    qclist_eqb (diff_line QcOps 1 (qc 1) true true (roll k u) (roll k v))
               (roll k (diff_line QcOps 1 (qc 1) true true u v)) = false.
Proof. exists masked_u, masked_v, 2%nat. split; vm_compute; reflexivity. Qed.

(* fully valid ring of the same data does commute with that shift (non-vacuity of the ring theorems) *)
Example valid_ring_shift_example :
  qclist_eqb (diff_line QcOps 1 (qc 1) true true (roll 2 masked_u) (repeat true 7))
             (roll 2 (diff_line QcOps 1 (qc 1) true true masked_u (repeat true 7))) = true.
Proof. vm_compute. reflexivity. Qed.

Lemma Qc_two_neq_0 : f2 QcOps <> f0 QcOps.
Proof. intro H. apply (f_equal (@this)) in H. vm_compute in H. discriminate. Qed.

(* a concrete quadratic sampled on 5 cells meets the hypotheses of the exactness theorem *)
Example exactness_nonvacuous :
  let a := qcl [1; 3; 9; 19; 33]%Q in   (* 1 + 2 t^2 at t = 0..4, x0 = 0, h = 1 *)
  qclist_eqb (map (d1_at QcOps a (qc 1)) [0; 1; 2; 3; 4]%nat) (qcl [0; 4; 8; 12; 16]%Q) = true.
Proof. vm_compute. reflexivity. Qed.

(* the reals are an instance: every theorem stated for an abstract field holds for real values *)
Definition ROps : FOps := mkFOps R R0 R1 Rplus Rmult Rminus Rdiv Ropp Rinv.
Lemma RLaws : FLaws ROps.
Proof. exact Rfield. Qed.
Lemma R_two_neq_0 : f2 ROps <> f0 ROps.
Proof. unfold f2; simpl. apply Rgt_not_eq. apply Rlt_0_2. Qed.

Theorem d1_exact_quadratic_R (c0 c1 c2 x0 h : R) (a : list R) :
  h <> R0 -> (3 <= length a)%nat ->
  (forall j, (j < length a)%nat -> nth j a R0 = quad ROps c0 c1 c2 (x0 + fnat ROps j * h)%R) ->
  forall j, (j < length a)%nat ->
    d1_at ROps a h j = (c1 + (R1 + R1) * c2 * (x0 + fnat ROps j * h))%R.
Proof. exact (d1_exact_quadratic ROps RLaws R_two_neq_0 c0 c1 c2 x0 h a). Qed.
