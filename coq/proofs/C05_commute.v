(* C05 (rotation route, step 4): grad, div, Laplacian (and the derivative itself) commute with the
   quarter turns of Field.rotate90 = numpy.rot90 on data and validity + exact quarter-turn rotation
   of the two in-plane components (Rotate90.rot_comp with (c,s) = kturn k). *)
From Coq Require Import Field.
From DF Require Import Prelude Constants_gen FieldK NDArray Diff Calculus ListLemmas
     C04_proofs C04_linear C04_ring C06_proofs C05_stencil C05_identities C05_mirror
     Rotate90 C12_rot C12_cov C05_rot.

Section Commute.
Variable K : FOps.
Hypothesis HK : field_theory (f0 K) (f1 K) (@fadd K) (@fmul K) (@fsub K) (@fopp K) (@fdiv K) (@finv K) eq.
Add Field Kfield56 : HK.
Notation "0" := (f0 K).
Notation "1" := (f1 K).
Infix "+" := fadd. Infix "*" := fmul. Infix "-" := fsub.
Notation Σ := (fsum K).

(* where numpy.rot90 reads the value of target cell q *)
Definition rho (sh : list nat) (a b : nat) (k : Z) (q : idx) : idx :=
  match (k mod 4)%Z with
  | 0%Z => q
  | 1%Z => flipi sh b (swapi a b q)
  | 2%Z => flipi sh a (flipi sh b q)
  | _ => swapi a b (flipi (swap_nth 0%nat a b sh) b q)
  end.

Lemma rho_length sh a b k q : length (rho sh a b k q) = length q.
Proof.
  unfold rho. destruct (mod4_cases k) as [H|[H|[H|H]]]; rewrite H;
    rewrite ?flipi_length, ?swapi_length, ?flipi_length; reflexivity.
Qed.

Lemma rot90_cells {V} (sh : list nat) a b k (F : idx -> V) (q : idx) : rot90 sh a b k F q = F (rho sh a b k q).
Proof. unfold rot90, rho. destruct (mod4_cases k) as [H|[H|[H|H]]]; rewrite H; reflexivity. Qed.

Lemma rot90_app {V} (sh : list nat) v a b k (F : idx -> V) (q : idx) y :
  (a < length sh)%nat -> (b < length sh)%nat -> length q = length sh ->
  rot90 (sh ++ [v]) a b k F (q ++ [y]) = F (rho sh a b k q ++ [y]).
Proof.
  intros Ha Hb Hq. unfold rot90, rho. destruct (mod4_cases k) as [H|[H|[H|H]]]; rewrite H.
  - reflexivity.
  - rewrite (flip_ax_sh1 sh v b) by exact Hb.
    change (swap_ax a b (flip_ax sh b F) (q ++ [y])) with (F (flipi sh b (swapi a b (q ++ [y])))).
    rewrite swapi_app by lia. rewrite flipi_app by (rewrite swapi_length; lia). reflexivity.
  - rewrite (flip_ax_sh1 sh v b) by exact Hb. rewrite (flip_ax_sh1 sh v a) by exact Ha.
    change (flip_ax sh b (flip_ax sh a F) (q ++ [y])) with (F (flipi sh a (flipi sh b (q ++ [y])))).
    rewrite (flipi_app sh b) by lia. rewrite flipi_app by (rewrite flipi_length; lia). reflexivity.
  - rewrite swap_nth_app1 by assumption.
    rewrite (flip_ax_sh1 (swap_nth 0%nat a b sh) v b) by (rewrite swap_nth_length; exact Hb).
    change (flip_ax (swap_nth 0%nat a b sh) b (swap_ax a b F) (q ++ [y]))
      with (F (swapi a b (flipi (swap_nth 0%nat a b sh) b (q ++ [y])))).
    rewrite flipi_app by lia. rewrite swapi_app by (rewrite flipi_length; lia). reflexivity.
Qed.

Lemma rotM_nd (M : cmesh K) a b k : cm_nd (rotM K M a b k) = cm_nd M.
Proof. unfold rotM, cm_nd. destruct (Z.odd k); [apply swap_nth_length | reflexivity]. Qed.

(* hypotheses shared by the commutation theorems *)
Record rot_ok (M : cmesh K) (a b : nat) (k : Z) (q : idx) : Prop := {
  ok_wf : wfM K M;
  ok_ab : a <> b;
  ok_a : (a < cm_nd M)%nat;
  ok_b : (b < cm_nd M)%nat;
  ok_q : in_rng (cm_sh (rotM K M a b k)) q
}.

Arguments ok_wf {M a b k q}. Arguments ok_ab {M a b k q}. Arguments ok_a {M a b k q}.
Arguments ok_b {M a b k q}. Arguments ok_q {M a b k q}.

Lemma ok_len M a b k q : rot_ok M a b k q -> length q = cm_nd M.
Proof. intros H. destruct (ok_q H) as [Hq _]. rewrite Hq. apply rotM_nd. Qed.

(* the derivative of the rotated scalar array at target cell q, read back at the source cell *)
Theorem dax_rot90_cell (M : cmesh K) a b k x order g valid (q : idx) :
  rot_ok M a b k q -> (x < cm_nd M)%nat -> (order = 1 \/ order = 2)%nat ->
  dax K (rotM K M a b k) order x
      (rot90 (cm_sh M ++ [1%nat]) a b k g) (rot90 (cm_sh M) a b k valid) (q ++ [0%nat])
  = msgn K (rot_fl a b k x) order
      (dax K M order (src_ax a b k x) g valid (rho (cm_sh M) a b k q ++ [0%nat])).
Proof.
  intros Hok Hx Ho. pose proof (@ok_len _ _ _ _ _ Hok) as Hq. destruct Hok as [Hwf Hab Ha Hb Hrng].
  rewrite (@dax_rot90 K HK) by assumption.
  rewrite rot90_app by (try assumption; exact Hq). reflexivity.
Qed.

Lemma kturn_cases k :
  ((k mod 4)%Z = 0%Z /\ kturn K k = (1, 0)) \/ ((k mod 4)%Z = 1%Z /\ kturn K k = (0, 1)) \/
  ((k mod 4)%Z = 2%Z /\ kturn K k = (fopp 1, 0)) \/ ((k mod 4)%Z = 3%Z /\ kturn K k = (0, fopp 1)).
Proof.
  unfold kturn, zturn. destruct (mod4_cases k) as [H|[H|[H|H]]]; rewrite H; simpl; auto 6.
Qed.

Lemma msgn_two fl (v : K) : msgn K fl 2 v = v.
Proof. destruct fl; reflexivity. Qed.

(* ---------- gradient ---------- *)
(* the gradient of the rotated scalar field = the rotated gradient field: numpy.rot90 of the gradient
   array, its components along a and b (the result of grad is mapped identically onto the axes)
   rotated by the exact quarter turn *)
Theorem grad_rot90 (M : cmesh K) a b k f valid (q : idx) x :
  rot_ok M a b k q -> (x < cm_nd M)%nat ->
  grad_v K (rotM K M a b k) (rot90 (cm_sh M ++ [1%nat]) a b k f) (rot90 (cm_sh M) a b k valid) (q ++ [x])
  = rot_comp K (fst (kturn K k)) (snd (kturn K k)) a b
      (rot90 (cm_sh M ++ [cm_nd M]) a b k (grad_v K M f valid)) (q ++ [x]).
Proof.
  intros Hok Hx. pose proof (@ok_len _ _ _ _ _ Hok) as Hq.
  pose proof (ok_a Hok) as Ha. pose proof (ok_b Hok) as Hb. pose proof (ok_ab Hok) as Hab.
  set (D := fun y => dax K M 1 y f valid (rho (cm_sh M) a b k q ++ [0%nat])).
  assert (G : forall y, (y < cm_nd M)%nat ->
            rot90 (cm_sh M ++ [cm_nd M]) a b k (grad_v K M f valid) (q ++ [y]) = D y).
  { intros y Hy. rewrite rot90_app by (try assumption; exact Hq). unfold grad_v.
    rewrite last_app1, cell0_app. unfold D.
    apply dax_ext_cells; [exact Hy | rewrite rho_length; exact Hq |].
    intros q' _. unfold comp. rewrite removelast_app1. reflexivity. }
  assert (L : grad_v K (rotM K M a b k) (rot90 (cm_sh M ++ [1%nat]) a b k f)
                     (rot90 (cm_sh M) a b k valid) (q ++ [x])
              = msgn K (rot_fl a b k x) 1 (D (src_ax a b k x))).
  { unfold grad_v, D. rewrite last_app1, cell0_app.
    rewrite <- (@dax_rot90_cell M a b k x 1%nat f valid q Hok Hx (or_introl eq_refl)).
    apply dax_ext_cells; [rewrite rotM_nd; exact Hx | rewrite rotM_nd; exact Hq |].
    intros q' _. unfold comp. rewrite removelast_app1. reflexivity. }
  rewrite L. unfold rot_comp. rewrite last_app1, removelast_app1.
  rewrite !G by assumption.
  unfold rot_fl, src_ax, msgn, msign, sigma. rewrite <- (odd_mod4 k).
  destruct (kturn_cases k) as [[H E]|[[H E]|[[H E]|[H E]]]]; rewrite H, E; cbn [fst snd Z.odd];
    destruct (Nat.eqb_spec x b) as [Eb|Nb]; destruct (Nat.eqb_spec x a) as [Ea|Na];
    try (exfalso; congruence); subst; cbn [orb]; rewrite ?Nat.eqb_refl; ring.
Qed.

(* ---------- finite sums over the axes, re-indexed by the exchange of two axes ---------- *)
Lemma fsum_delta_zero (c : K) a k n : (a < k)%nat ->
  Σ (map (fun x => if (x =? a)%nat then c else 0) (iota k n)) = 0.
Proof.
  revert k. induction n as [|n IH]; intros k Hk; simpl; [reflexivity|].
  destruct (Nat.eqb_spec k a); [lia|]. rewrite IH by lia. ring.
Qed.

Lemma fsum_delta (c : K) a k n : (k <= a < k + n)%nat ->
  Σ (map (fun x => if (x =? a)%nat then c else 0) (iota k n)) = c.
Proof.
  revert k. induction n as [|n IH]; intros k H; [lia|]. simpl.
  destruct (Nat.eqb_spec k a) as [E | N].
  - subst k. rewrite fsum_delta_zero by lia. ring.
  - rewrite IH by lia. ring.
Qed.

Lemma fsum_sigma (T : nat -> K) a b n : a <> b -> (a < n)%nat -> (b < n)%nat ->
  Σ (map (fun x => T (sigma a b x)) (iota 0 n)) = Σ (map T (iota 0 n)).
Proof.
  intros Hab Ha Hb.
  transitivity (Σ (map (fun x => T x + ((if (x =? a)%nat then T b - T a else 0)
                                        + (if (x =? b)%nat then T a - T b else 0))) (iota 0 n))).
  - apply fsum_map_ext. intros x _. unfold sigma.
    destruct (Nat.eqb_spec x a) as [Ea|Na]; destruct (Nat.eqb_spec x b) as [Eb|Nb];
      try (exfalso; congruence); subst; ring.
  - rewrite !(@fsum_map_add K HK). rewrite !fsum_delta by lia. ring.
Qed.

Lemma fsum_src (T : nat -> K) a b k n : a <> b -> (a < n)%nat -> (b < n)%nat ->
  Σ (map (fun x => T (src_ax a b k x)) (iota 0 n)) = Σ (map T (iota 0 n)).
Proof.
  intros Hab Ha Hb. unfold src_ax. destruct (Z.odd k); [apply fsum_sigma; assumption | reflexivity].
Qed.

(* component c of the rotated array is the rotated component c *)
Lemma comp_rot90_cells (sh : list nat) nv a b k c (v : idx -> K) (q' : idx) :
  (a < length sh)%nat -> (b < length sh)%nat -> length q' = length sh ->
  comp K c (rot90 (sh ++ [nv]) a b k v) (q' ++ [0%nat])
  = rot90 (sh ++ [1%nat]) a b k (comp K c v) (q' ++ [0%nat]).
Proof.
  intros Ha Hb Hq. unfold comp at 1. rewrite removelast_app1.
  rewrite !rot90_app by assumption. unfold comp. rewrite removelast_app1. reflexivity.
Qed.

(* ---------- Laplacian, component by component (the whole statement for scalar fields) ---------- *)
Theorem lap_rot90_unmixed (M : cmesh K) a b k nv v valid (q : idx) c :
  rot_ok M a b k q ->
  lap_v K (rotM K M a b k) (rot90 (cm_sh M ++ [nv]) a b k v) (rot90 (cm_sh M) a b k valid) (q ++ [c])
  = rot90 (cm_sh M ++ [nv]) a b k (lap_v K M v valid) (q ++ [c]).
Proof.
  intros Hok. pose proof (@ok_len _ _ _ _ _ Hok) as Hq.
  pose proof (ok_a Hok) as Ha. pose proof (ok_b Hok) as Hb. pose proof (ok_ab Hok) as Hab.
  rewrite rot90_app by (try assumption; exact Hq).
  unfold lap_v. rewrite !last_app1, !cell0_app. rewrite rotM_nd.
  set (T := fun y => dax K M 2 y (comp K c v) valid (rho (cm_sh M) a b k q ++ [0%nat])).
  transitivity (Σ (map (fun x => T (src_ax a b k x)) (iota 0 (cm_nd M)))).
  - apply fsum_map_ext. intros x Hx. apply In_iota in Hx. unfold T.
    rewrite <- (msgn_two (rot_fl a b k x)).
    rewrite <- (@dax_rot90_cell M a b k x 2%nat (comp K c v) valid q Hok) by (try lia; right; reflexivity).
    apply dax_ext_cells; [rewrite rotM_nd; lia | rewrite rotM_nd; exact Hq |].
    intros q' Hq'. rewrite rotM_nd in Hq'. apply comp_rot90_cells; assumption.
  - apply fsum_src; assumption.
Qed.

(* ---------- linearity of the derivative in the data, arbitrary masks, open and periodic ---------- *)
Lemma wrap1_ne {A} (d : A) (m : list A) : m <> [] -> wrap1 d m = last m d :: m ++ [hd d m].
Proof. destruct m; [congruence | reflexivity]. Qed.

Lemma wrap1_lin a' b' (u w : list K) : length u = length w ->
  wrap1 0 (lin K a' b' u w) = lin K a' b' (wrap1 0 u) (wrap1 0 w).
Proof.
  intros Hl. destruct u as [|x u], w as [|y w]; try discriminate; [reflexivity|].
  rewrite (wrap1_ne 0 (x :: u)), (wrap1_ne 0 (y :: w)) by discriminate.
  rewrite wrap1_ne by (unfold lin; simpl; discriminate).
  rewrite !last_nth_len. rewrite (@lin_length K) by exact Hl.
  rewrite (@nth_lin K HK) by exact Hl. rewrite <- Hl.
  unfold lin at 3. cbn [map2]. f_equal.
  change (map2 (fun x0 y0 : K => a' * x0 + b' * y0) ((x :: u) ++ [hd 0 (x :: u)]) ((y :: w) ++ [hd 0 (y :: w)]))
    with (lin K a' b' ((x :: u) ++ [x]) ((y :: w) ++ [y])).
  rewrite (@lin_app K) by exact Hl. reflexivity.
Qed.

Lemma diff_line_lin_nth order h per a' b' (u w : list K) m j :
  length u = length w -> length u = length m -> (j < length u)%nat ->
  nth j (diff_line K order h per true (lin K a' b' u w) m) 0
  = a' * nth j (diff_line K order h per true u m) 0 + b' * nth j (diff_line K order h per true w m) 0.
Proof.
  intros Hl Hm Hj. unfold diff_line. destruct per.
  - assert (Hne : u <> []) by (destruct u; [simpl in Hj; lia | discriminate]).
    assert (Hnw : w <> []) by (destruct w; [destruct u; [congruence | discriminate] | discriminate]).
    assert (Hnm : m <> []) by (destruct m; [destruct u; [congruence | discriminate] | discriminate]).
    assert (Lu : length (wrap1 0 u) = (length u + 2)%nat) by (apply wrap1_length; exact Hne).
    assert (Lw : length (wrap1 0 w) = (length u + 2)%nat) by (rewrite wrap1_length by exact Hnw; lia).
    assert (Lm : length (wrap1 true m) = (length u + 2)%nat) by (rewrite wrap1_length by exact Hnm; lia).
    rewrite wrap1_lin by exact Hl.
    rewrite (@sdc_lin K HK) by lia.
    rewrite !nth_crop1
      by (rewrite ?(@lin_length K), ?sdc_length by (rewrite ?sdc_length; lia); rewrite ?sdc_length by lia; lia).
    apply (@nth_lin K HK). rewrite !sdc_length by lia. lia.
  - rewrite (@sdc_lin K HK) by lia. apply (@nth_lin K HK). rewrite !sdc_length by lia. exact Hl.
Qed.

Theorem dax_lin (M : cmesh K) order x a' b' g g' valid (p : idx) :
  (x < cm_nd M)%nat -> (nth x p 0 < nth x (cm_sh M) 0)%nat ->
  dax K M order x (fun i => a' * g i + b' * g' i) valid p
  = a' * dax K M order x g valid p + b' * dax K M order x g' valid p.
Proof.
  intros Hx Hp. unfold dax, diff_nd, along_axis2.
  assert (E : line (cm_sh M ++ [1%nat]) (fun i => a' * g i + b' * g' i) x p
              = lin K a' b' (line (cm_sh M ++ [1%nat]) g x p) (line (cm_sh M ++ [1%nat]) g' x p)).
  { unfold line, lin. rewrite map2_map_iota. reflexivity. }
  rewrite E. apply diff_line_lin_nth.
  - rewrite !line_length. reflexivity.
  - rewrite !line_length. apply nth_app_sh. exact Hx.
  - rewrite line_length, nth_app_sh by exact Hx. exact Hp.
Qed.

(* ---------- the vector Laplacian: components mixed by the quarter turn ---------- *)
Lemma lap_of_combination (M' : cmesh K) W valid' (q : idx) ci al be g1 g2 :
  in_rng (cm_sh M') q ->
  (forall q' : idx, length q' = cm_nd M' ->
     comp K ci W (q' ++ [0%nat]) = al * g1 (q' ++ [0%nat]) + be * g2 (q' ++ [0%nat])) ->
  lap_v K M' W valid' (q ++ [ci])
  = al * Σ (map (fun x => dax K M' 2 x g1 valid' (q ++ [0%nat])) (iota 0 (cm_nd M')))
    + be * Σ (map (fun x => dax K M' 2 x g2 valid' (q ++ [0%nat])) (iota 0 (cm_nd M'))).
Proof.
  intros [Hq Hr] Hc. unfold lap_v. rewrite last_app1, cell0_app.
  rewrite <- (@fsum_map_lin K HK). apply fsum_map_ext. intros x Hx. apply In_iota in Hx.
  unfold cm_nd in *.
  rewrite <- dax_lin; [| unfold cm_nd; lia | rewrite app_nth1 by lia; apply Hr; lia].
  apply dax_ext_cells; [unfold cm_nd; lia | exact Hq | exact Hc].
Qed.

Lemma lap_as_sum (M' : cmesh K) W valid' (q : idx) cj :
  Σ (map (fun x => dax K M' 2 x (comp K cj W) valid' (q ++ [0%nat])) (iota 0 (cm_nd M')))
  = lap_v K M' W valid' (q ++ [cj]).
Proof. unfold lap_v. rewrite last_app1, cell0_app. reflexivity. Qed.

(* Field.rotate90 of a vector field: data rot90'd, the two in-plane components v1, v2 rotated by (c, s).
   The Laplacian of that field is the same transformation of the Laplacian field -- for any (c, s). *)
Theorem lap_rot90_vector (M : cmesh K) a b k nv v valid (q : idx) c s v1 v2 ci :
  rot_ok M a b k q ->
  lap_v K (rotM K M a b k) (rot_comp K c s v1 v2 (rot90 (cm_sh M ++ [nv]) a b k v))
        (rot90 (cm_sh M) a b k valid) (q ++ [ci])
  = rot_comp K c s v1 v2 (rot90 (cm_sh M ++ [nv]) a b k (lap_v K M v valid)) (q ++ [ci]).
Proof.
  intros Hok. pose proof (ok_q Hok) as Hrng.
  set (Rv := rot90 (cm_sh M ++ [nv]) a b k v).
  set (M' := rotM K M a b k). set (valid' := rot90 (cm_sh M) a b k valid).
  assert (U : forall cj, lap_v K M' Rv valid' (q ++ [cj])
                         = rot90 (cm_sh M ++ [nv]) a b k (lap_v K M v valid) (q ++ [cj])).
  { intros cj. apply lap_rot90_unmixed. exact Hok. }
  unfold rot_comp at 2. rewrite last_app1, removelast_app1.
  destruct (Nat.eqb_spec ci v2) as [E2 | N2]; [|destruct (Nat.eqb_spec ci v1) as [E1 | N1]].
  - rewrite (lap_of_combination M' _ valid' q ci s c (comp K v1 Rv) (comp K v2 Rv) Hrng).
    + rewrite !lap_as_sum, !U. reflexivity.
    + intros q' _. unfold comp, rot_comp. rewrite !removelast_app1, last_app1.
      destruct (Nat.eqb_spec ci v2); [reflexivity | contradiction].
  - rewrite (lap_of_combination M' _ valid' q ci c (fopp s) (comp K v1 Rv) (comp K v2 Rv) Hrng).
    + rewrite !lap_as_sum, !U. ring.
    + intros q' _. unfold comp, rot_comp. rewrite !removelast_app1, last_app1.
      destruct (Nat.eqb_spec ci v2); [contradiction|].
      destruct (Nat.eqb_spec ci v1); [ring | contradiction].
  - rewrite (lap_of_combination M' _ valid' q ci 1 0 (comp K ci Rv) (comp K ci Rv) Hrng).
    + rewrite !lap_as_sum, !U. ring.
    + intros q' _. unfold comp, rot_comp. rewrite !removelast_app1, last_app1.
      destruct (Nat.eqb_spec ci v2); [contradiction|].
      destruct (Nat.eqb_spec ci v1); [contradiction | ring].
Qed.

(* ---------- divergence ---------- *)
Lemma rot_other a b k x : x <> a -> x <> b -> rot_fl a b k x = false /\ src_ax a b k x = x.
Proof.
  intros Na Nb. unfold rot_fl, src_ax, sigma.
  apply Nat.eqb_neq in Na. apply Nat.eqb_neq in Nb. rewrite Na, Nb.
  split; [destruct (mod4_cases k) as [H|[H|[H|H]]]; rewrite H; reflexivity | destruct (Z.odd k); reflexivity].
Qed.

(* axes c = axis component c is mapped to; v1, v2 = the components mapped to a and b (what the reversed
   mapping returns for a bijective mapping); every other component is mapped elsewhere *)
Theorem div_rot90 (M : cmesh K) a b k nv v valid (q : idx) axes v1 v2 z :
  rot_ok M a b k q -> v1 <> v2 -> (v1 < length axes)%nat -> (v2 < length axes)%nat ->
  nth v1 axes 0%nat = a -> nth v2 axes 0%nat = b ->
  (forall ci, (ci < length axes)%nat -> (nth ci axes 0 < cm_nd M)%nat) ->
  (forall ci, (ci < length axes)%nat -> ci <> v1 -> ci <> v2 -> nth ci axes 0%nat <> a /\ nth ci axes 0%nat <> b) ->
  div_v K (rotM K M a b k) axes
        (rot_comp K (fst (kturn K k)) (snd (kturn K k)) v1 v2 (rot90 (cm_sh M ++ [nv]) a b k v))
        (rot90 (cm_sh M) a b k valid) (q ++ [z])
  = rot90 (cm_sh M ++ [1%nat]) a b k (div_v K M axes v valid) (q ++ [z]).
Proof.
  intros Hok H12 L1 L2 A1 A2 Hax Hoth.
  pose proof (@ok_len _ _ _ _ _ Hok) as Hq. pose proof (ok_q Hok) as [Hq' Hr].
  pose proof (ok_a Hok) as Ha. pose proof (ok_b Hok) as Hb. pose proof (ok_ab Hok) as Hab.
  rewrite rot90_app by (try assumption; exact Hq).
  unfold div_v. rewrite !cell0_app.
  set (c := fst (kturn K k)). set (s := snd (kturn K k)).
  set (Rv := rot90 (cm_sh M ++ [nv]) a b k v).
  set (M' := rotM K M a b k). set (valid' := rot90 (cm_sh M) a b k valid).
  set (D := fun y cj => dax K M 1 y (comp K cj v) valid (rho (cm_sh M) a b k q ++ [0%nat])).
  assert (E : forall x cj, (x < cm_nd M)%nat ->
            dax K M' 1 x (comp K cj Rv) valid' (q ++ [0%nat]) = msgn K (rot_fl a b k x) 1 (D (src_ax a b k x) cj)).
  { intros x cj Hx. unfold D.
    rewrite <- (@dax_rot90_cell M a b k x 1%nat (comp K cj v) valid q Hok Hx (or_introl eq_refl)).
    apply dax_ext_cells; [unfold M'; rewrite rotM_nd; exact Hx | unfold M'; rewrite rotM_nd; exact Hq |].
    intros q0 Hq0. unfold M' in Hq0. rewrite rotM_nd in Hq0. apply comp_rot90_cells; assumption. }
  assert (Rng : forall x, (x < cm_nd M)%nat -> (nth x (q ++ [0%nat]) 0 < nth x (cm_sh M') 0)%nat).
  { intros x Hx. rewrite app_nth1 by lia. apply Hr. unfold M'. fold (cm_nd (rotM K M a b k)). rewrite rotM_nd. exact Hx. }
  set (term := fun ci => dax K M' 1 (nth ci axes 0%nat)
                (comp K ci (rot_comp K c s v1 v2 Rv)) valid' (q ++ [0%nat])).
  set (T := fun ci => D (nth ci axes 0%nat) ci).
  assert (T1 : term v1 = c * msgn K (rot_fl a b k a) 1 (D (src_ax a b k a) v1)
                         + fopp s * msgn K (rot_fl a b k a) 1 (D (src_ax a b k a) v2)).
  { unfold term. rewrite A1. rewrite <- !E by exact Ha.
    rewrite <- dax_lin by (try apply Rng; unfold M'; rewrite ?rotM_nd; exact Ha).
    apply dax_ext_cells; [unfold M'; rewrite rotM_nd; exact Ha | unfold M'; rewrite rotM_nd; exact Hq |].
    intros q0 _. unfold comp, rot_comp. rewrite !removelast_app1, last_app1.
    destruct (Nat.eqb_spec v1 v2); [contradiction|]. rewrite Nat.eqb_refl. ring. }
  assert (T2 : term v2 = s * msgn K (rot_fl a b k b) 1 (D (src_ax a b k b) v1)
                         + c * msgn K (rot_fl a b k b) 1 (D (src_ax a b k b) v2)).
  { unfold term. rewrite A2. rewrite <- !E by exact Hb.
    rewrite <- dax_lin by (try apply Rng; unfold M'; rewrite ?rotM_nd; exact Hb).
    apply dax_ext_cells; [unfold M'; rewrite rotM_nd; exact Hb | unfold M'; rewrite rotM_nd; exact Hq |].
    intros q0 _. unfold comp, rot_comp. rewrite !removelast_app1, last_app1.
    rewrite Nat.eqb_refl. reflexivity. }
  assert (Pair : term v1 + term v2 = T v1 + T v2).
  { rewrite T1, T2. unfold T. rewrite A1, A2. unfold c, s, rot_fl, src_ax, msgn, msign, sigma.
    rewrite <- (odd_mod4 k).
    destruct (kturn_cases k) as [[H E']|[[H E']|[[H E']|[H E']]]]; rewrite H, E'; cbn [fst snd Z.odd];
      rewrite ?Nat.eqb_refl; destruct (Nat.eqb_spec a b); try contradiction;
      destruct (Nat.eqb_spec b a); try (exfalso; congruence); cbn [orb]; ring. }
  transitivity (Σ (map (fun ci => T ci + ((if (ci =? v1)%nat then term v1 - T v1 else 0)
                                          + (if (ci =? v2)%nat then term v2 - T v2 else 0)))
                       (iota 0 (length axes)))).
  - apply fsum_map_ext. intros ci Hci. apply In_iota in Hci. fold (term ci).
    destruct (Nat.eqb_spec ci v1) as [E1|N1]; destruct (Nat.eqb_spec ci v2) as [E2|N2];
      [exfalso; congruence | subst ci; ring | subst ci; ring | ].
    destruct (Hoth ci ltac:(lia) N1 N2) as [Oa Ob].
    destruct (rot_other a b k (nth ci axes 0%nat) Oa Ob) as [F S].
    unfold term, T.
    transitivity (dax K M' 1 (nth ci axes 0%nat) (comp K ci Rv) valid' (q ++ [0%nat])).
    + apply dax_ext_cells; [unfold M'; rewrite rotM_nd; apply Hax; lia | unfold M'; rewrite rotM_nd; exact Hq |].
      intros q0 _. unfold comp, rot_comp. rewrite !removelast_app1, last_app1.
      destruct (Nat.eqb_spec ci v2); [contradiction|]. destruct (Nat.eqb_spec ci v1); [contradiction|]. reflexivity.
    + rewrite E by (apply Hax; lia). rewrite F, S. unfold msgn. ring.
  - rewrite !(@fsum_map_add K HK). rewrite !fsum_delta by lia.
    fold T. transitivity (Σ (map T (iota 0 (length axes))) + ((term v1 + term v2) - (T v1 + T v2))); [ring|].
    rewrite Pair. transitivity (Σ (map T (iota 0 (length axes)))); [ring | reflexivity].
Qed.

(* ---------- curl (three dimensions) ---------- *)
(* the first derivative of a rotated scalar array in (c, s) form *)
Lemma dax1_rot_cs (M : cmesh K) a b k g valid (q : idx) y :
  rot_ok M a b k q -> (y < cm_nd M)%nat ->
  dax K (rotM K M a b k) 1 y (rot90 (cm_sh M ++ [1%nat]) a b k g) (rot90 (cm_sh M) a b k valid) (q ++ [0%nat])
  = if (y =? b)%nat
    then snd (kturn K k) * dax K M 1 a g valid (rho (cm_sh M) a b k q ++ [0%nat])
         + fst (kturn K k) * dax K M 1 b g valid (rho (cm_sh M) a b k q ++ [0%nat])
    else if (y =? a)%nat
    then fst (kturn K k) * dax K M 1 a g valid (rho (cm_sh M) a b k q ++ [0%nat])
         - snd (kturn K k) * dax K M 1 b g valid (rho (cm_sh M) a b k q ++ [0%nat])
    else dax K M 1 y g valid (rho (cm_sh M) a b k q ++ [0%nat]).
Proof.
  intros Hok Hy. pose proof (ok_ab Hok) as Hab.
  rewrite (@dax_rot90_cell M a b k y 1%nat g valid q Hok Hy (or_introl eq_refl)).
  unfold rot_fl, src_ax, msgn, msign, sigma. rewrite <- (odd_mod4 k).
  destruct (kturn_cases k) as [[H E]|[[H E]|[[H E]|[H E]]]]; rewrite H, E; cbn [fst snd Z.odd];
    destruct (Nat.eqb_spec y b) as [Eb|Nb]; destruct (Nat.eqb_spec y a) as [Ea|Na];
    try (exfalso; congruence); subst; cbn [orb]; rewrite ?Nat.eqb_refl; ring.
Qed.

(* r x = component that is mapped to axis x (a bijection between the three components and the three
   axes); Field.rotate90 rotates the components v1 = r a and v2 = r b; the curl's own result is mapped
   identically, so it is rotated in its components a and b *)
Theorem curl_rot90 (M : cmesh K) a b k v valid (q : idx) r x :
  rot_ok M a b k q -> cm_nd M = 3%nat -> (x < 3)%nat -> length r = 3%nat ->
  NoDup r ->
  curl_v K (rotM K M a b k) r
         (rot_comp K (fst (kturn K k)) (snd (kturn K k)) (nth a r 0%nat) (nth b r 0%nat)
                   (rot90 (cm_sh M ++ [3%nat]) a b k v))
         (rot90 (cm_sh M) a b k valid) (q ++ [x])
  = rot_comp K (fst (kturn K k)) (snd (kturn K k)) a b
      (rot90 (cm_sh M ++ [3%nat]) a b k (curl_v K M r v valid)) (q ++ [x]).
Proof.
  intros Hok Hnd Hx Lr Hinj.
  pose proof (@ok_len _ _ _ _ _ Hok) as Hq. pose proof (ok_q Hok) as [Hq' Hr].
  pose proof (ok_a Hok) as Ha. pose proof (ok_b Hok) as Hb. pose proof (ok_ab Hok) as Hab.
  set (c := fst (kturn K k)). set (s := snd (kturn K k)).
  set (v1 := nth a r 0%nat). set (v2 := nth b r 0%nat).
  set (Rv := rot90 (cm_sh M ++ [3%nat]) a b k v).
  set (M' := rotM K M a b k). set (valid' := rot90 (cm_sh M) a b k valid).
  set (rq := rho (cm_sh M) a b k q).
  set (D := fun y z => dax K M 1 y (comp K (nth z r 0%nat) v) valid (rq ++ [0%nat])).
  (* injectivity of r on the three axes *)
  assert (Rinj : forall y z, (y < 3)%nat -> (z < 3)%nat -> nth y r 0%nat = nth z r 0%nat -> y = z).
  { intros y z Hy Hz E. apply (proj1 (NoDup_nth r 0%nat) Hinj); [lia | lia | exact E]. }
  (* derivative along y of a rotated component *)
  assert (E : forall y z, (y < 3)%nat ->
            dax K M' 1 y (comp K (nth z r 0%nat) Rv) valid' (q ++ [0%nat])
            = if (y =? b)%nat then s * D a z + c * D b z
              else if (y =? a)%nat then c * D a z - s * D b z else D y z).
  { intros y z Hy. unfold D, rq, c, s.
    rewrite <- (@dax1_rot_cs M a b k (comp K (nth z r 0%nat) v) valid q y Hok) by (rewrite Hnd; exact Hy).
    apply dax_ext_cells; [unfold M'; rewrite rotM_nd; lia | unfold M'; rewrite rotM_nd; exact Hq |].
    intros q0 Hq0. unfold M' in Hq0. rewrite rotM_nd in Hq0. apply comp_rot90_cells; assumption. }
  assert (Rng : forall y, (y < 3)%nat -> (nth y (q ++ [0%nat]) 0 < nth y (cm_sh M') 0)%nat).
  { intros y Hy. rewrite app_nth1 by lia. apply Hr. unfold M'. fold (cm_nd (rotM K M a b k)). rewrite rotM_nd. lia. }
  (* derivative along y of component (r z) of the rotated FIELD *)
  assert (Fz : forall y z, (y < 3)%nat -> (z < 3)%nat ->
            dax K M' 1 y (comp K (nth z r 0%nat) (rot_comp K c s v1 v2 Rv)) valid' (q ++ [0%nat])
            = if (z =? b)%nat
              then s * dax K M' 1 y (comp K v1 Rv) valid' (q ++ [0%nat]) + c * dax K M' 1 y (comp K v2 Rv) valid' (q ++ [0%nat])
              else if (z =? a)%nat
              then c * dax K M' 1 y (comp K v1 Rv) valid' (q ++ [0%nat]) + fopp s * dax K M' 1 y (comp K v2 Rv) valid' (q ++ [0%nat])
              else dax K M' 1 y (comp K (nth z r 0%nat) Rv) valid' (q ++ [0%nat])).
  { intros y z Hy Hz.
    assert (My : (y < cm_nd M')%nat) by (unfold M'; rewrite rotM_nd; lia).
    assert (Lq : length q = cm_nd M') by (unfold M'; rewrite rotM_nd; exact Hq).
    destruct (Nat.eqb_spec z b) as [Zb|Zb]; [|destruct (Nat.eqb_spec z a) as [Za|Za]].
    - rewrite <- dax_lin by (try exact My; apply Rng; exact Hy).
      apply dax_ext_cells; [exact My | exact Lq |].
      intros q0 _. unfold comp, rot_comp. rewrite !removelast_app1, last_app1. subst z. fold v2.
      rewrite Nat.eqb_refl. reflexivity.
    - rewrite <- dax_lin by (try exact My; apply Rng; exact Hy).
      apply dax_ext_cells; [exact My | exact Lq |].
      intros q0 _. unfold comp, rot_comp. rewrite !removelast_app1, last_app1. subst z. fold v1.
      destruct (Nat.eqb_spec v1 v2) as [C|_]; [exfalso; apply Hab; apply Rinj; try lia; exact C|].
      rewrite Nat.eqb_refl. ring.
    - apply dax_ext_cells; [exact My | exact Lq |].
      intros q0 _. unfold comp, rot_comp. rewrite !removelast_app1, last_app1.
      destruct (Nat.eqb_spec (nth z r 0%nat) v2) as [C|_]; [exfalso; apply Zb; apply Rinj; try lia; exact C|].
      destruct (Nat.eqb_spec (nth z r 0%nat) v1) as [C|_]; [exfalso; apply Za; apply Rinj; try lia; exact C|].
      reflexivity. }
  (* the curl of the source field at the source cell, by axis *)
  assert (C0 : forall y, (y < 3)%nat ->
            rot90 (cm_sh M ++ [3%nat]) a b k (curl_v K M r v valid) (q ++ [y])
            = D ((y + 1) mod 3)%nat ((y + 2) mod 3)%nat - D ((y + 2) mod 3)%nat ((y + 1) mod 3)%nat).
  { intros y Hy. rewrite rot90_app by (try assumption; exact Hq). unfold curl_v.
    rewrite last_app1, cell0_app. reflexivity. }
  unfold curl_v at 1. rewrite last_app1, cell0_app.
  rewrite !Fz by (try apply Nat.mod_upper_bound; lia).
  unfold rot_comp at 1. rewrite last_app1, removelast_app1.
  rewrite !C0 by lia.
  unfold v1, v2. rewrite !E by (try apply Nat.mod_upper_bound; lia).
  clear E Fz C0 Rng.
  assert (A3 : (a < 3)%nat) by lia. assert (B3 : (b < 3)%nat) by lia.
  unfold c, s.
  destruct (kturn_cases k) as [[H E]|[[H E]|[[H E]|[H E]]]]; rewrite E; cbn [fst snd];
    destruct a as [|[|[|a]]]; try lia; destruct b as [|[|[|b]]]; try lia; try (exfalso; apply Hab; reflexivity);
    destruct x as [|[|[|x]]]; try lia;
    cbn [Nat.add Nat.modulo Nat.divmod fst snd Nat.sub Nat.eqb]; ring.
Qed.

End Commute.
