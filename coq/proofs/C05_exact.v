(* C05: exactness on polynomials of degree <= 2.
   General form (any number of dimensions): if, along the grid line through a cell in direction a, the
   sampled field is a quadratic in the coordinate x_a (all other coordinates frozen), the first / second
   derivative along a is the exact derivative of that quadratic -- for every line length >= 3, fully
   valid, open direction.  This is C04's exactness applied line by line.
   Corollary in three dimensions: for the general polynomial of total degree <= 2 (10 coefficients per
   component) grad, div, curl and the Laplacian are the analytic ones, for every assignment of
   components to axes. *)
From Coq Require Import Field.
From DF Require Import Prelude Constants_gen FieldK NDArray Diff Calculus ListLemmas
     C04_proofs C04_linear C04_ring C06_proofs C05_stencil C05_identities.

Section Exact.
Variable K : FOps.
Hypothesis HK : field_theory (f0 K) (f1 K) (@fadd K) (@fmul K) (@fsub K) (@fopp K) (@fdiv K) (@finv K) eq.
Add Field Kfield53 : HK.
Notation "0" := (f0 K).
Notation "1" := (f1 K).
Infix "+" := fadd. Infix "*" := fmul. Infix "-" := fsub. Infix "/" := fdiv.
Notation two := (f2 K).
Hypothesis H2 : two <> 0.

(* centre of cell j along axis a; org = centre of cell 0 (pmin + cell/2) *)
Definition xc (M : cmesh K) (org : list K) (a j : nat) : K :=
  nth a org 0 + fnat K j * nth a (cm_cell M) 0.

(* a fully valid, open direction with a non-degenerate cell and at least three cells *)
Definition good_axis (M : cmesh K) (a : nat) : Prop :=
  (a < cm_nd M)%nat /\ nth a (cm_per M) false = false /\ nth a (cm_cell M) 0 <> 0 /\
  (3 <= nth a (cm_sh M) 0)%nat.

Lemma dax_open_line (M : cmesh K) order a g valid (p : idx) :
  (forall j, valid j = true) -> (a < cm_nd M)%nat -> nth a (cm_per M) false = false ->
  dax K M order a g valid p
  = nth (nth a p 0%nat) (d_run K order (line (cm_sh M ++ [1%nat]) g a p) (nth a (cm_cell M) 0)) 0.
Proof.
  intros Hv Ha Hper. unfold dax, diff_nd, along_axis2. rewrite Hper.
  rewrite (line_all_true _ _ _ _ Hv). unfold diff_line.
  rewrite <- (nth_app_sh (cm_sh M) a 1 Ha). rewrite <- (line_length (cm_sh M ++ [1%nat]) g a p).
  rewrite sdc_all_valid. reflexivity.
Qed.

Theorem dax1_exact_line (M : cmesh K) org a g valid (q : idx) c0 c1 c2 :
  (forall j, valid j = true) -> good_axis M a -> in_mesh K M q ->
  (forall j, (j < nth a (cm_sh M) 0)%nat ->
     g (set_nth a j q ++ [0%nat]) = quad K c0 c1 c2 (xc M org a j)) ->
  dax K M 1 a g valid (q ++ [0%nat]) = c1 + two * c2 * xc M org a (nth a q 0%nat).
Proof.
  intros Hv (Ha & Hper & Hh & Hn) [Hq Hin] Hg.
  rewrite dax_open_line by assumption.
  set (u := line (cm_sh M ++ [1%nat]) g a (q ++ [0%nat])).
  assert (Lu : length u = nth a (cm_sh M) 0%nat).
  { unfold u. rewrite line_length. apply nth_app_sh. exact Ha. }
  rewrite nth_app_idx by lia.
  assert (Hi : (nth a q 0 < length u)%nat) by (rewrite Lu; apply Hin; exact Ha).
  rewrite d_run_nth1 by lia.
  apply (@d1_exact_quadratic K HK H2 c0 c1 c2 (nth a org 0)); [exact Hh | lia | | exact Hi].
  intros j Hj. unfold u. rewrite nth_line. rewrite nth_app_sh by exact Ha.
  rewrite Lu in Hj. destruct (Nat.ltb_spec j (nth a (cm_sh M) 0%nat)); [|lia].
  rewrite set_nth_app by lia. apply Hg. exact Hj.
Qed.

Theorem dax2_exact_line (M : cmesh K) org a g valid (q : idx) c0 c1 c2 :
  (forall j, valid j = true) -> good_axis M a -> in_mesh K M q ->
  (forall j, (j < nth a (cm_sh M) 0)%nat ->
     g (set_nth a j q ++ [0%nat]) = quad K c0 c1 c2 (xc M org a j)) ->
  dax K M 2 a g valid (q ++ [0%nat]) = two * c2.
Proof.
  intros Hv (Ha & Hper & Hh & Hn) [Hq Hin] Hg.
  rewrite dax_open_line by assumption.
  set (u := line (cm_sh M ++ [1%nat]) g a (q ++ [0%nat])).
  assert (Lu : length u = nth a (cm_sh M) 0%nat).
  { unfold u. rewrite line_length. apply nth_app_sh. exact Ha. }
  rewrite nth_app_idx by lia.
  assert (Hi : (nth a q 0 < length u)%nat) by (rewrite Lu; apply Hin; exact Ha).
  assert (Hu : forall j, (j < length u)%nat -> nth j u 0 = quad K c0 c1 c2 (nth a org 0 + fnat K j * nth a (cm_cell M) 0)).
  { intros j Hj. unfold u. rewrite nth_line. rewrite nth_app_sh by exact Ha.
    rewrite Lu in Hj. destruct (Nat.ltb_spec j (nth a (cm_sh M) 0%nat)); [|lia].
    rewrite set_nth_app by lia. apply Hg. exact Hj. }
  rewrite d_run_nth2 by lia.
  destruct (Nat.eq_dec (length u) 3) as [E3 | N3].
  - apply (@d2_exact_quadratic_three K HK c0 c1 c2 (nth a org 0)); try assumption; try lia.
    + intros j Hj. apply Hu. lia.
  - rewrite (@d2_exact_cubic K HK c0 c1 c2 0 (nth a org 0)); try assumption; try lia.
    + ring.
    + intros j Hj. rewrite Hu by exact Hj. unfold quad, cubic. ring.
Qed.

(* ---------- the gradient and the Laplacian in any number of dimensions ---------- *)
Theorem grad_exact_line (M : cmesh K) org f valid (q : idx) a c0 c1 c2 :
  (forall j, valid j = true) -> good_axis M a -> in_mesh K M q ->
  (forall j, (j < nth a (cm_sh M) 0)%nat ->
     f (set_nth a j q ++ [0%nat]) = quad K c0 c1 c2 (xc M org a j)) ->
  grad_v K M f valid (q ++ [a]) = c1 + two * c2 * xc M org a (nth a q 0%nat).
Proof.
  intros Hv Hga Hq Hf. unfold grad_v. rewrite last_app1, cell0_app.
  apply (dax1_exact_line M org a _ valid q c0 c1 c2); try assumption.
  intros j Hj. unfold comp. rewrite removelast_app1. apply Hf. exact Hj.
Qed.

(* ---------- three dimensions: the general polynomial of total degree <= 2 ---------- *)
Record poly3 := mkPoly3 { k0 : K; kx : K; ky : K; kz : K; kxx : K; kyy : K; kzz : K; kxy : K; kyz : K; kzx : K }.

Definition p3 (P : poly3) (x y z : K) : K :=
  k0 P + kx P * x + ky P * y + kz P * z + kxx P * x * x + kyy P * y * y + kzz P * z * z
  + kxy P * x * y + kyz P * y * z + kzx P * z * x.

(* analytic partial derivatives *)
Definition p3_d (a : nat) (P : poly3) (x y z : K) : K :=
  match a with
  | 0%nat => kx P + two * kxx P * x + kxy P * y + kzx P * z
  | 1%nat => ky P + two * kyy P * y + kxy P * x + kyz P * z
  | _ => kz P + two * kzz P * z + kyz P * y + kzx P * x
  end.
Definition p3_dd (a : nat) (P : poly3) : K :=
  match a with 0%nat => two * kxx P | 1%nat => two * kyy P | _ => two * kzz P end.

Definition good_mesh3 (M : cmesh K) : Prop :=
  cm_nd M = 3%nat /\ forall a, (a < 3)%nat -> good_axis M a.

(* g holds samples of P at the cell centres *)
Definition samples3 (M : cmesh K) (org : list K) (g : idx -> K) (P : poly3) : Prop :=
  forall i j k, (i < nth 0 (cm_sh M) 0)%nat -> (j < nth 1 (cm_sh M) 0)%nat -> (k < nth 2 (cm_sh M) 0)%nat ->
    g ([i; j; k] ++ [0%nat]) = p3 P (xc M org 0 i) (xc M org 1 j) (xc M org 2 k).

Lemma in_mesh3 (M : cmesh K) i j k :
  cm_nd M = 3%nat -> (i < nth 0 (cm_sh M) 0)%nat -> (j < nth 1 (cm_sh M) 0)%nat -> (k < nth 2 (cm_sh M) 0)%nat ->
  in_mesh K M [i; j; k].
Proof.
  intros Hnd Hi Hj Hk. split; [rewrite Hnd; reflexivity|]. rewrite Hnd.
  intros [|[|[|a]]] Ha; simpl; try assumption; lia.
Qed.

Theorem dax1_poly3 (M : cmesh K) org g valid P a i j k :
  (forall x, valid x = true) -> good_mesh3 M -> samples3 M org g P -> (a < 3)%nat ->
  (i < nth 0 (cm_sh M) 0)%nat -> (j < nth 1 (cm_sh M) 0)%nat -> (k < nth 2 (cm_sh M) 0)%nat ->
  dax K M 1 a g valid ([i; j; k] ++ [0%nat])
  = p3_d a P (xc M org 0 i) (xc M org 1 j) (xc M org 2 k).
Proof.
  intros Hv [Hnd Hg] Hs Ha Hi Hj Hk.
  pose proof (in_mesh3 M i j k Hnd Hi Hj Hk) as Hin.
  set (x := xc M org 0 i). set (y := xc M org 1 j). set (z := xc M org 2 k).
  destruct a as [|[|[|a]]]; try lia.
  - rewrite (dax1_exact_line M org 0%nat g valid [i; j; k]
               (k0 P + ky P * y + kz P * z + kyy P * y * y + kzz P * z * z + kyz P * y * z)
               (kx P + kxy P * y + kzx P * z) (kxx P) Hv (Hg 0%nat Ha) Hin).
    + unfold p3_d. fold x. cbn [nth]. fold x. ring.
    + intros t Ht. cbn [set_nth]. rewrite Hs by assumption. unfold p3, quad. fold y z. ring.
  - rewrite (dax1_exact_line M org 1%nat g valid [i; j; k]
               (k0 P + kx P * x + kz P * z + kxx P * x * x + kzz P * z * z + kzx P * z * x)
               (ky P + kxy P * x + kyz P * z) (kyy P) Hv (Hg 1%nat Ha) Hin).
    + unfold p3_d. cbn [nth]. fold y. ring.
    + intros t Ht. cbn [set_nth]. rewrite Hs by assumption. unfold p3, quad. fold x z. ring.
  - rewrite (dax1_exact_line M org 2%nat g valid [i; j; k]
               (k0 P + kx P * x + ky P * y + kxx P * x * x + kyy P * y * y + kxy P * x * y)
               (kz P + kyz P * y + kzx P * x) (kzz P) Hv (Hg 2%nat Ha) Hin).
    + unfold p3_d. cbn [nth]. fold z. ring.
    + intros t Ht. cbn [set_nth]. rewrite Hs by assumption. unfold p3, quad. fold x y. ring.
Qed.

Theorem dax2_poly3 (M : cmesh K) org g valid P a i j k :
  (forall x, valid x = true) -> good_mesh3 M -> samples3 M org g P -> (a < 3)%nat ->
  (i < nth 0 (cm_sh M) 0)%nat -> (j < nth 1 (cm_sh M) 0)%nat -> (k < nth 2 (cm_sh M) 0)%nat ->
  dax K M 2 a g valid ([i; j; k] ++ [0%nat]) = p3_dd a P.
Proof.
  intros Hv [Hnd Hg] Hs Ha Hi Hj Hk.
  pose proof (in_mesh3 M i j k Hnd Hi Hj Hk) as Hin.
  set (x := xc M org 0 i). set (y := xc M org 1 j). set (z := xc M org 2 k).
  destruct a as [|[|[|a]]]; try lia.
  - rewrite (dax2_exact_line M org 0%nat g valid [i; j; k]
               (k0 P + ky P * y + kz P * z + kyy P * y * y + kzz P * z * z + kyz P * y * z)
               (kx P + kxy P * y + kzx P * z) (kxx P) Hv (Hg 0%nat Ha) Hin); [reflexivity|].
    intros t Ht. cbn [set_nth]. rewrite Hs by assumption. unfold p3, quad. fold y z. ring.
  - rewrite (dax2_exact_line M org 1%nat g valid [i; j; k]
               (k0 P + kx P * x + kz P * z + kxx P * x * x + kzz P * z * z + kzx P * z * x)
               (ky P + kxy P * x + kyz P * z) (kyy P) Hv (Hg 1%nat Ha) Hin); [reflexivity|].
    intros t Ht. cbn [set_nth]. rewrite Hs by assumption. unfold p3, quad. fold x z. ring.
  - rewrite (dax2_exact_line M org 2%nat g valid [i; j; k]
               (k0 P + kx P * x + ky P * y + kxx P * x * x + kyy P * y * y + kxy P * x * y)
               (kz P + kyz P * y + kzx P * x) (kzz P) Hv (Hg 2%nat Ha) Hin); [reflexivity|].
    intros t Ht. cbn [set_nth]. rewrite Hs by assumption. unfold p3, quad. fold x y. ring.
Qed.

(* component c of the array v holds samples of (Ps c) *)
Definition vsamples3 (M : cmesh K) org (v : idx -> K) (Ps : nat -> poly3) : Prop :=
  forall c, samples3 M org (comp K c v) (Ps c).

Section Cell.
Variables (M : cmesh K) (org : list K) (valid : idx -> bool) (i j k : nat).
Hypothesis Hv : forall x, valid x = true.
Hypothesis HM : good_mesh3 M.
Hypothesis Hi : (i < nth 0 (cm_sh M) 0)%nat.
Hypothesis Hj : (j < nth 1 (cm_sh M) 0)%nat.
Hypothesis Hk : (k < nth 2 (cm_sh M) 0)%nat.
Let x := xc M org 0 i.
Let y := xc M org 1 j.
Let z := xc M org 2 k.

Theorem grad_exact_poly3 f P a : samples3 M org (comp K 0 f) P -> (a < 3)%nat ->
  grad_v K M f valid ([i; j; k] ++ [a]) = p3_d a P x y z.
Proof.
  intros Hs Ha. unfold grad_v. rewrite last_app1, cell0_app.
  apply dax1_poly3; assumption.
Qed.

(* axes c = axis that component c is mapped to: ANY assignment with axes in range *)
Theorem div_exact_poly3 v Ps ax0 ax1 ax2 w : vsamples3 M org v Ps ->
  (ax0 < 3)%nat -> (ax1 < 3)%nat -> (ax2 < 3)%nat ->
  div_v K M [ax0; ax1; ax2] v valid ([i; j; k] ++ [w])
  = p3_d ax0 (Ps 0%nat) x y z + (p3_d ax1 (Ps 1%nat) x y z + (p3_d ax2 (Ps 2%nat) x y z + 0)).
Proof.
  intros Hs H0 H1 H2'. unfold div_v. rewrite cell0_app. cbn [length iota map fsum fold_right nth].
  rewrite !(dax1_poly3 M org _ valid _ _ i j k Hv HM (Hs _)) by assumption. reflexivity.
Qed.

(* r a = component that is mapped to axis a: ANY assignment *)
Theorem curl_exact_poly3 v Ps r c : vsamples3 M org v Ps -> (c < 3)%nat ->
  curl_v K M r v valid ([i; j; k] ++ [c])
  = p3_d ((c + 1) mod 3) (Ps (nth ((c + 2) mod 3) r 0%nat)) x y z
    - p3_d ((c + 2) mod 3) (Ps (nth ((c + 1) mod 3) r 0%nat)) x y z.
Proof.
  intros Hs Hc. unfold curl_v. rewrite last_app1, cell0_app.
  rewrite !(dax1_poly3 M org _ valid _ _ i j k Hv HM (Hs _))
    by (try assumption; apply Nat.mod_upper_bound; lia).
  reflexivity.
Qed.

Theorem laplace_exact_poly3 v Ps c : vsamples3 M org v Ps ->
  lap_v K M v valid ([i; j; k] ++ [c])
  = p3_dd 0 (Ps c) + (p3_dd 1 (Ps c) + (p3_dd 2 (Ps c) + 0)).
Proof.
  intros Hs. unfold lap_v. rewrite last_app1, cell0_app.
  destruct HM as [Hnd Hg]. rewrite Hnd. cbn [iota map fsum fold_right].
  rewrite !(dax2_poly3 M org _ valid _ _ i j k Hv (conj Hnd Hg) (Hs _)) by (try assumption; lia).
  reflexivity.
Qed.

End Cell.
End Exact.
