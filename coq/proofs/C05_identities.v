(* C05: curl (grad f) = 0 and div (curl v) = 0, exactly in K, on every fully valid 3-d mesh:
   any numbers of cells (incl. 1 and 2), anisotropic cells (even h = 0 of the totalised division),
   open and periodic directions in any combination, any component-to-axis assignment r of v. *)
From Coq Require Import Field.
From DF Require Import Prelude Constants_gen FieldK NDArray Diff Calculus ListLemmas
     C04_proofs C04_linear C04_ring C06_proofs C05_stencil.

Section Identities.
Variable K : FOps.
Hypothesis HK : field_theory (f0 K) (f1 K) (@fadd K) (@fmul K) (@fsub K) (@fopp K) (@fdiv K) (@finv K) eq.
Add Field Kfield52 : HK.
Notation "0" := (f0 K).
Infix "+" := fadd. Infix "-" := fsub.

Lemma last_app1 {A} (l : list A) x d : last (l ++ [x]) d = x.
Proof. induction l as [|y l IH]; [reflexivity|]. simpl. destruct (l ++ [x]) eqn:E; [destruct l; discriminate | exact IH]. Qed.

Lemma removelast_app1 {A} (l : list A) x : removelast (l ++ [x]) = l.
Proof. rewrite removelast_app by discriminate. simpl. apply app_nil_r. Qed.

Lemma cell0_app (q : idx) z : cell0 (q ++ [z]) = q ++ [0%nat].
Proof. unfold cell0. rewrite removelast_app1. reflexivity. Qed.

Lemma set_nth_app {A} a (x : A) q r : (a < length q)%nat -> set_nth a x (q ++ r) = set_nth a x q ++ r.
Proof.
  revert a. induction q as [|y q IH]; intros a H; simpl in H; [lia|].
  destruct a as [|a]; simpl; [reflexivity|]. f_equal. apply IH. lia.
Qed.

Lemma set_nth_length {A} a (x : A) q : length (set_nth a x q) = length q.
Proof. revert a. induction q as [|y q IH]; intros [|a]; simpl; try reflexivity. f_equal. apply IH. Qed.

Lemma nth_app_idx (q : idx) z a : (a < length q)%nat -> nth a (q ++ [z]) 0%nat = nth a q 0%nat.
Proof. intros H. apply app_nth1. exact H. Qed.

(* component c of the gradient array is the derivative along axis c *)
Lemma comp_grad (M : cmesh K) f valid c (q : idx) z :
  comp K c (grad_v K M f valid) (q ++ [z]) = dax K M 1 c (comp K 0 f) valid (q ++ [0%nat]).
Proof.
  unfold comp at 1. rewrite removelast_app1. unfold grad_v.
  rewrite last_app1, cell0_app. reflexivity.
Qed.

Lemma comp_curl (M : cmesh K) r v valid c (q : idx) z :
  comp K c (curl_v K M r v valid) (q ++ [z])
  = dax K M 1 ((c + 1) mod 3) (comp K (nth ((c + 2) mod 3) r 0%nat) v) valid (q ++ [0%nat])
    - dax K M 1 ((c + 2) mod 3) (comp K (nth ((c + 1) mod 3) r 0%nat) v) valid (q ++ [0%nat]).
Proof.
  unfold comp at 1. rewrite removelast_app1. unfold curl_v.
  rewrite last_app1, cell0_app. reflexivity.
Qed.

Definition in_mesh (M : cmesh K) (q : idx) : Prop :=
  length q = cm_nd M /\ forall a, (a < cm_nd M)%nat -> (nth a q 0 < nth a (cm_sh M) 0)%nat.

(* replace, under a derivative along axis a taken at cell q, an array by another one that agrees with
   it on the cells of the mesh *)
Lemma dax_ext_cells (M : cmesh K) order a g g' valid (q : idx) :
  (a < cm_nd M)%nat -> length q = cm_nd M ->
  (forall q' : idx, length q' = cm_nd M -> g (q' ++ [0%nat]) = g' (q' ++ [0%nat])) ->
  dax K M order a g valid (q ++ [0%nat]) = dax K M order a g' valid (q ++ [0%nat]).
Proof.
  intros Ha Hq H. apply dax_ext; [exact Ha|]. intros j _.
  rewrite set_nth_app by lia. apply H. rewrite set_nth_length. exact Hq.
Qed.

Theorem curl_grad_zero (M : cmesh K) f valid (q : idx) k :
  cm_nd M = 3%nat -> (forall j, valid j = true) -> in_mesh M q -> (k < 3)%nat ->
  curl_v K M [0; 1; 2]%nat (grad_v K M f valid) valid (q ++ [k]) = 0.
Proof.
  intros Hnd Hv [Hq Hin] Hk.
  unfold curl_v. rewrite last_app1, cell0_app.
  set (F := comp K 0 f).
  assert (E : forall a c, (a < 3)%nat ->
            dax K M 1 a (comp K c (grad_v K M f valid)) valid (q ++ [0%nat])
            = dax K M 1 a (dax K M 1 c F valid) valid (q ++ [0%nat])).
  { intros a c Ha. apply dax_ext_cells; [lia | exact Hq|]. intros q' _. apply comp_grad. }
  assert (C : forall a b, (a < 3)%nat -> (b < 3)%nat -> a <> b ->
            dax K M 1 a (dax K M 1 b F valid) valid (q ++ [0%nat])
            = dax K M 1 b (dax K M 1 a F valid) valid (q ++ [0%nat])).
  { intros a b Ha Hb Hab.
    apply (@dax_comm K HK); auto; try lia; rewrite nth_app_idx by lia; apply Hin; lia. }
  destruct k as [|[|[|k]]]; try lia; cbn [Nat.add Nat.modulo Nat.divmod fst snd Nat.sub nth];
    rewrite !E by lia.
  - rewrite (C 1%nat 2%nat) by lia. ring.
  - rewrite (C 2%nat 0%nat) by lia. ring.
  - rewrite (C 0%nat 1%nat) by lia. ring.
Qed.

Theorem div_curl_zero (M : cmesh K) r v valid (q : idx) z :
  cm_nd M = 3%nat -> (forall j, valid j = true) -> in_mesh M q ->
  div_v K M [0; 1; 2]%nat (curl_v K M r v valid) valid (q ++ [z]) = 0.
Proof.
  intros Hnd Hv [Hq Hin].
  unfold div_v. rewrite cell0_app. cbn [length iota map fsum fold_right nth].
  set (W := fun a => comp K (nth a r 0%nat) v).
  set (p := q ++ [0%nat]).
  assert (Hp : forall a, (a < 3)%nat -> (nth a p 0 < nth a (cm_sh M) 0)%nat).
  { intros a Ha. unfold p. rewrite nth_app_idx by lia. apply Hin. lia. }
  assert (E : forall c, (c < 3)%nat ->
            dax K M 1 c (comp K c (curl_v K M r v valid)) valid p
            = dax K M 1 c (dax K M 1 ((c + 1) mod 3) (W ((c + 2) mod 3)%nat) valid) valid p
              - dax K M 1 c (dax K M 1 ((c + 2) mod 3) (W ((c + 1) mod 3)%nat) valid) valid p).
  { intros c Hc. rewrite <- (@dax_sub K HK) by (auto; lia).
    apply dax_ext_cells; [lia | exact Hq|]. intros q' _. apply comp_curl. }
  assert (C : forall a b g, (a < 3)%nat -> (b < 3)%nat -> a <> b ->
            dax K M 1 a (dax K M 1 b g valid) valid p = dax K M 1 b (dax K M 1 a g valid) valid p).
  { intros a b g Ha Hb Hab. apply (@dax_comm K HK); auto; lia. }
  rewrite !E by lia. cbn [Nat.add Nat.modulo Nat.divmod fst snd Nat.sub].
  rewrite (C 0%nat 1%nat (W 2%nat)), (C 1%nat 2%nat (W 0%nat)), (C 2%nat 0%nat (W 1%nat)) by lia. ring.
Qed.

End Identities.
