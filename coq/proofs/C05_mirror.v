(* C05 (rotation route, step 1): mirror symmetry of the stencil set.
   Reversing a line reverses its derivative, with sign -1 for the first and +1 for the second
   derivative -- for every run length, for arbitrary validity masks (reversed along), open and
   periodic.  The proof uses the symmetry of the coefficient tuples read from the source
   (Constants_gen: d2_last* = d2_first* mirrored, d2_interior a palindrome) and of numpy.gradient's
   one-sided ends; an asymmetric change of a tuple breaks it. *)
From Coq Require Import Field.
From DF Require Import Prelude Constants_gen FieldK NDArray Diff ListLemmas C04_proofs C04_linear C04_ring.

Section Mirror.
Variable K : FOps.
Hypothesis HK : field_theory (f0 K) (f1 K) (@fadd K) (@fmul K) (@fsub K) (@fopp K) (@fdiv K) (@finv K) eq.
Add Field Kfield54 : HK.
Notation "0" := (f0 K).
Notation "1" := (f1 K).
Infix "+" := fadd. Infix "*" := fmul. Infix "-" := fsub. Infix "/" := fdiv.
Notation two := (f2 K).

Definition msign (order : nat) (x : K) : K := match order with 1%nat => fopp x | _ => x end.

Lemma msign_0 order : msign order 0 = 0.
Proof. destruct order as [|[|o]]; simpl; try reflexivity. ring. Qed.

Lemma nth_rev0 (a : list K) k : (k < length a)%nat -> nth k (rev a) 0 = nth (length a - 1 - k) a 0.
Proof. intros H. rewrite rev_nth by exact H. f_equal. lia. Qed.

Lemma d1_at_rev (a : list K) h j j' : (2 <= length a)%nat -> (j + j' = length a - 1)%nat ->
  d1_at K (rev a) h j = fopp (d1_at K a h j').
Proof.
  intros HL Hj. unfold d1_at. rewrite rev_length. set (L := length a) in *.
  destruct (Nat.ltb_spec L 3) as [S3 | L3].
  - assert (E : L = 2%nat) by lia. rewrite !nth_rev0 by (fold L; lia). fold L. rewrite E. cbn [Nat.sub].
    rewrite !(@fdiv_def K HK). ring.
  - destruct (Nat.eqb_spec j 0) as [J0 | J0].
    + assert (E' : j' = (L - 1)%nat) by lia. subst j'.
      destruct (Nat.eqb_spec (L - 1) 0); [lia|]. rewrite Nat.eqb_refl.
      rewrite !nth_rev0 by (fold L; lia). fold L.
      replace (L - 1 - 0)%nat with (L - 1)%nat by lia.
      replace (L - 1 - 1)%nat with (L - 2)%nat by lia.
      replace (L - 1 - 2)%nat with (L - 3)%nat by lia.
      rewrite !(@fdiv_def K HK). ring.
    + destruct (Nat.eqb_spec j (L - 1)) as [J1 | J1].
      * assert (E' : j' = 0%nat) by lia. subst j'. cbn [Nat.eqb].
        rewrite !nth_rev0 by (fold L; lia). fold L.
        replace (L - 1 - (L - 1))%nat with 0%nat by lia.
        replace (L - 1 - (L - 2))%nat with 1%nat by lia.
        replace (L - 1 - (L - 3))%nat with 2%nat by lia.
        rewrite !(@fdiv_def K HK). ring.
      * destruct (Nat.eqb_spec j' 0); [lia|]. destruct (Nat.eqb_spec j' (L - 1)); [lia|].
        rewrite !nth_rev0 by (fold L; lia). fold L.
        replace (L - 1 - (j + 1))%nat with (j' - 1)%nat by lia.
        replace (L - 1 - (j - 1))%nat with (j' + 1)%nat by lia.
        rewrite !(@fdiv_def K HK). ring.
Qed.

Lemma d2_at_rev (a : list K) h j j' : (3 <= length a)%nat -> (j + j' = length a - 1)%nat ->
  d2_at K (rev a) h j = d2_at K a h j'.
Proof.
  intros HL Hj. unfold d2_at. rewrite rev_length. set (L := length a) in *.
  destruct (Nat.eqb_spec j 0) as [J0 | J0].
  - assert (E' : j' = (L - 1)%nat) by lia. subst j'.
    destruct (Nat.eqb_spec (L - 1) 0); [lia|]. rewrite Nat.eqb_refl.
    destruct (Nat.ltb_spec L 4) as [S4 | L4];
      rewrite !nth_rev0 by (fold L; lia); fold L;
      replace (L - 1 - 0)%nat with (L - 1)%nat by lia;
      replace (L - 1 - 1)%nat with (L - 2)%nat by lia;
      replace (L - 1 - 2)%nat with (L - 3)%nat by lia;
      try replace (L - 1 - 3)%nat with (L - 4)%nat by lia;
      norm_stencil; rewrite !(@fdiv_def K HK); ring.
  - destruct (Nat.eqb_spec j (L - 1)) as [J1 | J1].
    + assert (E' : j' = 0%nat) by lia. subst j'. cbn [Nat.eqb].
      destruct (Nat.ltb_spec L 4) as [S4 | L4];
        rewrite !nth_rev0 by (fold L; lia); fold L;
        replace (L - 1 - (L - 1))%nat with 0%nat by lia;
        replace (L - 1 - (L - 2))%nat with 1%nat by lia;
        replace (L - 1 - (L - 3))%nat with 2%nat by lia;
        try replace (L - 1 - (L - 4))%nat with 3%nat by lia;
        norm_stencil; rewrite !(@fdiv_def K HK); ring.
    + destruct (Nat.eqb_spec j' 0); [lia|]. destruct (Nat.eqb_spec j' (L - 1)); [lia|].
      destruct (Nat.ltb_spec L 4) as [S4 | L4];
        rewrite !nth_rev0 by (fold L; lia); fold L;
        replace (L - 1 - (j + 1))%nat with (j' - 1)%nat by lia;
        replace (L - 1 - (j - 1))%nat with (j' + 1)%nat by lia;
        replace (L - 1 - j)%nat with j' by lia;
        norm_stencil; rewrite !(@fdiv_def K HK); ring.
Qed.

Lemma map_msign_zeros order (l : list K) :
  map (msign order) (rev (map (fun _ => 0) l)) = map (fun _ => 0) (rev l).
Proof.
  rewrite <- map_rev, map_map. apply map_ext. intros _. apply msign_0.
Qed.

Lemma nth_map_msign order (l : list K) j : nth j (map (msign order) l) 0 = msign order (nth j l 0).
Proof.
  revert j. induction l as [|x l IH]; intros [|j]; simpl; try (symmetry; apply msign_0); try reflexivity.
  apply IH.
Qed.

(* one run *)
Theorem d_run_rev order (a : list K) h : (order = 1 \/ order = 2)%nat ->
  d_run K order (rev a) h = map (msign order) (rev (d_run K order a h)).
Proof.
  intros Ho. unfold d_run. rewrite rev_length.
  destruct (Nat.ltb_spec (length a) (order + 1)) as [S | L].
  - rewrite map_msign_zeros. reflexivity.
  - apply nth_ext with (d := 0) (d' := 0).
    + rewrite !map_length, rev_length, map_length, !iota_length. reflexivity.
    + intros j Hj. rewrite map_length, iota_length in Hj.
      rewrite nth_map_iota by exact Hj.
      rewrite nth_map_msign.
      rewrite rev_nth by (rewrite map_length, iota_length; exact Hj).
      rewrite map_length, iota_length.
      rewrite nth_map_iota by lia.
      destruct Ho; subst order; simpl msign.
      * apply d1_at_rev; lia.
      * apply d2_at_rev; lia.
Qed.

(* ---------------- split / differentiate / combine ---------------- *)
Lemma mask_cases (m : list bool) :
  m = repeat true (length m) \/
  exists k bs, m = repeat true k ++ false :: bs.
Proof.
  induction m as [|b m IH]; [left; reflexivity|].
  destruct b.
  - destruct IH as [E | [k [bs E]]].
    + left. simpl. f_equal. exact E.
    + right. exists (S k), bs. simpl. f_equal. exact E.
  - right. exists 0%nat, m. reflexivity.
Qed.

Lemma rev_repeat {A} (x : A) n : rev (repeat x n) = repeat x n.
Proof.
  induction n as [|n IH]; [reflexivity|]. simpl. rewrite IH.
  clear. induction n as [|n IH]; [reflexivity|]. simpl. f_equal. exact IH.
Qed.

Theorem sdc_rev order h : (order = 1 \/ order = 2)%nat ->
  forall n (vals : list K) valid, length vals = n -> length valid = n ->
  sdc K order h (rev vals) (rev valid) = map (msign order) (rev (sdc K order h vals valid)).
Proof.
  intros Ho n. induction n as [n IH] using lt_wf_ind. intros vals valid Hv Hm.
  destruct (mask_cases valid) as [E | [k [bs E]]].
  - rewrite E, rev_repeat. rewrite Hm, <- Hv.
    rewrite <- (rev_length vals) at 1. rewrite !sdc_all_valid. apply d_run_rev. exact Ho.
  - subst valid. rewrite app_length, repeat_length in Hm. simpl in Hm.
    set (r := firstn k vals). set (rest := skipn k vals).
    assert (Hr : length r = k) by (unfold r; rewrite firstn_length; lia).
    assert (Hs : vals = r ++ rest) by (unfold r, rest; symmetry; apply firstn_skipn).
    destruct rest as [|x vs] eqn:Erest.
    { exfalso. rewrite Hs, app_length in Hv. simpl in Hv. lia. }
    assert (Hvs : length vs = length bs).
    { rewrite Hs, app_length in Hv. simpl in Hv. lia. }
    rewrite Hs. rewrite <- Hr at 2.
    rewrite sdc_run_at_start.
    rewrite !rev_app_distr. simpl rev. rewrite <- !app_assoc. simpl app.
    rewrite sdc_false_split by (rewrite !rev_length; exact Hvs).
    rewrite rev_repeat, <- Hr, <- (rev_length r), sdc_all_valid.
    rewrite (IH (length vs)) by (try reflexivity; try (symmetry; exact Hvs); lia).
    rewrite d_run_rev by exact Ho.
    rewrite !map_app. simpl map. rewrite msign_0. reflexivity.
Qed.

(* ---------------- periodic ghost cells ---------------- *)
Lemma last_rev {A} (l : list A) d : last (rev l) d = hd d l.
Proof. destruct l as [|x l]; [reflexivity|]. simpl. apply last_last. Qed.

Lemma hd_rev {A} (l : list A) d : hd d (rev l) = last l d.
Proof. rewrite <- (rev_involutive l) at 2. rewrite last_rev. reflexivity. Qed.

Lemma wrap1_rev {A} (d : A) l : wrap1 d (rev l) = rev (wrap1 d l).
Proof.
  destruct l as [|x l]; [reflexivity|].
  assert (W : forall m : list A, m <> [] -> wrap1 d m = last m d :: m ++ [hd d m]).
  { intros [|y m] Hm; [congruence | reflexivity]. }
  rewrite (W (x :: l)) by discriminate.
  rewrite W.
  - rewrite last_rev, hd_rev.
    change (rev (last (x :: l) d :: (x :: l) ++ [hd d (x :: l)]))
      with (rev ((x :: l) ++ [hd d (x :: l)]) ++ [last (x :: l) d]).
    rewrite rev_app_distr. reflexivity.
  - intros C. apply (f_equal (@length A)) in C. rewrite rev_length in C. discriminate.
Qed.

Lemma removelast_rev {A} (l : list A) : removelast (rev l) = rev (tl l).
Proof.
  destruct l as [|x l]; [reflexivity|]. simpl. rewrite removelast_app by discriminate.
  simpl. apply app_nil_r.
Qed.

Lemma tl_rev {A} (l : list A) : tl (rev l) = rev (removelast l).
Proof.
  rewrite <- (rev_involutive l) at 2. rewrite removelast_rev, rev_involutive. reflexivity.
Qed.

Lemma crop1_rev {A} (l : list A) : crop1 (rev l) = rev (crop1 l).
Proof.
  unfold crop1. rewrite tl_rev, removelast_rev.
  f_equal. clear. destruct l as [|x l]; [reflexivity|]. simpl.
  destruct l as [|y l]; reflexivity.
Qed.

Lemma crop1_map {A B} (g : A -> B) l : crop1 (map g l) = map g (crop1 l).
Proof.
  unfold crop1. destruct l as [|x l]; [reflexivity|]. simpl.
  induction l as [|y l IH]; [reflexivity|]. simpl. destruct l as [|z l]; [reflexivity|].
  simpl in *. f_equal. exact IH.
Qed.

(* the derivative of a whole line, as Field.diff computes it (restrict2valid = True) *)
Theorem diff_line_rev order h per (vals : list K) valid :
  (order = 1 \/ order = 2)%nat -> length vals = length valid ->
  diff_line K order h per true (rev vals) (rev valid)
  = map (msign order) (rev (diff_line K order h per true vals valid)).
Proof.
  intros Ho Hl. unfold diff_line. destruct per.
  - rewrite !wrap1_rev.
    assert (Hw : length (wrap1 true valid) = length (wrap1 0 vals)).
    { destruct vals as [|x vs], valid as [|b bs]; try discriminate; [reflexivity|].
      rewrite !wrap1_length by discriminate. rewrite Hl. reflexivity. }
    rewrite (@sdc_rev order h Ho _ (wrap1 0 vals) (wrap1 true valid) eq_refl Hw).
    rewrite crop1_map, crop1_rev. reflexivity.
  - apply (@sdc_rev order h Ho _ vals valid eq_refl). symmetry. exact Hl.
Qed.

End Mirror.
