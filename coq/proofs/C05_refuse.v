(* C05: the refusals of grad / div / curl / laplace. *)
From DF Require Import Prelude FieldK NDArray Diff Calculus.

Section Refuse.
Variable K : FOps.

Lemma grad_refuses_vectors M dims nv vdims vmap (f : idx -> K) valid :
  nv <> 1%nat -> run_op K OGrad M dims nv vdims vmap f valid = Err ValueE.
Proof. intros H. unfold run_op. destruct (Nat.eqb_spec nv 1); [contradiction | reflexivity]. Qed.

End Refuse.
