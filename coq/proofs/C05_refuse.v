(* C05: how the label dictionaries are read (spelling does not matter), what each operator returns in
   terms of C04's line derivative, and the refusals. *)
From DF Require Import Prelude FieldK NDArray Diff Calculus.

(* ---------------- dictionary look-ups under renaming ---------------- *)
Section Rename.
Variables rho delta : string -> string.
Hypothesis rho_inj : forall s t, rho s = rho t -> s = t.
Hypothesis delta_inj : forall s t, delta s = delta t -> s = t.

Definition ren_map (m : sdict) : sdict := map (fun ab => (rho (fst ab), delta (snd ab))) m.

Lemma eqb_inj (g : string -> string) : (forall s t, g s = g t -> s = t) ->
  forall s t, String.eqb (g s) (g t) = String.eqb s t.
Proof.
  intros Hg s t. destruct (String.eqb_spec s t) as [E | N].
  - subst. apply String.eqb_refl.
  - apply String.eqb_neq. intros C. apply N. apply Hg. exact C.
Qed.

Lemma dlookup_ren k m : dlookup (rho k) (ren_map m) = option_map delta (dlookup k m).
Proof.
  induction m as [|[a b] m IH]; [reflexivity|]. simpl.
  rewrite (eqb_inj rho rho_inj). destruct (String.eqb k a); [reflexivity | exact IH].
Qed.

Lemma rlookup_ren v m : rlookup (delta v) (ren_map m) = option_map rho (rlookup v m).
Proof.
  induction m as [|[a b] m IH]; [reflexivity|]. simpl. rewrite IH.
  destruct (rlookup v m); [reflexivity|]. simpl.
  rewrite (eqb_inj delta delta_inj). destruct (String.eqb v b); reflexivity.
Qed.

Lemma index_of_ren (g : string -> string) (Hg : forall s t, g s = g t -> s = t) s l :
  index_of (g s) (map g l) = index_of s l.
Proof.
  induction l as [|h l IH]; [reflexivity|]. simpl. rewrite (eqb_inj g Hg).
  destruct (String.eqb s h); [reflexivity|]. rewrite IH. reflexivity.
Qed.

Lemma axis_of_ren m dims v : axis_of (ren_map m) (map delta dims) (rho v) = axis_of m dims v.
Proof.
  unfold axis_of. rewrite dlookup_ren. destruct (dlookup v m) as [d|]; [|reflexivity]. simpl.
  rewrite (index_of_ren delta delta_inj). reflexivity.
Qed.

Lemma comp_of_dim_ren vs m d :
  comp_of_dim (map rho vs) (ren_map m) (delta d) = comp_of_dim vs m d.
Proof.
  unfold comp_of_dim. rewrite rlookup_ren. destruct (rlookup d m) as [v|]; [|reflexivity]. simpl.
  rewrite (index_of_ren rho rho_inj). reflexivity.
Qed.

Lemma mapR_map {A B C} (f : B -> res C) (g : A -> B) l : mapR f (map g l) = mapR (fun x => f (g x)) l.
Proof. induction l as [|x l IH]; [reflexivity|]. simpl. rewrite IH. reflexivity. Qed.

Lemma mapR_ext {A B} (f g : A -> res B) l : (forall x, f x = g x) -> mapR f l = mapR g l.
Proof. intros H. induction l as [|x l IH]; [reflexivity|]. simpl. rewrite H, IH. reflexivity. Qed.

Theorem fwd_axes_ren vdims m dims :
  fwd_axes (option_map (map rho) vdims) (ren_map m) (map delta dims) = fwd_axes vdims m dims.
Proof.
  destruct vdims as [vs|]; [|reflexivity]. simpl. rewrite mapR_map.
  apply mapR_ext. intros v. apply axis_of_ren.
Qed.

Theorem rev_comps_ren vdims m dims :
  rev_comps (option_map (map rho) vdims) (ren_map m) (map delta dims) = rev_comps vdims m dims.
Proof.
  destruct vdims as [vs|]; [|reflexivity]. simpl. rewrite mapR_map.
  apply mapR_ext. intros d. apply comp_of_dim_ren.
Qed.

(* the spelling of component labels and of dimension names is irrelevant to all four operators:
   only which label is mapped to which axis matters *)
Theorem run_op_ren (K : FOps) op (M : cmesh K) dims nv vdims m (f : idx -> K) valid :
  run_op K op M (map delta dims) nv (option_map (map rho) vdims) (ren_map m) f valid
  = run_op K op M dims nv vdims m f valid.
Proof.
  unfold run_op. destruct op; try reflexivity.
  - rewrite fwd_axes_ren. reflexivity.
  - rewrite fwd_axes_ren, rev_comps_ren. reflexivity.
  - destruct vdims; reflexivity.
Qed.

End Rename.

(* ---------------- what the look-ups deliver ---------------- *)
Lemma mapR_ok_nth {A B} (f : A -> res B) l r dA dB :
  mapR f l = OK r -> length r = length l /\ forall c, (c < length l)%nat -> f (nth c l dA) = OK (nth c r dB).
Proof.
  revert r. induction l as [|x l IH]; intros r H; simpl in H.
  - inversion H. split; [reflexivity | intros c Hc; simpl in Hc; lia].
  - destruct (f x) as [y|e] eqn:Ex; simpl in H; [|discriminate].
    destruct (mapR f l) as [t|e] eqn:Et; simpl in H; [|discriminate]. inversion H. subst r.
    destruct (IH t eq_refl) as [Hl Hn]. split; [simpl; congruence|].
    intros [|c] Hc; simpl; [exact Ex | apply Hn; simpl in Hc; lia].
Qed.

Lemma mapR_err_in {A B} (f : A -> res B) l x e :
  In x l -> f x = Err e -> exists e', mapR f l = Err e'.
Proof.
  intros Hin Hx. induction l as [|y l IH]; [contradiction|]. simpl.
  destruct Hin as [E | Hin].
  - subst y. rewrite Hx. eexists. reflexivity.
  - destruct (f y); [|eexists; reflexivity]. simpl.
    destruct (IH Hin) as [e' He']. rewrite He'. eexists. reflexivity.
Qed.

(* div / curl accept exactly when every component label is mapped, by the dictionary, to a name in dims;
   component c is then paired with THAT axis *)
Theorem fwd_axes_spec vs m dims axes :
  fwd_axes (Some vs) m dims = OK axes ->
  length axes = length vs /\
  forall c, (c < length vs)%nat ->
    exists d, dlookup (nth c vs ""%string) m = Some d /\ index_of d dims = Some (nth c axes 0%nat).
Proof.
  intros H. simpl in H. destruct (mapR_ok_nth _ _ _ ""%string 0%nat H) as [Hl Hn].
  split; [exact Hl|]. intros c Hc. specialize (Hn c Hc). unfold axis_of in Hn.
  destruct (dlookup (nth c vs ""%string) m) as [d|]; [|discriminate].
  exists d. split; [reflexivity|]. destruct (index_of d dims); [|discriminate]. inversion Hn. reflexivity.
Qed.

Theorem rev_comps_spec vs m dims r :
  rev_comps (Some vs) m dims = OK r ->
  length r = length dims /\
  forall a, (a < length dims)%nat ->
    exists v, rlookup (nth a dims ""%string) m = Some v /\ index_of v vs = Some (nth a r 0%nat).
Proof.
  intros H. simpl in H. destruct (mapR_ok_nth _ _ _ ""%string 0%nat H) as [Hl Hn].
  split; [exact Hl|]. intros a Ha. specialize (Hn a Ha). unfold comp_of_dim in Hn.
  destruct (rlookup (nth a dims ""%string) m) as [v|]; [|discriminate].
  exists v. split; [reflexivity|]. destruct (index_of v vs); [|discriminate]. inversion Hn. reflexivity.
Qed.

(* ---------------- the operators, and their refusals ---------------- *)
Section Ops.
Variable K : FOps.
Variables (M : cmesh K) (dims : list string) (vmap : sdict) (f : idx -> K) (valid : idx -> bool).

(* every derivative inside the four operators is C04's line operator on the grid line through the cell *)
Theorem dax_is_line_derivative order a g (p : idx) :
  dax K M order a g valid p
  = nth (nth a p 0%nat)
        (diff_line K order (nth a (cm_cell M) (f0 K)) (nth a (cm_per M) false) true
                   (line (cm_sh M ++ [1%nat]) g a p) (line (cm_sh M) valid a (removelast p)))
        (f0 K).
Proof. reflexivity. Qed.

Theorem grad_textbook vdims :
  run_op K OGrad M dims 1 vdims vmap f valid = OK (cm_nd M, grad_v K M f valid) /\
  forall (p : idx), grad_v K M f valid p = dax K M 1 (last p 0%nat) (comp K 0 f) valid (cell0 p).
Proof. split; reflexivity. Qed.

Theorem div_textbook vs axes :
  fwd_axes (Some vs) vmap dims = OK axes ->
  run_op K ODiv M dims (cm_nd M) (Some vs) vmap f valid = OK (1%nat, div_v K M axes f valid) /\
  forall (p : idx), div_v K M axes f valid p
    = fsum K (map (fun c => dax K M 1 (nth c axes 0%nat) (comp K c f) valid (cell0 p)) (iota 0 (length axes))).
Proof.
  intros H. split; [|reflexivity]. unfold run_op. rewrite Nat.eqb_refl, H. reflexivity.
Qed.

Theorem curl_textbook vs axes r :
  cm_nd M = 3%nat -> fwd_axes (Some vs) vmap dims = OK axes -> rev_comps (Some vs) vmap dims = OK r ->
  run_op K OCurl M dims 3 (Some vs) vmap f valid = OK (3%nat, curl_v K M r f valid) /\
  forall (p : idx), curl_v K M r f valid p
    = fsub (dax K M 1 ((last p 0 + 1) mod 3)%nat (comp K (nth ((last p 0 + 2) mod 3) r 0)%nat f) valid (cell0 p))
           (dax K M 1 ((last p 0 + 2) mod 3)%nat (comp K (nth ((last p 0 + 1) mod 3) r 0)%nat f) valid (cell0 p)).
Proof.
  intros Hnd H1 H2. split; [|reflexivity]. unfold run_op. rewrite Hnd, H1, H2. reflexivity.
Qed.

Theorem laplace_textbook nv vs :
  run_op K OLap M dims nv (Some vs) vmap f valid = OK (nv, lap_v K M f valid) /\
  forall (p : idx), lap_v K M f valid p
    = fsum K (map (fun a => dax K M 2 a (comp K (last p 0%nat) f) valid (cell0 p)) (iota 0 (cm_nd M))).
Proof.
  split; [|reflexivity]. unfold run_op. destruct (nv =? 1)%nat eqn:E; [|reflexivity].
  apply Nat.eqb_eq in E. subst nv. reflexivity.
Qed.

Lemma grad_refuses_vectors nv vdims :
  nv <> 1%nat -> run_op K OGrad M dims nv vdims vmap f valid = Err ValueE.
Proof. intros H. unfold run_op. destruct (Nat.eqb_spec nv 1); [contradiction | reflexivity]. Qed.

Lemma div_refuses_misfit nv vdims :
  nv <> cm_nd M -> run_op K ODiv M dims nv vdims vmap f valid = Err ValueE.
Proof. intros H. unfold run_op. destruct (Nat.eqb_spec nv (cm_nd M)); [contradiction | reflexivity]. Qed.

Lemma curl_refuses_misfit nv vdims :
  nv <> 3%nat \/ cm_nd M <> 3%nat -> run_op K OCurl M dims nv vdims vmap f valid = Err ValueE.
Proof.
  intros H. unfold run_op.
  destruct (Nat.eqb_spec nv 3); destruct (Nat.eqb_spec (cm_nd M) 3); simpl; try reflexivity.
  destruct H; contradiction.
Qed.

Definition unmapped (v : string) : Prop :=
  dlookup v vmap = None \/ exists d, dlookup v vmap = Some d /\ index_of d dims = None.

Lemma unmapped_axis_of v : unmapped v -> axis_of vmap dims v = Err ValueE.
Proof.
  unfold axis_of. intros [H | [d [H1 H2]]]; [rewrite H; reflexivity | rewrite H1, H2; reflexivity].
Qed.

Definition is_err {A} (r : res A) : Prop := exists e, r = Err e.

(* a component without a mapping entry, or mapped to a name that is not a dimension of the mesh:
   div and curl refuse; so do they for a field without component labels *)
Theorem div_refuses_unmapped nv vs v :
  In v vs -> unmapped v -> is_err (run_op K ODiv M dims nv (Some vs) vmap f valid).
Proof.
  intros Hin Hu. unfold run_op. destruct (nv =? cm_nd M)%nat; [|eexists; reflexivity].
  destruct (mapR_err_in (axis_of vmap dims) vs v _ Hin (@unmapped_axis_of v Hu)) as [e He].
  simpl. rewrite He. eexists. reflexivity.
Qed.

Theorem curl_refuses_unmapped nv vs v :
  In v vs -> unmapped v -> is_err (run_op K OCurl M dims nv (Some vs) vmap f valid).
Proof.
  intros Hin Hu. unfold run_op. destruct ((nv =? 3)%nat && (cm_nd M =? 3)%nat); [|eexists; reflexivity].
  destruct (mapR_err_in (axis_of vmap dims) vs v _ Hin (@unmapped_axis_of v Hu)) as [e He].
  simpl. rewrite He. eexists. reflexivity.
Qed.

(* an axis that no component is mapped to: curl refuses *)
Theorem curl_refuses_uncovered_axis nv vs d :
  In d dims -> rlookup d vmap = None -> is_err (run_op K OCurl M dims nv (Some vs) vmap f valid).
Proof.
  intros Hin Hr. unfold run_op. destruct ((nv =? 3)%nat && (cm_nd M =? 3)%nat); [|eexists; reflexivity].
  destruct (fwd_axes (Some vs) vmap dims) as [ax|e]; [|eexists; reflexivity]. simpl.
  assert (E : comp_of_dim vs vmap d = Err TypeE) by (unfold comp_of_dim; rewrite Hr; reflexivity).
  destruct (mapR_err_in (comp_of_dim vs vmap) dims d _ Hin E) as [e He].
  rewrite He. eexists. reflexivity.
Qed.

Theorem div_curl_refuse_unlabelled op nv :
  op = ODiv \/ op = OCurl -> is_err (run_op K op M dims nv None vmap f valid).
Proof.
  intros [E | E]; subst op; unfold run_op.
  - destruct (nv =? cm_nd M)%nat; eexists; reflexivity.
  - destruct ((nv =? 3)%nat && (cm_nd M =? 3)%nat); eexists; reflexivity.
Qed.

End Ops.
