(* C05 (rotation route, steps 2-3): how the n-d directional derivative behaves under the index maps
   numpy.rot90 is built from (flip along an axis, exchange of two axes), for arbitrary validity
   masks, open and periodic directions; then under rot90 itself. *)
From Coq Require Import Field.
From DF Require Import Prelude Constants_gen FieldK NDArray Diff Calculus ListLemmas
     C04_proofs C04_linear C04_ring C05_stencil C05_identities C05_mirror Rotate90 C12_rot C12_cov.

Ltac applen :=
  repeat match goal with H : context [length (_ ++ _)] |- _ => rewrite app_length in H; simpl in H end;
  try lia.

Section Rot.
Variable K : FOps.
Hypothesis HK : field_theory (f0 K) (f1 K) (@fadd K) (@fmul K) (@fsub K) (@fopp K) (@fdiv K) (@finv K) eq.
Add Field Kfield55 : HK.
Notation "0" := (f0 K).
Infix "+" := fadd. Infix "*" := fmul. Infix "-" := fsub.

(* ---------------- lengths ---------------- *)
Lemma crop1_length {A} (l : list A) : length (crop1 l) = (length l - 2)%nat.
Proof.
  unfold crop1. destruct l as [|x l]; [reflexivity|]. simpl tl.
  destruct l as [|y l]; [reflexivity|].
  assert (H : forall (m : list A), m <> [] -> length (removelast m) = (length m - 1)%nat).
  { intros m Hm. destruct (exists_last Hm) as [m' [z E]]. subst m.
    rewrite removelast_app by discriminate. simpl. rewrite app_nil_r, app_length. simpl. lia. }
  rewrite H by discriminate. simpl. lia.
Qed.

Lemma diff_line_length order h per (vals : list K) valid : length vals = length valid ->
  length (diff_line K order h per true vals valid) = length vals.
Proof.
  intros Hl. unfold diff_line. destruct per; [|apply sdc_length; exact Hl].
  destruct vals as [|x vs], valid as [|b bs]; try discriminate; [rewrite crop1_length, sdc_length by reflexivity; reflexivity|].
  rewrite crop1_length, sdc_length by (rewrite !wrap1_length by discriminate; rewrite Hl; reflexivity).
  rewrite wrap1_length by discriminate. lia.
Qed.

Lemma map_iota_rev {A} (F : nat -> A) n :
  map (fun j => F (n - 1 - j)%nat) (iota 0 n) = rev (map F (iota 0 n)).
Proof.
  destruct n as [|n]; [reflexivity|].
  apply nth_ext with (d := F 0%nat) (d' := F 0%nat).
  - rewrite rev_length, !map_length. reflexivity.
  - intros j Hj. rewrite map_length, iota_length in Hj.
    rewrite rev_nth by (rewrite map_length, iota_length; exact Hj).
    rewrite map_length, iota_length.
    rewrite !nth_map_iota by lia. f_equal. lia.
Qed.

(* ---------------- the pull-back lemma ---------------- *)
(* M' is the mesh of the transformed array g o tau; axis x of M' corresponds to axis y of M,
   traversed in the opposite direction iff fl *)
Definition mpos (fl : bool) (n j : nat) : nat := if fl then (n - 1 - j)%nat else j.
Definition msgn (fl : bool) (order : nat) (v : K) : K := if fl then msign K order v else v.

Theorem dax_pull (M M' : cmesh K) (tau : idx -> idx) (x y : nat) (fl : bool) order g valid (p : idx) :
  (order = 1 \/ order = 2)%nat ->
  nth x (cm_sh M') 0%nat = nth y (cm_sh M) 0%nat ->
  nth x (cm_cell M') 0 = nth y (cm_cell M) 0 ->
  nth x (cm_per M') false = nth y (cm_per M) false ->
  (x < cm_nd M')%nat -> (y < cm_nd M)%nat ->
  (nth x p 0 < nth y (cm_sh M) 0)%nat ->
  (forall j, (j < nth y (cm_sh M) 0)%nat ->
     tau (set_nth x j p) = set_nth y (mpos fl (nth y (cm_sh M) 0%nat) j) (tau p)) ->
  (forall j, (j < nth y (cm_sh M) 0)%nat ->
     tau (set_nth x j (removelast p)) = set_nth y (mpos fl (nth y (cm_sh M) 0%nat) j) (removelast (tau p))) ->
  nth y (tau p) 0%nat = mpos fl (nth y (cm_sh M) 0%nat) (nth x p 0%nat) ->
  dax K M' order x (fun i => g (tau i)) (fun i => valid (tau i)) p
  = msgn fl order (dax K M order y g valid (tau p)).
Proof.
  intros Ho Hn Hh Hper Hx Hy Hp Ht Htv Hpos.
  unfold dax, diff_nd, along_axis2. rewrite Hh, Hper.
  set (n := nth y (cm_sh M) 0%nat) in *.
  set (G := fun j => g (set_nth y j (tau p))).
  set (V := fun j => valid (set_nth y j (removelast (tau p)))).
  assert (L1 : line (cm_sh M' ++ [1%nat]) (fun i => g (tau i)) x p = map (fun j => G (mpos fl n j)) (iota 0 n)).
  { unfold line. rewrite nth_app_sh by exact Hx. rewrite Hn. fold n.
    apply map_ext_in. intros j Hj. apply In_iota in Hj. rewrite Ht by lia. reflexivity. }
  assert (L2 : line (cm_sh M') (fun i => valid (tau i)) x (removelast p) = map (fun j => V (mpos fl n j)) (iota 0 n)).
  { unfold line. rewrite Hn. fold n.
    apply map_ext_in. intros j Hj. apply In_iota in Hj. rewrite Htv by lia. reflexivity. }
  assert (R1 : line (cm_sh M ++ [1%nat]) g y (tau p) = map G (iota 0 n)).
  { unfold line. rewrite nth_app_sh by exact Hy. reflexivity. }
  assert (R2 : line (cm_sh M) valid y (removelast (tau p)) = map V (iota 0 n)).
  { reflexivity. }
  rewrite L1, L2, R1, R2, Hpos. unfold msgn, mpos. destruct fl.
  - rewrite !map_iota_rev.
    rewrite (@diff_line_rev K HK) by (try exact Ho; rewrite !map_length; reflexivity).
    rewrite (@nth_map_msign K HK).
    assert (Ln : length (diff_line K order (nth y (cm_cell M) 0) (nth y (cm_per M) false) true
                                   (map G (iota 0 n)) (map V (iota 0 n))) = n).
    { rewrite diff_line_length by (rewrite !map_length; reflexivity).
      rewrite map_length. apply iota_length. }
    rewrite rev_nth by (rewrite Ln; exact Hp). rewrite Ln.
    f_equal. f_equal. lia.
  - erewrite map_ext; [|intros j; reflexivity].
    reflexivity.
Qed.

(* ---------------- the index maps of numpy.flip / numpy.transpose ---------------- *)
Definition flipi (sh : list nat) (c : nat) (i : idx) : idx :=
  set_nth c (nth c sh 0 - 1 - nth c i 0)%nat i.
Definition swapi (a b : nat) (i : idx) : idx := swap_nth 0%nat a b i.
Definition sigma (a b x : nat) : nat := if (x =? a)%nat then b else if (x =? b)%nat then a else x.

(* mesh of the transposed array: cells per axis, cell sizes AND periodic flags of the two axes exchanged
   (Mesh.rotate90 swaps n and, since 6c074f8c, the two letters in bc for odd k; the region swaps its
   edge lengths) *)
Definition swapM (M : cmesh K) (a b : nat) : cmesh K :=
  mkCMesh K (swap_nth 0%nat a b (cm_sh M)) (swap_nth 0 a b (cm_cell M)) (swap_nth false a b (cm_per M)).

Definition wfM (M : cmesh K) : Prop := length (cm_cell M) = cm_nd M /\ length (cm_per M) = cm_nd M.

Lemma flip_ax_eq {V} sh c (f : idx -> V) : flip_ax sh c f = fun i => f (flipi sh c i).
Proof. reflexivity. Qed.
Lemma swap_ax_eq {V} a b (f : idx -> V) : swap_ax a b f = fun i => f (swapi a b i).
Proof. reflexivity. Qed.

Lemma flipi_app sh c (q : idx) z : (c < length q)%nat -> flipi sh c (q ++ [z]) = flipi sh c q ++ [z].
Proof. intros H. unfold flipi. rewrite set_nth_app by exact H. rewrite app_nth1 by exact H. reflexivity. Qed.

Lemma flipi_sh_app sh v c (i : idx) : (c < length sh)%nat -> flipi (sh ++ [v]) c i = flipi sh c i.
Proof. intros H. unfold flipi. rewrite app_nth1 by exact H. reflexivity. Qed.

Lemma swapi_app a b (q : idx) z : (a < length q)%nat -> (b < length q)%nat ->
  swapi a b (q ++ [z]) = swapi a b q ++ [z].
Proof.
  intros Ha Hb. unfold swapi, swap_nth. rewrite !app_nth1 by assumption.
  rewrite set_nth_app by assumption. rewrite set_nth_app by (rewrite C12_rot.set_nth_length; assumption).
  reflexivity.
Qed.

Lemma flipi_length sh c i : length (flipi sh c i) = length i.
Proof. apply C12_rot.set_nth_length. Qed.
Lemma swapi_length a b i : length (swapi a b i) = length i.
Proof. apply swap_nth_length. Qed.

(* flip along axis c: the derivative along c changes sign (order 1) and is read at the mirrored
   cell; derivatives along the other axes are just read at the mirrored cell *)
Theorem dax_flip (M : cmesh K) c x order g valid (q : idx) z :
  (order = 1 \/ order = 2)%nat -> (c < cm_nd M)%nat -> (x < cm_nd M)%nat -> length q = cm_nd M ->
  (nth x q 0 < nth x (cm_sh M) 0)%nat -> (nth c q 0 < nth c (cm_sh M) 0)%nat ->
  dax K M order x (fun i => g (flipi (cm_sh M) c i)) (fun i => valid (flipi (cm_sh M) c i)) (q ++ [z])
  = msgn (x =? c)%nat order (dax K M order x g valid (flipi (cm_sh M) c q ++ [z])).
Proof.
  intros Ho Hc Hx Hq Hpx Hpc.
  rewrite <- flipi_app by lia.
  apply dax_pull; try assumption; try reflexivity.
  - rewrite app_nth1 by lia. exact Hpx.
  - intros j Hj. unfold flipi, mpos.
    apply nth_ext with (d := 0%nat) (d' := 0%nat); [rewrite !C12_rot.set_nth_length; reflexivity|].
    intros t Ht. rewrite !C12_rot.set_nth_length, app_length in Ht. simpl in Ht.
    destruct (Nat.eqb_spec x c); nthsolve; applen.
  - intros j Hj. rewrite !removelast_app1. rewrite flipi_app by lia. rewrite removelast_app1.
    unfold flipi, mpos.
    apply nth_ext with (d := 0%nat) (d' := 0%nat); [rewrite !C12_rot.set_nth_length; reflexivity|].
    intros t Ht. rewrite !C12_rot.set_nth_length in Ht.
    destruct (Nat.eqb_spec x c); nthsolve; applen.
  - rewrite flipi_app by lia. rewrite !app_nth1 by (rewrite ?flipi_length; lia).
    unfold flipi, mpos. destruct (Nat.eqb_spec x c); nthsolve; applen.
Qed.

(* exchange of axes a and b *)
Theorem dax_swap (M : cmesh K) a b x order g valid (q : idx) z :
  (order = 1 \/ order = 2)%nat -> wfM M -> a <> b -> (a < cm_nd M)%nat -> (b < cm_nd M)%nat ->
  (x < cm_nd M)%nat -> length q = cm_nd M ->
  (nth x q 0 < nth (sigma a b x) (cm_sh M) 0)%nat ->
  dax K (swapM M a b) order x (fun i => g (swapi a b i)) (fun i => valid (swapi a b i)) (q ++ [z])
  = dax K M order (sigma a b x) g valid (swapi a b q ++ [z]).
Proof.
  intros Ho [Hwf Hwp] Hab Ha Hb Hx Hq Hpx.
  rewrite <- swapi_app by lia.
  change (dax K M order (sigma a b x) g valid (swapi a b (q ++ [z])))
    with (msgn false order (dax K M order (sigma a b x) g valid (swapi a b (q ++ [z])))).
  unfold cm_nd in *.
  assert (Hs : (sigma a b x < length (cm_sh M))%nat) by (unfold sigma; nthsolve).
  apply dax_pull; try assumption.
  - unfold swapM, sigma, swap_nth. simpl cm_sh. nthsolve.
  - unfold swapM, sigma, swap_nth. simpl cm_cell. nthsolve.
  - unfold swapM, sigma, swap_nth. simpl cm_per. nthsolve.
  - unfold swapM, cm_nd. simpl cm_sh. rewrite swap_nth_length. exact Hx.
  - rewrite app_nth1 by lia. exact Hpx.
  - intros j Hj. unfold swapi, swap_nth, mpos, sigma.
    apply nth_ext with (d := 0%nat) (d' := 0%nat); [rewrite !C12_rot.set_nth_length; reflexivity|].
    intros t Ht. rewrite !C12_rot.set_nth_length, app_length in Ht. simpl in Ht.
    nthsolve; applen.
  - intros j Hj. rewrite !removelast_app1. rewrite swapi_app by lia. rewrite removelast_app1.
    unfold swapi, swap_nth, mpos, sigma.
    apply nth_ext with (d := 0%nat) (d' := 0%nat); [rewrite !C12_rot.set_nth_length; reflexivity|].
    intros t Ht. rewrite !C12_rot.set_nth_length in Ht.
    nthsolve; applen.
  - rewrite swapi_app by lia. rewrite !app_nth1 by (rewrite ?swapi_length; unfold sigma; nthsolve).
    unfold swapi, swap_nth, mpos, sigma. nthsolve; applen.
Qed.

(* ---------------- numpy.rot90 ---------------- *)
Definition rotM (M : cmesh K) (a b : nat) (k : Z) : cmesh K := if Z.odd k then swapM M a b else M.
(* the source axis whose derivative appears along axis x of the rotated field, and whether it is
   traversed backwards *)
Definition src_ax (a b : nat) (k : Z) (x : nat) : nat := if Z.odd k then sigma a b x else x.
Definition rot_fl (a b : nat) (k : Z) (x : nat) : bool :=
  match (k mod 4)%Z with
  | 0%Z => false
  | 1%Z => (x =? a)%nat
  | 2%Z => ((x =? a) || (x =? b))%nat
  | _ => (x =? b)%nat
  end.

Definition in_rng (sh : list nat) (q : idx) : Prop :=
  length q = length sh /\ forall t, (t < length sh)%nat -> (nth t q 0 < nth t sh 0)%nat.

Lemma msgn_msgn f1 f2 order v : msgn f1 order (msgn f2 order v) = msgn (xorb f1 f2) order v.
Proof.
  unfold msgn, msign. destruct f1, f2; simpl; try reflexivity.
  destruct order as [|[|o]]; try reflexivity. ring.
Qed.

Lemma sigma_eqb_b a b x : a <> b -> (sigma a b x =? b)%nat = (x =? a)%nat.
Proof.
  intros Hab. unfold sigma. destruct (Nat.eqb_spec x a) as [->|N1]; [apply Nat.eqb_refl|].
  destruct (Nat.eqb_spec x b) as [->|N2]; apply Nat.eqb_neq; congruence.
Qed.

Section OneTurn.
Variables (M : cmesh K) (a b : nat).
Hypothesis Hwf : wfM M.
Hypothesis Hab : a <> b.
Hypothesis Ha : (a < cm_nd M)%nat.
Hypothesis Hb : (b < cm_nd M)%nat.
Let sh := cm_sh M.

Lemma rot1 x order g valid (q : idx) z :
  (order = 1 \/ order = 2)%nat -> (x < cm_nd M)%nat ->
  in_rng (swap_nth 0%nat a b sh) q ->
  dax K (swapM M a b) order x
      (fun i => g (flipi sh b (swapi a b i))) (fun i => valid (flipi sh b (swapi a b i))) (q ++ [z])
  = msgn (x =? a)%nat order (dax K M order (sigma a b x) g valid (flipi sh b (swapi a b q) ++ [z])).
Proof.
  intros Ho Hx [Hq Hr]. unfold sh, cm_nd in *. rewrite swap_nth_length in Hq, Hr.
  pose proof (Hr a Ha) as Ra. pose proof (Hr b Hb) as Rb. pose proof (Hr x Hx) as Rx.
  unfold swap_nth in Ra, Rb, Rx.
  rewrite (dax_swap M a b x order (fun i => g (flipi (cm_sh M) b i)) (fun i => valid (flipi (cm_sh M) b i)) q z)
    by (try assumption; unfold sigma; revert Ra Rb Rx; nthsolve).
  assert (Hs : (sigma a b x < length (cm_sh M))%nat) by (unfold sigma; nthsolve).
  rewrite dax_flip; try assumption; try (rewrite swapi_length; exact Hq).
  - f_equal. apply sigma_eqb_b. exact Hab.
  - unfold swapi, swap_nth, sigma. revert Ra Rb Rx. nthsolve.
  - unfold swapi, swap_nth. revert Ra Rb Rx. nthsolve.
Qed.

Lemma rot2 x order g valid (q : idx) z :
  (order = 1 \/ order = 2)%nat -> (x < cm_nd M)%nat -> in_rng sh q ->
  dax K M order x
      (fun i => g (flipi sh a (flipi sh b i))) (fun i => valid (flipi sh a (flipi sh b i))) (q ++ [z])
  = msgn ((x =? a) || (x =? b))%nat order (dax K M order x g valid (flipi sh a (flipi sh b q) ++ [z])).
Proof.
  intros Ho Hx [Hq Hr]. unfold sh, cm_nd in *.
  pose proof (Hr a Ha) as Ra. pose proof (Hr b Hb) as Rb. pose proof (Hr x Hx) as Rx.
  rewrite (dax_flip M b x order (fun i => g (flipi (cm_sh M) a i)) (fun i => valid (flipi (cm_sh M) a i)) q z)
    by assumption.
  rewrite dax_flip; try assumption; try (rewrite flipi_length; exact Hq).
  - rewrite msgn_msgn. f_equal. nthsolve.
  - unfold flipi. revert Ra Rb Rx. nthsolve.
  - unfold flipi. revert Ra Rb Rx. nthsolve.
Qed.

Lemma rot3 x order g valid (q : idx) z :
  (order = 1 \/ order = 2)%nat -> (x < cm_nd M)%nat ->
  in_rng (swap_nth 0%nat a b sh) q ->
  dax K (swapM M a b) order x
      (fun i => g (swapi a b (flipi (swap_nth 0%nat a b sh) b i)))
      (fun i => valid (swapi a b (flipi (swap_nth 0%nat a b sh) b i))) (q ++ [z])
  = msgn (x =? b)%nat order
      (dax K M order (sigma a b x) g valid (swapi a b (flipi (swap_nth 0%nat a b sh) b q) ++ [z])).
Proof.
  intros Ho Hx [Hq Hr]. unfold sh, cm_nd in *. rewrite swap_nth_length in Hq, Hr.
  pose proof (Hr a Ha) as Ra. pose proof (Hr b Hb) as Rb. pose proof (Hr x Hx) as Rx.
  assert (Hnd : cm_nd (swapM M a b) = length (cm_sh M)).
  { unfold cm_nd, swapM. simpl. apply swap_nth_length. }
  etransitivity.
  { apply (dax_flip (swapM M a b) b x order (fun i => g (swapi a b i)) (fun i => valid (swapi a b i)) q z);
      rewrite ?Hnd; try assumption; try exact Rx; try exact Rb. }
  f_equal. simpl cm_sh.
  apply dax_swap; try assumption.
  - rewrite flipi_length. exact Hq.
  - unfold flipi, swap_nth, sigma in *. revert Ra Rb Rx. nthsolve.
Qed.

End OneTurn.

Lemma flip_ax_sh1 {V} (sh : list nat) v c (f : idx -> V) : (c < length sh)%nat ->
  flip_ax (sh ++ [v]) c f = flip_ax sh c f.
Proof. intros H. unfold flip_ax. rewrite app_nth1 by exact H. reflexivity. Qed.

Lemma swap_nth_app1 (sh : list nat) v a b : (a < length sh)%nat -> (b < length sh)%nat ->
  swap_nth 0%nat a b (sh ++ [v]) = swap_nth 0%nat a b sh ++ [v].
Proof.
  intros Ha Hb. unfold swap_nth. rewrite !app_nth1 by assumption.
  rewrite set_nth_app by assumption. rewrite set_nth_app by (rewrite C12_rot.set_nth_length; assumption).
  reflexivity.
Qed.

(* the directional derivative of the rotated field = (signed) rotated derivative of the field along
   the source axis; arbitrary masks (rotated along), any numbers of cells, any k.
   Periodic directions: ANY set of periodic axes; the rotated mesh rotM carries the periodic flags of the
   two axes exchanged for odd k, as Mesh.rotate90 does. *)
Theorem dax_rot90 (M : cmesh K) a b k x order g valid (q : idx) z :
  wfM M -> a <> b -> (a < cm_nd M)%nat -> (b < cm_nd M)%nat -> (x < cm_nd M)%nat ->
  (order = 1 \/ order = 2)%nat ->
  in_rng (cm_sh (rotM M a b k)) q ->
  dax K (rotM M a b k) order x
      (rot90 (cm_sh M ++ [1%nat]) a b k g) (rot90 (cm_sh M) a b k valid) (q ++ [z])
  = msgn (rot_fl a b k x) order
      (rot90 (cm_sh M ++ [1%nat]) a b k (dax K M order (src_ax a b k x) g valid) (q ++ [z])).
Proof.
  intros Hwf Hab Ha Hb Hx Ho Hq.
  assert (La : (a < length (cm_sh M))%nat) by exact Ha.
  assert (Lb : (b < length (cm_sh M))%nat) by exact Hb.
  assert (Na : nth a (cm_sh M ++ [1%nat]) 0%nat = nth a (cm_sh M) 0%nat) by (apply app_nth1; exact La).
  assert (Nb : nth b (cm_sh M ++ [1%nat]) 0%nat = nth b (cm_sh M) 0%nat) by (apply app_nth1; exact Lb).
  assert (Nb' : nth b (swap_nth 0%nat a b (cm_sh M ++ [1%nat])) 0%nat = nth b (swap_nth 0%nat a b (cm_sh M)) 0%nat).
  { rewrite !nth_swap_nth_r by (rewrite ?app_length; simpl; lia). exact Na. }
  destruct Hq as [Hq Hr].
  assert (Lq : length q = length (cm_sh M)).
  { rewrite Hq. unfold rotM. destruct (Z.odd k); [apply swap_nth_length | reflexivity]. }
  unfold rotM, src_ax, rot_fl, rot90 in *. rewrite <- (odd_mod4 k) in *.
  destruct (mod4_cases k) as [H|[H|[H|H]]]; rewrite H in *; cbn [Z.odd] in *.
  - reflexivity.
  - rewrite !(flip_ax_sh1 (cm_sh M) 1%nat b) by exact Lb.
    change (swap_ax a b (flip_ax (cm_sh M) b (dax K M order (sigma a b x) g valid)) (q ++ [z]))
      with (dax K M order (sigma a b x) g valid (flipi (cm_sh M) b (swapi a b (q ++ [z])))).
    rewrite swapi_app by lia. rewrite flipi_app by (rewrite swapi_length; lia).
    apply (rot1 M a b Hwf Hab Ha Hb x order g valid q z Ho Hx). split; assumption.
  - rewrite !(flip_ax_sh1 (cm_sh M) 1%nat b) by exact Lb.
    rewrite !(flip_ax_sh1 (cm_sh M) 1%nat a) by exact La.
    change (flip_ax (cm_sh M) b (flip_ax (cm_sh M) a (dax K M order x g valid)) (q ++ [z]))
      with (dax K M order x g valid (flipi (cm_sh M) a (flipi (cm_sh M) b (q ++ [z])))).
    rewrite (flipi_app (cm_sh M) b) by lia. rewrite flipi_app by (rewrite flipi_length; lia).
    apply (rot2 M a b Hab Ha Hb x order g valid q z Ho Hx). split; assumption.
  - rewrite !swap_nth_app1 by assumption.
    rewrite !(flip_ax_sh1 (swap_nth 0%nat a b (cm_sh M)) 1%nat b) by (rewrite swap_nth_length; exact Lb).
    change (flip_ax (swap_nth 0%nat a b (cm_sh M)) b (swap_ax a b (dax K M order (sigma a b x) g valid)) (q ++ [z]))
      with (dax K M order (sigma a b x) g valid (swapi a b (flipi (swap_nth 0%nat a b (cm_sh M)) b (q ++ [z])))).
    rewrite flipi_app by lia. rewrite swapi_app by (rewrite flipi_length; lia).
    apply (rot3 M a b Hwf Hab Ha Hb x order g valid q z Ho Hx). split; assumption.
Qed.

End Rot.
