(* C05: soundness of check_C05 - an accepted case certifies that the OBSERVED outcome of one call of
   Field.grad / div / curl / laplace is the model's: the call raised exactly when run_op refuses, and
   otherwise the observed number of components is the model's, the observed array is (exact regime) the
   model's array or (scale regime) within c05_tol * scale of it entry by entry, and the observed labels
   say what the property says about them.  Hence the C05 theorems apply to the observation itself. *)
From Coq Require Import Qcanon.
From DF Require Import Prelude FieldK NDArray Diff Calculus ListLemmas CheckSound Check_C05
     C04_proofs C05_stencil C05_identities C05_exact C05_refuse C08_arrays.

Ltac split_andb :=
  repeat match goal with
         | H : _ && _ = true |- _ => apply andb_true_iff in H; destruct H
         end.

(* the model objects the checker builds from the recorded inputs *)
Definition c05M (sh : list nat) (cell : list Q) (per : list bool) : cmesh QcOps := mkCMesh QcOps sh (qcl cell) per.
Definition c05f (sh : list nat) (nv : nat) (vals : list Q) : idx -> Qc := of_list (f0 QcOps) (sh ++ [nv]) (qcl vals).
Definition c05v (sh : list nat) (valid : list bool) : idx -> bool := of_list true sh valid.
Definition c05_run op sh cell per dims nv vdims vmap vals valid : res (nat * (idx -> Qc)) :=
  run_op QcOps op (c05M sh cell per) dims nv vdims vmap (c05f sh nv vals) (c05v sh valid).

Definition c05_scale (op : cop) (sh : list nat) (cell vals : list Q) : Q :=
  ((16 * inject_Z (Z.of_nat (length sh))) * qmaxabs vals / (qminl cell ^ (match op with OLap => 2%Z | _ => 1%Z end)))%Q.

(* what an accepted result's labels certify *)
Definition c05_labels_ok op (nd nv : nat) vdims vmap dims (ovdims : option (list string)) (ovmap : sdict) : Prop :=
  (forall ax, expected_axes op nd nv vdims vmap dims = Some ax -> soft_axes ovdims ovmap dims = ax) /\
  (op = OLap -> (2 <= nv)%nat -> ovdims = vdims).

(* observed array against the model's *)
Definition c05_arr_ok (exact : bool) op sh cell vals (model : list Qc) (oarr : list Q) : Prop :=
  if exact then qcl oarr = model
  else length oarr = length model /\
       forall i, (i < length oarr)%nat ->
         (Qabs (this (nth i model 0%Qc) - this (nth i (qcl oarr) 0%Qc)) <= c05_tol * c05_scale op sh cell vals)%Q.

Lemma optnat_eqb_sound a b : optnat_eqb a b = true -> a = b.
Proof.
  destruct a, b; simpl; intro H; try discriminate; [|reflexivity].
  apply Nat.eqb_eq in H. congruence.
Qed.

Lemma optnat_list_sound l1 l2 : forallb2 optnat_eqb l1 l2 = true -> l1 = l2.
Proof. intro H. apply Forall2_eq_gen. revert H. apply forallb2_Forall2_gen. exact optnat_eqb_sound. Qed.

Lemma optstrs_eqb_sound a b : optstrs_eqb a b = true -> a = b.
Proof.
  destruct a, b; simpl; intro H; try discriminate; [|reflexivity].
  apply strlist_eqb_sound_gen in H. congruence.
Qed.

(* the recorded arrays have the sizes the shape says *)
Lemma check_op_sizes exact op sh cell per dims nv vdims vmap vals valid obs :
  check_C05 (COp exact op sh cell per dims nv vdims vmap vals valid obs) = true ->
  length vals = nprod (sh ++ [nv]) /\ length valid = nprod sh /\
  length cell = length sh /\ length per = length sh /\ length dims = length sh.
Proof.
  cbn [check_C05]. intro H.
  apply andb_true_iff in H. destruct H as [H _].
  apply andb_true_iff in H. destruct H as [H H5].
  apply andb_true_iff in H. destruct H as [H H4].
  apply andb_true_iff in H. destruct H as [H H3].
  apply andb_true_iff in H. destruct H as [H1 H2].
  repeat split; apply Nat.eqb_eq; assumption.
Qed.

(* the implementation raised: the model refuses *)
Lemma check_op_reject_sound exact op sh cell per dims nv vdims vmap vals valid :
  check_C05 (COp exact op sh cell per dims nv vdims vmap vals valid None) = true ->
  exists e, c05_run op sh cell per dims nv vdims vmap vals valid = Err e.
Proof.
  cbn [check_C05]. intro H.
  apply andb_true_iff in H. destruct H as [_ H].
  unfold c05_run, c05M, c05f, c05v.
  destruct (run_op QcOps op (mkCMesh QcOps sh (qcl cell) per) dims nv vdims vmap
              (of_list (f0 QcOps) (sh ++ [nv]) (qcl vals)) (of_list true sh valid)) as [[nvo r]|e];
    [discriminate | exists e; reflexivity].
Qed.

(* the implementation returned a field: the model accepts, with this number of components, this array
   and these labels *)
Lemma check_op_sound exact op sh cell per dims nv vdims vmap vals valid onv oarr ovdims ovmap :
  check_C05 (COp exact op sh cell per dims nv vdims vmap vals valid (Some (onv, oarr, ovdims, ovmap))) = true ->
  exists r, c05_run op sh cell per dims nv vdims vmap vals valid = OK (onv, r) /\
    c05_arr_ok exact op sh cell vals (to_list (sh ++ [onv]) r) oarr /\
    c05_labels_ok op (length sh) nv vdims vmap dims ovdims ovmap.
Proof.
  cbn [check_C05]. intro H.
  apply andb_true_iff in H. destruct H as [_ H].
  unfold c05_run, c05M, c05f, c05v.
  destruct (run_op QcOps op (mkCMesh QcOps sh (qcl cell) per) dims nv vdims vmap
              (of_list (f0 QcOps) (sh ++ [nv]) (qcl vals)) (of_list true sh valid)) as [[nvo r]|e];
    [|discriminate].
  apply andb_true_iff in H. destruct H as [H HL].
  apply andb_true_iff in H. destruct H as [H HX].
  apply andb_true_iff in H. destruct H as [HN HA].
  apply Nat.eqb_eq in HN. subst nvo.
  exists r. split; [reflexivity|]. split.
  - unfold c05_arr_ok. destruct exact.
    + symmetry. apply qclist_eqb_sound. exact HA.
    + apply qc_close_list_sound in HA. destruct HA as [Hl Hn].
      assert (Hlen : length oarr = length (to_list (sh ++ [onv]) r)).
      { unfold qcl in Hl. rewrite map_length in Hl. symmetry. exact Hl. }
      split; [exact Hlen|]. intros i Hi. unfold c05_scale. apply Hn. rewrite Hlen in Hi. exact Hi.
  - split.
    + intros ax Eax. rewrite Eax in HX. symmetry. apply optnat_list_sound. exact HX.
    + intros -> Hnv. apply Nat.leb_le in Hnv. rewrite Hnv in HL. symmetry. apply optstrs_eqb_sound. exact HL.
Qed.

Lemma check_both_sound re im : check_C05 (CBoth re im) = true -> check_C05 re = true /\ check_C05 im = true.
Proof. cbn [check_C05]. intro H. apply andb_true_iff in H. exact H. Qed.

(* ---------- exact regime: every observed entry is the model's value at that index ---------- *)
Lemma accepted_entry op sh cell per dims nv vdims vmap vals valid onv oarr ovdims ovmap :
  check_C05 (COp true op sh cell per dims nv vdims vmap vals valid (Some (onv, oarr, ovdims, ovmap))) = true ->
  exists r, c05_run op sh cell per dims nv vdims vmap vals valid = OK (onv, r) /\
    forall i, inb (sh ++ [onv]) i = true -> nth (ravel (sh ++ [onv]) i) (qcl oarr) 0%Qc = r i.
Proof.
  intro H. apply check_op_sound in H. destruct H as (r & E & HA & _).
  exists r. split; [exact E|]. intros i Hi. unfold c05_arr_ok in HA. rewrite HA.
  apply nth_to_list. exact Hi.
Qed.

(* ---------- what the model's acceptance says, operator by operator ---------- *)
Lemma run_grad_inv sh cell per dims nv vdims vmap vals valid onv r :
  c05_run OGrad sh cell per dims nv vdims vmap vals valid = OK (onv, r) ->
  nv = 1%nat /\ onv = length sh /\ r = grad_v QcOps (c05M sh cell per) (c05f sh nv vals) (c05v sh valid).
Proof.
  unfold c05_run, run_op. destruct (Nat.eqb_spec nv 1); [|discriminate].
  intro E. injection E as E1 E2. subst. repeat split; reflexivity.
Qed.

Lemma run_div_inv sh cell per dims nv vdims vmap vals valid onv r :
  c05_run ODiv sh cell per dims nv vdims vmap vals valid = OK (onv, r) ->
  nv = length sh /\ onv = 1%nat /\
  exists axes, fwd_axes vdims vmap dims = OK axes /\
    r = div_v QcOps (c05M sh cell per) axes (c05f sh nv vals) (c05v sh valid).
Proof.
  unfold c05_run, run_op. change (cm_nd (c05M sh cell per)) with (length sh).
  destruct (Nat.eqb_spec nv (length sh)); [|discriminate].
  destruct (fwd_axes vdims vmap dims) as [axes|e']; [|discriminate].
  cbn [bind]. intro E. injection E as E1 E2. subst.
  split; [reflexivity|]. split; [reflexivity|]. exists axes. split; reflexivity.
Qed.

Lemma run_curl_inv sh cell per dims nv vdims vmap vals valid onv r :
  c05_run OCurl sh cell per dims nv vdims vmap vals valid = OK (onv, r) ->
  nv = 3%nat /\ length sh = 3%nat /\ onv = 3%nat /\
  exists axes rc, fwd_axes vdims vmap dims = OK axes /\ rev_comps vdims vmap dims = OK rc /\
    r = curl_v QcOps (c05M sh cell per) rc (c05f sh nv vals) (c05v sh valid).
Proof.
  unfold c05_run, run_op. change (cm_nd (c05M sh cell per)) with (length sh).
  destruct (Nat.eqb_spec nv 3); [|discriminate].
  destruct (Nat.eqb_spec (length sh) 3); [|discriminate]. cbn [andb].
  destruct (fwd_axes vdims vmap dims) as [axes|e']; [|discriminate]. cbn [bind].
  destruct (rev_comps vdims vmap dims) as [rc|e']; [|discriminate]. cbn [bind].
  intro E. injection E as E1 E2. subst.
  repeat (split; [reflexivity || assumption|]). exists axes, rc. repeat split; reflexivity.
Qed.

Lemma run_lap_inv sh cell per dims nv vdims vmap vals valid onv r :
  c05_run OLap sh cell per dims nv vdims vmap vals valid = OK (onv, r) ->
  onv = nv /\ (nv = 1%nat \/ exists vs, vdims = Some vs) /\
  r = lap_v QcOps (c05M sh cell per) (c05f sh nv vals) (c05v sh valid).
Proof.
  unfold c05_run, run_op. destruct (Nat.eqb_spec nv 1).
  - intro E. injection E as E1 E2. subst. split; [reflexivity|]. split; [left; reflexivity | reflexivity].
  - destruct vdims as [vs|]; [|discriminate]. intro E. injection E as E1 E2. subst.
    split; [reflexivity|]. split; [right; exists vs; reflexivity | reflexivity].
Qed.

(* ---------- transfer: refusals, on the observed outcome ---------- *)
Theorem accepted_refusal exact op sh cell per dims nv vdims vmap vals valid obs :
  check_C05 (COp exact op sh cell per dims nv vdims vmap vals valid obs) = true ->
  is_err (c05_run op sh cell per dims nv vdims vmap vals valid) -> obs = None.
Proof.
  intros H [e E]. destruct obs as [[[[onv oarr] ovd] ovm]|]; [|reflexivity].
  apply check_op_sound in H. destruct H as (r & E' & _). congruence.
Qed.

Theorem accepted_grad_refuses_non_scalar exact sh cell per dims nv vdims vmap vals valid obs :
  check_C05 (COp exact OGrad sh cell per dims nv vdims vmap vals valid obs) = true ->
  nv <> 1%nat -> obs = None.
Proof.
  intros H Hnv. apply (accepted_refusal _ _ _ _ _ _ _ _ _ _ _ _ H).
  exists ValueE. exact (grad_refuses_vectors QcOps _ _ _ _ _ nv vdims Hnv).
Qed.

Theorem accepted_div_refuses_misfit exact sh cell per dims nv vdims vmap vals valid obs :
  check_C05 (COp exact ODiv sh cell per dims nv vdims vmap vals valid obs) = true ->
  nv <> length sh -> obs = None.
Proof.
  intros H Hnv. apply (accepted_refusal _ _ _ _ _ _ _ _ _ _ _ _ H).
  exists ValueE. exact (div_refuses_misfit QcOps (c05M sh cell per) _ _ _ _ nv vdims Hnv).
Qed.

Theorem accepted_curl_refuses_misfit exact sh cell per dims nv vdims vmap vals valid obs :
  check_C05 (COp exact OCurl sh cell per dims nv vdims vmap vals valid obs) = true ->
  nv <> 3%nat \/ length sh <> 3%nat -> obs = None.
Proof.
  intros H Hnv. apply (accepted_refusal _ _ _ _ _ _ _ _ _ _ _ _ H).
  exists ValueE. exact (curl_refuses_misfit QcOps (c05M sh cell per) _ _ _ _ nv vdims Hnv).
Qed.

Theorem accepted_div_curl_refuse_unlabelled exact op sh cell per dims nv vmap vals valid obs :
  check_C05 (COp exact op sh cell per dims nv None vmap vals valid obs) = true ->
  op = ODiv \/ op = OCurl -> obs = None.
Proof.
  intros H Hop. apply (accepted_refusal _ _ _ _ _ _ _ _ _ _ _ _ H).
  exact (div_curl_refuse_unlabelled QcOps _ _ _ _ _ op nv Hop).
Qed.

Theorem accepted_div_refuses_unmapped exact sh cell per dims nv vs vmap vals valid obs v :
  check_C05 (COp exact ODiv sh cell per dims nv (Some vs) vmap vals valid obs) = true ->
  In v vs -> unmapped dims vmap v -> obs = None.
Proof.
  intros H Hin Hu. apply (accepted_refusal _ _ _ _ _ _ _ _ _ _ _ _ H).
  exact (div_refuses_unmapped QcOps _ dims vmap _ _ nv vs v Hin Hu).
Qed.

(* ---------- cells of the recorded mesh ---------- *)
Lemma inb_in_mesh sh cell per (q : idx) : inb sh q = true -> in_mesh QcOps (c05M sh cell per) q.
Proof.
  intro H. split; [exact (inb_length sh q H)|].
  change (cm_nd (c05M sh cell per)) with (length sh). change (cm_sh (c05M sh cell per)) with sh.
  revert q H. induction sh as [|k sh IH]; intros [|j q] H a Ha; simpl in *; try discriminate; try lia.
  apply andb_true_iff in H. destruct H as [H1 H2]. destruct a as [|a].
  - apply Nat.ltb_lt. exact H1.
  - apply IH; [exact H2 | lia].
Qed.

Lemma inb_cell sh (q : idx) n c : inb sh q = true -> (c < n)%nat -> inb (sh ++ [n]) (q ++ [c]) = true.
Proof.
  intros H Hc. rewrite inb_app by (symmetry; exact (inb_length sh q H)).
  rewrite H. simpl. apply Nat.ltb_lt in Hc. rewrite Hc. reflexivity.
Qed.

(* a recorded validity list without a false entry is the fully valid mask *)
Lemma all_valid sh valid : forallb (fun b => b) valid = true -> forall j, c05v sh valid j = true.
Proof.
  intros H j. unfold c05v, of_list. rewrite forallb_forall in H.
  destruct (nth_in_or_default (ravel sh j) valid true) as [Hin | ->]; [apply H; exact Hin | reflexivity].
Qed.

(* ---------- transfer: the observed gradient ---------- *)
(* C05_textbook_grad + C05_derivative_is_C04_line_operator on the observation: an accepted grad call had a
   scalar field, returned one component per axis, and the observed entry (cell q, component a) is C04's
   line operator applied to the grid line of the recorded values through q along axis a *)
Theorem accepted_grad_textbook sh cell per dims nv vdims vmap vals valid onv oarr ovdims ovmap :
  check_C05 (COp true OGrad sh cell per dims nv vdims vmap vals valid (Some (onv, oarr, ovdims, ovmap))) = true ->
  nv = 1%nat /\ onv = length sh /\
  forall (q : idx) a, inb sh q = true -> (a < length sh)%nat ->
    nth (ravel (sh ++ [length sh]) (q ++ [a])) (qcl oarr) 0%Qc
    = nth (nth a q 0%nat)
          (diff_line QcOps 1 (nth a (qcl cell) 0%Qc) (nth a per false) true
             (line (sh ++ [1%nat]) (comp QcOps 0 (c05f sh 1 vals)) a (q ++ [0%nat]))
             (line sh (c05v sh valid) a q))
          0%Qc.
Proof.
  intro H. apply accepted_entry in H. destruct H as (r & E & Hr).
  apply run_grad_inv in E. destruct E as (-> & -> & ->).
  split; [reflexivity|]. split; [reflexivity|]. intros q a Hq Ha.
  rewrite Hr by (apply inb_cell; assumption).
  unfold grad_v. rewrite last_app1, cell0_app.
  rewrite (dax_is_line_derivative QcOps (c05M sh cell per) (c05v sh valid) 1 a _ (q ++ [0%nat])).
  rewrite removelast_app1.
  rewrite nth_app_idx by (rewrite (inb_length sh q Hq); exact Ha).
  reflexivity.
Qed.

(* C05_exact_grad_any_dimension on the observation: if the recorded values on the grid line through cell q
   along a (fully valid, open, >= 3 cells) sample a quadratic, the OBSERVED gradient component is the
   analytic derivative at the cell centre *)
Theorem accepted_grad_exact_on_quadratic sh cell per dims nv vdims vmap vals valid onv oarr ovdims ovmap
        org (q : idx) a c0 c1 c2 (M := c05M sh cell per) :
  check_C05 (COp true OGrad sh cell per dims nv vdims vmap vals valid (Some (onv, oarr, ovdims, ovmap))) = true ->
  forallb (fun b => b) valid = true -> good_axis QcOps M a -> inb sh q = true ->
  (forall j, (j < nth a sh 0)%nat ->
     c05f sh nv vals (set_nth a j q ++ [0%nat]) = quad QcOps c0 c1 c2 (xc QcOps M org a j)) ->
  nth (ravel (sh ++ [onv]) (q ++ [a])) (qcl oarr) 0%Qc
  = (c1 + f2 QcOps * c2 * xc QcOps M org a (nth a q 0%nat))%Qc.
Proof.
  intros H Hv Hga Hq Hf. apply accepted_entry in H. destruct H as (r & E & Hr).
  apply run_grad_inv in E. destruct E as (-> & -> & ->).
  rewrite Hr by (apply inb_cell; [exact Hq | exact (proj1 Hga)]).
  apply (grad_exact_line QcOps QcLaws ltac:(discriminate) M org (c05f sh 1 vals) (c05v sh valid) q a c0 c1 c2).
  - apply all_valid. exact Hv.
  - exact Hga.
  - apply inb_in_mesh. exact Hq.
  - exact Hf.
Qed.

(* ---------- transfer: the observed divergence ---------- *)
(* C05_textbook_div on the observation: an accepted div call had nvdim = ndim and a complete mapping, returned
   one component, and the observed entry at cell q is the sum over the components c of the derivative of
   component c along the axis its LABEL is mapped to *)
Theorem accepted_div_textbook sh cell per dims nv vdims vmap vals valid onv oarr ovdims ovmap :
  check_C05 (COp true ODiv sh cell per dims nv vdims vmap vals valid (Some (onv, oarr, ovdims, ovmap))) = true ->
  nv = length sh /\ onv = 1%nat /\
  exists axes, fwd_axes vdims vmap dims = OK axes /\
    forall (q : idx), inb sh q = true ->
      nth (ravel (sh ++ [1%nat]) (q ++ [0%nat])) (qcl oarr) 0%Qc
      = fsum QcOps (map (fun c => dax QcOps (c05M sh cell per) 1 (nth c axes 0%nat)
                                    (comp QcOps c (c05f sh nv vals)) (c05v sh valid) (q ++ [0%nat]))
                        (iota 0 (length axes))).
Proof.
  intro H. apply accepted_entry in H. destruct H as (r & E & Hr).
  apply run_div_inv in E. destruct E as (Hnv & -> & axes & Hax & ->).
  split; [exact Hnv|]. split; [reflexivity|]. exists axes. split; [exact Hax|].
  intros q Hq. rewrite Hr by (apply inb_cell; [exact Hq | lia]).
  unfold div_v. rewrite cell0_app. reflexivity.
Qed.

(* ---------- transfer: the observed curl ---------- *)
Theorem accepted_curl_textbook sh cell per dims nv vdims vmap vals valid onv oarr ovdims ovmap :
  check_C05 (COp true OCurl sh cell per dims nv vdims vmap vals valid (Some (onv, oarr, ovdims, ovmap))) = true ->
  nv = 3%nat /\ length sh = 3%nat /\ onv = 3%nat /\
  exists rc, rev_comps vdims vmap dims = OK rc /\
    forall (q : idx) k, inb sh q = true -> (k < 3)%nat ->
      nth (ravel (sh ++ [3%nat]) (q ++ [k])) (qcl oarr) 0%Qc
      = (dax QcOps (c05M sh cell per) 1 ((k + 1) mod 3)
             (comp QcOps (nth ((k + 2) mod 3) rc 0%nat) (c05f sh nv vals)) (c05v sh valid) (q ++ [0%nat])
         - dax QcOps (c05M sh cell per) 1 ((k + 2) mod 3)
             (comp QcOps (nth ((k + 1) mod 3) rc 0%nat) (c05f sh nv vals)) (c05v sh valid) (q ++ [0%nat]))%Qc.
Proof.
  intro H. apply accepted_entry in H. destruct H as (r & E & Hr).
  apply run_curl_inv in E. destruct E as (Hnv & Hsh & -> & axes & rc & _ & Hrc & ->).
  split; [exact Hnv|]. split; [exact Hsh|]. split; [reflexivity|]. exists rc. split; [exact Hrc|].
  intros q k Hq Hk. rewrite Hr by (apply inb_cell; assumption).
  unfold curl_v. rewrite last_app1, cell0_app. reflexivity.
Qed.

(* ---------- transfer: the observed Laplacian ---------- *)
Theorem accepted_laplace_textbook sh cell per dims nv vdims vmap vals valid onv oarr ovdims ovmap :
  check_C05 (COp true OLap sh cell per dims nv vdims vmap vals valid (Some (onv, oarr, ovdims, ovmap))) = true ->
  onv = nv /\
  forall (q : idx) c, inb sh q = true -> (c < nv)%nat ->
    nth (ravel (sh ++ [nv]) (q ++ [c])) (qcl oarr) 0%Qc
    = fsum QcOps (map (fun a => dax QcOps (c05M sh cell per) 2 a (comp QcOps c (c05f sh nv vals))
                                  (c05v sh valid) (q ++ [0%nat]))
                      (iota 0 (length sh))).
Proof.
  intro H. apply accepted_entry in H. destruct H as (r & E & Hr).
  apply run_lap_inv in E. destruct E as (-> & _ & ->).
  split; [reflexivity|]. intros q c Hq Hc. rewrite Hr by (apply inb_cell; assumption).
  unfold lap_v. rewrite last_app1, cell0_app. reflexivity.
Qed.

(* the labels of an accepted vector Laplacian are the field's own, and say the same mapping *)
Theorem accepted_laplace_keeps_labels exact sh cell per dims nv vdims vmap vals valid onv oarr ovdims ovmap :
  check_C05 (COp exact OLap sh cell per dims nv vdims vmap vals valid (Some (onv, oarr, ovdims, ovmap))) = true ->
  (2 <= nv)%nat -> ovdims = vdims /\ soft_axes ovdims ovmap dims = soft_axes vdims vmap dims.
Proof.
  intros H Hnv. apply check_op_sound in H. destruct H as (_ & _ & _ & HL1 & HL2).
  split; [apply HL2; [reflexivity | exact Hnv]|].
  apply HL1. unfold expected_axes. apply Nat.leb_le in Hnv. rewrite Hnv. reflexivity.
Qed.

(* grad (>= 2 axes) and curl results: component k is mapped to axis k *)
Theorem accepted_result_mapping_is_identity exact op sh cell per dims nv vdims vmap vals valid onv oarr ovdims ovmap :
  check_C05 (COp exact op sh cell per dims nv vdims vmap vals valid (Some (onv, oarr, ovdims, ovmap))) = true ->
  (op = OGrad /\ (2 <= length sh)%nat) \/ op = OCurl ->
  soft_axes ovdims ovmap dims = map Some (iota 0 onv).
Proof.
  intros H Hop. pose proof H as H'. apply check_op_sound in H. destruct H as (r & E & _ & HL1 & _).
  destruct Hop as [[-> Hnd] | ->].
  - apply run_grad_inv in E. destruct E as (_ & -> & _).
    apply HL1. unfold expected_axes. apply Nat.leb_le in Hnd. rewrite Hnd. reflexivity.
  - apply run_curl_inv in E. destruct E as (_ & _ & -> & _).
    apply HL1. reflexivity.
Qed.

(* ---------- chained calls: an observed result fed into the next operator ---------- *)
Lemma inb_set_nth sh : forall (q : idx) a j,
  inb sh q = true -> (j < nth a sh 0)%nat -> inb sh (set_nth a j q) = true.
Proof.
  induction sh as [|k sh IH]; intros [|x q] a j H Hj; simpl in *; try discriminate; try (destruct a; simpl in Hj; lia).
  apply andb_true_iff in H. destruct H as [H1 H2]. destruct a as [|a]; simpl.
  - apply Nat.ltb_lt in Hj. rewrite Hj. exact H2.
  - rewrite H1. apply IH; assumption.
Qed.

(* a derivative of a component only reads the array inside its shape *)
Lemma dax_comp_ext_inb sh cell per order ax c n (g g' : idx -> Qc) v (q : idx) :
  (forall i, inb (sh ++ [n]) i = true -> g i = g' i) ->
  (ax < length sh)%nat -> (c < n)%nat -> inb sh q = true ->
  dax QcOps (c05M sh cell per) order ax (comp QcOps c g) v (q ++ [0%nat])
  = dax QcOps (c05M sh cell per) order ax (comp QcOps c g') v (q ++ [0%nat]).
Proof.
  intros Hg Hax Hc Hq. apply dax_ext; [exact Hax|].
  change (cm_sh (c05M sh cell per)) with sh. intros j Hj.
  rewrite set_nth_app by (rewrite (inb_length sh q Hq); exact Hax).
  unfold comp. rewrite removelast_app1. apply Hg.
  apply inb_cell; [|exact Hc]. apply inb_set_nth; assumption.
Qed.

(* the array rebuilt from an exactly accepted observation is the model's array inside the shape *)
Lemma observed_array_is_model sh n (oarr : list Q) (r : idx -> Qc) :
  qcl oarr = to_list (sh ++ [n]) r ->
  forall i, inb (sh ++ [n]) i = true -> c05f sh n oarr i = r i.
Proof. intros E i Hi. unfold c05f, of_list. rewrite E. apply nth_to_list. exact Hi. Qed.

(* C05_curl_grad_zero on observations: the observed curl of the observed gradient is exactly zero in every
   cell and component (fully valid mask; the curl call reads the gradient's components in axis order) *)
Theorem accepted_curl_of_accepted_grad_zero
        sh cell per dims nv vdims vmap vals valid onv oarr ovdims ovmap
        dims2 vdims2 vmap2 onv2 oarr2 ovdims2 ovmap2 :
  check_C05 (COp true OGrad sh cell per dims nv vdims vmap vals valid (Some (onv, oarr, ovdims, ovmap))) = true ->
  check_C05 (COp true OCurl sh cell per dims2 onv vdims2 vmap2 oarr valid (Some (onv2, oarr2, ovdims2, ovmap2))) = true ->
  forallb (fun b => b) valid = true -> rev_comps vdims2 vmap2 dims2 = OK [0; 1; 2]%nat ->
  forall (q : idx) k, inb sh q = true -> (k < 3)%nat ->
    nth (ravel (sh ++ [3%nat]) (q ++ [k])) (qcl oarr2) 0%Qc = 0%Qc.
Proof.
  intros H1 H2 Hv Hrc q k Hq Hk.
  apply check_op_sound in H1. destruct H1 as (r1 & E1 & HA1 & _). unfold c05_arr_ok in HA1.
  apply run_grad_inv in E1. destruct E1 as (-> & -> & ->).
  apply accepted_curl_textbook in H2. destruct H2 as (Hsh3 & _ & -> & rc & Hrc' & Hent).
  rewrite Hrc in Hrc'. injection Hrc' as <-.
  rewrite Hent by assumption. rewrite Hsh3 in *.
  set (M := c05M sh cell per). set (v := c05v sh valid).
  set (G := grad_v QcOps M (c05f sh 1 vals) v) in *.
  assert (HG : forall i, inb (sh ++ [3%nat]) i = true -> c05f sh 3 oarr i = G i)
    by (apply observed_array_is_model; exact HA1).
  assert (Hlt : forall x, (x mod 3 < 3)%nat) by (intro x; apply Nat.mod_upper_bound; lia).
  assert (Hn : forall x, (x < 3)%nat -> (nth x [0; 1; 2]%nat 0 < 3)%nat)
    by (intros [|[|[|x]]] Hx; simpl; lia).
  rewrite (dax_comp_ext_inb sh cell per 1 _ _ 3 _ G v q HG) by (try rewrite Hsh3; auto).
  rewrite (dax_comp_ext_inb sh cell per 1 ((k + 2) mod 3) _ 3 _ G v q HG) by (try rewrite Hsh3; auto).
  pose proof (curl_grad_zero QcOps QcLaws M (c05f sh 1 vals) v q k Hsh3 (all_valid sh valid Hv)
                (inb_in_mesh sh cell per q Hq) Hk) as Z.
  unfold curl_v in Z. rewrite last_app1, cell0_app in Z. exact Z.
Qed.

(* C05_div_curl_zero on observations: the observed divergence of the observed curl is exactly zero *)
Theorem accepted_div_of_accepted_curl_zero
        sh cell per dims nv vdims vmap vals valid onv oarr ovdims ovmap
        dims2 vdims2 vmap2 onv2 oarr2 ovdims2 ovmap2 :
  check_C05 (COp true OCurl sh cell per dims nv vdims vmap vals valid (Some (onv, oarr, ovdims, ovmap))) = true ->
  check_C05 (COp true ODiv sh cell per dims2 onv vdims2 vmap2 oarr valid (Some (onv2, oarr2, ovdims2, ovmap2))) = true ->
  forallb (fun b => b) valid = true -> fwd_axes vdims2 vmap2 dims2 = OK [0; 1; 2]%nat ->
  forall (q : idx), inb sh q = true ->
    nth (ravel (sh ++ [1%nat]) (q ++ [0%nat])) (qcl oarr2) 0%Qc = 0%Qc.
Proof.
  intros H1 H2 Hv Hax q Hq.
  apply check_op_sound in H1. destruct H1 as (r1 & E1 & HA1 & _). unfold c05_arr_ok in HA1.
  apply run_curl_inv in E1. destruct E1 as (-> & Hsh3 & -> & axes1 & rc & _ & _ & ->).
  apply accepted_div_textbook in H2. destruct H2 as (_ & -> & axes & Hax' & Hent).
  rewrite Hax in Hax'. injection Hax' as <-.
  rewrite Hent by assumption.
  set (M := c05M sh cell per). set (v := c05v sh valid).
  set (G := curl_v QcOps M rc (c05f sh 3 vals) v) in *.
  assert (HG : forall i, inb (sh ++ [3%nat]) i = true -> c05f sh 3 oarr i = G i)
    by (apply observed_array_is_model; exact HA1).
  cbn [length iota map nth Nat.add]. unfold M.
  rewrite (dax_comp_ext_inb sh cell per 1 0 0 3 _ G v q HG) by (try rewrite Hsh3; auto).
  rewrite (dax_comp_ext_inb sh cell per 1 1 1 3 _ G v q HG) by (try rewrite Hsh3; auto).
  rewrite (dax_comp_ext_inb sh cell per 1 2 2 3 _ G v q HG) by (try rewrite Hsh3; auto).
  pose proof (div_curl_zero QcOps QcLaws M rc (c05f sh 3 vals) v q 0%nat Hsh3 (all_valid sh valid Hv)
                (inb_in_mesh sh cell per q Hq)) as Z.
  unfold div_v in Z. rewrite cell0_app in Z. cbn [length iota map nth Nat.add] in Z. exact Z.
Qed.

(* ---------- scale regime: every observed entry is within c05_tol * scale of the model's value ---------- *)
Lemma accepted_entry_close op sh cell per dims nv vdims vmap vals valid onv oarr ovdims ovmap :
  check_C05 (COp false op sh cell per dims nv vdims vmap vals valid (Some (onv, oarr, ovdims, ovmap))) = true ->
  exists r, c05_run op sh cell per dims nv vdims vmap vals valid = OK (onv, r) /\
    length oarr = nprod (sh ++ [onv]) /\
    forall i, inb (sh ++ [onv]) i = true ->
      (Qabs (this (r i) - this (nth (ravel (sh ++ [onv]) i) (qcl oarr) 0%Qc))
       <= c05_tol * c05_scale op sh cell vals)%Q.
Proof.
  intro H. apply check_op_sound in H. destruct H as (r & E & HA & _).
  exists r. split; [exact E|]. unfold c05_arr_ok in HA. destruct HA as [Hl Hn].
  rewrite to_list_length in Hl. split; [exact Hl|]. intros i Hi.
  rewrite <- (nth_to_list (sh ++ [onv]) r i 0%Qc Hi).
  apply Hn. rewrite Hl. apply ravel_lt. exact Hi.
Qed.

(* C05_textbook_grad in the scale regime: the observed gradient entry is within the tolerance of the
   derivative of the recorded values along axis a *)
Theorem accepted_grad_close sh cell per dims nv vdims vmap vals valid onv oarr ovdims ovmap :
  check_C05 (COp false OGrad sh cell per dims nv vdims vmap vals valid (Some (onv, oarr, ovdims, ovmap))) = true ->
  nv = 1%nat /\ onv = length sh /\
  forall (q : idx) a, inb sh q = true -> (a < length sh)%nat ->
    (Qabs (this (dax QcOps (c05M sh cell per) 1 a (comp QcOps 0 (c05f sh 1 vals)) (c05v sh valid) (q ++ [0%nat]))
           - this (nth (ravel (sh ++ [length sh]) (q ++ [a])) (qcl oarr) 0%Qc))
     <= c05_tol * c05_scale OGrad sh cell vals)%Q.
Proof.
  intro H. apply accepted_entry_close in H. destruct H as (r & E & _ & Hr).
  apply run_grad_inv in E. destruct E as (-> & -> & ->).
  split; [reflexivity|]. split; [reflexivity|]. intros q a Hq Ha.
  specialize (Hr (q ++ [a]) (inb_cell sh q (length sh) a Hq Ha)).
  unfold grad_v in Hr. rewrite last_app1, cell0_app in Hr. exact Hr.
Qed.

Theorem accepted_laplace_close sh cell per dims nv vdims vmap vals valid onv oarr ovdims ovmap :
  check_C05 (COp false OLap sh cell per dims nv vdims vmap vals valid (Some (onv, oarr, ovdims, ovmap))) = true ->
  onv = nv /\
  forall (q : idx) c, inb sh q = true -> (c < nv)%nat ->
    (Qabs (this (fsum QcOps (map (fun a => dax QcOps (c05M sh cell per) 2 a (comp QcOps c (c05f sh nv vals))
                                              (c05v sh valid) (q ++ [0%nat]))
                                 (iota 0 (length sh))))
           - this (nth (ravel (sh ++ [nv]) (q ++ [c])) (qcl oarr) 0%Qc))
     <= c05_tol * c05_scale OLap sh cell vals)%Q.
Proof.
  intro H. apply accepted_entry_close in H. destruct H as (r & E & _ & Hr).
  apply run_lap_inv in E. destruct E as (-> & _ & ->).
  split; [reflexivity|]. intros q c Hq Hc.
  specialize (Hr (q ++ [c]) (inb_cell sh q nv c Hq Hc)).
  unfold lap_v in Hr. rewrite last_app1, cell0_app in Hr. exact Hr.
Qed.

(* ---------- non-vacuity: concrete accepted cases ---------- *)
(* a 1-d quadratic, 4 cells of 1/2 starting at 0: x^2 at the centres 1/4, 3/4, 5/4, 7/4; observed 2x *)
Example accepted_grad_instance :
  check_C05 (COp true OGrad [4]%nat [1#2]%Q [false] ["x"%string] 1 None []
                 [1#16; 9#16; 25#16; 49#16]%Q [true; true; true; true]
                 (Some (1%nat, [1#2; 3#2; 5#2; 7#2]%Q, None, []))) = true /\
  good_axis QcOps (c05M [4]%nat [1#2]%Q [false]) 0 /\
  forall j, (j < 4)%nat ->
    c05f [4]%nat 1 [1#16; 9#16; 25#16; 49#16]%Q (set_nth 0 j [0%nat] ++ [0%nat])
    = quad QcOps 0%Qc 0%Qc 1%Qc (xc QcOps (c05M [4]%nat [1#2]%Q [false]) [Q2Qc (1#4)] 0 j).
Proof.
  split; [vm_compute; reflexivity|]. split.
  - split; [cbv; lia | split; [reflexivity | split; [discriminate | cbv; lia]]].
  - intros [|[|[|[|j]]]] Hj; try lia; apply Qc_is_canon; vm_compute; reflexivity.
Qed.

(* a 2x2x2 mesh (cells 1/2, 1, 2; axis b periodic): an accepted gradient, then the accepted curl of the
   observed gradient array (all zeros), with the hypotheses of the chained theorem *)
Example accepted_curl_grad_instance :
  let dims := ["a"; "b"; "c"]%string in
  let valid := [true; true; true; true; true; true; true; true] in
  let g := [10; 0; 1#2; -1; 0; 1#2; 8; 0; -1#2; 4; 0; -1#2; 10; 0; -9#4; -1; 0; -9#4; 8; 0; -3#2; 4; 0; -3#2]%Q in
  let vd := Some ["p"; "q"; "s"]%string in
  let vm := [("p", "a"); ("q", "b"); ("s", "c")]%string in
  check_C05 (COp true OGrad [2; 2; 2]%nat [1#2; 1; 2]%Q [false; true; false] dims 1 None []
                 [0; 1; 3; 2; 5; 1#2; 7; 4]%Q valid (Some (3%nat, g, vd, vm))) = true /\
  check_C05 (COp true OCurl [2; 2; 2]%nat [1#2; 1; 2]%Q [false; true; false] dims 3 vd vm g valid
                 (Some (3%nat, [0; 0; 0; 0; 0; 0; 0; 0; 0; 0; 0; 0; 0; 0; 0; 0; 0; 0; 0; 0; 0; 0; 0; 0]%Q, vd, vm))) = true /\
  forallb (fun b => b) valid = true /\ rev_comps vd vm dims = OK [0; 1; 2]%nat.
Proof. vm_compute. repeat split; reflexivity. Qed.

(* a refusal: grad of a two-component field raised, and the checker accepted that outcome *)
Example accepted_refusal_instance :
  check_C05 (COp true OGrad [2]%nat [1]%Q [false] ["x"%string] 2 None [] [0; 1; 2; 3]%Q [true; true] None) = true.
Proof. vm_compute. reflexivity. Qed.

(* scale regime: decimal cell 1/10, the observation off by 1e-12 is accepted *)
Example accepted_grad_close_instance :
  check_C05 (COp false OGrad [3]%nat [1#10]%Q [false] ["x"%string] 1 None [] [0; 1#10; 2#10]%Q [true; true; true]
                 (Some (1%nat, [1; 1 + (1#1000000000000); 1]%Q, None, []))) = true.
Proof. vm_compute. reflexivity. Qed.
