(* C05: on a fully valid mesh every directional derivative is, cell by cell, a fixed finite linear
   combination ("stencil row") of the values on the grid line through the cell -- for every line
   length, open or periodic, order 1 or 2.  Rows along different axes commute (exchange of two finite
   sums); this is what curl grad = 0 and div curl = 0 rest on. *)
From Coq Require Import Field.
From DF Require Import Prelude Constants_gen FieldK NDArray Diff Calculus ListLemmas
     C04_proofs C04_linear C04_ring C06_proofs.

Section Stencil.
Variable K : FOps.
Hypothesis HK : field_theory (f0 K) (f1 K) (@fadd K) (@fmul K) (@fsub K) (@fopp K) (@fdiv K) (@finv K) eq.
Add Field Kfield51 : HK.
Notation "0" := (f0 K).
Notation "1" := (f1 K).
Infix "+" := fadd. Infix "*" := fmul. Infix "-" := fsub. Infix "/" := fdiv.
Notation two := (f2 K).
Notation Σ := (fsum K).

(* a stencil row: (coefficient, position) pairs *)
Notation srow := (list (K * nat)).
Definition sapply (st : srow) (u : nat -> K) : K := Σ (map (fun cp => fst cp * u (snd cp)) st).

Lemma fsum_scale_l {A} (f : A -> K) c l : Σ (map (fun x => c * f x) l) = c * Σ (map f l).
Proof. induction l as [|x l IH]; simpl; [ring | rewrite IH; ring]. Qed.

Lemma sapply_ext st u w : (forall j, u j = w j) -> sapply st u = sapply st w.
Proof. intros H. unfold sapply. apply fsum_map_ext. intros x _. rewrite H. reflexivity. Qed.

Lemma sapply_zero st : sapply st (fun _ => 0) = 0.
Proof. unfold sapply. induction st as [|x st IH]; simpl; [reflexivity | rewrite IH; ring]. Qed.

Lemma sapply_sub st u w : sapply st (fun j => u j - w j) = sapply st u - sapply st w.
Proof. unfold sapply. induction st as [|x st IH]; simpl; [ring | rewrite IH; ring]. Qed.

Lemma sapply_add st u w : sapply st (fun j => u j + w j) = sapply st u + sapply st w.
Proof. unfold sapply. induction st as [|x st IH]; simpl; [ring | rewrite IH; ring]. Qed.

(* two rows acting on the two arguments of a doubly indexed family commute *)
Lemma sapply_comm st1 st2 (G : nat -> nat -> K) :
  sapply st1 (fun j => sapply st2 (fun k => G j k)) = sapply st2 (fun k => sapply st1 (fun j => G j k)).
Proof.
  unfold sapply.
  transitivity (Σ (map (fun x : K * nat => Σ (map (fun y : K * nat => fst x * (fst y * G (snd x) (snd y))) st2)) st1)).
  { apply fsum_map_ext. intros x _. rewrite <- fsum_scale_l. reflexivity. }
  rewrite (@fsum_swap K HK). apply fsum_map_ext. intros y _.
  rewrite <- fsum_scale_l. apply fsum_map_ext. intros x _. ring.
Qed.

(* rows given by an integer coefficient tuple over a common denominator (the d2 tuples of the source) *)
Definition lrow (cs : list Z) (ps : list nat) (hh : K) : srow :=
  map2 (fun c p => (fz K c * finv hh, p)) cs ps.

Lemma sapply_lrow cs ps hh u : sapply (lrow cs ps hh) u = lincomb K cs (map u ps) / hh.
Proof.
  unfold sapply, lrow, lincomb. rewrite (@fdiv_def K HK).
  revert ps. induction cs as [|c cs IH]; intros [|p ps]; simpl; try ring.
  rewrite IH. ring.
Qed.

Definition three' : K := three K.

(* the row of cell i on a fully valid OPEN line of n cells *)
Definition row_open (order : nat) (h : K) (n i : nat) : srow :=
  match order with
  | 1%nat =>
      if (n <? 2)%nat then []
      else if (n <? 3)%nat then [(finv h, 1%nat); (fopp (finv h), 0%nat)]
      else if (i =? 0)%nat then
        [(fopp (three K) * finv (two * h), 0%nat); (four K * finv (two * h), 1%nat);
         (fopp (finv (two * h)), 2%nat)]
      else if (i =? n - 1)%nat then
        [(three K * finv (two * h), (n - 1)%nat); (fopp (four K) * finv (two * h), (n - 2)%nat);
         (finv (two * h), (n - 3)%nat)]
      else [(finv (two * h), (i + 1)%nat); (fopp (finv (two * h)), (i - 1)%nat)]
  | _ =>
      let hh := h * h in
      if (n <? 3)%nat then []
      else if (n <? 4)%nat then
        if (i =? 0)%nat then lrow d2_first3 [0; 1; 2]%nat hh
        else if (i =? n - 1)%nat then lrow d2_last3 [n - 1; n - 2; n - 3]%nat hh
        else lrow d2_interior [i - 1; i; i + 1]%nat hh
      else if (i =? 0)%nat then lrow d2_first4 [0; 1; 2; 3]%nat hh
      else if (i =? n - 1)%nat then lrow d2_last4 [n - 1; n - 2; n - 3; n - 4]%nat hh
      else lrow d2_interior [i - 1; i; i + 1]%nat hh
  end.

(* the row of cell i on a fully valid RING of n cells *)
Definition row_ring (order : nat) (h : K) (n i : nat) : srow :=
  match order with
  | 1%nat => [(finv (two * h), ((i + 1) mod n)%nat); (fopp (finv (two * h)), ((i + n - 1) mod n)%nat)]
  | _ => [(finv (h * h), ((i + n - 1) mod n)%nat); (fopp two * finv (h * h), i);
          (finv (h * h), ((i + 1) mod n)%nat)]
  end.

Definition row (order : nat) (h : K) (per : bool) (n i : nat) : srow :=
  if per then row_ring order h n i else row_open order h n i.

Lemma nth_zeros (l : list K) j : nth j (map (fun _ : K => 0) l) 0 = 0.
Proof. apply map_const_nth. Qed.

Lemma open_row1 h u i : (i < length u)%nat ->
  nth i (d_run K 1 u h) 0 = sapply (row_open 1 h (length u) i) (fun j => nth j u 0).
Proof.
  intros Hi. unfold row_open.
  destruct (Nat.ltb_spec (length u) 2) as [S2 | L2].
  - rewrite d_run_short by lia. rewrite nth_zeros. reflexivity.
  - rewrite d_run_nth1 by lia. unfold d1_at.
    destruct (Nat.ltb_spec (length u) 3) as [S3 | L3].
    { unfold sapply. simpl. rewrite (@fdiv_def K HK). ring. }
    destruct (Nat.eqb_spec i 0) as [E0 | N0].
    { unfold sapply. simpl. rewrite (@fdiv_def K HK). ring. }
    destruct (Nat.eqb_spec i (length u - 1)) as [E1 | N1];
      unfold sapply; simpl; rewrite (@fdiv_def K HK); ring.
Qed.

Lemma open_row2 h u i : (i < length u)%nat ->
  nth i (d_run K 2 u h) 0 = sapply (row_open 2 h (length u) i) (fun j => nth j u 0).
Proof.
  intros Hi. unfold row_open.
  destruct (Nat.ltb_spec (length u) 3) as [S3 | L3].
  - rewrite d_run_short by lia. rewrite nth_zeros. reflexivity.
  - rewrite d_run_nth2 by lia. unfold d2_at.
    destruct (length u <? 4)%nat; destruct (i =? 0)%nat; try destruct (i =? length u - 1)%nat;
      rewrite sapply_lrow; reflexivity.
Qed.

Lemma ring_row1 h u i : (i < length u)%nat ->
  nth i (diff_line K 1 h true true u (repeat true (length u))) 0
  = sapply (row_ring 1 h (length u) i) (fun j => nth j u 0).
Proof.
  intros Hi. rewrite ring_first_derivative by exact Hi.
  unfold row_ring, sapply. simpl. rewrite (@fdiv_def K HK). ring.
Qed.

Lemma ring_row2 h u i : (i < length u)%nat ->
  nth i (diff_line K 2 h true true u (repeat true (length u))) 0
  = sapply (row_ring 2 h (length u) i) (fun j => nth j u 0).
Proof.
  intros Hi. rewrite (@ring_second_derivative K HK) by exact Hi.
  unfold row_ring, sapply. simpl. rewrite (@fdiv_def K HK). ring.
Qed.

(* every cell of a fully valid line: derivative = its row applied to the line *)
Theorem diff_line_row order h per u i : (order = 1 \/ order = 2)%nat -> (i < length u)%nat ->
  nth i (diff_line K order h per true u (repeat true (length u))) 0
  = sapply (row order h per (length u) i) (fun j => nth j u 0).
Proof.
  intros Ho Hi. unfold row. destruct per.
  - destruct Ho; subst order; [apply ring_row1 | apply ring_row2]; exact Hi.
  - unfold diff_line. rewrite sdc_all_valid.
    destruct Ho; subst order; [apply open_row1 | apply open_row2]; exact Hi.
Qed.

(* ---------------- lifting to the n-d derivative ---------------- *)
Lemma nth_line {V} (d : V) sh (g : idx -> V) ax (i : idx) j :
  nth j (line sh g ax i) d = if (j <? nth ax sh 0%nat)%nat then g (set_nth ax j i) else d.
Proof.
  unfold line. destruct (Nat.ltb_spec j (nth ax sh 0%nat)) as [L | G].
  - rewrite nth_map_iota by exact L. reflexivity.
  - apply nth_overflow. rewrite map_length, iota_length. exact G.
Qed.

Lemma line_length {V} sh (g : idx -> V) ax i : length (line sh g ax i) = nth ax sh 0%nat.
Proof. unfold line. rewrite map_length. apply iota_length. Qed.

Lemma line_all_true sh (valid : idx -> bool) ax i :
  (forall j, valid j = true) -> line sh valid ax i = repeat true (nth ax sh 0%nat).
Proof.
  intros H. unfold line.
  assert (G : forall l : list nat, map (fun j => valid (set_nth ax j i)) l = repeat true (length l)).
  { intros l. induction l as [|x l IH]; simpl; [reflexivity|]. rewrite H. f_equal. exact IH. }
  rewrite G, iota_length. reflexivity.
Qed.

Lemma nth_app_sh (sh : list nat) ax c : (ax < length sh)%nat -> nth ax (sh ++ [c]) 0%nat = nth ax sh 0%nat.
Proof. intros H. apply app_nth1. exact H. Qed.

(* the value the derivative reads at position j of the line through i *)
Definition lval (M : cmesh K) (ax : nat) (g : idx -> K) (i : idx) (j : nat) : K :=
  if (j <? nth ax (cm_sh M) 0%nat)%nat then g (set_nth ax j i) else 0.

Theorem dax_row (M : cmesh K) order ax g valid i :
  (order = 1 \/ order = 2)%nat -> (forall j, valid j = true) ->
  (ax < cm_nd M)%nat -> (nth ax i 0 < nth ax (cm_sh M) 0)%nat ->
  dax K M order ax g valid i
  = sapply (row order (nth ax (cm_cell M) 0) (nth ax (cm_per M) false) (nth ax (cm_sh M) 0%nat) (nth ax i 0%nat))
           (lval M ax g i).
Proof.
  intros Ho Hv Hax Hi. unfold dax, diff_nd, along_axis2.
  rewrite (line_all_true _ _ _ _ Hv).
  set (u := line (cm_sh M ++ [1%nat]) g ax i).
  assert (Lu : length u = nth ax (cm_sh M) 0%nat).
  { unfold u. rewrite line_length. apply nth_app_sh. exact Hax. }
  rewrite <- Lu. rewrite diff_line_row by (try exact Ho; rewrite Lu; exact Hi).
  apply sapply_ext. intros j. unfold u, lval. rewrite nth_line.
  rewrite nth_app_sh by exact Hax. reflexivity.
Qed.

Lemma set_nth_comm {A} a b (x y : A) (l : list A) : a <> b ->
  set_nth a x (set_nth b y l) = set_nth b y (set_nth a x l).
Proof.
  revert a b. induction l as [|z l IH]; intros a b H; [destruct a, b; reflexivity|].
  destruct a as [|a], b as [|b]; simpl; try reflexivity; [congruence|].
  f_equal. apply IH. congruence.
Qed.

Lemma nth_set_nth_other {A} a b (x d : A) (l : list A) : a <> b -> nth b (set_nth a x l) d = nth b l d.
Proof.
  revert a b. induction l as [|z l IH]; intros a b H; [destruct a, b; reflexivity|].
  destruct a as [|a], b as [|b]; simpl; try reflexivity; [congruence|]. apply IH. congruence.
Qed.

(* derivatives along two different axes commute on a fully valid mesh: any orders, any numbers of
   cells, open or periodic *)
Theorem dax_comm (M : cmesh K) o1 o2 a b g valid i :
  (o1 = 1 \/ o1 = 2)%nat -> (o2 = 1 \/ o2 = 2)%nat -> (forall j, valid j = true) ->
  a <> b -> (a < cm_nd M)%nat -> (b < cm_nd M)%nat ->
  (nth a i 0 < nth a (cm_sh M) 0)%nat -> (nth b i 0 < nth b (cm_sh M) 0)%nat ->
  dax K M o1 a (dax K M o2 b g valid) valid i = dax K M o2 b (dax K M o1 a g valid) valid i.
Proof.
  intros Ho1 Ho2 Hv Hab Ha Hb Hia Hib.
  rewrite (dax_row M o1 a _ valid i Ho1 Hv Ha Hia).
  rewrite (dax_row M o2 b _ valid i Ho2 Hv Hb Hib).
  set (ra := row o1 _ _ _ _). set (rb := row o2 _ _ _ _).
  set (G := fun j k => if ((j <? nth a (cm_sh M) 0%nat) && (k <? nth b (cm_sh M) 0%nat))%nat
                       then g (set_nth b k (set_nth a j i)) else 0).
  transitivity (sapply ra (fun j => sapply rb (fun k => G j k))).
  - apply sapply_ext. intros j. unfold lval.
    destruct (Nat.ltb_spec j (nth a (cm_sh M) 0%nat)) as [Lj | Gj].
    + rewrite (dax_row M o2 b g valid _ Ho2 Hv Hb)
        by (rewrite nth_set_nth_other by exact Hab; exact Hib).
      rewrite nth_set_nth_other by exact Hab. fold rb.
      apply sapply_ext. intros k. unfold lval, G.
      destruct (Nat.ltb_spec j (nth a (cm_sh M) 0%nat)); [|lia]. reflexivity.
    + symmetry. etransitivity; [|apply (sapply_zero rb)]. apply sapply_ext. intros k. unfold G.
      destruct (Nat.ltb_spec j (nth a (cm_sh M) 0%nat)); [lia|]. reflexivity.
  - rewrite sapply_comm. apply sapply_ext. intros k. unfold lval.
    destruct (Nat.ltb_spec k (nth b (cm_sh M) 0%nat)) as [Lk | Gk].
    + rewrite (dax_row M o1 a g valid _ Ho1 Hv Ha)
        by (rewrite nth_set_nth_other by congruence; exact Hia).
      rewrite nth_set_nth_other by congruence. fold ra.
      apply sapply_ext. intros j. unfold lval, G.
      destruct (Nat.ltb_spec k (nth b (cm_sh M) 0%nat)); [|lia]. rewrite Bool.andb_true_r.
      destruct (j <? nth a (cm_sh M) 0%nat)%nat; [|reflexivity].
      rewrite (set_nth_comm a b j k i Hab). reflexivity.
    + etransitivity; [|apply (sapply_zero ra)]. apply sapply_ext. intros j. unfold G.
      destruct (Nat.ltb_spec k (nth b (cm_sh M) 0%nat)); [lia|]. rewrite Bool.andb_false_r. reflexivity.
Qed.

Lemma In_iota k n x : In x (iota k n) -> (k <= x < k + n)%nat.
Proof.
  revert k. induction n as [|n IH]; intros k H; simpl in H; [contradiction|].
  destruct H as [E | H]; [lia|]. apply IH in H. lia.
Qed.

(* the derivative only reads the array on the grid line through the cell *)
Theorem dax_ext (M : cmesh K) order ax g g' valid i :
  (ax < cm_nd M)%nat ->
  (forall j, (j < nth ax (cm_sh M) 0)%nat -> g (set_nth ax j i) = g' (set_nth ax j i)) ->
  dax K M order ax g valid i = dax K M order ax g' valid i.
Proof.
  intros Hax H. unfold dax, diff_nd, along_axis2. f_equal. f_equal.
  unfold line. apply map_ext_in. intros j Hj. apply H.
  rewrite nth_app_sh in Hj by exact Hax.
  apply In_iota in Hj. lia.
Qed.

(* linearity in the differentiated array (fully valid mesh) *)
Theorem dax_sub (M : cmesh K) order ax g g' valid i :
  (order = 1 \/ order = 2)%nat -> (forall j, valid j = true) ->
  (ax < cm_nd M)%nat -> (nth ax i 0 < nth ax (cm_sh M) 0)%nat ->
  dax K M order ax (fun x => g x - g' x) valid i = dax K M order ax g valid i - dax K M order ax g' valid i.
Proof.
  intros Ho Hv Hax Hi. rewrite !(dax_row M order ax _ valid i Ho Hv Hax Hi).
  rewrite <- sapply_sub. apply sapply_ext. intros j. unfold lval.
  destruct (j <? nth ax (cm_sh M) 0%nat)%nat; [reflexivity | ring].
Qed.

End Stencil.
