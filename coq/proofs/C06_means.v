(* C06 proofs, second part: means over one direction and over the remaining ones, linearity of the
   cumulative integral. *)
From Coq Require Import Field.
From DF Require Import Prelude FieldK NDArray Integrate ListLemmas C06_proofs.

Section C06m.
Variable K : FOps.
Hypothesis HK : field_theory (f0 K) (f1 K) (@fadd K) (@fmul K) (@fsub K) (@fopp K) (@fdiv K) (@finv K) eq.
Add Field Kfield6m : HK.
Notation "0" := (f0 K).
Notation "1" := (f1 K).
Infix "+" := fadd. Infix "*" := fmul. Infix "-" := fsub. Infix "/" := fdiv.
Notation two := (f2 K).
Notation Σ := (fsum K).

Lemma fnat_add a b : fnat K (a + b) = fnat K a + fnat K b.
Proof. induction a as [|a IH]; simpl; [ring | rewrite IH; ring]. Qed.

Lemma fnat_mul a b : fnat K (a * b) = fnat K a * fnat K b.
Proof. induction a as [|a IH]; simpl; [ring | rewrite fnat_add, IH; ring]. Qed.

Lemma nprod_remove_nth ax : forall sh, (ax < length sh)%nat ->
  nprod sh = (nth ax sh 0 * nprod (remove_nth ax sh))%nat.
Proof.
  induction ax as [|ax IH]; intros [|k sh] H; simpl in *; try lia.
  rewrite (IH sh) by lia. lia.
Qed.

(* the mean along one direction times the integrated extent (n cells of length h) is the directional integral *)
Theorem mean_dir_times_extent sh nvdim ax h (f : idx -> K) i :
  fnat K (nth ax sh 0%nat) <> 0 ->
  mean_dir K sh nvdim ax f i * (fnat K (nth ax sh 0%nat) * h) = integrate_dir K sh nvdim ax h f i.
Proof. intros H. unfold mean_dir, integrate_dir. field. exact H. Qed.

(* the mean of the directional means over the remaining directions is the mean over all directions *)
Theorem mean_of_directional_means sh ax (f : idx -> K) : (ax < length sh)%nat ->
  fnat K (nprod sh) <> 0 ->
  total K (remove_nth ax sh) (fun i => sum_axis K sh ax f i / fnat K (nth ax sh 0%nat))
    / fnat K (nprod (remove_nth ax sh))
  = total K sh f / fnat K (nprod sh).
Proof.
  intros Hax Hn.
  assert (E : total K (remove_nth ax sh) (fun i => sum_axis K sh ax f i / fnat K (nth ax sh 0%nat))
              = total K sh f * finv (fnat K (nth ax sh 0%nat))).
  { unfold total. rewrite (fsum_map_ext K _ (fun i => sum_axis K sh ax f i * finv (fnat K (nth ax sh 0%nat))))
      by (intros x _; apply (fdiv_def6 K HK)).
    rewrite (fsum_map_scale K HK). fold (total K (remove_nth ax sh) (sum_axis K sh ax f)).
    rewrite (total_sum_axis K HK) by exact Hax. reflexivity. }
  rewrite E. rewrite (nprod_remove_nth ax sh Hax) in Hn |- *. rewrite fnat_mul in Hn |- *.
  assert (Ha : fnat K (nth ax sh 0%nat) <> 0) by (intro C; apply Hn; rewrite C; ring).
  assert (Hb : fnat K (nprod (remove_nth ax sh)) <> 0) by (intro C; apply Hn; rewrite C; ring).
  field. split; assumption.
Qed.

(* ---- the cumulative integral is linear in the line ---- *)
Lemma cum_aux_lin h a b : forall (u w : list K) acc1 acc2, length u = length w ->
  cum_aux K h (a * acc1 + b * acc2) (map2 (fun x y => a * x + b * y) u w)
  = map2 (fun x y => a * x + b * y) (cum_aux K h acc1 u) (cum_aux K h acc2 w).
Proof.
  induction u as [|x u IH]; intros [|y w] acc1 acc2 Hl; simpl in *; try discriminate; [reflexivity|].
  f_equal.
  - rewrite !(fdiv_def6 K HK). ring.
  - replace (a * acc1 + b * acc2 + (a * x + b * y)) with (a * (acc1 + x) + b * (acc2 + y)) by ring.
    apply IH. lia.
Qed.

Theorem cum_line_lin h a b (u w : list K) : length u = length w ->
  cum_line K h (map2 (fun x y => a * x + b * y) u w)
  = map2 (fun x y => a * x + b * y) (cum_line K h u) (cum_line K h w).
Proof.
  intros Hl. unfold cum_line.
  replace 0 with (a * 0 + b * 0) at 1 by ring. apply cum_aux_lin. exact Hl.
Qed.

End C06m.
