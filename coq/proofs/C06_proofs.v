(* C06 proofs: finite-sum algebra, Fubini step, cumulative integral, means, linearity. *)
From Coq Require Import Field.
From DF Require Import Prelude FieldK NDArray Integrate ListLemmas.

Section C06.
Variable K : FOps.
Hypothesis HK : field_theory (f0 K) (f1 K) (@fadd K) (@fmul K) (@fsub K) (@fopp K) (@fdiv K) (@finv K) eq.
Add Field Kfield6 : HK.
Notation "0" := (f0 K).
Notation "1" := (f1 K).
Infix "+" := fadd. Infix "*" := fmul. Infix "-" := fsub. Infix "/" := fdiv.
Notation two := (f2 K).
Notation Σ := (fsum K).

Lemma fdiv_def6 (x y : K) : x / y = x * finv y.
Proof. apply (Fdiv_def HK). Qed.

Lemma fsum_app l1 l2 : Σ (l1 ++ l2) = Σ l1 + Σ l2.
Proof. induction l1 as [|x l1 IH]; simpl; [ring | rewrite IH; ring]. Qed.

Lemma fsum_map_add {A} (f g : A -> K) l :
  Σ (map (fun x => f x + g x) l) = Σ (map f l) + Σ (map g l).
Proof. induction l as [|x l IH]; simpl; [ring | rewrite IH; ring]. Qed.

Lemma fsum_map_scale {A} (f : A -> K) c l : Σ (map (fun x => f x * c) l) = Σ (map f l) * c.
Proof. induction l as [|x l IH]; simpl; [ring | rewrite IH; ring]. Qed.

Lemma fsum_map_lin {A} (f g : A -> K) a b l :
  Σ (map (fun x => a * f x + b * g x) l) = a * Σ (map f l) + b * Σ (map g l).
Proof. induction l as [|x l IH]; simpl; [ring | rewrite IH; ring]. Qed.

Lemma fsum_map_zero {A} (l : list A) : Σ (map (fun _ => 0) l) = 0.
Proof. induction l as [|x l IH]; simpl; [reflexivity | rewrite IH; ring]. Qed.

Lemma fsum_flat_map {A B} (f : B -> K) (g : A -> list B) l :
  Σ (map f (flat_map g l)) = Σ (map (fun x => Σ (map f (g x))) l).
Proof.
  induction l as [|x l IH]; simpl; [reflexivity|]. rewrite map_app, fsum_app, IH. reflexivity.
Qed.

Lemma fsum_map_ext {A} (f g : A -> K) l : (forall x, In x l -> f x = g x) -> Σ (map f l) = Σ (map g l).
Proof.
  induction l as [|x l IH]; intros H; simpl; [reflexivity|].
  rewrite (H x) by (left; reflexivity). rewrite IH; [reflexivity|]. intros y Hy. apply H. right. exact Hy.
Qed.

(* exchange of two finite sums *)
Lemma fsum_swap {A B} (F : A -> B -> K) la lb :
  Σ (map (fun x => Σ (map (fun y => F x y) lb)) la) = Σ (map (fun y => Σ (map (fun x => F x y) la)) lb).
Proof.
  induction la as [|x la IH]; simpl.
  - rewrite fsum_map_zero. reflexivity.
  - rewrite IH. rewrite <- fsum_map_add. reflexivity.
Qed.

(* ---- Fubini step: summing along one axis first does not change the total ---- *)
Theorem total_sum_axis sh ax (f : idx -> K) : (ax < length sh)%nat ->
  total K (remove_nth ax sh) (sum_axis K sh ax f) = total K sh f.
Proof.
  revert sh f. induction ax as [|a IH]; intros [|k rest] f Hax; simpl in Hax; try lia.
  - unfold total, sum_axis. cbn [remove_nth nth indices insert_nth].
    rewrite fsum_flat_map.
    rewrite (fsum_swap (fun i j => f (j :: i)) (indices rest) (iota 0 k)).
    apply fsum_map_ext. intros j _. rewrite map_map. reflexivity.
  - unfold total. cbn [remove_nth indices]. rewrite !fsum_flat_map.
    apply fsum_map_ext. intros j0 _. rewrite !map_map.
    specialize (IH rest (fun i => f (j0 :: i)) ltac:(lia)). unfold total in IH.
    rewrite <- IH. apply fsum_map_ext. intros i' _. unfold sum_axis. reflexivity.
Qed.

(* the same with the cell lengths: integrating along ax (factor h) and then over the rest (factor r)
   equals integrating over everything (factor h * r) *)
Theorem total_integrate_dir sh ax h r (f : idx -> K) : (ax < length sh)%nat ->
  total K (remove_nth ax sh) (fun i => sum_axis K sh ax f i * h) * r = total K sh f * (h * r).
Proof.
  intros Hax. unfold total at 1. rewrite fsum_map_scale. fold (total K (remove_nth ax sh) (sum_axis K sh ax f)).
  rewrite total_sum_axis by exact Hax. ring.
Qed.

(* iterating over ANY sequence of axes (each index refers to the shape left over at that step) never
   changes the total: integrating direction by direction in any order gives the same number *)
Fixpoint reduce_axes (axs : list nat) (sh : list nat) (f : idx -> K) : list nat * (idx -> K) :=
  match axs with
  | [] => (sh, f)
  | a :: rest => reduce_axes rest (remove_nth a sh) (sum_axis K sh a f)
  end.

Fixpoint axes_valid (axs : list nat) (len : nat) : Prop :=
  match axs with
  | [] => True
  | a :: rest => (a < len)%nat /\ axes_valid rest (len - 1)
  end.

Lemma remove_nth_length {A} (a : nat) (l : list A) : (a < length l)%nat ->
  length (remove_nth a l) = (length l - 1)%nat.
Proof.
  revert a. induction l as [|x l IH]; intros [|a] H; simpl in *; try lia.
  rewrite IH by lia. destruct l; simpl in *; lia.
Qed.

Theorem total_reduce_axes axs : forall sh (f : idx -> K), axes_valid axs (length sh) ->
  total K (fst (reduce_axes axs sh f)) (snd (reduce_axes axs sh f)) = total K sh f.
Proof.
  induction axs as [|a rest IH]; intros sh f Hv; simpl; [reflexivity|].
  destruct Hv as [Ha Hr]. rewrite IH by (rewrite remove_nth_length by exact Ha; exact Hr).
  apply total_sum_axis. exact Ha.
Qed.

(* ---- linearity ---- *)
Theorem total_lin sh a b (f g : idx -> K) :
  total K sh (fun i => a * f i + b * g i) = a * total K sh f + b * total K sh g.
Proof. unfold total. apply fsum_map_lin. Qed.

Theorem sum_axis_lin sh ax a b (f g : idx -> K) i :
  sum_axis K sh ax (fun i => a * f i + b * g i) i = a * sum_axis K sh ax f i + b * sum_axis K sh ax g i.
Proof. unfold sum_axis. apply (fsum_map_lin (fun j => f (insert_nth ax j i)) (fun j => g (insert_nth ax j i))). Qed.

(* ---- cumulative integral ---- *)
Lemma cum_aux_length h acc a : length (cum_aux K h acc a) = length a.
Proof. revert acc; induction a as [|x a IH]; intros acc; simpl; auto. Qed.

Lemma cum_aux_nth h acc a j : (j < length a)%nat ->
  nth j (cum_aux K h acc a) 0 = (nth j a 0 / two + (acc + Σ (firstn j a))) * h.
Proof.
  revert acc j. induction a as [|x a IH]; intros acc [|j] Hj; simpl in *; try lia.
  - rewrite !fdiv_def6. ring.
  - rewrite IH by lia. rewrite !fdiv_def6. ring.
Qed.

(* c_j = h * (sum of the preceding cells + half the cell's own value) *)
Theorem cum_line_nth h a j : (j < length a)%nat ->
  nth j (cum_line K h a) 0 = (nth j a 0 / two + Σ (firstn j a)) * h.
Proof. intros Hj. unfold cum_line. rewrite cum_aux_nth by exact Hj. rewrite !fdiv_def6. ring. Qed.

Lemma fsum_firstn_last a : a <> [] ->
  Σ a = Σ (firstn (length a - 1) a) + nth (length a - 1) a 0.
Proof.
  induction a as [|x a IH]; [congruence|]. intros _. destruct a as [|y a].
  - simpl. ring.
  - assert (Hne : y :: a <> []) by congruence. specialize (IH Hne).
    replace (length (x :: y :: a) - 1)%nat with (S (length (y :: a) - 1)) by (simpl; lia).
    remember (length (y :: a) - 1)%nat as m. remember (y :: a) as l.
    change (Σ (x :: l)) with (x + Σ l). change (firstn (S m) (x :: l)) with (x :: firstn m l).
    change (nth (S m) (x :: l) 0) with (nth m l 0). change (Σ (x :: firstn m l)) with (x + Σ (firstn m l)).
    rewrite IH at 1. ring.
Qed.

(* last entry + half the last cell = directional integral *)
Theorem cum_line_last h a : two <> 0 -> a <> [] ->
  nth (length a - 1) (cum_line K h a) 0 + nth (length a - 1) a 0 / two * h = Σ a * h.
Proof.
  intros H2 Hne. assert (Hl : (length a - 1 < length a)%nat) by (destruct a; [congruence | simpl; lia]).
  rewrite cum_line_nth by exact Hl. rewrite (fsum_firstn_last a Hne) at 1.
  set (x := nth (length a - 1) a 0). set (s := Σ (firstn (length a - 1) a)).
  unfold f2 in *. field. exact H2.
Qed.

(* ---- mean x integrated extent = integral ---- *)
Theorem mean_times_extent sh (f : idx -> K) dV :
  fnat K (nprod sh) <> 0 ->
  total K sh f / fnat K (nprod sh) * (fnat K (nprod sh) * dV) = total K sh f * dV.
Proof. intros H. field. exact H. Qed.

End C06.
