(* C06: soundness of check_C06 — an accepted case certifies that the OBSERVED output of
   Field.integrate / Field.mean is the model's value on the observed input array, so the
   C06 theorems apply to the observation itself. *)
From Coq Require Import Qcanon.
From DF Require Import Prelude FieldK NDArray Integrate ListLemmas CheckSound Check_C06 C06_proofs C06_means.

Ltac split_andb :=
  repeat match goal with
         | H : _ && _ = true |- _ => apply andb_true_iff in H; destruct H
         end.

Definition arr (sh : list nat) (nvdim : nat) (vals : list Q) : idx -> Qc :=
  of_list (f0 QcOps) (sh ++ [nvdim]) (qcl vals).

Lemma check_int_all_sound sh nvdim dV vals obs :
  check_C06 (CIntAll sh nvdim dV vals obs) = true ->
  length vals = nprod (sh ++ [nvdim]) /\
  qcl obs = integrate_all QcOps sh nvdim (qc dV) (arr sh nvdim vals).
Proof.
  simpl. intro H. split_andb. split.
  - apply Nat.eqb_eq. assumption.
  - symmetry. apply qclist_eqb_sound. assumption.
Qed.

Lemma check_int_dir_sound sh nvdim ax h vals obs :
  check_C06 (CIntDir sh nvdim ax h vals obs) = true ->
  length vals = nprod (sh ++ [nvdim]) /\
  qcl obs = to_list (remove_nth ax sh ++ [nvdim]) (integrate_dir QcOps sh nvdim ax (qc h) (arr sh nvdim vals)).
Proof.
  simpl. intro H. split_andb. split.
  - apply Nat.eqb_eq. assumption.
  - symmetry. apply qclist_eqb_sound. assumption.
Qed.

Lemma check_int_cum_sound sh nvdim ax h vals obs :
  check_C06 (CIntCum sh nvdim ax h vals obs) = true ->
  length vals = nprod (sh ++ [nvdim]) /\
  qcl obs = to_list (sh ++ [nvdim]) (integrate_cum QcOps sh nvdim ax (qc h) (arr sh nvdim vals)).
Proof.
  simpl. intro H. split_andb. split.
  - apply Nat.eqb_eq. assumption.
  - symmetry. apply qclist_eqb_sound. assumption.
Qed.

Lemma check_mean_all_sound sh nvdim vals scale obs :
  check_C06 (CMeanAll sh nvdim vals scale obs) = true ->
  length vals = nprod (sh ++ [nvdim]) /\
  length obs = nvdim /\
  forall c, (c < nvdim)%nat ->
    (Qabs (this (nth c (mean_all QcOps sh nvdim (arr sh nvdim vals)) 0%Qc) - this (nth c (qcl obs) 0%Qc))
     <= mean_tol * scale)%Q.
Proof.
  simpl. intro H. split_andb.
  match goal with Hc : forallb2 _ _ _ = true |- _ => apply qc_close_list_sound in Hc; destruct Hc as [Hl Hn] end.
  unfold mean_all in Hl at 1. rewrite map_length, iota_length in Hl.
  split; [apply Nat.eqb_eq; assumption|]. split.
  - unfold qcl in Hl. rewrite map_length in Hl. symmetry. exact Hl.
  - intros c Hc. apply Hn. unfold mean_all. rewrite map_length, iota_length. exact Hc.
Qed.

(* transfer: the observed integral over all directions IS the cell sum times the cell volume *)
Theorem accepted_total sh nvdim dV vals obs c :
  check_C06 (CIntAll sh nvdim dV vals obs) = true -> (c < nvdim)%nat ->
  nth c (qcl obs) 0%Qc
  = (total QcOps sh (fun i => arr sh nvdim vals (i ++ [c])) * qc dV)%Qc.
Proof.
  intros H Hc. apply check_int_all_sound in H. destruct H as [_ ->].
  unfold integrate_all.
  exact (nth_map_iota (fun c => fmul (total QcOps sh (fun i => arr sh nvdim vals (i ++ [c]))) (qc dV)) nvdim c (f0 QcOps) Hc).
Qed.

(* transfer: two accepted observations — integrate() and integrate(direction) followed by the
   sum over the remaining cells — agree (Fubini on observed numbers), for a scalar layout *)
Theorem accepted_fubini sh ax h r vals obs_all (f := fun i => arr sh 1 vals (i ++ [0%nat])) :
  (ax < length sh)%nat ->
  check_C06 (CIntAll sh 1 (Qmult h r) vals obs_all) = true ->
  nth 0 (qcl obs_all) 0%Qc
  = (total QcOps (remove_nth ax sh) (fun i => (sum_axis QcOps sh ax f i * qc h)%Qc) * qc r)%Qc.
Proof.
  intros Hax H.
  rewrite (accepted_total sh 1 (Qmult h r) vals obs_all 0 H ltac:(lia)).
  pose proof (total_integrate_dir QcOps QcLaws sh ax (qc h) (qc r) f Hax) as E.
  simpl in E. rewrite E. f_equal.
  unfold qc. apply Qc_is_canon. unfold Qcmult, Q2Qc, this.
  repeat (etransitivity; [apply Qred_correct|]). symmetry.
  etransitivity; [apply Qred_correct|]. rewrite !Qred_correct. reflexivity.
Qed.

Lemma check_mean_dir_sound sh nvdim ax vals scale obs :
  check_C06 (CMeanDir sh nvdim ax vals scale obs) = true ->
  length vals = nprod (sh ++ [nvdim]) /\
  forall k, (k < length obs)%nat ->
    (Qabs (this (nth k (to_list (remove_nth ax sh ++ [nvdim]) (mean_dir QcOps sh nvdim ax (arr sh nvdim vals))) 0%Qc)
           - this (nth k (qcl obs) 0%Qc)) <= mean_tol * scale)%Q.
Proof.
  simpl. intro H. split_andb.
  match goal with Hc : forallb2 _ _ _ = true |- _ => apply qc_close_list_sound in Hc; destruct Hc as [Hl Hn] end.
  split; [apply Nat.eqb_eq; assumption|].
  intros k Hk. apply Hn. rewrite Hl. unfold qcl. rewrite map_length. exact Hk.
Qed.

(* non-vacuity: a concrete accepted case (2x3 scalar array, dV = 1/4) *)
Example accepted_total_instance :
  check_C06 (CIntAll [2;3]%nat 1 (1#4) [1;2;3;4;5;6]%Q [(21#4)%Q]) = true.
Proof. vm_compute. reflexivity. Qed.

From DF Require Import C08_arrays.
(* transfer: the observed cumulative integral at the cell (and component) with multi-index i is the
   cell length times (half the cell's own value plus the sum of the preceding cells on its grid line) *)
Theorem accepted_cumulative sh nvdim ax h vals obs i
        (ln := line (sh ++ [nvdim]) (arr sh nvdim vals) ax i) :
  check_C06 (CIntCum sh nvdim ax h vals obs) = true ->
  inb (sh ++ [nvdim]) i = true -> (nth ax i 0%nat < length ln)%nat ->
  nth (ravel (sh ++ [nvdim]) i) (qcl obs) 0%Qc
  = ((nth (nth ax i 0%nat) ln 0%Qc / f2 QcOps + fsum QcOps (firstn (nth ax i 0%nat) ln)) * qc h)%Qc.
Proof.
  intros H Hi Hj. apply check_int_cum_sound in H. destruct H as [_ ->].
  rewrite nth_to_list by exact Hi.
  unfold integrate_cum, along_axis. fold ln.
  exact (cum_line_nth QcOps QcLaws (qc h) ln (nth ax i 0%nat) Hj).
Qed.

(* transfer: every entry of the OBSERVED directional integral is the sum along that axis times the
   cell length, at the index with that axis removed *)
Theorem accepted_directional sh nvdim ax h vals obs i :
  check_C06 (CIntDir sh nvdim ax h vals obs) = true ->
  inb (remove_nth ax sh ++ [nvdim]) i = true ->
  nth (ravel (remove_nth ax sh ++ [nvdim]) i) (qcl obs) 0%Qc
  = (fsum QcOps (map (fun j => arr sh nvdim vals (insert_nth ax j i))
                     (iota 0 (nth ax (sh ++ [nvdim]) 0%nat))) * qc h)%Qc.
Proof.
  intros H Hi. apply check_int_dir_sound in H. destruct H as [_ ->].
  rewrite nth_to_list by exact Hi. reflexivity.
Qed.
