(* C07: n-dimensional acceptance.  Generic facts about the Region / Mesh(cell=) constructors
   (ordered corners are kept as they are, whole-cell regions are accepted with the expected
   counts) and their use for padding, selections, extraction and resampling. *)
From DF Require Import Prelude Constants_gen Region Mesh Select QLemmas ListLemmas C01_axis C01_nd C07_axis C07_nd.
Open Scope Q_scope.

(* ---------- list tools ---------- *)
Lemma Forall2_len {A B} (P : A -> B -> Prop) l1 l2 : Forall2 P l1 l2 -> length l1 = length l2.
Proof. induction 1; simpl; congruence. Qed.

Lemma Forall2_of_nth (P : Q -> Q -> Prop) (l1 l2 : list Q) :
  length l1 = length l2 -> (forall a, (a < length l1)%nat -> P (nth a l1 0) (nth a l2 0)) -> Forall2 P l1 l2.
Proof.
  revert l2. induction l1 as [|x l1 IH]; intros [|y l2] L H; simpl in *; try discriminate; constructor.
  - apply (H 0%nat). lia.
  - apply IH; [lia|]. intros a Ha. apply (H (S a)). lia.
Qed.

Lemma nth_set_nth_other {A} (a b : nat) (x d : A) (l : list A) : a <> b -> nth b (set_nth a x l) d = nth b l d.
Proof.
  revert a b. induction l as [|h t IH]; intros [|a] [|b] H; simpl; auto; try congruence.
Qed.

Lemma remove_nth_length {A} (a : nat) (l : list A) : (a < length l)%nat -> length (remove_nth a l) = (length l - 1)%nat.
Proof.
  revert a. induction l as [|h t IH]; intros [|a] H; simpl in *; try lia.
  rewrite IH by lia. lia.
Qed.

Definition skip (a b : nat) : nat := if (b <? a)%nat then b else S b.

Lemma nth_remove_nth {A} (a b : nat) (d : A) (l : list A) : nth b (remove_nth a l) d = nth (skip a b) l d.
Proof.
  assert (N : forall k, nth k (@nil A) d = d) by (intros [|k]; reflexivity).
  unfold skip. revert a b. induction l as [|h t IH]; intros a b.
  - assert (R : remove_nth a (@nil A) = []) by (destruct a; reflexivity). rewrite R, !N. reflexivity.
  - destruct a as [|a]; [simpl; reflexivity|]. destruct b as [|b]; [simpl; reflexivity|].
    simpl remove_nth. cbn [nth]. rewrite IH. change (S b <? S a)%nat with (b <? a)%nat.
    destruct (b <? a)%nat; reflexivity.
Qed.

Lemma In_remove_nth {A} (a : nat) (x : A) (l : list A) : In x (remove_nth a l) -> In x l.
Proof.
  revert a. induction l as [|h t IH]; intros [|a] H; simpl in *; auto.
  destruct H as [H | H]; [left; exact H | right; eapply IH; exact H].
Qed.

Lemma NoDup_remove_nth {A} (a : nat) (l : list A) : NoDup l -> NoDup (remove_nth a l).
Proof.
  intro H. revert a. induction H as [|h t Hn H IH]; intros [|a]; simpl; try constructor; auto.
  intro C. apply Hn. eapply In_remove_nth. exact C.
Qed.

Lemma nodupb_of_NoDup (l : list string) : NoDup l -> nodupb l = true.
Proof.
  induction 1 as [|h t Hn H IH]; simpl; [reflexivity|]. rewrite IH, andb_true_r.
  apply negb_true_iff. destruct (existsb (String.eqb h) t) eqn:E; [|reflexivity].
  apply existsb_exists in E. destruct E as [y [Hy E]]. apply String.eqb_eq in E. subst y. contradiction.
Qed.

Lemma existsb_false_nth {A} (f : A -> bool) (l : list A) (d : A) :
  (forall a, (a < length l)%nat -> f (nth a l d) = false) -> existsb f l = false.
Proof.
  intro H. destruct (existsb f l) eqn:E; [|reflexivity].
  apply existsb_exists in E. destruct E as [x [Hx Fx]].
  destruct (In_nth l x d Hx) as [a [Ha Ea]]. rewrite <- Ea, H in Fx by exact Ha. discriminate.
Qed.

Lemma forallb_true_nth {A} (f : A -> bool) (l : list A) (d : A) :
  (forall a, (a < length l)%nat -> f (nth a l d) = true) -> forallb f l = true.
Proof.
  intro H. apply forallb_forall. intros x Hx.
  destruct (In_nth l x d Hx) as [a [Ha Ea]]. rewrite <- Ea. apply H. exact Ha.
Qed.

Fixpoint mapres_ok {A B} (f : A -> res B) (l : list A) :
  (forall x, In x l -> exists y, f x = OK y) -> exists ys, mapres f l = OK ys.
Proof.
  destruct l as [|a t]; intro H; simpl.
  - exists []. reflexivity.
  - destruct (H a (or_introl eq_refl)) as [y Ey]. rewrite Ey. simpl.
    destruct (mapres_ok A B f t (fun x Hx => H x (or_intror Hx))) as [ys Eys]. rewrite Eys. simpl.
    exists (y :: ys). reflexivity.
Qed.

(* ---------- Region(p1, p2) on ordered corners keeps them ---------- *)
Lemma Qmin_of_lt a b : a < b -> Qmin a b = a.
Proof. intro H. assert (E : Qcompare a b = Lt) by (apply Qlt_alt; exact H). unfold Qmin, GenericMinMax.gmin. rewrite E. reflexivity. Qed.
Lemma Qmax_of_lt a b : a < b -> Qmax a b = b.
Proof. intro H. assert (E : Qcompare a b = Lt) by (apply Qlt_alt; exact H). unfold Qmax, GenericMinMax.gmax. rewrite E. reflexivity. Qed.

Lemma map2_minmax_lt p1 p2 : Forall2 Qlt p1 p2 -> map2 Qmin p1 p2 = p1 /\ map2 Qmax p1 p2 = p2.
Proof.
  induction 1 as [|a b l1 l2 Hab H [IH1 IH2]]; simpl; [split; reflexivity|].
  rewrite IH1, IH2, (Qmin_of_lt a b Hab), (Qmax_of_lt a b Hab). split; reflexivity.
Qed.

Lemma no_zero_edges lo hi : Forall2 Qlt lo hi -> existsb (fun e => Qeq_bool e 0) (edges_of lo hi) = false.
Proof.
  unfold edges_of. induction 1 as [|a b l1 l2 Hab H IH]; simpl; [reflexivity|].
  rewrite IH, orb_false_r. destruct (Qeq_bool (b - a) 0) eqn:E; [|reflexivity].
  apply Qeq_bool_iff in E. lra.
Qed.

Lemma mk_region_accepts p1 p2 ds us t :
  Forall2 Qlt p1 p2 -> (0 < length p1)%nat -> length ds = length p1 -> NoDup ds -> length us = length p1 ->
  mk_region p1 p2 (Some ds) (Some us) t = OK (mkRegion p1 p2 ds us t).
Proof.
  intros H L0 Ld Nd Lu. pose proof (Forall2_len _ _ _ H) as L.
  unfold mk_region. rewrite <- L, Nat.eqb_refl. simpl negb. cbv iota.
  destruct (length p1 =? 0)%nat eqn:Z0; [apply Nat.eqb_eq in Z0; lia|].
  rewrite Ld, Lu, Nat.eqb_refl. simpl negb. cbv iota. rewrite (nodupb_of_NoDup _ Nd). simpl.
  destruct (map2_minmax_lt _ _ H) as [E1 E2]. rewrite E1, E2, (no_zero_edges _ _ H). reflexivity.
Qed.

Lemma mk_region_accepts_default p1 p2 t :
  Forall2 Qlt p1 p2 -> (0 < length p1)%nat ->
  mk_region p1 p2 None None t = OK (mkRegion p1 p2 (default_dims (length p1)) (repeat "m"%string (length p1)) t).
Proof.
  intros H L0. pose proof (Forall2_len _ _ _ H) as L.
  unfold mk_region. rewrite <- L, Nat.eqb_refl. simpl negb. cbv iota.
  destruct (length p1 =? 0)%nat eqn:Z0; [apply Nat.eqb_eq in Z0; lia|]. simpl.
  destruct (map2_minmax_lt _ _ H) as [E1 E2]. rewrite E1, E2, (no_zero_edges _ _ H). reflexivity.
Qed.

(* ---------- containment from plain inequalities ---------- *)
Lemma region_tols (r : region) : wf_region r -> 0 <= tf r /\ 0 <= reg_atol r.
Proof.
  intro W. set (m := mkMesh r (repeat 1%Z (length (pmin r))) "" []).
  assert (Wm : wf_mesh m).
  { unfold wf_mesh, m; simpl. split; [exact W|]. split; [apply repeat_length|].
    apply Forall_forall. intros x Hx. apply repeat_spec in Hx. subst x. lia. }
  split; [apply (tf_nonneg m Wm) | apply (reg_atol_nonneg m Wm)].
Qed.

Lemma contains_pt_intro (r : region) (p : list Q) : wf_region r -> length p = ndim r ->
  (forall a, (a < ndim r)%nat -> nth a (pmin r) 0 <= nth a p 0 /\ nth a p 0 <= nth a (pmax r) 0) ->
  contains_pt r p = true.
Proof.
  intros W L H. destruct (region_tols _ W) as [T0 T1].
  destruct W as [W1 _]. unfold ndim in *.
  unfold contains_pt, ndim. rewrite L, Nat.eqb_refl. simpl.
  apply forallb_id_nth. intros a Ha. rewrite map3_length in Ha.
  rewrite (nth_map3 _ _ _ _ _ true 0 0 0) by lia.
  destruct (H a ltac:(lia)) as [A B]. apply contains1_inside; assumption.
Qed.

(* ---------- Mesh(region=r, cell=c) on a region made of whole cells ---------- *)
Lemma bad_rem_multiple tol c e (k : Z) : 0 < c -> 0 <= tol -> e == inject_Z k * c -> bad_rem tol c e = false.
Proof.
  intros Hc Ht E. unfold bad_rem, Qremainder.
  assert (Q1 : e / c == inject_Z k) by (rewrite E; field; lra).
  assert (R : e - inject_Z (Qfloor (e / c)) * c == 0) by (rewrite Q1, Qfloor_Z; lra).
  apply andb_false_iff. left. apply Qltb_false. lra.
Qed.

Lemma mesh_by_cell_accepts (r : region) (c : list Q) (ks : list Z) :
  wf_region r -> length c = ndim r -> length ks = ndim r ->
  (forall a, (a < ndim r)%nat ->
     0 < nth a c 0 /\ (0 < nth a ks 0)%Z /\
     nth a (pmax r) 0 - nth a (pmin r) 0 == inject_Z (nth a ks 0%Z) * nth a c 0) ->
  mesh_by_cell r c = OK (mkMesh r ks "" []).
Proof.
  intros W Lc Lk H. pose proof W as [W1 [W0 _]]. unfold ndim in *.
  unfold mesh_by_cell, ndim. rewrite Lc, Nat.eqb_refl. simpl negb. cbv iota.
  assert (Cpos : forallb (fun x => Qltb 0 x) c = true).
  { apply (forallb_true_nth _ _ 0). intros a Ha. apply Qltb_true. apply H. lia. }
  rewrite Cpos. simpl negb. cbv iota.
  assert (C1 : contains_pt r (pmin r) = true).
  { apply contains_pt_intro; [exact W | reflexivity|]. unfold ndim. intros a Ha.
    destruct (H a Ha) as [A [B E]].
    assert (0 < inject_Z (nth a ks 0%Z) * nth a c 0).
    { apply Qmult_lt_0_compat; [apply inject_Z_pos; exact B | exact A]. }
    lra. }
  assert (C2 : contains_pt r (map2 Qplus (pmin r) c) = true).
  { apply contains_pt_intro; [exact W | unfold ndim; rewrite map2_length; lia|]. unfold ndim. intros a Ha.
    rewrite (nth_map2 _ _ _ _ 0 0 0) by lia.
    destruct (H a Ha) as [A [B E]].
    assert (1 * nth a c 0 <= inject_Z (nth a ks 0%Z) * nth a c 0).
    { apply mul_le_c; [exact A|]. change 1 with (inject_Z 1). apply injZ_le. lia. }
    lra. }
  rewrite C1, C2. simpl negb. cbv iota.
  assert (Tol : 0 <= bycell_tol c).
  { unfold bycell_tol. apply Qmult_le_0_compat; [|unfold divisibility_factor; lra].
    apply Qlt_le_weak. apply qlist_min_pos.
    - destruct c; simpl in *; [lia | discriminate].
    - intros e He. destruct (In_nth c e 0 He) as [a [Ha Ea]]. rewrite <- Ea. apply H. lia. }
  assert (NoRem : existsb (fun b => b) (map2 (bad_rem (bycell_tol c)) c (edges r)) = false).
  { apply (existsb_false_nth _ _ false). intros a Ha. rewrite map2_length in Ha.
    unfold edges, edges_of in *. rewrite map2_length in Ha.
    rewrite (nth_map2 _ _ _ _ false 0 0) by (try rewrite map2_length; lia).
    rewrite (nth_map2 _ _ _ _ 0 0 0) by lia.
    destruct (H a ltac:(lia)) as [A [B E]].
    apply (bad_rem_multiple _ _ _ (nth a ks 0%Z) A Tol E). }
  rewrite NoRem. f_equal. f_equal.
  apply nth_ext_Z.
  - rewrite map2_length. unfold edges, edges_of. rewrite map2_length. lia.
  - intros a Ha. rewrite map2_length in Ha. unfold edges, edges_of in *. rewrite map2_length in Ha.
    rewrite (nth_map2 _ _ _ _ 0%Z 0 0) by (try rewrite map2_length; lia).
    rewrite (nth_map2 _ _ _ _ 0 0 0) by lia.
    destruct (H a ltac:(lia)) as [A [B E]].
    apply round_of_int. rewrite E. field. lra.
Qed.
