(* C07: per-axis lemmas (lattice blocks, floor/ceil cell lookup, padding maps, nearest centre). *)
From DF Require Import Prelude Constants_gen Region Mesh Select QLemmas ListLemmas C01_axis.
Open Scope Q_scope.

(* ---------- small arithmetic helpers ---------- *)
Lemma inject_Z_minus (a b : Z) : inject_Z (a - b) = inject_Z a - inject_Z b.
Proof. unfold Z.sub, Qminus. rewrite inject_Z_plus, inject_Z_opp. reflexivity. Qed.

Lemma Qfloor_shift (x : Q) (z : Z) : Qfloor (x - inject_Z z) = (Qfloor x - z)%Z.
Proof.
  destruct (Qfloor_bounds x) as [A B].
  apply Qfloor_unique.
  - rewrite inject_Z_minus. lra.
  - rewrite inject_Z_plus, inject_Z_minus. change (inject_Z 1) with 1. lra.
Qed.

Lemma Qceiling_bounds (x : Q) : inject_Z (Qceiling x) - 1 < x /\ x <= inject_Z (Qceiling x).
Proof.
  split; [|apply Qle_ceiling].
  pose proof (Qceiling_lt x) as H. rewrite inject_Z_minus in H. exact H.
Qed.

Lemma round_of_int (x : Q) (z : Z) : x == inject_Z z -> Qround_half_even x = z.
Proof.
  intro E. unfold Qround_half_even.
  assert (F : Qfloor x = z) by (rewrite E; apply Qfloor_Z).
  rewrite F.
  assert (R : x - inject_Z z == 0) by lra.
  destruct (Qcompare_spec (x - inject_Z z) (1 # 2)) as [C | C | C]; try lra. reflexivity.
Qed.

Lemma injZ_le a b : (a <= b)%Z -> inject_Z a <= inject_Z b.
Proof. intro H. rewrite <- Zle_Qle. exact H. Qed.
Lemma injZ_lt a b : (a < b)%Z -> inject_Z a < inject_Z b.
Proof. intro H. rewrite <- Zlt_Qlt. exact H. Qed.
Lemma injZ_le_inv a b : inject_Z a <= inject_Z b -> (a <= b)%Z.
Proof. intro H. rewrite Zle_Qle. exact H. Qed.
Lemma injZ_lt_inv a b : inject_Z a < inject_Z b -> (a < b)%Z.
Proof. intro H. rewrite Zlt_Qlt. exact H. Qed.

Lemma mul_le_c c a b : 0 < c -> a <= b -> a * c <= b * c.
Proof. intros Hc H. apply Qmult_le_compat_r; lra. Qed.
Lemma mul_lt_c c a b : 0 < c -> a < b -> a * c < b * c.
Proof. intros Hc H. apply Qmult_lt_compat_r; lra. Qed.
Lemma mul_le_c_inv c a b : 0 < c -> a * c <= b * c -> a <= b.
Proof.
  intros Hc H. destruct (Qlt_le_dec b a) as [L | L]; [|exact L].
  pose proof (mul_lt_c c b a Hc L). lra.
Qed.
Lemma mul_lt_c_inv c a b : 0 < c -> a * c < b * c -> a < b.
Proof.
  intros Hc H. destruct (Qlt_le_dec a b) as [L | L]; [exact L|].
  pose proof (mul_le_c c b a Hc L). lra.
Qed.

(* ---------- padding maps ---------- *)
Lemma pad_src_interior (md : pmode) (k j : Z) :
  (0 <= j < k)%Z -> pad_src md k j = Some j.
Proof.
  intros H. unfold pad_src, in_range1.
  replace (0 <=? j)%Z with true by (symmetry; apply Z.leb_le; lia).
  replace (j <? k)%Z with true by (symmetry; apply Z.ltb_lt; lia).
  reflexivity.
Qed.

(* every mode reads source cells only *)
Lemma some_inj (x y : Z) : Some x = Some y -> x = y.
Proof. congruence. Qed.

Lemma pad_src_range (md : pmode) (k j s : Z) :
  (0 < k)%Z -> pad_src md k j = Some s -> (0 <= s < k)%Z.
Proof.
  intros Hk. unfold pad_src, in_range1.
  destruct ((0 <=? j)%Z && (j <? k)%Z) eqn:E.
  - intro H; apply some_inj in H; subst s. apply andb_true_iff in E. destruct E as [A B].
    apply Z.leb_le in A. apply Z.ltb_lt in B. lia.
  - destruct md; intro H.
    + discriminate.
    + apply some_inj in H; subst s. unfold Qclip. lia.
    + apply some_inj in H; subst s. apply Z.mod_pos_bound. lia.
    + apply some_inj in H; subst s. pose proof (Z.mod_pos_bound j (2 * k) ltac:(lia)) as M.
      destruct (j mod (2 * k) <? k)%Z eqn:L; [apply Z.ltb_lt in L | apply Z.ltb_ge in L]; lia.
    + destruct (k =? 1)%Z eqn:K1; [apply some_inj in H; subst s; lia|]. apply Z.eqb_neq in K1.
      apply some_inj in H; subst s. pose proof (Z.mod_pos_bound j (2 * k - 2) ltac:(lia)) as M.
      destruct (j mod (2 * k - 2) <? k)%Z eqn:L; [apply Z.ltb_lt in L | apply Z.ltb_ge in L]; lia.
Qed.

(* constant mode fills exactly the cells outside the source *)
Lemma pad_src_constant (k j : Z) : pad_src PConstant k j = None <-> ~ (0 <= j < k)%Z.
Proof.
  unfold pad_src, in_range1. destruct ((0 <=? j)%Z && (j <? k)%Z) eqn:E.
  - apply andb_true_iff in E. destruct E as [A B]. apply Z.leb_le in A. apply Z.ltb_lt in B.
    split; [discriminate | lia].
  - split; [|reflexivity]. intros _ [A B].
    apply Z.leb_le in A. apply Z.ltb_lt in B. rewrite A, B in E. discriminate.
Qed.

(* what the four copying modes mean: nearest edge cell / periodic / mirror images *)
Lemma pad_src_edge (k j : Z) : (0 < k)%Z ->
  pad_src PEdge k j = Some (if (j <? 0)%Z then 0%Z else if (k <=? j)%Z then (k - 1)%Z else j).
Proof.
  intro Hk. unfold pad_src, in_range1, Qclip.
  destruct (0 <=? j)%Z eqn:A; destruct (j <? k)%Z eqn:B; simpl;
    destruct (j <? 0)%Z eqn:C; destruct (k <=? j)%Z eqn:D;
    try apply Z.leb_le in A; try apply Z.leb_gt in A; try apply Z.ltb_lt in B; try apply Z.ltb_ge in B;
    try apply Z.ltb_lt in C; try apply Z.ltb_ge in C; try apply Z.leb_le in D; try apply Z.leb_gt in D;
    f_equal; lia.
Qed.

Lemma pad_src_wrap (k j : Z) : (0 < k)%Z -> pad_src PWrap k j = Some (j mod k)%Z.
Proof.
  intro Hk. unfold pad_src, in_range1.
  destruct ((0 <=? j)%Z && (j <? k)%Z) eqn:E; [|reflexivity].
  apply andb_true_iff in E. destruct E as [A B]. apply Z.leb_le in A. apply Z.ltb_lt in B.
  rewrite Z.mod_small by lia. reflexivity.
Qed.

(* ---------- one axis of a mesh ---------- *)
Section Axis.
Variables (lo hi : Q) (k : Z).
Hypothesis Hlh : lo < hi.
Hypothesis Hk : (0 < k)%Z.
Let c := cell_of lo hi k.

Let Hc : 0 < c := cell_pos lo hi k Hlh Hk.
Let Hn : inject_Z k * c == hi - lo := cell_times_n lo hi k Hk.

(* cell lookup for every accepted coordinate lo <= x <= hi: in range, the closed cell contains x *)
Lemma cell_of_coord x : lo <= x -> x <= hi ->
  let i := p2i1 lo c k x in
  (0 <= i < k)%Z /\ lo + inject_Z i * c <= x /\ x <= lo + (inject_Z i + 1) * c /\
  (x < hi -> x < lo + (inject_Z i + 1) * c).
Proof.
  intros H0 H1 i. split; [apply (p2i1_range lo hi k Hk)|].
  destruct (Qlt_le_dec x hi) as [L | L].
  - destruct (p2i1_cell Hlh Hk x H0 L) as [A B]. fold c in A, B. fold i in A, B.
    repeat split; try lra.
  - assert (E : i = (k - 1)%Z) by (apply (p2i1_upper Hlh Hk); assumption).
    rewrite E. rewrite inject_Z_minus. change (inject_Z 1) with 1.
    repeat split; try lra.
Qed.

Lemma p2i1_mono x y : lo <= x -> x <= y -> y <= hi -> (p2i1 lo c k x <= p2i1 lo c k y)%Z.
Proof.
  intros H0 H1 H2.
  assert (F : (Qfloor ((x - lo) / c) <= Qfloor ((y - lo) / c))%Z).
  { apply Qfloor_resp_le. apply Qle_shift_div_l; [exact Hc|].
    assert (E : (x - lo) / c * c == x - lo) by (field; lra). lra. }
  unfold p2i1, Qclip. lia.
Qed.

(* lower face of the cell of centre i, upper face likewise: the half-cell steps of Mesh.sel *)
Lemma centre_minus_half i : i2p1 lo c i - c / 2 == lo + inject_Z i * c.
Proof. unfold i2p1, half_cell. field. Qed.
Lemma centre_plus_half i : i2p1 lo c i + c / 2 == lo + (inject_Z i + 1) * c.
Proof. unfold i2p1, half_cell. field. Qed.

(* ---- a lattice block [off, off+cnt) of the axis, as a mesh axis of its own ---- *)
Section Block.
Variables (off cnt : Z) (lo' hi' : Q).
Hypothesis Hcnt : (0 < cnt)%Z.
Hypothesis Hlo' : lo' == lo + inject_Z off * c.
Hypothesis Hhi' : hi' == lo + inject_Z (off + cnt) * c.
Let c' := cell_of lo' hi' cnt.

Lemma block_order : lo' < hi'.
Proof.
  rewrite Hlo', Hhi', inject_Z_plus.
  assert (0 < inject_Z cnt * c) by (apply Qmult_lt_0_compat; [apply inject_Z_pos; exact Hcnt | exact Hc]).
  lra.
Qed.

(* cell size unchanged *)
Lemma block_cell : c' == c.
Proof.
  unfold c', cell_of. rewrite Hlo', Hhi', inject_Z_plus.
  pose proof (inject_Z_pos cnt Hcnt). field. lra.
Qed.

(* Mesh(region=..., cell=c) recovers the count *)
Lemma block_count : Qround_half_even ((hi' - lo') / c) = cnt.
Proof.
  apply round_of_int. rewrite Hlo', Hhi', inject_Z_plus. field. lra.
Qed.

(* no 0.1 % remainder: the region is a whole number of cells *)
Lemma block_divisible tol : 0 <= tol -> bad_rem tol c (hi' - lo') = false.
Proof.
  intro Ht. unfold bad_rem, Qremainder.
  assert (E : (hi' - lo') / c == inject_Z cnt).
  { rewrite Hlo', Hhi', inject_Z_plus. field. lra. }
  assert (R : hi' - lo' - inject_Z (Qfloor ((hi' - lo') / c)) * c == 0).
  { rewrite E, Qfloor_Z. rewrite Hlo', Hhi', inject_Z_plus. ring. }
  apply andb_false_iff. left. apply Qltb_false. lra.
Qed.

(* THE point-wise core: a point of the half-open block lies in block cell j  iff  it lies in
   source cell j + off  (when the block is inside the source) *)
Lemma block_index_shift q :
  (0 <= off)%Z -> (off + cnt <= k)%Z -> lo' <= q -> q < hi' ->
  p2i1 lo c k q = (p2i1 lo' c' cnt q + off)%Z.
Proof.
  intros Ho Hoc Hq0 Hq1.
  assert (E : (q - lo') / c' == (q - lo) / c - inject_Z off).
  { rewrite block_cell, Hlo'. field. lra. }
  unfold p2i1. rewrite E, Qfloor_shift.
  set (f := Qfloor ((q - lo) / c)).
  assert (X : (q - lo) / c * c == q - lo) by (field; lra).
  destruct (Qfloor_bounds ((q - lo) / c)) as [F0 F1]. fold f in F0, F1.
  assert (A : (off <= f)%Z).
  { apply Z.lt_succ_r. apply injZ_lt_inv. unfold Z.succ. rewrite inject_Z_plus. change (inject_Z 1) with 1.
    apply (mul_lt_c_inv c); [exact Hc|].
    assert (inject_Z off * c <= (q - lo) / c * c) by lra.
    pose proof (mul_lt_c c _ _ Hc F1). lra. }
  assert (B : (f < off + cnt)%Z).
  { apply injZ_lt_inv. apply (mul_lt_c_inv c); [exact Hc|].
    pose proof (mul_le_c c _ _ Hc F0). lra. }
  unfold Qclip. lia.
Qed.

(* the same for a block that extends beyond the source (padding): inside the source the padded
   mesh and the source agree, the padded index is the source index plus the pad width *)
Lemma block_index_shift_pad q :
  lo <= q -> q < hi -> (off <= 0)%Z -> (k <= off + cnt)%Z ->
  p2i1 lo c k q = (p2i1 lo' c' cnt q + off)%Z.
Proof.
  intros Hq0 Hq1 Ho Hoc.
  assert (E : (q - lo') / c' == (q - lo) / c - inject_Z off).
  { rewrite block_cell, Hlo'. field. lra. }
  unfold p2i1. rewrite E, Qfloor_shift.
  set (f := Qfloor ((q - lo) / c)).
  assert (X : (q - lo) / c * c == q - lo) by (field; lra).
  destruct (Qfloor_bounds ((q - lo) / c)) as [F0 F1]. fold f in F0, F1.
  assert (A : (0 <= f)%Z).
  { apply Z.lt_succ_r. apply injZ_lt_inv. unfold Z.succ. rewrite inject_Z_plus. change (inject_Z 1) with 1.
    apply (mul_lt_c_inv c); [exact Hc|]. pose proof (mul_lt_c c _ _ Hc F1). change (inject_Z 0) with 0. lra. }
  assert (B : (f < k)%Z).
  { apply injZ_lt_inv. apply (mul_lt_c_inv c); [exact Hc|].
    pose proof (mul_le_c c _ _ Hc F0). lra. }
  unfold Qclip. lia.
Qed.

(* cell centres of the block are cell centres of the source *)
Lemma block_centres j : i2p1 lo' c' j == i2p1 lo c (j + off).
Proof.
  unfold i2p1. rewrite block_cell, Hlo', inject_Z_plus. ring.
Qed.
End Block.

(* ---- range selection keeps exactly the cells idx(x1) .. idx(x2) ---- *)
Lemma range_exact x1 x2 : lo <= x1 -> x1 <= x2 -> x2 <= hi ->
  let i1 := p2i1 lo c k x1 in let i2 := p2i1 lo c k x2 in
  let min_val := i2p1 lo c i1 - c / 2 in let max_val := i2p1 lo c i2 + c / 2 in
  (0 <= i1)%Z /\ (i1 <= i2)%Z /\ (i2 < k)%Z /\
  min_val == lo + inject_Z i1 * c /\ max_val == lo + inject_Z (i1 + (i2 - i1 + 1)) * c /\
  min_val <= x1 /\ x2 <= max_val /\ lo <= min_val /\ max_val <= hi /\
  Qround_half_even ((max_val - min_val) / c) = (i2 - i1 + 1)%Z /\
  cell_of min_val max_val (i2 - i1 + 1) == c.
Proof.
  intros H0 H1 H2 i1 i2 min_val max_val.
  destruct (cell_of_coord x1) as [[A0 A1] [A2 [A3 _]]]; try lra.
  destruct (cell_of_coord x2) as [[B0 B1] [B2 [B3 _]]]; try lra.
  fold i1 in A0, A1, A2, A3. fold i2 in B0, B1, B2, B3.
  assert (M : (i1 <= i2)%Z) by (apply p2i1_mono; lra).
  assert (E1 : min_val == lo + inject_Z i1 * c) by apply centre_minus_half.
  assert (E2 : max_val == lo + inject_Z (i1 + (i2 - i1 + 1)) * c).
  { unfold max_val. rewrite centre_plus_half. replace (i1 + (i2 - i1 + 1))%Z with (i2 + 1)%Z by lia.
    rewrite inject_Z_plus. reflexivity. }
  assert (P : (0 < i2 - i1 + 1)%Z) by lia.
  repeat split; try assumption; try lia.
  - lra.
  - unfold max_val. rewrite centre_plus_half. exact B3.
  - rewrite E1. pose proof (mul_le_c c 0 (inject_Z i1) Hc (injZ_le 0 i1 A0)). lra.
  - rewrite E2. replace (i1 + (i2 - i1 + 1))%Z with (i2 + 1)%Z by lia.
    pose proof (mul_le_c c _ _ Hc (injZ_le (i2 + 1) k ltac:(lia))). lra.
  - apply (block_count i1 (i2 - i1 + 1) min_val max_val E1 E2).
  - apply (block_cell i1 (i2 - i1 + 1) min_val max_val P E1 E2).
Qed.

(* ---- extraction by region: floor / ceil-1 give the smallest covering block ---- *)
Lemma block_minimal x0 x1 : lo <= x0 -> x0 < x1 -> x1 <= hi ->
  let a := p2i1 lo c k x0 in let b := upper_idx1 lo c x1 in
  (0 <= a)%Z /\ (a <= b)%Z /\ (b < k)%Z /\
  lo + inject_Z a * c <= x0 /\ x1 <= lo + (inject_Z b + 1) * c /\
  forall a' b' : Z, lo + inject_Z a' * c <= x0 -> x1 <= lo + (inject_Z b' + 1) * c ->
                    (a' <= a)%Z /\ (b <= b')%Z.
Proof.
  intros H0 H1 H2 a b.
  assert (Hx0 : x0 < hi) by lra.
  destruct (cell_of_coord x0) as [[A0 A1] [A2 [_ A3]]]; try lra. fold a in A0, A1, A2, A3.
  specialize (A3 Hx0).
  set (t := (x1 - lo) / c).
  assert (X : t * c == x1 - lo) by (unfold t; field; lra).
  destruct (Qceiling_bounds t) as [C0 C1].
  assert (Eb : inject_Z b == inject_Z (Qceiling t) - 1).
  { unfold b, upper_idx1. fold t. rewrite inject_Z_minus. reflexivity. }
  assert (U : x1 <= lo + (inject_Z b + 1) * c).
  { rewrite Eb. pose proof (mul_le_c c _ _ Hc C1). lra. }
  assert (L : lo + inject_Z b * c < x1).
  { rewrite Eb. pose proof (mul_lt_c c _ _ Hc C0). lra. }
  assert (Bk : (b < k)%Z).
  { apply injZ_lt_inv. apply (mul_lt_c_inv c); [exact Hc|]. lra. }
  assert (AB : (a <= b)%Z).
  { apply Z.lt_succ_r. apply injZ_lt_inv. unfold Z.succ. rewrite inject_Z_plus. change (inject_Z 1) with 1.
    apply (mul_lt_c_inv c); [exact Hc|]. lra. }
  repeat split; try assumption.
  - apply Z.lt_succ_r. apply injZ_lt_inv. unfold Z.succ. rewrite inject_Z_plus. change (inject_Z 1) with 1.
    apply (mul_lt_c_inv c); [exact Hc|]. lra.
  - apply Z.lt_succ_r. apply injZ_lt_inv. unfold Z.succ. rewrite inject_Z_plus. change (inject_Z 1) with 1.
    apply (mul_lt_c_inv c); [exact Hc|]. lra.
Qed.

(* corners handed to the Region constructor: centre of first cell - half, centre of last + half *)
Lemma getitem_corners a b :
  half_down (i2p1 lo c a) c == lo + inject_Z a * c /\
  half_up (i2p1 lo c b) c == lo + inject_Z (a + (b - a + 1)) * c.
Proof.
  unfold half_down, half_up. rewrite centre_minus_half, centre_plus_half.
  replace (a + (b - a + 1))%Z with (b + 1)%Z by lia. rewrite inject_Z_plus. split; reflexivity.
Qed.

(* ---- region2slices of a cell-aligned region selects exactly its cells ---- *)
Lemma slices_aligned a b : (0 <= a)%Z -> (a <= b)%Z -> (b < k)%Z ->
  p2i1 lo c k (half_up (lo + inject_Z a * c) c) = a /\
  p2i1 lo c k (half_down (lo + inject_Z (b + 1) * c) c) = b.
Proof.
  intros H0 H1 H2.
  assert (E1 : half_up (lo + inject_Z a * c) c == i2p1 lo c a).
  { unfold half_up, i2p1, half_cell. field. }
  assert (E2 : half_down (lo + inject_Z (b + 1) * c) c == i2p1 lo c b).
  { unfold half_down, i2p1, half_cell. rewrite inject_Z_plus. change (inject_Z 1) with 1. field. }
  assert (P : forall x y, x == y -> p2i1 lo c k x = p2i1 lo c k y).
  { intros x y E. unfold p2i1. rewrite E. reflexivity. }
  rewrite (P _ _ E1), (P _ _ E2).
  split; apply (p2i1_i2p1 Hlh Hk); lia.
Qed.

(* ---- padding: wl cells below, wh cells above ---- *)
Lemma pad_axis (w : Z * Z) : (0 <= fst w)%Z -> (0 <= snd w)%Z ->
  let lo' := pad_lo lo c w in let hi' := pad_hi hi c w in
  lo' == lo + inject_Z (- fst w) * c /\
  hi' == lo + inject_Z (- fst w + (k + fst w + snd w)) * c /\
  Qround_half_even ((hi' - lo') / c) = (k + fst w + snd w)%Z /\
  cell_of lo' hi' (k + fst w + snd w) == c.
Proof.
  intros H0 H1 lo' hi'.
  assert (E1 : lo' == lo + inject_Z (- fst w) * c).
  { unfold lo', pad_lo. rewrite inject_Z_opp. ring. }
  assert (E2 : hi' == lo + inject_Z (- fst w + (k + fst w + snd w)) * c).
  { unfold hi', pad_hi. replace (- fst w + (k + fst w + snd w))%Z with (k + snd w)%Z by lia.
    rewrite inject_Z_plus. lra. }
  assert (P : (0 < k + fst w + snd w)%Z) by lia.
  repeat split; try assumption.
  - apply (block_count (- fst w) (k + fst w + snd w) lo' hi' E1 E2).
  - apply (block_cell (- fst w) (k + fst w + snd w) lo' hi' P E1 E2).
Qed.

(* ---- resampling: a nearest source centre is the centre of a cell that contains the point ---- *)
Definition is_nearest (q : Q) (i : Z) : Prop :=
  (0 <= i < k)%Z /\ forall i', (0 <= i' < k)%Z -> Qabs (i2p1 lo c i - q) <= Qabs (i2p1 lo c i' - q).

Lemma nearest_contains q i : lo <= q -> q <= hi -> is_nearest q i ->
  lo + inject_Z i * c <= q /\ q <= lo + (inject_Z i + 1) * c.
Proof.
  intros H0 H1 [[I0 I1] N].
  assert (Ci : forall j, i2p1 lo c j == lo + (inject_Z j + (1 # 2)) * c) by (intro j; apply (centre_formula lo hi k)).
  split.
  - destruct (Qlt_le_dec q (lo + inject_Z i * c)) as [L | L]; [exfalso | exact L].
    assert (Ipos : (0 < i)%Z).
    { apply injZ_lt_inv. apply (mul_lt_c_inv c); [exact Hc|]. change (inject_Z 0) with 0. lra. }
    specialize (N (i - 1)%Z ltac:(lia)).
    rewrite !Ci in N. rewrite inject_Z_minus in N. change (inject_Z 1) with 1 in N.
    set (d := lo + (inject_Z i + (1 # 2)) * c - q) in *.
    assert (D : (1 # 2) * c < d) by (unfold d; lra).
    assert (Ed : lo + (inject_Z i - 1 + (1 # 2)) * c - q == d - c) by (unfold d; ring).
    rewrite Ed in N.
    assert (A1 : Qabs d == d) by (apply Qabs_pos; lra). rewrite A1 in N.
    assert (A2 : Qabs (d - c) < d) by (apply Qabs_Qlt_condition; split; lra).
    lra.
  - destruct (Qlt_le_dec (lo + (inject_Z i + 1) * c) q) as [L | L]; [exfalso | exact L].
    assert (Iup : (i + 1 < k)%Z).
    { apply injZ_lt_inv. apply (mul_lt_c_inv c); [exact Hc|]. rewrite inject_Z_plus. change (inject_Z 1) with 1. lra. }
    specialize (N (i + 1)%Z ltac:(lia)).
    rewrite !Ci in N. rewrite inject_Z_plus in N. change (inject_Z 1) with 1 in N.
    set (d := q - (lo + (inject_Z i + (1 # 2)) * c)) in *.
    assert (D : (1 # 2) * c < d) by (unfold d; lra).
    assert (E0 : lo + (inject_Z i + (1 # 2)) * c - q == - d) by (unfold d; ring).
    assert (Ed : lo + (inject_Z i + 1 + (1 # 2)) * c - q == c - d) by (unfold d; ring).
    rewrite E0, Ed in N.
    assert (A1 : Qabs (- d) == d) by (rewrite Qabs_opp; apply Qabs_pos; lra). rewrite A1 in N.
    assert (A2 : Qabs (c - d) < d) by (apply Qabs_Qlt_condition; split; lra).
    lra.
Qed.

(* the cell a point belongs to is a nearest cell: the modelled pick is admissible *)
Lemma pick_is_nearest q : lo <= q -> q <= hi -> is_nearest q (nearest_pick lo c k q).
Proof.
  intros H0 H1. unfold nearest_pick.
  destruct (cell_of_coord q H0 H1) as [R [A [B _]]].
  set (i := p2i1 lo c k q) in *.
  split; [exact R|]. intros i' R'.
  assert (Ci : forall j, i2p1 lo c j == lo + (inject_Z j + (1 # 2)) * c) by (intro j; apply (centre_formula lo hi k)).
  rewrite !Ci.
  assert (Hd : Qabs (lo + (inject_Z i + (1 # 2)) * c - q) <= (1 # 2) * c).
  { apply Qabs_Qle_condition. split; lra. }
  destruct (Z.lt_trichotomy i' i) as [L | [L | L]].
  - assert (inject_Z i' + 1 <= inject_Z i).
    { change 1 with (inject_Z 1). rewrite <- inject_Z_plus. apply injZ_le. lia. }
    pose proof (mul_le_c c _ _ Hc H).
    assert (G : (1 # 2) * c <= q - (lo + (inject_Z i' + (1 # 2)) * c)) by lra.
    eapply Qle_trans; [exact Hd|]. eapply Qle_trans; [exact G|].
    rewrite <- Qabs_opp. eapply Qle_trans; [|apply Qle_Qabs]. lra.
  - subst i'. lra.
  - assert (inject_Z i + 1 <= inject_Z i').
    { change 1 with (inject_Z 1). rewrite <- inject_Z_plus. apply injZ_le. lia. }
    pose proof (mul_le_c c _ _ Hc H).
    assert (G : (1 # 2) * c <= lo + (inject_Z i' + (1 # 2)) * c - q) by lra.
    eapply Qle_trans; [exact Hd|]. eapply Qle_trans; [exact G|]. apply Qle_Qabs.
Qed.

(* boolean form used by the checker *)
Lemma nearestb_spec q i : nearestb lo c k q i = true <-> is_nearest q i.
Proof.
  unfold nearestb, is_nearest, in_range1, centre1.
  rewrite andb_true_iff, andb_true_iff, Z.leb_le, Z.ltb_lt, forallb_forall.
  split; intros [R N]; split; try exact R.
  - intros i' R'. apply Qle_bool_iff. apply N. apply In_ziota. rewrite Z2Nat.id by lia. lia.
  - intros i' Hin. apply Qle_bool_iff. apply N. apply In_ziota in Hin. rewrite Z2Nat.id in Hin by lia. lia.
Qed.
End Axis.
