(* C07: per-axis lemmas (lattice blocks, floor/ceil cell lookup, padding maps, nearest centre). *)
From DF Require Import Prelude Constants_gen Region Mesh Select QLemmas ListLemmas C01_axis.
Open Scope Q_scope.

Lemma pad_src_interior (md : pmode) (k j : Z) :
  (0 <= j < k)%Z -> pad_src md k j = Some j.
Proof.
  intros H. unfold pad_src, in_range1.
  replace (0 <=? j)%Z with true by (symmetry; apply Z.leb_le; lia).
  replace (j <? k)%Z with true by (symmetry; apply Z.ltb_lt; lia).
  reflexivity.
Qed.
