(* C07: concrete witnesses (non-vacuity of the hypotheses used in Properties_C07). *)
From DF Require Import Prelude Constants_gen Region Mesh Select C01_axis C07_axis.
Open Scope Q_scope.

Lemma ex_block :
  0 < 4 /\ (0 < 4)%Z /\ (0 < 2)%Z /\ 1 == 0 + inject_Z 1 * cell_of 0 4 4 /\
  3 == 0 + inject_Z (1 + 2) * cell_of 0 4 4 /\ (0 <= 1)%Z /\ (1 + 2 <= 4)%Z /\ 1 <= (3 # 2) /\ (3 # 2) < 3 /\
  p2i1 0 (cell_of 0 4 4) 4 (3 # 2) = 1%Z.
Proof. repeat split; try lia; try reflexivity; try (vm_compute; congruence). Qed.

Lemma ex_minimal :
  0 < 4 /\ (0 < 4)%Z /\ 0 <= (5 # 4) /\ (5 # 4) < (5 # 2) /\ (5 # 2) <= 4 /\
  p2i1 0 (cell_of 0 4 4) 4 (5 # 4) = 1%Z /\ upper_idx1 0 (cell_of 0 4 4) (5 # 2) = 2%Z.
Proof. repeat split; try lia; try reflexivity; try (vm_compute; congruence). Qed.

Lemma ex_nearest :
  is_nearest 0 4 4 2 1 /\ is_nearest 0 4 4 2 2 /\ nearest_pick 0 (cell_of 0 4 4) 4 2 = 2%Z.
Proof.
  assert (P : 0 < 4) by reflexivity. assert (K : (0 < 4)%Z) by lia.
  repeat split; try lia; try reflexivity.
  - apply (proj1 (nearestb_spec 0 4 4 K 2 1)). vm_compute. reflexivity.
  - apply (proj1 (nearestb_spec 0 4 4 K 2 2)). vm_compute. reflexivity.
Qed.

Definition ex_mesh : mesh :=
  mkMesh (mkRegion [0; 0] [2; 3] ["x"%string; "y"%string] ["m"%string; "m"%string] (1 # 1000000000000)) [2%Z; 3%Z] "" [].

Lemma ex_sel :
  sel_convert ex_mesh 1 (SRange (5 # 2) (1 # 2)) = OK (IRange 0 2) /\
  sel_convert ex_mesh 0 (SPoint 1) = OK (IPlane 1) /\ sel_convert ex_mesh 0 SCentre = OK (IPlane 1) /\
  is_ok (sel_convert ex_mesh 0 (SPoint (5 # 2))) = false.
Proof. repeat split; vm_compute; reflexivity. Qed.
