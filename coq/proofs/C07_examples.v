(* C07: concrete witnesses (non-vacuity of the hypotheses used in Properties_C07). *)
From DF Require Import Prelude Constants_gen Region Mesh Select C01_axis C07_axis.
Open Scope Q_scope.

Lemma ex_block :
  0 < 4 /\ (0 < 4)%Z /\ (0 < 2)%Z /\ 1 == 0 + inject_Z 1 * cell_of 0 4 4 /\
  3 == 0 + inject_Z (1 + 2) * cell_of 0 4 4 /\ (0 <= 1)%Z /\ (1 + 2 <= 4)%Z /\ 1 <= (3 # 2) /\ (3 # 2) < 3 /\
  p2i1 0 (cell_of 0 4 4) 4 (3 # 2) = 1%Z.
Proof. repeat split; try lia; try reflexivity; try (vm_compute; congruence). Qed.

Lemma ex_minimal :
  0 < 4 /\ (0 < 4)%Z /\ 0 <= (5 # 4) /\ (5 # 4) < (5 # 2) /\ (5 # 2) <= 4 /\
  p2i1 0 (cell_of 0 4 4) 4 (5 # 4) = 1%Z /\ upper_idx1 0 (cell_of 0 4 4) (5 # 2) = 2%Z.
Proof. repeat split; try lia; try reflexivity; try (vm_compute; congruence). Qed.

Lemma ex_nearest :
  is_nearest 0 4 4 2 1 /\ is_nearest 0 4 4 2 2 /\ nearest_pick 0 (cell_of 0 4 4) 4 2 = 2%Z.
Proof.
  assert (P : 0 < 4) by reflexivity. assert (K : (0 < 4)%Z) by lia.
  repeat split; try lia; try reflexivity.
  - apply (proj1 (nearestb_spec 0 4 4 K 2 1)). vm_compute. reflexivity.
  - apply (proj1 (nearestb_spec 0 4 4 K 2 2)). vm_compute. reflexivity.
Qed.

Definition ex_mesh : mesh :=
  mkMesh (mkRegion [0; 0] [2; 3] ["x"%string; "y"%string] ["m"%string; "m"%string] (1 # 1000000000000)) [2%Z; 3%Z] "" [].

Lemma ex_sel :
  sel_convert ex_mesh 1 (SRange (5 # 2) (1 # 2)) = OK (IRange 0 2) /\
  sel_convert ex_mesh 0 (SPoint 1) = OK (IPlane 1) /\ sel_convert ex_mesh 0 SCentre = OK (IPlane 1) /\
  is_ok (sel_convert ex_mesh 0 (SPoint (5 # 2))) = false.
Proof. repeat split; vm_compute; reflexivity. Qed.

(* ---- phase 2 witnesses ---- *)
From DF Require Import C07_pad C07_accept C07_ops.

Lemma ex_wf : wf_mesh ex_mesh /\ subs_wf ex_mesh.
Proof.
  split.
  - unfold wf_mesh, wf_region, ex_mesh; simpl. repeat split; try lia.
    + repeat constructor; simpl; intuition congruence.
    + repeat constructor; unfold Qlt; simpl; lia.
    + unfold Qle; simpl; lia.
    + repeat constructor; lia.
  - intros nr H. destruct H.
Qed.

Lemma ex_range_region :
  exists m', mesh_sel_range ex_mesh 1 0 1 = OK m' /\ qlist_eqb (pmin (reg m')) [0; 0] = true /\
             qlist_eqb (pmax (reg m')) [2; 2] = true /\ n m' = [2%Z; 2%Z].
Proof. eexists. split; [vm_compute; reflexivity|]. vm_compute. repeat split. Qed.

Lemma ex_plane_mesh :
  exists m', mesh_sel_plane ex_mesh 0 1 = OK m' /\ pmin (reg m') = [0] /\ pmax (reg m') = [3] /\
             dims (reg m') = ["y"%string] /\ n m' = [3%Z].
Proof. eexists. split; [vm_compute; reflexivity|]. repeat split. Qed.

Lemma ex_pad_modes :
  pad_src PSymmetric 3 (-5) = Some 1%Z /\ pad_src PSymmetric 3 10 = Some 1%Z /\
  pad_src PReflect 3 (-7) = Some 1%Z /\ pad_src PReflect 3 10 = Some 2%Z /\
  mirror_sym 3 (4 mod (2 * 3)) = 1%Z /\ mirror_ref 3 (7 mod (2 * 3 - 2)) = 1%Z.
Proof. repeat split; vm_compute; reflexivity. Qed.

Lemma ex_pad_accept :
  exists m', mesh_pad ex_mesh [(1, 0); (0, 2)]%Z = OK m' /\ n m' = [3%Z; 5%Z] /\
             qlist_eqb (pmin (reg m')) [-(1); 0] = true /\ qlist_eqb (pmax (reg m')) [2; 5] = true.
Proof. eexists. split; [vm_compute; reflexivity|]. vm_compute. repeat split. Qed.
