(* C07: n-dimensional acceptance of extraction by region and by name (under wf_mesh). *)
From DF Require Import Prelude Constants_gen Region Mesh Select QLemmas ListLemmas C01_axis C01_nd C07_axis C07_nd C07_accept C07_ops.
Open Scope Q_scope.

Section ND.
Variable m : mesh.
Hypothesis Hwf : wf_mesh m.
Let nd := length (pmin (reg m)).
Let r := reg m.

Definition first_idx (item : region) : list Z :=
  map3 (fun lc k x => p2i1 (fst lc) (snd lc) k x) (combine (pmin r) (cell m)) (n m) (pmin item).
Definition last_idx (item : region) : list Z := map3 upper_idx1 (pmin r) (cell m) (pmax item).

Lemma point2index_explicit (p : list Q) : length p = nd ->
  (forall a, (a < nd)%nat -> nth a (pmin r) 0 <= nth a p 0 /\ nth a p 0 <= nth a (pmax r) 0) ->
  point2index m p = OK (map3 (fun lc k x => p2i1 (fst lc) (snd lc) k x) (combine (pmin r) (cell m)) (n m) p).
Proof.
  intros L H. unfold point2index, ndim. fold nd. rewrite L, Nat.eqb_refl. simpl negb. cbv iota.
  rewrite (contains_pt_intro (reg m) p (wf_reg m Hwf)); [|unfold ndim; fold nd; lia | unfold ndim; fold nd; exact H].
  reflexivity.
Qed.

(* extraction by a region inside the mesh region: accepted; on every axis the result runs from the lower
   face of the cell containing the item's lower corner to the upper face of cell ceil(..)-1 *)
Theorem getitem_region_accepts (item : region) :
  length (pmin item) = nd -> Forall2 Qlt (pmin item) (pmax item) ->
  (forall a, (a < nd)%nat -> nth a (pmin r) 0 <= nth a (pmin item) 0 /\ nth a (pmax item) 0 <= nth a (pmax r) 0) ->
  exists m', getitem_region m item = OK m' /\
    dims (reg m') = dims r /\ units (reg m') = units r /\ length (pmin (reg m')) = nd /\
    forall a, (a < nd)%nat ->
      let lo := nth a (pmin r) 0 in let c := nth a (cell m) 0 in
      let i1 := nth a (first_idx item) 0%Z in let i2 := nth a (last_idx item) 0%Z in
      (0 <= i1)%Z /\ (i1 <= i2)%Z /\ (i2 < nth a (n m) 1)%Z /\
      nth a (pmin (reg m')) 0 == lo + inject_Z i1 * c /\
      nth a (pmax (reg m')) 0 == lo + (inject_Z i2 + 1) * c /\
      nth a (n m') 0%Z = (i2 - i1 + 1)%Z /\
      nth a (pmin (reg m')) 0 <= nth a (pmin item) 0 /\ nth a (pmax item) 0 <= nth a (pmax (reg m')) 0.
Proof.
  intros Li Lt Hin. pose proof (Forall2_len _ _ _ Lt) as Li2.
  destruct (wf_lengths m Hwf) as [La [Lb Lc]]. fold nd in La, Lb, Lc.
  pose proof (eq_refl : length (pmin r) = nd) as Lr. fold r in La.
  destruct (wf_dims m Hwf) as [D1 [D2 [D3 _]]]. fold r in D1, D2, D3. fold nd in D1, D2.
  (* per-axis facts *)
  assert (Ax : forall a, (a < nd)%nat ->
            let lo := nth a (pmin r) 0 in let c := nth a (cell m) 0 in
            let i1 := nth a (first_idx item) 0%Z in let i2 := nth a (last_idx item) 0%Z in
            (0 <= i1)%Z /\ (i1 <= i2)%Z /\ (i2 < nth a (n m) 1)%Z /\
            lo + inject_Z i1 * c <= nth a (pmin item) 0 /\ nth a (pmax item) 0 <= lo + (inject_Z i2 + 1) * c).
  { intros a Ha. cbv zeta. unfold first_idx, last_idx.
    rewrite (nth_map3 _ _ _ _ _ 0%Z (0, 0) 1%Z 0) by (rewrite ?combine_length; lia).
    rewrite (nth_combine _ _ a 0 0) by lia. simpl fst. simpl snd.
    rewrite (nth_map3 _ _ _ _ _ 0%Z 0 0 0) by lia.
    destruct (wf_axis m Hwf a Ha) as [Hlh Hn]. fold r in Hlh.
    destruct (Hin a Ha) as [I0 I1].
    pose proof (Forall2_nth_Q Qlt _ _ a Lt ltac:(lia)) as Iq.
    rewrite (cell_nth m Hwf a Ha). fold r.
    destruct (block_minimal _ _ _ Hlh Hn _ _ I0 Iq I1) as [B0 [B1 [B2 [B3 [B4 _]]]]].
    repeat split; assumption. }
  unfold getitem_region. fold r.
  assert (C : contains_region r item = true).
  { unfold contains_region. apply andb_true_iff. split; apply (contains_pt_intro (reg m) _ (wf_reg m Hwf));
      unfold ndim; fold nd; try lia; intros a Ha; destruct (Hin a Ha) as [I0 I1];
      pose proof (Forall2_nth_Q Qlt _ _ a Lt ltac:(lia)) as Iq; fold r; split; lra. }
  rewrite C. simpl negb. cbv iota.
  rewrite (point2index_explicit (pmin item) Li) by (intros a Ha; destruct (Hin a Ha) as [I0 I1];
      pose proof (Forall2_nth_Q Qlt _ _ a Lt ltac:(lia)) as Iq; split; lra).
  fold (first_idx item). unfold bind at 1.
  assert (L1 : length (first_idx item) = nd) by (unfold first_idx; rewrite map3_length, combine_length; lia).
  assert (L2 : length (last_idx item) = nd) by (unfold last_idx; rewrite map3_length; lia).
  destruct (index2point_accepts m Hwf (first_idx item) L1) as [c1 [E1 [Lc1 N1]]].
  { intros a Ha. destruct (Ax a Ha) as [A0 [A1 [A2 _]]]. lia. }
  rewrite E1. unfold bind at 1. fold (last_idx item).
  destruct (index2point_accepts m Hwf (last_idx item) L2) as [c2 [E2 [Lc2 N2]]].
  { intros a Ha. destruct (Ax a Ha) as [A0 [A1 [A2 _]]]. lia. }
  rewrite E2. unfold bind at 1. fold nd in Lc1, Lc2, N1, N2.
  set (ks := map2 (fun i j => (j - i + 1)%Z) (first_idx item) (last_idx item)).
  assert (P1 : forall a, (a < nd)%nat ->
            nth a (map2 half_down c1 (cell m)) 0 == nth a (pmin r) 0 + inject_Z (nth a (first_idx item) 0%Z) * nth a (cell m) 0).
  { intros a Ha. rewrite (nth_map2 _ _ _ _ 0 0 0) by lia. unfold half_down. rewrite (N1 a Ha). fold r. field. }
  assert (P2 : forall a, (a < nd)%nat ->
            nth a (map2 half_up c2 (cell m)) 0 == nth a (pmin r) 0 + (inject_Z (nth a (last_idx item) 0%Z) + 1) * nth a (cell m) 0).
  { intros a Ha. rewrite (nth_map2 _ _ _ _ 0 0 0) by lia. unfold half_up. rewrite (N2 a Ha). fold r. field. }
  destruct (lattice_region_mesh m Hwf (map2 half_down c1 (cell m)) (map2 half_up c2 (cell m)) ks (dims r) (units r))
    as [R1 R2]; try (unfold ks; rewrite ?map2_length; lia); auto.
  { intros a Ha. unfold ks. rewrite (nth_map2 _ _ _ _ 0%Z 0%Z 0%Z) by lia.
    destruct (Ax a Ha) as [A0 [A1 [A2 _]]]. split; [lia|].
    rewrite (P1 a Ha), (P2 a Ha), inject_Z_plus, inject_Z_minus. change (inject_Z 1) with 1. ring. }
  fold r in R1, R2. rewrite R1. unfold bind. rewrite R2.
  eexists. split; [reflexivity|]. simpl.
  split; [reflexivity|]. split; [reflexivity|]. split; [rewrite map2_length; lia|].
  intros a Ha. cbv zeta. destruct (Ax a Ha) as [A0 [A1 [A2 [A3 A4]]]].
  split; [exact A0|]. split; [exact A1|]. split; [exact A2|].
  split; [apply P1; exact Ha|]. split; [apply P2; exact Ha|].
  split; [unfold ks; rewrite (nth_map2 _ _ _ _ 0%Z 0%Z 0%Z) by lia; reflexivity|].
  split; [rewrite (P1 a Ha); exact A3 | rewrite (P2 a Ha); exact A4].
Qed.

(* extraction by name: a subregion made of whole cells is accepted and is the result region *)
Theorem getitem_name_accepts (name : string) (s : region) (ks : list Z) :
  lookup name (subs m) = Some s -> wf_region s -> ndim s = nd -> length ks = nd ->
  (forall a, (a < nd)%nat -> (0 < nth a ks 0)%Z /\
     nth a (pmax s) 0 - nth a (pmin s) 0 == inject_Z (nth a ks 0%Z) * nth a (cell m) 0) ->
  getitem_name m name = OK (mkMesh s ks "" []).
Proof.
  intros Hl Ws Ls Lk H. unfold getitem_name. rewrite Hl.
  destruct (wf_lengths m Hwf) as [_ [_ Lc]]. fold nd in Lc.
  apply mesh_by_cell_accepts; auto; try lia.
  rewrite Ls. intros a Ha. destruct (H a Ha) as [K E]. destruct (cell_axis m Hwf a Ha) as [C _].
  repeat split; assumption.
Qed.

Theorem getitem_name_missing (name : string) : lookup name (subs m) = None -> getitem_name m name = Err KeyE.
Proof. intro H. unfold getitem_name. rewrite H. reflexivity. Qed.
End ND.
