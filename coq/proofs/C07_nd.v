(* C07: n-dimensional statements about the selection model (rejections, what the result arrays
   hold, the plane / range index along the chosen axis). *)
From DF Require Import Prelude Constants_gen Region Mesh Select QLemmas ListLemmas C01_axis C01_nd C07_axis.
Open Scope Q_scope.

Lemma nth_set_nth_same {A} (a : nat) (x d : A) (l : list A) :
  (a < length l)%nat -> nth a (set_nth a x l) d = x.
Proof.
  revert a; induction l as [|h t IH]; intros [|a] H; simpl in *; try lia; auto. apply IH; lia.
Qed.

Lemma set_nth_length {A} (a : nat) (x : A) (l : list A) : length (set_nth a x l) = length l.
Proof. revert a; induction l as [|h t IH]; intros [|a]; simpl; auto. Qed.

(* ---------- requests outside the region are rejected ---------- *)
Lemma sel_idx_outside (m : mesh) (a : nat) (x : Q) :
  x < nth a (pmin (reg m)) 0 \/ nth a (pmax (reg m)) 0 < x -> sel_idx m a x = Err ValueE.
Proof.
  intros H. unfold sel_idx.
  assert (E : Qltb x (nth a (pmin (reg m)) 0) || Qltb (nth a (pmax (reg m)) 0) x = true).
  { apply orb_true_iff. destruct H as [H | H]; [left | right]; apply Qltb_true; exact H. }
  rewrite E. reflexivity.
Qed.

Theorem sel_point_outside {V} (F : field V) (a : nat) (x : Q) :
  let m := fmesh F in
  x < nth a (pmin (reg m)) 0 \/ nth a (pmax (reg m)) 0 < x ->
  is_ok (mesh_sel m a (SPoint x)) = false /\ is_ok (field_sel F a (SPoint x)) = false.
Proof.
  intros m H. unfold mesh_sel, field_sel, sel_convert. fold m.
  destruct (negb (a <? ndim (reg m))%nat); [split; reflexivity|].
  rewrite (sel_idx_outside m a x H). split; reflexivity.
Qed.

Theorem sel_range_outside {V} (F : field V) (a : nat) (x1 x2 : Q) :
  let m := fmesh F in
  Qmin x1 x2 < nth a (pmin (reg m)) 0 \/ nth a (pmax (reg m)) 0 < Qmax x1 x2 ->
  is_ok (mesh_sel m a (SRange x1 x2)) = false /\ is_ok (field_sel F a (SRange x1 x2)) = false.
Proof.
  intros m H. unfold mesh_sel, field_sel, sel_convert. fold m.
  destruct (negb (a <? ndim (reg m))%nat); [split; reflexivity|].
  destruct H as [H | H].
  - rewrite (sel_idx_outside m a _ (or_introl H)). split; reflexivity.
  - destruct (sel_idx m a (Qmin x1 x2)); simpl; [|split; reflexivity].
    rewrite (sel_idx_outside m a _ (or_intror H)). split; reflexivity.
Qed.

Theorem sel_unknown_axis {V} (F : field V) (a : nat) (s : selarg) :
  (ndim (reg (fmesh F)) <= a)%nat ->
  is_ok (mesh_sel (fmesh F) a s) = false /\ is_ok (field_sel F a s) = false.
Proof.
  intros H. unfold mesh_sel, field_sel, sel_convert.
  assert (E : (a <? ndim (reg (fmesh F)))%nat = false) by (apply Nat.ltb_ge; exact H).
  rewrite E. split; reflexivity.
Qed.

Theorem getitem_outside {V} (F : field V) (item : region) :
  contains_region (reg (fmesh F)) item = false ->
  is_ok (getitem_region (fmesh F) item) = false /\ is_ok (field_getitem_region F item) = false.
Proof.
  intros H. unfold field_getitem_region, getitem_region. rewrite H. split; reflexivity.
Qed.

(* a corner farther than the region tolerance outside: not contained *)
Theorem getitem_corner_outside (m : mesh) (item : region) :
  wf_mesh m ->
  (exists a, (a < length (pmin (reg m)))%nat /\
     let x := nth a (pmax item) 0 in
     let t := tau (tf (reg m)) (reg_atol (reg m)) x in
     nth a (pmax (reg m)) 0 + t < x) ->
  is_ok (getitem_region m item) = false.
Proof.
  intros Hwf [a [Ha Hx]]. unfold getitem_region.
  assert (E : contains_region (reg m) item = false).
  { unfold contains_region. apply andb_false_iff. right.
    unfold contains_pt. apply andb_false_iff.
    destruct (length (pmax item) =? ndim (reg m))%nat eqn:L; [right | left; reflexivity].
    apply Nat.eqb_eq in L. unfold ndim in L.
    destruct (wf_lengths m Hwf) as [L1 _].
    destruct (forallb (fun b => b) _) eqn:Fb; [|reflexivity]. exfalso.
    pose proof (proj1 (forallb_id_nth _) Fb a) as Hn.
    rewrite map3_length in Hn. specialize (Hn ltac:(lia)).
    rewrite (nth_map3 _ _ _ _ _ true 0 0 0) in Hn by lia.
    destruct (wf_axis m Hwf a Ha) as [Hlh _].
    rewrite (contains1_reject (tf_nonneg m Hwf) (reg_atol_nonneg m Hwf)) in Hn; [discriminate|].
    right. exact Hx. }
  rewrite E. reflexivity.
Qed.

(* ---------- what the result arrays hold (values AND validity, by construction the same map) ---------- *)
Theorem field_sel_range_values {V} (F : field V) (a : nat) (x1 x2 : Q) (R : field V) :
  field_sel F a (SRange x1 x2) = OK (FField R) ->
  exists ilo ihi, sel_convert (fmesh F) a (SRange x1 x2) = OK (IRange ilo ihi) /\
    mesh_sel_range (fmesh F) a ilo ihi = OK (fmesh R) /\
    forall i, fval R i = fval F (shift_nth a ilo i) /\ fvalid R i = fvalid F (shift_nth a ilo i).
Proof.
  unfold field_sel. destruct (sel_convert (fmesh F) a (SRange x1 x2)) as [si|] eqn:E; simpl; [|discriminate].
  destruct si as [k | ilo ihi].
  - unfold sel_convert in E. destruct (negb _); [discriminate|].
    destruct (sel_idx _ _ (Qmin x1 x2)); simpl in E; [|discriminate].
    destruct (sel_idx _ _ (Qmax x1 x2)); simpl in E; discriminate.
  - destruct (mesh_sel_range (fmesh F) a ilo ihi) as [m'|] eqn:M; simpl; [|discriminate].
    intro H. injection H as <-. exists ilo, ihi. repeat split; auto.
Qed.

Theorem field_sel_plane_values {V} (F : field V) (a : nat) (s : selarg) (R : field V) :
  (forall x1 x2, s <> SRange x1 x2) ->
  field_sel F a s = OK (FField R) ->
  exists k, sel_convert (fmesh F) a s = OK (IPlane k) /\
    mesh_sel_plane (fmesh F) a k = OK (fmesh R) /\
    forall i, fval R i = fval F (insert_nth a k i) /\ fvalid R i = fvalid F (insert_nth a k i).
Proof.
  intros Hs. unfold field_sel. destruct (sel_convert (fmesh F) a s) as [si|] eqn:E; simpl; [|discriminate].
  destruct si as [k | ilo ihi].
  - destruct (ndim (reg (fmesh F)) =? 1)%nat; [discriminate|].
    destruct (mesh_sel_plane (fmesh F) a k) as [m'|] eqn:M; simpl; [|discriminate].
    intro H. injection H as <-. exists k. repeat split; auto.
  - exfalso. unfold sel_convert in E. destruct (negb _); [discriminate|].
    destruct s as [|x|x1 x2].
    + destruct (sel_centre_idx _ _); discriminate.
    + destruct (sel_idx _ _ _); discriminate.
    + apply (Hs x1 x2). reflexivity.
Qed.

(* one-dimensional source: the bare value of the selected cell *)
Theorem field_sel_plane_1d {V} (F : field V) (a : nat) (s : selarg) (v : V) :
  field_sel F a s = OK (FValue v) ->
  exists k, sel_convert (fmesh F) a s = OK (IPlane k) /\ v = fval F [k].
Proof.
  unfold field_sel. destruct (sel_convert (fmesh F) a s) as [si|] eqn:E; simpl; [|discriminate].
  destruct si as [k | ilo ihi].
  - destruct (ndim (reg (fmesh F)) =? 1)%nat.
    + intro H. injection H as <-. exists k. split; reflexivity.
    + destruct (mesh_sel_plane (fmesh F) a k); simpl; discriminate.
  - destruct (mesh_sel_range (fmesh F) a ilo ihi); simpl; discriminate.
Qed.

Theorem field_block_values {V} (F : field V) (sub : mesh) (R : field V) :
  field_block F sub = OK R ->
  fmesh R = sub /\ exists off, block_offset (fmesh F) sub = OK off /\
    forall i, fval R i = fval F (add_idx i off) /\ fvalid R i = fvalid F (add_idx i off).
Proof.
  unfold field_block. destruct (block_offset (fmesh F) sub) as [off|] eqn:E; simpl; [|discriminate].
  intro H. injection H as <-. split; [reflexivity|]. exists off. repeat split; auto.
Qed.

Theorem field_pad_values {V} (zero : V) (F : field V) (pw : list (Z * Z)) (md : pmode) (R : field V) :
  field_pad zero F pw md = OK R ->
  mesh_pad (fmesh F) pw = OK (fmesh R) /\
  forall i, match pad_index md (n (fmesh F)) pw i with
            | Some s => fval R i = fval F s /\ fvalid R i = fvalid F s
            | None => fval R i = zero /\ fvalid R i = false
            end.
Proof.
  unfold field_pad. destruct (existsb _ pw); [discriminate|].
  destruct (mesh_pad (fmesh F) pw) as [m'|] eqn:M; simpl; [|discriminate].
  intro H. injection H as <-. split; [reflexivity|]. intro i. simpl.
  destruct (pad_index md (n (fmesh F)) pw i); split; reflexivity.
Qed.

Theorem field_pad_negative {V} (zero : V) (F : field V) (pw : list (Z * Z)) (md : pmode) :
  (exists w, In w pw /\ (fst w < 0 \/ snd w < 0)%Z) -> field_pad zero F pw md = Err ValueE.
Proof.
  intros [w [Hin Hw]]. unfold field_pad.
  assert (E : existsb (fun w => (fst w <? 0)%Z || (snd w <? 0)%Z) pw = true).
  { apply existsb_exists. exists w. split; [exact Hin|]. apply orb_true_iff.
    destruct Hw as [Hw | Hw]; [left | right]; apply Z.ltb_lt; exact Hw. }
  rewrite E. reflexivity.
Qed.

(* interior cells of a padded field: index j + (pad before) reads source cell j, in every mode *)
Lemma pad_index_interior (md : pmode) (ns : list Z) (pw : list (Z * Z)) (j : list Z) :
  length pw = length ns -> length j = length ns ->
  (forall a, (a < length ns)%nat -> (0 <= nth a j 0 < nth a ns 0)%Z) ->
  pad_index md ns pw (map2 (fun x w => (x + fst w)%Z) j pw) = Some j.
Proof.
  revert pw j. induction ns as [|k ns IH]; intros [|w pw] [|x j] L1 L2 H; simpl in *; try discriminate; auto.
  replace (x + fst w - fst w)%Z with x by lia.
  rewrite (pad_src_interior md k x) by (apply (H 0%nat); lia).
  rewrite IH; auto.
  intros a Ha. apply (H (S a)). lia.
Qed.

(* ---------- resampling keeps the region ---------- *)
Theorem resample_region {V} (F : field V) (n' : list Z) (R : field V) :
  field_resample F n' = OK R ->
  reg (fmesh R) = reg (fmesh F) /\ n (fmesh R) = n' /\
  forall j, fval R j = fval F (resample_src (fmesh F) (fmesh R) j) /\
            fvalid R j = fvalid F (resample_src (fmesh F) (fmesh R) j).
Proof.
  unfold field_resample, resample_mesh, mk_mesh_n.
  destruct (negb (length n' =? ndim (reg (fmesh F)))%nat); [discriminate|].
  destruct (negb (forallb _ n')); [discriminate|]. simpl.
  intro H. injection H as <-. simpl. repeat split; reflexivity.
Qed.

Theorem resample_rejects {V} (F : field V) (n' : list Z) :
  length n' <> ndim (reg (fmesh F)) \/ (exists k, In k n' /\ (k <= 0)%Z) ->
  is_ok (field_resample F n') = false.
Proof.
  intros H. unfold field_resample, resample_mesh, mk_mesh_n.
  destruct (length n' =? ndim (reg (fmesh F)))%nat eqn:L; simpl; [|reflexivity].
  apply Nat.eqb_eq in L. destruct H as [H | [k [Hin Hk]]]; [congruence|].
  destruct (forallb (fun k => (0 <? k)%Z) n') eqn:Fb; simpl; [|reflexivity].
  rewrite forallb_forall in Fb. specialize (Fb k Hin). apply Z.ltb_lt in Fb. lia.
Qed.

(* ---------- the index of a plane / of the ends of a range along the chosen axis ---------- *)
Section ND.
Variable m : mesh.
Hypothesis Hwf : wf_mesh m.
Let nd := length (pmin (reg m)).

Lemma sel_idx_axis (a : nat) (x : Q) (k : Z) : (a < nd)%nat ->
  sel_idx m a x = OK k ->
  let lo := nth a (pmin (reg m)) 0 in let hi := nth a (pmax (reg m)) 0 in
  lo <= x /\ x <= hi /\ k = p2i1 lo (cell_of lo hi (nth a (n m) 1%Z)) (nth a (n m) 1%Z) x.
Proof.
  intros Ha. unfold sel_idx.
  destruct (Qltb x (nth a (pmin (reg m)) 0) || Qltb (nth a (pmax (reg m)) 0) x) eqn:E; [discriminate|].
  apply orb_false_iff in E. destruct E as [E1 E2]. apply Qltb_false in E1. apply Qltb_false in E2.
  destruct (point2index m (set_nth a x (pmin (reg m)))) as [i|] eqn:P; unfold bind; [|discriminate].
  intro H. injection H as <-. cbv zeta. repeat split; try assumption.
  unfold point2index in P.
  destruct (negb (length (set_nth a x (pmin (reg m))) =? ndim (reg m))%nat); [discriminate|].
  destruct (negb (contains_pt (reg m) (set_nth a x (pmin (reg m))))); [discriminate|].
  injection P as <-.
  destruct (wf_lengths m Hwf) as [L1 [L2 L3]]. fold nd in L1, L2, L3.
  rewrite (nth_map3 _ _ _ _ _ 0%Z (0, 0) 1%Z 0).
  - rewrite (nth_combine _ _ a 0 0) by (fold nd; lia). simpl.
    rewrite nth_set_nth_same by (fold nd; lia).
    rewrite (cell_nth m Hwf a Ha). reflexivity.
  - rewrite combine_length. fold nd. lia.
  - lia.
  - rewrite set_nth_length. fold nd. lia.
Qed.

(* the selected plane is the cell that contains the coordinate; the default is the cell that
   contains the region centre *)
Theorem plane_index (a : nat) (x : Q) (k : Z) : (a < nd)%nat ->
  sel_convert m a (SPoint x) = OK (IPlane k) ->
  let lo := nth a (pmin (reg m)) 0 in let c := nth a (cell m) 0 in
  (0 <= k < nth a (n m) 1)%Z /\ lo + inject_Z k * c <= x /\ x <= lo + (inject_Z k + 1) * c /\
  (x < nth a (pmax (reg m)) 0 -> x < lo + (inject_Z k + 1) * c).
Proof.
  intros Ha. unfold sel_convert.
  destruct (negb (a <? ndim (reg m))%nat); [discriminate|].
  destruct (sel_idx m a x) as [k'|] eqn:E; unfold bind; [|discriminate].
  intro H. injection H as <-. cbv zeta.
  destruct (sel_idx_axis a x k' Ha E) as [H0 [H1 Hk]].
  destruct (wf_axis m Hwf a Ha) as [Hlh Hn].
  rewrite (cell_nth m Hwf a Ha). rewrite Hk.
  apply (cell_of_coord _ _ _ Hlh Hn x H0 H1).
Qed.

(* a range keeps exactly the cells idx(min) .. idx(max): first / last kept index, each containing
   its end of the requested range, ordered and in range *)
Theorem range_indices (a : nat) (x1 x2 : Q) (i1 i2 : Z) : (a < nd)%nat ->
  sel_convert m a (SRange x1 x2) = OK (IRange i1 i2) ->
  let lo := nth a (pmin (reg m)) 0 in let c := nth a (cell m) 0 in
  (0 <= i1)%Z /\ (i1 <= i2)%Z /\ (i2 < nth a (n m) 1)%Z /\
  lo + inject_Z i1 * c <= Qmin x1 x2 /\ Qmin x1 x2 <= lo + (inject_Z i1 + 1) * c /\
  lo + inject_Z i2 * c <= Qmax x1 x2 /\ Qmax x1 x2 <= lo + (inject_Z i2 + 1) * c.
Proof.
  intros Ha. unfold sel_convert.
  destruct (negb (a <? ndim (reg m))%nat); [discriminate|].
  destruct (sel_idx m a (Qmin x1 x2)) as [k1|] eqn:E1; unfold bind; [|discriminate].
  destruct (sel_idx m a (Qmax x1 x2)) as [k2|] eqn:E2; unfold bind; [|discriminate].
  intro H. injection H as <- <-. cbv zeta.
  destruct (sel_idx_axis a _ k1 Ha E1) as [A0 [A1 Ak]].
  destruct (sel_idx_axis a _ k2 Ha E2) as [B0 [B1 Bk]].
  destruct (wf_axis m Hwf a Ha) as [Hlh Hn].
  assert (Hmm : Qmin x1 x2 <= Qmax x1 x2).
  { eapply Qle_trans; [apply Q.le_min_l | apply Q.le_max_l]. }
  rewrite (cell_nth m Hwf a Ha).
  destruct (cell_of_coord _ _ _ Hlh Hn _ A0 A1) as [[P0 P1] [P2 [P3 _]]].
  destruct (cell_of_coord _ _ _ Hlh Hn _ B0 B1) as [[Q0 Q1] [Q2 [Q3 _]]].
  rewrite <- Ak in P0, P1, P2, P3. rewrite <- Bk in Q0, Q1, Q2, Q3.
  repeat split; try assumption.
  rewrite Ak, Bk. apply (p2i1_mono _ _ _ Hlh Hn); assumption.
Qed.
End ND.
