(* C07: n-dimensional acceptance and result geometry of the operations (under wf_mesh). *)
From DF Require Import Prelude Constants_gen Region Mesh Select QLemmas ListLemmas C01_axis C01_nd C07_axis C07_nd C07_accept.
Open Scope Q_scope.

(* ---------- resampling ---------- *)
Theorem resample_accepts {V} (F : field V) (n' : list Z) :
  length n' = ndim (reg (fmesh F)) -> Forall (fun k => (0 < k)%Z) n' ->
  exists R, field_resample F n' = OK R /\
    pmin (reg (fmesh R)) = pmin (reg (fmesh F)) /\ pmax (reg (fmesh R)) = pmax (reg (fmesh F)) /\
    dims (reg (fmesh R)) = dims (reg (fmesh F)) /\ units (reg (fmesh R)) = units (reg (fmesh F)) /\
    n (fmesh R) = n'.
Proof.
  intros L P. unfold field_resample, resample_mesh, mk_mesh_n.
  rewrite L, Nat.eqb_refl. simpl negb. cbv iota.
  assert (E : forallb (fun k => (0 <? k)%Z) n' = true).
  { apply forallb_forall. intros x Hx. apply Z.ltb_lt. rewrite Forall_forall in P. apply P. exact Hx. }
  rewrite E. simpl. eexists. split; [reflexivity|]. simpl. repeat split; reflexivity.
Qed.

Section ND.
Variable m : mesh.
Hypothesis Hwf : wf_mesh m.
Let nd := length (pmin (reg m)).
Let r := reg m.

Lemma wf_reg : wf_region (reg m).
Proof. destruct Hwf as [W _]. exact W. Qed.

Lemma wf_dims : length (dims r) = nd /\ length (units r) = nd /\ NoDup (dims r) /\ (0 < nd)%nat.
Proof. destruct wf_reg as [_ [H0 [H1 [H2 [H3 _]]]]]. unfold r, nd. auto. Qed.

Lemma cell_axis a : (a < nd)%nat ->
  0 < nth a (cell m) 0 /\
  inject_Z (nth a (n m) 1%Z) * nth a (cell m) 0 == nth a (pmax r) 0 - nth a (pmin r) 0.
Proof.
  intro Ha. destruct (wf_axis m Hwf a Ha) as [Hlh Hn]. rewrite (cell_nth m Hwf a Ha). split.
  - apply cell_pos; assumption.
  - apply cell_times_n. exact Hn.
Qed.

Lemma nth_n_default a : (a < nd)%nat -> nth a (n m) 0%Z = nth a (n m) 1%Z.
Proof. intro Ha. destruct (wf_lengths m Hwf) as [_ [L _]]. apply nth_indep. fold nd in L. lia. Qed.

(* a region made of whole cells of m (counts ks) is a well-formed mesh region with the same cell *)
Lemma lattice_region_mesh (lo' hi' : list Q) (ks : list Z) (ds us : list string) :
  length lo' = nd -> length hi' = nd -> length ks = nd -> length ds = nd -> length us = nd -> NoDup ds ->
  (forall a, (a < nd)%nat -> (0 < nth a ks 0)%Z /\
     nth a hi' 0 - nth a lo' 0 == inject_Z (nth a ks 0%Z) * nth a (cell m) 0) ->
  mk_region lo' hi' (Some ds) (Some us) (tf r) = OK (mkRegion lo' hi' ds us (tf r)) /\
  mesh_by_cell (mkRegion lo' hi' ds us (tf r)) (cell m) = OK (mkMesh (mkRegion lo' hi' ds us (tf r)) ks "" []).
Proof.
  intros L1 L2 L3 L4 L5 Nd H. destruct wf_dims as [_ [_ [_ N0]]].
  assert (Lt : Forall2 Qlt lo' hi').
  { apply Forall2_of_nth; [lia|]. intros a Ha. rewrite L1 in Ha. destruct (H a Ha) as [K E].
    destruct (cell_axis a Ha) as [C _].
    assert (0 < inject_Z (nth a ks 0%Z) * nth a (cell m) 0).
    { apply Qmult_lt_0_compat; [apply inject_Z_pos; exact K | exact C]. }
    lra. }
  split; [apply mk_region_accepts; auto; lia|].
  apply mesh_by_cell_accepts.
  - unfold wf_region; simpl. repeat split; auto; try lia. apply (tf_nonneg m Hwf).
  - unfold ndim; simpl. destruct (wf_lengths m Hwf) as [_ [_ L]]. fold nd in L. lia.
  - unfold ndim; simpl. lia.
  - unfold ndim; simpl. rewrite L1. intros a Ha. destruct (H a Ha) as [K E].
    destruct (cell_axis a Ha) as [C _]. repeat split; assumption.
Qed.

(* ---------- padding ---------- *)
Theorem mesh_pad_accepts (pw : list (Z * Z)) :
  length pw = nd ->
  (forall a, (a < nd)%nat -> (0 <= fst (nth a pw (0, 0)))%Z /\ (0 <= snd (nth a pw (0, 0)))%Z) ->
  mesh_pad m pw =
    OK (mkMesh (mkRegion (map3 pad_lo (pmin r) (cell m) pw) (map3 pad_hi (pmax r) (cell m) pw)
                         (dims r) (units r) (tf r))
               (map2 (fun k w => (k + fst w + snd w)%Z) (n m) pw) (bc m) []).
Proof.
  intros Lp Hp. destruct (wf_lengths m Hwf) as [La [Lb Lc]]. fold nd in La, Lb, Lc.
  destruct wf_dims as [D1 [D2 [D3 _]]].
  unfold mesh_pad, ndim. fold nd. rewrite Lp, Nat.eqb_refl. simpl negb. cbv iota. fold r.
  destruct (lattice_region_mesh (map3 pad_lo (pmin r) (cell m) pw) (map3 pad_hi (pmax r) (cell m) pw)
              (map2 (fun k w => (k + fst w + snd w)%Z) (n m) pw) (dims r) (units r)) as [E1 E2];
    try (rewrite ?map3_length, ?map2_length; unfold r; lia); auto.
  - intros a Ha.
    rewrite (nth_map2 _ _ _ _ 0%Z 1%Z (0, 0)%Z) by lia.
    rewrite (nth_map3 _ _ _ _ _ 0 0 0 (0, 0)%Z) by (unfold r; lia).
    rewrite (nth_map3 _ _ _ _ _ 0 0 0 (0, 0)%Z) by (unfold r; lia).
    destruct (Hp a Ha) as [W0 W1]. destruct (wf_axis m Hwf a Ha) as [_ Hn].
    destruct (cell_axis a Ha) as [C E]. split; [lia|].
    unfold pad_lo, pad_hi. rewrite !inject_Z_plus. lra.
  - rewrite E1. unfold bind. rewrite E2. reflexivity.
Qed.

Theorem field_pad_accepts {V} (zero : V) (F : field V) (pw : list (Z * Z)) (md : pmode) :
  fmesh F = m -> length pw = nd ->
  (forall a, (a < nd)%nat -> (0 <= fst (nth a pw (0, 0)))%Z /\ (0 <= snd (nth a pw (0, 0)))%Z) ->
  exists R, field_pad zero F pw md = OK R /\ mesh_pad m pw = OK (fmesh R).
Proof.
  intros Fm Lp Hp. unfold field_pad. rewrite Fm.
  assert (E : existsb (fun w => (fst w <? 0)%Z || (snd w <? 0)%Z) pw = false).
  { apply (existsb_false_nth _ _ (0, 0)%Z). intros a Ha. destruct (Hp a ltac:(lia)) as [A B].
    apply orb_false_iff. split; apply Z.ltb_ge; assumption. }
  rewrite E, (mesh_pad_accepts pw Lp Hp). unfold bind. eexists. split; reflexivity.
Qed.

(* ---------- coordinates inside the region are accepted ---------- *)
Lemma point2index_accepts (p : list Q) : length p = nd ->
  (forall a, (a < nd)%nat -> nth a (pmin r) 0 <= nth a p 0 /\ nth a p 0 <= nth a (pmax r) 0) ->
  exists i, point2index m p = OK i.
Proof.
  intros L H. unfold point2index, ndim. fold nd. rewrite L, Nat.eqb_refl. simpl negb. cbv iota.
  rewrite (contains_pt_intro (reg m) p wf_reg); [|unfold ndim; fold nd; lia | unfold ndim; fold nd; exact H].
  simpl. eexists. reflexivity.
Qed.

Lemma sel_idx_accepts a x : (a < nd)%nat ->
  nth a (pmin r) 0 <= x -> x <= nth a (pmax r) 0 -> exists k, sel_idx m a x = OK k.
Proof.
  intros Ha H0 H1. unfold sel_idx. fold r.
  pose proof (eq_refl : length (pmin r) = nd) as Lr.
  assert (E : Qltb x (nth a (pmin r) 0) || Qltb (nth a (pmax r) 0) x = false).
  { apply orb_false_iff. split; apply Qltb_false; assumption. }
  rewrite E.
  destruct (point2index_accepts (set_nth a x (pmin r))) as [i Ei].
  - rewrite set_nth_length. reflexivity.
  - intros b Hb. destruct (Nat.eq_dec a b) as [<- | Ne].
    + rewrite nth_set_nth_same by lia. split; assumption.
    + rewrite nth_set_nth_other by exact Ne. destruct (wf_axis m Hwf b Hb) as [Hlh _]. fold r in Hlh. lra.
  - fold r. rewrite Ei. simpl. eexists. reflexivity.
Qed.

Theorem sel_point_accepts a x : (a < nd)%nat ->
  nth a (pmin r) 0 <= x -> x <= nth a (pmax r) 0 -> exists k, sel_convert m a (SPoint x) = OK (IPlane k).
Proof.
  intros Ha H0 H1. unfold sel_convert, ndim. fold nd.
  replace (a <? nd)%nat with true by (symmetry; apply Nat.ltb_lt; exact Ha). simpl negb. cbv iota.
  destruct (sel_idx_accepts a x Ha H0 H1) as [k E]. rewrite E. simpl. exists k. reflexivity.
Qed.

Theorem sel_range_accepts a x1 x2 : (a < nd)%nat ->
  nth a (pmin r) 0 <= x1 -> x1 <= nth a (pmax r) 0 -> nth a (pmin r) 0 <= x2 -> x2 <= nth a (pmax r) 0 ->
  exists i1 i2, sel_convert m a (SRange x1 x2) = OK (IRange i1 i2).
Proof.
  intros Ha A0 A1 B0 B1. unfold sel_convert, ndim. fold nd.
  replace (a <? nd)%nat with true by (symmetry; apply Nat.ltb_lt; exact Ha). simpl negb. cbv iota.
  destruct (sel_idx_accepts a (Qmin x1 x2) Ha) as [i1 E1].
  { apply Q.min_glb; assumption. } { eapply Qle_trans; [apply Q.le_min_l | exact A1]. }
  destruct (sel_idx_accepts a (Qmax x1 x2) Ha) as [i2 E2].
  { eapply Qle_trans; [exact A0 | apply Q.le_max_l]. } { apply Q.max_lub; assumption. }
  rewrite E1. simpl. rewrite E2. simpl. exists i1, i2. reflexivity.
Qed.

Theorem sel_centre_accepts a : (a < nd)%nat -> exists k, sel_convert m a SCentre = OK (IPlane k).
Proof.
  intros Ha. unfold sel_convert, ndim. fold nd.
  replace (a <? nd)%nat with true by (symmetry; apply Nat.ltb_lt; exact Ha). simpl negb. cbv iota.
  unfold sel_centre_idx. destruct (wf_lengths m Hwf) as [La _]. fold nd in La.
  destruct (point2index_accepts (center (reg m))) as [i Ei].
  - unfold center. rewrite map2_length. fold nd. lia.
  - intros b Hb. unfold center. rewrite (nth_map2 _ _ _ _ 0 0 0) by (fold nd; lia).
    destruct (wf_axis m Hwf b Hb) as [Hlh _]. fold r in Hlh. fold r. split; lra.
  - rewrite Ei. simpl. eexists. reflexivity.
Qed.

(* ---------- subregions of a well-formed mesh ---------- *)
Definition sub_wf (s : region) : Prop := length (pmin s) = nd /\ Forall2 Qlt (pmin s) (pmax s).
Definition subs_wf : Prop := forall nr, In nr (subs m) -> sub_wf (snd nr).

(* ---------- range selection: accepted, region = union of the kept cells ---------- *)
Theorem mesh_sel_range_region a i1 i2 : subs_wf -> (a < nd)%nat ->
  (0 <= i1)%Z -> (i1 <= i2)%Z -> (i2 < nth a (n m) 1)%Z ->
  let lo := nth a (pmin r) 0 in let c := nth a (cell m) 0 in
  exists m' lo' hi', mesh_sel_range m a i1 i2 = OK m' /\
    reg m' = mkRegion (set_nth a lo' (pmin r)) (set_nth a hi' (pmax r)) (dims r) (units r) (tf r) /\
    lo' == lo + inject_Z i1 * c /\ hi' == lo + (inject_Z i2 + 1) * c /\
    n m' = set_nth a (i2 - i1 + 1)%Z (n m) /\
    (forall b, (b < nd)%nat -> nth b (cell m') 0 == nth b (cell m) 0).
Proof.
  intros Hs Ha I0 I1 I2 lo c.
  destruct (wf_lengths m Hwf) as [La [Lb Lc]]. fold nd in La, Lb, Lc.
  destruct wf_dims as [D1 [D2 [D3 _]]]. destruct (wf_axis m Hwf a Ha) as [Hlh Hn]. fold r in Hlh.
  destruct (cell_axis a Ha) as [Cpos Cn]. fold c in Cpos, Cn.
  set (st := c / 2). assert (St : 0 < st) by (unfold st; apply Qdiv_pos; lra).
  assert (St2 : st + st == c) by (unfold st; field).
  set (lo' := centre_ax m a i1 - st). set (hi' := centre_ax m a i2 + st).
  assert (E1 : lo' == lo + inject_Z i1 * c).
  { unfold lo', centre_ax, i2p1, half_cell. fold r lo c. lra. }
  assert (E2 : hi' == lo + (inject_Z i2 + 1) * c).
  { unfold hi', centre_ax, i2p1, half_cell. fold r lo c. lra. }
  assert (I12 : inject_Z i1 <= inject_Z i2) by (apply injZ_le; exact I1).
  pose proof (mul_le_c c _ _ Cpos I12) as M12.
  set (ks := set_nth a (i2 - i1 + 1)%Z (n m)).
  destruct (lattice_region_mesh (set_nth a lo' (pmin r)) (set_nth a hi' (pmax r)) ks (dims r) (units r)) as [R1 R2];
    try (unfold ks; rewrite ?set_nth_length; unfold r; lia); auto.
  { intros b Hb. unfold ks. destruct (Nat.eq_dec a b) as [<- | Ne].
    - rewrite !nth_set_nth_same by (unfold r; lia). split; [lia|].
      fold c. rewrite E1, E2, inject_Z_plus, inject_Z_minus. change (inject_Z 1) with 1. lra.
    - rewrite !nth_set_nth_other by exact Ne. destruct (wf_axis m Hwf b Hb) as [_ Hnb].
      rewrite (nth_n_default b Hb). split; [exact Hnb|]. destruct (cell_axis b Hb) as [_ Cb]. lra. }
  unfold mesh_sel_range. fold r c st lo' hi'.
  (* subregions: every kept one is clipped to a proper region *)
  match goal with |- context [mapres ?f ?l] => destruct (mapres_ok f l) as [subs' Es] end.
  { intros nr Hin. apply filter_In in Hin. destruct Hin as [Hin Hk].
    destruct (Hs nr Hin) as [Ls Lt]. pose proof (Forall2_len _ _ _ Lt) as Ls2.
    rewrite mk_region_accepts_default.
    - simpl. eexists. reflexivity.
    - apply Forall2_of_nth; [rewrite !set_nth_length; exact Ls2|]. rewrite set_nth_length. intros b Hb.
      destruct (Nat.eq_dec a b) as [<- | Ne].
      + rewrite !nth_set_nth_same by lia.
        pose proof (Forall2_nth_Q Qlt _ _ a Lt Hb) as Sab.
        unfold range_keeps in Hk. apply negb_true_iff, orb_false_iff in Hk. destruct Hk as [K1 K2].
        apply Qleb_false in K1. apply Qleb_false in K2.
        apply Q.min_glb_lt; apply Q.max_lub_lt; lra.
      + rewrite !nth_set_nth_other by exact Ne. apply (Forall2_nth_Q Qlt _ _ b Lt Hb).
    - rewrite set_nth_length, Ls. destruct wf_dims as [_ [_ [_ N0]]]. exact N0. }
  rewrite Es. unfold bind at 1. rewrite R1. unfold bind at 1. rewrite R2. unfold bind.
  eexists _, lo', hi'. split; [reflexivity|]. unfold with_subs; simpl.
  repeat split; try assumption; try reflexivity.
  intros b Hb. unfold cell; simpl.
  rewrite (nth_map3 _ _ _ _ _ 0 0 0 0%Z) by (unfold ks; rewrite ?set_nth_length; unfold r; lia).
  fold (cell m). unfold ks. destruct (Nat.eq_dec a b) as [<- | Ne].
  - rewrite !nth_set_nth_same by (unfold r; lia). fold c. unfold cell_of.
    rewrite E1, E2, inject_Z_plus, inject_Z_minus. change (inject_Z 1) with 1.
    assert (0 < inject_Z i2 - inject_Z i1 + 1) by lra. field. lra.
  - rewrite !nth_set_nth_other by exact Ne. rewrite (cell_nth m Hwf b Hb), (nth_n_default b Hb). reflexivity.
Qed.
(* ---------- plane selection: accepted (nd >= 2), mesh = source mesh without that axis ---------- *)
Lemma skip_lt a b : (a < nd)%nat -> (b < nd - 1)%nat -> (skip a b < nd)%nat.
Proof. intros Ha Hb. unfold skip. destruct (b <? a)%nat eqn:E; [apply Nat.ltb_lt in E|]; lia. Qed.

Theorem mesh_sel_plane_mesh a k : subs_wf -> (a < nd)%nat -> (2 <= nd)%nat ->
  exists m', mesh_sel_plane m a k = OK m' /\
    reg m' = mkRegion (remove_nth a (pmin r)) (remove_nth a (pmax r))
                      (remove_nth a (dims r)) (remove_nth a (units r)) (tf r) /\
    n m' = remove_nth a (n m) /\
    (forall b, (b < nd - 1)%nat -> nth b (cell m') 0 == nth (skip a b) (cell m) 0).
Proof.
  intros Hs Ha H2.
  destruct (wf_lengths m Hwf) as [La [Lb Lc]]. fold nd in La, Lb, Lc.
  destruct wf_dims as [D1 [D2 [D3 _]]].
  pose proof (eq_refl : length (pmin r) = nd) as Lr. fold r in La.
  assert (Lt : Forall2 Qlt (remove_nth a (pmin r)) (remove_nth a (pmax r))).
  { apply Forall2_of_nth; [rewrite !remove_nth_length by lia; lia|].
    rewrite remove_nth_length by lia. intros b Hb. rewrite !nth_remove_nth.
    apply (wf_axis m Hwf (skip a b)). apply skip_lt; lia. }
  set (r' := mkRegion (remove_nth a (pmin r)) (remove_nth a (pmax r)) (remove_nth a (dims r))
                      (remove_nth a (units r)) (tf r)).
  assert (R1 : mk_region (remove_nth a (pmin r)) (remove_nth a (pmax r)) (Some (remove_nth a (dims r)))
                 (Some (remove_nth a (units r))) (tf r) = OK r').
  { apply mk_region_accepts; auto; rewrite ?remove_nth_length by lia; try lia. apply NoDup_remove_nth. exact D3. }
  assert (R2 : mesh_by_cell r' (remove_nth a (cell m)) = OK (mkMesh r' (remove_nth a (n m)) "" [])).
  { apply mesh_by_cell_accepts.
    - unfold wf_region; simpl. rewrite !remove_nth_length by lia.
      repeat split; auto; try lia; [apply NoDup_remove_nth; exact D3 | apply (tf_nonneg m Hwf)].
    - unfold ndim; simpl. rewrite !remove_nth_length by lia. lia.
    - unfold ndim; simpl. rewrite !remove_nth_length by lia. lia.
    - unfold ndim; simpl. rewrite remove_nth_length by lia. intros b Hb. rewrite !nth_remove_nth.
      assert (Sk : (skip a b < nd)%nat) by (apply skip_lt; lia).
      destruct (cell_axis _ Sk) as [C E]. destruct (wf_axis m Hwf _ Sk) as [_ Hn].
      rewrite (nth_n_default _ Sk). repeat split; try assumption. lra. }
  unfold mesh_sel_plane. fold r.
  match goal with |- context [mapres ?f ?l] => destruct (mapres_ok f l) as [subs' Es] end.
  { intros nr Hin. apply filter_In in Hin. destruct Hin as [Hin _].
    destruct (Hs nr Hin) as [Ls Lts]. pose proof (Forall2_len _ _ _ Lts) as Ls2.
    rewrite mk_region_accepts_default.
    - simpl. eexists. reflexivity.
    - apply Forall2_of_nth; [rewrite !remove_nth_length by lia; lia|].
      rewrite remove_nth_length by lia. intros b Hb. rewrite !nth_remove_nth.
      apply (Forall2_nth_Q Qlt _ _ _ Lts). rewrite Ls. apply skip_lt; lia.
    - rewrite remove_nth_length by lia. lia. }
  rewrite Es. unfold bind at 1. rewrite R1. unfold bind at 1. rewrite R2. unfold bind.
  eexists. split; [reflexivity|]. unfold with_subs; simpl. repeat split.
  intros b Hb. unfold cell; simpl.
  rewrite (nth_map3 _ _ _ _ _ 0 0 0 0%Z) by (rewrite !remove_nth_length by lia; lia).
  rewrite !nth_remove_nth. fold (cell m).
  assert (Sk : (skip a b < nd)%nat) by (apply skip_lt; lia).
  rewrite (cell_nth m Hwf _ Sk), (nth_n_default _ Sk). reflexivity.
Qed.

(* ---------- the field-level selections are accepted with those meshes ---------- *)
Theorem field_sel_range_accepts {V} (F : field V) a x1 x2 : fmesh F = m -> subs_wf -> (a < nd)%nat ->
  nth a (pmin r) 0 <= x1 -> x1 <= nth a (pmax r) 0 -> nth a (pmin r) 0 <= x2 -> x2 <= nth a (pmax r) 0 ->
  exists R, field_sel F a (SRange x1 x2) = OK (FField R) /\ mesh_sel m a (SRange x1 x2) = OK (fmesh R).
Proof.
  intros Fm Hs Ha A0 A1 B0 B1.
  destruct (sel_range_accepts a x1 x2 Ha A0 A1 B0 B1) as [i1 [i2 E]].
  destruct (range_indices m Hwf a x1 x2 i1 i2 Ha E) as [I0 [I1 [I2 _]]].
  destruct (mesh_sel_range_region a i1 i2 Hs Ha I0 I1 I2) as [m' [lo' [hi' [Em _]]]].
  unfold field_sel, mesh_sel. rewrite Fm, E. unfold bind. rewrite Em.
  eexists. split; reflexivity.
Qed.

Theorem field_sel_plane_accepts {V} (F : field V) a x : fmesh F = m -> subs_wf -> (a < nd)%nat -> (2 <= nd)%nat ->
  nth a (pmin r) 0 <= x -> x <= nth a (pmax r) 0 ->
  exists R, field_sel F a (SPoint x) = OK (FField R) /\ mesh_sel m a (SPoint x) = OK (fmesh R).
Proof.
  intros Fm Hs Ha H2 A0 A1.
  destruct (sel_point_accepts a x Ha A0 A1) as [k E].
  destruct (mesh_sel_plane_mesh a k Hs Ha H2) as [m' [Em _]].
  unfold field_sel, mesh_sel. rewrite Fm, E. unfold bind. unfold ndim. fold nd.
  replace (nd =? 1)%nat with false by (symmetry; apply Nat.eqb_neq; lia). rewrite Em.
  eexists. split; reflexivity.
Qed.
End ND.
