(* C07: closed forms of numpy.pad's symmetric and reflect modes as functions of the distance
   beyond the edge, for every pad width (also widths larger than the array length). *)
From DF Require Import Prelude Constants_gen Region Mesh Select C07_axis.

Local Open Scope Z_scope.

(* position inside one period of the mirrored sequence 0 1 .. k-1 k-1 .. 1 0  (period 2k) *)
Definition mirror_sym (k r : Z) : Z := if r <? k then r else 2 * k - 1 - r.
(* position inside one period of 0 1 .. k-1 k-2 .. 1  (period 2k-2) *)
Definition mirror_ref (k r : Z) : Z := if r <? k then r else 2 * k - 2 - r.

Lemma mod_neg_pred (P j : Z) : 0 < P -> (- j - 1) mod P = P - 1 - j mod P.
Proof.
  intro HP. pose proof (Z.mod_pos_bound j P HP) as B. pose proof (Z.div_mod j P ltac:(lia)) as D.
  symmetry. apply (Z.mod_unique (- j - 1) P (- (j / P) - 1)); [left; lia | nia].
Qed.

Lemma mod_shift_down (P j s : Z) : 0 < P -> 0 <= s <= P ->
  (j - s) mod P = if s <=? j mod P then j mod P - s else j mod P - s + P.
Proof.
  intros HP Hs. pose proof (Z.mod_pos_bound j P HP) as B. pose proof (Z.div_mod j P ltac:(lia)) as D.
  destruct (s <=? j mod P) eqn:E; [apply Z.leb_le in E | apply Z.leb_gt in E]; symmetry.
  - destruct (Z.eq_dec (j mod P - s) P) as [X | X]; [lia|].
    apply (Z.mod_unique (j - s) P (j / P)); [left; lia | nia].
  - apply (Z.mod_unique (j - s) P (j / P - 1)); [left; lia | nia].
Qed.

Lemma mod_neg (P j : Z) : 0 < P -> (- j) mod P = if j mod P =? 0 then 0 else P - j mod P.
Proof.
  intro HP. pose proof (Z.mod_pos_bound j P HP) as B. pose proof (Z.div_mod j P ltac:(lia)) as D.
  destruct (j mod P =? 0) eqn:E; [apply Z.eqb_eq in E | apply Z.eqb_neq in E]; symmetry.
  - apply (Z.mod_unique (- j) P (- (j / P))); [left; lia | nia].
  - apply (Z.mod_unique (- j) P (- (j / P) - 1)); [left; lia | nia].
Qed.

Lemma out_of_range (k j : Z) : j < 0 \/ k <= j -> in_range1 k j = false.
Proof.
  intro H. unfold in_range1. apply andb_false_iff.
  destruct H; [left; apply Z.leb_gt | right; apply Z.ltb_ge]; lia.
Qed.

(* symmetric, below the array: the d-th added cell (d = 0 next to the edge) mirrors about the edge,
   edge cell included, with period 2k *)
Lemma pad_src_symmetric_below (k d : Z) : 0 < k -> 0 <= d ->
  pad_src PSymmetric k (- d - 1) = Some (mirror_sym k (d mod (2 * k))).
Proof.
  intros Hk Hd. unfold pad_src. rewrite out_of_range by lia. f_equal.
  replace (- d - 1) with (- d - 1) by lia.
  rewrite (mod_neg_pred (2 * k) d) by lia.
  pose proof (Z.mod_pos_bound d (2 * k) ltac:(lia)) as B. unfold mirror_sym.
  destruct (2 * k - 1 - d mod (2 * k) <? k) eqn:A; destruct (d mod (2 * k) <? k) eqn:C;
    try apply Z.ltb_lt in A; try apply Z.ltb_ge in A; try apply Z.ltb_lt in C; try apply Z.ltb_ge in C; lia.
Qed.

(* symmetric, above the array: the d-th added cell counted from the upper edge *)
Lemma pad_src_symmetric_above (k d : Z) : 0 < k -> 0 <= d ->
  pad_src PSymmetric k (k + d) = Some (k - 1 - mirror_sym k (d mod (2 * k))).
Proof.
  intros Hk Hd. unfold pad_src. rewrite out_of_range by lia. f_equal.
  assert (E0 : d mod (2 * k) = (k + d - k) mod (2 * k)) by (f_equal; lia). rewrite E0.
  rewrite (mod_shift_down (2 * k) (k + d) k) by lia.
  pose proof (Z.mod_pos_bound (k + d) (2 * k) ltac:(lia)) as B. unfold mirror_sym.
  set (r := (k + d) mod (2 * k)) in *.
  destruct (k <=? r) eqn:E; [apply Z.leb_le in E | apply Z.leb_gt in E].
  - destruct (r <? k) eqn:A; [apply Z.ltb_lt in A; lia|].
    destruct (r - k <? k) eqn:C; [|apply Z.ltb_ge in C; lia]. lia.
  - destruct (r <? k) eqn:A; [|apply Z.ltb_ge in A; lia].
    destruct (r - k + 2 * k <? k) eqn:C; [apply Z.ltb_lt in C; lia|]. lia.
Qed.

(* reflect, below: distance d >= 1 from the edge cell, edge cell not repeated, period 2k-2 *)
Lemma pad_src_reflect_below (k d : Z) : 1 < k -> 1 <= d ->
  pad_src PReflect k (- d) = Some (mirror_ref k (d mod (2 * k - 2))).
Proof.
  intros Hk Hd. unfold pad_src. rewrite out_of_range by lia.
  replace (k =? 1) with false by (symmetry; apply Z.eqb_neq; lia). f_equal.
  rewrite (mod_neg (2 * k - 2) d) by lia.
  pose proof (Z.mod_pos_bound d (2 * k - 2) ltac:(lia)) as B. unfold mirror_ref.
  set (r := d mod (2 * k - 2)) in *.
  destruct (r =? 0) eqn:Z0; [apply Z.eqb_eq in Z0 | apply Z.eqb_neq in Z0].
  - rewrite Z0. replace (0 <? k) with true by (symmetry; apply Z.ltb_lt; lia). reflexivity.
  - destruct (2 * k - 2 - r <? k) eqn:A; destruct (r <? k) eqn:C;
      try apply Z.ltb_lt in A; try apply Z.ltb_ge in A; try apply Z.ltb_lt in C; try apply Z.ltb_ge in C; lia.
Qed.

(* reflect, above: distance d >= 1 from the upper edge cell *)
Lemma pad_src_reflect_above (k d : Z) : 1 < k -> 1 <= d ->
  pad_src PReflect k (k - 1 + d) = Some (k - 1 - mirror_ref k (d mod (2 * k - 2))).
Proof.
  intros Hk Hd. unfold pad_src. rewrite out_of_range by lia.
  replace (k =? 1) with false by (symmetry; apply Z.eqb_neq; lia). f_equal.
  assert (E0 : d mod (2 * k - 2) = (k - 1 + d - (k - 1)) mod (2 * k - 2)) by (f_equal; lia). rewrite E0.
  rewrite (mod_shift_down (2 * k - 2) (k - 1 + d) (k - 1)) by lia.
  pose proof (Z.mod_pos_bound (k - 1 + d) (2 * k - 2) ltac:(lia)) as B. unfold mirror_ref.
  set (r := (k - 1 + d) mod (2 * k - 2)) in *.
  destruct (k - 1 <=? r) eqn:E; [apply Z.leb_le in E | apply Z.leb_gt in E].
  - destruct (r - (k - 1) <? k) eqn:C; [|apply Z.ltb_ge in C; lia].
    destruct (r <? k) eqn:A; [apply Z.ltb_lt in A | apply Z.ltb_ge in A]; lia.
  - destruct (r <? k) eqn:A; [|apply Z.ltb_ge in A; lia].
    destruct (r - (k - 1) + (2 * k - 2) <? k) eqn:C; [apply Z.ltb_lt in C | apply Z.ltb_ge in C]; lia.
Qed.

(* a single cell is repeated by reflect (numpy's special case) *)
Lemma pad_src_reflect_single (j : Z) : pad_src PReflect 1 j = Some 0.
Proof.
  unfold pad_src. destruct (in_range1 1 j) eqn:E; [|reflexivity].
  unfold in_range1 in E. apply andb_true_iff in E. destruct E as [A B].
  apply Z.leb_le in A. apply Z.ltb_lt in B. f_equal. lia.
Qed.

(* wrap and edge in the same "distance beyond the edge" form *)
Lemma pad_src_wrap_below (k d : Z) : 0 < k -> 0 <= d ->
  pad_src PWrap k (- d - 1) = Some (k - 1 - d mod k).
Proof.
  intros Hk Hd. unfold pad_src. rewrite out_of_range by lia. f_equal. apply mod_neg_pred. lia.
Qed.

Lemma pad_src_wrap_above (k d : Z) : 0 < k -> 0 <= d -> pad_src PWrap k (k + d) = Some (d mod k).
Proof.
  intros Hk Hd. unfold pad_src. rewrite out_of_range by lia. f_equal.
  replace (k + d) with (d + 1 * k) by lia. apply Z.mod_add. lia.
Qed.

(* the mirror positions are source cells, and within the first k added cells they are the plain
   mirror images d |-> d  (symmetric)  and  d |-> d  (reflect, counted from the edge cell) *)
Lemma mirror_sym_small (k d : Z) : 0 <= d < k -> mirror_sym k (d mod (2 * k)) = d.
Proof. intro H. rewrite Z.mod_small by lia. unfold mirror_sym. destruct (d <? k) eqn:E; [reflexivity | apply Z.ltb_ge in E; lia]. Qed.
Lemma mirror_ref_small (k d : Z) : 1 < k -> 0 <= d < k -> d < 2 * k - 2 -> mirror_ref k (d mod (2 * k - 2)) = d.
Proof. intros Hk H H2. rewrite Z.mod_small by lia. unfold mirror_ref. destruct (d <? k) eqn:E; [reflexivity | apply Z.ltb_ge in E; lia]. Qed.
