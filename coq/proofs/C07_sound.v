(* C07: soundness of check_C07 - an accepted case certifies that the OBSERVED mesh / values /
   validity returned by Mesh.sel, Field.sel, __getitem__, region2slices, pad and resample are the
   model's on the recorded source, so the C07 theorems apply to the observation itself.
   Exact regime: equality (Qeq on coordinates and values, Leibniz on counts, names, validity).
   Scale regime (CBlockScale): the observed block corners are within 1e-9 relative of lattice
   positions and the values / validity are exactly those of the source cells at that offset. *)
From DF Require Import Prelude Constants_gen Region Mesh Select ListLemmas CheckSound Check_C07
                       C01_sound C07_accept C07_nd C07_ops.
Open Scope Q_scope.

(* ---------- what a comparison certifies ---------- *)
Definition sub_obs (os : subobs) (nr : string * region) : Prop :=
  exists lo hi, sub_lookup (fst nr) os = Some (lo, hi) /\
                Forall2 Qeq (pmin (snd nr)) lo /\ Forall2 Qeq (pmax (snd nr)) hi.

Definition mesh_obs (m : mesh) (o : obsmesh) : Prop :=
  match o with
  | ObsMesh lo hi n_ dims_ subs_ =>
      Forall2 Qeq (pmin (reg m)) lo /\ Forall2 Qeq (pmax (reg m)) hi /\ n m = n_ /\
      dims (reg m) = dims_ /\ length (subs m) = length subs_ /\
      forall nr, In nr (subs m) -> sub_obs subs_ nr
  end.

(* the observed flat arrays, listed against the C-order enumeration of the result indices *)
Definition vals_obs (ns : list Z) (f : list Z -> list Q) (vals : list (list Q)) : Prop :=
  Forall2 (fun i v => Forall2 Qeq (f i) v) (indices_c ns) vals.

Definition field_obs (F : field (list Q)) (o : obsfield) : Prop :=
  match o with
  | ObsField om vals valid =>
      mesh_obs (fmesh F) om /\
      vals_obs (n (fmesh F)) (fval F) vals /\
      valid = map (fvalid F) (indices_c (n (fmesh F)))
  | ObsValue _ => False
  end.

Definition fres_obs (r : fres (list Q)) (o : obsfield) : Prop :=
  match r, o with
  | FField F, ObsField _ _ _ => field_obs F o
  | FValue v, ObsValue w => Forall2 Qeq v w
  | _, _ => False
  end.

(* model outcome against observed outcome: both succeed and are related, or both reject *)
Definition agrees {A B} (R : A -> B -> Prop) (r : res A) (o : option B) : Prop :=
  match r, o with
  | OK a, Some b => R a b
  | Err _, None => True
  | _, _ => False
  end.

Lemma cmp_agrees {A B} (f : A -> B -> bool) (R : A -> B -> Prop) :
  (forall a b, f a b = true -> R a b) -> forall r o, cmp f r o = true -> agrees R r o.
Proof.
  intros H [a|e] [b|]; simpl; intro E; try discriminate; auto.
Qed.

Lemma agrees_some {A B} (R : A -> B -> Prop) r b : agrees R r (Some b) -> exists a, r = OK a /\ R a b.
Proof. destruct r as [a|e]; simpl; intro H; [exists a; auto | contradiction]. Qed.

Lemma agrees_none {A B} (R : A -> B -> Prop) r : agrees R r None -> exists e, r = Err e.
Proof. destruct r as [a|e]; simpl; intro H; [contradiction | exists e; auto]. Qed.

Lemma Forall2_map_l {A B C} (R : B -> C -> Prop) (f : A -> B) l l2 :
  Forall2 R (map f l) l2 -> Forall2 (fun x y => R (f x) y) l l2.
Proof.
  revert l2. induction l as [|x l IH]; intros l2 H; inversion H; subst; constructor; auto.
Qed.

Lemma subs_match_sound ms os :
  subs_match ms os = true -> length ms = length os /\ forall nr, In nr ms -> sub_obs os nr.
Proof.
  unfold subs_match. intro H. apply andb_true_iff in H. destruct H as [H1 H2].
  split; [apply Nat.eqb_eq; exact H1|].
  intros nr Hin. rewrite forallb_forall in H2. specialize (H2 nr Hin).
  unfold sub_obs. destruct (sub_lookup (fst nr) os) as [[lo hi]|]; [|discriminate].
  apply andb_true_iff in H2. destruct H2 as [Ha Hb].
  exists lo, hi. split; [reflexivity|]. split; apply qlist_eqb_sound_gen; assumption.
Qed.

Lemma mesh_match_sound m o : mesh_match m o = true -> mesh_obs m o.
Proof.
  destruct o as [lo hi n_ dims_ subs_]. unfold mesh_match, mesh_obs. intro H.
  apply andb_true_iff in H. destruct H as [H H5].
  apply andb_true_iff in H. destruct H as [H H4].
  apply andb_true_iff in H. destruct H as [H H3].
  apply andb_true_iff in H. destruct H as [H1 H2].
  apply subs_match_sound in H5. destruct H5 as [H5 H6].
  split; [apply qlist_eqb_sound_gen; exact H1|].
  split; [apply qlist_eqb_sound_gen; exact H2|].
  split; [apply zlist_eqb_sound_gen; exact H3|].
  split; [apply strlist_eqb_sound_gen; exact H4|].
  split; assumption.
Qed.

Lemma vecs_eqb_sound ns f vals : vecs_eqb (arr_list ns f) vals = true -> vals_obs ns f vals.
Proof.
  unfold vecs_eqb, arr_list, vals_obs. intro H. apply Forall2_map_l.
  revert H. apply forallb2_Forall2_gen. exact qlist_eqb_sound_gen.
Qed.

Lemma field_match_sound F o : field_match F o = true -> field_obs F o.
Proof.
  destruct o as [om vals valid|v]; unfold field_match, field_obs; [|discriminate].
  intro H. apply andb_true_iff in H. destruct H as [H H3].
  apply andb_true_iff in H. destruct H as [H1 H2].
  split; [apply mesh_match_sound; exact H1|].
  split; [apply vecs_eqb_sound; exact H2|].
  symmetry. apply boollist_eqb_sound. exact H3.
Qed.

Lemma fres_match_sound r o : fres_match r o = true -> fres_obs r o.
Proof.
  destruct r as [F|v]; destruct o as [om vals valid|w]; unfold fres_match, fres_obs; try discriminate.
  - apply field_match_sound.
  - apply qlist_eqb_sound_gen.
Qed.

Lemma slices_eqb_sound a b : slices_eqb a b = true -> a = b.
Proof.
  intro H. apply Forall2_eq_gen. revert H. apply forallb2_Forall2_gen.
  intros [x1 x2] [y1 y2]. simpl. intro H. apply andb_true_iff in H. destruct H as [H1 H2].
  apply Z.eqb_eq in H1. apply Z.eqb_eq in H2. congruence.
Qed.

(* ---------- the source the checker builds ---------- *)
Lemma build_mesh_inv s m :
  build_mesh s = OK m ->
  n m = s_n s /\ dims (reg m) = s_dims s /\
  pmin (reg m) = map2 Qmin (s_p1 s) (s_p2 s) /\ pmax (reg m) = map2 Qmax (s_p1 s) (s_p2 s) /\
  tf (reg m) = s_tf s /\
  (0 <= s_tf s -> wf_mesh m).
Proof.
  unfold build_mesh.
  destruct (mk_region (s_p1 s) (s_p2 s) (Some (s_dims s)) None (s_tf s)) as [r|e] eqn:Er; [|discriminate].
  unfold bind at 1.
  destruct (mk_mesh_n r (s_n s)) as [m0|e] eqn:Em; [|discriminate].
  unfold bind. intro H. injection H as <-. cbn [reg n].
  assert (Hn : n m0 = s_n s /\ reg m0 = r).
  { unfold mk_mesh_n in Em.
    destruct (negb (length (s_n s) =? ndim r)%nat); [discriminate|].
    destruct (negb (forallb (fun k => (0 <? k)%Z) (s_n s))); [discriminate|].
    injection Em as <-. split; reflexivity. }
  destruct Hn as [Hn Hr]. rewrite Hr.
  assert (Hreg : dims r = s_dims s /\ pmin r = map2 Qmin (s_p1 s) (s_p2 s) /\
                 pmax r = map2 Qmax (s_p1 s) (s_p2 s) /\ tf r = s_tf s).
  { unfold mk_region in Er.
    destruct (negb (length (s_p1 s) =? length (s_p2 s))%nat); [discriminate|].
    destruct (length (s_p1 s) =? 0)%nat; [discriminate|].
    destruct (negb (length (s_dims s) =? length (s_p1 s))%nat); [discriminate|].
    destruct (negb (nodupb (s_dims s))); [discriminate|].
    cbn [bind] in Er.
    destruct (existsb _ _); [discriminate|].
    injection Er as <-. repeat split; reflexivity. }
  destruct Hreg as (Hd & Hlo & Hhi & Htf).
  split; [exact Hn|]. split; [exact Hd|]. split; [exact Hlo|]. split; [exact Hhi|]. split; [exact Htf|].
  intro Htf0.
  assert (Hwr : wf_region r).
  { eapply mk_region_wf; [exact Er | exact Htf0 | discriminate]. }
  pose proof (mk_mesh_n_wf _ _ _ Hwr Em) as Hw. unfold wf_mesh in *. cbn [reg n].
  rewrite Hr in Hw. exact Hw.
Qed.

Lemma build_field_inv s F :
  build_field s = OK F ->
  build_mesh s = OK (fmesh F) /\
  fval F = arr_of [] (s_n s) (s_vals s) /\ fvalid F = arr_of false (s_n s) (s_valid s) /\
  length (s_vals s) = Z.to_nat (zprod (s_n s)) /\ length (s_valid s) = Z.to_nat (zprod (s_n s)).
Proof.
  unfold build_field. destruct (build_mesh s) as [m|e]; [|discriminate]. unfold bind.
  destruct (negb (length (s_vals s) =? Z.to_nat (zprod (s_n s)))%nat) eqn:E1; [discriminate|].
  destruct (negb (length (s_valid s) =? Z.to_nat (zprod (s_n s)))%nat) eqn:E2; [discriminate|].
  intro H. injection H as <-. cbn [fmesh fval fvalid].
  apply negb_false_iff, Nat.eqb_eq in E1. apply negb_false_iff, Nat.eqb_eq in E2.
  repeat split; assumption.
Qed.

(* ---------- soundness of check_C07, constructor by constructor ---------- *)
Lemma check_pad_sound s pw md om ofd :
  check_C07 (CPad s pw md om ofd) = true ->
  exists F, build_field s = OK F /\
    agrees mesh_obs (mesh_pad (fmesh F) pw) om /\
    agrees field_obs (field_pad (repeat 0 (s_nvdim s)) F pw md) ofd.
Proof.
  cbn [check_C07]. destruct (build_field s) as [F|e]; [|discriminate].
  intro H. apply andb_true_iff in H. destruct H as [H1 H2].
  exists F. split; [reflexivity|]. split.
  - revert H1. apply cmp_agrees. exact mesh_match_sound.
  - revert H2. apply cmp_agrees. exact field_match_sound.
Qed.

Lemma check_resample_sound s n' ofd :
  check_C07 (CResample s n' ofd) = true ->
  exists F, build_field s = OK F /\ agrees field_obs (field_resample F n') ofd.
Proof.
  cbn [check_C07]. destruct (build_field s) as [F|e]; [|discriminate].
  intro H. exists F. split; [reflexivity|].
  revert H. apply cmp_agrees. exact field_match_sound.
Qed.

Lemma check_getname_sound s name om ofd :
  check_C07 (CGetName s name om ofd) = true ->
  exists F, build_field s = OK F /\
    agrees mesh_obs (getitem_name (fmesh F) name) om /\
    agrees field_obs (field_getitem_name F name) ofd.
Proof.
  cbn [check_C07]. destruct (build_field s) as [F|e]; [|discriminate].
  intro H. apply andb_true_iff in H. destruct H as [H1 H2].
  exists F. split; [reflexivity|]. split.
  - revert H1. apply cmp_agrees. exact mesh_match_sound.
  - revert H2. apply cmp_agrees. exact field_match_sound.
Qed.

Lemma check_getregion_sound s q1 q2 om ofd :
  check_C07 (CGetRegion s q1 q2 om ofd) = true ->
  exists F item, build_field s = OK F /\ mk_region q1 q2 None None sub_default_tf = OK item /\
    agrees mesh_obs (getitem_region (fmesh F) item) om /\
    agrees field_obs (field_getitem_region F item) ofd.
Proof.
  cbn [check_C07]. destruct (build_field s) as [F|e]; [|discriminate].
  destruct (mk_region q1 q2 None None sub_default_tf) as [item|e]; [|discriminate].
  intro H. apply andb_true_iff in H. destruct H as [H1 H2].
  exists F, item. split; [reflexivity|]. split; [reflexivity|]. split.
  - revert H1. apply cmp_agrees. exact mesh_match_sound.
  - revert H2. apply cmp_agrees. exact field_match_sound.
Qed.

Lemma check_slices_sound s q1 q2 o :
  check_C07 (CSlices s q1 q2 o) = true ->
  exists m item, build_mesh s = OK m /\ mk_region q1 q2 None None sub_default_tf = OK item /\
    agrees eq (region2slices m item) o.
Proof.
  cbn [check_C07]. destruct (build_mesh s) as [m|e]; [|discriminate].
  destruct (mk_region q1 q2 None None sub_default_tf) as [item|e]; [|discriminate].
  intro H. exists m, item. split; [reflexivity|]. split; [reflexivity|].
  revert H. apply cmp_agrees. exact slices_eqb_sound.
Qed.

(* selection: a coordinate exactly on an interior cell face belongs to both neighbours; the
   accepted observation is the model's for the request itself or for that lower neighbour *)
Lemma check_sel_sound s a arg om ofd :
  check_C07 (CSel s a arg om ofd) = true ->
  exists F arg', build_field s = OK F /\ In arg' (sel_alts (fmesh F) a arg) /\
    agrees mesh_obs (mesh_sel (fmesh F) a arg') om /\
    agrees fres_obs (field_sel F a arg') ofd.
Proof.
  cbn [check_C07]. destruct (build_field s) as [F|e]; [|discriminate].
  intro H. apply existsb_exists in H. destruct H as [arg' [Hin H]].
  apply andb_true_iff in H. destruct H as [H1 H2].
  exists F, arg'. split; [reflexivity|]. split; [exact Hin|]. split.
  - revert H1. apply cmp_agrees. exact mesh_match_sound.
  - revert H2. apply cmp_agrees. exact fres_match_sound.
Qed.

Lemma coord_alts_off_face m a x : on_face m a x = false -> coord_alts m a x = [x].
Proof. unfold coord_alts. intros ->. reflexivity. Qed.

Lemma sel_alts_point m a x arg' :
  In arg' (sel_alts m a (SPoint x)) -> exists x', arg' = SPoint x' /\ In x' (coord_alts m a x).
Proof.
  cbn [sel_alts]. intro H. apply in_map_iff in H. destruct H as [x' [E Hin]].
  exists x'. split; [symmetry; exact E | exact Hin].
Qed.

Lemma sel_alts_range m a x1 x2 arg' :
  In arg' (sel_alts m a (SRange x1 x2)) ->
  exists y1 y2, arg' = SRange y1 y2 /\ In y1 (coord_alts m a (Qmin x1 x2)) /\ In y2 (coord_alts m a (Qmax x1 x2)).
Proof.
  cbn [sel_alts]. intro H. apply in_flat_map in H. destruct H as [y1 [H1 H]].
  apply in_map_iff in H. destruct H as [y2 [E H2]].
  exists y1, y2. split; [symmetry; exact E|]. split; assumption.
Qed.

(* ---------- scale regime ---------- *)
Lemma block_axis_ok_sound lo hi k rlo rhi rk xlo xhi :
  block_axis_ok lo hi k rlo rhi rk xlo xhi = true ->
  let c := cell_of lo hi k in
  let off := Qround_half_even ((rlo - lo) / c) in
  Qabs (rlo - (lo + inject_Z off * c)) <= rel_tol * axis_scale lo hi /\
  Qabs (rhi - (lo + inject_Z (off + rk) * c)) <= rel_tol * axis_scale lo hi /\
  (0 < rk)%Z /\ (0 <= off)%Z /\ (off + rk <= k)%Z.
Proof.
  unfold block_axis_ok. cbv zeta. intro H.
  apply andb_true_iff in H. destruct H as [H _].
  apply andb_true_iff in H. destruct H as [H _].
  apply andb_true_iff in H. destruct H as [H H5].
  apply andb_true_iff in H. destruct H as [H H4].
  apply andb_true_iff in H. destruct H as [H H3].
  apply andb_true_iff in H. destruct H as [H1 H2].
  split; [apply qclose_sound; exact H1|].
  split; [apply qclose_sound; exact H2|].
  split; [apply Z.ltb_lt; exact H3|].
  split; [apply Z.leb_le; exact H4 | apply Z.leb_le; exact H5].
Qed.

Lemma check_blockscale_sound s kind a q1 q2 rlo rhi rn d sb vals valid :
  check_C07 (CBlockScale s kind a q1 q2 (Some (ObsField (ObsMesh rlo rhi rn d sb) vals valid))) = true ->
  exists F xlos xhis, build_field s = OK F /\
    let off := block_offsets (fmesh F) rlo in
    block_ok (pmin (reg (fmesh F))) (pmax (reg (fmesh F))) (n (fmesh F)) rlo rhi rn xlos xhis = true /\
    vals_obs rn (fun i => fval F (add_idx i off)) vals /\
    valid = map (fun i => fvalid F (add_idx i off)) (indices_c rn).
Proof.
  cbn [check_C07]. destruct (build_field s) as [F|e]; [|discriminate].
  cbv zeta. intro H.
  apply andb_true_iff in H. destruct H as [H _].
  apply andb_true_iff in H. destruct H as [H _].
  unfold block_scale_match in H.
  apply andb_true_iff in H. destruct H as [H H3].
  apply andb_true_iff in H. destruct H as [H1 H2].
  eexists F, _, _. split; [reflexivity|]. split; [exact H1|]. split.
  - apply vecs_eqb_sound. exact H2.
  - symmetry. apply boollist_eqb_sound. exact H3.
Qed.

(* ---------- a whole shard ---------- *)
Lemma shard_verdict cases k :
  failing k (map check_C07 cases) = [] -> forall c, In c cases -> check_C07 c = true.
Proof. exact (failing_nil_all check_C07 cases k). Qed.

(* ================= transfer: the C07 theorems stated about the OBSERVED output ================= *)
Lemma Forall2_impl_gen {A B} (R1 R2 : A -> B -> Prop) l1 l2 :
  (forall a b, R1 a b -> R2 a b) -> Forall2 R1 l1 l2 -> Forall2 R2 l1 l2.
Proof. intros H. induction 1; constructor; auto. Qed.

(* padding: every observed value / validity flag, listed in C order over the observed shape, is the
   source's at the cell the mode's index map names, or the constant fill 0 / False *)
Theorem accepted_pad_values s pw md om lo hi n_ d sb vals valid :
  check_C07 (CPad s pw md om (Some (ObsField (ObsMesh lo hi n_ d sb) vals valid))) = true ->
  Forall2 (fun i v => match pad_index md (s_n s) pw i with
                      | Some j => Forall2 Qeq (arr_of [] (s_n s) (s_vals s) j) v
                      | None => Forall2 Qeq (repeat 0 (s_nvdim s)) v
                      end) (indices_c n_) vals /\
  valid = map (fun i => match pad_index md (s_n s) pw i with
                        | Some j => arr_of false (s_n s) (s_valid s) j
                        | None => false
                        end) (indices_c n_).
Proof.
  intro H. apply check_pad_sound in H. destruct H as (F & HF & _ & H).
  apply agrees_some in H. destruct H as (R & HR & Hm & Hv & Hb).
  apply build_field_inv in HF. destruct HF as (HM & Hfv & Hfb & _ & _).
  apply build_mesh_inv in HM. destruct HM as (Hn & _).
  apply field_pad_values in HR. destruct HR as [_ HR]. rewrite Hn, Hfv, Hfb in HR.
  destruct Hm as (_ & _ & Hn' & _). rewrite Hn' in Hv, Hb.
  split.
  - unfold vals_obs in Hv. revert Hv. apply Forall2_impl_gen. intros i v Hiv.
    specialize (HR i). destruct (pad_index md (s_n s) pw i) as [j|]; destruct HR as [E _]; rewrite <- E; exact Hiv.
  - rewrite Hb. apply map_ext. intro i.
    specialize (HR i). destruct (pad_index md (s_n s) pw i) as [j|]; destruct HR as [_ E]; exact E.
Qed.

(* padding, shape: on a well-formed source the observed counts are the source counts plus the
   widths, and the observed corners are the source corners moved by width * cell *)
Theorem accepted_pad_shape s pw md om lo hi n_ d sb vals valid :
  check_C07 (CPad s pw md om (Some (ObsField (ObsMesh lo hi n_ d sb) vals valid))) = true ->
  0 <= s_tf s ->
  exists m, build_mesh s = OK m /\ wf_mesh m /\
    n_ = map2 (fun (k : Z) (w : Z * Z) => (k + fst w + snd w)%Z) (s_n s) pw /\
    Forall2 Qeq (map3 pad_lo (pmin (reg m)) (cell m) pw) lo /\
    Forall2 Qeq (map3 pad_hi (pmax (reg m)) (cell m) pw) hi /\
    d = s_dims s.
Proof.
  intros H Htf. apply check_pad_sound in H. destruct H as (F & HF & _ & H).
  apply agrees_some in H. destruct H as (R & HR & Hm & _).
  apply build_field_inv in HF. destruct HF as (HM & _).
  pose proof (build_mesh_inv _ _ HM) as (Hn & Hd & _ & _ & _ & Hwf). specialize (Hwf Htf).
  exists (fmesh F). split; [exact HM|]. split; [exact Hwf|].
  assert (Hneg : existsb (fun w : Z * Z => (fst w <? 0)%Z || (snd w <? 0)%Z) pw = false).
  { unfold field_pad in HR. destruct (existsb _ pw); [discriminate | reflexivity]. }
  apply field_pad_values in HR. destruct HR as [HR _].
  assert (Hlen : length pw = length (pmin (reg (fmesh F)))).
  { unfold mesh_pad in HR. destruct (negb (length pw =? ndim (reg (fmesh F)))%nat) eqn:E; [discriminate|].
    apply negb_false_iff, Nat.eqb_eq in E. exact E. }
  rewrite (mesh_pad_accepts (fmesh F) Hwf pw Hlen) in HR.
  - injection HR as HR. destruct Hm as (H1 & H2 & H3 & H4 & _).
    rewrite <- HR in H1, H2, H3, H4. cbn [reg n pmin pmax dims] in H1, H2, H3, H4.
    rewrite Hn in H3. rewrite Hd in H4.
    split; [symmetry; exact H3|]. split; [exact H1|]. split; [exact H2 | symmetry; exact H4].
  - intros a Ha.
    assert (Hin : In (nth a pw (0, 0)%Z) pw) by (apply nth_In; lia).
    assert (Hf : ((fst (nth a pw (0, 0)%Z) <? 0)%Z || (snd (nth a pw (0, 0)%Z) <? 0)%Z) = false).
    { destruct ((fst (nth a pw (0, 0)%Z) <? 0)%Z || (snd (nth a pw (0, 0)%Z) <? 0)%Z) eqn:E; [|reflexivity].
      assert (X : existsb (fun w : Z * Z => (fst w <? 0)%Z || (snd w <? 0)%Z) pw = true).
      { apply existsb_exists. exists (nth a pw (0, 0)%Z). split; assumption. }
      congruence. }
    apply orb_false_iff in Hf. destruct Hf as [Hf1 Hf2].
    apply Z.ltb_ge in Hf1. apply Z.ltb_ge in Hf2. split; assumption.
Qed.

(* resampling: the observed field lives on the source region with the requested resolution, and each
   observed value / validity flag is the source's at the cell containing the new cell centre *)
Theorem accepted_resample s n' lo hi n_ d sb vals valid :
  check_C07 (CResample s n' (Some (ObsField (ObsMesh lo hi n_ d sb) vals valid))) = true ->
  exists F R, build_field s = OK F /\ field_resample F n' = OK R /\
    n_ = n' /\
    Forall2 Qeq (map2 Qmin (s_p1 s) (s_p2 s)) lo /\ Forall2 Qeq (map2 Qmax (s_p1 s) (s_p2 s)) hi /\
    d = s_dims s /\
    vals_obs n' (fun j => arr_of [] (s_n s) (s_vals s) (resample_src (fmesh F) (fmesh R) j)) vals /\
    valid = map (fun j => arr_of false (s_n s) (s_valid s) (resample_src (fmesh F) (fmesh R) j)) (indices_c n').
Proof.
  intro H. apply check_resample_sound in H. destruct H as (F & HF & H).
  apply agrees_some in H. destruct H as (R & HR & Hm & Hv & Hb).
  exists F, R. split; [exact HF|]. split; [exact HR|].
  apply build_field_inv in HF. destruct HF as (HM & Hfv & Hfb & _ & _).
  apply build_mesh_inv in HM. destruct HM as (_ & Hd & Hlo & Hhi & _).
  apply resample_region in HR. destruct HR as (Hreg & Hn & HR).
  destruct Hm as (H1 & H2 & H3 & H4 & _).
  rewrite Hreg in H1, H2, H4. rewrite Hlo in H1. rewrite Hhi in H2. rewrite Hd in H4.
  rewrite Hn in H3, Hv, Hb.
  split; [symmetry; exact H3|]. split; [exact H1|]. split; [exact H2|]. split; [symmetry; exact H4|].
  split.
  - unfold vals_obs in *. revert Hv. apply Forall2_impl_gen. intros j v Hjv.
    destruct (HR j) as [E _]. rewrite E, Hfv in Hjv. exact Hjv.
  - rewrite Hb. apply map_ext. intro j. destruct (HR j) as [_ E]. rewrite E, Hfb. reflexivity.
Qed.

(* extraction by region: the observed block is the source at a fixed index offset *)
Theorem accepted_getregion_values s q1 q2 om lo hi n_ d sb vals valid :
  check_C07 (CGetRegion s q1 q2 om (Some (ObsField (ObsMesh lo hi n_ d sb) vals valid))) = true ->
  exists F item sub off, build_field s = OK F /\ mk_region q1 q2 None None sub_default_tf = OK item /\
    getitem_region (fmesh F) item = OK sub /\ block_offset (fmesh F) sub = OK off /\
    mesh_obs sub (ObsMesh lo hi n_ d sb) /\
    vals_obs n_ (fun i => arr_of [] (s_n s) (s_vals s) (add_idx i off)) vals /\
    valid = map (fun i => arr_of false (s_n s) (s_valid s) (add_idx i off)) (indices_c n_).
Proof.
  intro H. apply check_getregion_sound in H. destruct H as (F & item & HF & Hi & _ & H).
  apply agrees_some in H. destruct H as (R & HR & Hm & Hv & Hb).
  unfold field_getitem_region in HR.
  destruct (getitem_region (fmesh F) item) as [sub|e] eqn:Hs; [|discriminate]. unfold bind in HR.
  apply field_block_values in HR. destruct HR as (Hsub & off & Hoff & HR).
  exists F, item, sub, off. split; [exact HF|]. split; [exact Hi|]. split; [exact Hs|]. split; [exact Hoff|].
  apply build_field_inv in HF. destruct HF as (_ & Hfv & Hfb & _ & _).
  rewrite Hsub in Hm. split; [exact Hm|].
  destruct Hm as (_ & _ & Hn & _). rewrite Hsub, Hn in Hv, Hb.
  split.
  - unfold vals_obs in *. revert Hv. apply Forall2_impl_gen. intros j v Hjv.
    destruct (HR j) as [E _]. rewrite E, Hfv in Hjv. exact Hjv.
  - rewrite Hb. apply map_ext. intro j. destruct (HR j) as [_ E]. rewrite E, Hfb. reflexivity.
Qed.

(* plane selection (source of two or more dimensions): the observed field holds the source values
   with the plane index re-inserted, and the plane is a cell of the chosen axis whose closed extent
   contains the requested coordinate (or, for a coordinate exactly on an interior face, its
   lower-neighbour representative) *)
Theorem accepted_plane s a x om lo hi n_ d sb vals valid :
  check_C07 (CSel s a (SPoint x) om (Some (ObsField (ObsMesh lo hi n_ d sb) vals valid))) = true ->
  0 <= s_tf s ->
  exists F x' k, build_field s = OK F /\ wf_mesh (fmesh F) /\
    (a < length (pmin (reg (fmesh F))))%nat /\ In x' (coord_alts (fmesh F) a x) /\
    (let m := fmesh F in
     let l := nth a (pmin (reg m)) 0 in let c := nth a (cell m) 0 in
     (0 <= k < nth a (n m) 1)%Z /\ l + inject_Z k * c <= x' /\ x' <= l + (inject_Z k + 1) * c) /\
    vals_obs n_ (fun i => arr_of [] (s_n s) (s_vals s) (insert_nth a k i)) vals /\
    valid = map (fun i => arr_of false (s_n s) (s_valid s) (insert_nth a k i)) (indices_c n_).
Proof.
  intros H Htf. apply check_sel_sound in H. destruct H as (F & arg' & HF & Hin & _ & H).
  apply sel_alts_point in Hin. destruct Hin as (x' & -> & Hx').
  apply agrees_some in H. destruct H as (r & HR & Hobs).
  destruct r as [R|v]; [|contradiction]. cbn [fres_obs] in Hobs. destruct Hobs as (Hm & Hv & Hb).
  pose proof (build_field_inv _ _ HF) as (HM & Hfv & Hfb & _ & _).
  pose proof (build_mesh_inv _ _ HM) as (_ & _ & _ & _ & _ & Hwf). specialize (Hwf Htf).
  apply field_sel_plane_values in HR; [|intros; discriminate].
  destruct HR as (k & Hc & _ & HR).
  assert (Ha : (a < length (pmin (reg (fmesh F))))%nat).
  { unfold sel_convert in Hc. destruct (a <? ndim (reg (fmesh F)))%nat eqn:E; [|discriminate].
    apply Nat.ltb_lt in E. exact E. }
  pose proof (plane_index (fmesh F) Hwf a x' k Ha Hc) as (P1 & P2 & P3 & _).
  exists F, x', k. split; [exact HF|]. split; [exact Hwf|]. split; [exact Ha|]. split; [exact Hx'|].
  split; [cbv zeta; split; [exact P1 | split; [exact P2 | exact P3]]|].
  destruct Hm as (_ & _ & Hn & _). rewrite Hn in Hv, Hb.
  split.
  - unfold vals_obs in *. revert Hv. apply Forall2_impl_gen. intros j v Hjv.
    destruct (HR j) as [E _]. rewrite E, Hfv in Hjv. exact Hjv.
  - rewrite Hb. apply map_ext. intro j. destruct (HR j) as [_ E]. rewrite E, Hfb. reflexivity.
Qed.

(* range selection: the observed field holds the source values shifted by the first kept index;
   first and last kept cell are ordered, in range, and contain their ends of the range *)
Theorem accepted_range s a x1 x2 om lo hi n_ d sb vals valid :
  check_C07 (CSel s a (SRange x1 x2) om (Some (ObsField (ObsMesh lo hi n_ d sb) vals valid))) = true ->
  0 <= s_tf s ->
  exists F y1 y2 i1 i2, build_field s = OK F /\ wf_mesh (fmesh F) /\
    In y1 (coord_alts (fmesh F) a (Qmin x1 x2)) /\ In y2 (coord_alts (fmesh F) a (Qmax x1 x2)) /\
    (let m := fmesh F in
     let l := nth a (pmin (reg m)) 0 in let c := nth a (cell m) 0 in
     (0 <= i1)%Z /\ (i1 <= i2)%Z /\ (i2 < nth a (n m) 1)%Z /\
     l + inject_Z i1 * c <= Qmin y1 y2 /\ Qmin y1 y2 <= l + (inject_Z i1 + 1) * c /\
     l + inject_Z i2 * c <= Qmax y1 y2 <= l + (inject_Z i2 + 1) * c) /\
    vals_obs n_ (fun i => arr_of [] (s_n s) (s_vals s) (shift_nth a i1 i)) vals /\
    valid = map (fun i => arr_of false (s_n s) (s_valid s) (shift_nth a i1 i)) (indices_c n_).
Proof.
  intros H Htf. apply check_sel_sound in H. destruct H as (F & arg' & HF & Hin & _ & H).
  apply sel_alts_range in Hin. destruct Hin as (y1 & y2 & -> & Hy1 & Hy2).
  apply agrees_some in H. destruct H as (r & HR & Hobs).
  destruct r as [R|v]; [|contradiction]. cbn [fres_obs] in Hobs. destruct Hobs as (Hm & Hv & Hb).
  pose proof (build_field_inv _ _ HF) as (HM & Hfv & Hfb & _ & _).
  pose proof (build_mesh_inv _ _ HM) as (_ & _ & _ & _ & _ & Hwf). specialize (Hwf Htf).
  apply field_sel_range_values in HR. destruct HR as (i1 & i2 & Hc & _ & HR).
  assert (Ha : (a < length (pmin (reg (fmesh F))))%nat).
  { unfold sel_convert in Hc. destruct (a <? ndim (reg (fmesh F)))%nat eqn:E; [|discriminate].
    apply Nat.ltb_lt in E. exact E. }
  pose proof (range_indices (fmesh F) Hwf a y1 y2 i1 i2 Ha Hc) as P.
  exists F, y1, y2, i1, i2. split; [exact HF|]. split; [exact Hwf|]. split; [exact Hy1|]. split; [exact Hy2|].
  split; [exact P|].
  destruct Hm as (_ & _ & Hn & _). rewrite Hn in Hv, Hb.
  split.
  - unfold vals_obs in *. revert Hv. apply Forall2_impl_gen. intros j v Hjv.
    destruct (HR j) as [E _]. rewrite E, Hfv in Hjv. exact Hjv.
  - rewrite Hb. apply map_ext. intro j. destruct (HR j) as [_ E]. rewrite E, Hfb. reflexivity.
Qed.

(* ---------- a coordinate on an interior face: the lower-neighbour representative names a cell
   whose closed extent contains the coordinate itself ---------- *)
Lemma face_lower_contains (l c x : Q) (k : Z) :
  0 < c -> Qeq_bool ((x - l) / c) (inject_Z (Qfloor ((x - l) / c))) = true ->
  l + inject_Z k * c <= x - c / 2 -> x - c / 2 <= l + (inject_Z k + 1) * c ->
  l + inject_Z k * c <= x /\ x <= l + (inject_Z k + 1) * c.
Proof.
  intros Hc Ht H1 H2. apply Qeq_bool_eq in Ht.
  set (T := Qfloor ((x - l) / c)) in *.
  assert (Hx : x == l + inject_Z T * c).
  { rewrite <- Ht. field. lra. }
  clearbody T. clear Ht.
  assert (Hh : c / 2 == c * (1 # 2)) by field. rewrite Hh in H1, H2.
  split; [lra|].
  destruct (Z_le_gt_dec T (k + 1)) as [Hle|Hgt].
  - assert (HT : inject_Z T <= inject_Z k + 1).
    { change 1 with (inject_Z 1). rewrite <- inject_Z_plus. rewrite <- Zle_Qle. exact Hle. }
    pose proof (Qmult_le_compat_r _ _ c HT (Qlt_le_weak _ _ Hc)) as M. lra.
  - exfalso.
    assert (HT : inject_Z k + 2 <= inject_Z T).
    { change 2 with (inject_Z 2). rewrite <- inject_Z_plus. rewrite <- Zle_Qle. lia. }
    pose proof (Qmult_le_compat_r _ _ c HT (Qlt_le_weak _ _ Hc)) as M. lra.
Qed.

Lemma coord_alts_contains m a x x' k :
  wf_mesh m -> (a < length (pmin (reg m)))%nat -> In x' (coord_alts m a x) ->
  let l := nth a (pmin (reg m)) 0 in let c := nth a (cell m) 0 in
  l + inject_Z k * c <= x' -> x' <= l + (inject_Z k + 1) * c ->
  l + inject_Z k * c <= x /\ x <= l + (inject_Z k + 1) * c.
Proof.
  intros Hwf Ha Hin. cbv zeta. intros H1 H2.
  destruct (cell_axis m Hwf a Ha) as [Hc _].
  unfold coord_alts in Hin. destruct (on_face m a x) eqn:E.
  - destruct Hin as [<-|[<-|[]]]; [split; assumption|].
    unfold on_face in E. cbv zeta in E.
    apply andb_true_iff in E. destruct E as [E _]. apply andb_true_iff in E. destruct E as [E _].
    apply (face_lower_contains _ _ _ _ Hc E H1 H2).
  - destruct Hin as [<-|[]]. split; assumption.
Qed.

(* plane selection, stated about the requested coordinate itself: the observed field is the source
   with the plane index k re-inserted, where cell k of the chosen axis contains x (closed extent) *)
Theorem accepted_plane_contains s a x om lo hi n_ d sb vals valid :
  check_C07 (CSel s a (SPoint x) om (Some (ObsField (ObsMesh lo hi n_ d sb) vals valid))) = true ->
  0 <= s_tf s ->
  exists F k, build_field s = OK F /\ wf_mesh (fmesh F) /\
    (let m := fmesh F in
     let l := nth a (pmin (reg m)) 0 in let c := nth a (cell m) 0 in
     (0 <= k < nth a (n m) 1)%Z /\ l + inject_Z k * c <= x /\ x <= l + (inject_Z k + 1) * c) /\
    vals_obs n_ (fun i => arr_of [] (s_n s) (s_vals s) (insert_nth a k i)) vals /\
    valid = map (fun i => arr_of false (s_n s) (s_valid s) (insert_nth a k i)) (indices_c n_).
Proof.
  intros H Htf. pose proof H as H0.
  apply accepted_plane in H; [|exact Htf].
  destruct H as (F & x' & k & HF & Hwf & Ha & Hx' & (P1 & P2 & P3) & Hv & Hb).
  exists F, k. split; [exact HF|]. split; [exact Hwf|]. split; [|split; assumption].
  cbv zeta. split; [exact P1|].
  apply (coord_alts_contains (fmesh F) a x x' k Hwf); assumption.
Qed.

(* a rejected plane / range request stays rejected by the model for every admissible reading *)
Theorem accepted_sel_reject s a arg om :
  check_C07 (CSel s a arg om None) = true ->
  exists F arg' e, build_field s = OK F /\ In arg' (sel_alts (fmesh F) a arg) /\ field_sel F a arg' = Err e.
Proof.
  intro H. apply check_sel_sound in H. destruct H as (F & arg' & HF & Hin & _ & H).
  apply agrees_none in H. destruct H as [e He]. exists F, arg', e. auto.
Qed.

(* non-vacuity: concrete accepted cases (constant-mode pad of a two-cell line by (1,2); plane of a 2x2 field) *)
Example accepted_pad_instance :
  check_C07 (CPad (mkSrc [0] [2] [2%Z] (1 # 1000000000000) ["x"%string] [] 1%nat [[50]; [51]] [true; true])
                  [(1%Z, 2%Z)] PConstant
                  (Some (ObsMesh [- (1)] [4] [5%Z] ["x"%string] []))
                  (Some (ObsField (ObsMesh [- (1)] [4] [5%Z] ["x"%string] [])
                                  [[0]; [50]; [51]; [0]; [0]] [false; true; true; false; false]))) = true.
Proof. vm_compute. reflexivity. Qed.

Example accepted_resample_instance :
  check_C07 (CResample (mkSrc [0] [2] [2%Z] (1 # 1000000000000) ["x"%string] [] 1%nat [[50]; [51]] [true; false])
                  [4%Z]
                  (Some (ObsField (ObsMesh [0] [2] [4%Z] ["x"%string] [])
                                  [[50]; [50]; [51]; [51]] [true; true; false; false]))) = true.
Proof. vm_compute. reflexivity. Qed.

(* a plane coordinate exactly on the interior face x = 1 of a 2x2 field: the upper neighbour's
   plane is accepted (so is the lower neighbour's - both contain the coordinate) *)
Example accepted_plane_instance :
  check_C07 (CSel (mkSrc [0; 0] [2; 2] [2%Z; 2%Z] (1 # 1000000000000) ["x"%string; "y"%string] [] 1%nat
                         [[1]; [2]; [3]; [4]] [true; true; false; true])
                  0 (SPoint 1)
                  (Some (ObsMesh [0] [2] [2%Z] ["y"%string] []))
                  (Some (ObsField (ObsMesh [0] [2] [2%Z] ["y"%string] []) [[3]; [4]] [false; true]))) = true.
Proof. vm_compute. reflexivity. Qed.
