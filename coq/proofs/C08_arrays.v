(* C08 — array infrastructure: C-order enumeration and ravel are inverse, tabulate/lookup. *)
From DF Require Import Prelude NDArray Valid.
Open Scope nat_scope.

Lemma iota_length k n : length (iota k n) = n.
Proof. revert k; induction n; simpl; intros; auto. Qed.

Lemma nth_iota n : forall k j d, j < n -> nth j (iota k n) d = k + j.
Proof.
  induction n; intros k j d H; [lia|].
  destruct j; simpl; [lia|]. rewrite IHn by lia. lia.
Qed.

Lemma flat_map_const_length {A B} (f : A -> list B) c :
  (forall a, length (f a) = c) -> forall l, length (flat_map f l) = length l * c.
Proof.
  intros H l; induction l; simpl; auto. rewrite app_length, H, IHl. lia.
Qed.

Lemma nth_flat_map_const {A B} (f : A -> list B) c (d : B) (da : A) :
  (forall a, length (f a) = c) ->
  forall l q r, r < c -> q < length l ->
  nth (q * c + r) (flat_map f l) d = nth r (f (nth q l da)) d.
Proof.
  intros H l; induction l as [|a l IH]; intros q r Hr Hq; simpl in *; [lia|].
  destruct q.
  - simpl. rewrite app_nth1; auto. rewrite H; lia.
  - rewrite app_nth2 by (rewrite H; simpl; lia).
    rewrite H. replace (S q * c + r - c) with (q * c + r) by (simpl; lia).
    apply IH; lia.
Qed.

Lemma indices_length sh : length (indices sh) = nprod sh.
Proof.
  induction sh as [|k sh IH]; simpl; auto.
  rewrite (flat_map_const_length _ (nprod sh)).
  - rewrite iota_length. reflexivity.
  - intro a. rewrite map_length. exact IH.
Qed.

Lemma inb_length sh : forall i, inb sh i = true -> length i = length sh.
Proof.
  induction sh; destruct i; simpl; intros; try discriminate; auto.
  apply andb_prop in H. f_equal. apply IHsh. tauto.
Qed.

Lemma ravel_lt sh : forall i, inb sh i = true -> ravel sh i < nprod sh.
Proof.
  induction sh as [|k sh IH]; destruct i as [|j i]; simpl; intros H; try discriminate; [lia|].
  apply andb_prop in H. destruct H as [H1 H2]. apply Nat.ltb_lt in H1.
  specialize (IH _ H2). nia.
Qed.

Lemma nth_ravel_indices sh : forall i d, inb sh i = true -> nth (ravel sh i) (indices sh) d = i.
Proof.
  induction sh as [|k sh IH]; destruct i as [|j i]; simpl; intros d H; try discriminate; auto.
  apply andb_prop in H. destruct H as [H1 H2]. apply Nat.ltb_lt in H1.
  rewrite (nth_flat_map_const _ (nprod sh) d 0).
  - rewrite nth_iota by lia. simpl.
    rewrite (nth_indep _ d (j :: d)) by (rewrite map_length, indices_length; apply ravel_lt; auto).
    rewrite (map_nth (cons j)). f_equal. apply IH; auto.
  - intro a. rewrite map_length. apply indices_length.
  - apply ravel_lt; auto.
  - rewrite iota_length; auto.
Qed.

Lemma nth_to_list {V} sh (f : idx -> V) i d :
  inb sh i = true -> nth (ravel sh i) (to_list sh f) d = f i.
Proof.
  intro H. unfold to_list.
  rewrite (nth_indep _ d (f [])) by (rewrite map_length, indices_length; apply ravel_lt; auto).
  rewrite map_nth. f_equal. apply nth_ravel_indices; auto.
Qed.

Lemma to_list_length {V} sh (f : idx -> V) : length (to_list sh f) = nprod sh.
Proof. unfold to_list. rewrite map_length. apply indices_length. Qed.

Lemma wf_mtab sh f : wf (mtab sh f).
Proof. unfold wf, mtab; simpl. apply to_list_length. Qed.

Lemma mget_mtab sh f i : inb sh i = true -> mget (mtab sh f) i = f i.
Proof. intro H. unfold mget, mtab; simpl. apply nth_to_list; auto. Qed.

(* --- reversal of shape and index together (VTK's x-fastest layout) *)
Lemma inb_app s1 : forall i1 s2 i2, length s1 = length i1 ->
  inb (s1 ++ s2) (i1 ++ i2) = inb s1 i1 && inb s2 i2.
Proof.
  induction s1; destruct i1; simpl; intros; try discriminate; auto.
  rewrite IHs1 by lia. rewrite andb_assoc. reflexivity.
Qed.

Lemma inb_rev sh : forall i, inb sh i = true -> inb (rev sh) (rev i) = true.
Proof.
  induction sh as [|k sh IH]; destruct i as [|j i]; simpl; intros H; try discriminate; auto.
  apply andb_prop in H. destruct H as [H1 H2].
  rewrite inb_app.
  - rewrite IH by auto. simpl. rewrite H1. reflexivity.
  - rewrite !rev_length. symmetry. apply inb_length; auto.
Qed.

(* --- equality tests *)
Lemma natlist_eqb_refl l : natlist_eqb l l = true.
Proof. unfold natlist_eqb. induction l; simpl; auto. rewrite Nat.eqb_refl; auto. Qed.

Lemma natlist_eqb_eq a : forall b, natlist_eqb a b = true -> a = b.
Proof.
  unfold natlist_eqb. induction a; destruct b; simpl; intros; try discriminate; auto.
  apply andb_prop in H. destruct H as [H1 H2]. apply Nat.eqb_eq in H1. f_equal; auto.
Qed.

(* --- cell-wise AND *)
Lemma map2_length {A B C} (f : A -> B -> C) l1 : forall l2, length l1 = length l2 ->
  length (map2 f l1 l2) = length l1.
Proof. induction l1; destruct l2; simpl; intros; try discriminate; auto. Qed.

Lemma nth_map2_andb l1 : forall l2 k, length l1 = length l2 ->
  nth k (map2 andb l1 l2) true = nth k l1 true && nth k l2 true.
Proof.
  induction l1; destruct l2; simpl; intros k H; try discriminate.
  - destruct k; reflexivity.
  - destruct k; auto.
Qed.

Lemma map2_andb_diag l : map2 andb l l = l.
Proof. induction l; simpl; auto. rewrite IHl. destruct a; reflexivity. Qed.
