(* C08 — the index maps send every cell of the result to a cell of the operand. *)
From DF Require Import Prelude NDArray Valid C08_arrays.
Open Scope nat_scope.

Lemma inb_nth sh : forall i ax, inb sh i = true -> ax < length sh -> nth ax i 0 < nth ax sh 0.
Proof.
  induction sh as [|k sh IH]; destruct i as [|j i]; simpl; intros ax H L; try discriminate; try lia.
  apply andb_prop in H. destruct H as [H1 H2]. apply Nat.ltb_lt in H1.
  destruct ax; auto. apply IH; auto; lia.
Qed.

(* index valid for the shape with axis ax resized: its ax-entry is below the new size, and
   replacing that entry by any x below the old size gives an index of the old shape *)
Lemma inb_set_lt sh : forall i ax m, inb (set_nth ax m sh) i = true -> ax < length sh -> nth ax i 0 < m.
Proof.
  induction sh as [|k sh IH]; intros i ax m H L; simpl in L; [lia|].
  destruct ax; destruct i as [|j i]; simpl in H; try discriminate;
    apply andb_prop in H; destruct H as [H1 H2].
  - apply Nat.ltb_lt in H1. simpl. auto.
  - simpl. apply IH; auto; lia.
Qed.

Lemma inb_set_back sh : forall i ax m x, inb (set_nth ax m sh) i = true -> ax < length sh ->
  x < nth ax sh 0 -> inb sh (set_nth ax x i) = true.
Proof.
  induction sh as [|k sh IH]; intros i ax m x H L Hx; simpl in L; [lia|].
  destruct ax; destruct i as [|j i]; simpl in H; try discriminate;
    apply andb_prop in H; destruct H as [H1 H2]; simpl in *.
  - rewrite H2. apply Nat.ltb_lt in Hx. rewrite Hx. reflexivity.
  - rewrite H1. simpl. eapply IH; eauto; lia.
Qed.

Lemma set_nth_same {A} (l : list A) : forall ax d, set_nth ax (nth ax l d) l = l.
Proof. induction l; destruct ax; simpl; intros; auto. f_equal; auto. Qed.

Lemma inb_set_keep sh i ax x : inb sh i = true -> ax < length sh -> x < nth ax sh 0 ->
  inb sh (set_nth ax x i) = true.
Proof.
  intros H L Hx. apply inb_set_back with (m := nth ax sh 0); auto.
  rewrite set_nth_same; auto.
Qed.

Lemma inb_insert sh : forall i ax k, inb (remove_nth ax sh) i = true -> ax < length sh ->
  k < nth ax sh 0 -> inb sh (insert_nth ax k i) = true.
Proof.
  induction sh as [|n sh IH]; intros i ax k H L Hk; simpl in L; [lia|].
  destruct ax; simpl in *.
  - apply Nat.ltb_lt in Hk. rewrite Hk, H. reflexivity.
  - destruct i as [|j i]; simpl in H.
    + destruct (remove_nth ax sh) eqn:R; simpl in H; discriminate.
    + apply andb_prop in H. destruct H as [H1 H2]. rewrite H1. simpl. apply IH; auto; lia.
Qed.

Lemma inb_block sh : forall sh' offs i,
  forallb (fun x => x) (map3 (fun o s n => (o + s <=? n) && (1 <=? s)) offs sh' sh) = true ->
  length offs = length sh -> length sh' = length sh ->
  inb sh' i = true -> inb sh (map2 Nat.add i offs) = true.
Proof.
  induction sh as [|n sh IH]; intros sh' offs i F L1 L2 H;
    destruct sh' as [|s sh']; destruct offs as [|o offs]; simpl in *; try discriminate; try lia.
  - destruct i; [reflexivity | discriminate].
  - destruct i as [|j i]; [discriminate|]. simpl in *.
    apply andb_prop in H. destruct H as [H1 H2]. apply Nat.ltb_lt in H1.
    apply andb_prop in F. destruct F as [F1 F2]. apply andb_prop in F1. destruct F1 as [F1 _].
    apply Nat.leb_le in F1.
    apply andb_true_intro. split; [apply Nat.ltb_lt; lia | apply (IH sh' offs i); auto; lia].
Qed.

Lemma pad_src_lt md n before j s : 1 <= n -> pad_src md n before j = Some s -> s < n.
Proof.
  intros Hn. unfold pad_src.
  destruct ((before <=? j) && (j <? before + n)) eqn:In.
  - apply andb_prop in In. destruct In as [A B]. apply Nat.leb_le in A. apply Nat.ltb_lt in B.
    intro E; inversion E; lia.
  - destruct md.
    + discriminate.
    + intro E; inversion E. destruct (j <? before); lia.
    + intro E; inversion E. apply Nat.mod_upper_bound. lia.
    + intro E; inversion E.
      destruct (_ <? n) eqn:C.
      * apply Nat.ltb_lt in C. exact C.
      * apply Nat.ltb_ge in C. change (n + (n + 0)) with (2 * n) in *.
        match goal with |- context [?a mod ?b] => pose proof (Nat.mod_upper_bound a b ltac:(lia)) end.
        lia.
    + destruct (n =? 1) eqn:N1; intro E; inversion E; [lia|].
      apply Nat.eqb_neq in N1.
      destruct (_ <? n) eqn:C.
      * apply Nat.ltb_lt in C. exact C.
      * apply Nat.ltb_ge in C. change (n + (n + 0)) with (2 * n) in *.
        match goal with |- context [?a mod ?b] => pose proof (Nat.mod_upper_bound a b ltac:(lia)) end. lia.
Qed.

Lemma inb_resample sh : forall sh' i,
  forallb (fun s => 1 <=? s) sh' = true -> forallb (fun s => 1 <=? s) sh = true ->
  length sh' = length sh -> inb sh' i = true ->
  inb sh (map3 (fun n n' j => ((2 * j + 1) * n) / (2 * n')) sh sh' i) = true.
Proof.
  induction sh as [|n sh IH]; intros sh' i F' F L H; destruct sh' as [|n' sh']; simpl in *; try discriminate.
  - destruct i; [reflexivity | discriminate].
  - destruct i as [|j i]; [discriminate|]. simpl in *.
    apply andb_prop in H. destruct H as [H1 H2]. apply Nat.ltb_lt in H1.
    apply andb_prop in F. destruct F as [Fa Fb]. apply andb_prop in F'. destruct F' as [Fa' Fb'].
    assert (1 <= n) by (destruct n; [discriminate | lia]).
    assert (1 <= n') by (destruct n'; [discriminate | lia]).
    apply andb_true_intro. split.
    + apply Nat.ltb_lt. apply Nat.div_lt_upper_bound; nia.
    + apply IH; auto.
Qed.

Lemma nth_set_nth_neq {A} (l : list A) : forall a b x d, a <> b -> nth a (set_nth b x l) d = nth a l d.
Proof.
  induction l as [|h l IH]; intros a b x d H.
  - destruct b; reflexivity.
  - destruct b; destruct a; simpl; auto; try lia.
Qed.

Lemma set_nth_length {A} (l : list A) : forall a x, length (set_nth a x l) = length l.
Proof. induction l as [|h l IH]; destruct a; simpl; intros; auto. Qed.

Lemma set_nth_comm {A} (l : list A) : forall a b x y, a <> b ->
  set_nth a x (set_nth b y l) = set_nth b y (set_nth a x l).
Proof.
  induction l as [|h l IH]; intros a b x y H; [destruct a, b; reflexivity|].
  destruct a; destruct b; simpl; auto; try (exfalso; lia). rewrite (IH a b) by lia. reflexivity.
Qed.

Lemma nth_set_nth_eq {A} (l : list A) : forall a x d, a < length l -> nth a (set_nth a x l) d = x.
Proof. induction l as [|h l IH]; destruct a; simpl; intros; auto; try lia. apply IH; lia. Qed.

(* quarter turns with swapped extents *)
Lemma swap_bounds sh i a b :
  a <> b -> a < length sh -> b < length sh ->
  inb (set_nth a (nth b sh 0) (set_nth b (nth a sh 0) sh)) i = true ->
  nth a i 0 < nth b sh 0 /\ nth b i 0 < nth a sh 0.
Proof.
  intros Hab La Lb H.
  pose proof (inb_nth _ _ a H) as Ia. pose proof (inb_nth _ _ b H) as Ib.
  rewrite !set_nth_length in Ia, Ib. specialize (Ia La). specialize (Ib Lb).
  rewrite nth_set_nth_eq in Ia by (rewrite set_nth_length; auto).
  rewrite nth_set_nth_neq in Ib by auto. rewrite nth_set_nth_eq in Ib by auto.
  auto.
Qed.

Lemma swap_back sh i a b x y :
  a <> b -> a < length sh -> b < length sh ->
  inb (set_nth a (nth b sh 0) (set_nth b (nth a sh 0) sh)) i = true ->
  x < nth a sh 0 -> y < nth b sh 0 ->
  inb sh (set_nth a x (set_nth b y i)) = true.
Proof.
  intros Hab La Lb H Hx Hy.
  assert (H1 : inb (set_nth b (nth a sh 0) sh) (set_nth a x i) = true).
  { eapply inb_set_back; eauto.
    - rewrite set_nth_length; auto.
    - rewrite nth_set_nth_neq; auto. }
  assert (H2 : inb sh (set_nth b y (set_nth a x i)) = true) by (eapply inb_set_back; eauto).
  rewrite set_nth_comm by auto. auto.
Qed.

Lemma zmod4_lt k : zmod4 k < 4.
Proof. unfold zmod4. pose proof (Z.mod_pos_bound k 4 ltac:(lia)). lia. Qed.

Theorem map_idx_in_range m sh i j :
  map_ok m sh = true -> inb (map_shape m sh) i = true -> map_idx m sh i = Some j -> inb sh j = true.
Proof.
  intros Hok Hi Hj. destruct m; simpl in *.
  - (* plane *)
    apply andb_prop in Hok. destruct Hok as [Hok _]. apply andb_prop in Hok. destruct Hok as [A B].
    apply Nat.ltb_lt in A. apply Nat.ltb_lt in B. inversion Hj; subst. apply inb_insert; auto.
  - (* range *)
    apply andb_prop in Hok. destruct Hok as [Hok C]. apply andb_prop in Hok. destruct Hok as [A B].
    apply Nat.ltb_lt in A. apply Nat.leb_le in B. apply Nat.ltb_lt in C. inversion Hj; subst.
    pose proof (inb_set_lt sh i ax _ Hi A).
    eapply inb_set_back; eauto. lia.
  - (* block *)
    apply andb_prop in Hok. destruct Hok as [Hok C]. apply andb_prop in Hok. destruct Hok as [A B].
    apply Nat.eqb_eq in A. apply Nat.eqb_eq in B. inversion Hj; subst. eapply inb_block; eauto.
  - (* pad *)
    apply andb_prop in Hok. destruct Hok as [A B]. apply Nat.ltb_lt in A.
    assert (B' : 1 <= nth ax sh 0) by (destruct (nth ax sh 0); [discriminate | lia]).
    destruct (pad_src md (nth ax sh 0) before (nth ax i 0)) eqn:P; [|discriminate].
    inversion Hj; subst. apply pad_src_lt in P; auto. eapply inb_set_back; eauto.
  - (* rot90 *)
    apply andb_prop in Hok. destruct Hok as [Hok C]. apply andb_prop in Hok. destruct Hok as [A B].
    apply Nat.ltb_lt in A. apply Nat.ltb_lt in B. apply negb_true_iff in C. apply Nat.eqb_neq in C.
    pose proof (zmod4_lt k) as Z4.
    destruct (zmod4 k) as [|[|[|z]]] eqn:Z; [| | |assert (z = 0) by lia; subst z]; simpl in Hi.
    + inversion Hj; subst; auto.
    + inversion Hj; subst.
      destruct (swap_bounds sh i a b) as [Ia Ib]; auto.
      apply swap_back; auto; lia.
    + inversion Hj; subst.
      pose proof (inb_nth _ _ a Hi A) as Ia. pose proof (inb_nth _ _ b Hi B) as Ib.
      apply inb_set_keep; auto; [|lia].
      apply inb_set_keep; auto. lia.
    + inversion Hj; subst.
      destruct (swap_bounds sh i a b) as [Ia Ib]; auto.
      apply swap_back; auto; lia.
  - (* resample *)
    apply andb_prop in Hok. destruct Hok as [Hok C]. apply andb_prop in Hok. destruct Hok as [A B].
    apply Nat.eqb_eq in A. inversion Hj; subst. apply inb_resample; auto.
  - inversion Hj; subst; auto.
  - inversion Hj; subst; auto.
Qed.

(* ------------------------------------------------------------------ padding two axes *)
Lemma nth_set_nth_neq_nat (l : list nat) a b x : a <> b -> nth a (set_nth b x l) 0 = nth a l 0.
Proof. apply nth_set_nth_neq. Qed.

(* one call with widths on two axes = pad axis b, then axis a *)
Theorem pad2_is_composition {V} md sh a ba aa b bb ab (fill : V) (src : idx -> V) i :
  a <> b ->
  gather_pad2 md sh a ba aa b bb ab fill src i =
  gather (MPad md a ba aa true) (map_shape (MPad md b bb ab true) sh) fill
         (gather (MPad md b bb ab true) sh fill src) i.
Proof.
  intro Hab. unfold gather_pad2, pad2_idx, gather. simpl.
  rewrite nth_set_nth_neq_nat by auto.
  destruct (pad_src md (nth a sh 0) ba (nth a i 0)) as [ja|]; [|reflexivity].
  rewrite nth_set_nth_neq_nat by auto.
  destruct (pad_src md (nth b sh 0) bb (nth b i 0)) as [jb|]; [|reflexivity].
  rewrite set_nth_comm by auto. reflexivity.
Qed.

(* ... and the order of the axes does not matter *)
Theorem pad_axes_commute {V} md sh a ba aa b bb ab (fill : V) (src : idx -> V) i :
  a <> b ->
  gather (MPad md a ba aa true) (map_shape (MPad md b bb ab true) sh) fill
         (gather (MPad md b bb ab true) sh fill src) i =
  gather (MPad md b bb ab true) (map_shape (MPad md a ba aa true) sh) fill
         (gather (MPad md a ba aa true) sh fill src) i.
Proof.
  intro Hab. unfold gather. simpl.
  rewrite !nth_set_nth_neq_nat by auto.
  destruct (pad_src md (nth a sh 0) ba (nth a i 0)) as [ja|] eqn:Ea;
    destruct (pad_src md (nth b sh 0) bb (nth b i 0)) as [jb|] eqn:Eb;
    rewrite ?nth_set_nth_neq_nat by auto; rewrite ?Ea, ?Eb; try reflexivity.
  rewrite set_nth_comm by auto. reflexivity.
Qed.

Lemma pad2_shape_is_composition sh a ba aa b bb ab md f1 f2 : a <> b ->
  pad2_shape sh a ba aa b bb ab = map_shape (MPad md a ba aa f1) (map_shape (MPad md b bb ab f2) sh).
Proof. intro H. unfold pad2_shape. simpl. rewrite nth_set_nth_neq_nat by auto. reflexivity. Qed.

(* ------------------------------------------------------------------ same n, different region *)
Theorem bin_geo_rejects_shifted env nd b e1 e2 v1 v2 o1 o2 :
  veval env e1 = OK v1 -> veval env e2 = OK v2 ->
  eorigin nd e1 = Some o1 -> eorigin nd e2 = Some o2 -> zlist_eqb o1 o2 = false ->
  veval_bin_geo env nd b e1 e2 = Some (Err ValueE).
Proof.
  intros E1 E2 O1 O2 H. unfold veval_bin_geo. rewrite E1, E2, O1, O2, H, andb_false_r. reflexivity.
Qed.

Theorem bin_geo_same_mesh env nd b e1 e2 v1 v2 o :
  veval env e1 = OK v1 -> veval env e2 = OK v2 ->
  eorigin nd e1 = Some o -> eorigin nd e2 = Some o -> msh v1 = msh v2 ->
  veval_bin_geo env nd b e1 e2 = Some (veval env (Bin b e1 e2)).
Proof.
  intros E1 E2 O1 O2 H. unfold veval_bin_geo. simpl. rewrite E1, E2, O1, O2, H. simpl.
  rewrite natlist_eqb_refl.
  assert (Z : zlist_eqb o o = true).
  { unfold zlist_eqb. clear. induction o; simpl; auto. rewrite Z.eqb_refl; auto. }
  rewrite Z. reflexivity.
Qed.
