(* C08 — the "norm" clause in the property's own words: a cell is valid iff the Euclidean length
   of its value exceeds the absolute threshold.  Bridge between the executable rational test
   (atol^2 < sum of squares) and sqrt over the reals; reduction of numpy's isclose(x, 0). *)
From DF Require Import Prelude Valid C08_valid.
From Coq Require Import Reals Qreals Lra.

(* --- numpy.isclose(a, 0, rtol, atol): rtol * |0| = 0, only atol matters (Prelude.isclose, over Q) *)
Lemma isclose_zero_Q (rtol atol a : Q) : isclose rtol atol a 0 = true <-> (Qabs a <= atol)%Q.
Proof.
  unfold isclose. rewrite Qle_bool_iff.
  assert (E1 : (a - 0 == a)%Q) by ring.
  assert (E2 : (atol + rtol * Qabs 0 == atol)%Q) by (simpl; ring).
  rewrite E1, E2. tauto.
Qed.

(* the same formula over the reals *)
Definition Risclose (rtol atol a b : R) : Prop := (Rabs (a - b) <= atol + rtol * Rabs b)%R.

Lemma Risclose_zero (rtol atol a : R) : Risclose rtol atol a 0 <-> (Rabs a <= atol)%R.
Proof.
  unfold Risclose. rewrite Rminus_0_r, Rabs_R0, Rmult_0_r, Rplus_0_r. tauto.
Qed.

(* --- sqrt x <= a  <->  x <= a^2 *)
Lemma sqrt_le_sq (x a : R) : (0 <= x)%R -> (0 <= a)%R -> ((sqrt x <= a)%R <-> (x <= a * a)%R).
Proof.
  intros Hx Ha. split; intro H.
  - rewrite <- (sqrt_sqrt x Hx).
    apply Rmult_le_compat; auto using sqrt_pos.
  - rewrite <- (sqrt_square a Ha). apply sqrt_le_1; auto.
    apply Rmult_le_pos; auto.
Qed.

Lemma sqrt_gt_sq (x a : R) : (0 <= x)%R -> (0 <= a)%R -> ((a < sqrt x)%R <-> (a * a < x)%R).
Proof.
  intros Hx Ha. pose proof (sqrt_le_sq x a Hx Ha) as [H1 H2]. split; intro H.
  - apply Rnot_le_lt. intro C. apply H2 in C. lra.
  - apply Rnot_le_lt. intro C. apply H1 in C. lra.
Qed.

(* --- Euclidean length of a rational vector, over the reals *)
Definition Rsumsq (v : list R) : R := fold_right (fun x acc => x * x + acc)%R 0%R v.
Definition Rlength (v : list Q) : R := sqrt (Rsumsq (map Q2R v)).

Lemma Q2R_zero : Q2R 0 = 0%R.
Proof. unfold Q2R. simpl. lra. Qed.

Lemma Q2R_sumsq v : Q2R (sumsq v) = Rsumsq (map Q2R v).
Proof.
  induction v; simpl.
  - apply Q2R_zero.
  - rewrite Q2R_plus, Q2R_mult, IHv. reflexivity.
Qed.

Lemma Rsumsq_nonneg v : (0 <= Rsumsq v)%R.
Proof.
  induction v; simpl; [lra|]. pose proof (Rle_0_sqr a) as H. unfold Rsqr in H. lra.
Qed.

(* valid="norm": the cell is valid iff its length exceeds the threshold *)
Theorem norm_valid_length (atol : Q) (v : list Q) : (0 <= atol)%Q ->
  (norm_valid_at atol v = true <-> (Q2R atol < Rlength v)%R).
Proof.
  intro Ha. rewrite norm_valid_iff. unfold Rlength.
  assert (Ha' : (0 <= Q2R atol)%R) by (rewrite <- Q2R_zero; apply Qle_Rle; auto).
  rewrite (sqrt_gt_sq _ _ (Rsumsq_nonneg _) Ha').
  rewrite <- Q2R_sumsq, <- Q2R_mult.
  split; [apply Qlt_Rlt | apply Rlt_Qlt].
Qed.

(* ... which is numpy's ~isclose(norm, 0) for every rtol *)
Theorem norm_valid_not_isclose (rtol : R) (atol : Q) (v : list Q) : (0 <= atol)%Q ->
  (norm_valid_at atol v = true <-> ~ Risclose rtol (Q2R atol) (Rlength v) 0).
Proof.
  intro Ha. rewrite (norm_valid_length atol v Ha), Risclose_zero.
  assert (P : (0 <= Rlength v)%R) by (unfold Rlength; apply sqrt_pos).
  rewrite (Rabs_pos_eq _ P). split; intro H; lra.
Qed.

Theorem norm_valid_false_length (atol : Q) (v : list Q) : (0 <= atol)%Q ->
  (norm_valid_at atol v = false <-> (Rlength v <= Q2R atol)%R).
Proof.
  intro Ha. pose proof (norm_valid_length atol v Ha) as [H1 H2].
  destruct (norm_valid_at atol v) eqn:E; split; intro H; try discriminate; auto.
  - specialize (H1 eq_refl). lra.
  - apply Rnot_lt_le. intro C. specialize (H2 C). discriminate.
Qed.
