(* C08: soundness of check_C08 -- an accepted case certifies that the OBSERVED validity mask
   (and the observed sharing flags, data source ids, VTK integers, setter outcome) is the value of
   the model function on the recorded inputs, so the C08 theorems apply to the observation itself. *)
From DF Require Import Prelude NDArray Valid ListLemmas CheckSound Check_C08
                       C08_arrays C08_valid C08_maps C08_reals.
From Coq Require Import Reals Qreals Lqa.
Open Scope nat_scope.

(* ------------------------------------------------------------------ comparison combinators *)
Lemma wfb_sound m : wfb m = true -> wf m.
Proof. unfold wfb, wf. apply Nat.eqb_eq. Qed.

Lemma forallb_wfb_sound l : forallb wfb l = true -> Forall wf l.
Proof.
  intro H. apply Forall_forall. intros x Hx. apply wfb_sound.
  rewrite forallb_forall in H. apply H. exact Hx.
Qed.

Lemma marr_eqb_sound a b : marr_eqb a b = true -> a = b.
Proof.
  unfold marr_eqb. intro H. apply andb_true_iff in H. destruct H as [H1 H2].
  apply natlist_eqb_sound in H1. apply boollist_eqb_sound in H2.
  destruct a, b; simpl in *; congruence.
Qed.

Lemma optnat_eqb_sound a b : optnat_eqb a b = true -> a = b.
Proof.
  destruct a, b; simpl; intro H; try discriminate; [|reflexivity].
  apply Nat.eqb_eq in H. congruence.
Qed.

Lemma Forall2_map_eq {A B} (f : B -> A) l1 l2 :
  Forall2 (fun o v => o = f v) l1 l2 -> l1 = map f l2.
Proof. induction 1; simpl; [reflexivity | congruence]. Qed.

(* ------------------------------------------------------------------ CExpr *)
(* the sharing flags the model predicts for a result: per operand k, "the result's mask lives in
   operand k's buffer" *)
Definition shares_want (env : list (list nat * list bool)) (e : expr) : list bool :=
  map (fun k => prov_eqb (eprov e) (PView k)) (iota 0 (length env)).

Lemma check_expr_ok_sound env e sh cells s t :
  check_C08 (CExpr env e (Some (sh, cells)) s t) = true ->
  Forall wf (mk_env env) /\
  veval (mk_env env) e = OK (mkM sh cells) /\
  s = shares_want env e /\ t = shares_want env e.
Proof.
  cbn [check_C08]. intro H. apply andb_true_iff in H. destruct H as [Hw H].
  split; [apply forallb_wfb_sound; exact Hw|].
  destruct (veval (mk_env env) e) as [v|er]; [|discriminate].
  apply andb_true_iff in H. destruct H as [H1 H].
  apply andb_true_iff in H. destruct H as [H2 H3].
  apply marr_eqb_sound in H1. subst v.
  apply boollist_eqb_sound in H2. apply boollist_eqb_sound in H3.
  unfold shares_want. auto.
Qed.

Lemma check_expr_rej_sound env e s t :
  check_C08 (CExpr env e None s t) = true ->
  Forall wf (mk_env env) /\ exists er, veval (mk_env env) e = Err er.
Proof.
  cbn [check_C08]. intro H. apply andb_true_iff in H. destruct H as [Hw H].
  split; [apply forallb_wfb_sound; exact Hw|].
  destruct (veval (mk_env env) e) as [v|er]; [discriminate|]. exists er. reflexivity.
Qed.

(* ------------------------------------------------------------------ CMapData *)
Lemma check_mapdata_sound sh m mask obs_sh obs_ids obs_mask :
  check_C08 (CMapData sh m mask obs_sh obs_ids obs_mask) = true ->
  wf (mkM sh mask) /\ map_ok m sh = true /\
  obs_sh = map_shape m sh /\
  obs_ids = to_list (map_shape m sh) (gather m sh None (fun j => Some (ravel sh j))) /\
  map_sem m (mkM sh mask) = OK (mkM obs_sh obs_mask).
Proof.
  cbn [check_C08]. intro H.
  apply andb_true_iff in H. destruct H as [H H5].
  apply andb_true_iff in H. destruct H as [H H4].
  apply andb_true_iff in H. destruct H as [H H3].
  apply andb_true_iff in H. destruct H as [H1 H2].
  split; [apply wfb_sound; exact H1|]. split; [exact H2|].
  split; [symmetry; apply natlist_eqb_sound; exact H3|].
  split.
  - symmetry. apply Forall2_eq_gen. revert H4. apply forallb2_Forall2_gen. exact optnat_eqb_sound.
  - destruct (map_sem m (mkM sh mask)) as [r|er]; [|discriminate].
    apply marr_eqb_sound in H5. congruence.
Qed.

(* ------------------------------------------------------------------ CSetter *)
Lemma check_setter_ok_sound n v sh cells ib vs own :
  check_C08 (CSetter n v (Some (sh, cells)) ib vs own) = true ->
  set_valid n 1 [] v = OK (mkM sh cells) /\ ib = true /\ vs = true /\ own = true.
Proof.
  cbn [check_C08]. intro H.
  destruct (set_valid n 1 [] v) as [r|er]; [|discriminate].
  apply andb_true_iff in H. destruct H as [H H4].
  apply andb_true_iff in H. destruct H as [H H3].
  apply andb_true_iff in H. destruct H as [H1 H2].
  apply marr_eqb_sound in H1. subst r. auto.
Qed.

Lemma check_setter_rej_sound n v ib vs own :
  check_C08 (CSetter n v None ib vs own) = true ->
  (exists er, set_valid n 1 [] v = Err er) /\ vs = true.
Proof.
  cbn [check_C08]. intro H.
  destruct (set_valid n 1 [] v) as [r|er]; [discriminate|].
  split; [exists er; reflexivity | exact H].
Qed.

(* ------------------------------------------------------------------ CNorm *)
Lemma check_norm_exact_sound n nvdim vals obs :
  check_C08 (CNorm true n nvdim vals obs) = true ->
  length vals = nprod n * nvdim /\ length obs = nprod n /\
  obs = map (norm_valid_at norm_atol_f64) (chunks nvdim (nprod n) vals).
Proof.
  cbn [check_C08]. intro H.
  apply andb_true_iff in H. destruct H as [H H3].
  apply andb_true_iff in H. destruct H as [H1 H2].
  split; [apply Nat.eqb_eq; exact H1|]. split; [apply Nat.eqb_eq; exact H2|].
  apply Forall2_map_eq. revert H3. apply forallb2_Forall2_gen.
  intros o v. unfold norm_ok. apply Bool.eqb_prop.
Qed.

Definition band_hi : Q := (norm_atol * (1 + band))%Q.
Definition band_lo : Q := (norm_atol * (1 - band))%Q.

Lemma norm_ok_band_sound o v :
  norm_ok false o v = true ->
  ((band_hi * band_hi < sumsq v)%Q -> o = true) /\
  ((sumsq v < band_lo * band_lo)%Q -> o = false).
Proof.
  unfold norm_ok. fold band_hi band_lo. intro H.
  assert (LH : (band_lo * band_lo < band_hi * band_hi)%Q) by reflexivity.
  destruct (Qltb (band_hi * band_hi) (sumsq v)) eqn:E1.
  - split; [intros _; exact H|].
    intro C. exfalso. unfold Qltb in E1. apply negb_true_iff in E1.
    assert (C2 : (sumsq v <= band_hi * band_hi)%Q) by lra.
    apply Qle_bool_iff in C2. congruence.
  - split.
    + intro C. exfalso. unfold Qltb in E1. apply negb_false_iff in E1.
      apply Qle_bool_iff in E1. lra.
    + intro C. destruct (Qltb (sumsq v) (band_lo * band_lo)) eqn:E2.
      * apply negb_true_iff in H. exact H.
      * exfalso. unfold Qltb in E2. apply negb_false_iff in E2. apply Qle_bool_iff in E2. lra.
Qed.

Lemma check_norm_band_sound n nvdim vals obs :
  check_C08 (CNorm false n nvdim vals obs) = true ->
  length vals = nprod n * nvdim /\ length obs = nprod n /\
  forall k, k < nprod n ->
    let v := nth k (chunks nvdim (nprod n) vals) [] in
    ((band_hi * band_hi < sumsq v)%Q -> nth k obs true = true) /\
    ((sumsq v < band_lo * band_lo)%Q -> nth k obs true = false).
Proof.
  cbn [check_C08]. intro H.
  apply andb_true_iff in H. destruct H as [H H3].
  apply andb_true_iff in H. destruct H as [H1 H2].
  apply Nat.eqb_eq in H1. apply Nat.eqb_eq in H2.
  split; [exact H1|]. split; [exact H2|].
  intros k Hk. try (intro v; unfold v).
  apply (Forall2_nth_gen (fun o w =>
           ((band_hi * band_hi < sumsq w)%Q -> o = true) /\
           ((sumsq w < band_lo * band_lo)%Q -> o = false))
         obs (chunks nvdim (nprod n) vals) true []); [|lia].
  revert H3. apply forallb2_Forall2_gen. exact norm_ok_band_sound.
Qed.

(* ------------------------------------------------------------------ CVtkEnc *)
Lemma check_vtk_sound sh mask obs_ints :
  check_C08 (CVtkEnc sh mask obs_ints) = true ->
  wf (mkM sh mask) /\ obs_ints = vtk_encode (mkM sh mask).
Proof.
  cbn [check_C08]. intro H. apply andb_true_iff in H. destruct H as [H1 H2].
  split; [apply wfb_sound; exact H1 | symmetry; apply zlist_eqb_sound_gen; exact H2].
Qed.

(* ------------------------------------------------------------------ CBinGeo *)
Lemma check_bingeo_ok_sound env nd b e1 e2 sh cells :
  check_C08 (CBinGeo env nd b e1 e2 (Some (sh, cells))) = true ->
  Forall wf (mk_env env) /\
  veval_bin_geo (mk_env env) nd b e1 e2 = Some (OK (mkM sh cells)).
Proof.
  cbn [check_C08]. intro H. apply andb_true_iff in H. destruct H as [Hw H].
  split; [apply forallb_wfb_sound; exact Hw|].
  destruct (veval_bin_geo (mk_env env) nd b e1 e2) as [[v|er]|]; try discriminate.
  apply marr_eqb_sound in H. congruence.
Qed.

Lemma check_bingeo_rej_sound env nd b e1 e2 :
  check_C08 (CBinGeo env nd b e1 e2 None) = true ->
  Forall wf (mk_env env) /\
  exists er, veval_bin_geo (mk_env env) nd b e1 e2 = Some (Err er).
Proof.
  cbn [check_C08]. intro H. apply andb_true_iff in H. destruct H as [Hw H].
  split; [apply forallb_wfb_sound; exact Hw|].
  destruct (veval_bin_geo (mk_env env) nd b e1 e2) as [[v|er]|]; try discriminate.
  exists er. reflexivity.
Qed.

(* ------------------------------------------------------------------ CBoth *)
Lemma check_both_sound c1 c2 :
  check_C08 (CBoth c1 c2) = true -> check_C08 c1 = true /\ check_C08 c2 = true.
Proof. cbn [check_C08]. apply andb_true_iff. Qed.

(* ================================================================== transfer theorems *)

(* the observed mask of any accepted operation chain IS the plain reading of the property
   (operand masks, cell-wise AND, gathers), is well-formed and has the predicted shape *)
Theorem accepted_expr_is_sem env e sh cells s t :
  check_C08 (CExpr env e (Some (sh, cells)) s t) = true ->
  mkM sh cells = sem (mk_env env) e /\
  length cells = nprod sh /\
  eshape (map msh (mk_env env)) e = Some sh.
Proof.
  intro H. apply check_expr_ok_sound in H. destruct H as (Hw & Ev & _ & _).
  destruct (veval_sem _ _ Hw _ Ev) as [S W].
  split; [exact S|]. split; [exact W|].
  exact (veval_shape _ _ Hw _ Ev).
Qed.

Lemma mk_env_same_shape env sh0 :
  Forall wf (mk_env env) -> (forall p, In p env -> fst p = sh0) -> same_shape (mk_env env) sh0.
Proof.
  intros Hw Hs. unfold same_shape. apply Forall_forall. intros m Hm.
  split; [rewrite Forall_forall in Hw; apply Hw; exact Hm|].
  unfold mk_env in Hm. apply in_map_iff in Hm. destruct Hm as [p [Ep Hp]]. subst m. simpl.
  apply Hs. exact Hp.
Qed.

(* operands on one mesh, unary and binary operations only: every OBSERVED result cell is the AND
   of the operands' cells over the expression's field leaves *)
Theorem accepted_expr_and_over_leaves env e sh cells s t sh0 i :
  check_C08 (CExpr env e (Some (sh, cells)) s t) = true ->
  (forall p, In p env -> fst p = sh0) -> map_free e = true ->
  (forall k, In k (leaves e) -> k < length env) ->
  mget (mkM sh cells) i =
  forallb (fun k => mget (nth k (mk_env env) (mkM [] [])) i) (leaves e).
Proof.
  intros H Hs Hf Hl.
  pose proof (check_expr_ok_sound _ _ _ _ _ _ H) as (Hw & _ & _ & _).
  destruct (accepted_expr_is_sem _ _ _ _ _ _ H) as (-> & _ & _).
  apply (sem_and_over_leaves (mk_env env) sh0 e i).
  - apply mk_env_same_shape; assumption.
  - exact Hf.
  - intros k Hk. unfold mk_env. rewrite map_length. apply Hl. exact Hk.
Qed.

(* an OBSERVED np.shares_memory(result.valid, operand_k.valid) = True is only accepted when the
   expression is operand k itself behind unary pluses; same for the in-place write probe *)
Theorem accepted_expr_own env e sh cells s t k :
  check_C08 (CExpr env e (Some (sh, cells)) s t) = true -> k < length env ->
  (nth k s false = true \/ nth k t false = true) -> strip_pos e = Leaf k.
Proof.
  intros H Hk Hn. apply check_expr_ok_sound in H. destruct H as (_ & _ & -> & ->).
  assert (P : prov_eqb (eprov e) (PView k) = true).
  { unfold shares_want in Hn.
    rewrite (ListLemmas.nth_map_iota (fun k => prov_eqb (eprov e) (PView k)) (length env) k false Hk) in Hn.
    tauto. }
  destruct (eprov_own e) as [F | [k' [S V]]].
  - rewrite F in P. discriminate.
  - rewrite V in P. simpl in P. apply Nat.eqb_eq in P. subst k'. exact S.
Qed.

(* an expression that is not an operand behind unary pluses: every observed flag is False *)
Theorem accepted_expr_fresh env e sh cells s t :
  check_C08 (CExpr env e (Some (sh, cells)) s t) = true ->
  is_leaf (strip_pos e) = false ->
  s = repeat false (length env) /\ t = repeat false (length env).
Proof.
  intros H Hl. apply check_expr_ok_sound in H. destruct H as (_ & _ & -> & ->).
  assert (E : shares_want env e = repeat false (length env)).
  { unfold shares_want. rewrite (eprov_fresh e Hl). simpl.
    generalize 0. induction (length env) as [|n IH]; intro a; simpl; [reflexivity|].
    rewrite IH. reflexivity. }
  rewrite E. auto.
Qed.

(* --- mapping operations: observed data source ids and observed mask *)
Lemma mapdata_cells sh m mask obs_sh obs_ids obs_mask :
  check_C08 (CMapData sh m mask obs_sh obs_ids obs_mask) = true ->
  obs_sh = map_shape m sh /\
  mkM obs_sh obs_mask = sem_map m (mkM sh mask).
Proof.
  intro H. apply check_mapdata_sound in H. destruct H as (W & Hok & Hsh & _ & Hs).
  split; [exact Hsh|].
  rewrite (map_sem_ok m (mkM sh mask) W Hok) in Hs. congruence.
Qed.

(* the observed mask at result cell i reads the operand's mask at the cell the index map sends it to,
   and that cell lies inside the operand's mesh *)
Theorem accepted_mapped sh m mask obs_sh obs_ids obs_mask i :
  check_C08 (CMapData sh m mask obs_sh obs_ids obs_mask) = true ->
  inb obs_sh i = true ->
  nth (ravel obs_sh i) obs_mask true =
  match map_idx m sh i with
  | Some j => nth (ravel sh j) mask true
  | None => map_fill m
  end /\
  forall j, map_idx m sh i = Some j -> inb sh j = true.
Proof.
  intros H Hi.
  pose proof (check_mapdata_sound _ _ _ _ _ _ H) as (_ & Hok & Hsh & _ & _).
  destruct (mapdata_cells _ _ _ _ _ _ H) as [_ E].
  split.
  - change (nth (ravel obs_sh i) obs_mask true) with (mget (mkM obs_sh obs_mask) i).
    rewrite E. unfold sem_map. simpl msh.
    rewrite mget_mtab by (rewrite <- Hsh; exact Hi).
    unfold gather. destruct (map_idx m sh i); reflexivity.
  - intros j Hj. apply (map_idx_in_range m sh i j Hok); [rewrite <- Hsh; exact Hi | exact Hj].
Qed.

(* validity follows the DATA: wherever the observed value at result cell i was taken from source
   cell number c of the operand, the observed validity there is the operand's validity at c; where
   the data is a padding constant, the validity is the fill value *)
Theorem accepted_mask_follows_data sh m mask obs_sh obs_ids obs_mask i :
  check_C08 (CMapData sh m mask obs_sh obs_ids obs_mask) = true ->
  inb obs_sh i = true ->
  nth (ravel obs_sh i) obs_mask true =
  match nth (ravel obs_sh i) obs_ids None with
  | Some c => nth c mask true
  | None => map_fill m
  end.
Proof.
  intros H Hi.
  destruct (accepted_mapped _ _ _ _ _ _ i H Hi) as [E _]. rewrite E.
  apply check_mapdata_sound in H. destruct H as (_ & _ & Hsh & -> & _).
  rewrite Hsh. rewrite nth_to_list by (rewrite <- Hsh; exact Hi).
  unfold gather. destruct (map_idx m sh i); reflexivity.
Qed.

(* --- VTK: decoding the OBSERVED integers gives back the mask that was written *)
Theorem accepted_vtk_roundtrip sh mask obs_ints :
  check_C08 (CVtkEnc sh mask obs_ints) = true ->
  vtk_decode sh obs_ints = OK (mkM sh mask).
Proof.
  intro H. apply check_vtk_sound in H. destruct H as [W ->].
  exact (eq_trans (vtk_roundtrip (mkM sh mask) W) (f_equal OK (mtab_self (mkM sh mask) W))).
Qed.

(* --- the setter: an observed stored mask has the mesh shape, one cell per mesh cell, Boolean dtype,
       its own memory, and the field's values were left alone *)
Theorem accepted_setter_shape n v sh cells ib vs own :
  check_C08 (CSetter n v (Some (sh, cells)) ib vs own) = true ->
  sh = n /\ length cells = nprod n /\ ib = true /\ vs = true /\ own = true.
Proof.
  intro H. apply check_setter_ok_sound in H. destruct H as (E & -> & -> & ->).
  destruct (set_valid_shape _ _ _ _ _ E) as [S W]. simpl in S. subst sh.
  unfold wf in W. simpl in W. auto.
Qed.

(* observed Boolean array of the mesh shape passed to the setter: stored as it is *)
Theorem accepted_setter_bool_array n cells sh obs ib vs own :
  check_C08 (CSetter n (VArray n (map SB cells)) (Some (sh, obs)) ib vs own) = true ->
  length cells = nprod n -> sh = n /\ obs = cells.
Proof.
  intros H L. apply check_setter_ok_sound in H. destruct H as (E & _).
  rewrite (set_valid_bool_array n 1 [] cells L) in E. inversion E. auto.
Qed.

(* --- valid="norm", exact regime: an observed cell is valid iff the Euclidean length of its value
       exceeds the binary64 threshold *)
Lemma norm_atol_f64_nonneg : (0 <= norm_atol_f64)%Q.
Proof. unfold Qle. simpl. lia. Qed.

Theorem accepted_norm_exact n nvdim vals obs k :
  check_C08 (CNorm true n nvdim vals obs) = true -> k < nprod n ->
  (nth k obs true = true <->
   (Q2R norm_atol_f64 < Rlength (nth k (chunks nvdim (nprod n) vals) []))%R).
Proof.
  intros H Hk. apply check_norm_exact_sound in H. destruct H as (_ & _ & ->).
  rewrite (nth_indep _ true (norm_valid_at norm_atol_f64 []))
    by (rewrite map_length, chunks_length; exact Hk).
  rewrite (map_nth (norm_valid_at norm_atol_f64)).
  apply norm_valid_length. exact norm_atol_f64_nonneg.
Qed.

(* --- valid="norm", tolerance regime: outside the relative band 1e-9 around the threshold the
       observed cell is the model setter's cell *)
Theorem accepted_norm_band n nvdim vals obs k m :
  check_C08 (CNorm false n nvdim vals obs) = true -> k < nprod n ->
  set_valid n nvdim vals VNorm = OK m ->
  let v := nth k (chunks nvdim (nprod n) vals) [] in
  ((band_hi * band_hi < sumsq v)%Q \/ (sumsq v < band_lo * band_lo)%Q) ->
  nth k obs true = nth k (mcells m) true.
Proof.
  intros H Hk Em v Hb.
  apply check_norm_band_sound in H. destruct H as (_ & _ & Hn).
  destruct (Hn k Hk) as [Hhi Hlo]. fold v in Hhi, Hlo.
  rewrite (set_valid_norm n nvdim vals k Hk m Em). fold v.
  assert (A1 : (norm_atol * norm_atol < band_hi * band_hi)%Q) by reflexivity.
  assert (A2 : (band_lo * band_lo < norm_atol * norm_atol)%Q) by reflexivity.
  destruct Hb as [C|C].
  - rewrite (Hhi C). symmetry. apply norm_valid_iff. lra.
  - rewrite (Hlo C). symmetry. unfold norm_valid.
    destruct (norm_valid_at norm_atol v) eqn:E; [|reflexivity].
    apply norm_valid_iff in E. lra.
Qed.

(* --- binary operation between derived fields of one mesh: an observed result means the two sides
       sit at the same position and the observed mask is the cell-wise AND of the two sides *)
Theorem accepted_bingeo env nd b e1 e2 sh cells :
  check_C08 (CBinGeo env nd b e1 e2 (Some (sh, cells))) = true ->
  mkM sh cells = and_cells (sem (mk_env env) e1) (sem (mk_env env) e2) /\
  msh (sem (mk_env env) e1) = msh (sem (mk_env env) e2) /\
  exists o, eorigin nd e1 = Some o /\ eorigin nd e2 = Some o.
Proof.
  intro H. apply check_bingeo_ok_sound in H. destruct H as [Hw E].
  unfold veval_bin_geo in E.
  destruct (veval (mk_env env) e1) as [v1|] eqn:E1; [|discriminate].
  destruct (veval (mk_env env) e2) as [v2|] eqn:E2; [|discriminate].
  destruct (eorigin nd e1) as [o1|]; [|discriminate].
  destruct (eorigin nd e2) as [o2|]; [|discriminate].
  destruct (natlist_eqb (msh v1) (msh v2) && zlist_eqb o1 o2) eqn:C; [|discriminate].
  apply andb_true_iff in C. destruct C as [C1 C2].
  apply natlist_eqb_sound in C1. apply zlist_eqb_sound_gen in C2. subst o2.
  destruct (veval_sem _ _ Hw _ E1) as [S1 W1]. destruct (veval_sem _ _ Hw _ E2) as [S2 W2].
  rewrite (bin_sem_ok b v1 v2 W1 W2 C1) in E. inversion E as [E']. subst v1 v2.
  split; [reflexivity|]. split; [exact C1|]. exists o1. auto.
Qed.

(* an observed rejection between two sides that both evaluate: the shapes differ or the positions
   differ -- the implementation did not reject a pair the property lets through *)
Theorem accepted_bingeo_rejection env nd b e1 e2 :
  check_C08 (CBinGeo env nd b e1 e2 None) = true ->
  exists v1 v2 o1 o2,
    veval (mk_env env) e1 = OK v1 /\ veval (mk_env env) e2 = OK v2 /\
    eorigin nd e1 = Some o1 /\ eorigin nd e2 = Some o2 /\
    (msh v1 <> msh v2 \/ o1 <> o2).
Proof.
  intro H. apply check_bingeo_rej_sound in H. destruct H as [Hw [er E]].
  unfold veval_bin_geo in E.
  destruct (veval (mk_env env) e1) as [v1|] eqn:E1; [|discriminate].
  destruct (veval (mk_env env) e2) as [v2|] eqn:E2; [|discriminate].
  destruct (eorigin nd e1) as [o1|]; [|discriminate].
  destruct (eorigin nd e2) as [o2|]; [|discriminate].
  exists v1, v2, o1, o2. repeat (split; [reflexivity|]).
  destruct (veval_sem _ _ Hw _ E1) as [_ W1]. destruct (veval_sem _ _ Hw _ E2) as [_ W2].
  destruct (natlist_eqb (msh v1) (msh v2)) eqn:C1.
  - apply natlist_eqb_sound in C1.
    destruct (zlist_eqb o1 o2) eqn:C2.
    + simpl in E. rewrite (bin_sem_ok b v1 v2 W1 W2 C1) in E. discriminate.
    + right. intro Eo. subst o2.
      assert (R : zlist_eqb o1 o1 = true).
      { clear. induction o1 as [|z o IH]; [reflexivity|]. unfold zlist_eqb in *. simpl.
        rewrite Z.eqb_refl. exact IH. }
      congruence.
  - left. intro Es. rewrite Es, natlist_eqb_refl in C1. discriminate.
Qed.

(* ================================================================== non-vacuity *)
Example accepted_expr_instance :
  check_C08 (CExpr [([3], [true; true; false]); ([3], [false; true; true])]
                   (Bin BCross (Un UNeg (Leaf 0)) (Pos (Leaf 1)))
                   (Some ([3], [false; true; false])) [false; false] [false; false]) = true.
Proof. vm_compute. reflexivity. Qed.

Example accepted_mapdata_instance :
  check_C08 (CMapData [3] (MPad PConstant 0 1 0 false) [true; false; true]
                      [4] [None; Some 0; Some 1; Some 2] [false; true; false; true]) = true.
Proof. vm_compute. reflexivity. Qed.

Example accepted_vtk_instance :
  check_C08 (CVtkEnc [2; 1; 1] [true; false] [1%Z; 0%Z]) = true.
Proof. vm_compute. reflexivity. Qed.

Example accepted_norm_instance :
  check_C08 (CNorm true [2] 2 [(3 # 1)%Q; (4 # 1)%Q; 0%Q; 0%Q] [true; false]) = true /\
  check_C08 (CNorm false [2] 2 [(3 # 1)%Q; (4 # 1)%Q; 0%Q; 0%Q] [true; false]) = true.
Proof. split; vm_compute; reflexivity. Qed.

Example accepted_setter_instance :
  check_C08 (CSetter [2] (VArray [2] [SB true; SB false]) (Some ([2], [true; false])) true true true) = true.
Proof. vm_compute. reflexivity. Qed.

Example accepted_bingeo_instance :
  check_C08 (CBinGeo [([2], [true; false]); ([2], [true; true])] 1 BAdd (Leaf 0)
               (Map (MRange 0 1 2) (Map (MPad PEdge 0 0 1 false) (Leaf 1))) None) = true /\
  check_C08 (CBinGeo [([2], [true; false]); ([2], [true; true])] 1 BAdd (Leaf 0)
               (Map (MRange 0 1 2) (Map (MPad PEdge 0 1 0 false) (Leaf 1))) (Some ([2], [true; false]))) = true.
Proof. split; vm_compute; reflexivity. Qed.
