(* C08 — the setter is the identity on every mask an operation hands over; unary = pass-through,
   binary = cell-wise AND, mapping = gather; expressions by induction; provenance. *)
From DF Require Import Prelude NDArray Valid C08_arrays.
Open Scope nat_scope.

(* ------------------------------------------------------------------ constructor / setter *)
Lemma map_truthy_SB l : map truthy (map SB l) = l.
Proof. induction l; simpl; auto. rewrite IHl; auto. Qed.

Lemma ctor_ok m : wf m -> ctor (msh m) m = OK m.
Proof.
  intro H. unfold ctor, set_valid. rewrite map_length.
  unfold wf in H. rewrite H, Nat.eqb_refl. simpl.
  rewrite natlist_eqb_refl, map_truthy_SB. destruct m; reflexivity.
Qed.

Lemma pass_ok v : wf v -> pass v = OK v.
Proof. apply ctor_ok. Qed.

Lemma wf_and_cells a b : wf a -> wf b -> msh a = msh b -> wf (and_cells a b).
Proof.
  unfold wf, and_cells; simpl; intros Ha Hb E. rewrite map2_length; auto. rewrite Ha, Hb, E; auto.
Qed.

Lemma bin_sem_ok b v1 v2 : wf v1 -> wf v2 -> msh v1 = msh v2 -> bin_sem b v1 v2 = OK (and_cells v1 v2).
Proof.
  intros H1 H2 E. unfold bin_sem.
  replace (natlist_eqb (msh v1) (msh v2)) with true by (rewrite E; symmetry; apply natlist_eqb_refl).
  apply (ctor_ok (and_cells v1 v2)). apply wf_and_cells; auto.
Qed.

Lemma bin_sem_inv b v1 v2 r : bin_sem b v1 v2 = OK r -> msh v1 = msh v2.
Proof.
  unfold bin_sem. destruct (natlist_eqb (msh v1) (msh v2)) eqn:E; [|discriminate].
  intros _. apply natlist_eqb_eq; auto.
Qed.

Lemma bin_sem_rejects b v1 v2 : msh v1 <> msh v2 -> bin_sem b v1 v2 = Err ValueE.
Proof.
  intro H. unfold bin_sem. destruct (natlist_eqb (msh v1) (msh v2)) eqn:E; auto.
  apply natlist_eqb_eq in E. contradiction.
Qed.

Lemma and_cells_diag v : and_cells v v = v.
Proof. unfold and_cells. rewrite map2_andb_diag. destruct v; reflexivity. Qed.

Lemma bin_sem_diag b v : wf v -> bin_sem b v v = OK v.
Proof. intro H. rewrite bin_sem_ok; auto. rewrite and_cells_diag; auto. Qed.

Lemma fold_bin_diag b v k : wf v -> fold_bin b v (repeat v k) = OK v.
Proof. intro H. induction k; simpl; auto. rewrite bin_sem_diag; auto. Qed.

Definition unop_ok (u : unop) : Prop := match u with UGrad O => False | _ => True end.

(* every unary operation, including the composed ones (grad, div, curl, laplace), returns the
   operand's mask *)
Lemma un_sem_ok u v : wf v -> unop_ok u -> un_sem u v = OK v.
Proof.
  intros H Hu. destruct u; simpl; try (apply pass_ok; auto).
  - rewrite pass_ok by auto. simpl. destruct nd; [contradiction|]. apply fold_bin_diag; auto.
  - rewrite !pass_ok by auto. simpl. rewrite !pass_ok by auto. simpl. rewrite pass_ok by auto. simpl.
    apply fold_bin_diag; auto.
  - rewrite !pass_ok by auto. simpl. rewrite !pass_ok by auto. simpl. rewrite bin_sem_diag by auto. simpl.
    rewrite !bin_sem_diag by auto. simpl. rewrite bin_sem_diag by auto. reflexivity.
  - assert (E : (if nv =? 1 then OK v else pass v) = OK v) by (destruct (nv =? 1); auto using pass_ok).
    rewrite E. simpl. rewrite pass_ok by auto. simpl. rewrite pass_ok by auto. simpl.
    rewrite fold_bin_diag by auto. simpl. apply fold_bin_diag; auto.
Qed.

Lemma un_sem_inv u v r : wf v -> un_sem u v = OK r -> r = v.
Proof.
  intros H E. destruct u; try (rewrite un_sem_ok in E by (simpl; auto); congruence).
  destruct nd.
  - simpl in E. rewrite pass_ok in E by auto. simpl in E. discriminate.
  - rewrite un_sem_ok in E by (simpl; auto). congruence.
Qed.

(* --- mapping operations *)
Definition sem_map (m : mapop) (v : marr) : marr :=
  mtab (map_shape m (msh v)) (gather m (msh v) (map_fill m) (mget v)).

Lemma to_list_ext {V} sh (f g : idx -> V) :
  (forall i, inb sh i = true -> f i = g i) -> to_list sh f = to_list sh g.
Proof.
  intro H. apply nth_ext with (d := f []) (d' := g []).
  - rewrite !to_list_length; auto.
  - intros k Hk. rewrite to_list_length in Hk. unfold to_list.
    rewrite !map_nth.
    assert (Hin : inb sh (nth k (indices sh) []) = true).
    { clear -Hk. revert k Hk. induction sh as [|n sh IH]; simpl; intros k Hk.
      - destruct k; [reflexivity|]. destruct k; reflexivity.
      - (* k = q * nprod sh + r *)
        assert (P : 0 < nprod sh) by (destruct (nprod sh); lia).
        pose (q := k / nprod sh). pose (r := k mod nprod sh).
        assert (Hk' : k = q * nprod sh + r) by (unfold q, r; rewrite Nat.mul_comm; apply Nat.div_mod; lia).
        assert (Hr : r < nprod sh) by (apply Nat.mod_upper_bound; lia).
        assert (Hq : q < n) by (apply Nat.div_lt_upper_bound; lia).
        rewrite Hk'.
        rewrite (nth_flat_map_const _ (nprod sh) [] 0).
        + rewrite nth_iota by lia. simpl.
          rewrite (nth_indep _ [] (q :: [])) by (rewrite map_length, indices_length; auto).
          rewrite (map_nth (cons q)). simpl.
          apply andb_true_intro. split; [apply Nat.ltb_lt; auto | apply IH; auto].
        + intro a. rewrite map_length. apply indices_length.
        + auto.
        + rewrite iota_length; auto. }
    apply H; auto.
Qed.

Lemma vtk_roundtrip v : wf v -> vtk_decode (msh v) (vtk_encode v) = OK (mtab (msh v) (mget v)).
Proof.
  intro H. unfold vtk_decode, set_valid.
  rewrite to_list_length, Nat.eqb_refl. simpl. rewrite natlist_eqb_refl.
  unfold mtab. f_equal. f_equal. unfold to_list at 1. rewrite map_map.
  apply to_list_ext. intros i Hi. simpl.
  unfold vtk_encode, rev3.
  rewrite (nth_to_list (rev (msh v))) by (apply inb_rev; auto).
  rewrite rev_involutive. destruct (mget v i); reflexivity.
Qed.

Lemma mtab_self v : wf v -> mtab (msh v) (mget v) = v.
Proof.
  intro H. unfold mtab, mget. destruct v as [sh cells]; simpl in *. f_equal.
  unfold wf in H; simpl in H.
  apply nth_ext with (d := true) (d' := true).
  - rewrite to_list_length; auto.
  - intros k Hk. rewrite to_list_length in Hk. unfold to_list.
    rewrite (nth_indep _ true (nth (ravel sh []) cells true)) by (rewrite map_length, indices_length; auto).
    rewrite (map_nth (fun i => nth (ravel sh i) cells true)).
    f_equal.
    (* ravel of the k-th index is k *)
    clear -Hk. revert k Hk. induction sh as [|n sh IH]; simpl; intros k Hk.
    + destruct k; [reflexivity | lia].
    + assert (P : 0 < nprod sh) by (destruct (nprod sh); lia).
      pose (q := k / nprod sh). pose (r := k mod nprod sh).
      assert (Hk' : k = q * nprod sh + r) by (unfold q, r; rewrite Nat.mul_comm; apply Nat.div_mod; lia).
      assert (Hr : r < nprod sh) by (apply Nat.mod_upper_bound; lia).
      assert (Hq : q < n) by (apply Nat.div_lt_upper_bound; lia).
      rewrite Hk' at 1.
      rewrite (nth_flat_map_const _ (nprod sh) [] 0).
      * rewrite nth_iota by lia. simpl.
        rewrite (nth_indep _ [] (q :: [])) by (rewrite map_length, indices_length; auto).
        rewrite (map_nth (cons q)). simpl. rewrite IH by auto. lia.
      * intro a. rewrite map_length. apply indices_length.
      * auto.
      * rewrite iota_length; auto.
Qed.

Lemma map_sem_ok m v : wf v -> map_ok m (msh v) = true -> map_sem m v = OK (sem_map m v).
Proof.
  intros H Hok. unfold map_sem. rewrite Hok. simpl.
  assert (G : ctor (map_shape m (msh v)) (sem_map m v) = OK (sem_map m v)).
  { change (map_shape m (msh v)) with (msh (sem_map m v)). apply ctor_ok. apply wf_mtab. }
  destruct m; try exact G.
  rewrite vtk_roundtrip by auto. unfold sem_map. simpl. unfold gather. simpl. reflexivity.
Qed.

Lemma map_sem_inv m v r : map_sem m v = OK r -> map_ok m (msh v) = true.
Proof. unfold map_sem. destruct (map_ok m (msh v)); simpl; auto; discriminate. Qed.

Lemma map_sem_rejects m v : map_ok m (msh v) = false -> map_sem m v = Err ValueE.
Proof. intro H. unfold map_sem. rewrite H. reflexivity. Qed.

(* ------------------------------------------------------------------ expressions, by induction *)
Theorem veval_sem env e : Forall wf env -> forall v, veval env e = OK v -> v = sem env e /\ wf v.
Proof.
  intro Henv. induction e; simpl; intros v E.
  - destruct (nth_error env k) eqn:N; [|discriminate]. inversion E; subst.
    split; [symmetry; apply nth_error_nth; auto|].
    rewrite Forall_forall in Henv. apply Henv. eapply nth_error_In; eauto.
  - auto.
  - destruct (veval env e) as [v0|] eqn:E0; simpl in E; [|discriminate].
    destruct (IHe _ eq_refl) as [S W]. apply un_sem_inv in E; auto. subst v. auto.
  - destruct (veval env e1) as [v1|] eqn:E1; simpl in E; [|discriminate].
    destruct (veval env e2) as [v2|] eqn:E2; simpl in E; [|discriminate].
    destruct (IHe1 _ eq_refl) as [S1 W1]. destruct (IHe2 _ eq_refl) as [S2 W2].
    pose proof (bin_sem_inv _ _ _ _ E) as Hsh.
    rewrite bin_sem_ok in E by auto. inversion E; subst.
    split; [reflexivity | apply wf_and_cells; auto].
  - destruct (veval env e) as [v0|] eqn:E0; simpl in E; [|discriminate].
    destruct (IHe _ eq_refl) as [S W].
    pose proof (map_sem_inv _ _ _ E) as Hok.
    rewrite map_sem_ok in E by auto. inversion E; subst.
    split; [reflexivity | apply wf_mtab].
Qed.

Theorem veval_shape env e : Forall wf env -> forall v, veval env e = OK v ->
  eshape (map msh env) e = Some (msh v).
Proof.
  intro Henv. induction e; simpl; intros v E.
  - destruct (nth_error env k) eqn:N; [|discriminate]. inversion E; subst.
    apply map_nth_error; auto.
  - auto.
  - destruct (veval env e) as [v0|] eqn:E0; simpl in E; [|discriminate].
    destruct (veval_sem env e Henv _ E0) as [_ W]. apply un_sem_inv in E; auto. subst; auto.
  - destruct (veval env e1) as [v1|] eqn:E1; simpl in E; [|discriminate].
    destruct (veval env e2) as [v2|] eqn:E2; simpl in E; [|discriminate].
    destruct (veval_sem env e1 Henv _ E1) as [_ W1]. destruct (veval_sem env e2 Henv _ E2) as [_ W2].
    pose proof (bin_sem_inv _ _ _ _ E) as Hsh.
    rewrite bin_sem_ok in E by auto. inversion E; subst.
    rewrite (IHe1 _ eq_refl), (IHe2 _ eq_refl), Hsh, natlist_eqb_refl. simpl. congruence.
  - destruct (veval env e) as [v0|] eqn:E0; simpl in E; [|discriminate].
    destruct (veval_sem env e Henv _ E0) as [_ W].
    pose proof (map_sem_inv _ _ _ E) as Hok.
    rewrite map_sem_ok in E by auto. inversion E; subst.
    rewrite (IHe _ eq_refl), Hok. reflexivity.
Qed.

Fixpoint unops_ok (e : expr) : Prop :=
  match e with
  | Leaf _ => True
  | Pos e | Map _ e => unops_ok e
  | Un u e => unop_ok u /\ unops_ok e
  | Bin _ e1 e2 => unops_ok e1 /\ unops_ok e2
  end.

(* no spurious rejection: when the shapes fit, the operation chain succeeds *)
Theorem veval_total env e : Forall wf env -> unops_ok e -> forall sh,
  eshape (map msh env) e = Some sh -> exists v, veval env e = OK v /\ msh v = sh.
Proof.
  intro Henv. induction e; simpl; intros U sh E.
  - destruct (nth_error env k) eqn:N.
    + exists m. split; auto. erewrite map_nth_error in E by eauto. congruence.
    + rewrite nth_error_map, N in E. discriminate.
  - auto.
  - destruct U as [U1 U2]. destruct (IHe U2 _ E) as [v [Ev Sv]]. rewrite Ev. simpl.
    destruct (veval_sem env e Henv _ Ev) as [_ W]. exists v. rewrite un_sem_ok; auto.
  - destruct U as [U1 U2].
    destruct (eshape (map msh env) e1) as [sa|] eqn:A; [|discriminate].
    destruct (eshape (map msh env) e2) as [sb|] eqn:B; [|discriminate].
    destruct (natlist_eqb sa sb) eqn:AB; [|discriminate]. inversion E; subst.
    apply natlist_eqb_eq in AB. subst sb.
    destruct (IHe1 U1 _ eq_refl) as [v1 [E1 S1]]. destruct (IHe2 U2 _ eq_refl) as [v2 [E2 S2]].
    rewrite E1, E2. simpl.
    destruct (veval_sem env e1 Henv _ E1) as [_ W1]. destruct (veval_sem env e2 Henv _ E2) as [_ W2].
    exists (and_cells v1 v2). rewrite bin_sem_ok by congruence. auto.
  - destruct (eshape (map msh env) e) as [a|] eqn:A; [|discriminate].
    destruct (map_ok m a) eqn:Hok; [|discriminate]. inversion E; subst.
    destruct (IHe U _ eq_refl) as [v [Ev Sv]]. rewrite Ev. simpl. subst a.
    destruct (veval_sem env e Henv _ Ev) as [_ W].
    exists (sem_map m v). rewrite map_sem_ok by auto. auto.
Qed.

(* fields on different meshes: every binary operation rejects *)
Theorem veval_bin_rejects env b e1 e2 v1 v2 :
  veval env e1 = OK v1 -> veval env e2 = OK v2 -> msh v1 <> msh v2 ->
  veval env (Bin b e1 e2) = Err ValueE.
Proof. intros E1 E2 H. simpl. rewrite E1, E2. simpl. apply bin_sem_rejects; auto. Qed.

(* ------------------------------------------------------------------ pointwise reading *)
Definition same_shape (env : list marr) (sh : list nat) : Prop :=
  Forall (fun m => wf m /\ msh m = sh) env.

Lemma sem_map_free_shape env sh e : same_shape env sh -> map_free e = true ->
  (forall k, In k (leaves e) -> k < length env) ->
  wf (sem env e) /\ msh (sem env e) = sh.
Proof.
  intros Henv. induction e; simpl; intros F L.
  - assert (In (nth k env (mkM [] [])) env) by (apply nth_In; apply L; auto).
    unfold same_shape in Henv. rewrite Forall_forall in Henv. apply Henv; auto.
  - auto.
  - auto.
  - apply andb_prop in F. destruct F as [F1 F2].
    destruct IHe1 as [W1 S1]; auto. { intros; apply L; apply in_or_app; auto. }
    destruct IHe2 as [W2 S2]; auto. { intros; apply L; apply in_or_app; auto. }
    split; [apply wf_and_cells; congruence | simpl; auto].
  - discriminate.
Qed.

(* validity of any expression built from unary and binary operations = AND over its field leaves,
   cell by cell *)
Theorem sem_and_over_leaves env sh e i : same_shape env sh -> map_free e = true ->
  (forall k, In k (leaves e) -> k < length env) ->
  mget (sem env e) i = forallb (fun k => mget (nth k env (mkM [] [])) i) (leaves e).
Proof.
  intros Henv. induction e; simpl; intros F L.
  - rewrite andb_true_r. reflexivity.
  - auto.
  - auto.
  - apply andb_prop in F. destruct F as [F1 F2].
    assert (L1 : forall k, In k (leaves e1) -> k < length env) by (intros; apply L; apply in_or_app; auto).
    assert (L2 : forall k, In k (leaves e2) -> k < length env) by (intros; apply L; apply in_or_app; auto).
    rewrite forallb_app, <- IHe1, <- IHe2 by auto.
    destruct (sem_map_free_shape env sh e1 Henv F1 L1) as [W1 S1].
    destruct (sem_map_free_shape env sh e2 Henv F2 L2) as [W2 S2].
    unfold mget at 1. simpl. rewrite nth_map2_andb by (unfold wf in *; congruence).
    unfold mget. rewrite S1, S2. reflexivity.
  - discriminate.
Qed.

(* a mapping operation reads the operand's validity through the same index map as the data *)
Theorem sem_map_pointwise env m e i :
  inb (map_shape m (msh (sem env e))) i = true ->
  mget (sem env (Map m e)) i =
  match map_idx m (msh (sem env e)) i with
  | Some j => mget (sem env e) j
  | None => map_fill m
  end.
Proof. intro H. simpl. rewrite mget_mtab by auto. reflexivity. Qed.

Theorem gather_natural {A B} (g : A -> B) m sh fill (src : idx -> A) i :
  gather m sh (g fill) (fun j => g (src j)) i = g (gather m sh fill src i).
Proof. unfold gather. destruct (map_idx m sh i); reflexivity. Qed.

(* ------------------------------------------------------------------ provenance *)
Theorem eprov_own e : eprov e = PFresh \/ exists k, strip_pos e = Leaf k /\ eprov e = PView k.
Proof.
  induction e; simpl; auto.
  right. exists k. auto.
Qed.

Theorem eprov_fresh e : is_leaf (strip_pos e) = false -> eprov e = PFresh.
Proof. induction e; simpl; intros; auto; discriminate. Qed.

Theorem eprov_pos_aliases : exists e k, e <> Leaf k /\ eprov e = PView k.
Proof. exists (Pos (Leaf 0)), 0. split; [discriminate | reflexivity]. Qed.

(* ------------------------------------------------------------------ setter *)
Lemma chunks_length {A} k c : forall (l : list A), length (chunks k c l) = c.
Proof. induction c; simpl; intros; auto. Qed.

Theorem set_valid_shape n nvdim vals v m : set_valid n nvdim vals v = OK m -> msh m = n /\ wf m.
Proof.
  unfold set_valid, wf. destruct v; intro E.
  - inversion E; subst; simpl. rewrite repeat_length; auto.
  - inversion E; subst; simpl. rewrite repeat_length; auto.
  - inversion E; subst; simpl. rewrite map_length, chunks_length; auto.
  - discriminate.
  - destruct (length cells =? nprod sh) eqn:L; simpl in E; [|discriminate].
    destruct (natlist_eqb sh n) eqn:S.
    + inversion E; subst; simpl. apply natlist_eqb_eq in S. subst.
      rewrite map_length. apply Nat.eqb_eq in L. auto.
    + destruct (rev sh) as [|[|[|x]] t]; try discriminate.
      destruct (bcast_ok sh (n ++ [1])); [|discriminate].
      inversion E; subst; simpl. split; auto. apply to_list_length.
  - destruct (length percell =? nprod n) eqn:L; [|discriminate].
    inversion E; subst; simpl. rewrite map_length. apply Nat.eqb_eq in L. auto.
Qed.

Theorem assign_valid_keeps_values f v f' : assign_valid f v = OK f' ->
  fvals f' = fvals f /\ fn f' = fn f /\ fnvdim f' = fnvdim f /\ msh (fvalid f') = fn f /\ wf (fvalid f').
Proof.
  unfold assign_valid. destruct (set_valid (fn f) (fnvdim f) (fvals f) v) eqn:E; simpl; [|discriminate].
  intro H. inversion H; subst; simpl. apply set_valid_shape in E. tauto.
Qed.

Theorem set_valid_bool_array n nvdim vals cells : length cells = nprod n ->
  set_valid n nvdim vals (VArray n (map SB cells)) = OK (mkM n cells).
Proof.
  intro H. unfold set_valid. rewrite map_length, H, Nat.eqb_refl. simpl.
  rewrite natlist_eqb_refl, map_truthy_SB. reflexivity.
Qed.

Theorem set_valid_int_array n nvdim vals zs : length zs = nprod n ->
  set_valid n nvdim vals (VArray n (map SI zs)) = OK (mkM n (map (fun z => negb (z =? 0)%Z) zs)).
Proof.
  intro H. unfold set_valid. rewrite map_length, H, Nat.eqb_refl. simpl.
  rewrite natlist_eqb_refl, map_map. reflexivity.
Qed.

Theorem norm_valid_iff atol v : norm_valid_at atol v = true <-> (atol * atol < sumsq v)%Q.
Proof.
  unfold norm_valid_at, Qltb. rewrite negb_true_iff.
  split; intro H.
  - apply Qnot_le_lt. intro C. apply Qle_bool_iff in C. congruence.
  - destruct (Qle_bool (sumsq v) (atol * atol)) eqn:E; auto.
    apply Qle_bool_iff in E. exfalso. apply (Qlt_not_le _ _ H). auto.
Qed.

Theorem norm_valid_zero atol v : Forall (fun x => x == 0)%Q v -> (0 <= atol)%Q -> norm_valid_at atol v = false.
Proof.
  intros Hz Ha. unfold norm_valid_at, Qltb. rewrite negb_false_iff. apply Qle_bool_iff.
  assert (S : (sumsq v == 0)%Q).
  { induction Hz; simpl; [reflexivity|]. rewrite IHHz, H. ring. }
  rewrite S. nra.
Qed.

Theorem set_valid_norm n nvdim vals k :
  k < nprod n ->
  forall m, set_valid n nvdim vals VNorm = OK m ->
  nth k (mcells m) true = norm_valid (nth k (chunks nvdim (nprod n) vals) []).
Proof.
  intros Hk m E. simpl in E. inversion E; subst; simpl.
  rewrite (nth_indep _ true (norm_valid [])) by (rewrite map_length, chunks_length; auto).
  apply map_nth.
Qed.
