(* C09: what _to_ovf writes (header formulas, payload layout), what _from_ovf reads (layout,
   OVF 1.0 component count), the label rule (labels without spaces and braces come back unchanged; braces are
   stripped), extend_scalar being ignored for vector fields, and concrete witnesses. *)
From DF Require Import Prelude Constants_gen Region Mesh Ovf C09_layout.
Open Scope Q_scope.

Lemma nth_firstn {A} (l : list A) (m t : nat) (d : A) :
  (t < m)%nat -> nth t (firstn m l) d = nth t l d.
Proof.
  revert m t. induction l; intros m t H; destruct m, t; simpl; try reflexivity; try lia.
  apply IHl. lia.
Qed.

Section Codec.
  Variable V : Type.
  Variable d zero : V.
  Variable wr rd : repr -> V -> V.

  (* ---- writer ---- *)
  Lemma encode_header (f : ofield V) rp extend ss fl sc :
    encode d zero wr f rp extend ss = OK (fl, sc) ->
    let m := of_mesh f in
    f_v2 fl = true /\
    f_base fl = map2 (fun lo c => lo + c / 2) (pmin (reg m)) (cell m) /\
    f_step fl = cell m /\ f_nodes fl = n m /\
    f_min fl = pmin (reg m) /\ f_max fl = pmax (reg m) /\
    f_meshunit fl = hd ""%string (units (reg m)) /\
    f_valuedim fl = Some (Z.of_nat (if extend && (of_nvdim f =? 1)%nat then 3%nat else of_nvdim f)) /\
    f_rep fl = rp /\
    f_check fl = (match rp with RTxt => None | _ => Some (check_value rp) end) /\
    f_tail_ok fl = true.
  Proof.
    unfold encode. intros H.
    destruct (negb (ndim (reg (of_mesh f)) =? 3)%nat); [discriminate|].
    match type of H with (bind ?x _ = _) => destruct x as [labels|]; simpl in H; [|discriminate] end.
    destruct (negb (all_same _)); [discriminate|].
    destruct (dims3 (of_mesh f)) as [[[nx ny] nz]|]; [|discriminate].
    inversion H; subst; clear H. simpl. repeat split; reflexivity.
  Qed.

  Lemma encode_payload (f : ofield V) rp extend ss fl sc :
    extend && (of_nvdim f =? 1)%nat = false ->
    encode d zero wr f rp extend ss = OK (fl, sc) ->
    exists nx ny nz, dims3 (of_mesh f) = Some (nx, ny, nz) /\
      f_payload fl = map (wr rp) (to_ovf_order d nx ny nz (of_nvdim f) (of_vals f)).
  Proof.
    unfold encode. intros He H. rewrite He in H.
    destruct (negb (ndim (reg (of_mesh f)) =? 3)%nat); [discriminate|].
    match type of H with (bind ?x _ = _) => destruct x as [labels|]; simpl in H; [|discriminate] end.
    destruct (negb (all_same _)); [discriminate|].
    destruct (dims3 (of_mesh f)) as [[[nx ny] nz]|]; [|discriminate].
    simpl in H. inversion H; subst; clear H. simpl.
    exists nx, ny, nz. split; reflexivity.
  Qed.

  (* the written block is x fastest: entry ((k*ny+j)*nx+i)*nv+c is the stored value of component c of cell (i,j,k) *)
  Lemma written_layout (f : ofield V) rp extend ss fl sc :
    extend && (of_nvdim f =? 1)%nat = false ->
    encode d zero wr f rp extend ss = OK (fl, sc) ->
    exists nx ny nz, dims3 (of_mesh f) = Some (nx, ny, nz) /\
      length (f_payload fl) = (nz * (ny * (nx * of_nvdim f)))%nat /\
      forall i j k c, (i < nx)%nat -> (j < ny)%nat -> (k < nz)%nat -> (c < of_nvdim f)%nat ->
        nth (opos nx ny (of_nvdim f) i j k c) (f_payload fl) (wr rp d)
        = wr rp (nth (cpos ny nz (of_nvdim f) i j k c) (of_vals f) d).
  Proof.
    intros He H. destruct (encode_payload f rp extend ss fl sc He H) as (nx & ny & nz & Hd & Hp).
    exists nx, ny, nz. split; [exact Hd|]. rewrite Hp. split.
    - rewrite map_length. apply to_ovf_order_length.
    - intros i j k c Hi Hj Hk Hc. rewrite map_nth. f_equal. apply to_ovf_order_nth; assumption.
  Qed.

  (* extend_scalar has no effect on fields with more (or fewer) than one component *)
  Lemma extend_ignored (f : ofield V) rp ss :
    of_nvdim f <> 1%nat -> encode d zero wr f rp true ss = encode d zero wr f rp false ss.
  Proof.
    intros H. unfold encode. apply Nat.eqb_neq in H. rewrite H. reflexivity.
  Qed.

  (* ---- reader ---- *)
  Definition file_vd (fl : ovf_file V) : nat :=
    if f_v2 fl then match f_valuedim fl with Some z => Z.to_nat z | None => 0%nat end else 3%nat.

  Lemma decode_layout (fl : ovf_file V) side f' :
    decode d rd fl side = OK f' ->
    of_nvdim f' = file_vd fl /\
    exists nx ny nz, dims3 (of_mesh f') = Some (nx, ny, nz) /\
      length (of_vals f') = (nx * (ny * (nz * file_vd fl)))%nat /\
      forall i j k c, (i < nx)%nat -> (j < ny)%nat -> (k < nz)%nat -> (c < file_vd fl)%nat ->
        nth (cpos ny nz (file_vd fl) i j k c) (of_vals f') (rd (f_rep fl) d)
        = rd (f_rep fl) (nth (opos nx ny (file_vd fl) i j k c) (f_payload fl) d).
  Proof.
    unfold decode, file_vd. intros H.
    set (vdr := if f_v2 fl then match f_valuedim fl with Some z => OK (Z.to_nat z) | None => Err KeyE end
                else OK 3%nat) in H.
    assert (Hvd : forall vd, vdr = OK vd ->
              vd = (if f_v2 fl then match f_valuedim fl with Some z => Z.to_nat z | None => 0%nat end else 3%nat)).
    { unfold vdr. intros vd E. destruct (f_v2 fl); [destruct (f_valuedim fl)|]; inversion E; reflexivity. }
    destruct vdr as [vd|]; simpl in H; [|discriminate].
    rewrite <- (Hvd vd eq_refl). clear Hvd.
    destruct (negb _); [discriminate|].
    destruct (mk_region _ _ _ _ _) as [r|]; simpl in H; [|discriminate].
    destruct (mesh_by_cell r (f_step fl)) as [m|]; simpl in H; [|discriminate].
    match type of H with (bind ?x _ = _) => destruct x as [data|] eqn:Hdata; simpl in H; [|discriminate] end.
    destruct (dims3 m) as [[[nx ny] nz]|] eqn:Hd3; [|discriminate].
    destruct (negb (length data =? nx * ny * nz * vd)%nat) eqn:Hlen; [discriminate|].
    destruct (vd =? 0)%nat; [discriminate|].
    destruct (field_vdims vd _) as [vds|]; simpl in H; [|discriminate].
    inversion H; subst; clear H. simpl. split; [reflexivity|].
    exists nx, ny, nz. split.
    { destruct side; simpl; exact Hd3. }
    apply Bool.negb_false_iff in Hlen. apply Nat.eqb_eq in Hlen.
    split. { rewrite map_length. apply from_ovf_order_length. }
    intros i j k c Hi Hj Hk Hc.
    rewrite map_nth. f_equal. rewrite from_ovf_order_nth by assumption.
    (* data is a prefix of the payload that contains the position *)
    assert (Hpos : (opos nx ny vd i j k c < length data)%nat).
    { rewrite Hlen. pose proof (opos_lt nx ny nz vd i j k c Hi Hj Hk Hc). nia. }
    assert (Hpre : exists cnt, data = firstn cnt (f_payload fl)).
    { destruct (f_rep fl); simpl in Hdata.
      - inversion Hdata. eexists; reflexivity.
      - destruct (f_check fl); [|discriminate]. destruct (negb (Qeq_bool _ _)); [discriminate|].
        destruct (_ <? _)%nat; [discriminate|]. destruct (negb (f_tail_ok fl)); [discriminate|].
        inversion Hdata. eexists; reflexivity.
      - destruct (f_check fl); [|discriminate]. destruct (negb (Qeq_bool _ _)); [discriminate|].
        destruct (_ <? _)%nat; [discriminate|]. destruct (negb (f_tail_ok fl)); [discriminate|].
        inversion Hdata. eexists; reflexivity. }
    destruct Hpre as [cnt Hpre]. subst data.
    apply nth_firstn. rewrite firstn_length in Hpos. lia.
  Qed.

  (* OVF 1.0: three components whatever the header says *)
  Lemma decode_ovf1 (fl : ovf_file V) side f' :
    f_v2 fl = false -> decode d rd fl side = OK f' -> of_nvdim f' = 3%nat.
  Proof.
    intros Hv H. destruct (decode_layout fl side f' H) as [E _]. rewrite E. unfold file_vd. rewrite Hv. reflexivity.
  Qed.
End Codec.
Arguments file_vd {V}.

(* ---- labels ---- *)
Lemma sp_to_us_id s : has_sp s = false -> sp_to_us s = s.
Proof.
  induction s; simpl; [reflexivity|]. intros H. apply Bool.orb_false_iff in H. destruct H as [H1 H2].
  rewrite H1. f_equal. apply IHs. exact H2.
Qed.

Lemma strip_braces_id s : has_brace s = false -> strip_braces s = s.
Proof.
  induction s; simpl; [reflexivity|]. intros H. apply Bool.orb_false_iff in H. destruct H as [H1 H2].
  rewrite H1. f_equal. apply IHs. exact H2.
Qed.

(* the writer's label field_<c> is read back as c for every c without spaces and braces
   (underscores and any other characters included) *)
Lemma label_roundtrip c : has_sp c = false -> has_brace c = false -> convert_label (field_label c) = c.
Proof.
  intros H1 H2. unfold convert_label, field_label. simpl.
  rewrite strip_braces_id by exact H2. apply sp_to_us_id. exact H1.
Qed.

Lemma labels_roundtrip l :
  Forall label_ok l -> map convert_label (map field_label l) = l.
Proof.
  induction 1 as [|c l [H1 H2] _ IH]; simpl; [reflexivity|].
  rewrite IH. f_equal. apply label_roundtrip; assumption.
Qed.

(* braces are the one remaining exception: the reader strips them *)
Lemma label_braces_lost : convert_label (field_label "{a}") = "a"%string.
Proof. reflexivity. Qed.

(* ---- concrete witnesses on a 2x1x1 mesh, two components ---- *)
Definition wit_mesh : mesh :=
  mkMesh (mkRegion [0; 0; 0] [2; 1; 1] ["x"; "y"; "z"]%string ["m"; "m"; "m"]%string default_tf)
         [2; 1; 1]%Z "" [].
Definition wit_field (labels : list string) : ofield Q :=
  mkOF wit_mesh 2 (Some labels) (Some "A/m"%string) [1; 2; 3; 4].
Definition idQ (_ : repr) (x : Q) : Q := x.
Definition wit_roundtrip (labels : list string) (rp : repr) (extend : bool) : res (ofield Q) :=
  do fs <- encode 0 0 idQ (wit_field labels) rp extend true; decode 0 idQ (fst fs) (snd fs).

Lemma wit_ok : exists f', wit_roundtrip ["a"; "b"]%string RBin8 false = OK f' /\
  of_vdims f' = Some ["a"; "b"]%string /\ of_unit f' = Some "A/m"%string /\ of_nvdim f' = 2%nat /\
  n (of_mesh f') = [2; 1; 1]%Z /\ of_vals f' = [1; 2; 3; 4].
Proof. vm_compute. eexists. split; [reflexivity|]. repeat split. Qed.

Lemma wit_underscore_ok : exists f', wit_roundtrip ["m_x"; "a-b"]%string RBin8 true = OK f' /\
  of_vdims f' = Some ["m_x"; "a-b"]%string /\ of_nvdim f' = 2%nat /\ of_vals f' = [1; 2; 3; 4].
Proof. vm_compute. eexists. split; [reflexivity|]. repeat split. Qed.

Lemma wit_braces_refuted : exists f', wit_roundtrip ["{a}"; "b"]%string RBin8 false = OK f' /\
  of_vdims f' = Some ["a"; "b"]%string.
Proof. vm_compute. eexists. split; reflexivity. Qed.
