(* C09: rejection of damaged binary files by the model of _from_ovf. *)
From DF Require Import Prelude Constants_gen Region Mesh Ovf.
Open Scope Q_scope.

Section Faults.
  Variable V : Type.
  Variable d : V.
  Variable rd : repr -> V -> V.

  Definition is_binary (r : repr) : bool := negb (repr_eqb r RTxt).

  (* number of values the header announces *)
  Definition announced (fl : ovf_file V) : nat :=
    (Z.to_nat (zprod (f_nodes fl)) *
     (if f_v2 fl then match f_valuedim fl with Some z => Z.to_nat z | None => 0 end else 3))%nat.

  Lemma bad_check_rejected (fl : ovf_file V) (side : option sidecar) :
    is_binary (f_rep fl) = true ->
    (forall cv, f_check fl = Some cv -> ~ cv == check_value (f_rep fl)) ->
    is_ok (decode d rd fl side) = false.
  Proof.
    intros Hb Hc. unfold decode.
    destruct (f_v2 fl); [destruct (f_valuedim fl)|]; simpl; try reflexivity;
    (destruct (negb _); [reflexivity|]);
    (destruct (mk_region _ _ _ _ _); simpl; [|reflexivity]);
    (destruct (mesh_by_cell _ _); simpl; [|reflexivity]);
    (destruct (f_rep fl) eqn:Hr; [discriminate Hb| |]);
    (destruct (f_check fl) as [cv|]; simpl; [|reflexivity]);
    (destruct (Qeq_bool cv _) eqn:He; simpl; [|reflexivity]);
    apply Qeq_bool_iff in He; exfalso; apply (Hc cv eq_refl); exact He.
  Qed.

  Lemma short_block_rejected (fl : ovf_file V) (side : option sidecar) :
    is_binary (f_rep fl) = true ->
    (length (f_payload fl) < announced fl)%nat ->
    is_ok (decode d rd fl side) = false.
  Proof.
    intros Hb Hl. unfold decode, announced in *.
    destruct (f_v2 fl); [destruct (f_valuedim fl)|]; simpl; try reflexivity;
    (destruct (negb _); [reflexivity|]);
    (destruct (mk_region _ _ _ _ _); simpl; [|reflexivity]);
    (destruct (mesh_by_cell _ _); simpl; [|reflexivity]);
    (destruct (f_rep fl) eqn:Hr; [discriminate Hb| |]);
    (destruct (f_check fl) as [cv|]; simpl; [|reflexivity]);
    (destruct (negb (Qeq_bool cv _)); simpl; [reflexivity|]);
    (match goal with |- context [(?a <? ?b)%nat] => destruct (Nat.ltb_spec a b) as [H|H] end;
     simpl; [reflexivity | exfalso; lia]).
  Qed.

  (* every proper prefix of a complete data block is rejected *)
  Lemma every_truncation_rejected (fl : ovf_file V) (side : option sidecar) (k : nat) :
    is_binary (f_rep fl) = true ->
    (k < announced fl)%nat ->
    is_ok (decode d rd (mkFile (f_v2 fl) (f_meshunit fl) (f_base fl) (f_nodes fl) (f_step fl) (f_min fl)
                         (f_max fl) (f_valuedim fl) (f_labels fl) (f_units fl) (f_rep fl) (f_check fl)
                         (firstn k (f_payload fl)) (f_cols fl) (f_tail_ok fl)) side) = false.
  Proof.
    intros Hb Hk. apply short_block_rejected; simpl; [exact Hb|].
    unfold announced in *; simpl. rewrite firstn_length. lia.
  Qed.

  (* data present but followed by something that is not the end-of-data marker *)
  Lemma bad_tail_rejected (fl : ovf_file V) (side : option sidecar) :
    is_binary (f_rep fl) = true -> f_tail_ok fl = false ->
    is_ok (decode d rd fl side) = false.
  Proof.
    intros Hb Ht. unfold decode.
    destruct (f_v2 fl); [destruct (f_valuedim fl)|]; simpl; try reflexivity;
    (destruct (negb _); [reflexivity|]);
    (destruct (mk_region _ _ _ _ _); simpl; [|reflexivity]);
    (destruct (mesh_by_cell _ _); simpl; [|reflexivity]);
    (destruct (f_rep fl) eqn:Hr; [discriminate Hb| |]);
    (destruct (f_check fl) as [cv|]; simpl; [|reflexivity]);
    (destruct (negb (Qeq_bool cv _)); simpl; [reflexivity|]);
    (destruct (_ <? _)%nat; simpl; [reflexivity|]);
    rewrite Ht; reflexivity.
  Qed.
  (* the abstract file with another data block / trailer flag / check value: what a byte-level
     truncation or corruption of the same file looks like to the reader *)
  Definition damaged (fl : ovf_file V) (chk : option Q) (p : list V) (tail : bool) : ovf_file V :=
    mkFile (f_v2 fl) (f_meshunit fl) (f_base fl) (f_nodes fl) (f_step fl) (f_min fl) (f_max fl)
           (f_valuedim fl) (f_labels fl) (f_units fl) (f_rep fl) chk p (f_cols fl) tail.

  (* cut inside the check value: nothing complete to compare *)
  Lemma no_check_rejected (fl : ovf_file V) (side : option sidecar) :
    is_binary (f_rep fl) = true -> f_check fl = None -> is_ok (decode d rd fl side) = false.
  Proof.
    intros Hb Hc. unfold decode.
    destruct (f_v2 fl); [destruct (f_valuedim fl)|]; simpl; try reflexivity;
    (destruct (negb _); [reflexivity|]);
    (destruct (mk_region _ _ _ _ _); simpl; [|reflexivity]);
    (destruct (mesh_by_cell _ _); simpl; [|reflexivity]);
    (destruct (f_rep fl) eqn:Hr; [discriminate Hb| |]); rewrite Hc; reflexivity.
  Qed.

  (* every truncation point inside the data block: any prefix of the payload that is shorter than
     announced, whatever check value is (still) there and whatever follows *)
  Lemma every_cut_rejected (fl : ovf_file V) (side : option sidecar) (k : nat) (chk : option Q) (tail : bool) :
    is_binary (f_rep fl) = true -> (k < announced fl)%nat ->
    is_ok (decode d rd (damaged fl chk (firstn k (f_payload fl)) tail) side) = false.
  Proof.
    intros Hb Hk. apply short_block_rejected; [exact Hb|].
    unfold announced, damaged in *. cbn [f_payload f_nodes f_v2 f_valuedim]. rewrite firstn_length. lia.
  Qed.

  (* cuts behind the data block (only trailer bytes are lost; the flag says the rest is still a
     prefix of the end marker): the same field is returned *)
  Lemma cut_in_trailer_same (fl : ovf_file V) (side : option sidecar) (f' : ofield V) (k : nat) :
    is_binary (f_rep fl) = true -> decode d rd fl side = OK f' -> (announced fl <= k)%nat ->
    decode d rd (damaged fl (f_check fl) (firstn k (f_payload fl)) true) side = OK f'.
  Proof.
    intros Hb H Hk. unfold decode, announced, damaged in *.
    cbn [f_v2 f_meshunit f_base f_nodes f_step f_min f_max f_valuedim f_labels f_units f_rep f_check
         f_payload f_cols f_tail_ok].
    set (vdr := if f_v2 fl then match f_valuedim fl with Some z => OK (Z.to_nat z) | None => Err KeyE end
                else OK 3%nat) in *.
    assert (Hvd : forall vd, vdr = OK vd ->
              vd = (if f_v2 fl then match f_valuedim fl with Some z => Z.to_nat z | None => 0%nat end else 3%nat)).
    { unfold vdr. intros vd E. destruct (f_v2 fl); [destruct (f_valuedim fl)|]; inversion E; reflexivity. }
    destruct vdr as [vd|]; [|discriminate H]. rewrite <- (Hvd vd eq_refl) in Hk. clear Hvd.
    cbn [bind] in *.
    destruct (negb _); [discriminate H|].
    destruct (mk_region _ _ _ _ _) as [r|]; cbn [bind] in *; [|discriminate H].
    destruct (mesh_by_cell r (f_step fl)) as [m|]; cbn [bind] in *; [|discriminate H].
    destruct (f_rep fl) eqn:Hr; [discriminate Hb| |];
    (destruct (f_check fl) as [cv|]; [|discriminate H]);
    (destruct (negb (Qeq_bool cv _)); [discriminate H|]);
    (destruct (Nat.ltb_spec (length (f_payload fl)) (Z.to_nat (zprod (f_nodes fl)) * vd)) as [L|L];
       [discriminate H|]);
    (destruct (negb (f_tail_ok fl)); [discriminate H|]);
    rewrite firstn_length, firstn_firstn;
    (destruct (Nat.ltb_spec (Nat.min k (length (f_payload fl))) (Z.to_nat (zprod (f_nodes fl)) * vd)) as [L2|L2];
       [exfalso; lia|]);
    cbn [negb]; rewrite (Nat.min_l _ k) by exact Hk; exact H.
  Qed.
End Faults.
Arguments announced {V}.
Arguments damaged {V}.
