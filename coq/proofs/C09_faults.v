(* C09: rejection of damaged binary files by the model of _from_ovf. *)
From DF Require Import Prelude Constants_gen Region Mesh Ovf.
Open Scope Q_scope.

Section Faults.
  Variable V : Type.
  Variable d : V.
  Variable rd : repr -> V -> V.

  Definition is_binary (r : repr) : bool := negb (repr_eqb r RTxt).

  (* number of values the header announces *)
  Definition announced (fl : ovf_file V) : nat :=
    (Z.to_nat (zprod (f_nodes fl)) *
     (if f_v2 fl then match f_valuedim fl with Some z => Z.to_nat z | None => 0 end else 3))%nat.

  Lemma bad_check_rejected (fl : ovf_file V) (side : option sidecar) :
    is_binary (f_rep fl) = true ->
    (forall cv, f_check fl = Some cv -> ~ cv == check_value (f_rep fl)) ->
    is_ok (decode d rd fl side) = false.
  Proof.
    intros Hb Hc. unfold decode.
    destruct (f_v2 fl); [destruct (f_valuedim fl)|]; simpl; try reflexivity;
    (destruct (negb _); [reflexivity|]);
    (destruct (mk_region _ _ _ _ _); simpl; [|reflexivity]);
    (destruct (mesh_by_cell _ _); simpl; [|reflexivity]);
    (destruct (f_rep fl) eqn:Hr; [discriminate Hb| |]);
    (destruct (f_check fl) as [cv|]; simpl; [|reflexivity]);
    (destruct (Qeq_bool cv _) eqn:He; simpl; [|reflexivity]);
    apply Qeq_bool_iff in He; exfalso; apply (Hc cv eq_refl); exact He.
  Qed.

  Lemma short_block_rejected (fl : ovf_file V) (side : option sidecar) :
    is_binary (f_rep fl) = true ->
    (length (f_payload fl) < announced fl)%nat ->
    is_ok (decode d rd fl side) = false.
  Proof.
    intros Hb Hl. unfold decode, announced in *.
    destruct (f_v2 fl); [destruct (f_valuedim fl)|]; simpl; try reflexivity;
    (destruct (negb _); [reflexivity|]);
    (destruct (mk_region _ _ _ _ _); simpl; [|reflexivity]);
    (destruct (mesh_by_cell _ _); simpl; [|reflexivity]);
    (destruct (f_rep fl) eqn:Hr; [discriminate Hb| |]);
    (destruct (f_check fl) as [cv|]; simpl; [|reflexivity]);
    (destruct (negb (Qeq_bool cv _)); simpl; [reflexivity|]);
    (match goal with |- context [(?a <? ?b)%nat] => destruct (Nat.ltb_spec a b) as [H|H] end;
     simpl; [reflexivity | exfalso; lia]).
  Qed.

  (* every proper prefix of a complete data block is rejected *)
  Lemma every_truncation_rejected (fl : ovf_file V) (side : option sidecar) (k : nat) :
    is_binary (f_rep fl) = true ->
    (k < announced fl)%nat ->
    is_ok (decode d rd (mkFile (f_v2 fl) (f_meshunit fl) (f_base fl) (f_nodes fl) (f_step fl) (f_min fl)
                         (f_max fl) (f_valuedim fl) (f_labels fl) (f_units fl) (f_rep fl) (f_check fl)
                         (firstn k (f_payload fl)) (f_cols fl) (f_tail_ok fl)) side) = false.
  Proof.
    intros Hb Hk. apply short_block_rejected; simpl; [exact Hb|].
    unfold announced in *; simpl. rewrite firstn_length. lia.
  Qed.

  (* data present but followed by something that is not the end-of-data marker *)
  Lemma bad_tail_rejected (fl : ovf_file V) (side : option sidecar) :
    is_binary (f_rep fl) = true -> f_tail_ok fl = false ->
    is_ok (decode d rd fl side) = false.
  Proof.
    intros Hb Ht. unfold decode.
    destruct (f_v2 fl); [destruct (f_valuedim fl)|]; simpl; try reflexivity;
    (destruct (negb _); [reflexivity|]);
    (destruct (mk_region _ _ _ _ _); simpl; [|reflexivity]);
    (destruct (mesh_by_cell _ _); simpl; [|reflexivity]);
    (destruct (f_rep fl) eqn:Hr; [discriminate Hb| |]);
    (destruct (f_check fl) as [cv|]; simpl; [|reflexivity]);
    (destruct (negb (Qeq_bool cv _)); simpl; [reflexivity|]);
    (destruct (_ <? _)%nat; simpl; [reflexivity|]);
    rewrite Ht; reflexivity.
  Qed.
End Faults.
Arguments announced {V}.
