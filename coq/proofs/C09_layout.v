(* C09: the data layout of the OVF block (x fastest) and its inversion, for all shapes,
   polymorphic in the element type. *)
From DF Require Import Prelude Ovf.
From Coq Require Import Arith.

Section Tab.
  Variable A : Type.

  Lemma flat_map_seq_length (g : nat -> list A) (w s m : nat) :
    (forall a, length (g a) = w) -> length (flat_map g (seq s m)) = (m * w)%nat.
  Proof.
    intros H. revert s. induction m; intros s; simpl; [reflexivity|].
    rewrite app_length, H, IHm. reflexivity.
  Qed.

  Lemma nth_flat_map_seq (g : nat -> list A) (w s m a b : nat) (d : A) :
    (forall a, length (g a) = w) -> (a < m)%nat -> (b < w)%nat ->
    nth (a * w + b) (flat_map g (seq s m)) d = nth b (g (s + a)%nat) d.
  Proof.
    intros H. revert s a. induction m; intros s a Ha Hb; [lia|].
    simpl. destruct a.
    - simpl. rewrite app_nth1 by (rewrite H; lia). rewrite Nat.add_0_r. reflexivity.
    - rewrite app_nth2 by (rewrite H; lia). rewrite H.
      replace (S a * w + b - w)%nat with (a * w + b)%nat by lia.
      rewrite IHm by lia. f_equal. f_equal. lia.
  Qed.

  Lemma flat_map_ext_in (f g : nat -> list A) (l : list nat) :
    (forall a, In a l -> f a = g a) -> flat_map f l = flat_map g l.
  Proof.
    induction l; intros H; simpl; [reflexivity|].
    rewrite H by (left; reflexivity). rewrite IHl; [reflexivity|].
    intros b Hb. apply H. right. exact Hb.
  Qed.

  Lemma nth_map_seq (f : nat -> A) (n c : nat) (d : A) :
    (c < n)%nat -> nth c (map f (seq 0 n)) d = f c.
  Proof.
    intros H. rewrite (nth_indep _ d (f 0%nat)) by (rewrite map_length, seq_length; exact H).
    rewrite map_nth. rewrite seq_nth by exact H. reflexivity.
  Qed.

  Lemma map_seq_shift (n s : nat) (f : nat -> A) :
    map f (seq s n) = map (fun t => f (s + t)%nat) (seq 0 n).
  Proof.
    revert s f. induction n; intros s f; simpl; [reflexivity|].
    rewrite Nat.add_0_r. f_equal.
    rewrite (IHn (S s) f). rewrite (IHn 1%nat (fun t => f (s + t)%nat)).
    apply map_ext. intros t. f_equal. lia.
  Qed.

  Variable d : A.

  (* the slice a[off : off+len] *)
  Definition blk (a : list A) (off len : nat) : list A :=
    map (fun t => nth (off + t) a d) (seq 0 len).

  Lemma blk_all (a : list A) : blk a 0 (length a) = a.
  Proof.
    unfold blk. induction a as [|h t IH]; simpl; [reflexivity|].
    f_equal. rewrite (map_seq_shift (length t) 1). simpl. exact IH.
  Qed.

  Lemma blk_split (a : list A) (w m off : nat) :
    blk a off (m * w) = flat_map (fun i => blk a (off + i * w) w) (seq 0 m).
  Proof.
    assert (G : forall m s, map (fun t => nth (off + t) a d) (seq (s * w) (m * w))
                            = flat_map (fun i => blk a (off + i * w) w) (seq s m)).
    { clear m. induction m; intros s; simpl; [reflexivity|].
      rewrite seq_app, map_app. f_equal.
      - unfold blk. rewrite map_seq_shift. apply map_ext. intros t. f_equal. lia.
      - replace (s * w + w)%nat with (S s * w)%nat by lia. apply IHm. }
    unfold blk at 1. rewrite <- (G m 0%nat). reflexivity.
  Qed.
End Tab.

Section Layout.
  Variable V : Type.
  Variable d : V.
  Variables nx ny nz : nat.

  Lemma tab_length {A} (g : nat -> list A) (w m : nat) :
    (forall a, length (g a) = w) -> length (tab m g) = (m * w)%nat.
  Proof. intros H. unfold tab. apply flat_map_seq_length. exact H. Qed.

  (* rows of uniform width w *)
  Lemma ovf_rows_length (row : nat -> nat -> nat -> list V) (w : nat) :
    (forall i j k, length (row i j k) = w) ->
    length (ovf_rows nx ny nz row) = (nz * (ny * (nx * w)))%nat.
  Proof.
    intros H. unfold ovf_rows.
    apply tab_length. intros k. apply tab_length. intros j. apply tab_length. intros i. apply H.
  Qed.

  Lemma ovf_rows_nth (row : nat -> nat -> nat -> list V) (w i j k c : nat) :
    (forall i j k, length (row i j k) = w) ->
    (i < nx)%nat -> (j < ny)%nat -> (k < nz)%nat -> (c < w)%nat ->
    nth (opos nx ny w i j k c) (ovf_rows nx ny nz row) d = nth c (row i j k) d.
  Proof.
    intros H Hi Hj Hk Hc. unfold ovf_rows, tab, opos.
    replace (((k * ny + j) * nx + i) * w + c)%nat
      with (k * (ny * (nx * w)) + (j * (nx * w) + (i * w + c)))%nat by ring.
    assert (B1 : (i * w + c < nx * w)%nat) by nia.
    assert (B2 : (j * (nx * w) + (i * w + c) < ny * (nx * w))%nat) by nia.
    rewrite nth_flat_map_seq with (w := (ny * (nx * w))%nat); try assumption.
    2:{ intros a. apply flat_map_seq_length. intros b. apply flat_map_seq_length. intros e. apply H. }
    rewrite nth_flat_map_seq with (w := (nx * w)%nat); try assumption.
    2:{ intros a. apply flat_map_seq_length. intros e. apply H. }
    rewrite nth_flat_map_seq with (w := w); try assumption.
    2:{ intros a. apply H. }
    reflexivity.
  Qed.

  Variable nv : nat.

  Lemma opos_lt (i j k c : nat) :
    (i < nx)%nat -> (j < ny)%nat -> (k < nz)%nat -> (c < nv)%nat ->
    (opos nx ny nv i j k c < nz * (ny * (nx * nv)))%nat.
  Proof.
    intros Hi Hj Hk Hc. unfold opos.
    assert (A1 : (k * ny + j + 1 <= nz * ny)%nat) by nia.
    assert (A2 : ((k * ny + j) * nx + i + 1 <= nz * ny * nx)%nat) by nia.
    assert (A3 : (((k * ny + j) * nx + i) * nv + c + 1 <= (nz * ny * nx) * nv)%nat) by nia.
    lia.
  Qed.

  Lemma comps_length (a : list V) i j k : length (comps d ny nz nv a i j k) = nv.
  Proof. unfold comps. rewrite map_length, seq_length. reflexivity. Qed.

  Lemma to_ovf_order_length (a : list V) :
    length (to_ovf_order d nx ny nz nv a) = (nz * (ny * (nx * nv)))%nat.
  Proof. unfold to_ovf_order. apply ovf_rows_length. intros. apply comps_length. Qed.

  (* "x fastest": entry ((k*ny + j)*nx + i)*nv + c of the block is component c of cell (i,j,k) *)
  Lemma to_ovf_order_nth (a : list V) (i j k c : nat) :
    (i < nx)%nat -> (j < ny)%nat -> (k < nz)%nat -> (c < nv)%nat ->
    nth (opos nx ny nv i j k c) (to_ovf_order d nx ny nz nv a) d = nth (cpos ny nz nv i j k c) a d.
  Proof.
    intros Hi Hj Hk Hc. unfold to_ovf_order.
    rewrite ovf_rows_nth with (w := nv); try assumption.
    2:{ intros. apply comps_length. }
    unfold comps. apply nth_map_seq. exact Hc.
  Qed.

  Lemma from_ovf_order_length (p : list V) :
    length (from_ovf_order d nx ny nz nv p) = (nx * (ny * (nz * nv)))%nat.
  Proof.
    unfold from_ovf_order.
    apply tab_length. intros i. apply tab_length. intros j. apply tab_length. intros k.
    rewrite map_length, seq_length. reflexivity.
  Qed.

  (* reading: element (i,j,k,c) of the resulting array is entry opos of the block *)
  Lemma from_ovf_order_nth (p : list V) (i j k c : nat) :
    (i < nx)%nat -> (j < ny)%nat -> (k < nz)%nat -> (c < nv)%nat ->
    nth (cpos ny nz nv i j k c) (from_ovf_order d nx ny nz nv p) d = nth (opos nx ny nv i j k c) p d.
  Proof.
    intros Hi Hj Hk Hc. unfold from_ovf_order, tab, cpos.
    replace (((i * ny + j) * nz + k) * nv + c)%nat
      with (i * (ny * (nz * nv)) + (j * (nz * nv) + (k * nv + c)))%nat by ring.
    assert (B1 : (k * nv + c < nz * nv)%nat) by nia.
    assert (B2 : (j * (nz * nv) + (k * nv + c) < ny * (nz * nv))%nat) by nia.
    assert (L : forall i j k, length (map (fun c => nth (opos nx ny nv i j k c) p d) (seq 0 nv)) = nv)
      by (intros; rewrite map_length, seq_length; reflexivity).
    rewrite nth_flat_map_seq with (w := (ny * (nz * nv))%nat); try assumption.
    2:{ intros a. apply flat_map_seq_length. intros b. apply flat_map_seq_length. intros e. apply L. }
    rewrite nth_flat_map_seq with (w := (nz * nv)%nat); try assumption.
    2:{ intros a. apply flat_map_seq_length. intros e. apply L. }
    rewrite nth_flat_map_seq with (w := nv); try assumption.
    2:{ intros a. apply L. }
    simpl. apply nth_map_seq. exact Hc.
  Qed.

  (* C-order retabulation of an array of the right size is the array *)
  Lemma retab (a : list V) :
    length a = (nx * (ny * (nz * nv)))%nat ->
    tab nx (fun i => tab ny (fun j => tab nz (fun k => comps d ny nz nv a i j k))) = a.
  Proof.
    intros HL. transitivity (blk V d a 0 (length a)); [|apply blk_all]. rewrite HL.
    rewrite (blk_split V d a (ny * (nz * nv)) nx 0). unfold tab.
    apply flat_map_ext_in. intros i _.
    rewrite (blk_split V d a (nz * nv) ny). apply flat_map_ext_in. intros j _.
    rewrite (blk_split V d a nv nz). apply flat_map_ext_in. intros k _.
    unfold blk, comps, cpos. apply map_ext. intros c. f_equal. ring.
  Qed.

  (* reading back what was written: the identity on arrays of shape (nx,ny,nz,nv) *)
  Lemma from_to_ovf_order (a : list V) :
    length a = (nx * (ny * (nz * nv)))%nat ->
    from_ovf_order d nx ny nz nv (to_ovf_order d nx ny nz nv a) = a.
  Proof.
    intros HL. transitivity (tab nx (fun i => tab ny (fun j => tab nz (fun k => comps d ny nz nv a i j k)))); [|apply retab; exact HL]. unfold from_ovf_order, tab.
    apply flat_map_ext_in. intros i Hi. apply flat_map_ext_in. intros j Hj.
    apply flat_map_ext_in. intros k Hk. unfold comps.
    apply in_seq in Hi. apply in_seq in Hj. apply in_seq in Hk.
    apply map_ext_in. intros c Hc. apply in_seq in Hc.
    apply to_ovf_order_nth; lia.
  Qed.

  (* ... also through per-value maps and when more values follow (firstn of the announced count) *)
  Lemma from_to_ovf_order_map (a : list V) (g h : V -> V) (extra : list V) :
    length a = (nx * (ny * (nz * nv)))%nat ->
    map h (from_ovf_order d nx ny nz nv
             (firstn (nx * ny * nz * nv) (map g (to_ovf_order d nx ny nz nv a) ++ extra)))
    = map (fun v => h (g v)) a.
  Proof.
    intros HL.
    assert (E : firstn (nx * ny * nz * nv) (map g (to_ovf_order d nx ny nz nv a) ++ extra)
                = map g (to_ovf_order d nx ny nz nv a)).
    { rewrite firstn_app.
      assert (LL : length (map g (to_ovf_order d nx ny nz nv a)) = (nx * ny * nz * nv)%nat)
        by (rewrite map_length, to_ovf_order_length; ring).
      rewrite <- LL at 1. rewrite firstn_all. rewrite LL, Nat.sub_diag. simpl. apply app_nil_r. }
    rewrite E. transitivity (map (fun v => h (g v)) (from_ovf_order d nx ny nz nv (to_ovf_order d nx ny nz nv a))); [|rewrite (from_to_ovf_order a HL); reflexivity].
    rewrite <- (map_map g h).
    (* from_ovf_order commutes with map on in-range positions *)
    unfold from_ovf_order, tab.
    rewrite !flat_map_concat_map, !concat_map, !map_map. f_equal.
    apply map_ext_in. intros i Hi. rewrite !flat_map_concat_map, !concat_map, !map_map. f_equal.
    apply map_ext_in. intros j Hj. rewrite !flat_map_concat_map, !concat_map, !map_map. f_equal.
    apply map_ext_in. intros k Hk. rewrite !map_map.
    apply in_seq in Hi. apply in_seq in Hj. apply in_seq in Hk.
    apply map_ext_in. intros c Hc. apply in_seq in Hc.
    rewrite (nth_indep _ d (g d)).
    2:{ rewrite map_length, to_ovf_order_length. apply opos_lt; lia. }
    rewrite map_nth. reflexivity.
  Qed.
End Layout.
