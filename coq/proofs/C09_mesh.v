(* C09: the reader rebuilds the mesh from min/max/stepsize with Mesh(region, cell): for the
   stepsize the writer stores (cell = edge / n) this returns exactly the original n. *)
From DF Require Import Prelude Constants_gen Region Mesh QLemmas C01_axis C01_nd.
Open Scope Q_scope.

Lemma round_of_integer (x : Q) (z : Z) : x == inject_Z z -> Qround_half_even x = z.
Proof.
  intros H. assert (F : Qfloor x = z) by (rewrite H; apply Qfloor_Z).
  unfold Qround_half_even. cbv zeta. rewrite F.
  assert (C : Qcompare (x - inject_Z z) (1 # 2) = Lt) by (rewrite <- Qlt_alt; lra).
  rewrite C. reflexivity.
Qed.

Section Axis.
  Variables (lo hi : Q) (k : Z).
  Hypothesis Hlh : lo < hi.
  Hypothesis Hk : (0 < k)%Z.
  Let c := cell_of lo hi k.

  Lemma edge_over_cell : (hi - lo) / c == inject_Z k.
  Proof.
    unfold c, cell_of. pose proof (inject_Z_pos k Hk). field. split; intro; lra.
  Qed.

  Lemma c_pos : 0 < c.
  Proof. exact (cell_pos lo hi k Hlh Hk). Qed.

  Lemma n_recovered : Qround_half_even ((hi - lo) / c) = k.
  Proof. apply round_of_integer. exact edge_over_cell. Qed.

  Lemma rem_zero : Qremainder (hi - lo) c == 0.
  Proof.
    unfold Qremainder. assert (F : Qfloor ((hi - lo) / c) = k) by (rewrite edge_over_cell; apply Qfloor_Z).
    rewrite F. pose proof (cell_times_n lo hi k Hk) as E. fold c in E. lra.
  Qed.

  Lemma not_bad_rem tol : 0 <= tol -> bad_rem tol c (hi - lo) = false.
  Proof.
    intros Ht. unfold bad_rem. cbv zeta.
    assert (E : Qltb tol (Qremainder (hi - lo) c) = false) by (apply Qltb_false; rewrite rem_zero; exact Ht).
    rewrite E. reflexivity.
  Qed.

  Lemma c_le_edge : lo + c <= hi.
  Proof.
    pose proof (cell_times_n lo hi k Hk) as E. fold c in E. pose proof c_pos as P.
    assert (1 <= inject_Z k) by (change 1 with (inject_Z 1); rewrite <- Zle_Qle; lia).
    nra.
  Qed.
End Axis.

(* three dimensions: Mesh(region=r, cell=cell m) gives back n *)
Lemma reconstruct3 (r : region) (k0 k1 k2 : Z) (x0 y0 z0 x1 y1 z1 : Q) :
  pmin r = [x0; y0; z0] -> pmax r = [x1; y1; z1] ->
  x0 < x1 -> y0 < y1 -> z0 < z1 -> (0 < k0)%Z -> (0 < k1)%Z -> (0 < k2)%Z -> 0 <= tf r ->
  mesh_by_cell r [cell_of x0 x1 k0; cell_of y0 y1 k1; cell_of z0 z1 k2]
  = OK (mkMesh r [k0; k1; k2] "" []).
Proof.
  intros Hmin Hmax Hx Hy Hz H0 H1 H2 Htf.
  pose proof (c_pos x0 x1 k0 Hx H0) as P0. pose proof (c_pos y0 y1 k1 Hy H1) as P1.
  pose proof (c_pos z0 z1 k2 Hz H2) as P2.
  set (c0 := cell_of x0 x1 k0) in *. set (c1 := cell_of y0 y1 k1) in *. set (c2 := cell_of z0 z1 k2) in *.
  assert (Hat : 0 <= reg_atol r).
  { unfold reg_atol. apply Qmult_le_0_compat; [|exact Htf]. apply Qlt_le_weak.
    apply qlist_min_pos.
    - unfold edges, edges_of. rewrite Hmin, Hmax. simpl. discriminate.
    - unfold edges, edges_of. rewrite Hmin, Hmax. simpl.
      intros e [E | [E | [E | []]]]; subst e; lra. }
  assert (Htol : 0 <= bycell_tol [c0; c1; c2]).
  { unfold bycell_tol. apply Qmult_le_0_compat.
    - apply Qlt_le_weak. apply qlist_min_pos; [discriminate|].
      intros e [E | [E | [E | []]]]; subst e; assumption.
    - unfold divisibility_factor. discriminate. }
  unfold mesh_by_cell, ndim. rewrite Hmin. simpl length. simpl Nat.eqb. simpl negb. cbv iota.
  assert (A1 : Qltb 0 c0 && (Qltb 0 c1 && (Qltb 0 c2 && true)) = true).
  { rewrite !(proj2 (Qltb_true _ _)) by assumption. reflexivity. }
  rewrite A1. simpl negb. cbv iota.
  assert (A2 : contains_pt r [x0; y0; z0] && contains_pt r [x0 + c0; y0 + c1; z0 + c2] = true).
  { unfold contains_pt, ndim. rewrite Hmin, Hmax. simpl.
    pose proof (c_le_edge x0 x1 k0 Hx H0) as L0. pose proof (c_le_edge y0 y1 k1 Hy H1) as L1.
    pose proof (c_le_edge z0 z1 k2 Hz H2) as L2. fold c0 in L0. fold c1 in L1. fold c2 in L2.
    rewrite !(contains1_inside Htf Hat) by lra. reflexivity. }
  rewrite A2. simpl negb. cbv iota.
  assert (A3 : existsb (fun b => b) (map2 (bad_rem (bycell_tol [c0; c1; c2])) [c0; c1; c2] (edges r)) = false).
  { unfold edges, edges_of. rewrite Hmin, Hmax. simpl.
    unfold c0, c1, c2. rewrite !not_bad_rem by assumption. reflexivity. }
  rewrite A3. cbv iota.
  unfold edges, edges_of. rewrite Hmin, Hmax. simpl.
  unfold c0, c1, c2. rewrite !n_recovered by assumption. reflexivity.
Qed.
